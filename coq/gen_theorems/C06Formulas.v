(* Theorems over the closed-form functions translated from the source on every run (tools/gen_formulas.py ->
   GenFormulas.v): for every profile / state / gains and every argument, running the translated program with the
   interpreter of Model/Prog.v gives exactly what the hand-written model function gives (any carrier, any configuration). *)
From Coq Require Import ZArith List Bool.
From RRTK Require Import Num.Num Model.Values Model.Prog Model.MotionProfile Model.FormulaExpr Proofs.FormulaProofs.
From Gen Require Import GenFormulas.
Import ListNotations.
Local Open Scope Z_scope.

Section C06Formulas.
Context {F : Type} {NF : Num F}.

Theorem C06_gen_get_acceleration c (p : @mp F) t :
  interp c (gen_mp_get_acceleration c p t) = Some (Ok (mp_acc c p t)).
Proof.
  unfold gen_mp_get_acceleration, mp_acc, interp.
  destruct (t <? 0); [reflexivity|].
  destruct (t <? mp_t1 p); [ev_run|].
  destruct (t <? mp_t2 p); [ev_run|].
  destruct (t <? mp_t3 p); ev_run.
Qed.

Theorem C06_gen_get_velocity c (p : @mp F) t :
  interp c (gen_mp_get_velocity c p t) = Some (mp_vel c p t).
Proof.
  unfold gen_mp_get_velocity, mp_vel, interp.
  destruct (t <? 0); [reflexivity|].
  destruct (t <? mp_t1 p); [ev_run|].
  destruct (t <? mp_t2 p); [ev_run|].
  destruct (t <? mp_t3 p); ev_run.
Qed.

Theorem C06_gen_get_position c (p : @mp F) t :
  interp c (gen_mp_get_position c p t) = Some (mp_pos c p t).
Proof.
  unfold gen_mp_get_position, mp_pos, t1_term, interp.
  destruct (t <? 0); [reflexivity|].
  destruct (t <? mp_t1 p); [ev_run|].
  destruct (t <? mp_t2 p); [ev_run|].
  destruct (t <? mp_t3 p); ev_run.
Qed.

(* State::update: the two assigned fields are the values of the translated programs; acceleration is not assigned *)
Theorem C14_gen_state_update c (s : @state F) dt :
  exists ep ev, gen_state_update c s dt = (Some ep, Some ev, None) /\
    match interp_f c ev, interp_f c ep with
    | Some rv, Some rp =>
        s_update c s dt = (let! v := rv in let! p := rp in Ok {| s_pos := p; s_vel := v; s_acc := s_acc s |})
    | _, _ => False
    end.
Proof.
  eexists. eexists. split; [reflexivity|].
  unfold interp_f, s_update. ev_run.
Qed.

Theorem C04_gen_k_evaluate c (k : @kvals F) e i d :
  interp_f c (gen_k_evaluate c k e i d) = Some (Ok (k_eval k e i d)).
Proof. unfold gen_k_evaluate, interp_f, k_eval. ev_run. Qed.

(* MotionProfile::new: the translated sequence of lets, asserts and struct fields gives exactly the model's constructor *)
Theorem C07_gen_new c (s0 s1 : @state F) (mv ma : @quantity F) :
  gen_mp_new c s0 s1 mv ma = Some (mp_new c s0 s1 mv ma).
Proof.
  unfold gen_mp_new, mp_new, assert_ge0, expect_time, U_DIMLESS.
  destruct (fltb (s_pos s1) (s_pos s0)); ev_new.
Qed.
End C06Formulas.

Print Assumptions C06_gen_get_acceleration.
Print Assumptions C06_gen_get_velocity.
Print Assumptions C06_gen_get_position.
Print Assumptions C14_gen_state_update.
Print Assumptions C04_gen_k_evaluate.
Print Assumptions C07_gen_new.
