From Coq Require Import ZArith List Bool String Lia.
From RRTK Require Import Num.Num Model.Values Model.Prog Model.MiniRust Model.Combinators Model.Streams Proofs.MiniRustEmb.
From Gen Require Import GenStreams.
Import ListNotations.
Local Open Scope string_scope.
Local Open Scope list_scope.
Local Open Scope Z_scope.
(* C12 / C05: the `Quantity` specialisation of `MovingAverageStream::update` (weights are Quantities, the sum starts from the first
   sample times its weight and runs from index 1, `+=` panics on a unit mismatch between samples, division by
   `Quantity::from(window)`): same development as C12MA.v, against the model's `ma_step` with `ma_acc_q`.
   Text of C12MA.v for reference: `MovingAverageStream::update` (the generic impl, at T = f32) as written in src/streams/control.rs - translated on every
   run - is the model's `ma_step` with `ma_acc_f`, for every window, every cached value, every queue of ANY length and every input:
   an error clears the queue and is cached; an absent sample clears a cached error and changes nothing else; a sample is pushed,
   the `while` loop pops exactly the samples not newer than now - window (`ma_trim`; indexing the emptied queue panics), the end
   times, the shifted start times and the weights are the model's `ma_weights` (an i64 overflow in any of them panics), the
   weighted sum runs over the queue in order from `T::default()` = 0.0 (`ma_sum_f`) and is divided by the window.
   The body uses a VecDeque / Vec API (push_back, pop_front, pop_back, push_front, len, indexing, clear) and a `while` loop: the
   embedding has `EPush`, `EPop`, `EAt`, `EWhile` (fuel = queue length + 1; running out of fuel is an ill-typed outcome, so a
   wrong bound could only make this theorem fail).  Proof: the body is cut into its loops (`*_shape` lemmas by reflexivity), each
   loop body is stepped with the compositional `flatten_*` lemmas (an indexed element's shape is not known until the position
   has been looked up, so these bodies are not normalised blindly), each loop is lifted by induction over the queue. *)
Section MA.
Context {F : Type} {NF : Num F}.
Variable c : cfg.
Notation quantity := (@quantity F).
Notation df := (datum quantity).

Ltac body_of := let t := eval cbv delta [g_ma_q_update] beta in (g_ma_q_update c : @mexpr F) in exact t.
Definition ma_tail : @mexpr F := ltac:(let t := eval cbv delta [g_ma_q_update] beta in (g_ma_q_update c : @mexpr F) in
  match t with ELet _ _ (ELet _ _ ?b) => exact b end).
Definition ma_head : @mexpr F := ltac:(let t := eval cbv delta [g_ma_q_update] beta in (g_ma_q_update c : @mexpr F) in
  match t with ELet _ _ (ELet _ ?m _) => exact m end).
Lemma ma_shape : g_ma_q_update c = ELet (PVar "output") (EVar "get:input") (ELet (PVar "output") ma_head ma_tail).
Proof. reflexivity. Qed.

(* pieces of the tail *)
Definition p_push := EPush (LField (LVar "self") "input_values") false (@EVar F "output").
Definition p_if0 : @mexpr F := ltac:(let t := eval cbv delta [ma_tail] in ma_tail in match t with ESeq _ (ESeq ?x _) => exact x end).
Definition p_while : @mexpr F := ltac:(let t := eval cbv delta [ma_tail] in ma_tail in match t with ESeq _ (ESeq _ (ESeq ?x _)) => exact x end).
Definition p_rest : @mexpr F := ltac:(let t := eval cbv delta [ma_tail] in ma_tail in match t with ESeq _ (ESeq _ (ESeq _ ?x)) => exact x end).
Lemma tail_shape : ma_tail = ESeq p_push (ESeq p_if0 (ESeq p_while p_rest)).
Proof. reflexivity. Qed.
Definition w_cnd : @mexpr F := ltac:(let t := eval cbv delta [p_while] in p_while in match t with EWhile _ ?x _ => exact x end).
Definition w_body : @mexpr F := ltac:(let t := eval cbv delta [p_while] in p_while in match t with EWhile _ _ ?x => exact x end).
Definition b_f1 : @mexpr F := ltac:(let t := eval cbv delta [p_rest] in p_rest in match t with ELet _ _ (ESeq (EFor _ _ ?b) _) => exact b end).
Definition p_rest2 : @mexpr F := ltac:(let t := eval cbv delta [p_rest] in p_rest in match t with ELet _ _ (ESeq _ ?b) => exact b end).
Lemma rest_shape : p_rest = ELet (PVar "end_times") (EArr []) (ESeq (EFor "i" (EField (EVar "self") "input_values") b_f1) p_rest2).
Proof. reflexivity. Qed.
Definition b_f2 : @mexpr F := ltac:(let t := eval cbv delta [p_rest2] in p_rest2 in
  match t with ELet _ _ (ESeq _ (ESeq _ (ELet _ _ (ESeq (EForRange _ _ _ ?b) _)))) => exact b end).
Definition p_rest3 : @mexpr F := ltac:(let t := eval cbv delta [p_rest2] in p_rest2 in
  match t with ELet _ _ (ESeq _ (ESeq _ (ELet _ _ (ESeq _ ?b)))) => exact b end).
Definition b_f3 : @mexpr F := ltac:(let t := eval cbv delta [p_rest3] in p_rest3 in
  match t with ELet _ _ (ESeq (EForRange _ _ _ ?b) _) => exact b end).
Definition p_fin : @mexpr F := ltac:(let t := eval cbv delta [p_rest3] in p_rest3 in
  match t with ELet _ _ (ESeq _ ?b) => exact b end).
Definition e_bound : @mexpr F := EOp 2 [EField (EVar "output") "time"; EField (EVar "self") "window"].
Definition e_len : @mexpr F := ELen (EField (EVar "self") "input_values").
Lemma rest2_shape : p_rest2 =
  ELet (PVar "start_times") (EVar "end_times")
    (ESeq (EPop (LVar "start_times") false)
      (ESeq (EPush (LVar "start_times") true e_bound)
        (ELet (PVar "weights") (ESeq e_len (EArr []))
          (ESeq (EForRange "i" (ELit (VI 0)) e_len b_f2) p_rest3)))).
Proof. reflexivity. Qed.
Definition e_first : @mexpr F :=
  EOp 3 [EField (EAt (EField (EVar "self") "input_values") (ELit (VI 0))) "value"; EAt (EVar "weights") (ELit (VI 0))].
Lemma rest3_shape : p_rest3 = ELet (PVar "value") e_first (ESeq (EForRange "i" (ELit (VI 1)) e_len b_f3) p_fin).
Proof. reflexivity. Qed.

Definition D (d : df) : @mval F := m_dat VQ d.
Definition SELF (q : list df) (val : @mval F) (w : Z) : @mval F :=
  MRec [("input_values", MArr (map D q)); ("value", val); ("window", m_t w)].
Definition E (o : df) (q : list df) (val : @mval F) (w : Z) (O' : @mval F) : @env F :=
  [("output", D o); ("output", O'); ("self", SELF q val w); ("get:input", O')].

Lemma push_ok o q val w O' : flatten (eval c p_push (E o q val w O')) = Ok (ONorm MTup0 (E o (q ++ [o]) val w O')).
Proof. unfold E, SELF. rewrite map_app. reflexivity. Qed.
Lemma if0_ok o d r val w O' : flatten (eval c p_if0 (E o (d :: r) val w O')) = Ok (ONorm MTup0 (E o (d :: r) val w O')).
Proof. reflexivity. Qed.

(* the while loop: pops the samples that are not newer than now - window, re-evaluating the bound each time *)
Fixpoint wl_spec (o : df) (q : list df) val w O' : res (@outcome F) :=
  match q with
  | [] => Ok OPanic
  | d :: r => match isub (d_time o) w with
              | Panic => Panic
              | Ok b => if d_time d <=? b then wl_spec o r val w O' else Ok (ONorm MTup0 (E o q val w O'))
              end
  end.
Lemma cnd_ok o d r val w O' :
  flatten (eval c w_cnd (E o (d :: r) val w O'))
  = match isub (d_time o) w with Panic => Panic | Ok b => Ok (ONorm (MV (VB (d_time d <=? b))) (E o (d :: r) val w O')) end.
Proof. destruct o as [to xo], d as [td xd]. unfold w_cnd. mr_norm. destruct (isub to w); reflexivity. Qed.
Lemma cnd_nil o val w O' : flatten (eval c w_cnd (E o [] val w O')) = Ok OPanic.
Proof. reflexivity. Qed.
Lemma wbody_ok o d r val w O' : flatten (eval c w_body (E o (d :: r) val w O')) = Ok (ONorm MTup0 (E o r val w O')).
Proof. reflexivity. Qed.
Lemma while_spec o val w O' : forall q,
  flatten (while_loop (eval c w_cnd) (eval c w_body) (S (List.length q)) (E o q val w O')) = wl_spec o q val w O'.
Proof.
  induction q as [|d r IH]; cbn [while_loop wl_spec List.length]; rewrite flatten_tbind.
  - rewrite cnd_nil. reflexivity.
  - rewrite cnd_ok. destruct (isub (d_time o) w) as [b|]; [|reflexivity].
    cbn [flatten]. destruct (d_time d <=? b); [|reflexivity].
    rewrite flatten_tbind, wbody_ok. apply IH.
Qed.
Lemma flatten_while f cnd b en :
  flatten (eval c (EWhile f cnd b) en)
  = after (flatten (eval c f en)) (fun v en1 =>
      match v with MV (VI n) => flatten (while_loop (eval c cnd) (eval c b) (Z.to_nat n) en1) | _ => Ok OType end).
Proof.
  cbn [eval]. rewrite flatten_tbind. unfold after. destruct (flatten (eval c f en)) as [[v en1| | | |]|]; try reflexivity.
  destruct v as [[]| | | | | | | | | | | | |]; reflexivity.
Qed.
Lemma while_ok o q val w O' : flatten (eval c p_while (E o q val w O')) = wl_spec o q val w O'.
Proof.
  unfold p_while. rewrite flatten_while.
  assert (H : flatten (eval c (EUs 1 (ELen (EField (EVar "self") "input_values")) (ELit (VI 1))) (E o q val w O'))
              = Ok (ONorm (MV (VI (Z.of_nat (List.length q) + 1))) (E o q val w O'))).
  { unfold E, SELF. cbn -[Z.of_nat Z.add]. rewrite map_length. reflexivity. }
  rewrite H. cbn [after]. replace (Z.to_nat (Z.of_nat (List.length q) + 1)) with (S (List.length q)) by lia.
  apply while_spec.
Qed.
Lemma wl_trim o val w O' : forall q,
  wl_spec o q val w O'
  = match q with
    | [] => Ok OPanic
    | _ => match isub (d_time o) w with
           | Panic => Panic
           | Ok b => match ma_trim q b with [] => Ok OPanic | q' => Ok (ONorm MTup0 (E o q' val w O')) end
           end
    end.
Proof.
  induction q as [|d r IH]; [reflexivity|]. cbn [wl_spec ma_trim].
  destruct (isub (d_time o) w) as [b|]; [|reflexivity].
  destruct (d_time d <=? b); [|reflexivity].
  rewrite IH. destruct r; reflexivity.
Qed.

(* ---- the loop that collects the end times *)
Definition TT (d : df) : @mval F := m_t (d_time d).
Lemma f1_body d acc en' :
  flatten (eval c b_f1 (("i", D d) :: ("end_times", MArr acc) :: en')) = Ok (ONorm MTup0 (("i", D d) :: ("end_times", MArr (acc ++ [TT d])) :: en')).
Proof. reflexivity. Qed.
Lemma f1_loop (items : list df) : forall acc en',
  flatten (for_loop (eval c b_f1) "i" (map D items) (("end_times", MArr acc) :: en'))
  = Ok (ONorm MTup0 (("end_times", MArr (acc ++ map TT items)) :: en')).
Proof.
  induction items as [|d r IH]; intros acc en'; cbn [map for_loop].
  - rewrite app_nil_r. reflexivity.
  - rewrite flatten_tbind, f1_body. cbn [skipn]. rewrite IH, <- app_assoc. reflexivity.
Qed.

(* ---- start_times: the end times shifted by one, with now - window in front *)
Lemma pop_back_ok (l : list (@mval F)) x en' :
  flatten (eval c (EPop (LVar "start_times") false) (("start_times", MArr (l ++ [x])) :: en'))
  = Ok (ONorm (MSome x) (("start_times", MArr l) :: en')).
Proof.
  cbn [eval lval_get lookup String.eqb Ascii.eqb Bool.eqb]. rewrite rev_app_distr. cbn [rev app].
  rewrite rev_involutive. reflexivity.
Qed.
Lemma push_front_ok o q val w O' l X :
  flatten (eval c (EPush (LVar "start_times") true e_bound) (("start_times", MArr l) :: ("end_times", X) :: E o q val w O'))
  = match isub (d_time o) w with
    | Panic => Panic
    | Ok b => Ok (ONorm MTup0 (("start_times", MArr (m_t b :: l)) :: ("end_times", X) :: E o q val w O'))
    end.
Proof. destruct o as [to xo]. unfold e_bound, E, D. mr_norm. destruct (isub to w); reflexivity. Qed.

(* ---- the weights *)
Fixpoint wts (e s : list Z) : res (list Z) :=
  match e, s with
  | x :: e', y :: s' => let! w := isub x y in let! r := wts e' s' in Ok (w :: r)
  | _, _ => Ok []
  end.
Definition WV (w : Z) : @mval F := MV (VQ (q_of_time c w)).
Lemma nth_mid {A B} (f : A -> B) (p : list A) x r : nth_error (map f (p ++ x :: r)) (List.length p) = Some (f x).
Proof. rewrite map_app, nth_error_app2 by (rewrite map_length; lia). rewrite map_length, Nat.sub_diag. reflexivity. Qed.
(* compositional evaluation of the operand-carrying constructs (the value of an indexed element is not known to the
   evaluator until the position has been looked up, so these bodies are stepped instead of normalised) *)
Lemma flatten_op1 o a en :
  flatten (eval c (EOp o [a]) en)
  = after (flatten (eval c a en)) (fun v en1 =>
      match lower_all [v] with Some ws => flatten (of_rv_t (prim_tree c o ws) en1) | None => Ok OType end).
Proof.
  cbn [eval eval_list]. rewrite flatten_tbind. unfold after. destruct (flatten (eval c a en)) as [[v en1| | | |]|]; try reflexivity.
  cbn [eval_list rev app]. destruct (lower_all [v]); reflexivity.
Qed.
Lemma flatten_op2 o a b en :
  flatten (eval c (EOp o [a; b]) en)
  = after (flatten (eval c a en)) (fun v1 en1 => after (flatten (eval c b en1)) (fun v2 en2 =>
      match lower_all [v1; v2] with Some ws => flatten (of_rv_t (prim_tree c o ws) en2) | None => Ok OType end)).
Proof.
  cbn [eval eval_list]. rewrite flatten_tbind. unfold after. destruct (flatten (eval c a en)) as [[v en1| | | |]|]; try reflexivity.
  cbn [eval_list]. rewrite flatten_tbind. destruct (flatten (eval c b en1)) as [[v2 en2| | | |]|]; try reflexivity.
  cbn [eval_list rev app]. destruct (lower_all [v; v2]); reflexivity.
Qed.
Lemma flatten_at a i en :
  flatten (eval c (EAt a i) en)
  = after (flatten (eval c a en)) (fun v en1 => after (flatten (eval c i en1)) (fun w en2 =>
      match v, w with
      | MArr l, MV (VI z) => if 0 <=? z then match nth_error l (Z.to_nat z) with Some x => Ok (ONorm x en2) | None => Ok OPanic end else Ok OPanic
      | _, _ => Ok OType
      end)).
Proof.
  cbn [eval]. rewrite flatten_tbind. unfold after. destruct (flatten (eval c a en)) as [[v en1| | | |]|]; try reflexivity.
  rewrite flatten_tbind. destruct (flatten (eval c i en1)) as [[w en2| | | |]|]; try reflexivity.
  destruct v; try reflexivity. destruct w as [[]| | | | | | | | | | | | |]; try reflexivity.
Qed.
Lemma flatten_qfrom a en :
  flatten (eval c (EQFrom a) en)
  = after (flatten (eval c a en)) (fun v en1 =>
      match v with
      | MV (VQ q) => Ok (ONorm (MV (VQ q)) en1)
      | MV w => Ok (of_rv (apply_op c O_Q_FROM [w]) en1)
      | _ => Ok OType
      end).
Proof.
  cbn [eval]. rewrite flatten_tbind. unfold after. destruct (flatten (eval c a en)) as [[v en1| | | |]|]; try reflexivity.
  destruct v as [[]| | | | | | | | | | | | |]; reflexivity.
Qed.
Lemma flatten_push l fr a en :
  flatten (eval c (EPush l fr a) en)
  = after (flatten (eval c a en)) (fun v en1 =>
      match lval_get l en1 with
      | Some (MArr items) => match lval_set l (MArr (if fr then v :: items else items ++ [v])) en1 with Some en2 => Ok (ONorm MTup0 en2) | None => Ok OType end
      | _ => Ok OType
      end).
Proof.
  cbn [eval]. rewrite flatten_tbind. unfold after. destruct (flatten (eval c a en)) as [[v en1| | | |]|]; try reflexivity.
  destruct (lval_get l en1) as [[]|]; try reflexivity. destruct (lval_set l _ en1); reflexivity.
Qed.
Lemma flatten_field a f en :
  flatten (eval c (EField a f) en) = after (flatten (eval c a en)) (fun v en1 => match field_of v f with Some w => Ok (ONorm w en1) | None => Ok OType end).
Proof.
  cbn [eval]. rewrite flatten_tbind. unfold after. destruct (flatten (eval c a en)) as [[v en1| | | |]|]; try reflexivity.
  destruct (field_of v f); reflexivity.
Qed.

Lemma flatten_var x en : flatten (eval c (EVar x) en) = match lookup x en with Some v => Ok (ONorm v en) | None => Ok OType end.
Proof. cbn [eval]. destruct (lookup x en); reflexivity. Qed.
Ltac look := cbn [lookup String.eqb Ascii.eqb Bool.eqb after].
Ltac vars := repeat (rewrite flatten_var; look).
Lemma f2_body z x y (A B : list (@mval F)) wsv en' :
  (0 <=? z) = true -> nth_error A (Z.to_nat z) = Some (m_t x) -> nth_error B (Z.to_nat z) = Some (m_t y) ->
  flatten (eval c b_f2 (("i", MV (VI z)) :: ("weights", MArr wsv) :: ("start_times", MArr B) :: ("end_times", MArr A) :: en'))
  = match isub x y with
    | Panic => Panic
    | Ok w => Ok (ONorm MTup0 (("i", MV (VI z)) :: ("weights", MArr (wsv ++ [WV w])) :: ("start_times", MArr B) :: ("end_times", MArr A) :: en'))
    end.
Proof.
  intros H0 HA HB. unfold b_f2, WV.
  rewrite flatten_seq, flatten_push, flatten_qfrom, flatten_op2.
  rewrite flatten_at. vars. rewrite H0, HA. look.
  rewrite flatten_at. vars. rewrite H0, HB. look.
  cbn [m_t lower_all lower prim_tree Z.eqb Pos.eqb orb of_rv_t tmap flatten].
  destruct (isub x y) as [w|]; reflexivity.
Qed.

Lemma f2_loop (er : list Z) : forall (sr ep sp : list Z) wsv en', List.length sp = List.length ep -> List.length sr = List.length er ->
  flatten (for_range (eval c b_f2) "i" (Z.of_nat (List.length ep)) (List.length er)
             (("weights", MArr wsv) :: ("start_times", MArr (map m_t (sp ++ sr))) :: ("end_times", MArr (map m_t (ep ++ er))) :: en'))
  = match wts er sr with
    | Panic => Panic
    | Ok l => Ok (ONorm MTup0 (("weights", MArr (wsv ++ map WV l)) :: ("start_times", MArr (map m_t (sp ++ sr))) :: ("end_times", MArr (map m_t (ep ++ er))) :: en'))
    end.
Proof.
  induction er as [|x er IH]; intros sr ep sp wsv en' Hp Hr.
  - cbn [for_range List.length wts map]. rewrite !app_nil_r. reflexivity.
  - destruct sr as [|y sr]; [discriminate|]. cbn [List.length for_range wts]. rewrite flatten_tbind.
    rewrite (f2_body _ x y).
    + destruct (isub x y) as [w|]; [|reflexivity]. cbn [skipn bind].
      replace (Z.of_nat (List.length ep) + 1) with (Z.of_nat (List.length (ep ++ [x]))) by (rewrite app_length; cbn [List.length]; lia).
      replace (ep ++ x :: er) with ((ep ++ [x]) ++ er) by (rewrite <- app_assoc; reflexivity).
      replace (sp ++ y :: sr) with ((sp ++ [y]) ++ sr) by (rewrite <- app_assoc; reflexivity).
      rewrite IH by (rewrite ?app_length; cbn [List.length] in *; lia).
      destruct (wts er sr) as [l|]; [|reflexivity]. cbn [map]. rewrite <- app_assoc. reflexivity.
    + apply Z.leb_le. lia.
    + rewrite Nat2Z.id. apply nth_mid.
    + rewrite Nat2Z.id, <- Hp. apply nth_mid.
Qed.

(* ---- the weighted sum (f32 payload: value starts at 0.0) *)
Lemma flatten_opassign l o a en :
  flatten (eval c (EOpAssign l o a) en)
  = after (flatten (eval c a en)) (fun v en1 =>
      match lval_get l en1 with
      | Some old =>
          match lower old, lower v with
          | Some x, Some y =>
              match flatten (prim_tree c o [x; y]) with
              | Ok (RVal w) => match lval_set l (lift w) en1 with Some en2 => Ok (ONorm MTup0 en2) | None => Ok OType end
              | Ok RPanic => Ok OPanic
              | Ok RType => Ok OType
              | Panic => Panic
              end
          | _, _ => Ok OType
          end
      | None => Ok OType
      end).
Proof.
  cbn [eval]. rewrite flatten_tbind. unfold after. destruct (flatten (eval c a en)) as [[v en1| | | |]|]; try reflexivity.
  destruct (lval_get l en1) as [old|]; [|reflexivity]. destruct (lower old), (lower v); try reflexivity.
  rewrite flatten_tmap. destruct (flatten (prim_tree c o [v0; v1])) as [[w| |]|]; try reflexivity.
  destruct (lval_set l (lift w) en1); reflexivity.
Qed.
Lemma f3_body z (d : df) (w : Z) (a : quantity) (Q W : list (@mval F)) S0 S1 val win o1 o2 tl :
  (0 <=? z) = true -> nth_error Q (Z.to_nat z) = Some (D d) -> nth_error W (Z.to_nat z) = Some (WV w) ->
  let en' := ("start_times", S0) :: ("end_times", S1) :: ("output", o1) :: ("output", o2) :: ("self", MRec [("input_values", MArr Q); ("value", val); ("window", win)]) :: tl in
  flatten (eval c b_f3 (("i", MV (VI z)) :: ("value", MV (VQ a)) :: ("weights", MArr W) :: en'))
  = match qadd c a (qmul c (d_val d) (q_of_time c w)) with
    | Panic => Panic
    | Ok a' => Ok (ONorm MTup0 (("i", MV (VI z)) :: ("value", MV (VQ a')) :: ("weights", MArr W) :: en'))
    end.
Proof.
  intros H0 HQ HW en'. subst en'. unfold b_f3, WV in *.
  rewrite flatten_seq, flatten_opassign, flatten_op2, flatten_field, flatten_at, flatten_field. vars.
  cbn [field_of lookup String.eqb Ascii.eqb Bool.eqb after]. vars. rewrite H0, HQ. look.
  unfold D, m_dat. cbn [field_of String.eqb Ascii.eqb Bool.eqb after].
  rewrite flatten_at. vars. rewrite H0, HW. look.
  cbn -[qadd qmul q_of_time]. destruct (qadd c a (qmul c (d_val d) (q_of_time c w))); reflexivity.
Qed.
Definition EN3 (S0 S1 o1 o2 : @mval F) (tl : @env F) (Q : list (@mval F)) val win : @env F :=
  ("start_times", S0) :: ("end_times", S1) :: ("output", o1) :: ("output", o2) :: ("self", MRec [("input_values", MArr Q); ("value", val); ("window", win)]) :: tl.
Lemma f3_loop (qr : list df) : forall (wr : list Z) (qp : list df) (wp : list Z) (a : quantity) S0 S1 o1 o2 tl val win,
  List.length wp = List.length qp -> List.length wr = List.length qr ->
  flatten (for_range (eval c b_f3) "i" (Z.of_nat (List.length qp)) (List.length qr)
             (("value", MV (VQ a)) :: ("weights", MArr (map WV (wp ++ wr))) :: EN3 S0 S1 o1 o2 tl (map D (qp ++ qr)) val win))
  = match ma_sum_q c qr wr a with
    | Panic => Panic
    | Ok a' => Ok (ONorm MTup0 (("value", MV (VQ a')) :: ("weights", MArr (map WV (wp ++ wr))) :: EN3 S0 S1 o1 o2 tl (map D (qp ++ qr)) val win))
    end.
Proof.
  induction qr as [|d qr IH]; intros wr qp wp a S0 S1 o1 o2 tl val win Hp Hr.
  - destruct wr; reflexivity.
  - destruct wr as [|w wr]; [discriminate|]. cbn [List.length for_range ma_sum_q]. rewrite flatten_tbind.
    unfold EN3. rewrite (f3_body _ d w).
    + destruct (qadd c a (qmul c (d_val d) (q_of_time c w))) as [a'|]; [|reflexivity]. cbn [skipn bind].
      replace (Z.of_nat (List.length qp) + 1) with (Z.of_nat (List.length (qp ++ [d]))) by (rewrite app_length; cbn [List.length]; lia).
      replace (qp ++ d :: qr) with ((qp ++ [d]) ++ qr) by (rewrite <- app_assoc; reflexivity).
      replace (wp ++ w :: wr) with ((wp ++ [w]) ++ wr) by (rewrite <- app_assoc; reflexivity).
      apply (IH wr (qp ++ [d]) (wp ++ [w])); rewrite ?app_length; cbn [List.length] in *; lia.
    + apply Z.leb_le. lia.
    + rewrite Nat2Z.id. apply nth_mid.
    + rewrite Nat2Z.id, <- Hp. apply nth_mid.
Qed.

Lemma fin_ok (a : quantity) W S0 S1 (o : df) q val w O' :
  flatten (eval c p_fin (("value", MV (VQ a)) :: ("weights", W) :: ("start_times", S0) :: ("end_times", S1) :: E o q val w O'))
  = Ok (ONorm (MOk MTup0) (("value", MV (VQ (qdiv c a (q_of_time c w)))) :: ("weights", W) :: ("start_times", S0) :: ("end_times", S1)
                           :: E o q (MOk (MSome (m_dat VQ (mkDatum (d_time o) (qdiv c a (q_of_time c w)))))) w O')).
Proof. destruct o as [to xo]. reflexivity. Qed.

(* list facts: the weights of the model are the differences of the end times and the shifted end times; a trimmed queue that
   is not empty still ends with the newest sample *)
Lemma wts_ma (q : list df) : forall b, wts (map (@d_time quantity) q) (b :: map (@d_time quantity) q) = ma_weights q b.
Proof.
  induction q as [|d r IH]; intros b; [reflexivity|]. cbn [map wts ma_weights].
  destruct (isub (d_time d) b) as [w|]; [|reflexivity]. cbn [bind]. rewrite IH. reflexivity.
Qed.
Lemma wts_extra (e : list Z) : forall s extra, (List.length e <= List.length s)%nat -> wts e (s ++ extra) = wts e s.
Proof.
  induction e as [|x e IH]; intros s extra H; [destruct s; reflexivity|].
  destruct s as [|y s]; [cbn in H; lia|]. cbn [app wts]. rewrite IH by (cbn in H; lia). reflexivity.
Qed.
Lemma trim_last (o : df) (q0 : list df) b : ma_trim (q0 ++ [o]) b = [] \/ exists q1, ma_trim (q0 ++ [o]) b = q1 ++ [o].
Proof.
  induction q0 as [|d r IH]; cbn [app ma_trim].
  - destruct (d_time o <=? b); [left; reflexivity|right; exists []; reflexivity].
  - destruct (d_time d <=? b); [exact IH|]. right. exists (d :: r). reflexivity.
Qed.

Lemma flatten_for_expr x coll body en :
  flatten (eval c (EFor x coll body) en)
  = after (flatten (eval c coll en)) (fun v en1 => match v with MArr items => flatten (for_loop (eval c body) x items en1) | _ => Ok OType end).
Proof.
  cbn [eval]. rewrite flatten_tbind. unfold after. destruct (flatten (eval c coll en)) as [[v en1| | | |]|]; try reflexivity.
  destruct v; reflexivity.
Qed.
Lemma flatten_forrange x lo hi body en :
  flatten (eval c (EForRange x lo hi body) en)
  = after (flatten (eval c lo en)) (fun a en1 => after (flatten (eval c hi en1)) (fun b en2 =>
      match a, b with MV (VI p), MV (VI q) => flatten (for_range (eval c body) x p (Z.to_nat (q - p)) en2) | _, _ => Ok OType end)).
Proof.
  cbn [eval]. rewrite flatten_tbind. unfold after. destruct (flatten (eval c lo en)) as [[a en1| | | |]|]; try reflexivity.
  rewrite flatten_tbind. destruct (flatten (eval c hi en1)) as [[b en2| | | |]|]; try reflexivity.
  destruct a as [[]| | | | | | | | | | | | |]; try reflexivity. destruct b as [[]| | | | | | | | | | | | |]; reflexivity.
Qed.
Lemma len_ok o q val w O' pre :
  flatten (eval c e_len (pre ++ E o q val w O')) = Ok (ONorm (MV (VI (Z.of_nat (List.length q)))) (pre ++ E o q val w O')) ->
  True.
Proof. trivial. Qed.

Lemma pop_back_ok' (L l : list (@mval F)) x en' : L = l ++ [x] ->
  flatten (eval c (EPop (LVar "start_times") false) (("start_times", MArr L) :: en')) = Ok (ONorm (MSome x) (("start_times", MArr l) :: en')).
Proof. intros ->. apply pop_back_ok. Qed.
Lemma flatten_len a en :
  flatten (eval c (ELen a) en)
  = after (flatten (eval c a en)) (fun v en1 => match v with MArr l => Ok (ONorm (MV (VI (Z.of_nat (List.length l)))) en1) | _ => Ok OType end).
Proof.
  cbn [eval]. rewrite flatten_tbind. unfold after. destruct (flatten (eval c a en)) as [[v en1| | | |]|]; try reflexivity.
  destruct v; reflexivity.
Qed.
Lemma elen_ok o q val w O' pre :
  lookup "self" (pre ++ E o q val w O') = Some (SELF q val w) ->
  flatten (eval c e_len (pre ++ E o q val w O')) = Ok (ONorm (MV (VI (Z.of_nat (List.length q)))) (pre ++ E o q val w O')).
Proof.
  intros H. unfold e_len. rewrite flatten_len, flatten_field, flatten_var, H.
  unfold SELF. cbn -[Z.of_nat]. rewrite map_length. reflexivity.
Qed.

Lemma ma_weights_len (q : list df) : forall b ws, ma_weights q b = Ok ws -> List.length ws = List.length q.
Proof.
  induction q as [|d r IH]; intros b ws H; cbn [ma_weights] in H.
  - inversion H. reflexivity.
  - destruct (isub (d_time d) b); [|discriminate]. cbn [bind] in H. destruct (ma_weights r (d_time d)) eqn:E; [|discriminate].
    inversion H. cbn [List.length]. f_equal. eapply IH. exact E.
Qed.
Definition acc_out (o : df) (q : list df) (ws : list Z) (w : Z) (O' : @mval F) (pre : @env F) : res (@outcome F) :=
  match ma_acc_q c q ws w with
  | Panic => Panic
  | Ok v => Ok (ONorm (MOk MTup0) (pre ++ E o q (MOk (MSome (m_dat VQ (mkDatum (d_time o) v)))) w O'))
  end.
Lemma rest3_ok (o : df) (q : list df) (ws : list Z) S0 S1 val w O' : List.length ws = List.length q -> q <> [] ->
  flatten (eval c p_rest3 (("weights", MArr (map WV ws)) :: ("start_times", S0) :: ("end_times", S1) :: E o q val w O'))
  = acc_out o q ws w O' [("weights", MArr (map WV ws)); ("start_times", S0); ("end_times", S1)].
Proof.
  intros Hl Hne. destruct q as [|d0 r]; [contradiction|]. destruct ws as [|w0 wr]; [discriminate|].
  unfold acc_out. rewrite rest3_shape, flatten_let.
  assert (H1 : flatten (eval c e_first (("weights", MArr (map WV (w0 :: wr))) :: ("start_times", S0) :: ("end_times", S1) :: E o (d0 :: r) val w O'))
               = Ok (ONorm (MV (VQ (qmul c (d_val d0) (q_of_time c w0))))
                       (("weights", MArr (map WV (w0 :: wr))) :: ("start_times", S0) :: ("end_times", S1) :: E o (d0 :: r) val w O'))) by reflexivity.
  rewrite H1. cbn [after]. rewrite flatten_seq, flatten_forrange.
  match goal with |- context [flatten (eval c (ELit (VI 1)) ?en)] => change (flatten (eval c (ELit (VI 1)) en)) with (Ok (ONorm (@MV F (VI 1)) en)) end.
  cbn [after].
  match goal with |- context [flatten (eval c e_len (?a :: ?b :: ?c0 :: ?d :: E o ?q val w O'))] =>
    change (a :: b :: c0 :: d :: E o q val w O') with ([a; b; c0; d] ++ E o q val w O') end.
  rewrite elen_ok by reflexivity. cbn [after app].
  replace (Z.to_nat (Z.of_nat (List.length (d0 :: r)) - 1)) with (List.length r) by (cbn [List.length]; lia).
  assert (Hl' : List.length wr = List.length r) by (cbn [List.length] in Hl; lia).
  pose proof (f3_loop r wr [d0] [w0] (qmul c (d_val d0) (q_of_time c w0)) S0 S1 (D o) O' [("get:input", O')] val (m_t w) eq_refl Hl') as H3.
  cbn [app List.length] in H3. change (Z.of_nat 1) with 1 in H3. unfold EN3 in H3.
  unfold E at 1, SELF at 1. rewrite H3. cbn [ma_acc_q].
  destruct (ma_sum_q c r wr (qmul c (d_val d0) (q_of_time c w0))) as [sm|]; [|reflexivity]. cbn [after bind].
  fold (SELF (d0 :: r) val w).
  change (("start_times", S0) :: ("end_times", S1) :: ("output", D o) :: ("output", O') :: ("self", SELF (d0 :: r) val w) :: [("get:input", O')])
    with (("start_times", S0) :: ("end_times", S1) :: E o (d0 :: r) val w O').
  rewrite fin_ok. cbn [after skipn]. reflexivity.
Qed.

Lemma rest2_ok (o ol : df) (q1 : list df) val w O' b : isub (d_time o) w = Ok b ->
  let q := q1 ++ [ol] in
  flatten (eval c p_rest2 (("end_times", MArr (map TT q)) :: E o q val w O'))
  = match ma_weights q b with
    | Panic => Panic
    | Ok ws => acc_out o q ws w O' [("end_times", MArr (map TT q))]
    end.
Proof.
  intros Hb q.
  assert (HT : map TT q = map TT q1 ++ [TT ol]) by (unfold q; rewrite map_app; reflexivity).
  rewrite rest2_shape, flatten_let. vars. rewrite flatten_seq.
  rewrite (pop_back_ok' _ _ _ _ HT). cbn [after]. rewrite flatten_seq.
  rewrite push_front_ok, Hb. cbn [after]. rewrite flatten_let.
  set (EN := ("start_times", MArr (m_t b :: map TT q1)) :: ("end_times", MArr (map TT q)) :: E o q val w O').
  assert (HW : flatten (eval c (ESeq e_len (EArr [])) EN) = Ok (ONorm (MArr []) EN)).
  { rewrite flatten_seq. change EN with ([("start_times", MArr (m_t b :: map TT q1)); ("end_times", MArr (map TT q))] ++ E o q val w O').
    rewrite elen_ok by reflexivity. reflexivity. }
  rewrite HW. cbn [after]. rewrite flatten_seq, flatten_forrange.
  match goal with |- context [flatten (eval c (ELit (VI 0)) ?en)] => change (flatten (eval c (ELit (VI 0)) en)) with (Ok (ONorm (@MV F (VI 0)) en)) end.
  cbn [after].
  change (("weights", MArr []) :: EN) with ([("weights", @MArr F []); ("start_times", MArr (m_t b :: map TT q1)); ("end_times", MArr (map TT q))] ++ E o q val w O').
  rewrite elen_ok by reflexivity. cbn [after app].
  replace (Z.to_nat (Z.of_nat (List.length q) - 0)) with (List.length q) by lia.
  assert (Hlen : List.length (b :: map (@d_time quantity) q1) = List.length (map (@d_time quantity) q)).
  { unfold q. rewrite !map_length, app_length. cbn [List.length]. rewrite map_length. lia. }
  pose proof (f2_loop (map (@d_time quantity) q) (b :: map (@d_time quantity) q1) [] [] [] (E o q val w O') eq_refl Hlen) as H2.
  cbn [app List.length map] in H2. change (Z.of_nat 0) with 0 in H2. rewrite !map_map, map_length in H2.
  change (map (fun x : df => m_t (d_time x))) with (map TT) in H2.
  rewrite H2. clear H2.
  assert (Hw : wts (map (@d_time quantity) q) (b :: map (@d_time quantity) q1) = ma_weights q b).
  { rewrite <- wts_ma. unfold q at 3. rewrite map_app. cbn [map]. change (b :: map (@d_time quantity) q1 ++ [d_time ol]) with ((b :: map (@d_time quantity) q1) ++ [d_time ol]).
    rewrite wts_extra; [reflexivity|]. rewrite Hlen. lia. }
  rewrite Hw. destruct (ma_weights q b) as [ws|] eqn:Ews; [|reflexivity].
  cbn [after]. rewrite rest3_ok; [|eapply ma_weights_len; exact Ews|unfold q; destruct q1; discriminate].
  unfold acc_out. destruct (ma_acc_q c q ws w); reflexivity.
Qed.

Lemma rest_ok (o ol : df) (q1 : list df) val w O' b : isub (d_time o) w = Ok b ->
  let q := q1 ++ [ol] in
  flatten (eval c p_rest (E o q val w O'))
  = match ma_weights q b with
    | Panic => Panic
    | Ok ws => acc_out o q ws w O' []
    end.
Proof.
  intros Hb q. rewrite rest_shape, flatten_let.
  match goal with |- context [flatten (eval c (EArr []) ?en)] => change (flatten (eval c (EArr []) en)) with (Ok (ONorm (@MArr F []) en)) end.
  cbn [after]. rewrite flatten_seq, flatten_for_expr, flatten_field. vars.
  unfold E at 1, SELF at 1. cbn [lookup String.eqb Ascii.eqb Bool.eqb after field_of].
  fold (SELF q val w). fold (E o q val w O').
  rewrite f1_loop. cbn [after app]. subst q.
  rewrite (rest2_ok o ol q1 val w O' b Hb).
  destruct (ma_weights (q1 ++ [ol]) b) as [ws|]; [|reflexivity]. unfold acc_out. destruct (ma_acc_q c (q1 ++ [ol]) ws w); reflexivity.
Qed.

Lemma tail_ok (o : df) (q0 : list df) val w O' :
  flatten (eval c ma_tail (E o q0 val w O'))
  = match isub (d_time o) w with
    | Panic => Panic
    | Ok b => match ma_trim (q0 ++ [o]) b with
              | [] => Ok OPanic
              | q => match ma_weights q b with
                     | Panic => Panic
                     | Ok ws => acc_out o q ws w O' []
                     end
              end
    end.
Proof.
  rewrite tail_shape, flatten_seq, push_ok. cbn [after]. rewrite flatten_seq.
  remember (q0 ++ [o]) as Q eqn:HQ. destruct Q as [|d r]; [destruct q0; discriminate|].
  rewrite if0_ok. cbn [after]. rewrite flatten_seq, while_ok, wl_trim.
  destruct (isub (d_time o) w) as [b|] eqn:Hb; [|reflexivity].
  destruct (trim_last o q0 b) as [Hn|(q1 & Hq)]; rewrite <- HQ in *.
  - rewrite Hn. reflexivity.
  - rewrite Hq. remember (q1 ++ [o]) as Q1 eqn:HQ1. destruct Q1 as [|d1 r1]; [destruct q1; discriminate|].
    cbn [after]. rewrite HQ1.
    rewrite (rest_ok o o q1 val w O' b Hb). reflexivity.
Qed.

Definition m_ma (s : @mavg quantity) : @mval F := SELF (ma_q s) (m_out VQ (ma_val s)) (ma_win s).
Lemma canon_D_list (q : list df) :
  (fix go (l : list (@mval F)) : list (@mval F) := match l with [] => [] | v :: r => canon v :: go r end) (map D q) = map D q.
Proof. induction q as [|d r IH]; [reflexivity|]. cbn [map]. rewrite IH. reflexivity. Qed.
Lemma canon_self (q : list df) (v : out quantity) w : canon (SELF q (m_out VQ v) w) = SELF q (m_out VQ v) w.
Proof.
  unfold SELF. cbn [canon]. rewrite canon_D_list. destruct v as [e| |[t x]]; reflexivity.
Qed.

Lemma canon_self' (q : list df) (v : @mval F) w : canon v = v -> canon (SELF q v w) = SELF q v w.
Proof. intros H. unfold SELF. cbn [canon]. rewrite canon_D_list, H. reflexivity. Qed.

Theorem C12_gen_ma_q_update (s : @mavg quantity) (i : out quantity) :
  run_fn c (g_ma_q_update c) (m_ma s) [("get:input", m_out VQ i)] = m_step m_ma (ma_step (ma_acc_q c) s i).
Proof.
  destruct s as [w val q]. unfold run_fn, m_ma. cbn [ma_q ma_val ma_win].
  destruct i as [e| |o].
  - (* error: the window is cleared *)
    assert (H : flatten (eval c (g_ma_q_update c) [("self", SELF q (m_out VQ val) w); ("get:input", m_out VQ (OErr e))])
                = Ok (ORet (MErr (MErrV e)) [("error", MErrV e); ("output", m_out VQ (OErr e)); ("self", SELF [] (m_out VQ (OErr e)) w); ("get:input", m_out VQ (OErr e))])) by reflexivity.
    rewrite H. unfold finish. cbn [List.length Nat.sub skipn lookup String.eqb Ascii.eqb Bool.eqb].
    rewrite (canon_self [] (OErr e) w). reflexivity.
  - (* absent: a cached error is cleared, nothing else changes *)
    destruct val as [e| |d].
    + assert (H : flatten (eval c (g_ma_q_update c) [("self", SELF q (m_out VQ (OErr e)) w); ("get:input", m_out VQ ONone)])
                  = Ok (ORet (MOk MTup0) [("output", m_out VQ ONone); ("self", SELF q (m_out VQ ONone) w); ("get:input", m_out VQ ONone)])) by reflexivity.
      rewrite H. unfold finish. cbn [List.length Nat.sub skipn lookup String.eqb Ascii.eqb Bool.eqb].
      rewrite (canon_self q ONone w). reflexivity.
    + assert (H : flatten (eval c (g_ma_q_update c) [("self", SELF q (m_out VQ ONone) w); ("get:input", m_out VQ ONone)])
                  = Ok (ORet (MOk MTup0) [("output", m_out VQ ONone); ("self", SELF q (m_out VQ ONone) w); ("get:input", m_out VQ ONone)])) by reflexivity.
      rewrite H. unfold finish. cbn [List.length Nat.sub skipn lookup String.eqb Ascii.eqb Bool.eqb].
      rewrite (canon_self q ONone w). reflexivity.
    + assert (H : flatten (eval c (g_ma_q_update c) [("self", SELF q (m_out VQ (OSome d)) w); ("get:input", m_out VQ ONone)])
                  = Ok (ORet (MOk MTup0) [("output", m_out VQ ONone); ("self", SELF q (m_out VQ (OSome d)) w); ("get:input", m_out VQ ONone)])) by reflexivity.
      rewrite H. unfold finish. cbn [List.length Nat.sub skipn lookup String.eqb Ascii.eqb Bool.eqb].
      rewrite (canon_self q (OSome d) w). reflexivity.
  - (* a sample *)
    rewrite ma_shape, flatten_let. vars. rewrite flatten_let.
    assert (H : flatten (eval c ma_head [("output", m_out VQ (OSome o)); ("self", SELF q (m_out VQ val) w); ("get:input", m_out VQ (OSome o))])
                = Ok (ONorm (D o) [("output", m_out VQ (OSome o)); ("self", SELF q (m_out VQ val) w); ("get:input", m_out VQ (OSome o))])) by reflexivity.
    rewrite H. cbn [after].
    change (("output", D o) :: [("output", m_out VQ (OSome o)); ("self", SELF q (m_out VQ val) w); ("get:input", m_out VQ (OSome o))])
      with (E o q (m_out VQ val) w (m_out VQ (OSome o))).
    rewrite tail_ok. unfold ma_step. cbn [ma_q ma_win ma_val].
    destruct (isub (d_time o) w) as [b|]; [|reflexivity]. cbn [bind].
    destruct (ma_trim (q ++ [o]) b) as [|d r] eqn:Ht; [reflexivity|].
    destruct (ma_weights (d :: r) b) as [ws|]; [|reflexivity].
    unfold acc_out. cbn [bind]. destruct (ma_acc_q c (d :: r) ws w) as [v|]; [|reflexivity].
    cbn [after skipn bind app]. unfold finish, E. cbn [List.length Nat.sub skipn lookup String.eqb Ascii.eqb Bool.eqb].
    rewrite canon_self' by reflexivity.
    reflexivity.
Qed.
End MA.
Print Assumptions ma_shape.
Print Assumptions tail_shape.
Print Assumptions rest_shape.
Print Assumptions rest2_shape.
Print Assumptions rest3_shape.
Print Assumptions push_ok.
Print Assumptions if0_ok.
Print Assumptions cnd_ok.
Print Assumptions cnd_nil.
Print Assumptions wbody_ok.
Print Assumptions while_spec.
Print Assumptions flatten_while.
Print Assumptions while_ok.
Print Assumptions wl_trim.
Print Assumptions f1_body.
Print Assumptions f1_loop.
Print Assumptions pop_back_ok.
Print Assumptions push_front_ok.
Print Assumptions nth_mid.
Print Assumptions flatten_op1.
Print Assumptions flatten_op2.
Print Assumptions flatten_at.
Print Assumptions flatten_qfrom.
Print Assumptions flatten_push.
Print Assumptions flatten_field.
Print Assumptions flatten_var.
Print Assumptions f2_body.
Print Assumptions f2_loop.
Print Assumptions flatten_opassign.
Print Assumptions f3_body.
Print Assumptions f3_loop.
Print Assumptions fin_ok.
Print Assumptions wts_ma.
Print Assumptions wts_extra.
Print Assumptions trim_last.
Print Assumptions flatten_for_expr.
Print Assumptions flatten_forrange.
Print Assumptions len_ok.
Print Assumptions pop_back_ok'.
Print Assumptions flatten_len.
Print Assumptions elen_ok.
Print Assumptions ma_weights_len.
Print Assumptions rest3_ok.
Print Assumptions rest2_ok.
Print Assumptions rest_ok.
Print Assumptions tail_ok.
Print Assumptions canon_D_list.
Print Assumptions canon_self.
Print Assumptions canon_self'.
Print Assumptions C12_gen_ma_q_update.
