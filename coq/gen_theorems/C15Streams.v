From Coq Require Import ZArith List Bool String.
From RRTK Require Import Num.Num Model.Values Model.Prog Model.MiniRust Model.Combinators Model.Streams Model.Settable Proofs.MiniRustEmb.
From Gen Require Import GenStreams.
Import ListNotations.
Local Open Scope string_scope.
Local Open Scope Z_scope.
(* C15: settable bookkeeping (Settable::set / follow / stop_following / get_last_request / update_following_data of
   src/lib.rs, run on ConstantGetter, whose impl_set stores the value), ConstantGetter::get, the GetterFromHistory
   constructors / set_delta / set_time / get over an arbitrary history function, TimeGetterFromGetter::get and
   NoneGetter::get - all translated from src/lib.rs on every run - are the model's functions of Model/Settable.v and
   Model/Combinators.v, for every state, every followed-getter outcome, every clock outcome and every history. *)
Section C15Streams.
Context {F : Type} {NF : Num F}.
Variable c : cfg.
Notation pay := (@pay F).
Notation pv := (@pv F).

(* `following` holds what the followed getter returns at this update (None = not following) *)
Definition m_cg (fo : option (out pay)) (s : @cgetter pay) : @mval F :=
  MRec [("settable_data", MRec [("following", m_opt (m_out pv) fo); ("last_request", m_opt (fun v => MV (pv v)) (cg_last s))]);
        ("value", MV (pv (cg_val s)))].
Definition cg_of (fo : option (out pay)) (s : @cgetter pay) : @cgetter pay :=
  {| cg_val := cg_val s; cg_last := cg_last s; cg_following := match fo with Some _ => true | None => false end |}.
Definition fo_out (fo : option (out pay)) : out pay := match fo with Some g => g | None => ONone end.

Theorem C15_gen_cg_update fo (s : @cgetter pay) :
  run_fn c (g_cg_update c) (m_cg fo s) []
  = Some (Ok (m_cg fo (fst (cg_update (cg_of fo s) (fo_out fo))), m_upd (snd (cg_update (cg_of fo s) (fo_out fo))))).
Proof. destruct s as [v l f]. destruct fo as [[e| |[t x]]|]; destruct l as [l|]; try destruct l; try destruct x; destruct v; mr_exec. Qed.

Theorem C15_gen_cg_get fo (s : @cgetter pay) (now : tout) :
  run_fn c (g_cg_get c) (m_cg fo s) [("get:time_getter", m_tout now)] = m_get (m_cg fo s) pv (Ok (cg_get s now)).
Proof. destruct s as [v l f]. destruct now; destruct v; mr_exec. Qed.

Theorem C15_gen_cg_set fo (s : @cgetter pay) (v : pay) :
  run_fn c (g_cg_set c) (m_cg fo s) [("value", MV (pv v))] = Some (Ok (m_cg fo (cg_set s v), MOk MTup0)).
Proof. destruct s as [v0 l f]. mr_exec. Qed.

Theorem C15_gen_cg_follow fo (s : @cgetter pay) (G : @mval F) :
  run_fn c (g_cg_follow c) (m_cg fo s) [("getter", G)]
  = Some (Ok (MRec [("settable_data", MRec [("following", MSome (canon G)); ("last_request", m_opt (fun v => MV (pv v)) (cg_last s))]);
                    ("value", MV (pv (cg_val s)))], MTup0)).
Proof. destruct s as [v0 l f]. mr_exec. Qed.
Theorem C15_gen_cg_stop_following fo (s : @cgetter pay) :
  run_fn c (g_cg_stop_following c) (m_cg fo s) [] = Some (Ok (m_cg None s, MTup0)).
Proof. destruct s as [v0 l f]. mr_exec. Qed.
Theorem C15_gen_cg_get_last_request fo (s : @cgetter pay) :
  run_fn c (g_cg_get_last_request c) (m_cg fo s) [] = Some (Ok (m_cg fo s, m_opt (fun v => MV (pv v)) (cg_last s))).
Proof. destruct s as [v0 l f]. mr_exec. Qed.

(* GetterFromHistory *)
Definition m_gfh (delta : Z) : @mval F := MRec [("time_delta", m_t delta)].
Definition m_hist (h : Z -> option (datum pay)) : @mval F :=
  MFun (fun q => match h q with Some d => Some (d_time d, d_val d) | None => None end).
Theorem C15_gen_gfh_get (h : Z -> option (datum pay)) (delta : Z) (now : tout) :
  run_fn c (g_gfh_get c) (m_gfh delta) [("get:time_getter", m_tout now); ("get:history", m_hist h)]
  = m_get (m_gfh delta) pv (gfh_get h delta now).
Proof.
  unfold gfh_get. destruct now as [e|t]; mr_exec.
Qed.
Theorem C15_gen_gfh_set_delta (delta d : Z) :
  run_fn c (g_gfh_set_delta c) (m_gfh delta) [("time_delta", m_t d)] = Some (Ok (m_gfh d, MTup0)).
Proof. mr_exec. Qed.
Theorem C15_gen_gfh_set_time (delta time : Z) (now : tout) :
  run_fn c (g_gfh_set_time c) (m_gfh delta) [("time", m_t time); ("get:time_getter", m_tout now)]
  = Some (match gfh_set_time delta now time with Ok (d, u) => Ok (m_gfh d, m_upd u) | Panic => Panic end).
Proof. unfold gfh_set_time. destruct now as [e|t]; mr_exec. Qed.
(* the constructors: the new offset (or the clock's error) *)
Theorem C15_gen_gfh_new_start_at_zero (H : @mval F) (now : tout) :
  flatten (eval c (g_gfh_new_start_at_zero c) [("history", H); ("time_getter", m_tout now)])
  = match gfh_start_at_zero now with
    | Ok (inr d) => Ok (ONorm (MOk (MRec [("history", H); ("time_delta", m_t d); ("time_getter", m_tout now)])) [("history", H); ("time_getter", m_tout now)])
    | Ok (inl e) => Ok (ORet (MErr (MErrV e)) [("history", H); ("time_getter", m_tout now)])
    | Panic => Panic
    end.
Proof. unfold gfh_start_at_zero. destruct now as [e|t]; repeat (mr_norm; mr_split); mr_norm; reflexivity. Qed.
Theorem C15_gen_gfh_new_custom_start (H : @mval F) (now : tout) (start : Z) :
  flatten (eval c (g_gfh_new_custom_start c) [("history", H); ("time_getter", m_tout now); ("start", m_t start)])
  = match gfh_custom_start now start with
    | Ok (inr d) => Ok (ONorm (MOk (MRec [("history", H); ("time_delta", m_t d); ("time_getter", m_tout now)])) [("history", H); ("time_getter", m_tout now); ("start", m_t start)])
    | Ok (inl e) => Ok (ORet (MErr (MErrV e)) [("history", H); ("time_getter", m_tout now); ("start", m_t start)])
    | Panic => Panic
    end.
Proof. unfold gfh_custom_start. destruct now as [e|t]; repeat (mr_norm; mr_split); mr_norm; reflexivity. Qed.

Theorem C15_gen_tgfg_get (i : out pay) :
  run_fn c (g_tgfg_get c) (MRec [("elevator", MRec [])]) [("get:input", m_out pv i)]
  = Some (Ok (MRec [("elevator", MRec [])], m_tout (time_getter_from_getter i))).
Proof. destruct i as [e| |[t x]]; mr_exec. Qed.
Theorem C15_gen_none_getter :
  run_fn c (g_none_getter_get c) (MRec []) [] = Some (Ok (MRec [], @m_out F pay pv ONone)).
Proof. mr_exec. Qed.
End C15Streams.
Print Assumptions C15_gen_cg_update.
Print Assumptions C15_gen_cg_get.
Print Assumptions C15_gen_cg_set.
Print Assumptions C15_gen_cg_follow.
Print Assumptions C15_gen_cg_stop_following.
Print Assumptions C15_gen_cg_get_last_request.
Print Assumptions C15_gen_gfh_get.
Print Assumptions C15_gen_gfh_set_delta.
Print Assumptions C15_gen_gfh_set_time.
Print Assumptions C15_gen_gfh_new_start_at_zero.
Print Assumptions C15_gen_gfh_new_custom_start.
Print Assumptions C15_gen_tgfg_get.
Print Assumptions C15_gen_none_getter.
