(* C16 / C02: the n-ary sum and product streams translated from src/streams/math.rs on every run (tools/gen_streams.py), slot level. *)
From Coq Require Import ZArith List Bool String Lia.
From RRTK Require Import Num.Num Model.Values Model.Prog Model.MiniRust Model.Combinators Model.Streams Proofs.MiniRustEmb.
From Gen Require Import GenStreams.
Import ListNotations.
Local Open Scope string_scope.
Local Open Scope list_scope.
Local Open Scope Z_scope.

Section Slots.
Context {F : Type} {NF : Num F}.
Variable c : cfg.

(* the shape of the two n-ary bodies: identical up to the input field and the accumulating operator *)
Definition body1 : @mexpr F :=
  EMatch (ETry (EVar "i"))
    [(PSome (PVar "x"), ESeq (EWriteSlot (LVar "outputs") (EVar "outputs_filled") (EVar "x"))
                          (ESeq (EAssign (LVar "outputs_filled") (EUs 1 (EVar "outputs_filled") (ELit (VI 1)))) EUnit));
     (PNone, EUnit)].
Definition body2 (o : Z) : @mexpr F :=
  ESeq (EOpAssign (LVar "value") o (EAssumeInit (EIndex (EVar "other_outputs") (EVar "i")))) EUnit.
Definition nary_tpl (fld : string) (o : Z) : @mexpr F :=
  ELet (PVar "outputs") (EArrUninit (ELen (EVar fld)))
    (ELet (PVar "outputs_filled") (ELit (VI 0))
      (ESeq (EFor "i" (EVar fld) body1)
        (ESeq (EIf (ECmp 4 (EVar "outputs_filled") (ELit (VI 0))) (ESeq (ESeq (EReturn (EOk ENone)) EUnit) EUnit) EUnit)
          (ELet (PArr [PVar "value"; PVar "other_outputs"]) (ESplitAt (EVar "outputs") (ELit (VI 1)))
            (ELet (PVar "value") (EAssumeInit (EIndex (EVar "value") (ELit (VI 0))))
              (ESeq (EForRange "i" (ELit (VI 0)) (EUs 2 (EVar "outputs_filled") (ELit (VI 1))) (body2 o))
                (EOk (ESome (EVar "value"))))))))).
Lemma sum_shape : g_sum_get c = nary_tpl "get:addends" 5.
Proof. reflexivity. Qed.
Lemma prod_shape : g_prod_get c = nary_tpl "get:factors" 7.
Proof. reflexivity. Qed.

Section Payload.
Variable T : Type.
Variable pvv : T -> @val F.
Variable op : T -> T -> res T.
Variable o : Z.
Hypothesis Hop : forall t1 a t2 b,
  flatten (prim_tree c o [VDat t1 (pvv a); VDat t2 (pvv b)])
  = match op a b with Ok v => Ok (RVal (VDat (tmax_ge t1 t2) (pvv v))) | Panic => Panic end.
Hypothesis Hlift : forall t a, lift (VDat t (pvv a)) = MV (VDat t (pvv a)).

Definition slots (ds : list (datum T)) (n : nat) : list (@mval F) := map (m_dat pvv) ds ++ repeat MUninit n.
Definition e_filled (ds : list (datum T)) : string * @mval F := ("outputs_filled", MV (VI (Z.of_nat (List.length ds)))).
Definition e_outs (ds : list (datum T)) (n : nat) : string * @mval F := ("outputs", MArr (slots ds n)).

Lemma set_nth_slots ds n v : (1 <= n)%nat ->
  set_nth (slots ds n) (List.length ds) v = Some (map (m_dat pvv) ds ++ v :: repeat MUninit (n - 1)).
Proof.
  intros Hn. unfold slots. induction ds as [|d r IH]; cbn [map app List.length set_nth].
  - destruct n; [lia|]. cbn. rewrite Nat.sub_0_r. reflexivity.
  - rewrite IH. reflexivity.
Qed.

Lemma body1_some d ds n rest : (1 <= n)%nat ->
  flatten (eval c body1 (("i", MOk (MSome (m_dat pvv d))) :: e_filled ds :: e_outs ds n :: rest))
  = Ok (ONorm MTup0 (("i", MOk (MSome (m_dat pvv d))) :: e_filled (ds ++ [d]) :: e_outs (ds ++ [d]) (n - 1) :: rest)).
Proof.
  intros Hn. unfold body1, e_filled, e_outs.
  cbn -[Z.of_nat Z.to_nat Z.leb set_nth slots Z.add].
  destruct (Z.leb_spec 0 (Z.of_nat (List.length ds))) as [_|Hlt]; [|lia]. cbn [negb].
  rewrite Nat2Z.id, set_nth_slots by exact Hn.
  cbn -[Z.of_nat Z.add slots].
  repeat f_equal.
  - rewrite app_length. cbn [List.length]. lia.
  - unfold slots. rewrite map_app, <- app_assoc. reflexivity.
Qed.
Lemma body1_none ds n rest :
  flatten (eval c body1 (("i", MOk MNone) :: e_filled ds :: e_outs ds n :: rest))
  = Ok (ONorm MTup0 (("i", MOk MNone) :: e_filled ds :: e_outs ds n :: rest)).
Proof. reflexivity. Qed.
Lemma body1_err e ds n rest :
  flatten (eval c body1 (("i", MErr (MErrV e)) :: e_filled ds :: e_outs ds n :: rest))
  = Ok (ORet (MErr (MErrV e)) (("i", MErr (MErrV e)) :: e_filled ds :: e_outs ds n :: rest)).
Proof. reflexivity. Qed.

(* the first loop: what the scan of the model computes, slot by slot *)
Fixpoint l1 (suf : list (out T)) (ds : list (datum T)) (n : nat) (rest : @env F) : res (@outcome F) :=
  match suf with
  | [] => Ok (ONorm MTup0 (e_filled ds :: e_outs ds n :: rest))
  | OErr e :: _ => Ok (ORet (MErr (MErrV e)) (("i", MErr (MErrV e)) :: e_filled ds :: e_outs ds n :: rest))
  | ONone :: r => l1 r ds n rest
  | OSome d :: r => l1 r (ds ++ [d]) (n - 1) rest
  end.
Lemma loop1 (suf : list (out T)) : forall ds n rest, (List.length suf <= n)%nat ->
  flatten (for_loop (eval c body1) "i" (map (m_out pvv) suf) (e_filled ds :: e_outs ds n :: rest)) = l1 suf ds n rest.
Proof.
  induction suf as [|it r IH]; intros ds n rest Hn; [reflexivity|].
  cbn [map for_loop l1 List.length] in *. rewrite flatten_tbind.
  destruct it as [e| |d]; cbn [m_out].
  - rewrite body1_err. reflexivity.
  - rewrite body1_none. cbn [skipn]. apply IH. lia.
  - rewrite body1_some by lia. cbn [skipn]. apply IH. lia.
Qed.
(* ... and the model's scan *)
Lemma l1_scan (suf : list (out T)) : forall ds n rest,
  match scan suf with
  | inl e => exists a b, l1 suf ds n rest
                         = Ok (ORet (MErr (MErrV e)) (("i", MErr (MErrV e)) :: ("outputs_filled", a) :: ("outputs", b) :: rest))
  | inr ds' => l1 suf ds n rest = Ok (ONorm MTup0 (e_filled (ds ++ ds') :: e_outs (ds ++ ds') (n - List.length ds') :: rest))
  end.
Proof.
  induction suf as [|it r IH]; intros ds n rest; cbn [scan l1].
  - rewrite app_nil_r, Nat.sub_0_r. reflexivity.
  - destruct it as [e| |d].
    + eexists. eexists. reflexivity.
    + apply IH.
    + specialize (IH (ds ++ [d]) (n - 1)%nat rest). destruct (scan r) as [e|ds'].
      * exact IH.
      * rewrite IH. rewrite <- app_assoc. cbn [app List.length]. replace (n - 1 - List.length ds')%nat with (n - S (List.length ds'))%nat by lia. reflexivity.
Qed.

(* the second loop folds the written slots in order; every slot it reads has been written *)
Lemma nth_slots pre d ds n : nth_error (slots (pre ++ d :: ds) n) (List.length pre) = Some (m_dat pvv d).
Proof. unfold slots. rewrite map_app, <- app_assoc. rewrite nth_error_app2 by (rewrite map_length; lia). rewrite map_length, Nat.sub_diag. reflexivity. Qed.

Definition e_val (a : datum T) : string * @mval F := ("value", m_dat pvv a).
Lemma body2_step pre d ds n acc rest :
  flatten (eval c (body2 o) (("i", MV (VI (Z.of_nat (List.length pre)))) :: e_val acc :: ("other_outputs", MArr (slots (pre ++ d :: ds) n)) :: rest))
  = match dat_op op acc d with
    | Ok a' => Ok (ONorm MTup0 (("i", MV (VI (Z.of_nat (List.length pre)))) :: e_val a' :: ("other_outputs", MArr (slots (pre ++ d :: ds) n)) :: rest))
    | Panic => Panic
    end.
Proof.
  unfold body2, e_val.
  cbn -[Z.of_nat Z.to_nat Z.leb slots prim_tree nth_error].
  destruct (Z.leb_spec 0 (Z.of_nat (List.length pre))) as [_|Hlt]; [|lia]. cbn [negb].
  rewrite Nat2Z.id, nth_slots.
  cbn -[Z.of_nat prim_tree slots]. unfold m_dat. cbn -[Z.of_nat prim_tree slots].
  rewrite flatten_tmap, flatten_tmap, Hop. unfold dat_op, bind.
  destruct (op (d_val acc) (d_val d)) as [v|]; [|reflexivity].
  cbn [flatten ret1 d_time d_val]. rewrite Hlift. reflexivity.
Qed.

Lemma loop2 (ds : list (datum T)) : forall pre n acc rest,
  flatten (for_range (eval c (body2 o)) "i" (Z.of_nat (List.length pre)) (List.length ds)
             (e_val acc :: ("other_outputs", MArr (slots (pre ++ ds) n)) :: rest))
  = match fold_dat op acc ds with
    | Ok a' => Ok (ONorm MTup0 (e_val a' :: ("other_outputs", MArr (slots (pre ++ ds) n)) :: rest))
    | Panic => Panic
    end.
Proof.
  induction ds as [|d r IH]; intros pre n acc rest; [reflexivity|].
  cbn [List.length for_range fold_dat]. rewrite flatten_tbind, body2_step. unfold bind.
  destruct (dat_op op acc d) as [a'|]; [|reflexivity].
  cbn [skipn].
  replace (Z.of_nat (List.length pre) + 1) with (Z.of_nat (List.length (pre ++ [d]))) by (rewrite app_length; cbn [List.length]; lia).
  replace (pre ++ d :: r) with ((pre ++ [d]) ++ r) by (rewrite <- app_assoc; reflexivity).
  apply IH.
Qed.

(* the n-ary stream: for any number of inputs and any pattern of errors / absent / present inputs the translated body never
   reads an unwritten slot, never indexes out of range, and returns what the model's scan-and-fold returns *)
(* the part after the first loop, from a state with the present data [ds] in the first slots *)
Definition tail_tpl : @mexpr F :=
  ESeq (EIf (ECmp 4 (EVar "outputs_filled") (ELit (VI 0))) (ESeq (ESeq (EReturn (EOk ENone)) EUnit) EUnit) EUnit)
    (ELet (PArr [PVar "value"; PVar "other_outputs"]) (ESplitAt (EVar "outputs") (ELit (VI 1)))
      (ELet (PVar "value") (EAssumeInit (EIndex (EVar "value") (ELit (VI 0))))
        (ESeq (EForRange "i" (ELit (VI 0)) (EUs 2 (EVar "outputs_filled") (ELit (VI 1))) (body2 o))
          (EOk (ESome (EVar "value")))))).
Lemma tail_nil n rest :
  flatten (eval c tail_tpl (e_filled [] :: e_outs [] n :: rest)) = Ok (ORet (MOk MNone) (e_filled [] :: e_outs [] n :: rest)).
Proof. reflexivity. Qed.
Lemma slots_cons d r n : slots (d :: r) n = m_dat pvv d :: slots r n.
Proof. reflexivity. Qed.
Lemma tail_cons d r n rest :
  flatten (eval c tail_tpl (e_filled (d :: r) :: e_outs (d :: r) n :: rest))
  = match fold_dat op d r with
    | Ok a => Ok (ONorm (MOk (MSome (m_dat pvv a))) (e_filled (d :: r) :: e_outs (d :: r) n :: rest))
    | Panic => Panic
    end.
Proof.
  unfold tail_tpl. rewrite flatten_seq.
  assert (H1 : flatten (eval c (EIf (ECmp 4 (EVar "outputs_filled") (ELit (VI 0))) (ESeq (ESeq (EReturn (EOk ENone)) EUnit) EUnit) EUnit)
                         (e_filled (d :: r) :: e_outs (d :: r) n :: rest))
               = Ok (ONorm MTup0 (e_filled (d :: r) :: e_outs (d :: r) n :: rest))).
  { unfold e_filled. cbn [List.length]. rewrite Nat2Z.inj_succ. 
    cbn -[Z.of_nat Z.succ slots]. unfold cmp_z. cbn -[Z.of_nat Z.succ slots].
    destruct (Z.eqb_spec (Z.succ (Z.of_nat (List.length r))) 0) as [E|_]; [lia|]. reflexivity. }
  rewrite H1. unfold after.
  remember (body2 o) as b2 eqn:Hb2.
  (* let (value, other_outputs) = outputs.split_at(1) *)
  rewrite flatten_let_pat.
  assert (H2 : flatten (eval c (ESplitAt (EVar "outputs") (ELit (VI 1))) (e_filled (d :: r) :: e_outs (d :: r) n :: rest))
               = Ok (ONorm (MArr [MArr [m_dat pvv d]; MArr (slots r n)]) (e_filled (d :: r) :: e_outs (d :: r) n :: rest))).
  { unfold e_outs. rewrite slots_cons. cbn -[Z.of_nat slots Z.leb List.length].
    cbn [List.length]. rewrite Nat2Z.inj_succ.
    destruct (Z.leb_spec 1 (Z.succ (Z.of_nat (List.length (slots r n))))) as [_|E]; [|lia]. reflexivity. }
  rewrite H2. unfold after at 1. cbn [pmatch tmap flatten app List.length].
  (* let value = value[0].assume_init(); the loop; Ok(Some(value)) *)
  set (env1 := ("other_outputs", MArr (slots r n)) :: ("value", MArr [m_dat pvv d]) :: e_filled (d :: r) :: e_outs (d :: r) n :: rest).
  assert (H3 : flatten (eval c (ELet (PVar "value") (EAssumeInit (EIndex (EVar "value") (ELit (VI 0))))
                                 (ESeq (EForRange "i" (ELit (VI 0)) (EUs 2 (EVar "outputs_filled") (ELit (VI 1))) b2) (EOk (ESome (EVar "value"))))) env1)
               = match fold_dat op d r with
                 | Ok a => Ok (ONorm (MOk (MSome (m_dat pvv a))) env1)
                 | Panic => Panic
                 end).
  { rewrite flatten_let.
    assert (H4 : flatten (eval c (EAssumeInit (EIndex (EVar "value") (ELit (VI 0)))) env1) = Ok (ONorm (m_dat pvv d) env1)) by reflexivity.
    rewrite H4. unfold after at 1. rewrite flatten_seq.
    assert (H5 : flatten (eval c (EForRange "i" (ELit (VI 0)) (EUs 2 (EVar "outputs_filled") (ELit (VI 1))) b2) (("value", m_dat pvv d) :: env1))
                 = flatten (for_range (eval c b2) "i" 0 (List.length r) (("value", m_dat pvv d) :: env1))).
    { unfold env1, e_filled. cbn [List.length]. rewrite Nat2Z.inj_succ.
      cbn -[Z.of_nat Z.succ slots Z.leb Z.sub Z.to_nat for_range].
      destruct (Z.leb_spec 1 (Z.succ (Z.of_nat (List.length r)))) as [_|E]; [|lia].
      cbn -[Z.of_nat Z.succ slots Z.leb Z.sub Z.to_nat for_range].
      replace (Z.to_nat (Z.succ (Z.of_nat (List.length r)) - 1 - 0)) with (List.length r) by lia. reflexivity. }
    rewrite H5. subst b2.
    pose proof (loop2 r [] n d (("value", MArr [m_dat pvv d]) :: e_filled (d :: r) :: e_outs (d :: r) n :: rest)) as L2.
    cbn [List.length app] in L2. change (Z.of_nat 0) with 0 in L2. unfold e_val in L2. unfold env1.
    rewrite L2. unfold after. destruct (fold_dat op d r) as [a|]; reflexivity. }
  fold env1. rewrite H3. destruct (fold_dat op d r) as [a|]; [|reflexivity]. unfold env1, after. reflexivity.
Qed.

Lemma nary_tpl_tail fld : nary_tpl fld o =
  ELet (PVar "outputs") (EArrUninit (ELen (EVar fld))) (ELet (PVar "outputs_filled") (ELit (VI 0)) (ESeq (EFor "i" (EVar fld) body1) tail_tpl)).
Proof. reflexivity. Qed.

Theorem nary_addends_ok (ins : list (out T)) :
  run_fn c (nary_tpl "get:addends" o) (MRec []) [("get:addends", MArr (map (m_out pvv) ins))] = m_get (MRec []) pvv (nary op ins).
Proof.
  unfold run_fn. rewrite nary_tpl_tail, flatten_let.
  match goal with |- context [flatten (eval c (EArrUninit ?a) ?en)] =>
    assert (HA : flatten (eval c (EArrUninit a) en) = Ok (ONorm (MArr (repeat MUninit (List.length ins))) en))
      by (cbn -[Z.of_nat Z.to_nat repeat]; rewrite map_length, Nat2Z.id; reflexivity);
    rewrite HA; clear HA end.
  cbn [after]. rewrite flatten_let.
  match goal with |- context [flatten (eval c (ELit ?v) ?en)] =>
    change (flatten (eval c (ELit v) en)) with (Ok (ONorm (MV (VI (Z.of_nat (@List.length (datum T) [])))) en)) end.
  cbn [after]. rewrite flatten_seq.
  erewrite flatten_for by reflexivity.
  match goal with |- context [for_loop _ _ _ (?a :: (?b, MArr (repeat MUninit ?n)) :: ?rest)] =>
    change (a :: (b, MArr (repeat MUninit n)) :: rest) with (e_filled [] :: e_outs [] n :: rest) end.
  rewrite loop1 by (rewrite ?map_length; lia).
  match goal with |- context [l1 ins [] ?n ?rest] => pose proof (l1_scan ins [] n rest) as HS end.
  unfold nary. destruct (scan ins) as [e|ds'].
  - destruct HS as (a & b & HS). rewrite HS. reflexivity.
  - rewrite HS. cbn [after]. cbn [app].
    destruct ds' as [|d r].
    + rewrite tail_nil. reflexivity.
    + rewrite tail_cons. unfold bind. destruct (fold_dat op d r) as [acc|]; reflexivity.
Qed.
Theorem nary_factors_ok (ins : list (out T)) :
  run_fn c (nary_tpl "get:factors" o) (MRec []) [("get:factors", MArr (map (m_out pvv) ins))] = m_get (MRec []) pvv (nary op ins).
Proof.
  unfold run_fn. rewrite nary_tpl_tail, flatten_let.
  match goal with |- context [flatten (eval c (EArrUninit ?a) ?en)] =>
    assert (HA : flatten (eval c (EArrUninit a) en) = Ok (ONorm (MArr (repeat MUninit (List.length ins))) en))
      by (cbn -[Z.of_nat Z.to_nat repeat]; rewrite map_length, Nat2Z.id; reflexivity);
    rewrite HA; clear HA end.
  cbn [after]. rewrite flatten_let.
  match goal with |- context [flatten (eval c (ELit ?v) ?en)] =>
    change (flatten (eval c (ELit v) en)) with (Ok (ONorm (MV (VI (Z.of_nat (@List.length (datum T) [])))) en)) end.
  cbn [after]. rewrite flatten_seq.
  erewrite flatten_for by reflexivity.
  match goal with |- context [for_loop _ _ _ (?a :: (?b, MArr (repeat MUninit ?n)) :: ?rest)] =>
    change (a :: (b, MArr (repeat MUninit n)) :: rest) with (e_filled [] :: e_outs [] n :: rest) end.
  rewrite loop1 by (rewrite ?map_length; lia).
  match goal with |- context [l1 ins [] ?n ?rest] => pose proof (l1_scan ins [] n rest) as HS end.
  unfold nary. destruct (scan ins) as [e|ds'].
  - destruct HS as (a & b & HS). rewrite HS. reflexivity.
  - rewrite HS. cbn [after]. cbn [app].
    destruct ds' as [|d r].
    + rewrite tail_nil. reflexivity.
    + rewrite tail_cons. unfold bind. destruct (fold_dat op d r) as [acc|]; reflexivity.
Qed.
End Payload.

Definition opf (f : F -> F -> F) : F -> F -> res F := fun a b => Ok (f a b).
Definition opq (f : @quantity F -> @quantity F -> @quantity F) : @quantity F -> @quantity F -> res (@quantity F) := fun a b => Ok (f a b).

(* SumStream / ProductStream as written in src/streams/math.rs (MaybeUninit scratch array, compaction loop, split_at, second loop):
   for ANY number of inputs and ANY pattern of errored / absent / present inputs the translated body never reads an unwritten
   slot (that would be the outcome OUB, i.e. None here), never indexes out of range, and returns the model's scan-and-fold *)
Theorem C16_gen_sum_f (ins : list (out F)) :
  run_fn c (g_sum_get c) (MRec []) [("get:addends", MArr (map (m_out VF) ins))] = m_get (MRec []) VF (nary (opf fadd) ins).
Proof. rewrite sum_shape. apply nary_addends_ok; reflexivity. Qed.
Theorem C16_gen_sum_q (ins : list (out (@quantity F))) :
  run_fn c (g_sum_get c) (MRec []) [("get:addends", MArr (map (m_out VQ) ins))] = m_get (MRec []) VQ (nary (qadd c) ins).
Proof. rewrite sum_shape. apply nary_addends_ok; [|reflexivity]. intros t1 a t2 b. cbn. destruct (qadd c a b); reflexivity. Qed.
Theorem C16_gen_prod_f (ins : list (out F)) :
  run_fn c (g_prod_get c) (MRec []) [("get:factors", MArr (map (m_out VF) ins))] = m_get (MRec []) VF (nary (opf fmul) ins).
Proof. rewrite prod_shape. apply nary_factors_ok; reflexivity. Qed.
Theorem C16_gen_prod_q (ins : list (out (@quantity F))) :
  run_fn c (g_prod_get c) (MRec []) [("get:factors", MArr (map (m_out VQ) ins))] = m_get (MRec []) VQ (nary (opq (qmul c)) ins).
Proof. rewrite prod_shape. apply nary_factors_ok; reflexivity. Qed.

(* stated separately: no undefined behaviour and no panic for the f32 payload *)
Corollary C16_gen_sum_f_defined (ins : list (out F)) :
  exists o, run_fn c (g_sum_get c) (MRec []) [("get:addends", MArr (map (m_out VF) ins))] = Some (Ok (MRec [], m_out VF o)).
Proof.
  rewrite C16_gen_sum_f. unfold m_get, nary. destruct (scan ins) as [e|[|d r]]; try (eexists; reflexivity).
  assert (H : forall r d, exists a, fold_dat (opf fadd) d r = Ok a).
  { clear. induction r as [|x r IH]; intros d; [eexists; reflexivity|]. cbn. apply IH. }
  destruct (H r d) as [a Ha]. unfold bind. rewrite Ha. eexists. reflexivity.
Qed.
End Slots.
Print Assumptions C16_gen_sum_f.
Print Assumptions C16_gen_sum_q.
Print Assumptions C16_gen_prod_f.
Print Assumptions C16_gen_prod_q.
Print Assumptions C16_gen_sum_f_defined.
Print Assumptions sum_shape.
Print Assumptions prod_shape.
Print Assumptions set_nth_slots.
Print Assumptions body1_some.
Print Assumptions body1_none.
Print Assumptions body1_err.
Print Assumptions loop1.
Print Assumptions l1_scan.
Print Assumptions nth_slots.
Print Assumptions body2_step.
Print Assumptions loop2.
Print Assumptions tail_nil.
Print Assumptions slots_cons.
Print Assumptions tail_cons.
Print Assumptions nary_tpl_tail.
Print Assumptions nary_addends_ok.
Print Assumptions nary_factors_ok.
