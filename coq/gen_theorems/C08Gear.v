From Coq Require Import ZArith List Bool String Lia.
From RRTK Require Import Num.Num Model.Values Model.Prog Model.MiniRust Model.Combinators Model.Streams Model.World Model.Devices Proofs.MiniRustEmb.
From Gen Require Import GenStreams.
Import ListNotations.
Local Open Scope string_scope.
Local Open Scope list_scope.
Local Open Scope Z_scope.
(* C08: the constructors of the devices as written in src/devices.rs (translated on every run, `Terminal::new`, `new_raw`,
   `SettableData::new`, `with_ratio_raw` inlined).  `GearTrain::new(teeth)` for a tooth list of ANY length: fewer than two counts
   panic, otherwise the ratio is `teeth[0] / teeth[N-1] * (if N % 2 == 0 { -1.0 } else { 1.0 })` - exactly the model's
   `gear_ratio_of_teeth` (about which C08_teeth_ratio states first / last * (-1)^(N-1)) - and both terminals are fresh;
   `with_ratio` asserts a dimensionless ratio; inverter and differential (default trust mode `Equal`, or the given one) start with
   fresh terminals. *)
Section C08Gear.
Context {F : Type} {NF : Num F}.
Variable c : cfg.
Lemma flatten_op1 o a en :
  flatten (eval c (EOp o [a]) en)
  = after (flatten (eval c a en)) (fun v en1 =>
      match lower_all [v] with Some ws => flatten (of_rv_t (prim_tree c o ws) en1) | None => Ok OType end).
Proof.
  cbn [eval eval_list]. rewrite flatten_tbind. unfold after. destruct (flatten (eval c a en)) as [[v en1| | | |]|]; try reflexivity.
  cbn [eval_list rev app]. destruct (lower_all [v]); reflexivity.
Qed.
Lemma flatten_op2 o a b en :
  flatten (eval c (EOp o [a; b]) en)
  = after (flatten (eval c a en)) (fun v1 en1 => after (flatten (eval c b en1)) (fun v2 en2 =>
      match lower_all [v1; v2] with Some ws => flatten (of_rv_t (prim_tree c o ws) en2) | None => Ok OType end)).
Proof.
  cbn [eval eval_list]. rewrite flatten_tbind. unfold after. destruct (flatten (eval c a en)) as [[v en1| | | |]|]; try reflexivity.
  cbn [eval_list]. rewrite flatten_tbind. destruct (flatten (eval c b en1)) as [[v2 en2| | | |]|]; try reflexivity.
  cbn [eval_list rev app]. destruct (lower_all [v; v2]); reflexivity.
Qed.
Lemma flatten_at a i en :
  flatten (eval c (EAt a i) en)
  = after (flatten (eval c a en)) (fun v en1 => after (flatten (eval c i en1)) (fun w en2 =>
      match v, w with
      | MArr l, MV (VI z) => if 0 <=? z then match nth_error l (Z.to_nat z) with Some x => Ok (ONorm x en2) | None => Ok OPanic end else Ok OPanic
      | _, _ => Ok OType
      end)).
Proof.
  cbn [eval]. rewrite flatten_tbind. unfold after. destruct (flatten (eval c a en)) as [[v en1| | | |]|]; try reflexivity.
  rewrite flatten_tbind. destruct (flatten (eval c i en1)) as [[w en2| | | |]|]; try reflexivity.
  destruct v; try reflexivity. destruct w as [[]| | | | | | | | | | | | |]; try reflexivity.
Qed.
Lemma flatten_var x en : flatten (eval c (EVar x) en) = match lookup x en with Some v => Ok (ONorm v en) | None => Ok OType end.
Proof. cbn [eval]. destruct (lookup x en); reflexivity. Qed.
Lemma flatten_len a en :
  flatten (eval c (ELen a) en)
  = after (flatten (eval c a en)) (fun v en1 => match v with MArr l => Ok (ONorm (MV (VI (Z.of_nat (List.length l)))) en1) | _ => Ok OType end).
Proof.
  cbn [eval]. rewrite flatten_tbind. unfold after. destruct (flatten (eval c a en)) as [[v en1| | | |]|]; try reflexivity.
  destruct v; reflexivity.
Qed.
Lemma flatten_if_true cnd th el en en1 :
  flatten (eval c cnd en) = Ok (ONorm (MV (VB true)) en1) -> flatten (eval c (EIf cnd th el) en) = flatten (eval c th en1).
Proof. intros H. cbn [eval]. rewrite flatten_tbind, H. reflexivity. Qed.
Lemma flatten_if_false cnd th el en en1 :
  flatten (eval c cnd en) = Ok (ONorm (MV (VB false)) en1) -> flatten (eval c (EIf cnd th el) en) = flatten (eval c el en1).
Proof. intros H. cbn [eval]. rewrite flatten_tbind, H. reflexivity. Qed.
Lemma flatten_lit v en : flatten (eval c (ELit v) en) = Ok (ONorm (lift v) en).
Proof. reflexivity. Qed.
Ltac look := cbn [lookup String.eqb Ascii.eqb Bool.eqb after].
Ltac lits := repeat (rewrite flatten_lit; cbn [lift after]).
Ltac vars := repeat (rewrite flatten_var; look).
Lemma flatten_us o a b en :
  flatten (eval c (EUs o a b) en)
  = after (flatten (eval c a en)) (fun x en1 => after (flatten (eval c b en1)) (fun y en2 =>
      match x, y with
      | MV (VI p), MV (VI q) =>
          if o =? 1 then Ok (ONorm (MV (VI (p + q))) en2)
          else if o =? 2 then (if negb (q <=? p) then Ok OPanic else Ok (ONorm (MV (VI (p - q))) en2))
          else if o =? 3 then (if q =? 0 then Ok OPanic else Ok (ONorm (MV (VI (p mod q))) en2))
          else if o =? 4 then Ok (ONorm (MV (VI (p - q))) en2)
          else Ok OType
      | _, _ => Ok OType
      end)).
Proof.
  cbn [eval]. rewrite flatten_tbind. unfold after. destruct (flatten (eval c a en)) as [[x en1| | | |]|]; try reflexivity.
  rewrite flatten_tbind. destruct (flatten (eval c b en1)) as [[y en2| | | |]|]; try reflexivity.
  destruct x as [[]| | | | | | | | | | | | |]; try reflexivity. destruct y as [[]| | | | | | | | | | | | |]; try reflexivity.
  destruct (o =? 1); [reflexivity|]. destruct (o =? 2); [destruct (negb (i0 <=? i)); reflexivity|].
  destruct (o =? 3); [destruct (i0 =? 0); reflexivity|]. destruct (o =? 4); reflexivity.
Qed.
Lemma flatten_cmp o a b en :
  flatten (eval c (ECmp o a b) en)
  = after (flatten (eval c a en)) (fun x en1 => after (flatten (eval c b en1)) (fun y en2 =>
      match x, y with MV p, MV q => Ok (of_rv (cmp_val c o p q) en2) | _, _ => Ok OType end)).
Proof.
  cbn [eval]. rewrite flatten_tbind. unfold after. destruct (flatten (eval c a en)) as [[x en1| | | |]|]; try reflexivity.
  rewrite flatten_tbind. destruct (flatten (eval c b en1)) as [[y en2| | | |]|]; try reflexivity.
  destruct x; try reflexivity. destruct y; reflexivity.
Qed.

Definition TERM0 : @mval F :=
  MRec [("other", MNone); ("settable_data_command", MRec [("following", MNone); ("last_request", MNone)]);
        ("settable_data_state", MRec [("following", MNone); ("last_request", MNone)])].
Definition m_gear0 (r : F) : @mval F := MRec [("ratio", m_f r); ("term1", TERM0); ("term2", TERM0)].

Theorem C08_gen_gear_with_ratio_raw (r : F) :
  flatten (eval c (g_gear_with_ratio_raw c) [("ratio", m_f r)]) = Ok (ONorm (m_gear0 r) [("ratio", m_f r)]).
Proof. reflexivity. Qed.
Theorem C08_gen_gear_with_ratio (q : @quantity F) :
  flatten (eval c (g_gear_with_ratio c) [("ratio", m_q q)])
  = match assert_ok c (qu q) (unew c 0 0) with Ok _ => Ok (ONorm (m_gear0 (qv q)) [("ratio", m_q q)]) | Panic => Panic end.
Proof. destruct q as [v u]. mr_norm. destruct (assert_ok c u (unew c 0 0)); reflexivity. Qed.
Theorem C08_gen_invert_new : flatten (eval c (g_invert_new c) []) = Ok (ONorm (MRec [("term1", TERM0); ("term2", TERM0)]) []).
Proof. reflexivity. Qed.
Theorem C08_gen_diff_new :
  flatten (eval c (g_diff_new c) [])
  = Ok (ONorm (MRec [("distrust", MVariant "DifferentialDistrust::Equal"); ("side1", TERM0); ("side2", TERM0); ("sum", TERM0)]) []).
Proof. reflexivity. Qed.
Theorem C08_gen_diff_with_distrust (D : @mval F) :
  flatten (eval c (g_diff_with_distrust c) [("distrust", D)])
  = Ok (ONorm (MRec [("distrust", D); ("side1", TERM0); ("side2", TERM0); ("sum", TERM0)]) [("distrust", D)]).
Proof. reflexivity. Qed.

(* GearTrain::new for any number of tooth counts *)
Definition p_check : @mexpr F := ltac:(let t := eval cbv delta [g_gear_new] beta in (@g_gear_new F NF c) in match t with ESeq ?a _ => exact a end).
Definition p_ratio : @mexpr F := ltac:(let t := eval cbv delta [g_gear_new] beta in (@g_gear_new F NF c) in match t with ESeq _ (ELet _ ?a _) => exact a end).
Definition p_build : @mexpr F := ltac:(let t := eval cbv delta [g_gear_new] beta in (@g_gear_new F NF c) in match t with ESeq _ (ELet _ _ ?a) => exact a end).
Lemma gear_shape : g_gear_new c = ESeq p_check (ELet (PVar "ratio") p_ratio p_build).
Proof. reflexivity. Qed.
Lemma nth_last {A B} (f : A -> B) (l : list A) (d : A) : l <> [] -> nth_error (map f l) (List.length l - 1) = Some (f (last l d)).
Proof.
  induction l as [|x r IH]; intros H; [contradiction|]. destruct r as [|y r']; [reflexivity|].
  cbn [List.length]. replace (S (S (List.length r')) - 1)%nat with (S (List.length (y :: r') - 1)) by (cbn [List.length]; lia).
  cbn [map nth_error]. change (last (x :: y :: r') d) with (last (y :: r') d). apply IH. discriminate.
Qed.
Lemma even_mod (n : nat) : (Z.of_nat n mod 2 =? 0) = Nat.even n.
Proof.
  destruct (Nat.even n) eqn:E.
  - apply Nat.even_spec in E. destruct E as [k ->]. apply Z.eqb_eq.
    rewrite Nat2Z.inj_mul. change (Z.of_nat 2) with 2. rewrite Z.mul_comm. apply Z_mod_mult.
  - assert (O : Nat.odd n = true) by (unfold Nat.odd; rewrite E; reflexivity).
    apply Nat.odd_spec in O. destruct O as [k ->]. apply Z.eqb_neq.
    rewrite Nat2Z.inj_add, Nat2Z.inj_mul. change (Z.of_nat 2) with 2. change (Z.of_nat 1) with 1.
    rewrite Z.add_comm, Z.mul_comm, Z_mod_plus_full. discriminate.
Qed.
Theorem C08_gen_gear_new (teeth : list F) :
  flatten (eval c (g_gear_new c) [("teeth", MArr (map m_f teeth))])
  = match gear_ratio_of_teeth teeth with
    | Panic => Ok OPanic
    | Ok r => Ok (ONorm (m_gear0 r) [("teeth", MArr (map m_f teeth))])
    end.
Proof.
  rewrite gear_shape, flatten_seq.
  destruct teeth as [|a [|b r]]; [reflexivity|reflexivity|].
  set (l := a :: b :: r). set (EN := [("teeth", MArr (map m_f l))]).
  assert (Hlen : flatten (eval c (ELen (EVar "teeth")) EN) = Ok (ONorm (MV (VI (Z.of_nat (List.length l)))) EN)).
  { rewrite flatten_len. vars. unfold EN. look. rewrite map_length. reflexivity. }
  assert (Hge : 2 <= Z.of_nat (List.length l)) by (unfold l; cbn [List.length]; lia).
  (* the check N < 2 *)
  assert (H1 : flatten (eval c p_check EN) = Ok (ONorm MTup0 EN)).
  { unfold p_check. erewrite flatten_if_false; [reflexivity|].
    rewrite flatten_cmp, Hlen. cbn [after eval ret1 flatten lift cmp_val of_rv]. unfold cmp_z. cbn [Z.eqb Pos.eqb].
    replace (Z.of_nat (List.length l) <? 2) with false by (symmetry; apply Z.ltb_ge; lia). reflexivity. }
  rewrite H1. cbn [after]. rewrite flatten_let.
  (* the ratio *)
  assert (H2 : flatten (eval c p_ratio EN)
               = Ok (ONorm (m_f (fmul (fdiv a (last l a)) (if Nat.even (List.length l) then fneg fone else fone))) EN)).
  { unfold p_ratio. rewrite flatten_op2, flatten_op2, flatten_at. vars. unfold EN at 1. look. lits.
    cbn [after Z.leb Z.compare Z.to_nat nth_error map l].
    rewrite flatten_at. vars. unfold EN at 1. look. rewrite flatten_us, Hlen. cbn [after]. lits.
    cbn [after Z.eqb Pos.eqb].
    replace (1 <=? Z.of_nat (List.length l)) with true by (symmetry; apply Z.leb_le; lia). cbn [negb after].
    replace (0 <=? Z.of_nat (List.length l) - 1) with true by (symmetry; apply Z.leb_le; lia).
    replace (Z.to_nat (Z.of_nat (List.length l) - 1)) with (List.length l - 1)%nat by lia.
    rewrite (nth_last m_f l a) by discriminate.
    cbn [after lower_all lower m_f].
    set (q0 := fdiv a (last l a)).
    assert (HS : flatten (eval c (EIf (ECmp 4 (EUs 3 (ELen (EVar "teeth")) (ELit (VI 2))) (ELit (VI 0))) (EOp 9 [ELit (VF (f_of_Z 1))]) (ELit (VF (f_of_Z 1)))) EN)
                 = Ok (ONorm (m_f (if Nat.even (List.length l) then fneg fone else fone)) EN)).
    { destruct (Nat.even (List.length l)) eqn:Ev.
      - erewrite flatten_if_true; [reflexivity|].
        rewrite flatten_cmp, flatten_us, Hlen. cbn [after]. lits.
        cbn [after Z.eqb Pos.eqb eval ret1 flatten lift cmp_val of_rv]. unfold cmp_z. cbn [Z.eqb Pos.eqb]. rewrite even_mod, Ev. reflexivity.
      - erewrite flatten_if_false; [reflexivity|].
        rewrite flatten_cmp, flatten_us, Hlen. cbn [after]. lits.
        cbn [after Z.eqb Pos.eqb eval ret1 flatten lift cmp_val of_rv]. unfold cmp_z. cbn [Z.eqb Pos.eqb]. rewrite even_mod, Ev. reflexivity. }
    (* a / last *)
    change (flatten (of_rv_t (prim_tree c 4 [VF a; VF (last l a)]) EN)) with (Ok (ONorm (m_f q0) EN)).
    cbn [after]. rewrite HS. cbn [after]. reflexivity. }
  rewrite H2. cbn [after].
  unfold gear_ratio_of_teeth. fold l. change (match l with [] | [_] => Panic | f :: _ => Ok (fmul (fdiv f (last l f)) (if Nat.even (List.length l) then fneg fone else fone)) end)
    with (Ok (fmul (fdiv a (last l a)) (if Nat.even (List.length l) then fneg fone else fone)) : res F).
  reflexivity.
Qed.
End C08Gear.
Print Assumptions flatten_op1.
Print Assumptions flatten_op2.
Print Assumptions flatten_at.
Print Assumptions flatten_var.
Print Assumptions flatten_len.
Print Assumptions flatten_if_true.
Print Assumptions flatten_if_false.
Print Assumptions flatten_lit.
Print Assumptions flatten_us.
Print Assumptions flatten_cmp.
Print Assumptions C08_gen_gear_with_ratio_raw.
Print Assumptions C08_gen_gear_with_ratio.
Print Assumptions C08_gen_invert_new.
Print Assumptions C08_gen_diff_new.
Print Assumptions C08_gen_diff_with_distrust.
Print Assumptions gear_shape.
Print Assumptions nth_last.
Print Assumptions even_mod.
Print Assumptions C08_gen_gear_new.
