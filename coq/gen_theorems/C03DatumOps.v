(* Theorems over the operator impls of src/datum.rs, translated into expression trees on every run
   (tools/gen_datum.py -> GenDatumOps.v). *)
From Coq Require Import List String Bool ZArith.
From RRTK Require Import Num.Num Model.Values Model.DatumExpr Proofs.DatumExprProofs.
From Gen Require Import GenDatumOps.
Import ListNotations.
Local Open Scope string_scope.

(* decided by the verified procedure of Model/DatumExpr.v on the current source *)
Theorem C03_gen_time_decided : forallb time_ok datum_impls = true.
Proof. vm_compute. reflexivity. Qed.

(* for EVERY pair of times: an operator whose right operand is a datum stamps the result with the newer of the
   two times (the model's tmax_ge), every other operator keeps self's time *)
Theorem C03_gen_time_law : forall i, In i datum_impls -> forall ts to : Z,
  eval_time (di_time i) ts to = Some (if rhs_is_datum (di_rhs i) then tmax_ge ts to else ts).
Proof.
  intros i Hi ts to.
  pose proof (proj1 (forallb_forall time_ok datum_impls) C03_gen_time_decided i Hi) as H.
  unfold time_ok in H. destruct (rhs_is_datum (di_rhs i)).
  - apply is_newest_time_sound; exact H.
  - apply is_self_time_sound; exact H.
Qed.

(* the value of the result is one application of the trait's own operator to self.value and the right operand's value *)
Theorem C03_gen_value_shape : forallb value_ok datum_impls = true.
Proof. vm_compute. reflexivity. Qed.

(* the impls in the source are exactly the 34 forms of the model's operator table (Model/Prog.v: Datum<T> op Datum<T>,
   Datum<T> op T, Not, Neg, and Datum<State|Command> * / Datum<f32> | f32, each by value and assigning) *)
Definition forms4 (self rhsd rhss : string) (ops : list string) : list (string * string * string) :=
  flat_map (fun o => [(o, self, rhsd); (o ++ "Assign", self, rhsd); (o, self, rhss); (o ++ "Assign", self, rhss)]) ops.
Definition expected_forms : list (string * string * string) :=
  [("Not", "T", ""); ("Neg", "T", "")] ++ forms4 "T" "Self" "T" ["Add"; "Sub"; "Mul"; "Div"]
  ++ forms4 "State" "Datum<f32>" "f32" ["Mul"; "Div"] ++ forms4 "Command" "Datum<f32>" "f32" ["Mul"; "Div"].
Definition form_eqb (a b : string * string * string) : bool :=
  match a, b with (x1, y1, z1), (x2, y2, z2) => String.eqb x1 x2 && String.eqb y1 y2 && String.eqb z1 z2 end.
Definition form_of (i : dimpl) := (di_trait i, di_self i, di_rhs i).
Definition same_forms (l : list dimpl) : bool :=
  Nat.eqb (List.length l) (List.length expected_forms) &&
  forallb (fun e => existsb (fun i => form_eqb (form_of i) e) l) expected_forms &&
  forallb (fun i => existsb (form_eqb (form_of i)) expected_forms) l.
Theorem C03_gen_inventory : same_forms datum_impls = true.
Proof. vm_compute. reflexivity. Qed.

Print Assumptions C03_gen_time_decided.
Print Assumptions C03_gen_time_law.
Print Assumptions C03_gen_value_shape.
Print Assumptions C03_gen_inventory.
