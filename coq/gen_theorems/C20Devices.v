From Coq Require Import ZArith List Bool String.
From RRTK Require Import Num.Num Model.Values Model.Prog Model.MiniRust Model.Combinators Model.Streams Model.Settable Model.World Model.Devices
  Proofs.MiniRustEmb.
From Gen Require Import GenStreams.
Import ListNotations.
Local Open Scope string_scope.
Local Open Scope Z_scope.
(* C20: `ActuatorWrapper::update` and `GetterStateDeviceWrapper::update` as written in src/devices/wrappers.rs (translated on every
   run, `update_terminals` / `Terminal::update` / `Settable::set` on the terminal inlined).  The wrapped object has a generic type:
   its methods are external calls.  The translator logs every such call (function, arguments, previous log) in the object and
   takes the call's answer from an input, so the theorems say exactly *which calls are made, in which order, with which
   arguments*, for every answer:
   - actuator: if the terminal's combined read is present, `inner.set(<exactly that TerminalData>)`; if that is rejected the
     error is returned and `inner.update()` is NOT called; otherwise `inner.update()` and its result; nothing is set when the
     terminal sees nothing; the terminal's slots are untouched;
   - encoder: `inner.update()` first (an error returns at once), then `inner.get()`; an error is returned, absent leaves the
     terminal untouched, a present datum is written unchanged into the terminal's state slot; the command slot is untouched.
   What the terminal reads is an input here (C09Streams.v: `C09_gen_term_data_get`).  `actuator_model` / `encoder_model` tie the
   statements to the model functions of Model/Devices.v that C20's run-level theorems are about. *)
Section C20Devices.
Context {F : Type} {NF : Num F}.
Variable c : cfg.
Notation ds := (datum (@state F)).
Notation dc := (datum (@command F)).
Notation tdata := (@tdata F).

Definition m_dterm (s : option ds) (k : option dc) : @mval F :=
  MRec [("settable_data_command", MRec [("following", MNone); ("last_request", m_opt (m_dat VC) k)]);
        ("settable_data_state", MRec [("following", MNone); ("last_request", m_opt (m_dat VS) s)])].
Definition m_dterm_in (s : option ds) (k : option dc) : @mval F :=
  MRec [("settable_data_command", MRec [("following", MNone); ("last_request", MOpt k (m_dat VC))]);
        ("settable_data_state", MRec [("following", MNone); ("last_request", MOpt s (m_dat VS))])].
Definition m_td (x : tdata) : @mval F :=
  MRec [("command", m_opt (fun k => MV (VC k)) (td_cmd x)); ("state", m_opt (fun y => MV (VS y)) (td_state x)); ("time", m_t (td_time x))].
Definition m_tdatum (d : datum tdata) : @mval F := MRec [("time", m_t (d_time d)); ("value", m_td (d_val d))].

(* the calls made on external objects, oldest first: which object, which function, which arguments *)
Inductive call := CSet (x : tdata) | CUpdate | CGet                       (* on `inner` *)
                | CTime (t : Z) | CStateSet (x : @state F) | CCmdSet (k : @command F) | CPidUpdate.   (* PIDWrapper's shared objects *)
Definition m_entry (prev : @mval F) (obj fn : string) (args : list (@mval F)) : @mval F :=
  MRec [("args", MArr args); ("fn", MVariant fn); ("obj", MVariant obj); ("prev", prev)].
Definition m_call (prev : @mval F) (k : call) : @mval F :=
  match k with
  | CSet x => m_entry prev "inner" "set" [m_td x]
  | CUpdate => m_entry prev "inner" "update" []
  | CGet => m_entry prev "inner" "get" []
  | CTime t => m_entry prev "time" "=" [m_t t]
  | CStateSet x => m_entry prev "state" "set" [MV (VS x)]
  | CCmdSet k => m_entry prev "command" "set" [MV (VC k)]
  | CPidUpdate => m_entry prev "pid" "update" []
  end.
Definition m_calls (l : list call) : @mval F := fold_left m_call l MNone.
Definition m_wrapper (l : list call) (t : @mval F) : @mval F := MRec [("ext_log", m_calls l); ("terminal", t)].

(* ---------------------------------------------------------------- ActuatorWrapper *)
Definition act_calls (d : option (datum tdata)) (set_answer : upd) : list call :=
  match d with
  | Some td => CSet (d_val td) :: match set_answer with UOk => [CUpdate] | UErr _ => [] end
  | None => [CUpdate]
  end.
Definition act_result (d : option (datum tdata)) (set_answer update_answer : upd) : upd :=
  match d, set_answer with
  | Some _, UErr e => UErr e
  | _, _ => update_answer
  end.
Theorem C20_gen_actuator_update s k (d : option (datum tdata)) (u1 u2 : upd) :
  run_fn c (g_actuator_update c) (m_wrapper [] (m_dterm_in s k))
    [("get:terminal:TerminalData", MOk (m_opt m_tdatum d)); ("ans:inner.set", m_upd u1); ("ans:inner.update", m_upd u2)]
  = Some (Ok (m_wrapper (act_calls d u1) (m_dterm s k), m_upd (act_result d u1 u2))).
Proof. destruct d as [[t [tt tc tst]]|]; destruct u1; destruct u2; mr_exec2. Qed.

(* the model's actuator step (Model/Devices.v) on a scripted settable: the value it records is the argument of the set call
   above, its result is the set call's answer *)
Lemma actuator_model (w : @world F) t (inner : @sett tdata) :
  actuator_update w t inner
  = match data_get w t with
    | Some td => sett_set inner (d_val td)
    | None => (inner, UOk)
    end.
Proof. reflexivity. Qed.
Lemma actuator_calls_match_model (d : option (datum tdata)) (inner : @sett tdata) :
  let u1 := match st_fail inner with Some e => UErr e | None => UOk end in
  match d with
  | Some td => In (CSet (d_val td)) (act_calls d u1) /\ snd (sett_set inner (d_val td)) = u1
               /\ (u1 = UOk -> st_received (fst (sett_set inner (d_val td))) = (st_received inner ++ [d_val td])%list)
  | None => forall x, ~ In (CSet x) (act_calls d u1)
  end.
Proof.
  destruct d as [td|]; cbn.
  - unfold sett_set. destruct (st_fail inner); cbn; repeat split; auto; discriminate.
  - intros x [H|[]]; discriminate.
Qed.

(* ---------------------------------------------------------------- GetterStateDeviceWrapper *)
Definition enc_calls (upd_answer : upd) : list call := match upd_answer with UOk => [CUpdate; CGet] | UErr _ => [CUpdate] end.
Theorem C20_gen_encoder_update s k (u : upd) (o : out (@state F)) :
  run_fn c (g_encoder_update c) (m_wrapper [] (m_dterm_in s k)) [("ans:inner.update", m_upd u); ("ans:inner.get", m_out VS o)]
  = Some (Ok (m_wrapper (enc_calls u)
                (m_dterm (match u, o with UOk, OSome d => Some d | _, _ => s end) k),
              m_upd (match u with UErr e => UErr e | UOk => match o with OErr e => UErr e | _ => UOk end end))).
Proof. destruct u; destruct o as [e0| |[t x]]; mr_exec2. Qed.

Lemma encoder_model (w : @world F) t (u : upd) (o : out (@state F)) :
  encoder_update w t u o
  = (match u, o with UOk, OSome d => set_state w t d | _, _ => w end,
     match u with UErr e => UErr e | UOk => match o with OErr e => UErr e | _ => UOk end end).
Proof. destruct u; destruct o; reflexivity. Qed.

(* ---------------------------------------------------------------- PIDWrapper *)
(* `PIDWrapper`'s clock, state getter, command getter and controller live behind `Reference`s that alias each other (set up in
   `new`: both getters read the clock, the controller reads the state getter and follows the command getter, the motor follows
   the controller).  Here they are external objects: the theorem says what `update` does to them, in which order, for every
   answer - the clock is set to the terminal data's time first, then the state, then the command (each only when present; an
   error returns at once), then the controller is updated, then the motor; nothing but the motor is touched when the terminal
   sees nothing.  That is the sequence `pidw_update` of Model/Devices.v composes from `cg_set`, `cpid_step` and `sett_update`
   (ConstantGetter::set cannot fail: C15Streams.v `C15_gen_cg_set`; the controller's update is C11Streams.v
   `C11_gen_cpid_update`); the run-level consequences are C20R.v. *)
Definition pidw_trace (d : option (datum tdata)) (us uc up ui : upd) : list call * upd :=
  match d with
  | None => ([CUpdate], ui)
  | Some td =>
      let x := d_val td in
      let l0 := [CTime (td_time x)] in
      match td_state x, us with
      | Some s, UErr e => (l0 ++ [CStateSet s], UErr e)
      | st, _ =>
          let l1 := l0 ++ match st with Some s => [CStateSet s] | None => [] end in
          match td_cmd x, uc with
          | Some k, UErr e => (l1 ++ [CCmdSet k], UErr e)
          | cm, _ =>
              let l2 := l1 ++ match cm with Some k => [CCmdSet k] | None => [] end in
              match up with
              | UErr e => (l2 ++ [CPidUpdate], UErr e)
              | UOk => (l2 ++ [CPidUpdate; CUpdate], ui)
              end
          end
      end
  end%list.
Theorem C20_gen_pidw_update s k (d : option (datum tdata)) (us uc up ui : upd) :
  run_fn c (g_pidw_update c) (m_wrapper [] (m_dterm_in s k))
    [("get:terminal:TerminalData", MOk (m_opt m_tdatum d)); ("ans:state.set", m_upd us); ("ans:command.set", m_upd uc);
     ("ans:pid.update", m_upd up); ("ans:inner.update", m_upd ui)]
  = Some (Ok (m_wrapper (fst (pidw_trace d us uc up ui)) (m_dterm s k), m_upd (snd (pidw_trace d us uc up ui)))).
Proof.
  destruct d as [[t [tt [tc|] [tst|]]]|]; destruct us; destruct uc; destruct up; destruct ui; mr_exec2.
Qed.
End C20Devices.
Print Assumptions C20_gen_actuator_update.
Print Assumptions actuator_model.
Print Assumptions actuator_calls_match_model.
Print Assumptions C20_gen_encoder_update.
Print Assumptions encoder_model.
Print Assumptions C20_gen_pidw_update.
