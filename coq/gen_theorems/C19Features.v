(* Theorems over the feature graph and cfg expressions regenerated from Cargo.toml and src/. *)
From Coq Require Import List String Bool.
From Gen Require Import GenFeatures.
Import ListNotations.
Local Open Scope string_scope.

(* every dimension-checking cfg in the source is one predicate or its negation:
   checking = dim_check_release \/ (debug_assertions /\ dim_check_debug), which is the model's [chk] *)
Definition the_pred := "any(feature='dim_check_release',all(debug_assertions,feature='dim_check_debug'))".
Definition pred_ok (e : string) : bool := String.eqb e the_pred || String.eqb e ("not(" ++ the_pred ++ ")").
Theorem C19_checking_predicate : forallb pred_ok dim_check_cfgs = true /\ Nat.leb 1 (List.length dim_check_cfgs) = true.
Proof. split; vm_compute; reflexivity. Qed.
Print Assumptions C19_checking_predicate.

(* feature implications: std -> alloc and the float backend; dim_check_release -> dim_check_debug *)
Definition implies (f d : string) : bool :=
  existsb (fun e => String.eqb (fst e) f && existsb (String.eqb d) (snd e)) features.
Theorem C19_feature_graph :
  implies "std" "alloc" = true /\ implies "std" "internal_enhanced_float" = true /\
  implies "dim_check_release" "dim_check_debug" = true /\ implies "libm" "internal_enhanced_float" = true /\
  implies "micromath" "internal_enhanced_float" = true /\ implies "default" "std" = true /\ implies "default" "dim_check_debug" = true /\
  implies "alloc" "std" = false /\ implies "devices" "std" = false.
Proof. repeat split; vm_compute; reflexivity. Qed.
Print Assumptions C19_feature_graph.
