From Coq Require Import ZArith List Bool String.
From RRTK Require Import Num.Num Model.Values Model.Prog Model.MiniRust Model.Combinators Model.Streams Model.Settable Proofs.MiniRustEmb.
From Gen Require Import GenStreams.
Import ListNotations.
Local Open Scope string_scope.
Local Open Scope Z_scope.
(* C04 / C05 / C10 / C11 / C12 / C15: the constructors of the stateful streams, of GetterFromHistory (no-delta / custom-delta forms),
   of ConstantGetter and of a raw Terminal, and the getters that just return the cached value - translated on every run.
   A constructor is a struct literal; the theorem says the struct it builds is the embedding of the model's initial state
   (`pid_init`, `cpid_init`, `ewma_init`, `ma_init`, `dint_init`, the empty to-state converters, ...) once the stored input
   reference (a field the embeddings do not carry: reads through it are inputs of the update functions) is set aside; so the
   "newly constructed stream" that C05's reset clauses and C10 / C11's "first samples" clauses speak about is the model's. *)
Section CtorStreams.
Context {F : Type} {NF : Num F}.
Variable c : cfg.

Definition rm_field (f : string) (m : @mval F) : @mval F :=
  match m with
  | MRec l => MRec (filter (fun p => negb (String.eqb (fst p) f)) l)
  | x => x
  end.
(* what a constructor body returns, with the named fields set aside *)
Definition built (body : @mexpr F) (args : @env F) (drop : list string) : option (@mval F) :=
  match flatten (eval c body args) with
  | Ok (ONorm v _) => Some (fold_left (fun m f => rm_field f m) drop v)
  | _ => None
  end.

Theorem Ctor_pid (I : @mval F) sp (k : @kvals F) :
  built (g_pid_new c) [("input", I); ("setpoint", m_f sp); ("kvals", m_kvals k)] ["input"] = Some (m_pid (pid_init sp k)).
Proof. reflexivity. Qed.
Theorem Ctor_cpid (I : @mval F) (cmd : @command F) (k : @pdkvals F) :
  built (g_cpid_new c) [("input", I); ("command", MV (VC cmd)); ("kvalues", m_pdkvals k)] ["input"] = Some (m_cpid None (cpid_init cmd k)).
Proof. reflexivity. Qed.
Theorem Ctor_ewma (I : @mval F) sm :
  built (g_ewma_new c) [("input", I); ("smoothing_constant", m_f sm)] ["input"] = Some (m_ewma VF (ewma_init sm)).
Proof. reflexivity. Qed.
Theorem Ctor_ewma_q (I : @mval F) sm :
  built (g_ewma_new c) [("input", I); ("smoothing_constant", m_f sm)] ["input"] = Some (m_ewma VQ (ewma_init sm)).
Proof. reflexivity. Qed.
Theorem Ctor_ma (I : @mval F) w :
  built (g_ma_new c) [("input", I); ("window", m_t w)] ["input"]
  = Some (MRec [("input_values", MArr (map (m_dat VF) (ma_q (@ma_init F w)))); ("value", m_out VF (ma_val (@ma_init F w))); ("window", m_t (ma_win (@ma_init F w)))]).
Proof. reflexivity. Qed.
Theorem Ctor_deriv (I : @mval F) : built (g_deriv_new c) [("input", I)] ["input"] = Some (m_dint dint_init).
Proof. reflexivity. Qed.
Theorem Ctor_integ (I : @mval F) : built (g_integ_new c) [("input", I)] ["input"] = Some (m_dint dint_init).
Proof. reflexivity. Qed.
Theorem Ctor_a2s (I : @mval F) : built (g_a2s_new c) [("acc", I)] ["acc"; "phantom_e"] = Some (m_a2s None).
Proof. reflexivity. Qed.
Theorem Ctor_v2s (I : @mval F) : built (g_v2s_new c) [("vel", I)] ["vel"; "phantom_e"] = Some (m_v2s None).
Proof. reflexivity. Qed.
Theorem Ctor_p2s (I : @mval F) : built (g_p2s_new c) [("pos", I)] ["pos"; "phantom_e"] = Some (m_p2s None).
Proof. reflexivity. Qed.
Theorem Ctor_f2q (I : @mval F) (u : unit_) :
  built (g_f2q_new c) [("input", I); ("unit", MV (VU u))] ["input"] = Some (MRec [("unit", MV (VU u)); ("value", m_out VF (@ONone F))]).
Proof. reflexivity. Qed.
Theorem Ctor_q2f (I : @mval F) : built (g_q2f_new c) [("input", I)] ["input"] = Some (MRec [("value", m_out VF (@ONone F))]).
Proof. reflexivity. Qed.
Theorem Ctor_freeze (I C0 : @mval F) :
  built (g_freeze_new c) [("condition", C0); ("input", I)] ["input"; "condition"] = Some (MRec [("freeze_value", m_out (@pv F) ONone)]).
Proof. reflexivity. Qed.
(* GetterFromHistory: the offset is 0 / the given one *)
Theorem Ctor_gfh_no_delta (H G : @mval F) :
  built (g_gfh_new_no_delta c) [("history", H); ("time_getter", G)] [] = Some (MRec [("history", H); ("time_delta", m_t 0); ("time_getter", G)]).
Proof. reflexivity. Qed.
Theorem Ctor_gfh_custom_delta (H G : @mval F) d :
  built (g_gfh_new_custom_delta c) [("history", H); ("time_getter", G); ("time_delta", m_t d)] []
  = Some (MRec [("history", H); ("time_delta", m_t d); ("time_getter", G)]).
Proof. reflexivity. Qed.
(* ConstantGetter: follows nothing, no request yet; a raw Terminal: no state, no command, not connected, follows nothing *)
Theorem Ctor_cg (G : @mval F) (v : @pay F) :
  built (g_cg_new c) [("time_getter", G); ("value", MV (pv v))] ["time_getter"]
  = Some (MRec [("settable_data", MRec [("following", MNone); ("last_request", MNone)]); ("value", MV (pv v))]).
Proof. reflexivity. Qed.
Theorem Ctor_terminal :
  built (g_term_new_raw c) [] []
  = Some (MRec [("other", MNone); ("settable_data_command", MRec [("following", MNone); ("last_request", MNone)]);
                ("settable_data_state", MRec [("following", MNone); ("last_request", MNone)])]).
Proof. reflexivity. Qed.

(* the getters that return the cached value *)
Theorem Get_ewma (s : @ewma F F) : run_fn c (g_ewma_get c) (m_ewma VF s) [] = m_get (m_ewma VF s) VF (Ok (ew_val s)).
Proof. destruct s as [sm [e| |[t x]] [tm|]]; reflexivity. Qed.
Theorem Get_ewma_q (s : @ewma F (@quantity F)) : run_fn c (g_ewma_q_get c) (m_ewma VQ s) [] = m_get (m_ewma VQ s) VQ (Ok (ew_val s)).
Proof. destruct s as [sm [e| |[t x]] [tm|]]; reflexivity. Qed.
Theorem Get_deriv (s : @dint F) : run_fn c (g_deriv_get c) (m_dint s) [] = m_get (m_dint s) VQ (Ok (di_val s)).
Proof. destruct s as [[e| |[t x]] [[tp xp]|]]; reflexivity. Qed.
Theorem Get_integ (s : @dint F) : run_fn c (g_integ_get c) (m_dint s) [] = m_get (m_dint s) VQ (Ok (di_val s)).
Proof. destruct s as [[e| |[t x]] [[tp xp]|]]; reflexivity. Qed.
(* moving average: the queue is left alone whatever its length *)
Theorem Get_ma (Q : @mval F) (v : out F) (w : Z) :
  flatten (eval c (g_ma_get c) [("self", MRec [("input_values", Q); ("value", m_out VF v); ("window", m_t w)])])
  = Ok (ONorm (m_out VF v) [("self", MRec [("input_values", Q); ("value", m_out VF v); ("window", m_t w)])]).
Proof. reflexivity. Qed.
Theorem Get_ma_q (Q : @mval F) (v : out (@quantity F)) (w : Z) :
  flatten (eval c (g_ma_q_get c) [("self", MRec [("input_values", Q); ("value", m_out VQ v); ("window", m_t w)])])
  = Ok (ONorm (m_out VQ v) [("self", MRec [("input_values", Q); ("value", m_out VQ v); ("window", m_t w)])]).
Proof. reflexivity. Qed.

(* small helpers: Datum::replace_if_older_than (C03), TerminalData -> Datum<Command> / Datum<State> (C20's actuators use them),
   Time as its own TimeGetter *)
Theorem Helper_replace_if_older_than (d d' : datum (@pay F)) :
  run_fn c (g_datum_replace_if_older_than c) (m_dat pv d) [("maybe_replace_with", m_dat pv d')]
  = Some (Ok (m_dat pv (fst (replace_if_older_than d d')), MV (VB (snd (replace_if_older_than d d'))))).
Proof. destruct d as [t x], d' as [t' x']. unfold replace_if_older_than. cbn [d_time d_val]. destruct x, x'; mr_exec. Qed.
Definition m_tdv (t : Z) (k : option (@command F)) (x : option (@state F)) : @mval F :=
  MRec [("command", m_opt (fun q => MV (VC q)) k); ("state", m_opt (fun q => MV (VS q)) x); ("time", m_t t)].
Theorem Helper_tdata_to_command t k x :
  flatten (eval c (g_tdata_to_command c) [("value", m_tdv t k x)])
  = Ok (ONorm (match k with Some q => MOk (m_dat VC (mkDatum t q)) | None => MErr MTup0 end) [("value", m_tdv t k x)]).
Proof. destruct k; reflexivity. Qed.
Theorem Helper_tdata_to_state t k x :
  flatten (eval c (g_tdata_to_state c) [("value", m_tdv t k x)])
  = Ok (ONorm (match x with Some q => MOk (m_dat VS (mkDatum t q)) | None => MErr MTup0 end) [("value", m_tdv t k x)]).
Proof. destruct x; reflexivity. Qed.
Theorem Helper_time_get (t : Z) : run_fn c (g_time_get c) (m_t t) [] = Some (Ok (m_t t, MOk (m_t t))).
Proof. reflexivity. Qed.

(* MotionProfilePiece -> PositionDerivative (C06: the mode of a piece; C01: the unit of a piece goes through it) *)
Definition m_piece (x : piece) : @mval F :=
  MVariant (match x with
            | BeforeStart => "MotionProfilePiece::BeforeStart" | InitialAcceleration => "MotionProfilePiece::InitialAcceleration"
            | ConstantVelocity => "MotionProfilePiece::ConstantVelocity" | EndAcceleration => "MotionProfilePiece::EndAcceleration"
            | Complete => "MotionProfilePiece::Complete" end).
Theorem Helper_piece_to_pd (x : piece) :
  flatten (eval c (g_piece_to_pd c) [("was", m_piece x)])
  = Ok (ONorm (match pd_of_piece x with Some d => MOk (MV (VPD d)) | None => MErr MTup0 end) [("was", m_piece x)]).
Proof. destruct x; reflexivity. Qed.
End CtorStreams.
Print Assumptions Ctor_pid.
Print Assumptions Ctor_cpid.
Print Assumptions Ctor_ewma.
Print Assumptions Ctor_ewma_q.
Print Assumptions Ctor_ma.
Print Assumptions Ctor_deriv.
Print Assumptions Ctor_integ.
Print Assumptions Ctor_a2s.
Print Assumptions Ctor_v2s.
Print Assumptions Ctor_p2s.
Print Assumptions Ctor_f2q.
Print Assumptions Ctor_q2f.
Print Assumptions Ctor_freeze.
Print Assumptions Ctor_gfh_no_delta.
Print Assumptions Ctor_gfh_custom_delta.
Print Assumptions Ctor_cg.
Print Assumptions Ctor_terminal.
Print Assumptions Get_ewma.
Print Assumptions Get_ewma_q.
Print Assumptions Get_deriv.
Print Assumptions Get_integ.
Print Assumptions Get_ma.
Print Assumptions Get_ma_q.
Print Assumptions Helper_replace_if_older_than.
Print Assumptions Helper_tdata_to_command.
Print Assumptions Helper_tdata_to_state.
Print Assumptions Helper_time_get.
Print Assumptions Helper_piece_to_pd.
