From Coq Require Import ZArith List Bool String.
From RRTK Require Import Num.Num Model.Values Model.Prog Model.MiniRust Model.Combinators Model.Streams Proofs.MiniRustEmb.
From Gen Require Import GenStreams.
Import ListNotations.
Local Open Scope string_scope.
Local Open Scope Z_scope.
(* C11: CommandPID's get / impl_set / update as written in src/streams/control.rs (with Settable::update_following_data,
   Settable::set of src/lib.rs and PositionDerivativeDependentPIDKValues::evaluate inlined by the translator) are the
   model's cpid_get / cpid_set / cpid_step, for every state, every followed-getter output and every input. *)
Section C11Streams.
Context {F : Type} {NF : Num F}.
Variable c : cfg.

Theorem C11_gen_cpid_get fo (s : @cpid F) :
  run_fn c (g_cpid_get c) (m_cpid fo s) [] = m_get (m_cpid fo s) VF (Ok (cpid_get s)).
Proof. unfold cpid_get. split_inputs; mr_exec. Qed.

(* impl_set alone: resets only when the command differs (IEEE equality on the payload); last_request is set by Settable::set *)
Theorem C11_gen_cpid_impl_set fo (s : @cpid F) (cmd : @command F) :
  run_fn c (g_cpid_impl_set c) (m_cpid fo s) [("command", MV (VC cmd))]
  = Some (Ok (m_cpid fo {| cp_last := cp_last s; cp_cmd := cp_cmd (cpid_set s cmd); cp_k := cp_k s; cp_st := cp_st (cpid_set s cmd) |}, MOk MTup0)).
Proof. unfold cpid_set. destruct s as [last cur k st]. destruct fo as [[?| |[? ?]]|]; destruct last; destruct st as [?| |[? ? ? [[? ? [?|]]|]]]; mr_exec. Qed.

Theorem C11_gen_cpid_update fo (s : @cpid F) (i : out (@state F)) :
  run_fn c (g_cpid_update c) (m_cpid fo s) [("get:input", m_out VS i)]
  = Some (match cpid_step c s fo i with Ok (s', u) => Ok (m_cpid fo s', m_upd u) | Panic => Panic end).
Proof.
  unfold cpid_step, cpid_set, dt_f, pdk_eval, pdk_get, k_eval.
  destruct s as [last [kind v] k st].
  destruct fo as [[fe| |[ft [fk fv]]]|].
  - (* the followed getter fails: early return *) mr_exec.
  - destruct i as [e| |[t x]]; [mr_exec|mr_exec|].
    destruct st as [e| |[t0 o0 e0 [[oi ei [oii|]]|]]]; destruct kind; mr_exec.
  - destruct i as [e| |[t x]]; [mr_exec|mr_exec|].
    destruct st as [e| |[t0 o0 e0 [[oi ei [oii|]]|]]]; destruct kind; destruct fk; mr_exec.
  - destruct i as [e| |[t x]]; [mr_exec|mr_exec|].
    destruct st as [e| |[t0 o0 e0 [[oi ei [oii|]]|]]]; destruct kind; mr_exec.
Qed.
End C11Streams.
Print Assumptions C11_gen_cpid_get.
Print Assumptions C11_gen_cpid_impl_set.
Print Assumptions C11_gen_cpid_update.
