(* Theorems over the table regenerated from /repo/src/dimensions/constants.rs on every run. *)
From Coq Require Import ZArith Bool List String.
From RRTK Require Import Proofs.UnitNames.
From Gen Require Import GenConstants.

(* every named constant has the exponents its name states (finite table: 49 entries) *)
Theorem C01_constants_named_correctly : forallb const_ok constants = true.
Proof. vm_compute. reflexivity. Qed.
Print Assumptions C01_constants_named_correctly.

(* the table is a bijection with the grid [-3,3] x [-3,3] *)
Theorem C01_constants_cover_grid : covers constants = true.
Proof. vm_compute. reflexivity. Qed.
Print Assumptions C01_constants_cover_grid.

Corollary C01_constant_lookup n m s : In (n, m, s) constants -> denote_name n = Some (m, s).
Proof.
  intros H. pose proof (proj1 (forallb_forall _ _) C01_constants_named_correctly _ H) as K.
  unfold const_ok in K. destruct (denote_name n) as [[m' s']|]; [|discriminate].
  apply andb_true_iff in K. destruct K as [K1 K2].
  apply Z.eqb_eq in K1, K2. subst. reflexivity.
Qed.
Print Assumptions C01_constant_lookup.
