(* C20: the wiring `PIDWrapper::new` sets up through `Reference`s, as written in src/devices/wrappers.rs (translated on every run
   by tools/gen_wiring.py, statement by statement; an unknown statement form is an error).  C20Devices.v proves what
   `PIDWrapper::update` does to the shared objects, treating them as external; what those objects *are* and how they refer to
   each other is fixed here: one clock cell; a state getter and a command getter that are `ConstantGetter`s reading that same
   clock and holding the initial state / command; a `CommandPID` whose input is the state getter, with the initial command and
   the gains; the controller follows the command getter; the motor follows the controller; and the struct's fields are exactly
   these objects.  This is the structure `pidw_init` / `pidw_update` of Model/Devices.v assume: `cg_get cm (TOk clock)` and
   `cg_get st (TOk clock)` read the one clock, `cpid_step` gets the command getter's output as its followed getter and the state
   getter's output as its input, and `sett_update (pw_inner p) (cpid_get (pw_pid p))` feeds the motor from the controller. *)
From Coq Require Import List String Bool.
From Gen Require Import GenWiring.
Import ListNotations.
Local Open Scope string_scope.

Definition expected_wiring : list (string * string * list string) :=
  [("terminal", "terminal", []);
   ("cell", "time", ["initial_time"]);
   ("constant_getter", "state", ["time"; "initial_state"]);
   ("constant_getter", "command", ["time"; "initial_command"]);
   ("command_pid", "pid", ["state"; "initial_command"; "kvalues"]);
   ("follow", "pid", ["command"; "Command"]);
   ("follow", "inner", ["pid"; "f32"]);
   ("field", "terminal", ["terminal"]); ("field", "time", ["time"]); ("field", "state", ["state"]);
   ("field", "command", ["command"]); ("field", "pid", ["pid"]); ("field", "inner", ["inner"])].
Theorem C20_pid_wrapper_wiring : pidw_wiring = expected_wiring.
Proof. reflexivity. Qed.
(* consequences used by the model, read off the table *)
Definition args_of (form obj : string) : option (list string) :=
  match find (fun r => String.eqb (fst (fst r)) form && String.eqb (snd (fst r)) obj) pidw_wiring with Some r => Some (snd r) | None => None end.
Theorem C20_one_clock_for_both_getters :
  option_map (@hd string "") (args_of "constant_getter" "state") = Some "time"
  /\ option_map (@hd string "") (args_of "constant_getter" "command") = Some "time".
Proof. split; reflexivity. Qed.
Theorem C20_controller_reads_state_follows_command_motor_follows_controller :
  option_map (@hd string "") (args_of "command_pid" "pid") = Some "state"
  /\ option_map (@hd string "") (args_of "follow" "pid") = Some "command"
  /\ option_map (@hd string "") (args_of "follow" "inner") = Some "pid".
Proof. repeat split; reflexivity. Qed.
Print Assumptions C20_pid_wrapper_wiring.
Print Assumptions C20_one_clock_for_both_getters.
Print Assumptions C20_controller_reads_state_follows_command_motor_follows_controller.
