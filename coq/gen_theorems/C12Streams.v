From Coq Require Import ZArith List Bool String.
From RRTK Require Import Num.Num Model.Values Model.Prog Model.MiniRust Model.Combinators Model.Streams Proofs.MiniRustEmb.
From Gen Require Import GenStreams.
Import ListNotations.
Local Open Scope string_scope.
Local Open Scope Z_scope.
(* C12: the two EWMAStream::update bodies of src/streams/control.rs (generic payload instantiated at f32, and the Quantity
   specialisation), translated on every run, are the model's ewma_step with mix_f / mix_q - including the `expect` on
   update_time (a panic in the model too) - for every state and every input. *)
Section C12Streams.
Context {F : Type} {NF : Num F}.
Variable c : cfg.
Theorem C12_gen_ewma_update (s : @ewma F F) (i : out F) :
  run_fn c (g_ewma_update c) (m_ewma VF s) [("get:input", m_out VF i)] = m_step (m_ewma VF) (ewma_step c mix_f s i).
Proof. unfold ewma_step, dt_f, mix_f. split_inputs; mr_exec. Qed.
Theorem C12_gen_ewma_q_update (s : @ewma F (@quantity F)) (i : out (@quantity F)) :
  run_fn c (g_ewma_q_update c) (m_ewma VQ s) [("get:input", m_out VQ i)] = m_step (m_ewma VQ) (ewma_step c (mix_q c) s i).
Proof. unfold ewma_step, dt_f, mix_q. split_inputs; mr_exec. Qed.
End C12Streams.
Print Assumptions C12_gen_ewma_update.
Print Assumptions C12_gen_ewma_q_update.
