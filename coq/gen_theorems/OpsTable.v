(* Theorems over the value-layer impl bodies translated from the source on every run (tools/gen_ops.py -> GenOps.v):
   for every impl / inherent function listed here and every operand, evaluating the translated body gives exactly what the
   operator table of Model/Prog.v gives for that impl's opcode (any carrier, any configuration; panics included).
   The list of impls is pinned by this file (written by `python3 tools/gen_ops.py --theorems`): an impl that disappears from
   the source makes the corresponding definition disappear from GenOps.v and this file fail. *)
From Coq Require Import ZArith List Bool String.
From RRTK Require Import Num.Num Model.Values Model.Prog Model.MiniRust Model.Combinators Model.Streams Proofs.MiniRustEmb.
From Gen Require Import GenOps.
Import ListNotations.
Local Open Scope string_scope.
Local Open Scope Z_scope.

Section OpsTable.
Context {F : Type} {NF : Num F}.
Variable c : cfg.
(* the functions whose bodies are selected by the dimension-check cfg (Proofs/MiniRustEmb.v unit_tac, extended to quantities and to
   the conversion Quantity -> Command) *)
Ltac unit_tac2 c :=
  destruct c as [[] ?]; intros; split_ops; repeat match goal with x : unit_ |- _ => destruct x end;
  repeat match goal with x : @quantity _ |- _ => destruct x as [? []] end;
  unfold run_val, run_self, run_unit, run_try, run_with; cbn;
  repeat (progress unfold uadd, usub, assert_ok, assert_not_ok, eq_assume_true, eq_assume_false, umul, udiv, unew, ueqb, unit_of_pd, pd_of_unit, c_of_q, bind; cbn [chk mm sec qu qv]);
  cbn;
  repeat (match goal with |- context [Z.eqb ?a ?b] => destruct (Z.eqb a b) end; cbn); try reflexivity.

(* impl Add for Time *)
Theorem ops_Add_TT (x0 : Z) (x1 : Z) :
  run_val c (g_Add_TT c) [("self", MV (VT x0)); ("rhs", MV (VT x1))] = apply_op c 1 [VT x0; VT x1].
Proof. ops_tac. Qed.

(* impl Add<Quantity> for Time *)
Theorem ops_Add_TQ (x0 : Z) (x1 : (@quantity F)) :
  run_val c (g_Add_TQ c) [("self", MV (VT x0)); ("rhs", MV (VQ x1))] = apply_op c 1 [VT x0; VQ x1].
Proof. ops_tac. Qed.

(* impl Sub for Time *)
Theorem ops_Sub_TT (x0 : Z) (x1 : Z) :
  run_val c (g_Sub_TT c) [("self", MV (VT x0)); ("rhs", MV (VT x1))] = apply_op c 2 [VT x0; VT x1].
Proof. ops_tac. Qed.

(* impl Sub<Quantity> for Time *)
Theorem ops_Sub_TQ (x0 : Z) (x1 : (@quantity F)) :
  run_val c (g_Sub_TQ c) [("self", MV (VT x0)); ("rhs", MV (VQ x1))] = apply_op c 2 [VT x0; VQ x1].
Proof. ops_tac. Qed.

(* impl Mul for Time *)
Theorem ops_Mul_TT (x0 : Z) (x1 : Z) :
  run_val c (g_Mul_TT c) [("self", MV (VT x0)); ("rhs", MV (VT x1))] = apply_op c 3 [VT x0; VT x1].
Proof. ops_tac. Qed.

(* impl Mul<DimensionlessInteger> for Time *)
Theorem ops_Mul_TD (x0 : Z) (x1 : Z) :
  run_val c (g_Mul_TD c) [("self", MV (VT x0)); ("rhs", MV (VD x1))] = apply_op c 3 [VT x0; VD x1].
Proof. ops_tac. Qed.

(* impl Mul<Quantity> for Time *)
Theorem ops_Mul_TQ (x0 : Z) (x1 : (@quantity F)) :
  run_val c (g_Mul_TQ c) [("self", MV (VT x0)); ("rhs", MV (VQ x1))] = apply_op c 3 [VT x0; VQ x1].
Proof. ops_tac. Qed.

(* impl Div for Time *)
Theorem ops_Div_TT (x0 : Z) (x1 : Z) :
  run_val c (g_Div_TT c) [("self", MV (VT x0)); ("rhs", MV (VT x1))] = apply_op c 4 [VT x0; VT x1].
Proof. ops_tac. Qed.

(* impl Div<DimensionlessInteger> for Time *)
Theorem ops_Div_TD (x0 : Z) (x1 : Z) :
  run_val c (g_Div_TD c) [("self", MV (VT x0)); ("rhs", MV (VD x1))] = apply_op c 4 [VT x0; VD x1].
Proof. ops_tac. Qed.

(* impl Div<Quantity> for Time *)
Theorem ops_Div_TQ (x0 : Z) (x1 : (@quantity F)) :
  run_val c (g_Div_TQ c) [("self", MV (VT x0)); ("rhs", MV (VQ x1))] = apply_op c 4 [VT x0; VQ x1].
Proof. ops_tac. Qed.

(* impl AddAssign for Time *)
Theorem ops_AddAssign_TT (x0 : Z) (x1 : Z) :
  run_self c (g_AddAssign_TT c) [("self", MV (VT x0)); ("rhs", MV (VT x1))] = apply_op c 5 [VT x0; VT x1].
Proof. ops_tac. Qed.

(* impl SubAssign for Time *)
Theorem ops_SubAssign_TT (x0 : Z) (x1 : Z) :
  run_self c (g_SubAssign_TT c) [("self", MV (VT x0)); ("rhs", MV (VT x1))] = apply_op c 6 [VT x0; VT x1].
Proof. ops_tac. Qed.

(* impl MulAssign<DimensionlessInteger> for Time *)
Theorem ops_MulAssign_TD (x0 : Z) (x1 : Z) :
  run_self c (g_MulAssign_TD c) [("self", MV (VT x0)); ("rhs", MV (VD x1))] = apply_op c 7 [VT x0; VD x1].
Proof. ops_tac. Qed.

(* impl DivAssign<DimensionlessInteger> for Time *)
Theorem ops_DivAssign_TD (x0 : Z) (x1 : Z) :
  run_self c (g_DivAssign_TD c) [("self", MV (VT x0)); ("rhs", MV (VD x1))] = apply_op c 8 [VT x0; VD x1].
Proof. ops_tac. Qed.

(* impl Neg for Time *)
Theorem ops_Neg_T (x0 : Z) :
  run_val c (g_Neg_T c) [("self", MV (VT x0))] = apply_op c 9 [VT x0].
Proof. ops_tac. Qed.

(* impl Add for DimensionlessInteger *)
Theorem ops_Add_DD (x0 : Z) (x1 : Z) :
  run_val c (g_Add_DD c) [("self", MV (VD x0)); ("rhs", MV (VD x1))] = apply_op c 1 [VD x0; VD x1].
Proof. ops_tac. Qed.

(* impl Add<Quantity> for DimensionlessInteger *)
Theorem ops_Add_DQ (x0 : Z) (x1 : (@quantity F)) :
  run_val c (g_Add_DQ c) [("self", MV (VD x0)); ("rhs", MV (VQ x1))] = apply_op c 1 [VD x0; VQ x1].
Proof. ops_tac. Qed.

(* impl Sub for DimensionlessInteger *)
Theorem ops_Sub_DD (x0 : Z) (x1 : Z) :
  run_val c (g_Sub_DD c) [("self", MV (VD x0)); ("rhs", MV (VD x1))] = apply_op c 2 [VD x0; VD x1].
Proof. ops_tac. Qed.

(* impl Sub<Quantity> for DimensionlessInteger *)
Theorem ops_Sub_DQ (x0 : Z) (x1 : (@quantity F)) :
  run_val c (g_Sub_DQ c) [("self", MV (VD x0)); ("rhs", MV (VQ x1))] = apply_op c 2 [VD x0; VQ x1].
Proof. ops_tac. Qed.

(* impl Mul for DimensionlessInteger *)
Theorem ops_Mul_DD (x0 : Z) (x1 : Z) :
  run_val c (g_Mul_DD c) [("self", MV (VD x0)); ("rhs", MV (VD x1))] = apply_op c 3 [VD x0; VD x1].
Proof. ops_tac. Qed.

(* impl Mul<Time> for DimensionlessInteger *)
Theorem ops_Mul_DT (x0 : Z) (x1 : Z) :
  run_val c (g_Mul_DT c) [("self", MV (VD x0)); ("rhs", MV (VT x1))] = apply_op c 3 [VD x0; VT x1].
Proof. ops_tac. Qed.

(* impl Mul<Quantity> for DimensionlessInteger *)
Theorem ops_Mul_DQ (x0 : Z) (x1 : (@quantity F)) :
  run_val c (g_Mul_DQ c) [("self", MV (VD x0)); ("rhs", MV (VQ x1))] = apply_op c 3 [VD x0; VQ x1].
Proof. ops_tac. Qed.

(* impl Div for DimensionlessInteger *)
Theorem ops_Div_DD (x0 : Z) (x1 : Z) :
  run_val c (g_Div_DD c) [("self", MV (VD x0)); ("rhs", MV (VD x1))] = apply_op c 4 [VD x0; VD x1].
Proof. ops_tac. Qed.

(* impl Div<Time> for DimensionlessInteger *)
Theorem ops_Div_DT (x0 : Z) (x1 : Z) :
  run_val c (g_Div_DT c) [("self", MV (VD x0)); ("rhs", MV (VT x1))] = apply_op c 4 [VD x0; VT x1].
Proof. ops_tac. Qed.

(* impl Div<Quantity> for DimensionlessInteger *)
Theorem ops_Div_DQ (x0 : Z) (x1 : (@quantity F)) :
  run_val c (g_Div_DQ c) [("self", MV (VD x0)); ("rhs", MV (VQ x1))] = apply_op c 4 [VD x0; VQ x1].
Proof. ops_tac. Qed.

(* impl AddAssign for DimensionlessInteger *)
Theorem ops_AddAssign_DD (x0 : Z) (x1 : Z) :
  run_self c (g_AddAssign_DD c) [("self", MV (VD x0)); ("rhs", MV (VD x1))] = apply_op c 5 [VD x0; VD x1].
Proof. ops_tac. Qed.

(* impl SubAssign for DimensionlessInteger *)
Theorem ops_SubAssign_DD (x0 : Z) (x1 : Z) :
  run_self c (g_SubAssign_DD c) [("self", MV (VD x0)); ("rhs", MV (VD x1))] = apply_op c 6 [VD x0; VD x1].
Proof. ops_tac. Qed.

(* impl MulAssign for DimensionlessInteger *)
Theorem ops_MulAssign_DD (x0 : Z) (x1 : Z) :
  run_self c (g_MulAssign_DD c) [("self", MV (VD x0)); ("rhs", MV (VD x1))] = apply_op c 7 [VD x0; VD x1].
Proof. ops_tac. Qed.

(* impl DivAssign for DimensionlessInteger *)
Theorem ops_DivAssign_DD (x0 : Z) (x1 : Z) :
  run_self c (g_DivAssign_DD c) [("self", MV (VD x0)); ("rhs", MV (VD x1))] = apply_op c 8 [VD x0; VD x1].
Proof. ops_tac. Qed.

(* impl Neg for DimensionlessInteger *)
Theorem ops_Neg_D (x0 : Z) :
  run_val c (g_Neg_D c) [("self", MV (VD x0))] = apply_op c 9 [VD x0].
Proof. ops_tac. Qed.

(* impl Add for Quantity *)
Theorem ops_Add_QQ (x0 : (@quantity F)) (x1 : (@quantity F)) :
  run_val c (g_Add_QQ c) [("self", MV (VQ x0)); ("rhs", MV (VQ x1))] = apply_op c 1 [VQ x0; VQ x1].
Proof. ops_tac. Qed.

(* impl Add<Time> for Quantity *)
Theorem ops_Add_QT (x0 : (@quantity F)) (x1 : Z) :
  run_val c (g_Add_QT c) [("self", MV (VQ x0)); ("rhs", MV (VT x1))] = apply_op c 1 [VQ x0; VT x1].
Proof. ops_tac. Qed.

(* impl Add<DimensionlessInteger> for Quantity *)
Theorem ops_Add_QD (x0 : (@quantity F)) (x1 : Z) :
  run_val c (g_Add_QD c) [("self", MV (VQ x0)); ("rhs", MV (VD x1))] = apply_op c 1 [VQ x0; VD x1].
Proof. ops_tac. Qed.

(* impl Sub for Quantity *)
Theorem ops_Sub_QQ (x0 : (@quantity F)) (x1 : (@quantity F)) :
  run_val c (g_Sub_QQ c) [("self", MV (VQ x0)); ("rhs", MV (VQ x1))] = apply_op c 2 [VQ x0; VQ x1].
Proof. ops_tac. Qed.

(* impl Sub<Time> for Quantity *)
Theorem ops_Sub_QT (x0 : (@quantity F)) (x1 : Z) :
  run_val c (g_Sub_QT c) [("self", MV (VQ x0)); ("rhs", MV (VT x1))] = apply_op c 2 [VQ x0; VT x1].
Proof. ops_tac. Qed.

(* impl Sub<DimensionlessInteger> for Quantity *)
Theorem ops_Sub_QD (x0 : (@quantity F)) (x1 : Z) :
  run_val c (g_Sub_QD c) [("self", MV (VQ x0)); ("rhs", MV (VD x1))] = apply_op c 2 [VQ x0; VD x1].
Proof. ops_tac. Qed.

(* impl Mul for Quantity *)
Theorem ops_Mul_QQ (x0 : (@quantity F)) (x1 : (@quantity F)) :
  run_val c (g_Mul_QQ c) [("self", MV (VQ x0)); ("rhs", MV (VQ x1))] = apply_op c 3 [VQ x0; VQ x1].
Proof. ops_tac. Qed.

(* impl Mul<Time> for Quantity *)
Theorem ops_Mul_QT (x0 : (@quantity F)) (x1 : Z) :
  run_val c (g_Mul_QT c) [("self", MV (VQ x0)); ("rhs", MV (VT x1))] = apply_op c 3 [VQ x0; VT x1].
Proof. ops_tac. Qed.

(* impl Mul<DimensionlessInteger> for Quantity *)
Theorem ops_Mul_QD (x0 : (@quantity F)) (x1 : Z) :
  run_val c (g_Mul_QD c) [("self", MV (VQ x0)); ("rhs", MV (VD x1))] = apply_op c 3 [VQ x0; VD x1].
Proof. ops_tac. Qed.

(* impl Div for Quantity *)
Theorem ops_Div_QQ (x0 : (@quantity F)) (x1 : (@quantity F)) :
  run_val c (g_Div_QQ c) [("self", MV (VQ x0)); ("rhs", MV (VQ x1))] = apply_op c 4 [VQ x0; VQ x1].
Proof. ops_tac. Qed.

(* impl Div<Time> for Quantity *)
Theorem ops_Div_QT (x0 : (@quantity F)) (x1 : Z) :
  run_val c (g_Div_QT c) [("self", MV (VQ x0)); ("rhs", MV (VT x1))] = apply_op c 4 [VQ x0; VT x1].
Proof. ops_tac. Qed.

(* impl Div<DimensionlessInteger> for Quantity *)
Theorem ops_Div_QD (x0 : (@quantity F)) (x1 : Z) :
  run_val c (g_Div_QD c) [("self", MV (VQ x0)); ("rhs", MV (VD x1))] = apply_op c 4 [VQ x0; VD x1].
Proof. ops_tac. Qed.

(* impl AddAssign for Quantity *)
Theorem ops_AddAssign_QQ (x0 : (@quantity F)) (x1 : (@quantity F)) :
  run_self c (g_AddAssign_QQ c) [("self", MV (VQ x0)); ("rhs", MV (VQ x1))] = apply_op c 5 [VQ x0; VQ x1].
Proof. ops_tac. Qed.

(* impl AddAssign<Time> for Quantity *)
Theorem ops_AddAssign_QT (x0 : (@quantity F)) (x1 : Z) :
  run_self c (g_AddAssign_QT c) [("self", MV (VQ x0)); ("rhs", MV (VT x1))] = apply_op c 5 [VQ x0; VT x1].
Proof. ops_tac. Qed.

(* impl AddAssign<DimensionlessInteger> for Quantity *)
Theorem ops_AddAssign_QD (x0 : (@quantity F)) (x1 : Z) :
  run_self c (g_AddAssign_QD c) [("self", MV (VQ x0)); ("rhs", MV (VD x1))] = apply_op c 5 [VQ x0; VD x1].
Proof. ops_tac. Qed.

(* impl SubAssign for Quantity *)
Theorem ops_SubAssign_QQ (x0 : (@quantity F)) (x1 : (@quantity F)) :
  run_self c (g_SubAssign_QQ c) [("self", MV (VQ x0)); ("rhs", MV (VQ x1))] = apply_op c 6 [VQ x0; VQ x1].
Proof. ops_tac. Qed.

(* impl SubAssign<Time> for Quantity *)
Theorem ops_SubAssign_QT (x0 : (@quantity F)) (x1 : Z) :
  run_self c (g_SubAssign_QT c) [("self", MV (VQ x0)); ("rhs", MV (VT x1))] = apply_op c 6 [VQ x0; VT x1].
Proof. ops_tac. Qed.

(* impl SubAssign<DimensionlessInteger> for Quantity *)
Theorem ops_SubAssign_QD (x0 : (@quantity F)) (x1 : Z) :
  run_self c (g_SubAssign_QD c) [("self", MV (VQ x0)); ("rhs", MV (VD x1))] = apply_op c 6 [VQ x0; VD x1].
Proof. ops_tac. Qed.

(* impl MulAssign for Quantity *)
Theorem ops_MulAssign_QQ (x0 : (@quantity F)) (x1 : (@quantity F)) :
  run_self c (g_MulAssign_QQ c) [("self", MV (VQ x0)); ("rhs", MV (VQ x1))] = apply_op c 7 [VQ x0; VQ x1].
Proof. ops_tac. Qed.

(* impl MulAssign<Time> for Quantity *)
Theorem ops_MulAssign_QT (x0 : (@quantity F)) (x1 : Z) :
  run_self c (g_MulAssign_QT c) [("self", MV (VQ x0)); ("rhs", MV (VT x1))] = apply_op c 7 [VQ x0; VT x1].
Proof. ops_tac. Qed.

(* impl MulAssign<DimensionlessInteger> for Quantity *)
Theorem ops_MulAssign_QD (x0 : (@quantity F)) (x1 : Z) :
  run_self c (g_MulAssign_QD c) [("self", MV (VQ x0)); ("rhs", MV (VD x1))] = apply_op c 7 [VQ x0; VD x1].
Proof. ops_tac. Qed.

(* impl DivAssign for Quantity *)
Theorem ops_DivAssign_QQ (x0 : (@quantity F)) (x1 : (@quantity F)) :
  run_self c (g_DivAssign_QQ c) [("self", MV (VQ x0)); ("rhs", MV (VQ x1))] = apply_op c 8 [VQ x0; VQ x1].
Proof. ops_tac. Qed.

(* impl DivAssign<Time> for Quantity *)
Theorem ops_DivAssign_QT (x0 : (@quantity F)) (x1 : Z) :
  run_self c (g_DivAssign_QT c) [("self", MV (VQ x0)); ("rhs", MV (VT x1))] = apply_op c 8 [VQ x0; VT x1].
Proof. ops_tac. Qed.

(* impl DivAssign<DimensionlessInteger> for Quantity *)
Theorem ops_DivAssign_QD (x0 : (@quantity F)) (x1 : Z) :
  run_self c (g_DivAssign_QD c) [("self", MV (VQ x0)); ("rhs", MV (VD x1))] = apply_op c 8 [VQ x0; VD x1].
Proof. ops_tac. Qed.

(* impl Neg for Quantity *)
Theorem ops_Neg_Q (x0 : (@quantity F)) :
  run_val c (g_Neg_Q c) [("self", MV (VQ x0))] = apply_op c 9 [VQ x0].
Proof. ops_tac. Qed.

(* impl Add for State *)
Theorem ops_Add_SS (x0 : (@state F)) (x1 : (@state F)) :
  run_val c (g_Add_SS c) [("self", MV (VS x0)); ("other", MV (VS x1))] = apply_op c 1 [VS x0; VS x1].
Proof. ops_tac. Qed.

(* impl Sub for State *)
Theorem ops_Sub_SS (x0 : (@state F)) (x1 : (@state F)) :
  run_val c (g_Sub_SS c) [("self", MV (VS x0)); ("other", MV (VS x1))] = apply_op c 2 [VS x0; VS x1].
Proof. ops_tac. Qed.

(* impl Mul<f32> for State *)
Theorem ops_Mul_SF (x0 : (@state F)) (x1 : F) :
  run_val c (g_Mul_SF c) [("self", MV (VS x0)); ("coef", MV (VF x1))] = apply_op c 3 [VS x0; VF x1].
Proof. ops_tac. Qed.

(* impl Div<f32> for State *)
Theorem ops_Div_SF (x0 : (@state F)) (x1 : F) :
  run_val c (g_Div_SF c) [("self", MV (VS x0)); ("dvsr", MV (VF x1))] = apply_op c 4 [VS x0; VF x1].
Proof. ops_tac. Qed.

(* impl AddAssign for State *)
Theorem ops_AddAssign_SS (x0 : (@state F)) (x1 : (@state F)) :
  run_self c (g_AddAssign_SS c) [("self", MV (VS x0)); ("other", MV (VS x1))] = apply_op c 5 [VS x0; VS x1].
Proof. ops_tac. Qed.

(* impl SubAssign for State *)
Theorem ops_SubAssign_SS (x0 : (@state F)) (x1 : (@state F)) :
  run_self c (g_SubAssign_SS c) [("self", MV (VS x0)); ("other", MV (VS x1))] = apply_op c 6 [VS x0; VS x1].
Proof. ops_tac. Qed.

(* impl MulAssign<f32> for State *)
Theorem ops_MulAssign_SF (x0 : (@state F)) (x1 : F) :
  run_self c (g_MulAssign_SF c) [("self", MV (VS x0)); ("coef", MV (VF x1))] = apply_op c 7 [VS x0; VF x1].
Proof. ops_tac. Qed.

(* impl DivAssign<f32> for State *)
Theorem ops_DivAssign_SF (x0 : (@state F)) (x1 : F) :
  run_self c (g_DivAssign_SF c) [("self", MV (VS x0)); ("dvsr", MV (VF x1))] = apply_op c 8 [VS x0; VF x1].
Proof. ops_tac. Qed.

(* impl Neg for State *)
Theorem ops_Neg_S (x0 : (@state F)) :
  run_val c (g_Neg_S c) [("self", MV (VS x0))] = apply_op c 9 [VS x0].
Proof. ops_tac. Qed.

(* impl Add for Command *)
Theorem ops_Add_CC (x0 : (@command F)) (x1 : (@command F)) :
  run_val c (g_Add_CC c) [("self", MV (VC x0)); ("rhs", MV (VC x1))] = apply_op c 1 [VC x0; VC x1].
Proof. ops_tac. Qed.

(* impl Sub for Command *)
Theorem ops_Sub_CC (x0 : (@command F)) (x1 : (@command F)) :
  run_val c (g_Sub_CC c) [("self", MV (VC x0)); ("rhs", MV (VC x1))] = apply_op c 2 [VC x0; VC x1].
Proof. ops_tac. Qed.

(* impl Mul<f32> for Command *)
Theorem ops_Mul_CF (x0 : (@command F)) (x1 : F) :
  run_val c (g_Mul_CF c) [("self", MV (VC x0)); ("rhs", MV (VF x1))] = apply_op c 3 [VC x0; VF x1].
Proof. ops_tac. Qed.

(* impl Div<f32> for Command *)
Theorem ops_Div_CF (x0 : (@command F)) (x1 : F) :
  run_val c (g_Div_CF c) [("self", MV (VC x0)); ("rhs", MV (VF x1))] = apply_op c 4 [VC x0; VF x1].
Proof. ops_tac. Qed.

(* impl AddAssign for Command *)
Theorem ops_AddAssign_CC (x0 : (@command F)) (x1 : (@command F)) :
  run_self c (g_AddAssign_CC c) [("self", MV (VC x0)); ("rhs", MV (VC x1))] = apply_op c 5 [VC x0; VC x1].
Proof. ops_tac. Qed.

(* impl SubAssign for Command *)
Theorem ops_SubAssign_CC (x0 : (@command F)) (x1 : (@command F)) :
  run_self c (g_SubAssign_CC c) [("self", MV (VC x0)); ("rhs", MV (VC x1))] = apply_op c 6 [VC x0; VC x1].
Proof. ops_tac. Qed.

(* impl MulAssign<f32> for Command *)
Theorem ops_MulAssign_CF (x0 : (@command F)) (x1 : F) :
  run_self c (g_MulAssign_CF c) [("self", MV (VC x0)); ("rhs", MV (VF x1))] = apply_op c 7 [VC x0; VF x1].
Proof. ops_tac. Qed.

(* impl DivAssign<f32> for Command *)
Theorem ops_DivAssign_CF (x0 : (@command F)) (x1 : F) :
  run_self c (g_DivAssign_CF c) [("self", MV (VC x0)); ("rhs", MV (VF x1))] = apply_op c 8 [VC x0; VF x1].
Proof. ops_tac. Qed.

(* impl Neg for Command *)
Theorem ops_Neg_C (x0 : (@command F)) :
  run_val c (g_Neg_C c) [("self", MV (VC x0))] = apply_op c 9 [VC x0].
Proof. ops_tac. Qed.

(* impl From<Time> for Quantity *)
Theorem ops_From_T_Q (x0 : Z) :
  run_val c (g_From_T_Q c) [("was", MV (VT x0))] = apply_op c 20 [VT x0].
Proof. ops_tac. Qed.

(* impl From<DimensionlessInteger> for Quantity *)
Theorem ops_From_D_Q (x0 : Z) :
  run_val c (g_From_D_Q c) [("was", MV (VD x0))] = apply_op c 20 [VD x0].
Proof. ops_tac. Qed.

(* impl From<Command> for Quantity *)
Theorem ops_From_C_Q (x0 : (@command F)) :
  run_val c (g_From_C_Q c) [("was", MV (VC x0))] = apply_op c 20 [VC x0].
Proof. ops_tac. Qed.

(* impl TryFrom<Quantity> for Time *)
Theorem ops_TryFrom_Q_T (x0 : (@quantity F)) :
  run_try c (g_TryFrom_Q_T c) [("was", MV (VQ x0))] = apply_op c 21 [VQ x0].
Proof. ops_tac. Qed.

(* impl TryFrom<Quantity> for DimensionlessInteger *)
Theorem ops_TryFrom_Q_D (x0 : (@quantity F)) :
  run_try c (g_TryFrom_Q_D c) [("was", MV (VQ x0))] = apply_op c 22 [VQ x0].
Proof. ops_tac. Qed.

(* impl From<Quantity> for f32 *)
Theorem ops_From_Q_F (x0 : (@quantity F)) :
  run_val c (g_From_Q_F c) [("was", MV (VQ x0))] = apply_op c 23 [VQ x0].
Proof. ops_tac. Qed.

(* impl From<Command> for f32 *)
Theorem ops_From_C_F (x0 : (@command F)) :
  run_val c (g_From_C_F c) [("was", MV (VC x0))] = apply_op c 23 [VC x0].
Proof. ops_tac. Qed.

(* impl From<Time> for i64 *)
Theorem ops_From_T_I (x0 : Z) :
  run_val c (g_From_T_I c) [("was", MV (VT x0))] = apply_op c 24 [VT x0].
Proof. ops_tac. Qed.

(* impl From<DimensionlessInteger> for i64 *)
Theorem ops_From_D_I (x0 : Z) :
  run_val c (g_From_D_I c) [("was", MV (VD x0))] = apply_op c 24 [VD x0].
Proof. ops_tac. Qed.

(* impl From<i64> for Time *)
Theorem ops_From_I_T (x0 : Z) :
  run_val c (g_From_I_T c) [("was", MV (VI x0))] = apply_op c 25 [VI x0].
Proof. ops_tac. Qed.

(* impl From<i64> for DimensionlessInteger *)
Theorem ops_From_I_D (x0 : Z) :
  run_val c (g_From_I_D c) [("was", MV (VI x0))] = apply_op c 26 [VI x0].
Proof. ops_tac. Qed.

(* impl From<Command> for PositionDerivative *)
Theorem ops_From_C_P (x0 : (@command F)) :
  run_val c (g_From_C_P c) [("was", MV (VC x0))] = apply_op c 28 [VC x0].
Proof. ops_tac. Qed.

(* impl From<State> for Command *)
Theorem ops_From_S_C (x0 : (@state F)) :
  run_val c (g_From_S_C c) [("state", MV (VS x0))] = apply_op c 30 [VS x0].
Proof. ops_tac. Qed.

(* impl PartialOrd for Quantity *)
Theorem ops_PartialOrd_QQ (x0 : (@quantity F)) (x1 : (@quantity F)) :
  run_val c (g_PartialOrd_QQ c) [("self", MV (VQ x0)); ("other", MV (VQ x1))] = apply_op c 13 [VQ x0; VQ x1].
Proof. ops_tac. Qed.

(* Command::new *)
Theorem ops_C_new (x0 : pd) (x1 : F) :
  run_val c (g_C_new c) [("position_derivative", MV (VPD x0)); ("value", MV (VF x1))] = apply_op c 31 [VPD x0; VF x1].
Proof. ops_tac. Qed.

(* Command::get_position *)
Theorem ops_C_get_position (x0 : (@command F)) :
  run_val c (g_C_get_position c) [("self", MV (VC x0))] = apply_op c 61 [VC x0].
Proof. ops_tac. Qed.

(* Command::get_velocity *)
Theorem ops_C_get_velocity (x0 : (@command F)) :
  run_val c (g_C_get_velocity c) [("self", MV (VC x0))] = apply_op c 62 [VC x0].
Proof. ops_tac. Qed.

(* Command::get_acceleration *)
Theorem ops_C_get_acceleration (x0 : (@command F)) :
  run_val c (g_C_get_acceleration c) [("self", MV (VC x0))] = apply_op c 63 [VC x0].
Proof. ops_tac. Qed.

(* State::new *)
Theorem ops_S_new (x0 : (@quantity F)) (x1 : (@quantity F)) (x2 : (@quantity F)) :
  run_val c (g_S_new c) [("position", MV (VQ x0)); ("velocity", MV (VQ x1)); ("acceleration", MV (VQ x2))] = apply_op c 35 [VQ x0; VQ x1; VQ x2].
Proof. ops_tac. Qed.

(* State::new_raw *)
Theorem ops_S_new_raw (x0 : F) (x1 : F) (x2 : F) :
  run_val c (g_S_new_raw c) [("position", MV (VF x0)); ("velocity", MV (VF x1)); ("acceleration", MV (VF x2))] = apply_op c 36 [VF x0; VF x1; VF x2].
Proof. ops_tac. Qed.

(* State::get_position *)
Theorem ops_S_get_position (x0 : (@state F)) :
  run_val c (g_S_get_position c) [("self", MV (VS x0))] = apply_op c 57 [VS x0].
Proof. ops_tac. Qed.

(* State::get_velocity *)
Theorem ops_S_get_velocity (x0 : (@state F)) :
  run_val c (g_S_get_velocity c) [("self", MV (VS x0))] = apply_op c 58 [VS x0].
Proof. ops_tac. Qed.

(* State::get_acceleration *)
Theorem ops_S_get_acceleration (x0 : (@state F)) :
  run_val c (g_S_get_acceleration c) [("self", MV (VS x0))] = apply_op c 59 [VS x0].
Proof. ops_tac. Qed.

(* State::get_value *)
Theorem ops_S_get_value (x0 : (@state F)) (x1 : pd) :
  run_val c (g_S_get_value c) [("self", MV (VS x0)); ("position_derivative", MV (VPD x1))] = apply_op c 60 [VS x0; VPD x1].
Proof. ops_tac. Qed.

(* State::update *)
Theorem ops_S_update (x0 : (@state F)) (x1 : Z) :
  run_self c (g_S_update c) [("self", MV (VS x0)); ("delta_time", MV (VT x1))] = apply_op c 50 [VS x0; VT x1].
Proof. ops_tac. Qed.

(* State::set_constant_acceleration *)
Theorem ops_S_set_constant_acceleration (x0 : (@state F)) (x1 : (@quantity F)) :
  run_setter c (g_S_set_constant_acceleration c) [("self", MV (VS x0)); ("acceleration", MV (VQ x1))] = apply_op c 51 [VS x0; VQ x1].
Proof. ops_tac. Qed.

(* State::set_constant_velocity *)
Theorem ops_S_set_constant_velocity (x0 : (@state F)) (x1 : (@quantity F)) :
  run_setter c (g_S_set_constant_velocity c) [("self", MV (VS x0)); ("velocity", MV (VQ x1))] = apply_op c 52 [VS x0; VQ x1].
Proof. ops_tac. Qed.

(* State::set_constant_position *)
Theorem ops_S_set_constant_position (x0 : (@state F)) (x1 : (@quantity F)) :
  run_setter c (g_S_set_constant_position c) [("self", MV (VS x0)); ("position", MV (VQ x1))] = apply_op c 53 [VS x0; VQ x1].
Proof. ops_tac. Qed.

(* State::set_constant_acceleration_raw *)
Theorem ops_S_set_constant_acceleration_raw (x0 : (@state F)) (x1 : F) :
  run_self c (g_S_set_constant_acceleration_raw c) [("self", MV (VS x0)); ("acceleration", MV (VF x1))] = apply_op c 54 [VS x0; VF x1].
Proof. ops_tac. Qed.

(* State::set_constant_velocity_raw *)
Theorem ops_S_set_constant_velocity_raw (x0 : (@state F)) (x1 : F) :
  run_self c (g_S_set_constant_velocity_raw c) [("self", MV (VS x0)); ("velocity", MV (VF x1))] = apply_op c 55 [VS x0; VF x1].
Proof. ops_tac. Qed.

(* State::set_constant_position_raw *)
Theorem ops_S_set_constant_position_raw (x0 : (@state F)) (x1 : F) :
  run_self c (g_S_set_constant_position_raw c) [("self", MV (VS x0)); ("position", MV (VF x1))] = apply_op c 56 [VS x0; VF x1].
Proof. ops_tac. Qed.

(* Quantity::new *)
Theorem ops_Q_new (x0 : F) (x1 : unit_) :
  run_val c (g_Q_new c) [("value", MV (VF x0)); ("unit", MV (VU x1))] = apply_op c 32 [VF x0; VU x1].
Proof. ops_tac. Qed.

(* Quantity::dimensionless *)
Theorem ops_Q_dimensionless (x0 : F) :
  run_val c (g_Q_dimensionless c) [("value", MV (VF x0))] = apply_op c 33 [VF x0].
Proof. ops_tac. Qed.

(* Time::new *)
Theorem ops_T_new (x0 : Z) :
  run_val c (g_T_new c) [("value", MV (VI x0))] = apply_op c 25 [VI x0].
Proof. ops_tac. Qed.

(* DimensionlessInteger::new *)
Theorem ops_D_new (x0 : Z) :
  run_val c (g_D_new c) [("value", MV (VI x0))] = apply_op c 26 [VI x0].
Proof. ops_tac. Qed.

(* impl Add for Unit *)
Theorem ops_Add_UU (x0 : unit_) (x1 : unit_) :
  run_val c (g_Add_UU c) [("self", MV (VU x0)); ("rhs", MV (VU x1))] = apply_op c 1 [VU x0; VU x1].
Proof. unit_tac2 c. Qed.

(* impl Sub for Unit *)
Theorem ops_Sub_UU (x0 : unit_) (x1 : unit_) :
  run_val c (g_Sub_UU c) [("self", MV (VU x0)); ("rhs", MV (VU x1))] = apply_op c 2 [VU x0; VU x1].
Proof. unit_tac2 c. Qed.

(* impl Mul for Unit *)
Theorem ops_Mul_UU (x0 : unit_) (x1 : unit_) :
  run_val c (g_Mul_UU c) [("self", MV (VU x0)); ("rhs", MV (VU x1))] = apply_op c 3 [VU x0; VU x1].
Proof. unit_tac2 c. Qed.

(* impl Div for Unit *)
Theorem ops_Div_UU (x0 : unit_) (x1 : unit_) :
  run_val c (g_Div_UU c) [("self", MV (VU x0)); ("rhs", MV (VU x1))] = apply_op c 4 [VU x0; VU x1].
Proof. unit_tac2 c. Qed.

(* impl AddAssign for Unit *)
Theorem ops_AddAssign_UU (x0 : unit_) (x1 : unit_) :
  run_self c (g_AddAssign_UU c) [("self", MV (VU x0)); ("rhs", MV (VU x1))] = apply_op c 5 [VU x0; VU x1].
Proof. unit_tac2 c. Qed.

(* impl SubAssign for Unit *)
Theorem ops_SubAssign_UU (x0 : unit_) (x1 : unit_) :
  run_self c (g_SubAssign_UU c) [("self", MV (VU x0)); ("rhs", MV (VU x1))] = apply_op c 6 [VU x0; VU x1].
Proof. unit_tac2 c. Qed.

(* impl MulAssign for Unit *)
Theorem ops_MulAssign_UU (x0 : unit_) (x1 : unit_) :
  run_self c (g_MulAssign_UU c) [("self", MV (VU x0)); ("rhs", MV (VU x1))] = apply_op c 7 [VU x0; VU x1].
Proof. unit_tac2 c. Qed.

(* impl DivAssign for Unit *)
Theorem ops_DivAssign_UU (x0 : unit_) (x1 : unit_) :
  run_self c (g_DivAssign_UU c) [("self", MV (VU x0)); ("rhs", MV (VU x1))] = apply_op c 8 [VU x0; VU x1].
Proof. unit_tac2 c. Qed.

(* impl Neg for Unit *)
Theorem ops_Neg_U (x0 : unit_) :
  run_val c (g_Neg_U c) [("self", MV (VU x0))] = apply_op c 9 [VU x0].
Proof. unit_tac2 c. Qed.

(* impl From<PositionDerivative> for Unit *)
Theorem ops_From_P_U (x0 : pd) :
  run_val c (g_From_P_U c) [("was", MV (VPD x0))] = apply_op c 29 [VPD x0].
Proof. unit_tac2 c. Qed.

(* impl TryFrom<Unit> for PositionDerivative *)
Theorem ops_TryFrom_U_P (x0 : unit_) :
  run_try c (g_TryFrom_U_P c) [("was", MV (VU x0))] = apply_op c 28 [VU x0].
Proof. unit_tac2 c. Qed.

(* impl TryFrom<Quantity> for Command *)
Theorem ops_TryFrom_Q_C (x0 : (@quantity F)) :
  run_try c (g_TryFrom_Q_C c) [("was", MV (VQ x0))] = apply_op c 27 [VQ x0].
Proof. unit_tac2 c. Qed.

(* Unit::new *)
Theorem ops_U_new (x0 : Z) (x1 : Z) :
  run_val c (g_U_new c) [("millimeter_exp", MV (VI x0)); ("second_exp", MV (VI x1))] = apply_op c 34 [VI x0; VI x1].
Proof. unit_tac2 c. Qed.

(* Unit::eq_assume_true *)
Theorem ops_U_eq_assume_true (x0 : unit_) (x1 : unit_) :
  run_val c (g_U_eq_assume_true c) [("self", MV (VU x0)); ("rhs", MV (VU x1))] = apply_op c 41 [VU x0; VU x1].
Proof. unit_tac2 c. Qed.

(* Unit::eq_assume_false *)
Theorem ops_U_eq_assume_false (x0 : unit_) (x1 : unit_) :
  run_val c (g_U_eq_assume_false c) [("self", MV (VU x0)); ("rhs", MV (VU x1))] = apply_op c 42 [VU x0; VU x1].
Proof. unit_tac2 c. Qed.

(* Unit::assert_eq_assume_ok *)
Theorem ops_U_assert_eq_assume_ok (x0 : unit_) (x1 : unit_) :
  run_unit c (g_U_assert_eq_assume_ok c) [("self", MV (VU x0)); ("rhs", MV (VU x1))] = apply_op c 43 [VU x0; VU x1].
Proof. unit_tac2 c. Qed.

(* Unit::assert_eq_assume_not_ok *)
Theorem ops_U_assert_eq_assume_not_ok (x0 : unit_) (x1 : unit_) :
  run_unit c (g_U_assert_eq_assume_not_ok c) [("self", MV (VU x0)); ("rhs", MV (VU x1))] = apply_op c 44 [VU x0; VU x1].
Proof. unit_tac2 c. Qed.

(* Unit::const_eq *)
Theorem ops_U_const_eq (x0 : unit_) (x1 : unit_) :
  run_val c (g_U_const_eq c) [("self", MV (VU x0)); ("rhs", MV (VU x1))] = apply_op c 40 [VU x0; VU x1].
Proof. unit_tac2 c. Qed.

(* Unit::const_assert_eq *)
Theorem ops_U_const_assert_eq (x0 : unit_) (x1 : unit_) :
  run_unit c (g_U_const_assert_eq c) [("self", MV (VU x0)); ("rhs", MV (VU x1))] = apply_op c 45 [VU x0; VU x1].
Proof. unit_tac2 c. Qed.

End OpsTable.

Print Assumptions ops_Add_TT.
Print Assumptions ops_Add_TQ.
Print Assumptions ops_Sub_TT.
Print Assumptions ops_Sub_TQ.
Print Assumptions ops_Mul_TT.
Print Assumptions ops_Mul_TD.
Print Assumptions ops_Mul_TQ.
Print Assumptions ops_Div_TT.
Print Assumptions ops_Div_TD.
Print Assumptions ops_Div_TQ.
Print Assumptions ops_AddAssign_TT.
Print Assumptions ops_SubAssign_TT.
Print Assumptions ops_MulAssign_TD.
Print Assumptions ops_DivAssign_TD.
Print Assumptions ops_Neg_T.
Print Assumptions ops_Add_DD.
Print Assumptions ops_Add_DQ.
Print Assumptions ops_Sub_DD.
Print Assumptions ops_Sub_DQ.
Print Assumptions ops_Mul_DD.
Print Assumptions ops_Mul_DT.
Print Assumptions ops_Mul_DQ.
Print Assumptions ops_Div_DD.
Print Assumptions ops_Div_DT.
Print Assumptions ops_Div_DQ.
Print Assumptions ops_AddAssign_DD.
Print Assumptions ops_SubAssign_DD.
Print Assumptions ops_MulAssign_DD.
Print Assumptions ops_DivAssign_DD.
Print Assumptions ops_Neg_D.
Print Assumptions ops_Add_QQ.
Print Assumptions ops_Add_QT.
Print Assumptions ops_Add_QD.
Print Assumptions ops_Sub_QQ.
Print Assumptions ops_Sub_QT.
Print Assumptions ops_Sub_QD.
Print Assumptions ops_Mul_QQ.
Print Assumptions ops_Mul_QT.
Print Assumptions ops_Mul_QD.
Print Assumptions ops_Div_QQ.
Print Assumptions ops_Div_QT.
Print Assumptions ops_Div_QD.
Print Assumptions ops_AddAssign_QQ.
Print Assumptions ops_AddAssign_QT.
Print Assumptions ops_AddAssign_QD.
Print Assumptions ops_SubAssign_QQ.
Print Assumptions ops_SubAssign_QT.
Print Assumptions ops_SubAssign_QD.
Print Assumptions ops_MulAssign_QQ.
Print Assumptions ops_MulAssign_QT.
Print Assumptions ops_MulAssign_QD.
Print Assumptions ops_DivAssign_QQ.
Print Assumptions ops_DivAssign_QT.
Print Assumptions ops_DivAssign_QD.
Print Assumptions ops_Neg_Q.
Print Assumptions ops_Add_SS.
Print Assumptions ops_Sub_SS.
Print Assumptions ops_Mul_SF.
Print Assumptions ops_Div_SF.
Print Assumptions ops_AddAssign_SS.
Print Assumptions ops_SubAssign_SS.
Print Assumptions ops_MulAssign_SF.
Print Assumptions ops_DivAssign_SF.
Print Assumptions ops_Neg_S.
Print Assumptions ops_Add_CC.
Print Assumptions ops_Sub_CC.
Print Assumptions ops_Mul_CF.
Print Assumptions ops_Div_CF.
Print Assumptions ops_AddAssign_CC.
Print Assumptions ops_SubAssign_CC.
Print Assumptions ops_MulAssign_CF.
Print Assumptions ops_DivAssign_CF.
Print Assumptions ops_Neg_C.
Print Assumptions ops_From_T_Q.
Print Assumptions ops_From_D_Q.
Print Assumptions ops_From_C_Q.
Print Assumptions ops_TryFrom_Q_T.
Print Assumptions ops_TryFrom_Q_D.
Print Assumptions ops_From_Q_F.
Print Assumptions ops_From_C_F.
Print Assumptions ops_From_T_I.
Print Assumptions ops_From_D_I.
Print Assumptions ops_From_I_T.
Print Assumptions ops_From_I_D.
Print Assumptions ops_From_C_P.
Print Assumptions ops_From_S_C.
Print Assumptions ops_PartialOrd_QQ.
Print Assumptions ops_C_new.
Print Assumptions ops_C_get_position.
Print Assumptions ops_C_get_velocity.
Print Assumptions ops_C_get_acceleration.
Print Assumptions ops_S_new.
Print Assumptions ops_S_new_raw.
Print Assumptions ops_S_get_position.
Print Assumptions ops_S_get_velocity.
Print Assumptions ops_S_get_acceleration.
Print Assumptions ops_S_get_value.
Print Assumptions ops_S_update.
Print Assumptions ops_S_set_constant_acceleration.
Print Assumptions ops_S_set_constant_velocity.
Print Assumptions ops_S_set_constant_position.
Print Assumptions ops_S_set_constant_acceleration_raw.
Print Assumptions ops_S_set_constant_velocity_raw.
Print Assumptions ops_S_set_constant_position_raw.
Print Assumptions ops_Q_new.
Print Assumptions ops_Q_dimensionless.
Print Assumptions ops_T_new.
Print Assumptions ops_D_new.
Print Assumptions ops_Add_UU.
Print Assumptions ops_Sub_UU.
Print Assumptions ops_Mul_UU.
Print Assumptions ops_Div_UU.
Print Assumptions ops_AddAssign_UU.
Print Assumptions ops_SubAssign_UU.
Print Assumptions ops_MulAssign_UU.
Print Assumptions ops_DivAssign_UU.
Print Assumptions ops_Neg_U.
Print Assumptions ops_From_P_U.
Print Assumptions ops_TryFrom_U_P.
Print Assumptions ops_TryFrom_Q_C.
Print Assumptions ops_U_new.
Print Assumptions ops_U_eq_assume_true.
Print Assumptions ops_U_eq_assume_false.
Print Assumptions ops_U_assert_eq_assume_ok.
Print Assumptions ops_U_assert_eq_assume_not_ok.
Print Assumptions ops_U_const_eq.
Print Assumptions ops_U_const_assert_eq.
