From Coq Require Import ZArith List Bool String.
From RRTK Require Import Num.Num Model.Values Model.Prog Model.MiniRust Model.Combinators Model.Streams Proofs.MiniRustEmb.
From Gen Require Import GenStreams.
Import ListNotations.
Local Open Scope string_scope.
Local Open Scope Z_scope.
(* C04: PIDControllerStream::update / get as written in src/streams/control.rs (translated on every run, reset()
   inlined) are the model's pid_step / pid_get for every state and every input.  The `debug_assert_eq!(self.int_error, 0.0)`
   of the first-sample branch is part of the translated body: the theorem is stated for states in which it holds
   (every reachable state: PidProofs.pid_assert_never_fires). *)
Section C04Streams.
Context {F : Type} {NF : Num F}.
Variable c : cfg.

Theorem C04_gen_pid_update (s : @pid F) (i : out F) :
  (pid_prev s = None -> feqb (pid_int s) fzero = true) ->
  run_fn c (g_pid_update c) (m_pid s) [("get:input", m_out VF i)] = m_step m_pid (pid_step c s i).
Proof.
  intros H. unfold pid_step, dt_f. destruct s as [sp k prev int o]. cbn in H.
  destruct i as [e| |[t x]]; [mr_exec|mr_exec|].
  destruct prev as [[tp ep]|]; [mr_exec|].
  specialize (H eq_refl). unfold run_fn. mr_norm. lazy in H. rewrite H. mr_exec.
Qed.

(* without the hypothesis: the first-sample branch panics exactly when the assertion fails, and is the model's step otherwise *)
Theorem C04_gen_pid_update_assert (s : @pid F) t x :
  pid_prev s = None -> feqb (pid_int s) fzero = false ->
  run_fn c (g_pid_update c) (m_pid s) [("get:input", m_out VF (OSome (mkDatum t x)))] = Some Panic.
Proof.
  intros Hp H. destruct s as [sp k prev int o]. cbn in Hp, H. subst prev. unfold run_fn. mr_norm. lazy in H. rewrite H. reflexivity.
Qed.

Theorem C04_gen_pid_get (s : @pid F) :
  run_fn c (g_pid_get c) (m_pid s) [] = m_get (m_pid s) VF (Ok (pid_get s)).
Proof. split_inputs; mr_exec. Qed.
End C04Streams.
Print Assumptions C04_gen_pid_update.
Print Assumptions C04_gen_pid_update_assert.
Print Assumptions C04_gen_pid_get.
