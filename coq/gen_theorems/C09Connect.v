From Coq Require Import ZArith List Bool String Lia.
From RRTK Require Import Num.Num Model.Values Model.World Model.RefLang.
From Gen Require Import GenRef.
Import ListNotations.
Local Open Scope string_scope.
(* C09: `Terminal::disconnect` and `connect` as written in src/lib.rs - translated on every run into the RefCell language of
   Model/RefLang.v (mutable borrows with their scopes, reads and writes of the `other` link through a guard) - are the model's
   `World.disconnect` and `World.connect`, for worlds of any size, any two terminals (equal or not), any links:
   the same links afterwards, the same panics (a second mutable borrow of a cell that is already mutably borrowed), no borrow
   left behind.  All of C09's matching theorems (`Wf` of every reachable world, connect / disconnect effects, never a panic for
   distinct terminals of a well-formed world) are stated about those two model functions. *)
Section C09Connect.
Context {F : Type} {NF : Num F}.
Notation world := (@world F).

Lemma release_head (b : list nat) i : release (i :: b) i = b.
Proof. cbn [release]. rewrite Nat.eqb_refl. reflexivity. Qed.

(* disconnect, called on terminal i while i itself is mutably borrowed (as `x.borrow_mut().disconnect()` does) *)
Theorem C09_gen_disconnect (w : world) (i : nat) :
  match rblock 8 g_disconnect [("self", i)] [] w [i] with
  | Some (Ok (w', b')) => disconnect w i = Ok w' /\ b' = [i]
  | Some Panic => disconnect w i = Panic
  | None => False
  end.
Proof.
  unfold g_disconnect, disconnect. cbn [rblock rlook String.eqb Ascii.eqb Bool.eqb].
  destruct (t_other (wget w i)) as [j|]; cbn [rblock rlook String.eqb Ascii.eqb Bool.eqb borrowed existsb orb].
  - destruct (Nat.eqb j i) eqn:E; cbn [orb].
    + reflexivity.
    + cbn [fold_left release]. rewrite Nat.eqb_refl. split; reflexivity.
  - split; reflexivity.
Qed.

Ltac rstep := cbn [rblock rlook String.eqb Ascii.eqb Bool.eqb borrowed existsb orb bind release fold_left]; rewrite ?Nat.eqb_refl.
Ltac rgo :=
  repeat (rstep; try reflexivity;
          match goal with
          | |- context [t_other ?x] => destruct (t_other x) eqn:?
          | |- context [Nat.eqb ?a ?b] => destruct (Nat.eqb a b) eqn:?
          end).
Ltac eqb_contra :=
  exfalso; repeat match goal with
                  | H : Nat.eqb _ _ = true |- _ => apply Nat.eqb_eq in H
                  | H : Nat.eqb _ _ = false |- _ => apply Nat.eqb_neq in H
                  end; congruence.
Theorem C09_gen_connect (w : world) (i j : nat) :
  rrun g_connect [("term1", i); ("term2", j)] w = Some (connect w i j).
Proof.
  unfold rrun, g_connect, connect, disconnect. rgo; try reflexivity; try eqb_contra.
Qed.
End C09Connect.
Print Assumptions release_head.
Print Assumptions C09_gen_disconnect.
Print Assumptions C09_gen_connect.
