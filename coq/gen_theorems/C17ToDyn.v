(* Theorems over the to_dyn! definitions regenerated from src/reference.rs on every run. *)
From Coq Require Import List String Bool.
From Gen Require Import GenToDyn.
Import ListNotations.
Local Open Scope string_scope.

(* nothing in a macro body is decided in the calling crate: no #[cfg] inside, every path through $crate.
   Hence which arms exist depends only on rrtk's own features, whatever features the caller declares. *)
Definition def_ok (d : string * list string * bool * bool) : bool :=
  match d with (_, _, inner_cfg, crate_paths) => negb inner_cfg && crate_paths end.
Theorem C17_to_dyn_independent_of_caller : forallb def_ok to_dyn_defs = true.
Proof. vm_compute. reflexivity. Qed.
Print Assumptions C17_to_dyn_independent_of_caller.

(* the definitions cover the three feature situations and list the convertible variants of each *)
Definition expected : list (string * list string) :=
  [("feature = 'std'", ["Ptr"; "RcRefCell"; "PtrRwLock"]);
   ("all(feature = 'alloc', not(feature = 'std'))", ["Ptr"; "RcRefCell"]);
   ("not(feature = 'alloc')", ["Ptr"])].
Definition same_strs (a b : list string) : bool :=
  Nat.eqb (List.length a) (List.length b) && forallb (fun x => existsb (String.eqb x) b) a.
Definition covers (defs : list (string * list string * bool * bool)) : bool :=
  Nat.eqb (List.length defs) 3 &&
  forallb (fun e => existsb (fun d => match d with (c, arms, _, _) => String.eqb c (fst e) && same_strs arms (snd e) end) defs) expected.
Theorem C17_to_dyn_total : covers to_dyn_defs = true.
Proof. vm_compute. reflexivity. Qed.
Print Assumptions C17_to_dyn_total.

(* impl Clone for ReferenceUnsafe, arm by arm as written in the source: a clone is a handle of the same kind on the same
   target - every arm rebuilds the variant it matched - the variants that own a share of the target (Rc / Arc) take another share
   (the reference-counted clone: the target stays alive as long as any clone does), the raw-pointer variants copy the pointer,
   and every variant of the enum has its arm.  This is the per-variant behaviour `RefHeap.clone_handle` models. *)
Definition owning (v : string) : bool := String.eqb v "RcRefCell" || String.eqb v "ArcRwLock" || String.eqb v "ArcMutex".
Definition clone_arm_ok (a : string * string * string) : bool :=
  match a with
  | (vin, vout, how) =>
      String.eqb vin vout &&
      (if String.eqb vin "RcRefCell" then String.eqb how "Rc::clone"
       else if owning vin then String.eqb how "Arc::clone"
       else String.eqb how "copy")
  end.
Theorem C17_clone_same_kind_and_shares : forallb clone_arm_ok clone_arms = true.
Proof. vm_compute. reflexivity. Qed.
Theorem C17_clone_covers_every_variant :
  forallb (fun v => existsb (fun a => String.eqb v (fst (fst a))) clone_arms) reference_variants = true
  /\ Nat.eqb (List.length clone_arms) (List.length reference_variants) = true /\ Nat.eqb (List.length reference_variants) 6 = true.
Proof. vm_compute. repeat split; reflexivity. Qed.
Print Assumptions C17_clone_same_kind_and_shares.
Print Assumptions C17_clone_covers_every_variant.
