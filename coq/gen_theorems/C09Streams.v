From Coq Require Import ZArith List Bool String.
From RRTK Require Import Num.Num Model.Values Model.Prog Model.MiniRust Model.Combinators Model.Streams Model.World Proofs.MiniRustEmb.
From Gen Require Import GenStreams.
Import ListNotations.
Local Open Scope string_scope.
Local Open Scope Z_scope.
(* C09 (read rules) / C16 (the terminal's two-slot scratch array): Terminal's Getter<State>::get and Getter<Command>::get as
   written in src/lib.rs (translated on every run, with Settable::get_last_request and the selected get_settable_data_ref
   inlined) are the model's state_get / cmd_get, for every own slot and every partner (none, or one with any slots); the
   state read never touches an unwritten slot. *)
Section C09Streams.
Context {F : Type} {NF : Num F}.
Variable c : cfg.
Notation ds := (datum (@state F)).
Notation dc := (datum (@command F)).

Definition m_sd (s : option ds) (k : option dc) : list (string * @mval F) :=
  [("settable_data_command", MRec [("last_request", m_opt (m_dat VC) k)]);
   ("settable_data_state", MRec [("last_request", m_opt (m_dat VS) s)])].
(* a terminal as the read functions see it: its own last requests and, when connected, the partner's *)
Definition m_term (s : option ds) (k : option dc) (other : option (option ds * option dc)) : @mval F :=
  MRec (("other", m_opt (fun p => MRec (m_sd (fst p) (snd p))) other) :: m_sd s k).

(* the model's read rules on the local view *)
Definition sget (own partner : option ds) : option ds :=
  match own, partner with
  | None, None => None
  | Some a, None => Some a
  | None, Some b => Some b
  | Some a, Some b => Some (dstate_divf (dstate_add a b) ftwo)
  end.
Definition cget (own partner : option dc) : option dc :=
  match own, partner with
  | Some a, Some b => if d_time b >? d_time a then Some b else Some a
  | Some a, None => Some a
  | None, b => b
  end.
Lemma state_get_local (w : @world F) i : state_get w i = sget (t_state (wget w i)) (partner_state w i).
Proof. reflexivity. Qed.
Lemma cmd_get_local (w : @world F) i : cmd_get w i = cget (t_cmd (wget w i)) (partner_cmd w i).
Proof. reflexivity. Qed.

Definition m_oget {T} (f : T -> @val F) (o : option (datum T)) : @mval F := MOk (m_opt (m_dat f) o).

Theorem C09_gen_term_state_get (s : option ds) (k : option dc) (other : option (option ds * option dc)) :
  run_fn c (g_term_state_get c) (m_term s k other) []
  = Some (Ok (m_term s k other, m_oget VS (sget s (match other with Some p => fst p | None => None end)))).
Proof. destruct s as [[ts xs]|]; destruct other as [[[[tp xp]|] pk]|]; mr_exec. Qed.

Theorem C09_gen_term_cmd_get (s : option ds) (k : option dc) (other : option (option ds * option dc)) :
  run_fn c (g_term_cmd_get c) (m_term s k other) []
  = Some (Ok (m_term s k other, m_oget VC (cget k (match other with Some p => snd p | None => None end)))).
Proof. destruct k as [[tk xk]|]; destruct other as [[ps [[tp xp]|]]|]; mr_exec. Qed.

(* Getter<TerminalData>: both reads combined, stamped with the state's time when there is a state, else the command's *)
Definition dget (st : option ds) (cm : option dc) : option (datum (@tdata F)) :=
  let time := match st with Some d => Some (d_time d) | None => match cm with Some d => Some (d_time d) | None => None end end in
  match time with
  | Some t => Some (mkDatum t {| td_time := t; td_cmd := option_map (@d_val _) cm; td_state := option_map (@d_val _) st |})
  | None => None
  end.
Lemma data_get_local (w : @world F) i : data_get w i = dget (state_get w i) (cmd_get w i).
Proof. reflexivity. Qed.
Definition m_tdata (d : datum (@tdata F)) : @mval F :=
  MRec [("time", m_t (d_time d));
        ("value", MRec [("command", m_opt (fun k => MV (VC k)) (td_cmd (d_val d)));
                        ("state", m_opt (fun x => MV (VS x)) (td_state (d_val d)));
                        ("time", m_t (td_time (d_val d)))])].
Theorem C09_gen_term_data_get (s : option ds) (k : option dc) (other : option (option ds * option dc)) :
  run_fn c (g_term_data_get c) (m_term s k other) []
  = Some (Ok (m_term s k other,
              MOk (m_opt m_tdata (dget (sget s (match other with Some p => fst p | None => None end))
                                       (cget k (match other with Some p => snd p | None => None end)))))).
Proof.
  destruct s as [[ts xs]|]; destruct k as [[tk xk]|]; destruct other as [[[[tp xp]|] [[tq xq]|]]|]; mr_exec.
Qed.
End C09Streams.
Print Assumptions state_get_local.
Print Assumptions cmd_get_local.
Print Assumptions C09_gen_term_state_get.
Print Assumptions C09_gen_term_cmd_get.
Print Assumptions data_get_local.
Print Assumptions C09_gen_term_data_get.
