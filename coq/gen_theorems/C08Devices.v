From Coq Require Import ZArith List Bool String.
From RRTK Require Import Num.Num Model.Values Model.Prog Model.MiniRust Model.Combinators Model.Streams Model.World Model.Devices
  Proofs.MiniRustEmb Proofs.DeviceProofs Proofs.ChainProofs.
From Coq Require Import Lia.
From Gen Require Import GenStreams.
Import ListNotations.
Local Open Scope string_scope.
Local Open Scope Z_scope.
(* C08 / C13 / C03: `Invert::update`, `GearTrain::update` and `Differential::update` as written in src/devices.rs (translated on
   every run; `update_terminals`, `Terminal::update`, `Settable::update_following_data / set`, `Terminal::impl_set`,
   `replace_if_none_or_older_than(_option)` inlined from src/lib.rs and src/datum.rs) are the model's device functions.

   The proof is split the way the code is layered.  What a terminal *reads* (`term.borrow().get()`, the Getter<State> /
   Getter<Command> impls of Terminal) is an input of the device body here; `C09Streams.v` proves those reads equal the model's
   `state_get` / `cmd_get`.  Each theorem below says: for every content of the device's own slots and every outcome of the reads,
   running the translated body writes exactly the slots that the *local* device function (`inv_states`, `inv_cmds`, ...) says, with
   exactly those data, leaves the others as they were and returns Ok(()).  The `*_update_local` lemmas then show that the world-level
   model functions of Model/Devices.v (about which C08 / C13 / C03 / C20's theorems are stated) are those local functions applied
   to the world's reads, the state reads taken before any write and the command reads after the state writes (which they do not
   depend on).  Modelling restriction: the device's own terminals follow no getter (`following = None`, as constructed). *)
Section C08Devices.
Context {F : Type} {NF : Num F}.
Variable c : cfg.
Notation ds := (datum (@state F)).
Notation dc := (datum (@command F)).
Notation world := (@world F).

(* a terminal owned by a device, as the device body sees it: the two settable slots *)
Definition m_dterm (s : option ds) (k : option dc) : @mval F :=
  MRec [("settable_data_command", MRec [("following", MNone); ("last_request", m_opt (m_dat VC) k)]);
        ("settable_data_state", MRec [("following", MNone); ("last_request", m_opt (m_dat VS) s)])].
(* the same terminal on the input side: the old slot contents are symbolic options (the device bodies never inspect them, so
   the evaluation never forks on them; `canon` writes them out at the end) *)
Definition m_dterm_in (s : option ds) (k : option dc) : @mval F :=
  MRec [("settable_data_command", MRec [("following", MNone); ("last_request", MOpt k (m_dat VC))]);
        ("settable_data_state", MRec [("following", MNone); ("last_request", MOpt s (m_dat VS))])].
Definition m_rd {T} (f : T -> @val F) (o : option (datum T)) : @mval F := MOk (m_opt (m_dat f) o).
(* a write that may not happen *)
Definition wr {T} (old new : option T) : option T := match new with Some x => Some x | None => old end.
Definition put_state (w : world) (i : nat) (o : option ds) : world := match o with Some d => set_state w i d | None => w end.
Definition put_cmd (w : world) (i : nat) (o : option dc) : world := match o with Some d => set_cmd w i d | None => w end.

Lemma cmd_get_put_state (w : world) i o k : cmd_get (put_state w i o) k = cmd_get w k.
Proof. destruct o; [|reflexivity]. cbn [put_state]. apply ceq_cmd_get, ceq_set_state. Qed.

(* ---------------------------------------------------------------- Invert *)
Definition inv_states (g1 g2 : option ds) : option ds * option ds :=
  match g1, g2 with
  | None, None => (None, None)
  | None, Some d2 => (Some (mkDatum (d_time d2) (s_neg (d_val d2))), None)
  | Some d1, None => (None, Some (mkDatum (d_time d1) (s_neg (d_val d1))))
  | Some d1, Some d2 =>
      let time := tmax_ge (d_time d1) (d_time d2) in
      let ns := s_divf (s_sub (d_val d1) (d_val d2)) ftwo in
      (Some (mkDatum time ns), Some (mkDatum time (s_neg ns)))
  end.
Definition inv_cmds (k1 k2 : option dc) : option dc * option dc :=
  let m0 := fst (replace_if_none_or_older_than_option None k1) in
  let m1 := match k2 with Some x => fst (replace_if_none_or_older_than m0 (dneg_c x)) | None => m0 end in
  match m1 with Some d => (Some d, Some (dneg_c d)) | None => (None, None) end.

Definition m_inv (s1 : option ds) (k1 : option dc) (s2 : option ds) (k2 : option dc) : @mval F :=
  MRec [("term1", m_dterm s1 k1); ("term2", m_dterm s2 k2)].
Definition m_inv_in (s1 : option ds) (k1 : option dc) (s2 : option ds) (k2 : option dc) : @mval F :=
  MRec [("term1", m_dterm_in s1 k1); ("term2", m_dterm_in s2 k2)].

Theorem C08_gen_invert_update s1 k1 s2 k2 (g1 g2 : option ds) (h1 h2 : option dc) :
  run_fn c (g_invert_update c) (m_inv_in s1 k1 s2 k2)
    [("get:term1:State", m_rd VS g1); ("get:term2:State", m_rd VS g2); ("get:term1:Command", m_rd VC h1); ("get:term2:Command", m_rd VC h2)]
  = Some (Ok (m_inv (wr s1 (fst (inv_states g1 g2))) (wr k1 (fst (inv_cmds h1 h2)))
                    (wr s2 (snd (inv_states g1 g2))) (wr k2 (snd (inv_cmds h1 h2))), MOk MTup0)).
Proof.
  destruct g1 as [[t1 x1]|]; destruct g2 as [[t2 x2]|]; destruct h1 as [[u1 y1]|]; destruct h2 as [[u2 y2]|]; mr_exec2.
Qed.

Lemma invert_update_local (w : world) t1 t2 :
  invert_update w t1 t2
  = let st := inv_states (state_get w t1) (state_get w t2) in
    let w1 := put_state (put_state w t1 (fst st)) t2 (snd st) in
    let cm := inv_cmds (cmd_get w t1) (cmd_get w t2) in
    put_cmd (put_cmd w1 t1 (fst cm)) t2 (snd cm).
Proof.
  unfold invert_update. cbv zeta.
  set (w1 := match state_get w t1 with Some _ => _ | None => _ end).
  assert (Hw : w1 = put_state (put_state w t1 (fst (inv_states (state_get w t1) (state_get w t2)))) t2 (snd (inv_states (state_get w t1) (state_get w t2)))).
  { subst w1. destruct (state_get w t1), (state_get w t2); reflexivity. }
  assert (Hc : forall k, cmd_get w1 k = cmd_get w k).
  { intros k. rewrite Hw, !cmd_get_put_state. reflexivity. }
  rewrite !Hc. rewrite <- Hw. unfold inv_cmds.
  destruct (match cmd_get w t2 with Some x => _ | None => _ end); reflexivity.
Qed.
(* ---------------------------------------------------------------- GearTrain *)
Definition gear_states (r : F) (g1 g2 : option ds) : option ds * option ds :=
  match g1, g2 with
  | Some d1, Some d2 =>
      let time := tmax_ge (d_time d1) (d_time d2) in
      let r2p1 := fadd (fmul r r) fone in
      let xpry := s_add (d_val d1) (s_mulf (d_val d2) r) in
      (Some (mkDatum time (s_divf xpry r2p1)), Some (mkDatum time (s_divf (s_mulf xpry r) r2p1)))
  | Some d1, None => (None, Some (dmul_s d1 r))
  | None, Some d2 => (Some (ddiv_s d2 r), None)
  | None, None => (None, None)
  end.
Definition gear_cmds (r : F) (k1 k2 : option dc) : option dc * option dc :=
  match k1, k2 with
  | Some d1, Some d2 => if d_time d1 >=? d_time d2 then (None, Some (dmul_c d1 r)) else (Some (ddiv_c d2 r), None)
  | Some d1, None => (None, Some (dmul_c d1 r))
  | None, Some d2 => (Some (ddiv_c d2 r), None)
  | None, None => (None, None)
  end.
Definition m_gear (r : F) (s1 : option ds) (k1 : option dc) (s2 : option ds) (k2 : option dc) : @mval F :=
  MRec [("ratio", m_f r); ("term1", m_dterm s1 k1); ("term2", m_dterm s2 k2)].
Definition m_gear_in (r : F) (s1 : option ds) (k1 : option dc) (s2 : option ds) (k2 : option dc) : @mval F :=
  MRec [("ratio", m_f r); ("term1", m_dterm_in s1 k1); ("term2", m_dterm_in s2 k2)].

Theorem C08_gen_gear_update r s1 k1 s2 k2 (g1 g2 : option ds) (h1 h2 : option dc) :
  run_fn c (g_gear_update c) (m_gear_in r s1 k1 s2 k2)
    [("get:term1:State", m_rd VS g1); ("get:term2:State", m_rd VS g2); ("get:term1:Command", m_rd VC h1); ("get:term2:Command", m_rd VC h2)]
  = Some (Ok (m_gear r (wr s1 (fst (gear_states r g1 g2))) (wr k1 (fst (gear_cmds r h1 h2)))
                       (wr s2 (snd (gear_states r g1 g2))) (wr k2 (snd (gear_cmds r h1 h2))), MOk MTup0)).
Proof.
  destruct g1 as [[t1 x1]|]; destruct g2 as [[t2 x2]|]; destruct h1 as [[u1 y1]|]; destruct h2 as [[u2 y2]|]; mr_exec2.
Qed.

Lemma gear_update_local (w : world) t1 t2 r :
  gear_update w t1 t2 r
  = let st := gear_states r (state_get w t1) (state_get w t2) in
    let w1 := put_state (put_state w t1 (fst st)) t2 (snd st) in
    let cm := gear_cmds r (cmd_get w t1) (cmd_get w t2) in
    put_cmd (put_cmd w1 t1 (fst cm)) t2 (snd cm).
Proof.
  unfold gear_update. cbv zeta.
  set (w1 := match state_get w t1 with Some _ => _ | None => _ end).
  assert (Hw : w1 = put_state (put_state w t1 (fst (gear_states r (state_get w t1) (state_get w t2)))) t2 (snd (gear_states r (state_get w t1) (state_get w t2)))).
  { subst w1. destruct (state_get w t1), (state_get w t2); reflexivity. }
  assert (Hc : forall k, cmd_get w1 k = cmd_get w k).
  { intros k. rewrite Hw, !cmd_get_put_state. reflexivity. }
  rewrite !Hc. rewrite <- Hw. unfold gear_cmds.
  destruct (cmd_get w t1), (cmd_get w t2); try reflexivity.
  destruct (_ >=? _); reflexivity.
Qed.

(* ---------------------------------------------------------------- Differential *)
Definition m_distrust (d : distrust) : @mval F :=
  MVariant (match d with DSide1 => "DifferentialDistrust::Side1" | DSide2 => "DifferentialDistrust::Side2"
                       | DSum => "DifferentialDistrust::Sum" | DEqual => "DifferentialDistrust::Equal" end).
(* the writes to side1, side2, sum; a read that the mode does not perform is not consulted *)
Definition diff_states (d : distrust) (g1 g2 gs : option ds) : option ds * option ds * option ds :=
  match d with
  | DSide1 => match gs, g2 with Some sum, Some side2 => (Some (dstate_sub sum side2), None, None) | _, _ => (None, None, None) end
  | DSide2 => match gs, g1 with Some sum, Some side1 => (None, Some (dstate_sub sum side1), None) | _, _ => (None, None, None) end
  | DSum => match g1, g2 with Some side1, Some side2 => (None, None, Some (dstate_add side1 side2)) | _, _ => (None, None, None) end
  | DEqual =>
      match gs, g1, g2 with
      | Some sum, Some side1, Some side2 =>
          (Some (dstate_divf (dstate_add (dstate_sub (dmul_s side1 ftwo) side2) sum) fthree),
           Some (dstate_divf (dstate_add (dstate_add (dneg_s side1) (dmul_s side2 ftwo)) sum) fthree),
           Some (dstate_divf (dstate_add (dstate_add side1 side2) (dmul_s sum ftwo)) fthree))
      | _, _, _ => (None, None, None)
      end
  end.
Definition m_diff (d : distrust) (s1 : option ds) (k1 : option dc) (s2 : option ds) (k2 : option dc) (ss : option ds) (ks : option dc) : @mval F :=
  MRec [("distrust", m_distrust d); ("side1", m_dterm s1 k1); ("side2", m_dterm s2 k2); ("sum", m_dterm ss ks)].
Definition m_diff_in (d : distrust) (s1 : option ds) (k1 : option dc) (s2 : option ds) (k2 : option dc) (ss : option ds) (ks : option dc) : @mval F :=
  MRec [("distrust", m_distrust d); ("side1", m_dterm_in s1 k1); ("side2", m_dterm_in s2 k2); ("sum", m_dterm_in ss ks)].

(* the command slots are returned as they were: a differential never alters a command (C13) *)
Theorem C08_gen_diff_update d s1 k1 s2 k2 ss ks (g1 g2 gs : option ds) :
  run_fn c (g_diff_update c) (m_diff_in d s1 k1 s2 k2 ss ks)
    [("get:side1:State", m_rd VS g1); ("get:side2:State", m_rd VS g2); ("get:sum:State", m_rd VS gs)]
  = Some (Ok (m_diff d (wr s1 (fst (fst (diff_states d g1 g2 gs)))) k1
                       (wr s2 (snd (fst (diff_states d g1 g2 gs)))) k2
                       (wr ss (snd (diff_states d g1 g2 gs))) ks, MOk MTup0)).
Proof.
  destruct d; destruct g1 as [[t1 x1]|]; destruct g2 as [[t2 x2]|]; destruct gs as [[t3 x3]|]; mr_exec2.
Qed.

Lemma diff_update_local (w : world) s1 s2 sm d :
  diff_update w s1 s2 sm d
  = let st := diff_states d (state_get w s1) (state_get w s2) (state_get w sm) in
    put_state (put_state (put_state w sm (snd st)) s1 (fst (fst st))) s2 (snd (fst st)).
Proof.
  unfold diff_update, diff_states.
  destruct d; destruct (state_get w sm), (state_get w s1), (state_get w s2); reflexivity.
Qed.

(* ---------------------------------------------------------------- Axle (any number of terminals) *)
Definition b_upd : @mexpr F := ltac:(let t := eval cbv delta [g_axle_update] beta in (@g_axle_update F NF c) in
  match t with ESeq (ETry (ECatch (ESeq (EForMut _ _ ?b) _))) _ => exact b end).
Definition b_rs : @mexpr F := ltac:(let t := eval cbv delta [g_axle_update] beta in (@g_axle_update F NF c) in
  match t with ESeq _ (ELet _ _ (ELet _ _ (ESeq (EFor _ _ ?b) _))) => exact b end).
Definition b_ws : @mexpr F := ltac:(let t := eval cbv delta [g_axle_update] beta in (@g_axle_update F NF c) in
  match t with ESeq _ (ELet _ _ (ELet _ _ (ESeq _ (ESeq (EIf _ (ESeq (ESeq _ (ESeq (EForMut _ _ ?b) _)) _) _) _)))) => exact b end).
Definition b_rc : @mexpr F := ltac:(let t := eval cbv delta [g_axle_update] beta in (@g_axle_update F NF c) in
  match t with ESeq _ (ELet _ _ (ELet _ _ (ESeq _ (ESeq _ (ELet _ _ (ESeq (EFor _ _ ?b) _)))))) => exact b end).
Definition b_wc : @mexpr F := ltac:(let t := eval cbv delta [g_axle_update] beta in (@g_axle_update F NF c) in
  match t with ESeq _ (ELet _ _ (ELet _ _ (ESeq _ (ESeq _ (ELet _ _ (ESeq _ (ESeq (EMatch _ [(_, ESeq (EForMut _ _ ?b) _); _]) _))))))) => exact b end).
Definition L_inputs : lval := LField (LVar "self") "inputs".
Definition axle_tpl : @mexpr F :=
  ESeq (ETry (ECatch (ESeq (EForMut "i" L_inputs b_upd) (EOk EUnit))))
    (ELet (PVar "count") (ELit (VI 0))
      (ELet (PVar "datum") (EOp 37 [ELit (VT (-9223372036854775808)); ELit (VS (snew_raw fzero fzero fzero))])
        (ESeq (EFor "i" (EVar "get:inputs:State") b_rs)
          (ESeq (EIf (ECmp 3 (EVar "count") (ELit (VI 1)))
                     (ESeq (ESeq (EOpAssign (LVar "datum") 8 (ECast true (EVar "count"))) (ESeq (EForMut "i" L_inputs b_ws) EUnit)) EUnit) EUnit)
            (ELet (PVar "maybe_datum") ENone
              (ESeq (EFor "i" (EVar "get:inputs:Command") b_rc)
                (ESeq (EMatch (EVar "maybe_datum") [(PSome (PVar "datum"), ESeq (EForMut "i" L_inputs b_wc) EUnit); (PWild, EUnit)])
                  (EOk EUnit)))))))).
Lemma axle_shape : g_axle_update c = axle_tpl.
Proof. reflexivity. Qed.


Lemma upd_body s k en : flatten (eval c b_upd (("i", m_dterm s k) :: en)) = Ok (ONorm MTup0 (("i", m_dterm s k) :: en)).
Proof. reflexivity. Qed.
Lemma ws_body s k (d : ds) rest :
  flatten (eval c b_ws (("i", m_dterm s k) :: ("datum", m_dat VS d) :: rest))
  = Ok (ONorm MTup0 (("i", m_dterm (Some d) k) :: ("datum", m_dat VS d) :: rest)).
Proof. reflexivity. Qed.
Lemma wc_body s k (d : dc) rest :
  flatten (eval c b_wc (("i", m_dterm s k) :: ("datum", m_dat VC d) :: rest))
  = Ok (ONorm MTup0 (("i", m_dterm s (Some d)) :: ("datum", m_dat VC d) :: rest)).
Proof. reflexivity. Qed.
Lemma rs_body_some (d a : ds) n rest :
  flatten (eval c b_rs (("i", m_rd VS (Some d)) :: ("datum", m_dat VS a) :: ("count", MV (VI n)) :: rest))
  = Ok (ONorm MTup0 (("i", m_rd VS (Some d)) :: ("datum", m_dat VS (dstate_add a d)) :: ("count", MV (VI (n + 1))) :: rest)).
Proof. destruct d as [td xd], a as [ta xa]. mr_norm. reflexivity. Qed.
Lemma rs_body_none (a : ds) n rest :
  flatten (eval c b_rs (("i", m_rd VS None) :: ("datum", m_dat VS a) :: ("count", MV (VI n)) :: rest))
  = Ok (ONorm MTup0 (("i", m_rd VS None) :: ("datum", m_dat VS a) :: ("count", MV (VI n)) :: rest)).
Proof. reflexivity. Qed.
Definition base (S GS GC : @mval F) : @env F := [("self", S); ("get:inputs:State", GS); ("get:inputs:Command", GC)].
Lemma rc_body (h m : option dc) Dv Cv S GS GC :
  let rest := ("datum", Dv) :: ("count", Cv) :: base S GS GC in
  flatten (eval c b_rc (("i", m_rd VC h) :: ("maybe_datum", m_opt (m_dat VC) m) :: rest))
  = Ok (ONorm MTup0 (("i", m_rd VC h) :: ("maybe_datum", m_opt (m_dat VC) (fst (replace_if_none_or_older_than_option m h))) :: rest)).
Proof. intros rest; subst rest. destruct h as [[th xh]|]; destruct m as [[tm xm]|]; unfold base; mr_exec. Qed.

Definition T (t : option ds * option dc) : @mval F := m_dterm (fst t) (snd t).
Definition m_axle (ts : list (option ds * option dc)) : @mval F := MRec [("inputs", MArr (map T ts))].

Lemma flatten_formut x l body en items :
  lval_get l en = Some (MArr items) ->
  flatten (eval c (EForMut x l body) en) = flatten (for_mut (eval c body) x l [] items en).
Proof. intros H. cbn [eval]. rewrite H. reflexivity. Qed.

Lemma for_mut_rel (body : @mexpr F) l en : forall items items' done,
  Forall2 (fun it it' => flatten (eval c body (("i", it) :: en)) = Ok (ONorm MTup0 (("i", it') :: en))) items items' ->
  flatten (for_mut (eval c body) "i" l done items en)
  = match lval_set l (MArr (rev done ++ items')) en with Some en' => Ok (ONorm MTup0 en') | None => Ok OType end.
Proof.
  induction items as [|it r IH]; intros items' done H; inversion H as [|? it' ? r' H1 H2]; subst; cbn [for_mut].
  - destruct (lval_set l (MArr (rev done)) en) eqn:E; rewrite app_nil_r, E; reflexivity.
  - rewrite flatten_tmap, H1. rewrite (IH r' (it' :: done) H2).
    cbn [rev]. rewrite <- app_assoc. reflexivity.
Qed.
Lemma Forall2_map {A} (f g : A -> @mval F) (R : @mval F -> @mval F -> Prop) (l : list A) :
  (forall a, R (f a) (g a)) -> Forall2 R (map f l) (map g l).
Proof. intros H. induction l; cbn; constructor; auto. Qed.

(* the two read loops *)
Definition rs_step (acc : ds * Z) (g : option ds) : ds * Z :=
  match g with Some d => (dstate_add (fst acc) d, snd acc + 1) | None => acc end.
Lemma rs_loop (gs : list (option ds)) : forall (a : ds) n rest,
  flatten (for_loop (eval c b_rs) "i" (map (m_rd VS) gs) (("datum", m_dat VS a) :: ("count", MV (VI n)) :: rest))
  = Ok (ONorm MTup0 (("datum", m_dat VS (fst (fold_left rs_step gs (a, n)))) :: ("count", MV (VI (snd (fold_left rs_step gs (a, n))))) :: rest)).
Proof.
  induction gs as [|g r IH]; intros a n rest; [reflexivity|].
  cbn [map for_loop fold_left]. rewrite flatten_tbind. destruct g as [d|].
  - rewrite rs_body_some. cbn [skipn]. apply IH.
  - rewrite rs_body_none. cbn [skipn]. apply IH.
Qed.
Definition rc_step (m h : option dc) : option dc := fst (replace_if_none_or_older_than_option m h).
Lemma rc_loop (hs : list (option dc)) : forall (m : option dc) Dv Cv S GS GC,
  let rest := ("datum", Dv) :: ("count", Cv) :: base S GS GC in
  flatten (for_loop (eval c b_rc) "i" (map (m_rd VC) hs) (("maybe_datum", m_opt (m_dat VC) m) :: rest))
  = Ok (ONorm MTup0 (("maybe_datum", m_opt (m_dat VC) (fold_left rc_step hs m)) :: rest)).
Proof.
  induction hs as [|h r IH]; intros m Dv Cv S GS GC rest; [reflexivity|].
  cbn [map for_loop fold_left]. rewrite flatten_tbind. subst rest. rewrite rc_body. cbn [skipn]. apply IH.
Qed.

Definition D0 : ds := mkDatum (-9223372036854775808) (snew_raw fzero fzero fzero).
Definition axle_state (gs : list (option ds)) : option ds :=
  let acc := fold_left rs_step gs (D0, 0) in
  if snd acc >=? 1 then Some (dstate_divf (fst acc) (f_of_Z (snd acc))) else None.
Definition axle_cmd (hs : list (option dc)) : option dc := fold_left rc_step hs None.

Lemma flatten_if_true cnd th el en en1 :
  flatten (eval c cnd en) = Ok (ONorm (MV (VB true)) en1) -> flatten (eval c (EIf cnd th el) en) = flatten (eval c th en1).
Proof. intros H. cbn [eval]. rewrite flatten_tbind, H. reflexivity. Qed.
Lemma flatten_if_false cnd th el en en1 :
  flatten (eval c cnd en) = Ok (ONorm (MV (VB false)) en1) -> flatten (eval c (EIf cnd th el) en) = flatten (eval c el en1).
Proof. intros H. cbn [eval]. rewrite flatten_tbind, H. reflexivity. Qed.

Lemma canon_T t : canon (T t) = T t.
Proof. destruct t as [[[ts xs]|] [[tk xk]|]]; reflexivity. Qed.
Lemma canon_axle ts : canon (m_axle ts) = m_axle ts.
Proof.
  unfold m_axle. cbn [canon]. do 4 f_equal.
  induction ts as [|t r IH]; [reflexivity|]. cbn [map]. rewrite canon_T. f_equal. exact IH.
Qed.

Lemma cmp_count n en0 :
  flatten (eval c (ECmp 3 (EVar "count") (ELit (VI 1))) (("datum", en0) :: ("count", MV (VI n)) :: []))
  = Ok (ONorm (MV (VB (n >=? 1))) (("datum", en0) :: ("count", MV (VI n)) :: [])).
Proof. reflexivity. Qed.

Definition if_part : @mexpr F :=
  EIf (ECmp 3 (EVar "count") (ELit (VI 1)))
    (ESeq (ESeq (EOpAssign (LVar "datum") 8 (ECast true (EVar "count"))) (ESeq (EForMut "i" L_inputs b_ws) EUnit)) EUnit) EUnit.
Lemma state_part ts (a : ds) n GS GC :
  let w := if n >=? 1 then Some (dstate_divf a (f_of_Z n)) else None in
  flatten (eval c if_part (("datum", m_dat VS a) :: ("count", MV (VI n)) :: base (m_axle ts) GS GC))
  = Ok (ONorm MTup0 (("datum", m_dat VS (match w with Some d => d | None => a end)) :: ("count", MV (VI n))
                     :: base (m_axle (map (fun t => (wr (fst t) w, snd t)) ts)) GS GC)).
Proof.
  intros w. unfold if_part. destruct (n >=? 1) eqn:Hc; subst w.
  - erewrite flatten_if_true; [|cbn -[Z.geb]; rewrite Hc; reflexivity].
    rewrite !flatten_seq.
    assert (H1 : flatten (eval c (EOpAssign (LVar "datum") 8 (ECast true (EVar "count")))
                            (("datum", m_dat VS a) :: ("count", MV (VI n)) :: base (m_axle ts) GS GC))
                 = Ok (ONorm MTup0 (("datum", m_dat VS (dstate_divf a (f_of_Z n))) :: ("count", MV (VI n)) :: base (m_axle ts) GS GC))) by reflexivity.
    rewrite H1. cbn [after]. rewrite flatten_seq.
    erewrite flatten_formut by reflexivity.
    erewrite for_mut_rel; [|apply (Forall2_map T (fun t => T (Some (dstate_divf a (f_of_Z n)), snd t))); intros [s k]; apply ws_body].
    cbn [after]. unfold m_axle. rewrite map_map. reflexivity.
  - erewrite flatten_if_false; [|cbn -[Z.geb]; rewrite Hc; reflexivity].
    replace (map (fun t : option ds * option dc => (wr (fst t) None, snd t)) ts) with ts; [reflexivity|].
    induction ts as [|[s k] r IH]; [reflexivity|]. cbn [map wr fst snd]. f_equal. exact IH.
Qed.
Definition cmd_part : @mexpr F :=
  ELet (PVar "maybe_datum") ENone
    (ESeq (EFor "i" (EVar "get:inputs:Command") b_rc)
      (ESeq (EMatch (EVar "maybe_datum") [(PSome (PVar "datum"), ESeq (EForMut "i" L_inputs b_wc) EUnit); (PWild, EUnit)])
        (EOk EUnit))).
Lemma cmd_part_ok ts (hs : list (option dc)) Dv Cv GS :
  let GC := MArr (map (m_rd VC) hs) in
  flatten (eval c cmd_part (("datum", Dv) :: ("count", Cv) :: base (m_axle ts) GS GC))
  = Ok (ONorm (MOk MTup0) (("datum", Dv) :: ("count", Cv) :: base (m_axle (map (fun t => (fst t, wr (snd t) (axle_cmd hs))) ts)) GS GC)).
Proof.
  intros GC. unfold cmd_part. rewrite flatten_let.
  match goal with |- context [flatten (eval c ENone ?en)] => change (flatten (eval c ENone en)) with (Ok (ONorm (@MNone F) en)) end.
  cbn [after]. rewrite flatten_seq.
  erewrite flatten_for by reflexivity.
  pose proof (rc_loop hs None Dv Cv (m_axle ts) GS GC) as HL. cbn zeta in HL. change (m_opt (m_dat VC) (@None dc)) with (@MNone F) in HL. rewrite HL. clear HL.
  cbn [after]. fold (axle_cmd hs).
  rewrite flatten_seq.
  destruct (axle_cmd hs) as [d|] eqn:Hm.
  - assert (HM : flatten (eval c (EMatch (EVar "maybe_datum") [(PSome (PVar "datum"), ESeq (EForMut "i" L_inputs b_wc) EUnit); (PWild, EUnit)])
                           (("maybe_datum", m_opt (m_dat VC) (Some d)) :: ("datum", Dv) :: ("count", Cv) :: base (m_axle ts) GS GC))
                 = Ok (ONorm MTup0 (("maybe_datum", m_opt (m_dat VC) (Some d)) :: ("datum", Dv) :: ("count", Cv)
                                    :: base (m_axle (map (fun t => (fst t, Some d)) ts)) GS GC))).
    { cbn [eval]. rewrite flatten_tbind. cbn [lookup String.eqb Ascii.eqb Bool.eqb opt_leaf flatten m_opt].
      cbn [eval_arms pmatch tmap]. rewrite flatten_tbind.
      cbn [app]. rewrite flatten_seq.
      erewrite flatten_formut by reflexivity.
      erewrite for_mut_rel; [|apply (Forall2_map T (fun t => T (fst t, Some d))); intros [s k]; apply wc_body].
      cbn [after]. unfold m_axle. rewrite map_map. reflexivity. }
    rewrite HM. cbn [after].
    replace (map (fun t : option ds * option dc => (fst t, wr (snd t) (Some d))) ts) with (map (fun t : option ds * option dc => (fst t, Some d)) ts)
      by (apply map_ext; intros [s k]; reflexivity).
    reflexivity.
  - replace (map (fun t : option ds * option dc => (fst t, wr (snd t) None)) ts) with ts
      by (induction ts as [|[s k] r IH]; [reflexivity|]; cbn [map wr fst snd]; f_equal; exact IH).
    reflexivity.
Qed.

Theorem C08_gen_axle_update (ts : list (option ds * option dc)) (gs : list (option ds)) (hs : list (option dc)) :
  run_fn c (g_axle_update c) (m_axle ts) [("get:inputs:State", MArr (map (m_rd VS) gs)); ("get:inputs:Command", MArr (map (m_rd VC) hs))]
  = Some (Ok (m_axle (map (fun t => (wr (fst t) (axle_state gs), wr (snd t) (axle_cmd hs))) ts), MOk MTup0)).
Proof.
  unfold run_fn. rewrite axle_shape. unfold axle_tpl.
  set (GS := MArr (map (m_rd VS) gs)). set (GC := MArr (map (m_rd VC) hs)).
  change (("self", m_axle ts) :: [("get:inputs:State", GS); ("get:inputs:Command", GC)]) with (base (m_axle ts) GS GC).
  rewrite flatten_seq.
  (* update_terminals: nothing is followed *)
  assert (HA : flatten (eval c (ETry (ECatch (ESeq (EForMut "i" L_inputs b_upd) (EOk EUnit)))) (base (m_axle ts) GS GC))
               = Ok (ONorm MTup0 (base (m_axle ts) GS GC))).
  { cbn [eval]. rewrite flatten_tbind, flatten_tmap, flatten_tbind.
    change (match lval_get L_inputs (base (m_axle ts) GS GC) with Some (MArr items) => _ | _ => _ end)
      with (for_mut (eval c b_upd) "i" L_inputs [] (map T ts) (base (m_axle ts) GS GC)).
    erewrite for_mut_rel; [|apply (Forall2_map T T); intros [s k]; apply upd_body].
    reflexivity. }
  rewrite HA. cbn [after].
  rewrite flatten_let.
  match goal with |- context [flatten (eval c (ELit (VI 0)) ?en)] => change (flatten (eval c (ELit (VI 0)) en)) with (Ok (ONorm (@MV F (VI 0)) en)) end.
  cbn [after]. rewrite flatten_let.
  match goal with |- context [flatten (eval c (EOp 37 ?a) ?en)] => change (flatten (eval c (EOp 37 a) en)) with (Ok (ONorm (m_dat VS D0) en)) end.
  cbn [after]. rewrite flatten_seq.
  erewrite flatten_for by reflexivity.
  rewrite rs_loop. cbn [after].
  rewrite flatten_seq.
  fold if_part. rewrite state_part. cbn [after].
  fold cmd_part. subst GC. rewrite cmd_part_ok. cbn [after skipn].
  unfold finish, base. cbn [List.length Nat.sub skipn lookup String.eqb Ascii.eqb Bool.eqb].
  rewrite canon_axle. rewrite map_map. cbn [fst snd canon]. unfold axle_state. reflexivity.
Qed.

(* the world-level model of Model/Devices.v is the local functions applied to what the terminals read *)
Lemma fold_left_map_l {A B C} (f : A -> B -> A) (g : C -> B) (l : list C) : forall a,
  fold_left f (map g l) a = fold_left (fun a x => f a (g x)) l a.
Proof. induction l as [|x r IH]; intros a; [reflexivity|]. cbn [map fold_left]. apply IH. Qed.
Lemma fold_left_ext_in {A B} (f g : A -> B -> A) (l : list B) : (forall a x, f a x = g a x) -> forall a, fold_left f l a = fold_left g l a.
Proof. intros H. induction l as [|x r IH]; intros a; [reflexivity|]. cbn [fold_left]. rewrite H. apply IH. Qed.
Lemma fold_put_cmd_none (ts : list nat) : forall w : world, fold_left (fun w' i => put_cmd w' i None) ts w = w.
Proof. induction ts as [|t r IH]; intros w; [reflexivity|]. cbn [fold_left put_cmd]. apply IH. Qed.
Lemma fold_put_state_none (ts : list nat) : forall w : world, fold_left (fun w' i => put_state w' i None) ts w = w.
Proof. induction ts as [|t r IH]; intros w; [reflexivity|]. cbn [fold_left put_state]. apply IH. Qed.
Lemma axle_update_local (w : world) (ts : list nat) :
  axle_update w ts
  = let st := axle_state (map (state_get w) ts) in
    let w1 := fold_left (fun w' i => put_state w' i st) ts w in
    let cm := axle_cmd (map (cmd_get w) ts) in
    fold_left (fun w' i => put_cmd w' i cm) ts w1.
Proof.
  unfold axle_update, axle_state, axle_cmd. cbv zeta. rewrite !fold_left_map_l.
  change (fold_left (fun (a : ds * Z) (x : nat) => rs_step a (state_get w x)) ts (D0, 0))
    with (fold_left (fun (a : ds * Z) i => match state_get w i with Some g => (dstate_add (fst a) g, snd a + 1) | None => a end) ts
            (mkDatum (-9223372036854775808) (snew_raw fzero fzero fzero), 0)).
  set (acc := fold_left _ ts (_, 0)).
  destruct (snd acc >=? 1).
  - set (d := dstate_divf (fst acc) (f_of_Z (snd acc))).
    change (fold_left (fun w' i => put_state w' i (Some d)) ts w) with (fold_left (fun w' i => set_state w' i d) ts w).
    set (w1 := fold_left (fun w' i => set_state w' i d) ts w).
    assert (Hc : forall i, cmd_get w1 i = cmd_get w i) by (intros i; apply ceq_cmd_get, ceq_fold_set_state).
    rewrite (fold_left_ext_in (fun m i => fst (replace_if_none_or_older_than_option m (cmd_get w1 i))) (fun m x => rc_step m (cmd_get w x)))
      by (intros m i; rewrite Hc; reflexivity).
    destruct (fold_left _ ts None) as [dc0|]; [reflexivity|].
    rewrite fold_put_cmd_none. reflexivity.
  - rewrite fold_put_state_none.
    change (fun m i => fst (replace_if_none_or_older_than_option m (cmd_get w i))) with (fun m x => rc_step m (cmd_get w x)).
    destruct (fold_left _ ts None) as [dc0|]; [reflexivity|].
    rewrite fold_put_cmd_none. reflexivity.
Qed.

(* ---------------------------------------------------------------- end to end: the translated body and the world-level model *)
(* The slots of the two terminals after the four writes of a two-terminal device, read off the world *)
Lemma put_state_slots (w : world) i o k : (i < List.length w)%nat ->
  slot_s (put_state w i o) k = (if Nat.eqb k i then wr (slot_s w k) o else slot_s w k) /\ slot_c (put_state w i o) k = slot_c w k
  /\ List.length (put_state w i o) = List.length w.
Proof.
  intros Hi. destruct o as [d|]; cbn [put_state wr].
  - destruct (get_set_state w i d k Hi) as (A & B & _). rewrite A, B, len_set_state. destruct (Nat.eqb k i); repeat split.
  - destruct (Nat.eqb k i); repeat split.
Qed.
Lemma put_cmd_slots (w : world) i o k : (i < List.length w)%nat ->
  slot_c (put_cmd w i o) k = (if Nat.eqb k i then wr (slot_c w k) o else slot_c w k) /\ slot_s (put_cmd w i o) k = slot_s w k
  /\ List.length (put_cmd w i o) = List.length w.
Proof.
  intros Hi. destruct o as [d|]; cbn [put_cmd wr].
  - destruct (get_set_cmd w i d k Hi) as (A & B & _). rewrite A, B, len_set_cmd. destruct (Nat.eqb k i); repeat split.
  - destruct (Nat.eqb k i); repeat split.
Qed.
Lemma two_terminal_slots (w : world) t1 t2 a b x y k : t1 <> t2 -> (t1 < List.length w)%nat -> (t2 < List.length w)%nat ->
  let w' := put_cmd (put_cmd (put_state (put_state w t1 a) t2 b) t1 x) t2 y in
  slot_s w' k = (if Nat.eqb k t1 then wr (slot_s w k) a else if Nat.eqb k t2 then wr (slot_s w k) b else slot_s w k) /\
  slot_c w' k = (if Nat.eqb k t1 then wr (slot_c w k) x else if Nat.eqb k t2 then wr (slot_c w k) y else slot_c w k).
Proof.
  intros Hne H1 H2 w'. subst w'.
  destruct (put_state_slots w t1 a k H1) as (A1 & A2 & A3).
  assert (H2' : (t2 < List.length (put_state w t1 a))%nat) by (rewrite A3; exact H2).
  destruct (put_state_slots (put_state w t1 a) t2 b k H2') as (B1 & B2 & B3).
  assert (H1' : (t1 < List.length (put_state (put_state w t1 a) t2 b))%nat) by (rewrite B3, A3; exact H1).
  destruct (put_cmd_slots (put_state (put_state w t1 a) t2 b) t1 x k H1') as (C1 & C2 & C3).
  assert (H2'' : (t2 < List.length (put_cmd (put_state (put_state w t1 a) t2 b) t1 x))%nat) by (rewrite C3, B3, A3; exact H2).
  destruct (put_cmd_slots (put_cmd (put_state (put_state w t1 a) t2 b) t1 x) t2 y k H2'') as (D1 & D2 & _).
  split.
  - rewrite D2, C2, B1, A1. destruct (Nat.eqb_spec k t1) as [E1|N1]; destruct (Nat.eqb_spec k t2) as [E2|N2]; try reflexivity.
    exfalso. apply Hne. congruence.
  - rewrite D1, C1, B2, A2. destruct (Nat.eqb_spec k t1) as [E1|N1]; destruct (Nat.eqb_spec k t2) as [E2|N2]; try reflexivity.
    exfalso. apply Hne. congruence.
Qed.

(* Invert, end to end: run the body translated from src/devices.rs on the two terminals as they are in the world [w] (their
   own slots), giving it as reads what the world-level read functions return (by C09Streams.v these are what the translated
   `Terminal::get` returns on the terminal's view of [w]).  The slots it leaves in the two terminals are exactly the slots of
   those terminals in [invert_update w t1 t2] - the function C08's / C13's world-level theorems are about - and the world-level
   function touches no other terminal's slots. *)
Theorem C08_invert_end_to_end (w : world) t1 t2 : t1 <> t2 -> (t1 < List.length w)%nat -> (t2 < List.length w)%nat ->
  let w' := invert_update w t1 t2 in
  run_fn c (g_invert_update c) (m_inv_in (slot_s w t1) (slot_c w t1) (slot_s w t2) (slot_c w t2))
    [("get:term1:State", m_rd VS (state_get w t1)); ("get:term2:State", m_rd VS (state_get w t2));
     ("get:term1:Command", m_rd VC (cmd_get w t1)); ("get:term2:Command", m_rd VC (cmd_get w t2))]
  = Some (Ok (m_inv (slot_s w' t1) (slot_c w' t1) (slot_s w' t2) (slot_c w' t2), MOk MTup0))
  /\ forall k, k <> t1 -> k <> t2 -> slot_s w' k = slot_s w k /\ slot_c w' k = slot_c w k.
Proof.
  intros Hne H1 H2 w'. subst w'. rewrite invert_update_local. cbv zeta.
  set (st := inv_states (state_get w t1) (state_get w t2)). set (cm := inv_cmds (cmd_get w t1) (cmd_get w t2)).
  pose proof (fun k => two_terminal_slots w t1 t2 (fst st) (snd st) (fst cm) (snd cm) k Hne H1 H2) as HS. cbv zeta in HS.
  split.
  - rewrite C08_gen_invert_update. fold st cm.
    destruct (HS t1) as (S1 & C1). destruct (HS t2) as (S2 & C2).
    rewrite S1, C1, S2, C2. rewrite !Nat.eqb_refl.
    replace (Nat.eqb t2 t1) with false by (symmetry; apply Nat.eqb_neq; intro E; apply Hne; symmetry; exact E).
    reflexivity.
  - intros k N1 N2. destruct (HS k) as (Sk & Ck). rewrite Sk, Ck.
    replace (Nat.eqb k t1) with false by (symmetry; apply Nat.eqb_neq; exact N1).
    replace (Nat.eqb k t2) with false by (symmetry; apply Nat.eqb_neq; exact N2). split; reflexivity.
Qed.
Theorem C08_gear_end_to_end (w : world) t1 t2 r : t1 <> t2 -> (t1 < List.length w)%nat -> (t2 < List.length w)%nat ->
  let w' := gear_update w t1 t2 r in
  run_fn c (g_gear_update c) (m_gear_in r (slot_s w t1) (slot_c w t1) (slot_s w t2) (slot_c w t2))
    [("get:term1:State", m_rd VS (state_get w t1)); ("get:term2:State", m_rd VS (state_get w t2));
     ("get:term1:Command", m_rd VC (cmd_get w t1)); ("get:term2:Command", m_rd VC (cmd_get w t2))]
  = Some (Ok (m_gear r (slot_s w' t1) (slot_c w' t1) (slot_s w' t2) (slot_c w' t2), MOk MTup0))
  /\ forall k, k <> t1 -> k <> t2 -> slot_s w' k = slot_s w k /\ slot_c w' k = slot_c w k.
Proof.
  intros Hne H1 H2 w'. subst w'. rewrite gear_update_local. cbv zeta.
  set (st := gear_states r (state_get w t1) (state_get w t2)). set (cm := gear_cmds r (cmd_get w t1) (cmd_get w t2)).
  pose proof (fun k => two_terminal_slots w t1 t2 (fst st) (snd st) (fst cm) (snd cm) k Hne H1 H2) as HS. cbv zeta in HS.
  split.
  - rewrite C08_gen_gear_update. fold st cm.
    destruct (HS t1) as (S1 & C1). destruct (HS t2) as (S2 & C2).
    rewrite S1, C1, S2, C2. rewrite !Nat.eqb_refl.
    replace (Nat.eqb t2 t1) with false by (symmetry; apply Nat.eqb_neq; intro E; apply Hne; symmetry; exact E).
    reflexivity.
  - intros k N1 N2. destruct (HS k) as (Sk & Ck). rewrite Sk, Ck.
    replace (Nat.eqb k t1) with false by (symmetry; apply Nat.eqb_neq; exact N1).
    replace (Nat.eqb k t2) with false by (symmetry; apply Nat.eqb_neq; exact N2). split; reflexivity.
Qed.

(* Axle, end to end, for any list of terminals (repetitions allowed) *)
Lemma wr_idem {A} (s o : option A) : wr (wr s o) o = wr s o.
Proof. destruct o; reflexivity. Qed.
Lemma fold_put_state_slots (o : option ds) (ts : list nat) : forall (w : world) k, (forall i, In i ts -> (i < List.length w)%nat) ->
  slot_s (fold_left (fun w' i => put_state w' i o) ts w) k = (if existsb (Nat.eqb k) ts then wr (slot_s w k) o else slot_s w k)
  /\ slot_c (fold_left (fun w' i => put_state w' i o) ts w) k = slot_c w k
  /\ List.length (fold_left (fun w' i => put_state w' i o) ts w) = List.length w.
Proof.
  induction ts as [|i r IH]; intros w k H; cbn [fold_left existsb]; [repeat split|].
  destruct (put_state_slots w i o k (H i (or_introl eq_refl))) as (A1 & A2 & A3).
  destruct (IH (put_state w i o) k) as (B1 & B2 & B3).
  { intros j Hj. rewrite (proj2 (proj2 (put_state_slots w i o j (H i (or_introl eq_refl))))). apply H. right. exact Hj. }
  rewrite B1, B2, B3, A1, A2, A3. repeat split.
  destruct (Nat.eqb k i); cbn [orb]; [|reflexivity].
  destruct (existsb (Nat.eqb k) r); [apply wr_idem|reflexivity].
Qed.
Lemma fold_put_cmd_slots (o : option dc) (ts : list nat) : forall (w : world) k, (forall i, In i ts -> (i < List.length w)%nat) ->
  slot_c (fold_left (fun w' i => put_cmd w' i o) ts w) k = (if existsb (Nat.eqb k) ts then wr (slot_c w k) o else slot_c w k)
  /\ slot_s (fold_left (fun w' i => put_cmd w' i o) ts w) k = slot_s w k
  /\ List.length (fold_left (fun w' i => put_cmd w' i o) ts w) = List.length w.
Proof.
  induction ts as [|i r IH]; intros w k H; cbn [fold_left existsb]; [repeat split|].
  destruct (put_cmd_slots w i o k (H i (or_introl eq_refl))) as (A1 & A2 & A3).
  destruct (IH (put_cmd w i o) k) as (B1 & B2 & B3).
  { intros j Hj. rewrite (proj2 (proj2 (put_cmd_slots w i o j (H i (or_introl eq_refl))))). apply H. right. exact Hj. }
  rewrite B1, B2, B3, A1, A2, A3. repeat split.
  destruct (Nat.eqb k i); cbn [orb]; [|reflexivity].
  destruct (existsb (Nat.eqb k) r); [apply wr_idem|reflexivity].
Qed.
Lemma existsb_in (k : nat) (ts : list nat) : In k ts -> existsb (Nat.eqb k) ts = true.
Proof. intros H. apply existsb_exists. exists k. split; [exact H|apply Nat.eqb_refl]. Qed.
Lemma existsb_notin (k : nat) (ts : list nat) : ~ In k ts -> existsb (Nat.eqb k) ts = false.
Proof.
  intros H. destruct (existsb (Nat.eqb k) ts) eqn:E; [|reflexivity]. exfalso. apply H.
  apply existsb_exists in E. destruct E as (x & Hx & Ex). apply Nat.eqb_eq in Ex. subst x. exact Hx.
Qed.
Theorem C08_axle_end_to_end (w : world) (ts : list nat) : (forall i, In i ts -> (i < List.length w)%nat) ->
  let w' := axle_update w ts in
  run_fn c (g_axle_update c) (m_axle (map (fun i => (slot_s w i, slot_c w i)) ts))
    [("get:inputs:State", MArr (map (m_rd VS) (map (state_get w) ts))); ("get:inputs:Command", MArr (map (m_rd VC) (map (cmd_get w) ts)))]
  = Some (Ok (m_axle (map (fun i => (slot_s w' i, slot_c w' i)) ts), MOk MTup0))
  /\ forall k, ~ In k ts -> slot_s w' k = slot_s w k /\ slot_c w' k = slot_c w k.
Proof.
  intros H w'. subst w'. rewrite axle_update_local. cbv zeta.
  set (st := axle_state (map (state_get w) ts)). set (cm := axle_cmd (map (cmd_get w) ts)).
  set (w1 := fold_left (fun w' i => put_state w' i st) ts w).
  assert (H1 : forall i, In i ts -> (i < List.length w1)%nat).
  { intros i Hi. unfold w1. rewrite (proj2 (proj2 (fold_put_state_slots st ts w i H))). apply H. exact Hi. }
  assert (HS : forall k, slot_s (fold_left (fun w' i => put_cmd w' i cm) ts w1) k = (if existsb (Nat.eqb k) ts then wr (slot_s w k) st else slot_s w k)
                      /\ slot_c (fold_left (fun w' i => put_cmd w' i cm) ts w1) k = (if existsb (Nat.eqb k) ts then wr (slot_c w k) cm else slot_c w k)).
  { intros k. destruct (fold_put_cmd_slots cm ts w1 k H1) as (A1 & A2 & _). destruct (fold_put_state_slots st ts w k H) as (B1 & B2 & _).
    fold w1 in B1, B2. rewrite A1, A2, B1, B2. split; reflexivity. }
  split.
  - rewrite C08_gen_axle_update. fold st cm. rewrite map_map. cbn [fst snd].
    erewrite map_ext_in; [reflexivity|].
    intros i Hi. cbv beta. destruct (HS i) as (A & B). rewrite A, B, (existsb_in i ts Hi). reflexivity.
  - intros k Hk. destruct (HS k) as (A & B). rewrite A, B, (existsb_notin k ts Hk). split; reflexivity.
Qed.

(* Differential, end to end *)
Theorem C08_diff_end_to_end (w : world) s1 s2 sm d : s1 <> s2 -> s1 <> sm -> s2 <> sm ->
  (s1 < List.length w)%nat -> (s2 < List.length w)%nat -> (sm < List.length w)%nat ->
  let w' := diff_update w s1 s2 sm d in
  run_fn c (g_diff_update c) (m_diff_in d (slot_s w s1) (slot_c w s1) (slot_s w s2) (slot_c w s2) (slot_s w sm) (slot_c w sm))
    [("get:side1:State", m_rd VS (state_get w s1)); ("get:side2:State", m_rd VS (state_get w s2)); ("get:sum:State", m_rd VS (state_get w sm))]
  = Some (Ok (m_diff d (slot_s w' s1) (slot_c w' s1) (slot_s w' s2) (slot_c w' s2) (slot_s w' sm) (slot_c w' sm), MOk MTup0))
  /\ (forall k, slot_c w' k = slot_c w k)
  /\ forall k, k <> s1 -> k <> s2 -> k <> sm -> slot_s w' k = slot_s w k.
Proof.
  intros N12 N1m N2m H1 H2 Hm w'. subst w'. rewrite diff_update_local. cbv zeta.
  set (st := diff_states d (state_get w s1) (state_get w s2) (state_get w sm)).
  assert (HS : forall k,
    slot_s (put_state (put_state (put_state w sm (snd st)) s1 (fst (fst st))) s2 (snd (fst st))) k
    = (if Nat.eqb k s2 then wr (slot_s w k) (snd (fst st)) else if Nat.eqb k s1 then wr (slot_s w k) (fst (fst st))
       else if Nat.eqb k sm then wr (slot_s w k) (snd st) else slot_s w k)
    /\ slot_c (put_state (put_state (put_state w sm (snd st)) s1 (fst (fst st))) s2 (snd (fst st))) k = slot_c w k).
  { intros k.
    destruct (put_state_slots w sm (snd st) k Hm) as (A1 & A2 & A3).
    assert (H1' : (s1 < List.length (put_state w sm (snd st)))%nat) by (rewrite A3; exact H1).
    destruct (put_state_slots _ s1 (fst (fst st)) k H1') as (B1 & B2 & B3).
    assert (H2' : (s2 < List.length (put_state (put_state w sm (snd st)) s1 (fst (fst st))))%nat) by (rewrite B3, A3; exact H2).
    destruct (put_state_slots _ s2 (snd (fst st)) k H2') as (C1 & C2 & _).
    rewrite C1, C2, B1, B2, A1, A2. split; [|reflexivity].
    destruct (Nat.eqb_spec k s2) as [E2|M2]; destruct (Nat.eqb_spec k s1) as [E1|M1]; destruct (Nat.eqb_spec k sm) as [Em|Mm]; try reflexivity;
      exfalso; congruence. }
  split; [|split].
  - rewrite C08_gen_diff_update. fold st.
    destruct (HS s1) as (S1 & C1). destruct (HS s2) as (S2 & C2). destruct (HS sm) as (Sm & Cm).
    rewrite S1, C1, S2, C2, Sm, Cm. rewrite !Nat.eqb_refl.
    replace (Nat.eqb s1 s2) with false by (symmetry; apply Nat.eqb_neq; exact N12).
    replace (Nat.eqb sm s2) with false by (symmetry; apply Nat.eqb_neq; congruence).
    replace (Nat.eqb sm s1) with false by (symmetry; apply Nat.eqb_neq; congruence).
    reflexivity.
  - intros k. apply (HS k).
  - intros k M1 M2 Mm. destruct (HS k) as (A & _). rewrite A.
    replace (Nat.eqb k s2) with false by (symmetry; apply Nat.eqb_neq; exact M2).
    replace (Nat.eqb k s1) with false by (symmetry; apply Nat.eqb_neq; exact M1).
    replace (Nat.eqb k sm) with false by (symmetry; apply Nat.eqb_neq; exact Mm). reflexivity.
Qed.

(* ---------------------------------------------------------------- Axle::new (C16): the MaybeUninit array of terminals *)
(* `Axle::new` builds its array of terminals in a `[MaybeUninit<..>; N]`, writes every slot in a loop and then reads the whole
   array as initialised through a pointer cast.  For every N: the read never meets an unwritten slot (the outcome is never
   undefined behaviour) and the axle starts with N fresh, unconnected terminals. *)
Definition TERM0 : @mval F :=
  MRec [("other", MNone); ("settable_data_command", MRec [("following", MNone); ("last_request", MNone)]);
        ("settable_data_state", MRec [("following", MNone); ("last_request", MNone)])].
Definition b_fill : @mexpr F := ltac:(let t := eval cbv delta [g_axle_new] beta in (g_axle_new c : @mexpr F) in
  match t with ELet _ _ (ESeq (EForMut _ _ ?b) _) => exact b end).
Definition p_after_fill : @mexpr F := ltac:(let t := eval cbv delta [g_axle_new] beta in (g_axle_new c : @mexpr F) in
  match t with ELet _ _ (ESeq _ ?b) => exact b end).
Lemma axle_new_shape : g_axle_new c = ELet (PVar "inputs") (EArrUninit (EVar "N")) (ESeq (EForMut "i" (LVar "inputs") b_fill) p_after_fill).
Proof. reflexivity. Qed.
Lemma fill_body (it : @mval F) en : flatten (eval c b_fill (("i", it) :: en)) = Ok (ONorm MTup0 (("i", TERM0) :: en)).
Proof. reflexivity. Qed.
Lemma Forall2_repeat {A B} (R : A -> B -> Prop) a b n : R a b -> Forall2 R (repeat a n) (repeat b n).
Proof. intros H. induction n; cbn [repeat]; constructor; assumption. Qed.
Lemma no_uninit_repeat n : existsb (fun x : @mval F => match x with MUninit => true | _ => false end) (repeat TERM0 n) = false.
Proof. induction n; [reflexivity|]. cbn [repeat existsb]. exact IHn. Qed.
Theorem C16_gen_axle_new (n : nat) :
  flatten (eval c (g_axle_new c) [("N", MV (VI (Z.of_nat n)))])
  = Ok (ONorm (MRec [("inputs", MArr (repeat TERM0 n))]) [("N", MV (VI (Z.of_nat n)))]).
Proof.
  rewrite axle_new_shape, flatten_let.
  assert (H0 : flatten (eval c (EArrUninit (EVar "N")) [("N", MV (VI (Z.of_nat n)))])
               = Ok (ONorm (MArr (repeat MUninit n)) [("N", MV (VI (Z.of_nat n)))])).
  { cbn -[Z.of_nat Z.to_nat repeat]. rewrite Nat2Z.id. reflexivity. }
  rewrite H0. cbn [after]. rewrite flatten_seq.
  erewrite flatten_formut by reflexivity.
  erewrite for_mut_rel; [|apply (Forall2_repeat _ MUninit TERM0); apply fill_body].
  cbn [lval_set update String.eqb Ascii.eqb Bool.eqb rev app after].
  unfold p_after_fill. rewrite flatten_let.
  assert (H1 : flatten (eval c (EAssumeInitAll (EVar "inputs")) [("inputs", MArr (repeat TERM0 n)); ("N", MV (VI (Z.of_nat n)))])
               = Ok (ONorm (MArr (repeat TERM0 n)) [("inputs", MArr (repeat TERM0 n)); ("N", MV (VI (Z.of_nat n)))])).
  { cbn -[Z.of_nat repeat existsb]. rewrite no_uninit_repeat. reflexivity. }
  rewrite H1. cbn [after]. reflexivity.
Qed.
End C08Devices.
Print Assumptions C08_gen_invert_update.
Print Assumptions invert_update_local.
Print Assumptions C08_gen_gear_update.
Print Assumptions gear_update_local.
Print Assumptions C08_gen_diff_update.
Print Assumptions diff_update_local.
Print Assumptions cmd_get_put_state.
Print Assumptions C08_gen_axle_update.
Print Assumptions axle_update_local.
Print Assumptions axle_shape.
Print Assumptions upd_body.
Print Assumptions ws_body.
Print Assumptions wc_body.
Print Assumptions rs_body_some.
Print Assumptions rs_body_none.
Print Assumptions rc_body.
Print Assumptions flatten_formut.
Print Assumptions for_mut_rel.
Print Assumptions Forall2_map.
Print Assumptions rs_loop.
Print Assumptions rc_loop.
Print Assumptions flatten_if_true.
Print Assumptions flatten_if_false.
Print Assumptions canon_T.
Print Assumptions canon_axle.
Print Assumptions cmp_count.
Print Assumptions state_part.
Print Assumptions cmd_part_ok.
Print Assumptions fold_left_map_l.
Print Assumptions fold_left_ext_in.
Print Assumptions fold_put_cmd_none.
Print Assumptions fold_put_state_none.
Print Assumptions put_state_slots.
Print Assumptions put_cmd_slots.
Print Assumptions two_terminal_slots.
Print Assumptions C08_invert_end_to_end.
Print Assumptions C08_gear_end_to_end.
Print Assumptions wr_idem.
Print Assumptions fold_put_state_slots.
Print Assumptions fold_put_cmd_slots.
Print Assumptions existsb_in.
Print Assumptions existsb_notin.
Print Assumptions C08_axle_end_to_end.
Print Assumptions C08_diff_end_to_end.
Print Assumptions axle_new_shape.
Print Assumptions fill_body.
Print Assumptions Forall2_repeat.
Print Assumptions no_uninit_repeat.
Print Assumptions C16_gen_axle_new.
