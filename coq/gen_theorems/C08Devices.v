From Coq Require Import ZArith List Bool String.
From RRTK Require Import Num.Num Model.Values Model.Prog Model.MiniRust Model.Combinators Model.Streams Model.World Model.Devices
  Proofs.MiniRustEmb Proofs.DeviceProofs Proofs.ChainProofs.
From Gen Require Import GenStreams.
Import ListNotations.
Local Open Scope string_scope.
Local Open Scope Z_scope.
(* C08 / C13 / C03: `Invert::update`, `GearTrain::update` and `Differential::update` as written in src/devices.rs (translated on
   every run; `update_terminals`, `Terminal::update`, `Settable::update_following_data / set`, `Terminal::impl_set`,
   `replace_if_none_or_older_than(_option)` inlined from src/lib.rs and src/datum.rs) are the model's device functions.

   The proof is split the way the code is layered.  What a terminal *reads* (`term.borrow().get()`, the Getter<State> /
   Getter<Command> impls of Terminal) is an input of the device body here; `C09Streams.v` proves those reads equal the model's
   `state_get` / `cmd_get`.  Each theorem below says: for every content of the device's own slots and every outcome of the reads,
   running the translated body writes exactly the slots that the *local* device function (`inv_states`, `inv_cmds`, ...) says, with
   exactly those data, leaves the others as they were and returns Ok(()).  The `*_update_local` lemmas then show that the world-level
   model functions of Model/Devices.v (about which C08 / C13 / C03 / C20's theorems are stated) are those local functions applied
   to the world's reads, the state reads taken before any write and the command reads after the state writes (which they do not
   depend on).  Modelling restriction: the device's own terminals follow no getter (`following = None`, as constructed). *)
Section C08Devices.
Context {F : Type} {NF : Num F}.
Variable c : cfg.
Notation ds := (datum (@state F)).
Notation dc := (datum (@command F)).
Notation world := (@world F).

(* a terminal owned by a device, as the device body sees it: the two settable slots *)
Definition m_dterm (s : option ds) (k : option dc) : @mval F :=
  MRec [("settable_data_command", MRec [("following", MNone); ("last_request", m_opt (m_dat VC) k)]);
        ("settable_data_state", MRec [("following", MNone); ("last_request", m_opt (m_dat VS) s)])].
(* the same terminal on the input side: the old slot contents are symbolic options (the device bodies never inspect them, so
   the evaluation never forks on them; `canon` writes them out at the end) *)
Definition m_dterm_in (s : option ds) (k : option dc) : @mval F :=
  MRec [("settable_data_command", MRec [("following", MNone); ("last_request", MOpt k (m_dat VC))]);
        ("settable_data_state", MRec [("following", MNone); ("last_request", MOpt s (m_dat VS))])].
Definition m_rd {T} (f : T -> @val F) (o : option (datum T)) : @mval F := MOk (m_opt (m_dat f) o).
(* a write that may not happen *)
Definition wr {T} (old new : option T) : option T := match new with Some x => Some x | None => old end.
Definition put_state (w : world) (i : nat) (o : option ds) : world := match o with Some d => set_state w i d | None => w end.
Definition put_cmd (w : world) (i : nat) (o : option dc) : world := match o with Some d => set_cmd w i d | None => w end.

Lemma cmd_get_put_state (w : world) i o k : cmd_get (put_state w i o) k = cmd_get w k.
Proof. destruct o; [|reflexivity]. cbn [put_state]. apply ceq_cmd_get, ceq_set_state. Qed.

(* ---------------------------------------------------------------- Invert *)
Definition inv_states (g1 g2 : option ds) : option ds * option ds :=
  match g1, g2 with
  | None, None => (None, None)
  | None, Some d2 => (Some (mkDatum (d_time d2) (s_neg (d_val d2))), None)
  | Some d1, None => (None, Some (mkDatum (d_time d1) (s_neg (d_val d1))))
  | Some d1, Some d2 =>
      let time := tmax_ge (d_time d1) (d_time d2) in
      let ns := s_divf (s_sub (d_val d1) (d_val d2)) ftwo in
      (Some (mkDatum time ns), Some (mkDatum time (s_neg ns)))
  end.
Definition inv_cmds (k1 k2 : option dc) : option dc * option dc :=
  let m0 := fst (replace_if_none_or_older_than_option None k1) in
  let m1 := match k2 with Some x => fst (replace_if_none_or_older_than m0 (dneg_c x)) | None => m0 end in
  match m1 with Some d => (Some d, Some (dneg_c d)) | None => (None, None) end.

Definition m_inv (s1 : option ds) (k1 : option dc) (s2 : option ds) (k2 : option dc) : @mval F :=
  MRec [("term1", m_dterm s1 k1); ("term2", m_dterm s2 k2)].
Definition m_inv_in (s1 : option ds) (k1 : option dc) (s2 : option ds) (k2 : option dc) : @mval F :=
  MRec [("term1", m_dterm_in s1 k1); ("term2", m_dterm_in s2 k2)].

Theorem C08_gen_invert_update s1 k1 s2 k2 (g1 g2 : option ds) (h1 h2 : option dc) :
  run_fn c (g_invert_update c) (m_inv_in s1 k1 s2 k2)
    [("get:term1:State", m_rd VS g1); ("get:term2:State", m_rd VS g2); ("get:term1:Command", m_rd VC h1); ("get:term2:Command", m_rd VC h2)]
  = Some (Ok (m_inv (wr s1 (fst (inv_states g1 g2))) (wr k1 (fst (inv_cmds h1 h2)))
                    (wr s2 (snd (inv_states g1 g2))) (wr k2 (snd (inv_cmds h1 h2))), MOk MTup0)).
Proof.
  destruct g1 as [[t1 x1]|]; destruct g2 as [[t2 x2]|]; destruct h1 as [[u1 y1]|]; destruct h2 as [[u2 y2]|]; mr_exec2.
Qed.

Lemma invert_update_local (w : world) t1 t2 :
  invert_update w t1 t2
  = let st := inv_states (state_get w t1) (state_get w t2) in
    let w1 := put_state (put_state w t1 (fst st)) t2 (snd st) in
    let cm := inv_cmds (cmd_get w t1) (cmd_get w t2) in
    put_cmd (put_cmd w1 t1 (fst cm)) t2 (snd cm).
Proof.
  unfold invert_update. cbv zeta.
  set (w1 := match state_get w t1 with Some _ => _ | None => _ end).
  assert (Hw : w1 = put_state (put_state w t1 (fst (inv_states (state_get w t1) (state_get w t2)))) t2 (snd (inv_states (state_get w t1) (state_get w t2)))).
  { subst w1. destruct (state_get w t1), (state_get w t2); reflexivity. }
  assert (Hc : forall k, cmd_get w1 k = cmd_get w k).
  { intros k. rewrite Hw, !cmd_get_put_state. reflexivity. }
  rewrite !Hc. rewrite <- Hw. unfold inv_cmds.
  destruct (match cmd_get w t2 with Some x => _ | None => _ end); reflexivity.
Qed.
(* ---------------------------------------------------------------- GearTrain *)
Definition gear_states (r : F) (g1 g2 : option ds) : option ds * option ds :=
  match g1, g2 with
  | Some d1, Some d2 =>
      let time := tmax_ge (d_time d1) (d_time d2) in
      let r2p1 := fadd (fmul r r) fone in
      let xpry := s_add (d_val d1) (s_mulf (d_val d2) r) in
      (Some (mkDatum time (s_divf xpry r2p1)), Some (mkDatum time (s_divf (s_mulf xpry r) r2p1)))
  | Some d1, None => (None, Some (dmul_s d1 r))
  | None, Some d2 => (Some (ddiv_s d2 r), None)
  | None, None => (None, None)
  end.
Definition gear_cmds (r : F) (k1 k2 : option dc) : option dc * option dc :=
  match k1, k2 with
  | Some d1, Some d2 => if d_time d1 >=? d_time d2 then (None, Some (dmul_c d1 r)) else (Some (ddiv_c d2 r), None)
  | Some d1, None => (None, Some (dmul_c d1 r))
  | None, Some d2 => (Some (ddiv_c d2 r), None)
  | None, None => (None, None)
  end.
Definition m_gear (r : F) (s1 : option ds) (k1 : option dc) (s2 : option ds) (k2 : option dc) : @mval F :=
  MRec [("ratio", m_f r); ("term1", m_dterm s1 k1); ("term2", m_dterm s2 k2)].
Definition m_gear_in (r : F) (s1 : option ds) (k1 : option dc) (s2 : option ds) (k2 : option dc) : @mval F :=
  MRec [("ratio", m_f r); ("term1", m_dterm_in s1 k1); ("term2", m_dterm_in s2 k2)].

Theorem C08_gen_gear_update r s1 k1 s2 k2 (g1 g2 : option ds) (h1 h2 : option dc) :
  run_fn c (g_gear_update c) (m_gear_in r s1 k1 s2 k2)
    [("get:term1:State", m_rd VS g1); ("get:term2:State", m_rd VS g2); ("get:term1:Command", m_rd VC h1); ("get:term2:Command", m_rd VC h2)]
  = Some (Ok (m_gear r (wr s1 (fst (gear_states r g1 g2))) (wr k1 (fst (gear_cmds r h1 h2)))
                       (wr s2 (snd (gear_states r g1 g2))) (wr k2 (snd (gear_cmds r h1 h2))), MOk MTup0)).
Proof.
  destruct g1 as [[t1 x1]|]; destruct g2 as [[t2 x2]|]; destruct h1 as [[u1 y1]|]; destruct h2 as [[u2 y2]|]; mr_exec2.
Qed.

Lemma gear_update_local (w : world) t1 t2 r :
  gear_update w t1 t2 r
  = let st := gear_states r (state_get w t1) (state_get w t2) in
    let w1 := put_state (put_state w t1 (fst st)) t2 (snd st) in
    let cm := gear_cmds r (cmd_get w t1) (cmd_get w t2) in
    put_cmd (put_cmd w1 t1 (fst cm)) t2 (snd cm).
Proof.
  unfold gear_update. cbv zeta.
  set (w1 := match state_get w t1 with Some _ => _ | None => _ end).
  assert (Hw : w1 = put_state (put_state w t1 (fst (gear_states r (state_get w t1) (state_get w t2)))) t2 (snd (gear_states r (state_get w t1) (state_get w t2)))).
  { subst w1. destruct (state_get w t1), (state_get w t2); reflexivity. }
  assert (Hc : forall k, cmd_get w1 k = cmd_get w k).
  { intros k. rewrite Hw, !cmd_get_put_state. reflexivity. }
  rewrite !Hc. rewrite <- Hw. unfold gear_cmds.
  destruct (cmd_get w t1), (cmd_get w t2); try reflexivity.
  destruct (_ >=? _); reflexivity.
Qed.

(* ---------------------------------------------------------------- Differential *)
Definition m_distrust (d : distrust) : @mval F :=
  MVariant (match d with DSide1 => "DifferentialDistrust::Side1" | DSide2 => "DifferentialDistrust::Side2"
                       | DSum => "DifferentialDistrust::Sum" | DEqual => "DifferentialDistrust::Equal" end).
(* the writes to side1, side2, sum; a read that the mode does not perform is not consulted *)
Definition diff_states (d : distrust) (g1 g2 gs : option ds) : option ds * option ds * option ds :=
  match d with
  | DSide1 => match gs, g2 with Some sum, Some side2 => (Some (dstate_sub sum side2), None, None) | _, _ => (None, None, None) end
  | DSide2 => match gs, g1 with Some sum, Some side1 => (None, Some (dstate_sub sum side1), None) | _, _ => (None, None, None) end
  | DSum => match g1, g2 with Some side1, Some side2 => (None, None, Some (dstate_add side1 side2)) | _, _ => (None, None, None) end
  | DEqual =>
      match gs, g1, g2 with
      | Some sum, Some side1, Some side2 =>
          (Some (dstate_divf (dstate_add (dstate_sub (dmul_s side1 ftwo) side2) sum) fthree),
           Some (dstate_divf (dstate_add (dstate_add (dneg_s side1) (dmul_s side2 ftwo)) sum) fthree),
           Some (dstate_divf (dstate_add (dstate_add side1 side2) (dmul_s sum ftwo)) fthree))
      | _, _, _ => (None, None, None)
      end
  end.
Definition m_diff (d : distrust) (s1 : option ds) (k1 : option dc) (s2 : option ds) (k2 : option dc) (ss : option ds) (ks : option dc) : @mval F :=
  MRec [("distrust", m_distrust d); ("side1", m_dterm s1 k1); ("side2", m_dterm s2 k2); ("sum", m_dterm ss ks)].
Definition m_diff_in (d : distrust) (s1 : option ds) (k1 : option dc) (s2 : option ds) (k2 : option dc) (ss : option ds) (ks : option dc) : @mval F :=
  MRec [("distrust", m_distrust d); ("side1", m_dterm_in s1 k1); ("side2", m_dterm_in s2 k2); ("sum", m_dterm_in ss ks)].

(* the command slots are returned as they were: a differential never alters a command (C13) *)
Theorem C08_gen_diff_update d s1 k1 s2 k2 ss ks (g1 g2 gs : option ds) :
  run_fn c (g_diff_update c) (m_diff_in d s1 k1 s2 k2 ss ks)
    [("get:side1:State", m_rd VS g1); ("get:side2:State", m_rd VS g2); ("get:sum:State", m_rd VS gs)]
  = Some (Ok (m_diff d (wr s1 (fst (fst (diff_states d g1 g2 gs)))) k1
                       (wr s2 (snd (fst (diff_states d g1 g2 gs)))) k2
                       (wr ss (snd (diff_states d g1 g2 gs))) ks, MOk MTup0)).
Proof.
  destruct d; destruct g1 as [[t1 x1]|]; destruct g2 as [[t2 x2]|]; destruct gs as [[t3 x3]|]; mr_exec2.
Qed.

Lemma diff_update_local (w : world) s1 s2 sm d :
  diff_update w s1 s2 sm d
  = let st := diff_states d (state_get w s1) (state_get w s2) (state_get w sm) in
    put_state (put_state (put_state w sm (snd st)) s1 (fst (fst st))) s2 (snd (fst st)).
Proof.
  unfold diff_update, diff_states.
  destruct d; destruct (state_get w sm), (state_get w s1), (state_get w s2); reflexivity.
Qed.
End C08Devices.
Print Assumptions C08_gen_invert_update.
Print Assumptions invert_update_local.
Print Assumptions C08_gen_gear_update.
Print Assumptions gear_update_local.
Print Assumptions C08_gen_diff_update.
Print Assumptions diff_update_local.
Print Assumptions cmd_get_put_state.
