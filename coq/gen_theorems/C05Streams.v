From Coq Require Import ZArith List Bool String.
From RRTK Require Import Num.Num Model.Values Model.Prog Model.MiniRust Model.Combinators Model.Streams Proofs.MiniRustEmb.
From Gen Require Import GenStreams.
Import ListNotations.
Local Open Scope string_scope.
Local Open Scope Z_scope.
(* C05: FreezeStream, FloatToQuantity and QuantityToFloat as written in src/streams/flow.rs / converters.rs (translated on
   every run) are the model's freeze_step / f2q / q2f functions for every cached value and every input. *)
Section C05Streams.
Context {F : Type} {NF : Num F}.
Variable c : cfg.
Theorem C05_gen_f2q_update (s i : out F) (u : unit_) :
  run_fn c (g_f2q_update c) (MRec [("unit", MV (VU u)); ("value", m_out VF s)]) [("get:input", m_out VF i)]
  = Some (Ok (MRec [("unit", MV (VU u)); ("value", m_out VF (fst (f2q_step s i)))], m_upd (snd (f2q_step s i)))).
Proof. split_inputs; mr_exec. Qed.
Theorem C05_gen_f2q_get (s : out F) (u : unit_) :
  run_fn c (g_f2q_get c) (MRec [("unit", MV (VU u)); ("value", m_out VF s)]) []
  = m_get (MRec [("unit", MV (VU u)); ("value", m_out VF s)]) VQ (Ok (f2q_get u s)).
Proof. split_inputs; mr_exec. Qed.
Theorem C05_gen_q2f_update (s : out F) (i : out (@quantity F)) :
  run_fn c (g_q2f_update c) (MRec [("value", m_out VF s)]) [("get:input", m_out VQ i)]
  = Some (Ok (MRec [("value", m_out VF (fst (q2f_step s i)))], m_upd (snd (q2f_step s i)))).
Proof. split_inputs; mr_exec. Qed.
Theorem C05_gen_q2f_get (s : out F) :
  run_fn c (g_q2f_get c) (MRec [("value", m_out VF s)]) [] = m_get (MRec [("value", m_out VF s)]) VF (Ok (q2f_get s)).
Proof. split_inputs; mr_exec. Qed.
Theorem C05_gen_freeze_update (s : out (@pay F)) (cnd : out bool) (i : out (@pay F)) :
  run_fn c (g_freeze_update c) (MRec [("freeze_value", m_out pv s)]) [("get:condition", m_out VB cnd); ("get:input", m_out pv i)]
  = Some (Ok (MRec [("freeze_value", m_out pv (fst (freeze_step s cnd i)))], m_upd (snd (freeze_step s cnd i)))).
Proof. split_inputs; mr_exec. Qed.
Theorem C05_gen_freeze_get (s : out (@pay F)) :
  run_fn c (g_freeze_get c) (MRec [("freeze_value", m_out pv s)]) [] = m_get (MRec [("freeze_value", m_out pv s)]) pv (Ok s).
Proof. split_inputs; mr_exec. Qed.
End C05Streams.
Print Assumptions C05_gen_f2q_update.
Print Assumptions C05_gen_f2q_get.
Print Assumptions C05_gen_q2f_update.
Print Assumptions C05_gen_q2f_get.
Print Assumptions C05_gen_freeze_update.
Print Assumptions C05_gen_freeze_get.
