From Coq Require Import ZArith List Bool String.
From RRTK Require Import Num.Num Model.Values Model.Prog Model.MiniRust Model.Combinators Model.Streams Proofs.MiniRustEmb.
From Gen Require Import GenStreams.
Import ListNotations.
Local Open Scope string_scope.
Local Open Scope Z_scope.
(* C02: the `get` of every stateless combinator as written in src/streams.rs, src/streams/math.rs, flow.rs, logic.rs,
   converters.rs (translated on every run) is the model's combinator function, for every outcome of every input. *)
Section C02Streams.
Context {F : Type} {NF : Num F}.
Variable c : cfg.
Notation E0 := (MRec []).
Definition opf (f : F -> F -> F) : F -> F -> res F := fun a b => Ok (f a b).
Definition opq (f : @quantity F -> @quantity F -> @quantity F) : @quantity F -> @quantity F -> res (@quantity F) := fun a b => Ok (f a b).

Theorem C02_gen_none_to_error (i : out (@pay F)) :
  run_fn c (g_none_to_error_get c) E0 [("get:input", m_out pv i)] = m_get E0 pv (Ok (none_to_error i)).
Proof. split_inputs; mr_exec. Qed.
Theorem C02_gen_none_to_value (i : out (@pay F)) (now : tout) (v : @pay F) :
  run_fn c (g_none_to_value_get c) (MRec [("none_value", MV (pv v))]) [("get:input", m_out pv i); ("get:time_getter", m_tout now)]
  = m_get (MRec [("none_value", MV (pv v))]) pv (Ok (none_to_value i now v)).
Proof. split_inputs; mr_exec. Qed.
Theorem C02_gen_if (cnd : out bool) (i : out (@pay F)) :
  run_fn c (g_if_get c) E0 [("get:condition", m_out VB cnd); ("get:input", m_out pv i)] = m_get E0 pv (Ok (if_ cnd i)).
Proof. split_inputs; mr_exec. Qed.
Theorem C02_gen_ifelse (cnd : out bool) (a b : out (@pay F)) :
  run_fn c (g_ifelse_get c) E0 [("get:condition", m_out VB cnd); ("get:true_output", m_out pv a); ("get:false_output", m_out pv b)]
  = m_get E0 pv (Ok (ifelse cnd a b)).
Proof. split_inputs; mr_exec. Qed.
Theorem C02_gen_expirer (i : out (@pay F)) (now : tout) (limit : Z) :
  run_fn c (g_expirer_get c) (MRec [("max_time_delta", m_t limit)]) [("get:input", m_out pv i); ("get:time_getter", m_tout now)]
  = m_get (MRec [("max_time_delta", m_t limit)]) pv (expirer i now limit).
Proof. unfold expirer. split_inputs; mr_exec. Qed.
Theorem C02_gen_not (i : out bool) :
  run_fn c (g_not_get c) E0 [("get:input", m_out VB i)] = m_get E0 VB (Ok (not_ i)).
Proof. split_inputs; mr_exec. Qed.
Theorem C02_gen_and (a b : out bool) :
  run_fn c (g_and_get c) E0 [("get:input1", m_out VB a); ("get:input2", m_out VB b)] = m_get E0 VB (Ok (and_ a b)).
Proof. split_inputs; mr_exec. Qed.
Theorem C02_gen_or (a b : out bool) :
  run_fn c (g_or_get c) E0 [("get:input1", m_out VB a); ("get:input2", m_out VB b)] = m_get E0 VB (Ok (or_ a b)).
Proof. split_inputs; mr_exec. Qed.

Theorem C02_gen_sum2_f (a b : out F) :
  run_fn c (g_sum2_get c) E0 [("get:addend1", m_out VF a); ("get:addend2", m_out VF b)] = m_get E0 VF (bin2 (opf fadd) a b).
Proof. split_inputs; mr_exec. Qed.
Theorem C02_gen_sum2_q (a b : out (@quantity F)) :
  run_fn c (g_sum2_get c) E0 [("get:addend1", m_out VQ a); ("get:addend2", m_out VQ b)] = m_get E0 VQ (bin2 (qadd c) a b).
Proof. unfold bin2, dat_op. split_inputs; mr_exec. Qed.
Theorem C02_gen_prod2_f (a b : out F) :
  run_fn c (g_prod2_get c) E0 [("get:addend1", m_out VF a); ("get:addend2", m_out VF b)] = m_get E0 VF (bin2 (opf fmul) a b).
Proof. split_inputs; mr_exec. Qed.
Theorem C02_gen_prod2_q (a b : out (@quantity F)) :
  run_fn c (g_prod2_get c) E0 [("get:addend1", m_out VQ a); ("get:addend2", m_out VQ b)] = m_get E0 VQ (bin2 (opq (qmul c)) a b).
Proof. split_inputs; mr_exec. Qed.
Theorem C02_gen_diff_f (a b : out F) :
  run_fn c (g_diff_get c) E0 [("get:minuend", m_out VF a); ("get:subtrahend", m_out VF b)] = m_get E0 VF (binop (opf fsub) a b).
Proof. unfold binop, dat_op_gt. split_inputs; mr_exec. Qed.
Theorem C02_gen_diff_q (a b : out (@quantity F)) :
  run_fn c (g_diff_get c) E0 [("get:minuend", m_out VQ a); ("get:subtrahend", m_out VQ b)] = m_get E0 VQ (binop (qsub c) a b).
Proof. unfold binop, dat_op_gt. split_inputs; mr_exec. Qed.
Theorem C02_gen_quot_f (a b : out F) :
  run_fn c (g_quot_get c) E0 [("get:dividend", m_out VF a); ("get:divisor", m_out VF b)] = m_get E0 VF (binop (opf fdiv) a b).
Proof. unfold binop, dat_op_gt. split_inputs; mr_exec. Qed.
Theorem C02_gen_quot_q (a b : out (@quantity F)) :
  run_fn c (g_quot_get c) E0 [("get:dividend", m_out VQ a); ("get:divisor", m_out VQ b)] = m_get E0 VQ (binop (opq (qdiv c)) a b).
Proof. unfold binop, dat_op_gt. split_inputs; mr_exec. Qed.
Theorem C02_gen_expo (a b : out F) :
  run_fn c (g_expo_get c) E0 [("get:base", m_out VF a); ("get:exponent", m_out VF b)] = m_get E0 VF (binop (opf fpow) a b).
Proof. unfold binop, dat_op_gt. split_inputs; mr_exec. Qed.

(* Latest: any number of inputs; the loop over the inputs computes latest_go (induction over the input list) *)
Definition latest_body : @mexpr F :=
  match g_latest_get c with
  | ELet _ _ (ESeq (EFor _ _ body) _) => body
  | _ => EUnit
  end.
Lemma latest_shape : g_latest_get c = ELet (PVar "output") ENone (ESeq (EFor "i" (EVar "get:inputs") latest_body) (EOk (EVar "output"))).
Proof. reflexivity. Qed.
Lemma latest_loop (ins : list (out (@pay F))) : forall (acc : option (datum (@pay F))) (rest : env),
  flatten (for_loop (eval c latest_body) "i" (map (m_out pv) ins) (("output", m_opt (m_dat pv) acc) :: rest))
  = Ok (ONorm MTup0 (("output", m_opt (m_dat pv) (latest_go ins acc)) :: rest)).
Proof.
  induction ins as [|i r IH]; intros acc rest; [reflexivity|].
  cbn [map for_loop latest_go]. rewrite flatten_tbind.
  assert (Hb : flatten (eval c latest_body (("i", m_out pv i) :: ("output", m_opt (m_dat pv) acc) :: rest))
               = Ok (ONorm MTup0 (("i", m_out pv i) :: ("output", m_opt (m_dat pv)
                      (match i with
                       | OSome g => match acc with Some th => if d_time g >? d_time th then Some g else acc | None => Some g end
                       | _ => acc end)) :: rest))).
  { destruct i as [e| |[t x]]; destruct acc as [[ta xa]|]; mr_exec. }
  rewrite Hb. cbn [skipn]. rewrite IH. destruct i as [e| |g]; [reflexivity|reflexivity|]. destruct acc; reflexivity.
Qed.
Theorem C02_gen_latest (ins : list (out (@pay F))) :
  run_fn c (g_latest_get c) E0 [("get:inputs", MArr (map (m_out pv) ins))] = m_get E0 pv (Ok (latest_n ins)).
Proof.
  pose proof (latest_loop ins None [("self", E0); ("get:inputs", MArr (map (m_out pv) ins))]) as Hl.
  unfold run_fn. rewrite latest_shape.
  remember latest_body as body eqn:Hb. clear Hb.
  rewrite flatten_let. change (flatten (eval c ENone ?en)) with (Ok (ONorm (@MNone F) en)). cbn [after].
  rewrite flatten_seq. erewrite flatten_for by reflexivity.
  cbn [opt_leaf lookup String.eqb Ascii.eqb Bool.eqb flatten]. cbn [m_opt] in Hl. rewrite Hl.
  cbn.
  unfold latest_n. destruct (latest_go ins None) as [[t x]|]; reflexivity.
Qed.
End C02Streams.
Print Assumptions C02_gen_none_to_error.
Print Assumptions C02_gen_none_to_value.
Print Assumptions C02_gen_if.
Print Assumptions C02_gen_ifelse.
Print Assumptions C02_gen_expirer.
Print Assumptions C02_gen_not.
Print Assumptions C02_gen_and.
Print Assumptions C02_gen_or.
Print Assumptions C02_gen_sum2_f.
Print Assumptions C02_gen_sum2_q.
Print Assumptions C02_gen_prod2_f.
Print Assumptions C02_gen_prod2_q.
Print Assumptions C02_gen_diff_f.
Print Assumptions C02_gen_diff_q.
Print Assumptions C02_gen_quot_f.
Print Assumptions C02_gen_quot_q.
Print Assumptions C02_gen_expo.
Print Assumptions C02_gen_latest.
Print Assumptions latest_shape.
Print Assumptions latest_loop.
