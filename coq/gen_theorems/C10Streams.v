From Coq Require Import ZArith List Bool String.
From RRTK Require Import Num.Num Model.Values Model.Prog Model.MiniRust Model.Combinators Model.Streams Proofs.MiniRustEmb.
From Gen Require Import GenStreams.
Import ListNotations.
Local Open Scope string_scope.
Local Open Scope Z_scope.
(* C10: the integral, derivative and to-state streams as written in src/streams/math.rs and src/streams/converters.rs
   (translated on every run) are the model's step / get functions, for every state and every input. *)
Section C10Streams.
Context {F : Type} {NF : Num F}.
Variable c : cfg.

Theorem C10_gen_deriv_update (s : @dint F) (i : out (@quantity F)) :
  run_fn c (g_deriv_update c) (m_dint s) [("get:input", m_out VQ i)] = m_step m_dint (deriv_step c s i).
Proof. unfold deriv_step, dt_q, clear_err. split_inputs; mr_exec. Qed.

Theorem C10_gen_integ_update (s : @dint F) (i : out (@quantity F)) :
  run_fn c (g_integ_update c) (m_dint s) [("get:input", m_out VQ i)] = m_step m_dint (integ_step c s i).
Proof. unfold integ_step, dt_q, clear_err. split_inputs; mr_exec. Qed.

Theorem C10_gen_a2s_update (s : @tstate F) (i : out (@quantity F)) :
  run_fn c (g_a2s_update c) (m_a2s s) [("get:acc", m_out VQ i)] = m_step m_a2s (a2s_step c s i).
Proof. unfold a2s_step, half_sum_dt, dt_q, U_MM_S2. split_inputs; mr_exec. Qed.
Theorem C10_gen_a2s_get (s : @tstate F) :
  run_fn c (g_a2s_get c) (m_a2s s) [] = m_get (m_a2s s) VS (a2s_get c s).
Proof. unfold a2s_get. split_inputs; mr_exec. Qed.

Theorem C10_gen_v2s_update (s : @tstate F) (i : out (@quantity F)) : v2s_wf s ->
  run_fn c (g_v2s_update c) (m_v2s s) [("get:vel", m_out VQ i)] = m_step m_v2s (v2s_step c s i).
Proof.
  intros W. unfold v2s_step, half_sum_dt, dt_q, U_MM_S.
  split_inputs; try (exfalso; apply W; reflexivity); mr_exec.
Qed.
Theorem C10_gen_v2s_get (s : @tstate F) : v2s_wf s ->
  run_fn c (g_v2s_get c) (m_v2s s) [] = m_get (m_v2s s) VS (v2s_get c s).
Proof.
  intros W. unfold v2s_get.
  split_inputs; try (exfalso; apply W; reflexivity); mr_exec.
Qed.

Theorem C10_gen_p2s_update (s : @tstate F) (i : out (@quantity F)) :
  run_fn c (g_p2s_update c) (m_p2s s) [("get:pos", m_out VQ i)] = m_step m_p2s (p2s_step c s i).
Proof. unfold p2s_step, half_sum_dt, dt_q, U_MM. split_inputs; mr_exec. Qed.
Theorem C10_gen_p2s_get (s : @tstate F) :
  run_fn c (g_p2s_get c) (m_p2s s) [] = m_get (m_p2s s) VS (p2s_get c s).
Proof. unfold p2s_get. split_inputs; mr_exec. Qed.
End C10Streams.
Print Assumptions C10_gen_deriv_update.
Print Assumptions C10_gen_integ_update.
Print Assumptions C10_gen_a2s_update.
Print Assumptions C10_gen_a2s_get.
Print Assumptions C10_gen_v2s_update.
Print Assumptions C10_gen_v2s_get.
Print Assumptions C10_gen_p2s_update.
Print Assumptions C10_gen_p2s_get.
