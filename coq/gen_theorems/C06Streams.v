From Coq Require Import ZArith List Bool String.
From RRTK Require Import Num.Num Model.Values Model.Prog Model.MiniRust Model.Combinators Model.Streams Model.MotionProfile Proofs.MiniRustEmb.
From Gen Require Import GenStreams.
Import ListNotations.
Local Open Scope string_scope.
Local Open Scope Z_scope.
(* C06 / C07: the accessors of MotionProfile as written in src/motion_profile.rs - `get_piece`, `get_mode`, `get_acceleration`,
   `get_velocity`, `get_position` and `History::get` (with `get_mode` and the three numeric accessors inlined, the `expect`s as
   panics) - translated on every run, are the model's `mp_piece`, `mp_mode`, `mp_acc`, `mp_vel`, `mp_pos`, `mp_history` for every
   profile value (constructed or not), every query time, every configuration and carrier, i64 overflow panics included.
   (C06Formulas.v proves the three numeric accessors a second time through the formula translator; this file covers the control
   flow of the if-chains and the history in the MiniRust embedding, where early `return`s and `Option`s are first class.) *)
Section C06Streams.
Context {F : Type} {NF : Num F}.
Variable c : cfg.

Definition m_mp (p : @mp F) : @mval F :=
  MRec [("end_command", MV (VC (mp_end p))); ("max_acc", m_q (mp_max_acc p)); ("start_pos", m_q (mp_start_pos p));
        ("start_vel", m_q (mp_start_vel p)); ("t1", m_t (mp_t1 p)); ("t2", m_t (mp_t2 p)); ("t3", m_t (mp_t3 p))].
Definition m_piece (x : piece) : @mval F :=
  MVariant (match x with
            | BeforeStart => "MotionProfilePiece::BeforeStart" | InitialAcceleration => "MotionProfilePiece::InitialAcceleration"
            | ConstantVelocity => "MotionProfilePiece::ConstantVelocity" | EndAcceleration => "MotionProfilePiece::EndAcceleration"
            | Complete => "MotionProfilePiece::Complete" end).
Definition m_res {A} (f : A -> @mval F) (self : @mval F) (r : res A) : option (res (@mval F * @mval F)) :=
  Some (match r with Ok a => Ok (self, f a) | Panic => Panic end).


Theorem C06_gen_get_piece (p : @mp F) (t : Z) :
  run_fn c (g_mp_get_piece c) (m_mp p) [("t", m_t t)] = Some (Ok (m_mp p, m_piece (mp_piece p t))).
Proof. destruct p. unfold mp_piece. mr_exec2. Qed.

Theorem C06_gen_get_mode (p : @mp F) (t : Z) :
  run_fn c (g_mp_get_mode c) (m_mp p) [("t", m_t t)] = Some (Ok (m_mp p, m_opt (fun d => MV (VPD d)) (mp_mode p t))).
Proof. destruct p. unfold mp_mode. mr_exec2. Qed.

Theorem C06_gen_mp_get_acceleration (p : @mp F) (t : Z) :
  run_fn c (g_mp_get_acceleration c) (m_mp p) [("t", m_t t)] = Some (Ok (m_mp p, m_opt m_q (mp_acc c p t))).
Proof. destruct p. unfold mp_acc. mr_exec2. Qed.

Theorem C06_gen_mp_get_velocity (p : @mp F) (t : Z) :
  run_fn c (g_mp_get_velocity c) (m_mp p) [("t", m_t t)] = m_res (m_opt m_q) (m_mp p) (mp_vel c p t).
Proof. destruct p. unfold mp_vel. mr_exec2. Qed.

Theorem C06_gen_mp_get_position (p : @mp F) (t : Z) :
  run_fn c (g_mp_get_position c) (m_mp p) [("t", m_t t)] = m_res (m_opt m_q) (m_mp p) (mp_pos c p t).
Proof. destruct p. unfold mp_pos, t1_term. mr_exec2. Qed.

Theorem C06_gen_history_get (p : @mp F) (t : Z) :
  run_fn c (g_mp_history_get c) (m_mp p) [("time", m_t t)] = m_res (m_opt (m_dat VC)) (m_mp p) (mp_history c p t).
Proof.
  (* the kind of the end command is analysed first: the body matches on it *)
  destruct p as [sp sv t1 t2 t3 ma [k v]]; destruct k; unfold mp_history, mp_mode, mp_acc, mp_vel, mp_pos, t1_term; mr_exec2.
Qed.
End C06Streams.
Print Assumptions C06_gen_get_piece.
Print Assumptions C06_gen_get_mode.
Print Assumptions C06_gen_mp_get_acceleration.
Print Assumptions C06_gen_mp_get_velocity.
Print Assumptions C06_gen_mp_get_position.
Print Assumptions C06_gen_history_get.
