(* Theorems over the signature tables regenerated from the source on every run. *)
From Coq Require Import List String Bool.
From Gen Require Import GenAccessors.
Import ListNotations.
Local Open Scope string_scope.

(* every Reference / ReferenceUnsafe constructor that takes a raw pointer is an `unsafe fn` *)
Definition ctor_ok (c : string * string * bool * bool) : bool :=
  match c with (_, _, raw, uns) => implb raw uns end.
Theorem C16_raw_pointer_constructors_unsafe : forallb ctor_ok ref_ctors = true.
Proof. vm_compute. reflexivity. Qed.
Print Assumptions C16_raw_pointer_constructors_unsafe.

(* the accessors that return a reference with the struct's own lifetime parameter (rather than the
   elided lifetime of &self) are exactly the recorded known findings: a new one of that shape is new *)
Definition known : list (string * string) :=
  [("Invert", "get_terminal_1"); ("Invert", "get_terminal_2"); ("GearTrain", "get_terminal_1"); ("GearTrain", "get_terminal_2");
   ("Axle", "get_terminal"); ("Differential", "get_side_1"); ("Differential", "get_side_2"); ("Differential", "get_sum");
   ("ActuatorWrapper", "get_terminal"); ("GetterStateDeviceWrapper", "get_terminal"); ("PIDWrapper", "get_terminal")].
Definition is_known (t n : string) : bool := existsb (fun k => String.eqb (fst k) t && String.eqb (snd k) n) known.
Definition acc_ok (a : string * string * bool * bool) : bool :=
  match a with (t, n, named, _) => implb named (is_known t n) end.
Theorem C16_named_lifetime_accessors_are_the_known_ones : forallb acc_ok accessors = true.
Proof. vm_compute. reflexivity. Qed.
Print Assumptions C16_named_lifetime_accessors_are_the_known_ones.
