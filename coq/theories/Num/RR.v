(* Exact-arithmetic carrier: Coq's reals.  Not executable; used for the R-tier theorems
   (what the same expression tree computes when rounding is removed). *)
From Coq Require Import ZArith Reals Bool.
From Flocq Require Import Core.Raux.
From RRTK Require Import Num.Num.
Local Open Scope R_scope.

Definition r_to_i64 (x : R) : Z :=
  Z.max (-9223372036854775808) (Z.min 9223372036854775807 (Ztrunc x)).
Definition r_pow (b d : R) : R :=
  if Req_bool b 0 then (if Req_bool d 0 then 1 else 0) else Rpower b d.

#[export] Instance RR : Num R := {|
  fadd := Rplus; fsub := Rminus; fmul := Rmult; fdiv := Rdiv;
  fneg := Ropp; fabs_std := Rabs;
  f_of_Z := IZR; f_to_i64 := r_to_i64; fhalf := / 2;
  feqb := Req_bool; fltb := Rlt_bool; fleb := Rle_bool;
  fpow := r_pow |}.
