(* Numeric carrier of the rrtk model.  Every model function is polymorphic in a [Num F];
   the two instances are binary32 (B32.v, executable, bit-exact against Rust f32) and the
   Coq reals (RR.v, for exact-arithmetic theorems). *)
From Coq Require Import ZArith Bool.

Class Num (F : Type) := {
  fadd : F -> F -> F;
  fsub : F -> F -> F;
  fmul : F -> F -> F;
  fdiv : F -> F -> F;
  fneg : F -> F;
  fabs_std : F -> F;            (* f32::abs : clears the sign bit *)
  f_of_Z : Z -> F;              (* Rust [i64 as f32] / [u16 as f32] / small integer literals *)
  f_to_i64 : F -> Z;            (* Rust [f32 as i64]: truncate, saturate, NaN -> 0 *)
  fhalf : F;                    (* the literal 0.5 *)
  feqb : F -> F -> bool;        (* IEEE ==, false on NaN *)
  fltb : F -> F -> bool;        (* IEEE <  *)
  fleb : F -> F -> bool;        (* IEEE <= *)
  fpow : F -> F -> F            (* ORACLE: powf of std / libm / micromath *)
}.

Definition fgeb {F} `{Num F} (a b : F) : bool := fleb b a.
Definition fgtb {F} `{Num F} (a b : F) : bool := fltb b a.
Definition fzero {F} `{Num F} : F := f_of_Z 0.
Definition fone {F} `{Num F} : F := f_of_Z 1.
Definition ftwo {F} `{Num F} : F := f_of_Z 2.
Definition fthree {F} `{Num F} : F := f_of_Z 3.
Definition f1e9 {F} `{Num F} : F := f_of_Z 1000000000.
(* no_std Quantity::abs : if v >= 0.0 { v } else { -v } *)
Definition fabs_nostd {F} `{Num F} (v : F) : F := if fgeb v fzero then v else fneg v.
