(* binary32 carrier: Flocq's BinarySingleNaN at (24,128), round-to-nearest-even. *)
From Coq Require Import ZArith Bool.
From Flocq Require Import Core.Core IEEE754.BinarySingleNaN IEEE754.Binary IEEE754.Bits.
From RRTK Require Import Num.Num.
Local Open Scope Z_scope.

#[export] Instance Hprec32 : FLX.Prec_gt_0 24. Proof. reflexivity. Qed.
#[export] Instance Hmax32 : BinarySingleNaN.Prec_lt_emax 24 128. Proof. reflexivity. Qed.

Definition f32 := BinarySingleNaN.binary_float 24 128.

Definition b32_add : f32 -> f32 -> f32 := BinarySingleNaN.Bplus mode_NE.
Definition b32_sub : f32 -> f32 -> f32 := BinarySingleNaN.Bminus mode_NE.
Definition b32_mul : f32 -> f32 -> f32 := BinarySingleNaN.Bmult mode_NE.
Definition b32_div : f32 -> f32 -> f32 := BinarySingleNaN.Bdiv mode_NE.
Definition b32_neg : f32 -> f32 := BinarySingleNaN.Bopp.
Definition b32_abs : f32 -> f32 := BinarySingleNaN.Babs.
Definition b32_of_Z (n : Z) : f32 := BinarySingleNaN.binary_normalize 24 128 _ _ mode_NE n 0 false.

Definition i64_min : Z := -9223372036854775808.
Definition i64_max : Z := 9223372036854775807.

Definition b32_to_i64 (x : f32) : Z :=
  match x with
  | BinarySingleNaN.B754_nan => 0
  | BinarySingleNaN.B754_infinity s => if s then i64_min else i64_max
  | _ => Z.max i64_min (Z.min i64_max (BinarySingleNaN.Btrunc x))
  end.

(* bit patterns in and out *)
Definition b32_of_bits (z : Z) : f32 := Binary.B2BSN 24 128 (Bits.b32_of_bits z).

Definition b32_to_bits (x : f32) : Z :=
  match x with
  | BinarySingleNaN.B754_zero s => if s then 2147483648 else 0
  | BinarySingleNaN.B754_infinity s => if s then 4286578688 else 2139095040
  | BinarySingleNaN.B754_nan => 2143289344
  | BinarySingleNaN.B754_finite s m e _ =>
      (if s then 2147483648 else 0) +
      (if Z.pos m <? 8388608 then Z.pos m else (e + 150) * 8388608 + (Z.pos m - 8388608))
  end.

Definition b32_half : f32 := b32_of_bits 1056964608.   (* 0x3f000000 = 0.5 *)

(* powf is an oracle: a table of (base bits, exponent bits, result bits) supplied by the
   implementation's own build; missing entries yield NaN so that a gap is loud. *)
Fixpoint pow_lookup (tbl : list (Z * Z * Z)) (b e : Z) : option Z :=
  match tbl with
  | nil => None
  | cons (b', e', r) rest => if (b =? b') && (e =? e') then Some r else pow_lookup rest b e
  end.

Definition b32_pow (tbl : list (Z * Z * Z)) (b e : f32) : f32 :=
  match pow_lookup tbl (b32_to_bits b) (b32_to_bits e) with
  | Some r => b32_of_bits r
  | None => BinarySingleNaN.B754_nan
  end.

Definition B32_with_pow (tbl : list (Z * Z * Z)) : Num f32 := {|
  fadd := b32_add; fsub := b32_sub; fmul := b32_mul; fdiv := b32_div;
  fneg := b32_neg; fabs_std := b32_abs;
  f_of_Z := b32_of_Z; f_to_i64 := b32_to_i64; fhalf := b32_half;
  feqb := BinarySingleNaN.Beqb; fltb := BinarySingleNaN.Bltb; fleb := BinarySingleNaN.Bleb;
  fpow := b32_pow tbl |}.

#[export] Instance B32 : Num f32 := B32_with_pow nil.
