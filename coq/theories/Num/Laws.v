(* Laws of the numeric carrier that generic theorems may assume (as a class constraint, never as
   an axiom).  Proved for the reals here and for binary32 in Proofs/B32Laws.v. *)
From Coq Require Import ZArith Reals.
From RRTK Require Import Num.Num Num.RR.

Class NumLaws (F : Type) {NF : Num F} := {
  fadd_comm : forall x y : F, fadd x y = fadd y x;
  fmul_comm : forall x y : F, fmul x y = fmul y x
}.

#[export] Instance RR_laws : NumLaws R := {| fadd_comm := Rplus_comm; fmul_comm := Rmult_comm |}.
