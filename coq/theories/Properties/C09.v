(* C09 — Terminal links always form a symmetric matching; connect/disconnect never panic. *)
From Coq Require Import ZArith Bool List Arith.
From RRTK Require Import Num.Num Num.Laws Model.Values Model.World Proofs.WorldProofs.
Import ListNotations.

Section C09.
Context {F : Type} {NF : Num F}.
Notation world := (@world F).

(* after ANY sequence of connect(i,j), i <> j, and disconnect(i) on ANY number of terminals, every
   terminal is linked to at most one other (links are a function), in range, and the link is mutual *)
Theorem C09_wf_reachable n (ops : list lop) : Wf (fold_left (@lstep F) ops (repeat term_new n)).
Proof. exact (Wf_reachable n ops). Qed.

Theorem C09_connect_effect (w : world) i j :
  Wf w -> i <> j -> i < length w -> j < length w ->
  exists w', connect w i j = Ok w' /\ Wf w' /\ length w' = length w /\
    oth w' i = Some j /\ oth w' j = Some i /\
    (forall k, k <> i -> k <> j -> oth w' k = if (match oth w i with Some a => Nat.eqb k a | None => false end)
                                                 || (match oth w j with Some b => Nat.eqb k b | None => false end)
                                              then None else oth w k) /\
    (forall k, t_state (wget w' k) = t_state (wget w k) /\ t_cmd (wget w' k) = t_cmd (wget w k)).
Proof. exact (connect_spec w i j). Qed.

Theorem C09_connect_never_panics n (ops : list lop) i j :
  let w := fold_left (@lstep F) ops (repeat term_new n) in
  i <> j -> i < length w -> j < length w -> connect w i j <> Panic.
Proof. exact (connect_never_panics n ops i j). Qed.

Theorem C09_disconnect_effect (w : world) i :
  Wf w ->
  exists w', disconnect w i = Ok w' /\ length w' = length w /\
    (forall k, oth w' k = if Nat.eqb k i then None
                          else match oth w i with Some a => if Nat.eqb k a then None else oth w k | None => oth w k end) /\
    (forall k, t_state (wget w' k) = t_state (wget w k) /\ t_cmd (wget w' k) = t_cmd (wget w k)).
Proof. exact (disconnect_spec w i). Qed.

(* documentation of the repaired defect: the old borrow order panicked on an already connected pair *)
Theorem C09_old_connect_panics (w : world) i j : i <> j -> oth w i = Some j -> connect_old w i j = Panic.
Proof. exact (connect_old_panics w i j). Qed.

(* reads: mean of own and partner's states with the newest time (or whichever exists); the newer
   command, own on ties *)
Theorem C09_reads (w : world) i :
  state_get w i = match t_state (wget w i), partner_state w i with
                  | None, None => None | Some a, None => Some a | None, Some b => Some b
                  | Some a, Some b => Some (mkDatum (Z.max (d_time a) (d_time b))
                                       (s_divf (s_add (d_val a) (d_val b)) ftwo)) end /\
  cmd_get w i = match t_cmd (wget w i), partner_cmd w i with
                | Some a, Some b => if (d_time b >? d_time a)%Z then Some b else Some a
                | Some a, None => Some a | None, b => b end.
Proof. exact (reads_spec w i). Qed.
Theorem C09_combined_read (w : world) i :
  data_get w i =
  match state_get w i, cmd_get w i with
  | Some s, cm => Some (mkDatum (d_time s) {| td_time := d_time s; td_cmd := option_map (@d_val _) cm; td_state := Some (d_val s) |})
  | None, Some cd => Some (mkDatum (d_time cd) {| td_time := d_time cd; td_cmd := Some (d_val cd); td_state := None |})
  | None, None => None
  end.
Proof. unfold data_get. destruct (state_get w i), (cmd_get w i); reflexivity. Qed.
(* two connected terminals always read the same state (given commutative addition: binary32, reals) *)
Theorem C09_connected_same_state {L : @NumLaws F NF} (w : world) i j :
  Wf w -> oth w i = Some j -> state_get w i = state_get w j.
Proof. exact (connected_same_state w i j). Qed.
End C09.

Print Assumptions C09_wf_reachable.
Print Assumptions C09_connect_effect.
Print Assumptions C09_connect_never_panics.
Print Assumptions C09_disconnect_effect.
Print Assumptions C09_old_connect_panics.
Print Assumptions C09_reads.
Print Assumptions C09_combined_read.
Print Assumptions C09_connected_same_state.
