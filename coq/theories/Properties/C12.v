(* C12 — EWMA and moving average are time-weighted convex averages and never panic. *)
From Coq Require Import ZArith Bool List Reals.
From Flocq Require Import Core.Core IEEE754.Binary IEEE754.BinarySingleNaN.
From RRTK Require Import Num.Num Num.B32 Model.Values Model.Streams Proofs.StreamProofs Proofs.MaProofs Proofs.EwmaB32.
Import ListNotations.
Local Open Scope Z_scope.

(* [G, integers] for a positive window, after pushing the new sample and trimming, the queue still ends
   with the new sample (so indexing the front never panics, whatever the order of timestamps), and the
   weights sum to exactly the window length *)
Theorem C12_ma_weights {T} (q : list (datum T)) (o : datum T) w :
  w > 0 ->
  exists q', ma_trim (q ++ [o]) (d_time o - w) = q' ++ [o] /\
             fold_right Z.add 0 (weights (q' ++ [o]) (d_time o - w)) = w.
Proof. exact (ma_weights_sum_window q o w). Qed.
Theorem C12_ma_queue_never_empty {T} (q : list (datum T)) (o : datum T) w :
  w > 0 -> ma_trim (q ++ [o]) (d_time o - w) <> [].
Proof. exact (ma_trim_nonempty q o w). Qed.
(* non-negative for non-decreasing timestamps (the first kept sample is newer than now - window) *)
Theorem C12_ma_weights_nonneg {T} (q : list (datum T)) start :
  nondecr_from start q -> Forall (fun w => 0 <= w) (weights q start).
Proof. exact (weights_nonneg q start). Qed.
Theorem C12_ma_weights_are_the_models {T} (q : list (datum T)) start ws :
  ma_weights q start = Ok ws -> ws = weights q start.
Proof. exact (ma_weights_ok q start ws). Qed.
Theorem C12_ma_trim_head_newer {T} (q : list (datum T)) bound d r :
  ma_trim q bound = d :: r -> d_time d > bound.
Proof. exact (ma_trim_head_newer q bound d r). Qed.

Section G.
Context {F : Type} {NF : Num F}.
Variable c : cfg.
(* [G] a present value always has its update time, so the expect never fires: no EWMA update panics
   (when neither the i64 time difference nor the payload arithmetic does) *)
Theorem C12_ewma_invariant {T} (mix : T -> T -> F -> res T) s i s' u :
  ewma_inv s -> ewma_step c mix s i = Ok (s', u) -> ewma_inv s'.
Proof. exact (ewma_inv_step c mix s i s' u). Qed.
Theorem C12_ewma_no_panic {T} (mix : T -> T -> F -> res T) s d :
  ewma_inv s -> (forall a b, dt_f c a b <> Panic) -> (forall a b l, mix a b l <> Panic) ->
  ewma_step c mix s (OSome d) <> Panic.
Proof. exact (ewma_expect_never_fires c mix s d). Qed.
(* [G] the formulas: prev*(1-L) + new*L with L = 1 - pow(1 - smoothing, dt); (sum v_i*w_i)/window *)
Theorem C12_formulas (p n lambda : F) (q : list (datum F)) (ws : list Z) (win : Z) :
  mix_f p n lambda = Ok (fadd (fmul p (fsub fone lambda)) (fmul n lambda)) /\
  ma_acc_f c q ws win = Ok (fdiv (ma_sum_f c q ws fzero) (qv (q_of_time c win))).
Proof. exact (conj eq_refl eq_refl). Qed.
End G.

(* [B] the first sample after a start or an error is returned bit-identically (finite samples),
   assuming only that the power function returns 1 for exponent 0 *)
Theorem C12_ewma_first_sample_exact tbl c (sm : f32) (s : @ewma f32 f32) (d : datum f32) :
  ew_s s = sm ->
  (ew_val s = ONone \/ exists e, ew_val s = OErr e) ->
  BinarySingleNaN.is_finite (d_val d) = true ->
  b32_pow tbl (b32_sub one32 sm) (B754_zero false) = one32 ->
  exists s', @ewma_step f32 (B32_with_pow tbl) c f32 (@mix_f f32 (B32_with_pow tbl)) s (OSome d) = Ok (s', UOk) /\ ew_val s' = OSome d.
Proof. exact (ewma_first_sample_exact tbl c sm s d). Qed.

Print Assumptions C12_ma_weights.
Print Assumptions C12_ma_queue_never_empty.
Print Assumptions C12_ma_weights_nonneg.
Print Assumptions C12_ma_weights_are_the_models.
Print Assumptions C12_ma_trim_head_newer.
Print Assumptions C12_ewma_invariant.
Print Assumptions C12_ewma_no_panic.
Print Assumptions C12_formulas.
Print Assumptions C12_ewma_first_sample_exact.
