(* C16 — No safe use of the API reads uninitialised memory, goes out of bounds or dangles.
   First sentence: slot-level model, proved for every arity and every absent/present pattern.
   Second sentence (lifetimes): NOT decidable by an executable model of the code; what is stated here is
   a three-instruction abstract region model of the rule (trusted, not a proof about rustc), the
   signature-table theorems are in gen_theorems/C16Signatures.v, and the compile probes / Miri runs
   in tools/props/c16.py report - they do not prove. *)
From Coq Require Import ZArith Bool List Arith.
From RRTK Require Import Num.Num Model.Values Model.Combinators Model.Slots Proofs.CombProofs Proofs.SlotProofs.
Import ListNotations.

(* n-ary sum / product at slot level = the list-level combinator: never UB, never out of range, for
   every arity >= 1 and every pattern of error / absent / present inputs *)
Theorem C16_nary_slots_safe {T} (op : T -> T -> res T) (ins : list (out T)) :
  1 <= length ins -> nary_slots op ins = of_res (nary op ins).
Proof. exact (nary_slots_refines op ins). Qed.
Theorem C16_nary_slots_no_ub {T} (op : T -> T -> res T) (ins : list (out T)) :
  1 <= length ins -> nary_slots op ins <> UUB /\ (nary_slots op ins = UPanic -> nary op ins = Panic).
Proof. exact (nary_slots_safe op ins). Qed.
(* terminal state read, all four own/partner combinations *)
Theorem C16_term_state_slots_safe {St} (mean : St -> St -> St) (own partner : option St) :
  term_state_slots mean own partner =
  UOk (match own, partner with
       | None, None => None | Some a, None => Some a | None, Some b => Some b | Some a, Some b => Some (mean a b) end).
Proof. exact (term_state_slots_safe mean own partner). Qed.
(* axle constructor for every size *)
Theorem C16_axle_new_slots_safe n : axle_new_slots n = UOk (repeat tt n).
Proof. exact (axle_new_slots_safe n). Qed.

(* ---- abstract region model of the lifetime rule (documentation of the known finding) ---- *)
Inductive sig := Elided | Named.              (* return lifetime of the accessor: that of &self, or the struct's 'a *)
Inductive instr := Take | DropD | UseR.       (* r = d.accessor(); drop(d); use(r) *)
(* borrow checker: with the elided lifetime r borrows d, so d may not be dropped while r is used later *)
Fixpoint uses_later (p : list instr) : bool := match p with [] => false | UseR :: _ => true | _ :: r => uses_later r end.
Fixpoint accepted (s : sig) (taken dropped : bool) (p : list instr) : bool :=
  match p with
  | [] => true
  | Take :: r => negb dropped && accepted s true dropped r            (* d is moved out by drop *)
  | DropD :: r => (match s with Elided => negb (taken && uses_later r) | Named => true end) && accepted s taken true r
  | UseR :: r => accepted s taken dropped r
  end.
Fixpoint dangles (taken dropped : bool) (p : list instr) : bool :=
  match p with
  | [] => false
  | Take :: r => dangles true dropped r
  | DropD :: r => dangles taken true r
  | UseR :: r => (taken && dropped) || dangles taken dropped r
  end.
(* with the elided lifetime no accepted program dangles (any program over the three instructions) *)
Theorem C16_elided_lifetime_sound (p : list instr) : forall taken dropped,
  accepted Elided taken dropped p = true -> (taken && dropped = true -> uses_later p = false) ->
  dangles taken dropped p = false.
Proof.
  induction p as [|i r IH]; intros taken dropped Ha Hi; [reflexivity|].
  destruct i; cbn [accepted dangles uses_later] in *.
  - apply andb_true_iff in Ha. destruct Ha as [Hd Ha]. apply negb_true_iff in Hd. subst dropped.
    apply IH; [exact Ha|]. intros H. rewrite andb_false_r in H. discriminate.
  - apply andb_true_iff in Ha. destruct Ha as [Hn Ha]. apply negb_true_iff in Hn.
    apply IH; [exact Ha|]. intros H. rewrite andb_true_r in H. subst taken. exact Hn.
  - destruct (taken && dropped) eqn:E; [specialize (Hi eq_refl); discriminate|].
    cbn [orb]. apply IH; [exact Ha|]. intros H. rewrite E in H. discriminate.
Qed.
(* with the struct's named lifetime an accepted program dangles: the known finding *)
Theorem C16_named_lifetime_accessor_refuted :
  accepted Named false false [Take; DropD; UseR] = true /\ dangles false false [Take; DropD; UseR] = true /\
  accepted Elided false false [Take; DropD; UseR] = false.
Proof. repeat split. Qed.

Print Assumptions C16_nary_slots_safe.
Print Assumptions C16_nary_slots_no_ub.
Print Assumptions C16_term_state_slots_safe.
Print Assumptions C16_axle_new_slots_safe.
Print Assumptions C16_elided_lifetime_sound.
Print Assumptions C16_named_lifetime_accessor_refuted.
