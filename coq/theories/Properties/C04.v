(* C04 — PIDControllerStream output equals the textbook discrete PID of its input history. *)
From Coq Require Import ZArith Bool List Reals.
From RRTK Require Import Num.Num Num.RR Model.Values Model.Streams Proofs.PidProofs Proofs.PidReal.
Import ListNotations.
Local Open Scope Z_scope.

Section G.
Context {F : Type} {NF : Num F}.
Variable c : cfg.
Variable sp : F.
Variable k : @kvals F.

(* [G] for every carrier (so for the bit-exact binary32 model), every history of present / absent /
   error events of any length on which no i64 time difference overflows: the output of the state
   machine is the function [pid_spec] of the history: kp*e + ki*I + kd*D stamped with the newest
   sample's time, I the trapezoid fold and D the backward difference over the samples since the last
   absent or errored input, I = 0+0 and D = 0 on the first such sample; absent after an absent
   input; the error after an errored input. *)
Theorem C04_refines_spec (h : list (out F)) (s : pid) :
  pid_run c (pid_init sp k) h = Ok s -> pid_get s = pid_spec sp k h.
Proof. exact (pid_refines_spec c sp k h s). Qed.

(* the spec, unfolded for reference: [recent] = errors of the samples since the last reset,
   [integral] / [derivative] / [law] as in the statement *)
Theorem C04_spec_shape (d : datum F) (r : list (out F)) :
  spec_r sp k (OSome d :: r) =
    OSome (mkDatum (d_time d)
      (fadd (fadd (fmul (kp k) (fsub sp (d_val d))) (fmul (ki k) (integral (recent sp (OSome d :: r)))))
            (fmul (kd k) (derivative (recent sp (OSome d :: r)))))) /\
  spec_r sp k (ONone :: r) = ONone /\ (forall e, spec_r sp k (OErr e :: r) = OErr e) /\
  (forall t e, integral [(t, e)] = fadd fzero fzero /\ derivative [(t, e)] = fzero) /\
  (forall t e tp ep l, integral ((t, e) :: (tp, ep) :: l) =
        fadd (integral ((tp, ep) :: l)) (fdiv (fmul (fdiv (f_of_Z (t - tp)) f1e9) (fadd ep e)) ftwo) /\
      derivative ((t, e) :: (tp, ep) :: l) = fdiv (fsub e ep) (fdiv (f_of_Z (t - tp)) f1e9)).
Proof. repeat split. Qed.

Theorem C04_update_result (s : pid) (i : out F) (s' : pid) (u : upd) :
  pid_step c s i = Ok (s', u) -> match i with OErr e => u = UErr e | _ => u = UOk end.
Proof. exact (pid_update_result c s i s' u). Qed.

(* the debug_assert_eq!(int_error, 0.0) of the first-sample branch holds in every reachable state *)
Theorem C04_debug_assert_never_fires (hr : list (out F)) (s : pid) :
  run_r c sp k hr = Ok s -> pid_prev s = None -> pid_int s = fzero.
Proof. exact (pid_assert_never_fires c sp k hr s). Qed.

(* shifting all timestamps by a constant shifts the output stamp and nothing else *)
Theorem C04_shift_invariant (d : Z) (h : list (out F)) :
  pid_spec sp k (map (shift_out d) h) = shift_out d (pid_spec sp k h).
Proof. exact (pid_spec_shift sp k d h). Qed.
End G.

(* [R] exact arithmetic: the spec's I is the textbook trapezoid sum in seconds, D the difference
   quotient, and the controller is linear (hence scales exactly with any factor, powers of two
   included; for binary32 power-of-two scaling is exact absent overflow/underflow and is measured) *)
Theorem C04_textbook (l : list (Z * R)) : integral l = trap l.
Proof. exact (integral_trap l). Qed.
Theorem C04_linear_R (lam sp : R) (k : @kvals R) (h : list (out R)) :
  pid_spec (lam * sp)%R k (map (scale_out lam) h) = scale_out lam (pid_spec sp k h).
Proof. exact (pid_linear lam sp k h). Qed.

Example C04_nonvacuous :
  pid_spec (F := R) 5%R {| kp := 1%R; ki := 0%R; kd := 0%R |} [OSome (mkDatum 0 1%R); ONone; OSome (mkDatum 7 2%R)]
  = OSome (mkDatum 7 (1 * (5 - 2) + 0 * (0 + 0) + 0 * 0)%R).
Proof. reflexivity. Qed.

Print Assumptions C04_refines_spec.
Print Assumptions C04_spec_shape.
Print Assumptions C04_update_result.
Print Assumptions C04_debug_assert_never_fires.
Print Assumptions C04_shift_invariant.
Print Assumptions C04_textbook.
Print Assumptions C04_linear_R.
Print Assumptions C04_nonvacuous.
