(* C06 — Motion profile accessors agree with each other at every instant.
   G tier: for EVERY profile value (arbitrary t1 t2 t3, not only constructed ones) and every t : Z.
   The constructor's ordering 0 <= t1 <= t2 <= t3 on binary32 is in C06B.v. *)
From Coq Require Import ZArith Bool List.
From RRTK Require Import Num.Num Model.Values Model.MotionProfile Proofs.MpProofs.
Local Open Scope Z_scope.

Section C06.
Context {F : Type} {NF : Num F}.
Variable c : cfg.
Notation mp := (@mp F).

Theorem C06_before_start_iff (p : mp) t :
  (mp_piece p t = BeforeStart <-> t < 0) /\ (mp_mode p t = None <-> t < 0) /\ (mp_acc c p t = None <-> t < 0) /\
  (t < 0 -> mp_vel c p t = Ok None /\ mp_pos c p t = Ok None /\ mp_history c p t = Ok None).
Proof. exact (before_start_iff c p t). Qed.

Theorem C06_piece_monotone (p : mp) t t' : t <= t' -> rank (mp_piece p t) <= rank (mp_piece p t').
Proof. exact (piece_monotone p t t'). Qed.

Theorem C06_mode_of_piece (p : mp) t :
  mp_mode p t = match mp_piece p t with
                | BeforeStart => None
                | InitialAcceleration | EndAcceleration => Some Acceleration
                | ConstantVelocity => Some Velocity
                | Complete => Some (c_kind (mp_end p))
                end.
Proof. exact (mode_of_piece p t). Qed.

Theorem C06_presence (p : mp) t :
  match mp_piece p t with
  | InitialAcceleration | ConstantVelocity | EndAcceleration => mp_vel c p t <> Ok None /\ mp_pos c p t <> Ok None
  | Complete => mp_vel c p t = Ok (c_get_vel c (mp_end p)) /\ mp_pos c p t = Ok (c_get_pos c (mp_end p))
  | BeforeStart => mp_vel c p t = Ok None /\ mp_pos c p t = Ok None
  end.
Proof. exact (presence c p t). Qed.
Theorem C06_end_command_fixes (x : @command F) :
  (c_kind x = Position -> c_get_pos c x <> None /\ c_get_vel c x <> None) /\
  (c_kind x = Velocity -> c_get_pos c x = None /\ c_get_vel c x <> None) /\
  (c_kind x = Acceleration -> c_get_pos c x = None /\ c_get_vel c x = None).
Proof. exact (end_presence c x). Qed.

(* the history is stamped t, has the mode's kind, and its value IS the matching accessor's value
   (Leibniz equality, hence bit-identical); it never hits an `expect` *)
Theorem C06_history_consistent (p : mp) t :
  mp_history c p t =
  match mp_mode p t with
  | None => Ok None
  | Some m => match accessor c p t m with
              | Ok (Some q) => Ok (Some (mkDatum t (cnew m (qv q))))
              | _ => Panic
              end
  end.
Proof. exact (history_consistent c p t). Qed.
Theorem C06_history_no_expect (p : mp) t m :
  mp_mode p t = Some m -> accessor c p t m <> Panic ->
  exists q, accessor c p t m = Ok (Some q) /\ mp_history c p t = Ok (Some (mkDatum t (cnew m (qv q)))).
Proof. exact (history_never_expect_panics c p t m). Qed.

Theorem C06_after_completion (p : mp) t :
  mp_piece p t = Complete -> mp_history c p t = Ok (Some (mkDatum t (mp_end p))).
Proof. exact (after_completion c p t). Qed.
Theorem C06_complete_iff (p : mp) t :
  0 <= mp_t1 p <= mp_t2 p -> mp_t2 p <= mp_t3 p -> (mp_piece p t = Complete <-> mp_t3 p <= t).
Proof. exact (complete_iff_ordered p t). Qed.
(* the end command is the end state's lowest non-zero derivative: by construction *)
Theorem C06_end_command s0 s1 mv ma p : mp_new c s0 s1 mv ma = Ok p -> mp_end p = c_of_state s1.
Proof.
  unfold mp_new. repeat (match goal with |- context [bind ?x _] => destruct x; cbn [bind]; [|discriminate] end).
  intros [= <-]. reflexivity.
Qed.
End C06.

Print Assumptions C06_before_start_iff.
Print Assumptions C06_piece_monotone.
Print Assumptions C06_mode_of_piece.
Print Assumptions C06_presence.
Print Assumptions C06_end_command_fixes.
Print Assumptions C06_history_consistent.
Print Assumptions C06_history_no_expect.
Print Assumptions C06_after_completion.
Print Assumptions C06_complete_iff.
Print Assumptions C06_end_command.
