(* C04, continued: exact power-of-two scaling on binary32 (Proofs/ScaleB32.v) *)
From Coq Require Import ZArith Bool List Arith Reals Lia.
From RRTK Require Import Num.Num Num.RR Num.B32 Num.Laws Model.Values Model.Prog Model.Combinators Model.Streams Model.Assembly Model.MotionProfile Model.World Model.Devices Proofs.ScaleB32.
Import ListNotations.
Local Open Scope Z_scope.

Theorem C04_safe_range_meaning : forall v : f32,
       safe v = true ->
       @BinarySingleNaN.is_finite 24 128 v = true /\
       (@BinarySingleNaN.B2R 24 128 v = 0%R \/
        (Raux.bpow Zaux.radix2 (-63) <= Rabs (@BinarySingleNaN.B2R 24 128 v) < Raux.bpow Zaux.radix2 63)%R).
Proof. exact (@safe_spec). Qed.

Theorem C04_pow2_is_power_of_two : forall k : Z, -149 <= k <= 127 -> is_pow2 (pow2 k) k.
Proof. exact (@pow2_is_pow2). Qed.

Theorem C04_scaling_multiply_exact_B32 : forall (tbl : list (Z * Z * Z)) (k : Z) (s x : f32),
       krange k ->
       is_pow2 s k ->
       safe x = true ->
       @BinarySingleNaN.is_finite 24 128 (@fmul f32 (B32_with_pow tbl) s x) = true /\
       @BinarySingleNaN.B2R 24 128 (@fmul f32 (B32_with_pow tbl) s x) =
       (Raux.bpow Zaux.radix2 k * @BinarySingleNaN.B2R 24 128 x)%R /\
       @BinarySingleNaN.Bsign 24 128 (@fmul f32 (B32_with_pow tbl) s x) = @BinarySingleNaN.Bsign 24 128 x.
Proof. exact (@fmul_pow2_exact). Qed.

Theorem C04_add_scales_B32 : forall (tbl : list (Z * Z * Z)) (k : Z) (s x y : f32),
       krange k ->
       is_pow2 s k ->
       safe x = true ->
       safe y = true ->
       safe (@fadd f32 (B32_with_pow tbl) x y) = true ->
       @fadd f32 (B32_with_pow tbl) (@fmul f32 (B32_with_pow tbl) s x) (@fmul f32 (B32_with_pow tbl) s y) =
       @fmul f32 (B32_with_pow tbl) s (@fadd f32 (B32_with_pow tbl) x y).
Proof. exact (@fadd_scale). Qed.

Theorem C04_sub_scales_B32 : forall (tbl : list (Z * Z * Z)) (k : Z) (s x y : f32),
       krange k ->
       is_pow2 s k ->
       safe x = true ->
       safe y = true ->
       safe (@fsub f32 (B32_with_pow tbl) x y) = true ->
       @fsub f32 (B32_with_pow tbl) (@fmul f32 (B32_with_pow tbl) s x) (@fmul f32 (B32_with_pow tbl) s y) =
       @fmul f32 (B32_with_pow tbl) s (@fsub f32 (B32_with_pow tbl) x y).
Proof. exact (@fsub_scale). Qed.

Theorem C04_mul_scales_left_B32 : forall (tbl : list (Z * Z * Z)) (k : Z) (s x y : f32),
       krange k ->
       is_pow2 s k ->
       safe x = true ->
       safe y = true ->
       safe (@fmul f32 (B32_with_pow tbl) x y) = true ->
       @fmul f32 (B32_with_pow tbl) (@fmul f32 (B32_with_pow tbl) s x) y =
       @fmul f32 (B32_with_pow tbl) s (@fmul f32 (B32_with_pow tbl) x y).
Proof. exact (@fmul_scale_l). Qed.

Theorem C04_div_scales_B32 : forall (tbl : list (Z * Z * Z)) (k : Z) (s x y : f32),
       krange k ->
       is_pow2 s k ->
       safe x = true ->
       safe y = true ->
       safe (@fdiv f32 (B32_with_pow tbl) x y) = true ->
       @fdiv f32 (B32_with_pow tbl) (@fmul f32 (B32_with_pow tbl) s x) y =
       @fmul f32 (B32_with_pow tbl) s (@fdiv f32 (B32_with_pow tbl) x y).
Proof. exact (@fdiv_scale). Qed.

Theorem C04_pid_step_scaled_B32 : forall (tbl : list (Z * Z * Z)) (c : cfg) (k : Z) (st st' : @pid f32) (i i' : out f32),
       krange k ->
       rel_st k st st' ->
       rel_out k i i' ->
       step_safe tbl c st i = true ->
       match @pid_step f32 (B32_with_pow tbl) c st i with
       | Ok (a, u) =>
           match @pid_step f32 (B32_with_pow tbl) c st' i' with
           | Ok (a', u') => rel_st k a a' /\ u' = u
           | Panic => False
           end
       | Panic => match @pid_step f32 (B32_with_pow tbl) c st' i' with
                  | Ok _ => False
                  | Panic => True
                  end
       end.
Proof. exact (@pid_step_scaled). Qed.

Theorem C04_pid_outputs_scaled_B32 : forall (tbl : list (Z * Z * Z)) (c : cfg) (k : Z) (s : f32) (h : list (out f32)),
       krange k ->
       is_pow2 s k ->
       forall st st' : @pid f32,
       rel_st k st st' ->
       run_safe tbl c st h = true ->
       pid_outs tbl c st' (@map (out f32) (out f32) (scale_ev s) h) =
       @map (out f32) (out f32) (scale_ev s) (pid_outs tbl c st h).
Proof. exact (@pid_outs_scaled). Qed.

Theorem C04_pow2_scaling_B32 : forall (c : cfg) (k : Z) (s sp : f32) (kk : @kvals f32) (h : list (out f32)),
       krange k ->
       is_pow2 s k ->
       scale_ok [] c sp kk h = true ->
       pid_outs [] c (@pid_init f32 B32 (@fmul f32 B32 s sp) kk) (@map (out f32) (out f32) (scale_ev s) h) =
       @map (out f32) (out f32) (scale_ev s) (pid_outs [] c (@pid_init f32 B32 sp kk) h).
Proof. exact (@C04_pow2_scaling_B32). Qed.

Theorem C04_scaling_example : Ex.run0 (b32_mul Ex.s3 Ex.sp0) (@map (out f32) (out f32) (scale_ev Ex.s3) Ex.h0) =
       @map (out f32) (out f32) (scale_ev Ex.s3) (Ex.run0 Ex.sp0 Ex.h0).
Proof. exact (@Ex.ex_theorem). Qed.

Theorem C04_scaling_underflow_witness : let kk := {| kp := Ex.fb 1065353216; ki := Ex.fb 0; kd := Ex.fb 0 |} in
       let h := [@OSome f32 {| d_time := 0; d_val := Ex.fb 1 |}] in
       let s := pow2 (-1) in
       scale_ok [] Ex.cfg0 (Ex.fb 3) kk h = false /\
       @map (out f32) (out Z) out_bits
         (pid_outs [] Ex.cfg0 (@pid_init f32 B32 (b32_mul s (Ex.fb 3)) kk)
            (@map (out f32) (out f32) (scale_ev s) h)) = [@OSome Z {| d_time := 0; d_val := 2 |}] /\
       @map (out f32) (out Z) out_bits
         (@map (out f32) (out f32) (scale_ev s) (pid_outs [] Ex.cfg0 (@pid_init f32 B32 (Ex.fb 3) kk) h)) =
       [@OSome Z {| d_time := 0; d_val := 1 |}].
Proof. exact (@Ex.pid_underflow_breaks). Qed.

Print Assumptions C04_safe_range_meaning.
Print Assumptions C04_pow2_is_power_of_two.
Print Assumptions C04_scaling_multiply_exact_B32.
Print Assumptions C04_add_scales_B32.
Print Assumptions C04_sub_scales_B32.
Print Assumptions C04_mul_scales_left_B32.
Print Assumptions C04_div_scales_B32.
Print Assumptions C04_pid_step_scaled_B32.
Print Assumptions C04_pid_outputs_scaled_B32.
Print Assumptions C04_pow2_scaling_B32.
Print Assumptions C04_scaling_example.
Print Assumptions C04_scaling_underflow_witness.
