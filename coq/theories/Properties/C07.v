(* C07 — Motion profile is a valid trapezoid: continuous, within limits, reaches the goal.
   Layered claim: [G] acceleration values and velocity continuity (every carrier, hence bit-exact on
   binary32); [R] on the real-number instance of the same expression trees, which keeps the code's
   integer arithmetic on nanoseconds: closed forms per piece, position is the exact time integral of
   the velocity, initial conditions, position join up to the truncated half nanosecond.  The rounding
   tolerance of the binary32 values around these is MEASURED (partial), see tools/props/c07.py.
   The negation symmetry fails for zero displacement: refuted with a witness (known finding). *)
From Coq Require Import ZArith Bool List Reals Lia.
From RRTK Require Import Num.Num Num.RR Num.B32 Model.Values Model.MotionProfile Proofs.ValuesProofs Proofs.MpProofs Proofs.MpReal.
Local Open Scope Z_scope.

Section G.
Context {F : Type} {NF : Num F}.
Variable c : cfg.
(* commanded acceleration: max_acc, 0, -max_acc, end command; max_acc = |a| * sign with sign = -1 iff
   end.position < start.position *)
Theorem C07_acceleration_values (p : @mp F) t :
  mp_acc c p t = match mp_piece p t with
                 | BeforeStart => None
                 | InitialAcceleration => Some (mp_max_acc p)
                 | ConstantVelocity => Some (qnew fzero (U_MM_S2 c))
                 | EndAcceleration => Some (qneg (mp_max_acc p))
                 | Complete => Some (c_get_acc c (mp_end p))
                 end.
Proof. exact (acc_of_piece c p t). Qed.
Theorem C07_max_acc_sign s0 s1 mv ma p :
  mp_new c s0 s1 mv ma = Ok p ->
  mp_max_acc p = qmul c (qabs c ma) (qnew (if fltb (s_pos s1) (s_pos s0) then fneg fone else fone) (U_DIMLESS c)) /\
  mp_start_pos p = s_get_pos c s0 /\ mp_start_vel p = s_get_vel c s0.
Proof.
  unfold mp_new. repeat (match goal with |- context [bind ?x _] => destruct x; cbn [bind]; [|discriminate] end).
  intros [= <-]. repeat split.
Qed.
(* the velocity expressions of adjacent pieces coincide at the joining instants: continuity holds
   bit-exactly for every carrier *)
Theorem C07_velocity_continuous (p : @mp F) :
  (0 <= mp_t1 p -> mp_t1 p < mp_t2 p ->
     mp_vel c p (mp_t1 p) = (let! v := qadd c (qmul c (mp_max_acc p) (q_of_time c (mp_t1 p))) (mp_start_vel p) in Ok (Some v))) /\
  (0 <= mp_t1 p <= mp_t2 p -> mp_t2 p < mp_t3 p -> in_i64 (mp_t1 p + mp_t2 p) = true -> in_i64 (mp_t1 p + mp_t2 p - mp_t2 p) = true ->
     mp_vel c p (mp_t2 p) = (let! v := qadd c (qmul c (mp_max_acc p) (q_of_time c (mp_t1 p))) (mp_start_vel p) in Ok (Some v))).
Proof. exact (velocity_continuous_at_joins c p). Qed.
End G.

(* [R] closed forms *)
Section R.
Variable sb : bool.
Notation c := (cfg_chk sb).
Notation a p := (qv (mp_max_acc p)).
Notation v0 p := (qv (mp_start_vel p)).
Notation p0 p := (qv (mp_start_pos p)).
Theorem C07_closed_forms (p : @mp R) t :
  wd p -> 0 <= mp_t1 p <= mp_t2 p -> 0 <= t <= 9223372036854775807 -> 2 * mp_t1 p + mp_t2 p <= 9223372036854775807 ->
  (t < mp_t1 p -> mp_vel c p t = Ok (Some (qnew (a p * secs t + v0 p)%R UVm)) /\
                  mp_pos c p t = Ok (Some (qnew (/ 2 * a p * secs t * secs t + v0 p * secs t + p0 p)%R UPm))) /\
  (mp_t1 p <= t < mp_t2 p -> mp_vel c p t = Ok (Some (qnew (a p * secs (mp_t1 p) + v0 p)%R UVm)) /\
                  mp_pos c p t = Ok (Some (qnew (a p * (secs (mp_t1 p) * secs (hneg p + t)) + v0 p * secs t + p0 p)%R UPm))) /\
  (mp_t2 p <= t < mp_t3 p -> mp_vel c p t = Ok (Some (qnew (a p * secs (mp_t1 p + mp_t2 p - t) + v0 p)%R UVm)) /\
                  mp_pos c p t = Ok (Some (qnew (a p * (secs (mp_t1 p) * secs (hneg p + mp_t2 p))
                                                 - / 2 * a p * (secs (t - mp_t2 p) * secs (t - 2 * mp_t1 p - mp_t2 p))
                                                 + v0 p * secs t + p0 p)%R UPm))).
Proof.
  intros H H12 Ht Hov. split; [|split]; intros Hp.
  - split; [apply vel1|apply pos1]; try assumption; lia.
  - split; [apply vel2|apply pos2]; try assumption; lia.
  - split; [apply vel3|apply pos3]; try assumption; lia.
Qed.
(* position is the time integral of velocity: within each piece the trapezoid rule is exact *)
Theorem C07_position_integral (p : @mp R) t t' :
  trapezoid (/ 2 * a p * secs t * secs t + v0 p * secs t + p0 p) (/ 2 * a p * secs t' * secs t' + v0 p * secs t' + p0 p)
            (a p * secs t + v0 p) (a p * secs t' + v0 p) t t' /\
  trapezoid (a p * (secs (mp_t1 p) * secs (hneg p + t)) + v0 p * secs t + p0 p)
            (a p * (secs (mp_t1 p) * secs (hneg p + t')) + v0 p * secs t' + p0 p)
            (a p * secs (mp_t1 p) + v0 p) (a p * secs (mp_t1 p) + v0 p) t t' /\
  trapezoid (a p * (secs (mp_t1 p) * secs (hneg p + mp_t2 p)) - / 2 * a p * (secs (t - mp_t2 p) * secs (t - 2 * mp_t1 p - mp_t2 p)) + v0 p * secs t + p0 p)
            (a p * (secs (mp_t1 p) * secs (hneg p + mp_t2 p)) - / 2 * a p * (secs (t' - mp_t2 p) * secs (t' - 2 * mp_t1 p - mp_t2 p)) + v0 p * secs t' + p0 p)
            (a p * secs (mp_t1 p + mp_t2 p - t) + v0 p) (a p * secs (mp_t1 p + mp_t2 p - t') + v0 p) t t'.
Proof. exact (conj (integral_piece1 p t t') (conj (integral_piece2 p t t') (integral_piece3 p t t'))). Qed.
Theorem C07_initial_conditions_R (p : @mp R) : wd p -> 0 < mp_t1 p ->
  mp_vel c p 0 = Ok (Some (qnew (v0 p) UVm)) /\ mp_pos c p 0 = Ok (Some (qnew (p0 p) UPm)).
Proof. exact (initial_R sb p). Qed.
(* position at the first join: continuous up to |a| * t1 * 0.5 ns (the -t1/2 on an i64) *)
Theorem C07_position_join_slack (p : @mp R) : 0 <= mp_t1 p ->
  let t1 := mp_t1 p in
  ((a p * (secs t1 * secs (hneg p + t1)) + v0 p * secs t1 + p0 p)
   - (/ 2 * a p * secs t1 * secs t1 + v0 p * secs t1 + p0 p)
   = a p * secs t1 * (secs (hneg p) + secs t1 / 2))%R /\
  (Rabs (secs (hneg p) + secs (mp_t1 p) / 2) <= / 2 / 1000000000)%R.
Proof. exact (pos_join1_R p). Qed.
End R.

(* negating all positions and velocities does NOT negate the outputs when the displacement is zero:
   the move (0, 0.1, 0) -> (0, 0.1, 0) with limits 0.1, 0.01 is instantly complete, its mirror image
   is a 40 s excursion.  Witness computed on the bit-exact binary32 model. *)
Definition w_c := cfg_chk true.
Definition w_v := b32_of_bits 1036831949.    (* 0.1 *)
Definition w_nv := b32_of_bits 3184315597.   (* -0.1 *)
Definition w_z := b32_of_bits 0.
Definition w_mv := qnew (b32_of_bits 1036831949) {| mm := 1; sec := -1 |}.
Definition w_ma := qnew (b32_of_bits 1008981770) {| mm := 1; sec := -2 |}.
Definition times_of (r : res (@mp f32)) := match r with Ok p => Some (mp_t1 p, mp_t2 p, mp_t3 p) | Panic => None end.
Theorem C07_negation_zero_displacement_refuted :
  times_of (mp_new w_c (snew_raw w_z w_v w_z) (snew_raw w_z w_v w_z) w_mv w_ma) = Some (0, 0, 0) /\
  times_of (mp_new w_c (snew_raw w_z w_nv w_z) (snew_raw w_z w_nv w_z) w_mv w_ma) = Some (20000000000, 20000000000, 40000000000).
Proof. split; vm_compute; reflexivity. Qed.

Print Assumptions C07_acceleration_values.
Print Assumptions C07_max_acc_sign.
Print Assumptions C07_velocity_continuous.
Print Assumptions C07_closed_forms.
Print Assumptions C07_position_integral.
Print Assumptions C07_initial_conditions_R.
Print Assumptions C07_position_join_slack.
Print Assumptions C07_negation_zero_displacement_refuted.
