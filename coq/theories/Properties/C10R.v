(* C10, continued: closed-form trapezoid sums and difference quotients on the reals, shift invariance of whole runs (Proofs/SumsReal.v) *)
From Coq Require Import ZArith Bool List Arith Reals Lia.
From RRTK Require Import Num.Num Num.RR Num.B32 Num.Laws Model.Values Model.Prog Model.Combinators Model.Streams Model.Assembly Model.MotionProfile Model.World Model.Devices Proofs.SumsReal.
Import ListNotations.
Local Open Scope Z_scope.

Theorem C10_integral_closed_form_R : forall (sb : bool) (u : unit_) (l : list (Z * R)) (s : dint),
       CalcProofs.integ_inv u [] s ->
       l <> [] ->
       gaps_ok (map fst l) ->
       exists s' : dint,
         run (integ_step (ValuesProofs.cfg_chk sb)) s (map (qev u) l) = Ok s' /\
         dint_get s' =
         (if (2 <=? length l)%nat
          then OSome {| d_time := ltime l; d_val := qnew (trapsum l) (CalcProofs.ustep u) |}
          else ONone).
Proof. exact (@integral_closed_form). Qed.

Theorem C10_derivative_closed_form_R : forall (sb : bool) (u : unit_) (l : list (Z * R)) (s : dint),
       CalcProofs.deriv_inv u [] s ->
       l <> [] ->
       gaps_ok (map fst l) ->
       exists s' : dint,
         run (deriv_step (ValuesProofs.cfg_chk sb)) s (map (qev u) l) = Ok s' /\
         dint_get s' =
         (if (2 <=? length l)%nat
          then OSome {| d_time := ltime l; d_val := qnew (dquot l) (CalcProofs.uquot u) |}
          else ONone).
Proof. exact (@derivative_closed_form). Qed.

Theorem C10_since_last_reset_R : forall (sb : bool) (u : unit_) (pre : list (out quantity)) (r : out quantity) 
         (l : list (Z * R)) (s0 si sd : dint),
       run (integ_step (ValuesProofs.cfg_chk sb)) s0 pre = Ok si ->
       run (deriv_step (ValuesProofs.cfg_chk sb)) s0 pre = Ok sd ->
       r = ONone \/ (exists e : err, r = OErr e) ->
       l <> [] ->
       gaps_ok (map fst l) ->
       (exists s' : dint,
          run (integ_step (ValuesProofs.cfg_chk sb)) s0 (pre ++ r :: map (qev u) l) = Ok s' /\
          dint_get s' =
          (if (2 <=? length l)%nat
           then OSome {| d_time := ltime l; d_val := qnew (trapsum l) (CalcProofs.ustep u) |}
           else ONone)) /\
       (exists s' : dint,
          run (deriv_step (ValuesProofs.cfg_chk sb)) s0 (pre ++ r :: map (qev u) l) = Ok s' /\
          dint_get s' =
          (if (2 <=? length l)%nat
           then OSome {| d_time := ltime l; d_val := qnew (dquot l) (CalcProofs.uquot u) |}
           else ONone)).
Proof. exact (@integral_derivative_since_last_reset). Qed.

Theorem C10_acc_to_state_closed_form_R : forall (sb : bool) (l : list (Z * R)),
       gaps_ok (map fst l) ->
       exists s' : tstate,
         run (a2s_step (ValuesProofs.cfg_chk sb)) None (map (qev CalcProofs.UA) l) = Ok s' /\
         a2s_get (ValuesProofs.cfg_chk sb) s' =
         Ok
           (if (3 <=? length l)%nat
            then
             OSome
               {|
                 d_time := ltime l; d_val := {| s_pos := trapsum2 l; s_vel := trapsum l; s_acc := lval l |}
               |}
            else ONone).
Proof. exact (@a2s_closed_form). Qed.

Theorem C10_vel_to_state_closed_form_R : forall (sb : bool) (l : list (Z * R)),
       gaps_ok (map fst l) ->
       exists s' : tstate,
         run (v2s_step (ValuesProofs.cfg_chk sb)) None (map (qev CalcProofs.UV) l) = Ok s' /\
         v2s_get (ValuesProofs.cfg_chk sb) s' =
         Ok
           (if (2 <=? length l)%nat
            then
             OSome
               {| d_time := ltime l; d_val := {| s_pos := trapsum l; s_vel := lval l; s_acc := dquot l |} |}
            else ONone).
Proof. exact (@v2s_closed_form). Qed.

Theorem C10_pos_to_state_closed_form_R : forall (sb : bool) (l : list (Z * R)),
       gaps_ok (map fst l) ->
       exists s' : tstate,
         run (p2s_step (ValuesProofs.cfg_chk sb)) None (map (qev CalcProofs.UP) l) = Ok s' /\
         p2s_get (ValuesProofs.cfg_chk sb) s' =
         Ok
           (if (3 <=? length l)%nat
            then
             OSome
               {| d_time := ltime l; d_val := {| s_pos := lval l; s_vel := dquot l; s_acc := dquot2 l |} |}
            else ONone).
Proof. exact (@p2s_closed_form). Qed.

Theorem C10_trapsum_is_indexed_sum : forall (l : list (Z * R)) (d : Z * R),
       trapsum l =
       sumn (length l - 1)
         (fun i : nat =>
          (dsec (fst (nth (S i) l d)) (fst (nth i l d)) * (snd (nth i l d) + snd (nth (S i) l d)) / 2)%R).
Proof. exact (@trapsum_indexed). Qed.

Theorem C10_to_state_ignores_absent : forall (F : Type) (NF : Num F) (c : cfg) (l : list (out quantity)) (s : tstate),
       run (a2s_step c) s l = run (a2s_step c) s (filter present l) /\
       run (v2s_step c) s l = run (v2s_step c) s (filter present l) /\
       run (p2s_step c) s l = run (p2s_step c) s (filter present l).
Proof. exact (@tostate_absent_transparent). Qed.

Theorem C10_to_state_error_resets : forall (F : Type) (NF : Num F) (c : cfg) (pre : list (out quantity)) (e : err)
         (l : list (out quantity)) (s0 s1 : tstate),
       (run (a2s_step c) s0 pre = Ok s1 -> run (a2s_step c) s0 (pre ++ OErr e :: l) = run (a2s_step c) None l) /\
       (run (v2s_step c) s0 pre = Ok s1 -> run (v2s_step c) s0 (pre ++ OErr e :: l) = run (v2s_step c) None l) /\
       (run (p2s_step c) s0 pre = Ok s1 -> run (p2s_step c) s0 (pre ++ OErr e :: l) = run (p2s_step c) None l).
Proof. exact (@tostate_error_resets). Qed.

Theorem C10_shift_runs : forall (F : Type) (NF : Num F) (c : cfg) (k : Z) (sd : dint) (st : tstate) (l : list (out quantity)),
       run (integ_step c) (sh_dint k sd) (map (sh_out k) l) = map_res (sh_dint k) (run (integ_step c) sd l) /\
       run (deriv_step c) (sh_dint k sd) (map (sh_out k) l) = map_res (sh_dint k) (run (deriv_step c) sd l) /\
       run (a2s_step c) (sh_ts k st) (map (sh_out k) l) = map_res (sh_ts k) (run (a2s_step c) st l) /\
       run (v2s_step c) (sh_ts k st) (map (sh_out k) l) = map_res (sh_ts k) (run (v2s_step c) st l) /\
       run (p2s_step c) (sh_ts k st) (map (sh_out k) l) = map_res (sh_ts k) (run (p2s_step c) st l).
Proof. exact (@C10_shift_runs). Qed.

Theorem C10_panic_iff_time_gap_overflow : forall (F : Type) (NF : Num F) (sb : bool) (u : unit_) (l : list (Z * F)) (si sd : dint),
       CalcProofs.integ_inv u [] si ->
       CalcProofs.deriv_inv u [] sd ->
       (run (integ_step (ValuesProofs.cfg_chk sb)) si (map (qev u) l) <> Panic <-> gaps_ok (map fst l)) /\
       (run (deriv_step (ValuesProofs.cfg_chk sb)) sd (map (qev u) l) <> Panic <-> gaps_ok (map fst l)) /\
       (run (a2s_step (ValuesProofs.cfg_chk sb)) None (map (qev CalcProofs.UA) l) <> Panic <->
        gaps_ok (map fst l)) /\
       (run (v2s_step (ValuesProofs.cfg_chk sb)) None (map (qev CalcProofs.UV) l) <> Panic <->
        gaps_ok (map fst l)) /\
       (run (p2s_step (ValuesProofs.cfg_chk sb)) None (map (qev CalcProofs.UP) l) <> Panic <->
        gaps_ok (map fst l)).
Proof. exact (@gaps_exact_C10). Qed.

Theorem C10_example_integral : forall sb : bool,
       exists s' : dint,
         run (integ_step (ValuesProofs.cfg_chk sb)) dint_init (map (qev CalcProofs.UP) ex_l) = Ok s' /\
         dint_get s' = OSome {| d_time := 3500000000; d_val := qnew 9%R {| mm := 1; sec := 1 |} |}.
Proof. exact (@ex_integral). Qed.

Theorem C10_example_acc_to_state : forall sb : bool,
       exists s' : tstate,
         run (a2s_step (ValuesProofs.cfg_chk sb)) None (map (qev CalcProofs.UA) ex_l) = Ok s' /\
         a2s_get (ValuesProofs.cfg_chk sb) s' =
         Ok (OSome {| d_time := 3500000000; d_val := {| s_pos := 13%R; s_vel := 9%R; s_acc := 6%R |} |}).
Proof. exact (@ex_a2s). Qed.

Theorem C10_example_pos_to_state : forall sb : bool,
       exists s' : tstate,
         run (p2s_step (ValuesProofs.cfg_chk sb)) None (map (qev CalcProofs.UP) ex_l) = Ok s' /\
         p2s_get (ValuesProofs.cfg_chk sb) s' =
         Ok (OSome {| d_time := 3500000000; d_val := {| s_pos := 6%R; s_vel := 8%R; s_acc := 17%R |} |}).
Proof. exact (@ex_p2s). Qed.

Print Assumptions C10_integral_closed_form_R.
Print Assumptions C10_derivative_closed_form_R.
Print Assumptions C10_since_last_reset_R.
Print Assumptions C10_acc_to_state_closed_form_R.
Print Assumptions C10_vel_to_state_closed_form_R.
Print Assumptions C10_pos_to_state_closed_form_R.
Print Assumptions C10_trapsum_is_indexed_sum.
Print Assumptions C10_to_state_ignores_absent.
Print Assumptions C10_to_state_error_resets.
Print Assumptions C10_shift_runs.
Print Assumptions C10_panic_iff_time_gap_overflow.
Print Assumptions C10_example_integral.
Print Assumptions C10_example_acc_to_state.
Print Assumptions C10_example_pos_to_state.
