(* C01 — Dimensional analysis: unit exponents compose additively, mismatches panic.
   Statements only; each is closed by [exact] of a lemma proved in Proofs/.  G tier: every numeric
   carrier F (in particular the bit-exact binary32 instance), dimension checking on.
   The theorems over the regenerated constant table are in gen_theorems/C01Constants.v. *)
From Coq Require Import ZArith Bool List.
From RRTK Require Import Num.Num Model.Values Proofs.ValuesProofs.
Local Open Scope Z_scope.

Section C01.
Context {F : Type} {NF : Num F}.
Variable s : bool.
Notation c := (cfg_chk s).

(* multiplication adds, division subtracts the exponents; the numeric part is the raw operator *)
Theorem C01_mul_div_exps (a b : @quantity F) :
  qmul c a b = {| qv := fmul (qv a) (qv b); qu := {| mm := mm (qu a) + mm (qu b); sec := sec (qu a) + sec (qu b) |} |} /\
  qdiv c a b = {| qv := fdiv (qv a) (qv b); qu := {| mm := mm (qu a) - mm (qu b); sec := sec (qu a) - sec (qu b) |} |}.
Proof. exact (conj (qmul_spec s a b) (qdiv_spec s a b)). Qed.

(* addition / subtraction keep the unit and are the raw operator; they panic iff the units differ *)
Theorem C01_add_sub_keep_or_panic (a b : @quantity F) :
  (qu a = qu b -> qadd c a b = Ok {| qv := fadd (qv a) (qv b); qu := qu a |}
               /\ qsub c a b = Ok {| qv := fsub (qv a) (qv b); qu := qu a |}) /\
  (qu a <> qu b -> qadd c a b = Panic /\ qsub c a b = Panic).
Proof.
  exact (conj (fun H => conj (proj1 (qadd_spec s a b) H) (proj1 (qsub_spec s a b) H))
              (fun H => conj (proj2 (qadd_spec s a b) H) (proj2 (qsub_spec s a b) H))).
Qed.

Theorem C01_panic_iff_units_differ (a b : @quantity F) :
  (qadd c a b = Panic <-> qu a <> qu b) /\ (qsub c a b = Panic <-> qu a <> qu b) /\
  (qpcmp c a b = Panic <-> qu a <> qu b).
Proof. exact (conj (qadd_panic_iff s a b) (conj (qsub_panic_iff s a b) (qpcmp_panic_iff s a b))). Qed.

Theorem C01_bare_units_panic_iff (u v : unit_) :
  (uadd c u v = Ok u <-> u = v) /\ (uadd c u v = Panic <-> u <> v) /\ usub c u v = uadd c u v.
Proof. exact (conj (proj1 (uadd_ok_iff s u v)) (conj (proj2 (uadd_ok_iff s u v)) (usub_is_uadd s u v))). Qed.

Theorem C01_neg_abs_keep (a : @quantity F) :
  qneg a = {| qv := fneg (qv a); qu := qu a |} /\ qu (qabs c a) = qu a.
Proof. exact (conj eq_refl eq_refl). Qed.

(* operating on bare units yields the same unit as operating on quantities carrying them *)
Theorem C01_unit_ops_agree_with_quantity_ops (a b : @quantity F) :
  res_map qu (qadd c a b) = uadd c (qu a) (qu b) /\
  res_map qu (qsub c a b) = usub c (qu a) (qu b) /\
  qu (qmul c a b) = umul c (qu a) (qu b) /\
  qu (qdiv c a b) = udiv c (qu a) (qu b) /\
  qu (qneg a) = uneg (qu a) /\ qu (qabs c a) = qu a.
Proof. exact (unit_ops_agree s a b). Qed.

(* mixed operands: Time converts to seconds, DimensionlessInteger to dimensionless; every mixed
   operator of the model is, by definition (as in the source), the Quantity operator on the
   converted operand *)
Theorem C01_mixed_forms (t d : Z) (q : @quantity F) :
  qu (q_of_time c t) = {| mm := 0; sec := 1 |} /\ qu (@q_of_dint F NF c d) = {| mm := 0; sec := 0 |} /\
  q_add_t c q t = qadd c q (q_of_time c t) /\ t_add_q c t q = qadd c (q_of_time c t) q /\
  t_mul_q c t q = qmul c q (q_of_time c t) /\ d_mul_q c d q = qmul c q (q_of_dint c d) /\
  t_div_q c t q = qdiv c (q_of_time c t) q /\ d_div_t c d t = qdiv c (q_of_dint c d) (q_of_time c t).
Proof. exact (conj eq_refl (conj eq_refl (conj eq_refl (conj eq_refl (conj eq_refl (conj eq_refl (conj eq_refl eq_refl))))))). Qed.

(* position, velocity, acceleration <-> mm, mm/s, mm/s^2 in both directions *)
Theorem C01_position_derivative_roundtrip :
  (forall d, pd_of_unit c (unit_of_pd c d) = Some d) /\
  (forall u d, pd_of_unit c u = Some d -> u = unit_of_pd c d) /\
  unit_of_pd c Position = {| mm := 1; sec := 0 |} /\ unit_of_pd c Velocity = {| mm := 1; sec := -1 |} /\
  unit_of_pd c Acceleration = {| mm := 1; sec := -2 |} /\
  (forall x : @command F, qu (q_of_command c x) = unit_of_pd c (c_kind x) /\ qv (q_of_command c x) = c_val x).
Proof.
  exact (conj (pd_roundtrip s) (conj (pd_of_unit_inv s) (conj eq_refl (conj eq_refl (conj eq_refl (q_of_command_unit s)))))).
Qed.

(* non-vacuity: both branches of the panic rule are inhabited *)
Example C01_nonvacuous (x y : F) :
  qadd c (qnew x {| mm := 1; sec := -1 |}) (qnew y {| mm := 1; sec := -1 |}) = Ok (qnew (fadd x y) {| mm := 1; sec := -1 |}) /\
  qadd c (qnew x {| mm := 1; sec := -1 |}) (qnew y {| mm := 0; sec := -1 |}) = Panic.
Proof. exact (conj eq_refl eq_refl). Qed.
End C01.

Print Assumptions C01_mul_div_exps.
Print Assumptions C01_add_sub_keep_or_panic.
Print Assumptions C01_panic_iff_units_differ.
Print Assumptions C01_bare_units_panic_iff.
Print Assumptions C01_neg_abs_keep.
Print Assumptions C01_unit_ops_agree_with_quantity_ops.
Print Assumptions C01_mixed_forms.
Print Assumptions C01_position_derivative_roundtrip.
Print Assumptions C01_nonvacuous.
