(* C18, binary32 tier: the conversion error bounds, stated about the model's own functions at the
   bit-exact binary32 instance. *)
From Coq Require Import ZArith Reals Bool.
From Flocq Require Import Core.Core IEEE754.Binary IEEE754.BinarySingleNaN.
From RRTK Require Import Num.Num Num.B32 Num.Laws Model.Values Proofs.ValuesProofs Proofs.B32Laws Proofs.B32Inst.

Notation c := (cfg_chk true).
Notation B2R32 := (BinarySingleNaN.B2R (prec := 24) (emax := 128)).

(* Time -> Quantity: nanoseconds/1e9 to within two correctly rounded operations, never NaN/inf *)
Theorem C18_time_to_quantity_error (n : Z) :
  (-2^63 <= n < 2^63)%Z -> n <> 0%Z ->
  (Rabs (B2R32 (qv (@Values.q_of_time f32 B32 c n)) - IZR n / 1000000000)
     <= (bpow radix2 (-23) + bpow radix2 (-48)) * Rabs (IZR n / 1000000000))%R
  /\ BinarySingleNaN.is_finite (qv (@Values.q_of_time f32 B32 c n)) = true.
Proof. exact (t2q_err n). Qed.

Theorem C18_time_zero : qv (@Values.q_of_time f32 B32 c 0) = BinarySingleNaN.B754_zero false.
Proof. exact t2q_zero. Qed.

(* ... and monotone in the time *)
Theorem C18_time_to_quantity_monotone (n m : Z) :
  (-2^63 <= n)%Z -> (n <= m)%Z -> (m < 2^63)%Z ->
  BinarySingleNaN.Bleb (qv (@Values.q_of_time f32 B32 c n)) (qv (@Values.q_of_time f32 B32 c m)) = true.
Proof. exact (t2q_monotone n m). Qed.

(* Quantity (seconds) -> Time: value*1e9 to within one rounding and 1 ns of truncation *)
Theorem C18_quantity_to_time (v : f32) :
  BinarySingleNaN.is_finite v = true -> (Rabs (B2R32 v) < 9000000000)%R ->
  exists t, @time_of_q f32 B32 c (qnew v {| mm := 0; sec := 1 |}) = Some t /\
  (Rabs (IZR t - B2R32 v * 1000000000) <= bpow radix2 (-24) * Rabs (B2R32 v * 1000000000) + 1)%R.
Proof. intros Fv Hv. exists (time_of v). split; [reflexivity|exact (q2t_err v Fv Hv)]. Qed.

(* round trip within |t| * 2^-22 + 1 ns *)
Theorem C18_roundtrip (n : Z) :
  (-2^63 <= n < 2^63)%Z -> (Rabs (IZR n) < 9 * 10^18)%R ->
  exists t, @time_of_q f32 B32 c (@Values.q_of_time f32 B32 c n) = Some t /\
  (Rabs (IZR t - IZR n) <= Rabs (IZR n) * bpow radix2 (-22) + 1)%R.
Proof. intros Hn Hb. exists (time_of (B32Laws.q_of_time n)). split; [reflexivity|exact (roundtrip_err n Hn Hb)]. Qed.

(* binary32 satisfies the commutativity laws assumed by C18_mixed_ops_swapped *)
Theorem C18_binary32_laws : (forall x y : f32, b32_add x y = b32_add y x) /\ (forall x y : f32, b32_mul x y = b32_mul y x).
Proof. exact (conj b32_add_comm b32_mul_comm). Qed.

Print Assumptions C18_time_to_quantity_error.
Print Assumptions C18_time_zero.
Print Assumptions C18_time_to_quantity_monotone.
Print Assumptions C18_quantity_to_time.
Print Assumptions C18_roundtrip.
Print Assumptions C18_binary32_laws.
