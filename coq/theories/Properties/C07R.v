(* C07, continued: velocity bound, arrival, acceptance, negation symmetry on the reals (Proofs/MpReal2.v) *)
From Coq Require Import ZArith Bool List Arith Reals Lia.
From RRTK Require Import Num.Num Num.RR Num.B32 Num.Laws Model.Values Model.Prog Model.Combinators Model.Streams Model.Assembly Model.MotionProfile Model.World Model.Devices Proofs.MpReal Proofs.MpReal2.
Import ListNotations.
Local Open Scope Z_scope.

Theorem C07_constructor_characterised_R : forall (sb : bool) (s0 s1 : state) (mv ma : quantity),
       mp_new (ValuesProofs.cfg_chk sb) s0 s1 mv ma =
       (if ueqb (qu mv) UVm && ueqb (qu ma) UAm && accepted s0 s1 (qv mv) (qv ma)
        then Ok (built s0 s1 (qv mv) (qv ma))
        else Panic).
Proof. exact (@mp_new_char). Qed.

Theorem C07_instants_ordered_R : forall (s0 s1 : state) (mv ma : R),
       accepted s0 s1 mv ma = true ->
       let p := built s0 s1 mv ma in 0 <= mp_t1 p <= mp_t2 p /\ mp_t2 p <= mp_t3 p <= I64MAX.
Proof. exact (@built_ordered). Qed.

Theorem C07_velocity_bound_R : forall (sb : bool) (s0 s1 : state) (mv ma : quantity) (p : mp) (t : Z) (q : quantity),
       mp_new (ValuesProofs.cfg_chk sb) s0 s1 mv ma = Ok p ->
       mp_vel (ValuesProofs.cfg_chk sb) p t = Ok (Some q) ->
       (Rabs (qv q) <=
        vmax (qv mv) (s_vel s0) (s_vel s1) +
        (if t <? mp_t2 p then 0 else if t <? mp_t3 p then Rabs (qv ma) * NS else 0))%R.
Proof. exact (@velocity_bound). Qed.

Theorem C07_arrival_velocity_R : forall (sb : bool) (s0 s1 : state) (mv ma : quantity) (p : mp) (t : Z) (q : quantity),
       mp_new (ValuesProofs.cfg_chk sb) s0 s1 mv ma = Ok p ->
       qv ma <> 0%R ->
       mp_t3 p < I64MAX ->
       mp_t2 p <= t < mp_t3 p ->
       mp_vel (ValuesProofs.cfg_chk sb) p t = Ok (Some q) ->
       (Rabs (qv q - (s_vel s1 + qv (mp_max_acc p) * (secs (mp_t3 p) - secs t))) <= 2 * Rabs (qv ma) * NS)%R.
Proof. exact (@arrival_velocity). Qed.

Theorem C07_arrival_position_R : forall (sb : bool) (s0 s1 : state) (mv ma : quantity) (p : mp) (t : Z) (q : quantity),
       mp_new (ValuesProofs.cfg_chk sb) s0 s1 mv ma = Ok p ->
       qv ma <> 0%R ->
       qv mv <> 0%R ->
       mp_t3 p < I64MAX ->
       mp_t2 p <= t < mp_t3 p ->
       mp_pos (ValuesProofs.cfg_chk sb) p t = Ok (Some q) ->
       let D := (secs (mp_t3 p) - secs t)%R in
       (Rabs (qv q - (s_pos s1 - s_vel s1 * D - qv (mp_max_acc p) / 2 * D * D)) <=
        pos_slack s0 s1 (qv mv) (qv ma) + 2 * Rabs (qv ma) * NS * D)%R.
Proof. exact (@arrival_position). Qed.

Theorem C07_last_sample_R : forall (sb : bool) (s0 s1 : state) (mv ma : quantity) (p : mp) (qv_ qp_ : quantity),
       mp_new (ValuesProofs.cfg_chk sb) s0 s1 mv ma = Ok p ->
       qv ma <> 0%R ->
       qv mv <> 0%R ->
       mp_t3 p < I64MAX ->
       mp_t2 p < mp_t3 p ->
       mp_vel (ValuesProofs.cfg_chk sb) p (mp_t3 p - 1) = Ok (Some qv_) ->
       mp_pos (ValuesProofs.cfg_chk sb) p (mp_t3 p - 1) = Ok (Some qp_) ->
       (Rabs (qv qv_ - s_vel s1) <= 3 * Rabs (qv ma) * NS)%R /\
       (Rabs (qv qp_ - s_pos s1) <=
        pos_slack s0 s1 (qv mv) (qv ma) + NS * (Rabs (s_vel s1) + 3 * Rabs (qv ma) * NS))%R.
Proof. exact (@last_sample). Qed.

Theorem C07_completion_exact_R : forall (sb : bool) (s0 s1 : state) (mv ma : quantity) (p : mp) (t : Z),
       mp_new (ValuesProofs.cfg_chk sb) s0 s1 mv ma = Ok p ->
       mp_t3 p <= t ->
       s_acc s1 = 0%R ->
       mp_vel (ValuesProofs.cfg_chk sb) p t = Ok (Some (qnew (s_vel s1) UVm)) /\
       (s_vel s1 = 0%R -> mp_pos (ValuesProofs.cfg_chk sb) p t = Ok (Some (qnew (s_pos s1) UPm))).
Proof. exact (@completion_exact). Qed.

Theorem C07_ideal_exact_arrival_R : forall p0 v0 p1 v1 mv ma : R,
       mv <> 0%R ->
       ma <> 0%R ->
       let T1 := iT1 p0 v0 p1 mv ma in
       let T2 := iT2 p0 v0 p1 v1 mv ma in
       let T3 := iT3 p0 v0 p1 v1 mv ma in
       V3f (iA p0 p1 ma) v0 T1 T2 T3 = v1 /\ P3f (iA p0 p1 ma) v0 p0 T1 T2 (- T1 / 2) T3 = p1.
Proof. exact (@ideal_exact_arrival). Qed.

Theorem C07_model_is_truncated_ideal_R : forall (sb : bool) (s0 s1 : state) (mv ma : quantity) (p : mp) (t : Z),
       mp_new (ValuesProofs.cfg_chk sb) s0 s1 mv ma = Ok p ->
       mp_t1 p = ns_of (iT1 (s_pos s0) (s_vel s0) (s_pos s1) (qv mv) (qv ma)) /\
       mp_t2 p = ns_of (iT2 (s_pos s0) (s_vel s0) (s_pos s1) (s_vel s1) (qv mv) (qv ma)) /\
       mp_t3 p = ns_of (iT3 (s_pos s0) (s_vel s0) (s_pos s1) (s_vel s1) (qv mv) (qv ma)) /\
       mp_max_acc p = qnew (iA (s_pos s0) (s_pos s1) (qv ma)) UAm /\
       (mp_t2 p <= t < mp_t3 p ->
        (forall q : quantity,
         mp_vel (ValuesProofs.cfg_chk sb) p t = Ok (Some q) ->
         q =
         qnew (V3f (iA (s_pos s0) (s_pos s1) (qv ma)) (s_vel s0) (secs (mp_t1 p)) (secs (mp_t2 p)) (secs t))
           UVm) /\
        (forall q : quantity,
         mp_pos (ValuesProofs.cfg_chk sb) p t = Ok (Some q) ->
         q =
         qnew
           (P3f (iA (s_pos s0) (s_pos s1) (qv ma)) (s_vel s0) (s_pos s0) (secs (mp_t1 p)) 
              (secs (mp_t2 p)) (secs (hneg p)) (secs t)) UPm) /\
        (Rabs (secs (hneg p) - - secs (mp_t1 p) / 2) <= NS / 2)%R).
Proof. exact (@model_is_truncated_ideal). Qed.

Theorem C07_acceptance_R : forall (sb : bool) (s0 s1 : state) (mv ma : quantity),
       qu mv = UVm ->
       qu ma = UAm ->
       qv mv <> 0%R ->
       qv ma <> 0%R ->
       (Rabs (s_vel s0) <= Rabs (qv mv))%R ->
       (Rabs (s_vel s1) <= Rabs (qv mv))%R ->
       (ramp_dist (qv mv) (qv ma) (s_vel s0) + ramp_dist (qv mv) (qv ma) (s_vel s1) <=
        Rabs (s_pos s1 - s_pos s0))%R ->
       mp_new (ValuesProofs.cfg_chk sb) s0 s1 mv ma = Ok (built s0 s1 (qv mv) (qv ma)).
Proof. exact (@acceptance). Qed.

Theorem C07_negation_constructor_R : forall (sb : bool) (s0 s1 : @state R) (mv ma : @quantity R),
       @s_pos R s1 <> @s_pos R s0 ->
       @mp_new R RR (ValuesProofs.cfg_chk sb) (@s_neg R RR s0) (@s_neg R RR s1) mv ma =
       @ValuesProofs.res_map (@mp R) (@mp R) mp_negate (@mp_new R RR (ValuesProofs.cfg_chk sb) s0 s1 mv ma).
Proof. exact (@neg_constructor). Qed.

Theorem C07_negation_symmetry_R : forall (sb : bool) (s0 s1 : @state R) (mv ma : @quantity R),
       @s_pos R s1 <> @s_pos R s0 ->
       match @mp_new R RR (ValuesProofs.cfg_chk sb) s0 s1 mv ma with
       | Ok p =>
           match @mp_new R RR (ValuesProofs.cfg_chk sb) (@s_neg R RR s0) (@s_neg R RR s1) mv ma with
           | Ok p' =>
               forall t : Z,
               @mp_piece R p' t = @mp_piece R p t /\
               @mp_acc R RR (ValuesProofs.cfg_chk sb) p' t =
               @option_map (@quantity R) (@quantity R) (@qneg R RR)
                 (@mp_acc R RR (ValuesProofs.cfg_chk sb) p t) /\
               @mp_vel R RR (ValuesProofs.cfg_chk sb) p' t =
               @ValuesProofs.res_map (option (@quantity R)) (option (@quantity R))
                 (@option_map (@quantity R) (@quantity R) (@qneg R RR))
                 (@mp_vel R RR (ValuesProofs.cfg_chk sb) p t) /\
               @mp_pos R RR (ValuesProofs.cfg_chk sb) p' t =
               @ValuesProofs.res_map (option (@quantity R)) (option (@quantity R))
                 (@option_map (@quantity R) (@quantity R) (@qneg R RR))
                 (@mp_pos R RR (ValuesProofs.cfg_chk sb) p t)
           | Panic => False
           end
       | Panic =>
           match @mp_new R RR (ValuesProofs.cfg_chk sb) (@s_neg R RR s0) (@s_neg R RR s1) mv ma with
           | Ok _ => False
           | Panic => True
           end
       end.
Proof. exact (@negation_symmetry). Qed.

Theorem C07_example_accepted : forall sb : bool,
       exists p : mp,
         mp_new (ValuesProofs.cfg_chk sb) ex_s0 ex_s1 ex_mv ex_ma = Ok p /\
         mp_t1 p = 2000000000 /\ mp_t2 p = 5000000000 /\ mp_t3 p = 7000000000.
Proof. exact (@ex_accepted). Qed.

Theorem C07_velocity_slack_needed_witness : forall sb : bool,
       exists (p : mp) (q : quantity),
         mp_new (ValuesProofs.cfg_chk sb) (snew_raw 0%R w_v0 0%R) (snew_raw w_p1 w_v1 0%R) 
           (qnew 1%R UVm) (qnew 1%R UAm) = Ok p /\
         mp_vel (ValuesProofs.cfg_chk sb) p 4000000000 = Ok (Some q) /\
         (vmax 1 w_v0 w_v1 < Rabs (qv q))%R /\ Rabs (qv q) = (vmax 1 w_v0 w_v1 + 3 / 10 * (Rabs 1 * NS))%R.
Proof. exact (@slack_is_needed). Qed.

Theorem C07_zero_displacement_witness_R : forall sb : bool,
       let s := snew_raw 0%R 1%R 0%R in
       let mv := qnew 1%R UVm in
       let ma := qnew 1%R UAm in
       exists p p' : mp,
         mp_new (ValuesProofs.cfg_chk sb) s s mv ma = Ok p /\
         mp_new (ValuesProofs.cfg_chk sb) (s_neg s) (s_neg s) mv ma = Ok p' /\
         mp_t3 p = 0 /\
         mp_t1 p' = 2000000000 /\
         mp_t3 p' = 4000000000 /\
         mp_acc (ValuesProofs.cfg_chk sb) p 0 = Some (qnew 0%R UAm) /\
         mp_acc (ValuesProofs.cfg_chk sb) p' 0 = Some (qnew 1%R UAm).
Proof. exact (@zero_displacement_not_symmetric). Qed.

Print Assumptions C07_constructor_characterised_R.
Print Assumptions C07_instants_ordered_R.
Print Assumptions C07_velocity_bound_R.
Print Assumptions C07_arrival_velocity_R.
Print Assumptions C07_arrival_position_R.
Print Assumptions C07_last_sample_R.
Print Assumptions C07_completion_exact_R.
Print Assumptions C07_ideal_exact_arrival_R.
Print Assumptions C07_model_is_truncated_ideal_R.
Print Assumptions C07_acceptance_R.
Print Assumptions C07_negation_constructor_R.
Print Assumptions C07_negation_symmetry_R.
Print Assumptions C07_example_accepted.
Print Assumptions C07_velocity_slack_needed_witness.
Print Assumptions C07_zero_displacement_witness_R.
