(* C08 — Device update projects measured states onto the mechanical constraint.
   [G] what is written where (presence logic, newest time, frame) for every carrier;
   [R] on the real instance the written values are the least-squares projection (per component). *)
From Coq Require Import ZArith Bool List Reals Lra Arith.
From RRTK Require Import Num.Num Num.RR Model.Values Model.World Model.Devices Proofs.WorldProofs Proofs.DeviceProofs Proofs.RelayProofs Proofs.ProjReal.
Import ListNotations.

Section G.
Context {F : Type} {NF : Num F}.
Notation world := (@world F).
(* inverter, state part: a side without information receives the negated other side; with both,
   side1 := (s1 - s2)/2 and side2 := its exact negation, stamped with the newest time; every other
   terminal, every command slot and every link is unchanged *)
Theorem C08_inverter (w : world) t1 t2 :
  t1 <> t2 -> t1 < length w -> t2 < length w ->
  let w' := invert_states w t1 t2 in
  (forall k, k <> t1 -> k <> t2 -> slot_s w' k = slot_s w k) /\
  (forall k, slot_c w' k = slot_c w k /\ oth w' k = oth w k) /\
  match state_get w t1, state_get w t2 with
  | None, None => slot_s w' t1 = slot_s w t1 /\ slot_s w' t2 = slot_s w t2
  | None, Some d2 => slot_s w' t1 = Some (mkDatum (d_time d2) (s_neg (d_val d2))) /\ slot_s w' t2 = slot_s w t2
  | Some d1, None => slot_s w' t2 = Some (mkDatum (d_time d1) (s_neg (d_val d1))) /\ slot_s w' t1 = slot_s w t1
  | Some d1, Some d2 =>
      let ns := s_divf (s_sub (d_val d1) (d_val d2)) ftwo in
      slot_s w' t1 = Some (mkDatum (Z.max (d_time d1) (d_time d2)) ns) /\
      slot_s w' t2 = Some (mkDatum (Z.max (d_time d1) (d_time d2)) (s_neg ns))
  end.
Proof. exact (invert_state_effect w t1 t2). Qed.
Theorem C08_inverter_is_update (w : world) t1 t2 : invert_update w t1 t2 = invert_cmds (invert_states w t1 t2) t1 t2.
Proof. exact (invert_update_split w t1 t2). Qed.
(* the differential changes nothing but the state slots of its own terminals *)
Theorem C08_differential_frame (w : world) s1 s2 sm dt :
  s1 < length w -> s2 < length w -> sm < length w ->
  let w' := diff_update w s1 s2 sm dt in
  (forall k, slot_c w' k = slot_c w k /\ oth w' k = oth w k) /\
  (forall k, k <> s1 -> k <> s2 -> k <> sm -> slot_s w' k = slot_s w k) /\
  (forall i, cmd_get w' i = cmd_get w i).
Proof. exact (diff_frame w s1 s2 sm dt). Qed.
(* ... and does nothing until every branch it reads has data; the distrusted branch is recomputed
   from the other two reads *)
Theorem C08_differential_needs_data (w : world) s1 s2 sm :
  (state_get w sm = None \/ state_get w s2 = None -> diff_update w s1 s2 sm DSide1 = w) /\
  (state_get w sm = None \/ state_get w s1 = None -> diff_update w s1 s2 sm DSide2 = w) /\
  (state_get w s1 = None \/ state_get w s2 = None -> diff_update w s1 s2 sm DSum = w) /\
  (state_get w sm = None \/ state_get w s1 = None \/ state_get w s2 = None -> diff_update w s1 s2 sm DEqual = w) /\
  (forall a b, state_get w sm = Some a -> state_get w s2 = Some b -> diff_update w s1 s2 sm DSide1 = set_state w s1 (dstate_sub a b)) /\
  (forall a b, state_get w sm = Some a -> state_get w s1 = Some b -> diff_update w s1 s2 sm DSide2 = set_state w s2 (dstate_sub a b)) /\
  (forall a b, state_get w s1 = Some a -> state_get w s2 = Some b -> diff_update w s1 s2 sm DSum = set_state w sm (dstate_add a b)).
Proof.
  unfold diff_update. repeat split.
  - intros [->| H]; [reflexivity|]. destruct (state_get w sm); [rewrite H|]; reflexivity.
  - intros [->| H]; [reflexivity|]. destruct (state_get w sm); [rewrite H|]; reflexivity.
  - intros [->| H]; [reflexivity|]. destruct (state_get w s1); [rewrite H|]; reflexivity.
  - intros [->|[H|H]]; [reflexivity| |]; destruct (state_get w sm); try reflexivity.
    + rewrite H. reflexivity.
    + destruct (state_get w s1); [rewrite H|]; reflexivity.
  - intros a b -> ->. reflexivity.
  - intros a b -> ->. reflexivity.
  - intros a b -> ->. reflexivity.
Qed.
(* gear train built from tooth counts: ratio = first/last with sign (-1)^(gears-1); fewer than two panics *)
Theorem C08_teeth_ratio (teeth : list F) :
  (length teeth < 2 -> gear_ratio_of_teeth teeth = Panic) /\
  (2 <= length teeth -> forall f r, teeth = f :: r ->
     gear_ratio_of_teeth teeth = Ok (fmul (fdiv f (last teeth f)) (if Nat.even (length teeth) then fneg fone else fone))).
Proof. exact (teeth_ratio teeth). Qed.
End G.

(* [R] least squares, per component *)
Local Open Scope R_scope.
Theorem C08_inv_projection (x y a : R) :
  let n := (x - y) / 2 in (x - n)^2 + (y - - n)^2 <= (x - a)^2 + (y - - a)^2.
Proof. exact (inv_proj_min x y a). Qed.
Theorem C08_gear_projection (x y r a : R) :
  let d := (x + r * y) / (r * r + 1) in
  (x - d)^2 + (y - r * d)^2 <= (x - a)^2 + (y - r * a)^2 /\
  ((x + y * r) * r) / (r * r + 1) = r * ((x + y * r) / (r * r + 1)) /\
  (x + (r * x) * r) / (r * r + 1) = x.
Proof. exact (conj (gear_proj_min x y r a) (conj (gear_constraint x y r) (gear_fixed x r))). Qed.
Theorem C08_axle_projection (l : list R) (m : R) :
  l <> [] -> let mu := sum l / INR (length l) in sq_dev l mu <= sq_dev l m.
Proof. exact (axle_proj_min l m). Qed.
Theorem C08_diff_equal_projection (x y z a b : R) :
  let a' := (2 * x - y + z) / 3 in let b' := (- x + 2 * y + z) / 3 in
  (x - a')^2 + (y - b')^2 + (z - (a' + b'))^2 <= (x - a)^2 + (y - b)^2 + (z - (a + b))^2 /\
  a' + b' = (x + y + 2 * z) / 3.
Proof. exact (conj (diff_proj_min x y z a b) (diff_constraint x y z)). Qed.
Theorem C08_fixed_points (x y : R) :
  (2 * x - y + (x + y)) / 3 = x /\ (- x + 2 * y + (x + y)) / 3 = y /\ (x + y + 2 * (x + y)) / 3 = x + y.
Proof. exact (diff_fixed x y). Qed.
(* the model's own expressions, at the real instance, are these formulas (position component shown;
   velocity and acceleration are the same expression on the other fields) *)
Theorem C08_model_expressions_R (s1 s2 sm : @state R) (r : R) :
  s_pos (s_divf (s_sub s1 s2) ftwo) = (s_pos s1 - s_pos s2) / 2 /\
  s_pos (s_divf (s_add s1 (s_mulf s2 r)) (fadd (fmul r r) fone)) = (s_pos s1 + s_pos s2 * r) / (r * r + 1) /\
  s_pos (s_divf (s_mulf (s_add s1 (s_mulf s2 r)) r) (fadd (fmul r r) fone)) = ((s_pos s1 + s_pos s2 * r) * r) / (r * r + 1) /\
  s_pos (s_divf (s_add (s_add s1 s2) (s_mulf sm ftwo)) fthree) = (s_pos s1 + s_pos s2 + s_pos sm * 2) / 3 /\
  s_pos (s_divf (s_add (s_sub (s_mulf s1 ftwo) s2) sm) fthree) = (s_pos s1 * 2 - s_pos s2 + s_pos sm) / 3 /\
  s_pos (s_divf (s_add (s_add (s_neg s1) (s_mulf s2 ftwo)) sm) fthree) = (- s_pos s1 + s_pos s2 * 2 + s_pos sm) / 3.
Proof. repeat split. Qed.

Print Assumptions C08_inverter.
Print Assumptions C08_inverter_is_update.
Print Assumptions C08_differential_frame.
Print Assumptions C08_differential_needs_data.
Print Assumptions C08_teeth_ratio.
Print Assumptions C08_inv_projection.
Print Assumptions C08_gear_projection.
Print Assumptions C08_axle_projection.
Print Assumptions C08_diff_equal_projection.
Print Assumptions C08_fixed_points.
Print Assumptions C08_model_expressions_R.
