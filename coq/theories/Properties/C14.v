(* C14 — State kinematics and State/Command/Quantity conversions are exact and consistent. *)
From Coq Require Import ZArith Bool List Reals.
From RRTK Require Import Num.Num Num.RR Model.Values Proofs.ValuesProofs Proofs.StateProofs.
Local Open Scope Z_scope.

(* [R] exact arithmetic: for every dt (positive, zero, negative) *)
Theorem C14_update_closed_form (s : bool) (p v a : R) (dt : Z) :
  let d := (IZR dt / 1000000000)%R in
  s_update (cfg_chk s) {| s_pos := p; s_vel := v; s_acc := a |} dt =
  Ok {| s_pos := (p + v * d + a * d * d / 2)%R; s_vel := (v + a * d)%R; s_acc := a |}.
Proof. exact (update_closed_form s p v a dt). Qed.

Corollary C14_update_zero_dt_R (s : bool) (p v a : R) :
  s_update (cfg_chk s) {| s_pos := p; s_vel := v; s_acc := a |} 0 = Ok {| s_pos := p; s_vel := v; s_acc := a |}.
Proof. exact (update_zero_dt_R s p v a). Qed.

Section G.
Context {F : Type} {NF : Num F}.
Variable s : bool.
Notation c := (cfg_chk s).

(* for every carrier the update never panics with checking on, and leaves the acceleration alone *)
Theorem C14_update_shape (st : @state F) (dt : Z) :
  exists p v, s_update c st dt = Ok {| s_pos := p; s_vel := v; s_acc := s_acc st |} /\
    v = fadd (s_vel st) (fmul (fdiv (f_of_Z dt) f1e9) (s_acc st)) /\
    p = fadd (s_pos st) (fdiv (fmul (fdiv (f_of_Z dt) f1e9) (fadd (s_vel st) v)) ftwo).
Proof. eexists; eexists; split; [reflexivity|split; reflexivity]. Qed.

Theorem C14_setters (st : @state F) (q : @quantity F) :
  (qu q = {| mm := 1; sec := 0 |} -> s_set_pos c st q = ({| s_pos := qv q; s_vel := fzero; s_acc := fzero |}, true)) /\
  (qu q <> {| mm := 1; sec := 0 |} -> s_set_pos c st q = (st, false)) /\
  (qu q = {| mm := 1; sec := -1 |} -> s_set_vel c st q = ({| s_pos := s_pos st; s_vel := qv q; s_acc := fzero |}, true)) /\
  (qu q <> {| mm := 1; sec := -1 |} -> s_set_vel c st q = (st, false)) /\
  (qu q = {| mm := 1; sec := -2 |} -> s_set_acc c st q = ({| s_pos := s_pos st; s_vel := s_vel st; s_acc := qv q |}, true)) /\
  (qu q <> {| mm := 1; sec := -2 |} -> s_set_acc c st q = (st, false)).
Proof. exact (setters_spec s st q). Qed.

Theorem C14_raw_setters (st : @state F) (x : F) :
  s_set_pos_raw st x = {| s_pos := x; s_vel := fzero; s_acc := fzero |} /\
  s_set_vel_raw st x = {| s_pos := s_pos st; s_vel := x; s_acc := fzero |} /\
  s_set_acc_raw st x = {| s_pos := s_pos st; s_vel := s_vel st; s_acc := x |}.
Proof. exact (raw_setters_spec st x). Qed.

(* a command built from a state is its lowest non-zero derivative (IEEE ==, so -0.0 counts as zero) *)
Theorem C14_command_from_state (st : @state F) :
  (feqb (s_acc st) fzero = false -> c_of_state st = cnew Acceleration (s_acc st)) /\
  (feqb (s_acc st) fzero = true -> feqb (s_vel st) fzero = false -> c_of_state st = cnew Velocity (s_vel st)) /\
  (feqb (s_acc st) fzero = true -> feqb (s_vel st) fzero = true -> c_of_state st = cnew Position (s_pos st)).
Proof. exact (c_of_state_spec st). Qed.

Theorem C14_command_accessors (x : @command F) :
  cnew (c_kind x) (c_val x) = x /\
  c_of_q c (q_of_command c x) = Some x /\
  (forall q, c_of_q c q = Some x -> q = q_of_command c x) /\
  c_get_acc c x = qnew (match c_kind x with Acceleration => c_val x | _ => fzero end) {| mm := 1; sec := -2 |} /\
  (c_kind x = Position -> c_get_pos c x = Some (q_of_command c x) /\ c_get_vel c x = Some (qnew fzero {| mm := 1; sec := -1 |})) /\
  (c_kind x = Velocity -> c_get_pos c x = None /\ c_get_vel c x = Some (q_of_command c x)) /\
  (c_kind x = Acceleration -> c_get_pos c x = None /\ c_get_vel c x = None /\ c_get_acc c x = q_of_command c x).
Proof. exact (command_accessors s x). Qed.

Theorem C14_arithmetic (a b : @command F) (x y : @state F) (k : F) :
  (c_kind a = c_kind b -> c_add a b = Ok (cnew (c_kind a) (fadd (c_val a) (c_val b))) /\
                          c_sub a b = Ok (cnew (c_kind a) (fsub (c_val a) (c_val b)))) /\
  (c_kind a <> c_kind b -> c_add a b = Panic /\ c_sub a b = Panic) /\
  c_mulf a k = cnew (c_kind a) (fmul (c_val a) k) /\ c_divf a k = cnew (c_kind a) (fdiv (c_val a) k) /\
  c_neg a = cnew (c_kind a) (fneg (c_val a)) /\
  s_add x y = snew_raw (fadd (s_pos x) (s_pos y)) (fadd (s_vel x) (s_vel y)) (fadd (s_acc x) (s_acc y)) /\
  s_sub x y = snew_raw (fsub (s_pos x) (s_pos y)) (fsub (s_vel x) (s_vel y)) (fsub (s_acc x) (s_acc y)) /\
  s_mulf x k = snew_raw (fmul (s_pos x) k) (fmul (s_vel x) k) (fmul (s_acc x) k) /\
  s_divf x k = snew_raw (fdiv (s_pos x) k) (fdiv (s_vel x) k) (fdiv (s_acc x) k) /\
  s_neg x = snew_raw (fneg (s_pos x)) (fneg (s_vel x)) (fneg (s_acc x)).
Proof.
  destruct (command_arith a b k) as (H1 & H2 & H3 & H4 & H5).
  exact (conj H1 (conj H2 (conj H3 (conj H4 (conj H5 (conj eq_refl (conj eq_refl (conj eq_refl (conj eq_refl eq_refl))))))))).
Qed.
End G.

Print Assumptions C14_update_closed_form.
Print Assumptions C14_update_zero_dt_R.
Print Assumptions C14_update_shape.
Print Assumptions C14_setters.
Print Assumptions C14_raw_setters.
Print Assumptions C14_command_from_state.
Print Assumptions C14_command_accessors.
Print Assumptions C14_arithmetic.
