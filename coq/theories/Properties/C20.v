(* C20 — Device wrappers relay data between getters/settables and terminals unaltered. *)
From Coq Require Import ZArith Bool List.
From RRTK Require Import Num.Num Model.Values Model.Combinators Model.Streams Model.Settable Model.World Model.Devices.
Import ListNotations.

Section C20.
Context {F : Type} {NF : Num F}.
Variable c : cfg.
Notation world := (@world F).

(* actuator: the inner settable is handed exactly the combined data the terminal currently sees,
   nothing if it sees nothing; an error of the inner set is returned *)
Theorem C20_actuator (w : world) t (inner : @sett (@tdata F)) :
  (data_get w t = None -> actuator_update w t inner = (inner, UOk)) /\
  (forall td, data_get w t = Some td -> actuator_update w t inner = sett_set inner (d_val td)).
Proof. unfold actuator_update. split; [intros ->|intros td ->]; reflexivity. Qed.
(* encoder: inner.update(), then the inner getter's present state is written unchanged into the
   terminal; absent leaves the terminal untouched; errors propagate in that order *)
Theorem C20_encoder (w : world) t (io : out (@state F)) :
  (forall e, encoder_update w t (UErr e) io = (w, UErr e)) /\
  (forall e, io = OErr e -> encoder_update w t UOk io = (w, UErr e)) /\
  (io = ONone -> encoder_update w t UOk io = (w, UOk)) /\
  (forall d, io = OSome d -> encoder_update w t UOk io = (set_state w t d, UOk)).
Proof. repeat split; intros; subst; reflexivity. Qed.
(* PID wrapper: when the terminal sees data, the clock and the two constant getters take its time,
   state and command, and the embedded controller makes exactly the step of a stand-alone command PID
   that follows that command getter and reads that state getter; its output is what the inner motor
   (which follows the controller) is offered; errors of the controller return before the motor *)
Theorem C20_pid_wrapper_refines_command_pid (w : world) t (p : @pidw F) td :
  data_get w t = Some td ->
  let clock := td_time (d_val td) in
  let st := match td_state (d_val td) with Some s => cg_set (pw_state p) s | None => pw_state p end in
  let cm := match td_cmd (d_val td) with Some x => cg_set (pw_cmd p) x | None => pw_cmd p end in
  pidw_update c w t p =
  match cpid_step c (pw_pid p) (Some (cg_get cm (TOk clock))) (cg_get st (TOk clock)) with
  | Panic => Panic
  | Ok (pid', UErr e) => Ok ({| pw_clock := clock; pw_state := st; pw_cmd := cm; pw_pid := pid'; pw_inner := pw_inner p |}, UErr e)
  | Ok (pid', UOk) =>
      let '(inner', u) := sett_update (pw_inner p) (cpid_get pid') in
      Ok ({| pw_clock := clock; pw_state := st; pw_cmd := cm; pw_pid := pid'; pw_inner := inner' |}, u)
  end.
Proof.
  intros H clock st cm. unfold pidw_update. rewrite H. fold clock st cm.
  destruct (cpid_step c (pw_pid p) _ _) as [[pid' u]|]; [|reflexivity]. cbn [bind fst snd].
  destruct u; [|reflexivity]. cbn [pw_inner pw_pid pw_clock pw_state pw_cmd].
  destruct (sett_update (pw_inner p) (cpid_get pid')). reflexivity.
Qed.
Theorem C20_pid_wrapper_no_data (w : world) t (p : @pidw F) :
  data_get w t = None ->
  pidw_update c w t p =
  (let '(inner', u) := sett_update (pw_inner p) (cpid_get (pw_pid p)) in
   Ok ({| pw_clock := pw_clock p; pw_state := pw_state p; pw_cmd := pw_cmd p; pw_pid := pw_pid p; pw_inner := inner' |}, u)).
Proof. intros H. unfold pidw_update. rewrite H. cbn [bind fst snd]. destruct (sett_update _ _). reflexivity. Qed.
End C20.

Print Assumptions C20_actuator.
Print Assumptions C20_encoder.
Print Assumptions C20_pid_wrapper_refines_command_pid.
Print Assumptions C20_pid_wrapper_no_data.
