(* C14, binary32 tier: advancing a finite state by dt = 0 is the identity numerically. *)
From Coq Require Import ZArith.
From Flocq Require Import IEEE754.BinarySingleNaN.
From RRTK Require Import Num.Num Num.B32 Model.Values Proofs.ValuesProofs Proofs.ZeroB32.
Theorem C14_update_zero_dt (s : @state f32) :
  BinarySingleNaN.is_finite (s_pos s) = true -> BinarySingleNaN.is_finite (s_vel s) = true ->
  BinarySingleNaN.is_finite (s_acc s) = true -> BinarySingleNaN.is_finite (b32_add (s_vel s) (s_vel s)) = true ->
  exists s', @s_update f32 B32 (cfg_chk true) s 0 = Ok s' /\
    BinarySingleNaN.Beqb (s_vel s') (s_vel s) = true /\ BinarySingleNaN.Beqb (s_pos s') (s_pos s) = true /\ s_acc s' = s_acc s.
Proof. exact (update_zero_dt_b32 s). Qed.
Print Assumptions C14_update_zero_dt.
