(* C20, continued: run-level refinement of the PID wrapper by a stand-alone CommandPID, run-level statements for the actuator and encoder wrappers (Proofs/WrapperRun.v) *)
From Coq Require Import ZArith Bool List Arith Reals Lia.
From RRTK Require Import Num.Num Num.RR Num.B32 Num.Laws Model.Values Model.Prog Model.Combinators Model.Streams Model.Assembly Model.MotionProfile Model.World Model.Devices Proofs.WorldProofs Proofs.DeviceProofs Proofs.WrapperRun.
Import ListNotations.
Local Open Scope Z_scope.

Theorem C20_pid_wrapper_run_refines : forall (F : Type) (NF : Num F) (c : cfg) (rs : list round) (t : nat) (p : pidw),
       let os := observe (map fst rs) t (Settable.cg_val (pw_state p)) (Settable.cg_val (pw_cmd p)) in
       match pidw_run c rs t p with
       | Ok (p', us) =>
           exists outs : list (out F),
             cpid_trace c (pw_pid p) os = Ok (pw_pid p', outs) /\
             motor_run (pw_inner p) (combine (map snd rs) outs) = (pw_inner p', us) /\
             Settable.cg_val (pw_state p') = final_s os (Settable.cg_val (pw_state p)) /\
             Settable.cg_val (pw_cmd p') = final_c os (Settable.cg_val (pw_cmd p)) /\
             pw_clock p' = final_t os (pw_clock p)
       | Panic => cpid_trace c (pw_pid p) os = Panic
       end.
Proof. exact (@pidw_run_refines). Qed.

Theorem C20_pid_wrapper_run_from_init : forall (F : Type) (NF : Num F) (c : cfg) (rs : list round) (t : nat) (t0 : Z) 
         (s0 : state) (c0 : command) (k : pdkvals) (p' : pidw) (us : list upd),
       pidw_run c rs t (pidw_init t0 s0 c0 k) = Ok (p', us) ->
       exists outs : list (out F),
         cpid_trace c (cpid_init c0 k) (observe (map fst rs) t s0 c0) = Ok (pw_pid p', outs) /\
         length outs = length rs /\
         (forall e : err, ~ In (OErr e) outs) /\
         Settable.st_received (pw_inner p') = flat_map deliver (combine (map snd rs) outs) /\
         us = map round_result (combine (map snd rs) outs) /\
         (Forall (fun f : option err => f = None) (map snd rs) ->
          Settable.st_received (pw_inner p') = present_vals outs /\ us = map (fun _ : round => UOk) rs).
Proof. exact (@pid_wrapper_run_from_init). Qed.

Theorem C20_pid_wrapper_motor_log : forall (F : Type) (NF : Num F) (c : cfg) (rs : list round) (t : nat) (p p' : pidw) (us : list upd),
       Settable.st_following (pw_inner p) = true ->
       pidw_run c rs t p = Ok (p', us) ->
       exists outs : list (out F),
         cpid_trace c (pw_pid p)
           (observe (map fst rs) t (Settable.cg_val (pw_state p)) (Settable.cg_val (pw_cmd p))) =
         Ok (pw_pid p', outs) /\
         length outs = length rs /\
         Settable.st_received (pw_inner p') =
         Settable.st_received (pw_inner p) ++ flat_map deliver (combine (map snd rs) outs) /\
         us = map round_result (combine (map snd rs) outs) /\
         Settable.st_last (pw_inner p') =
         last_delivered (combine (map snd rs) outs) (Settable.st_last (pw_inner p)).
Proof. exact (@pid_wrapper_motor_log). Qed.

Theorem C20_pid_wrapper_panics_iff : forall (F : Type) (NF : Num F) (c : cfg) (rs : list round) (t : nat) (p : pidw),
       pidw_run c rs t p = Panic <->
       cpid_trace c (pw_pid p)
         (observe (map fst rs) t (Settable.cg_val (pw_state p)) (Settable.cg_val (pw_cmd p))) = Panic.
Proof. exact (@pid_wrapper_panics_iff). Qed.

Theorem C20_observe_events : forall (F : Type) (NF : Num F) (t j : nat) (evs : list tev) (w : world) (s : state) (cm : command),
       attached w t j -> observe (worlds_of w j evs) t s cm = observe_ev (slot_s w j) (slot_c w j) s cm evs.
Proof. exact (@observe_events). Qed.

Theorem C20_pid_wrapper_event_run : forall (F : Type) (NF : Num F) (c : cfg) (w : world) (t j : nat) (efs : list (tev * option err))
         (t0 : Z) (s0 : state) (c0 : command) (k : pdkvals) (p' : pidw) (us : list upd),
       attached w t j ->
       pidw_run c (ev_rounds w j efs) t (pidw_init t0 s0 c0 k) = Ok (p', us) ->
       exists outs : list (out F),
         cpid_trace c (cpid_init c0 k) (observe_ev (slot_s w j) (slot_c w j) s0 c0 (map fst efs)) =
         Ok (pw_pid p', outs) /\
         length outs = length efs /\
         (forall e : err, ~ In (OErr e) outs) /\
         Settable.st_received (pw_inner p') = flat_map deliver (combine (map snd efs) outs) /\
         us = map round_result (combine (map snd efs) outs) /\
         (Forall (fun f : option err => f = None) (map snd efs) ->
          Settable.st_received (pw_inner p') = present_vals outs /\
          us = map (fun _ : tev * option err => UOk) efs).
Proof. exact (@pid_wrapper_event_run). Qed.

Theorem C20_stale_round_feeds_same_stamp : forall (F : Type) (NF : Num F) (c : cfg) (pid : cpid) (u0 : cu0) (s : state),
       cp_st pid = CSome u0 ->
       cu_u1 u0 = None ->
       c_eqb (cp_cmd pid) (cp_cmd pid) = true ->
       let kind := c_kind (cp_cmd pid) in
       let dt0 := qv (q_of_time c 0) in
       let e := fsub (c_val (cp_cmd pid)) (qv (s_get_value c s kind)) in
       let drv := fdiv (fsub e (cu_error u0)) dt0 in
       let addend := fmul (fdiv (fadd (cu_error u0) e) ftwo) dt0 in
       let o := pdk_eval (cp_k pid) kind e addend drv in
       exists pid' : cpid,
         cpid_feed c pid (Some (cu_time u0, s, cp_cmd pid)) = Ok (pid', UOk) /\
         cp_st pid' =
         CSome
           {|
             cu_time := cu_time u0;
             cu_output := o;
             cu_error := e;
             cu_u1 :=
               Some
                 {|
                   cu_out_int := fmul (fdiv (fadd (cu_output u0) o) ftwo) dt0;
                   cu_err_int := addend;
                   cu_out_int_int := None
                 |}
           |}.
Proof. exact (@cpid_feed_same_stamp). Qed.

Theorem C20_actuator_run_log : forall (F : Type) (NF : Num F) (rs : list round) (t : nat) (inner : Settable.sett),
       Settable.st_received (fst (act_run rs t inner)) =
       Settable.st_received inner ++ flat_map (act_deliver t) rs /\
       snd (act_run rs t inner) = map (act_result t) rs /\
       Settable.st_last (fst (act_run rs t inner)) =
       fold_left
         (fun (a : option tdata) (wf : round) => match act_deliver t wf with
                                                 | [] => a
                                                 | v :: _ => Some v
                                                 end) rs (Settable.st_last inner) /\
       Settable.st_following (fst (act_run rs t inner)) = Settable.st_following inner.
Proof. exact (@actuator_run_log). Qed.

Theorem C20_actuator_run_accepting : forall (F : Type) (NF : Num F) (rs : list round) (t : nat) (inner : Settable.sett),
       Forall (fun wf : world * option err => snd wf = None) rs ->
       Settable.st_received (fst (act_run rs t inner)) = Settable.st_received inner ++ reads t (map fst rs) /\
       snd (act_run rs t inner) = map (fun _ : round => UOk) rs.
Proof. exact (@actuator_run_accepting). Qed.

Theorem C20_encoder_run_spec : forall (F : Type) (rs : list (@enc_round F)) (t : nat) (w : @world F),
       (t < @length (@term F) w)%nat ->
       let w' := @fst (@world F) (list (option (datum (@state F)) * upd)) (@enc_run F w t rs) in
       @snd (@world F) (list (option (datum (@state F)) * upd)) (@enc_run F w t rs) =
       @enc_spec F (@slot_s F w t) rs /\
       @slot_s F w' t =
       @fold_left (option (datum (@state F))) (@enc_round F) (@enc_next F) rs (@slot_s F w t) /\
       @length (@term F) w' = @length (@term F) w /\
       (forall k : nat, k <> t -> @slot_s F w' k = @slot_s F w k) /\
       (forall k : nat, @slot_c F w' k = @slot_c F w k /\ @oth F w' k = @oth F w k).
Proof. exact (@encoder_run_spec). Qed.

Theorem C20_example_pid_run : @Forall (option err) (fun f : option err => f = @None err)
         (@map (@tev f32 * option err) (option err) (@snd (@tev f32) (option err)) ex_efs) /\
       @map (@obs f32) (option (Z * (Z * Z * Z) * (pd * Z))) bits_obs
         (@observe_ev f32 (@None (datum (@state f32))) (@None (datum (@command f32))) ex_s0 ex_c0
            (@map (@tev f32 * option err) (@tev f32) (@fst (@tev f32) (option err)) ex_efs)) =
       [@Some (Z * (Z * Z * Z) * (pd * Z)) (0, (B0, B0, B0), (Position, B10));
        @Some (Z * (Z * Z * Z) * (pd * Z)) (1000000000, (B4, B0, B0), (Position, B10));
        @Some (Z * (Z * Z * Z) * (pd * Z)) (2000000000, (B7, B0, B0), (Position, B10))] /\
       show_run
         (@pidw_run f32 B32 ex_cfg (@ev_rounds f32 ex_w 1 ex_efs) 0 (@pidw_init f32 5 ex_s0 ex_c0 ex_k)) =
       @Some (list Z * list upd * Z * option (Z * Z))
         ([B20; B18; B17], [UOk; UOk; UOk], 2000000000, @Some (Z * Z) (2000000000, B17)) /\
       show_trace
         (@cpid_trace f32 B32 ex_cfg (@cpid_init f32 ex_c0 ex_k)
            (@observe_ev f32 (@None (datum (@state f32))) (@None (datum (@command f32))) ex_s0 ex_c0
               (@map (@tev f32 * option err) (@tev f32) (@fst (@tev f32) (option err)) ex_efs))) =
       @Some (option (Z * Z) * list (option (Z * Z)))
         (@Some (Z * Z) (2000000000, B17),
          [@Some (Z * Z) (0, B20); @Some (Z * Z) (1000000000, B18); @Some (Z * Z) (2000000000, B17)]).
Proof. exact (@ex_pid_run). Qed.

Theorem C20_example_stale_round : @map (@obs f32) (option (Z * (Z * Z * Z) * (pd * Z))) bits_obs
         (@observe_ev f32 (@None (datum (@state f32))) (@None (datum (@command f32))) ex_s0 ex_c0
            (@map (@tev f32 * option err) (@tev f32) (@fst (@tev f32) (option err)) ex_efs2)) =
       [@Some (Z * (Z * Z * Z) * (pd * Z)) (0, (B0, B0, B0), (Position, B10));
        @Some (Z * (Z * Z * Z) * (pd * Z)) (0, (B0, B0, B0), (Position, B10));
        @Some (Z * (Z * Z * Z) * (pd * Z)) (2000000000, (B7, B0, B0), (Position, B10))] /\
       show_run
         (@pidw_run f32 B32 ex_cfg (@ev_rounds f32 ex_w 1 ex_efs2) 0 (@pidw_init f32 5 ex_s0 ex_c0 ex_k)) =
       @Some (list Z * list upd * Z * option (Z * Z))
         ([B20; BNaN], [UOk; UOk; UErr (Other 7)], 2000000000, @Some (Z * Z) (2000000000, 1099563008)) /\
       show_trace
         (@cpid_trace f32 B32 ex_cfg (@cpid_init f32 ex_c0 ex_k)
            (@observe_ev f32 (@None (datum (@state f32))) (@None (datum (@command f32))) ex_s0 ex_c0
               (@map (@tev f32 * option err) (@tev f32) (@fst (@tev f32) (option err)) ex_efs2))) =
       @Some (option (Z * Z) * list (option (Z * Z)))
         (@Some (Z * Z) (2000000000, 1099563008),
          [@Some (Z * Z) (0, B20); @Some (Z * Z) (0, BNaN); @Some (Z * Z) (2000000000, 1099563008)]).
Proof. exact (@ex_pid_run_stale). Qed.

Print Assumptions C20_pid_wrapper_run_refines.
Print Assumptions C20_pid_wrapper_run_from_init.
Print Assumptions C20_pid_wrapper_motor_log.
Print Assumptions C20_pid_wrapper_panics_iff.
Print Assumptions C20_observe_events.
Print Assumptions C20_pid_wrapper_event_run.
Print Assumptions C20_stale_round_feeds_same_stamp.
Print Assumptions C20_actuator_run_log.
Print Assumptions C20_actuator_run_accepting.
Print Assumptions C20_encoder_run_spec.
Print Assumptions C20_example_pid_run.
Print Assumptions C20_example_stale_round.
