(* C18 — Time and integer quantities: exact integer arithmetic, faithful float conversion.
   G tier here; the binary32 error bounds (B tier) are in Properties/C18B.v. *)
From Coq Require Import ZArith Bool List.
From RRTK Require Import Num.Num Num.Laws Model.Values Proofs.ValuesProofs Proofs.IntProofs.
Local Open Scope Z_scope.

(* Time / DimensionlessInteger arithmetic is exact i64 arithmetic whenever the result is
   representable ([/] is truncating division; division by zero panics); a debug build panics on
   overflow (release wrap-around is not modelled). *)
Theorem C18_integer_ops a b :
  (in_i64 (a + b) = true -> iadd a b = Ok (a + b)) /\
  (in_i64 (a - b) = true -> isub a b = Ok (a - b)) /\
  (in_i64 (a * b) = true -> imul a b = Ok (a * b)) /\
  (in_i64 (- a) = true -> ineg a = Ok (- a)) /\
  (b <> 0 -> in_i64 (Z.quot a b) = true -> idiv a b = Ok (Z.quot a b)) /\
  idiv a 0 = Panic /\
  (in_i64 (a + b) = false -> iadd a b = Panic) /\
  (in_i64 (a - b) = false -> isub a b = Panic) /\
  (in_i64 (a * b) = false -> imul a b = Panic).
Proof. exact (int_ops_exact a b). Qed.

Section C18.
Context {F : Type} {NF : Num F}.
Variable s : bool.
Notation c := (cfg_chk s).

(* Time -> Quantity is nanoseconds / 1e9 in seconds; DimensionlessInteger -> Quantity is dimensionless *)
Theorem C18_conversions_to_quantity (n : Z) :
  q_of_time c n = {| qv := fdiv (f_of_Z n) (f_of_Z 1000000000); qu := {| mm := 0; sec := 1 |} |} /\
  @q_of_dint F NF c n = {| qv := f_of_Z n; qu := {| mm := 0; sec := 0 |} |}.
Proof. exact (conj eq_refl eq_refl). Qed.

(* conversion back succeeds exactly for seconds / dimensionless and is value*1e9 truncated *)
Theorem C18_other_units_fail (q : @quantity F) :
  (qu q = {| mm := 0; sec := 1 |} -> time_of_q c q = Some (f_to_i64 (fmul (qv q) (f_of_Z 1000000000)))) /\
  (qu q <> {| mm := 0; sec := 1 |} -> time_of_q c q = None) /\
  (qu q = {| mm := 0; sec := 0 |} -> dint_of_q c q = Some (f_to_i64 (qv q))) /\
  (qu q <> {| mm := 0; sec := 0 |} -> dint_of_q c q = None).
Proof.
  exact (conj (proj1 (time_of_q_iff s q)) (conj (proj2 (time_of_q_iff s q))
        (conj (proj1 (dint_of_q_iff s q)) (proj2 (dint_of_q_iff s q))))).
Qed.

(* every mixed operator yielding a Quantity is the Quantity operator on converted operands;
   the two written with swapped operands need commutativity of the carrier's multiplication *)
Theorem C18_mixed_ops (t d : Z) (q : @quantity F) :
  q_add_t c q t = qadd c q (q_of_time c t) /\ q_sub_t c q t = qsub c q (q_of_time c t) /\
  q_mul_t c q t = qmul c q (q_of_time c t) /\ q_div_t c q t = qdiv c q (q_of_time c t) /\
  q_add_d c q d = qadd c q (q_of_dint c d) /\ q_sub_d c q d = qsub c q (q_of_dint c d) /\
  q_mul_d c q d = qmul c q (q_of_dint c d) /\ q_div_d c q d = qdiv c q (q_of_dint c d) /\
  t_add_q c t q = qadd c (q_of_time c t) q /\ t_sub_q c t q = qsub c (q_of_time c t) q /\
  t_div_q c t q = qdiv c (q_of_time c t) q /\
  d_add_q c d q = qadd c (q_of_dint c d) q /\ d_sub_q c d q = qsub c (q_of_dint c d) q /\
  d_div_q c d q = qdiv c (q_of_dint c d) q /\
  t_mul_t c t d = qmul c (q_of_time c t) (q_of_time c d) /\ t_div_t c t d = qdiv c (q_of_time c t) (q_of_time c d) /\
  d_div_t c d t = qdiv c (q_of_dint c d) (q_of_time c t).
Proof. repeat split. Qed.

Theorem C18_mixed_ops_swapped {L : NumLaws F} (t d : Z) (q : @quantity F) :
  t_mul_q c t q = qmul c (q_of_time c t) q /\ d_mul_q c d q = qmul c (q_of_dint c d) q.
Proof. exact (mixed_swapped s t d q). Qed.
End C18.

Example C18_nonvacuous : iadd 9223372036854775807 1 = Panic /\ iadd 5 7 = Ok 12 /\ idiv (-7) 2 = Ok (-3) /\ idiv (-9223372036854775808) (-1) = Panic.
Proof. repeat split. Qed.

Print Assumptions C18_integer_ops.
Print Assumptions C18_conversions_to_quantity.
Print Assumptions C18_other_units_fail.
Print Assumptions C18_mixed_ops.
Print Assumptions C18_mixed_ops_swapped.
Print Assumptions C18_nonvacuous.
