(* C11, continued: closed forms of CommandPID over a run on the reals, shift invariance (Proofs/SumsReal.v) *)
From Coq Require Import ZArith Bool List Arith Reals Lia.
From RRTK Require Import Num.Num Num.RR Num.B32 Num.Laws Model.Values Model.Prog Model.Combinators Model.Streams Model.Assembly Model.MotionProfile Model.World Model.Devices Proofs.SumsReal.
Import ListNotations.
Local Open Scope Z_scope.

Theorem C11_closed_form_R : forall (c : cfg) (cmd : command) (ks : pdkvals) (s : cpid) (l : list (datum state)),
       cp_cmd s = cmd ->
       cp_k s = ks ->
       cp_st s = CNone \/ (exists e : err, cp_st s = CErr e) ->
       l <> [] ->
       gaps_ok (map d_time l) ->
       exists s' : cpid,
         run (cstep c) s (map OSome l) = Ok s' /\
         cp_cmd s' = cmd /\
         cp_k s' = ks /\
         cpid_get s' =
         match c_kind cmd with
         | Position => OSome {| d_time := ltime (cerrs cmd l); d_val := ulaw cmd ks (cerrs cmd l) |}
         | Velocity =>
             if (2 <=? length l)%nat
             then OSome {| d_time := ltime (cerrs cmd l); d_val := uint cmd ks (cerrs cmd l) |}
             else ONone
         | Acceleration =>
             if (3 <=? length l)%nat
             then OSome {| d_time := ltime (cerrs cmd l); d_val := uint2 cmd ks (cerrs cmd l) |}
             else ONone
         end.
Proof. exact (@cpid_closed_form). Qed.

Theorem C11_start_states : forall (F : Type) (NF : Num F) (c : cfg) (s : @cpid F) (cmd : @command F) 
         (ks : @pdkvals F) (e : err) (x : @command F),
       @cfresh F (@cpid_init F cmd ks) /\
       (forall s' : @cpid F,
        @cpid_step F NF c s (@None (out (@command F))) (@ONone (@state F)) = @Ok (@cpid F * upd) (s', UOk) ->
        @cfresh F s' /\ @cp_cmd F s' = @cp_cmd F s /\ @cp_k F s' = @cp_k F s) /\
       (forall (s' : @cpid F) (u : upd),
        @cpid_step F NF c s (@None (out (@command F))) (@OErr (@state F) e) = @Ok (@cpid F * upd) (s', u) ->
        @cfresh F s' /\ @cp_cmd F s' = @cp_cmd F s /\ @cp_k F s' = @cp_k F s) /\
       (@c_eqb F NF x (@cp_cmd F s) = false ->
        @cfresh F (@cpid_set F NF s x) /\
        @cp_cmd F (@cpid_set F NF s x) = x /\ @cp_k F (@cpid_set F NF s x) = @cp_k F s).
Proof. exact (@cpid_start_states). Qed.

Theorem C11_follow_same_command : forall (F : Type) (NF : Num F) (c : cfg) (l : list (option (out (@command F)) * out (@state F)))
         (a b : @cpid F),
       @eq_mod_last F a b ->
       @Forall (option (out (@command F)) * out (@state F))
         (fun fi : option (out (@command F)) * out (@state F) =>
          @follow_same F NF (@cp_cmd F b) (@fst (option (out (@command F))) (out (@state F)) fi)) l ->
       match @run (@cpid F) (option (out (@command F)) * out (@state F)) (@cstepf F NF c) a l with
       | Ok a' =>
           match
             @run (@cpid F) (out (@state F)) (@cstep F NF c) b
               (@map (option (out (@command F)) * out (@state F)) (out (@state F))
                  (@snd (option (out (@command F))) (out (@state F))) l)
           with
           | Ok b' => @eq_mod_last F a' b' /\ @cpid_get F a' = @cpid_get F b'
           | Panic => False
           end
       | Panic =>
           match
             @run (@cpid F) (out (@state F)) (@cstep F NF c) b
               (@map (option (out (@command F)) * out (@state F)) (out (@state F))
                  (@snd (option (out (@command F))) (out (@state F))) l)
           with
           | Ok _ => False
           | Panic => True
           end
       end.
Proof. exact (@cpid_run_follow_same). Qed.

Theorem C11_closed_form_follow_R : forall (c : cfg) (cmd : command) (ks : pdkvals) (s : cpid)
         (l : list (option (out command) * datum state)),
       cp_cmd s = cmd ->
       cp_k s = ks ->
       cfresh s ->
       l <> [] ->
       gaps_ok (map (fun x : option (out command) * datum state => d_time (snd x)) l) ->
       Forall (fun x : option (out command) * datum state => follow_same cmd (fst x)) l ->
       exists s' : cpid,
         run (cstepf c) s (map (fun x : option (out command) * datum state => (fst x, OSome (snd x))) l) =
         Ok s' /\
         cpid_get s' =
         (let es := cerrs cmd (map snd l) in
          match c_kind cmd with
          | Position => OSome {| d_time := ltime es; d_val := ulaw cmd ks es |}
          | Velocity =>
              if (2 <=? length l)%nat then OSome {| d_time := ltime es; d_val := uint cmd ks es |} else ONone
          | Acceleration =>
              if (3 <=? length l)%nat
              then OSome {| d_time := ltime es; d_val := uint2 cmd ks es |}
              else ONone
          end).
Proof. exact (@cpid_closed_form_follow). Qed.

Theorem C11_shift_runs : forall (F : Type) (NF : Num F) (c : cfg) (k : Z) (s : @cpid F)
         (l : list (option (out (@command F)) * out (@state F))),
       @run (@cpid F) (option (out (@command F)) * out (@state F))
         (fun (s0 : @cpid F) (fi : option (out (@command F)) * out (@state F)) =>
          @cpid_step F NF c s0 (@fst (option (out (@command F))) (out (@state F)) fi)
            (@snd (option (out (@command F))) (out (@state F)) fi)) (@sh_cpid F k s)
         (@map (option (out (@command F)) * out (@state F)) (option (out (@command F)) * out (@state F))
            (fun fi : option (out (@command F)) * out (@state F) =>
             (@fst (option (out (@command F))) (out (@state F)) fi,
              @sh_out k (@state F) (@snd (option (out (@command F))) (out (@state F)) fi))) l) =
       @map_res (@cpid F) (@cpid F) (@sh_cpid F k)
         (@run (@cpid F) (option (out (@command F)) * out (@state F))
            (fun (s0 : @cpid F) (fi : option (out (@command F)) * out (@state F)) =>
             @cpid_step F NF c s0 (@fst (option (out (@command F))) (out (@state F)) fi)
               (@snd (option (out (@command F))) (out (@state F)) fi)) s l).
Proof. exact (@C11_shift_runs). Qed.

Theorem C11_panic_iff_time_gap_overflow : forall (F : Type) (NF : Num F) (c : cfg) (cmd : @command F) (ks : @pdkvals F)
         (l : list (datum (@state F))) (s : @cpid F),
       @cinv F NF cmd ks [] s ->
       @run (@cpid F) (out (@state F)) (@cstep F NF c) s
         (@map (datum (@state F)) (out (@state F)) (@OSome (@state F)) l) <> @Panic (@cpid F) <->
       gaps_ok (@map (datum (@state F)) Z (@d_time (@state F)) l).
Proof. exact (@gaps_exact_C11). Qed.

Theorem C11_example_velocity : forall c : cfg,
       exists s' : cpid,
         run (cstep c) (cpid_init (cnew Velocity 5%R) ex_ks) (map OSome ex_states) = Ok s' /\
         cpid_get s' = OSome {| d_time := 3000000000; d_val := 19%R |}.
Proof. exact (@ex_cpid). Qed.

Theorem C11_example_acceleration : forall c : cfg,
       exists s' : cpid,
         run (cstep c) (cpid_init (cnew Acceleration 5%R) ex_ks) (map OSome ex_states) = Ok s' /\
         cpid_get s' = OSome {| d_time := 3000000000; d_val := (51 / 2)%R |}.
Proof. exact (@ex_cpid_acc). Qed.

Print Assumptions C11_closed_form_R.
Print Assumptions C11_start_states.
Print Assumptions C11_follow_same_command.
Print Assumptions C11_closed_form_follow_R.
Print Assumptions C11_shift_runs.
Print Assumptions C11_panic_iff_time_gap_overflow.
Print Assumptions C11_example_velocity.
Print Assumptions C11_example_acceleration.
