(* C15 — Settable bookkeeping, following and history adapters map values and time exactly. *)
From Coq Require Import ZArith Bool List.
From RRTK Require Import Num.Num Model.Values Model.Combinators Model.Streams Model.Settable Proofs.SettableProofs Proofs.CombProofs.
Import ListNotations.
Local Open Scope Z_scope.

(* after ANY sequence of set / follow / stop_following / update / failure-mode operations the last
   request is the newest value that the inner set accepted (None if none was) *)
Theorem C15_last_request {S} (ops : list (@sop S)) :
  st_last (fold_left sstep ops sett_init) = last_opt (st_received (fold_left sstep ops sett_init)).
Proof. exact (last_request_is_last_accepted ops). Qed.
Theorem C15_set {S} (s : @sett S) v :
  (st_fail s = None -> sett_set s v = ({| st_last := Some v; st_following := st_following s;
                                          st_received := st_received s ++ [v]; st_fail := None |}, UOk)) /\
  (forall e, st_fail s = Some e -> sett_set s v = (s, UErr e)).
Proof. exact (sett_set_spec s v). Qed.
Theorem C15_following {S} (s : @sett S) (g : out S) :
  (st_following s = false -> sett_update s g = (s, UOk)) /\
  (st_following s = true ->
     (forall e, g = OErr e -> sett_update s g = (s, UErr e)) /\
     (g = ONone -> sett_update s g = (s, UOk)) /\
     (forall d, g = OSome d -> sett_update s g = sett_set s (d_val d))) /\
  st_following (sett_follow s) = true /\ st_following (sett_stop s) = false.
Proof. exact (following_spec s g). Qed.

(* a getter over a history returns the history's value at (now + offset) restamped with now *)
Theorem C15_history_adapter {G} (h : Z -> option (datum G)) delta now :
  in_i64 (now + delta) = true -> gfh_get h delta (TOk now) = Ok (restamp now (h (now + delta))).
Proof. exact (gfh_get_spec h delta now). Qed.
Theorem C15_history_adapter_error {G} (h : Z -> option (datum G)) delta e : gfh_get h delta (TErr e) = Ok (OErr e).
Proof. exact (gfh_get_error h delta e). Qed.
Theorem C15_offsets (c0 s k : Z) :
  (in_i64 (- c0) = true -> gfh_start_at_zero (TOk c0) = Ok (inr (- c0)) /\ (c0 + k) + (- c0) = k) /\
  (in_i64 (s - c0) = true -> gfh_custom_start (TOk c0) s = Ok (inr (s - c0)) /\ (c0 + k) + (s - c0) = s + k) /\
  (forall d0, in_i64 (s - c0) = true -> gfh_set_time d0 (TOk c0) s = Ok (s - c0, UOk)) /\
  (forall d0 e, gfh_set_time d0 (TErr e) s = Ok (d0, UErr e)) /\
  (forall e, gfh_start_at_zero (TErr e) = Ok (inl e) /\ gfh_custom_start (TErr e) s = Ok (inl e)).
Proof. exact (gfh_offsets c0 s k). Qed.

Theorem C15_constant_getter {T} (s : @cgetter T) (now : tout) (v : T) (g : out T) :
  cg_get s now = match now with TErr e => OErr e | TOk t => OSome (mkDatum t (cg_val s)) end /\
  cg_val (cg_set s v) = v /\ cg_last (cg_set s v) = Some v /\
  (cg_following s = false -> cg_update s g = (s, UOk)).
Proof. exact (constant_getter_spec s now v g). Qed.
Theorem C15_time_getter_from_getter {T} (i : out T) :
  time_getter_from_getter i = match i with OErr e => TErr e | ONone => TErr FromNone | OSome d => TOk (d_time d) end.
Proof. destruct i; exact eq_refl. Qed.

Print Assumptions C15_last_request.
Print Assumptions C15_set.
Print Assumptions C15_following.
Print Assumptions C15_history_adapter.
Print Assumptions C15_history_adapter_error.
Print Assumptions C15_offsets.
Print Assumptions C15_constant_getter.
Print Assumptions C15_time_getter_from_getter.
