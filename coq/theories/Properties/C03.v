(* C03 — Combined data carry the newest contributing timestamp; selection picks newest.
   The value-layer part; stream-level and device-level corollaries are added with those models. *)
From Coq Require Import ZArith Bool List.
From RRTK Require Import Num.Num Model.Values Model.Prog Proofs.DatumProofs.
Local Open Scope Z_scope.

(* the two ways the source writes the rule are both [Z.max] *)
Theorem C03_time_rules a b : tmax_ge a b = Z.max a b /\ tmax_gt a b = Z.max a b.
Proof. exact (conj (tmax_ge_max a b) (tmax_gt_max a b)). Qed.

Section Deep.
Context {F : Type} {NF : Num F}.
Variable c : cfg.
(* every Datum (op) Datum form -- +, -, *, / and their assign forms, every payload type the crate
   implements them for -- yields the newest of the two timestamps and the payload operator's value *)
Theorem C03_datum_datum o asg t1 v1 t2 v2 r :
  arith c o asg (VDat t1 v1) (VDat t2 v2) = RVal r ->
  exists v, r = VDat (Z.max t1 t2) v /\ arith c o asg v1 v2 = RVal v.
Proof. exact (arith_dat_dat c o asg t1 v1 t2 v2 r). Qed.
(* combining with a bare scalar leaves the timestamp unchanged *)
Theorem C03_datum_scalar o asg t1 v1 y r :
  (forall t w, y <> VDat t w) ->
  arith c o asg (VDat t1 v1) y = RVal r ->
  exists v, r = VDat t1 v /\ arith c o asg v1 y = RVal v.
Proof. exact (arith_dat_scalar c o asg t1 v1 y r). Qed.
Theorem C03_neg_not_keep_time t v r :
  (neg_val (VDat t v) = RVal r -> exists w, r = VDat t w) /\ (@not_val F (VDat t v) = RVal r -> exists w, r = VDat t w).
Proof. exact (neg_not_keep_time t v r). Qed.
End Deep.

Theorem C03_replace_helpers {T} (self cand : datum T) (oself : option (datum T)) (ocand : option (datum T)) :
  (d_time cand > d_time self -> replace_if_older_than self cand = (cand, true)) /\
  (d_time cand <= d_time self -> replace_if_older_than self cand = (self, false)) /\
  (oself = None -> replace_if_none_or_older_than oself cand = (Some cand, true)) /\
  (forall s, oself = Some s -> d_time cand > d_time s -> replace_if_none_or_older_than oself cand = (Some cand, true)) /\
  (forall s, oself = Some s -> d_time cand <= d_time s -> replace_if_none_or_older_than oself cand = (oself, false)) /\
  (ocand = None -> replace_if_none_or_older_than_option oself ocand = (oself, false)) /\
  (forall x, ocand = Some x -> replace_if_none_or_older_than_option oself ocand = replace_if_none_or_older_than oself x).
Proof.
  destruct (replace_if_older_than_spec self cand) as [A B].
  destruct (replace_if_none_or_older_than_spec oself cand) as (C & D & E).
  destruct (replace_option_spec oself ocand) as [G H].
  exact (conj A (conj B (conj C (conj D (conj E (conj G H)))))).
Qed.

Theorem C03_latest {T} (a b : datum T) :
  (latest a b = a \/ latest a b = b) /\ d_time (latest a b) = Z.max (d_time a) (d_time b) /\
  (d_time a >= d_time b -> latest a b = a) /\ (d_time a < d_time b -> latest a b = b).
Proof. exact (latest_spec a b). Qed.

Print Assumptions C03_time_rules.
Print Assumptions C03_datum_datum.
Print Assumptions C03_datum_scalar.
Print Assumptions C03_neg_not_keep_time.
Print Assumptions C03_replace_helpers.
Print Assumptions C03_latest.
