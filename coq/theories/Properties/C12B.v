(* C12, continued: rounding bounds on binary32 for one EWMA step and a two-sample moving average; exact monotonicity facts (Proofs/ConvexB32.v) *)
From Coq Require Import ZArith Bool List Arith Reals Lia.
From RRTK Require Import Num.Num Num.RR Num.B32 Num.Laws Model.Values Model.Prog Model.Combinators Model.Streams Model.Assembly Model.MotionProfile Model.World Model.Devices Proofs.ConvexB32.
Import ListNotations.
Local Open Scope Z_scope.

Theorem C12_mix_is_model_expression : forall (tbl : list (Z * Z * Z)) (p n L : f32),
       @mix_f f32 (B32_with_pow tbl) p n L = @Ok f32 (mixv p n L).
Proof. exact (@mix_f_B32). Qed.

Theorem C12_ewma_step_bound_B32 : forall p n L : f32,
       mix_normal p n L = true ->
       let E := (3 * u32 * absmax p n)%R in
       (Rmin (@BinarySingleNaN.B2R 24 128 p) (@BinarySingleNaN.B2R 24 128 n) - E <=
        @BinarySingleNaN.B2R 24 128 (mixv p n L) <=
        Rmax (@BinarySingleNaN.B2R 24 128 p) (@BinarySingleNaN.B2R 24 128 n) + E)%R.
Proof. exact (@mix_step_bound). Qed.

Theorem C12_ewma_step_bound_general_B32 : forall p n L : f32,
       mix_pre p n L = true ->
       let E := (3 * u32 * absmax p n + Raux.bpow Zaux.radix2 (-148))%R in
       (Rmin (@BinarySingleNaN.B2R 24 128 p) (@BinarySingleNaN.B2R 24 128 n) - E <=
        @BinarySingleNaN.B2R 24 128 (mixv p n L) <=
        Rmax (@BinarySingleNaN.B2R 24 128 p) (@BinarySingleNaN.B2R 24 128 n) + E)%R.
Proof. exact (@mix_step_bound_general). Qed.

Theorem C12_ewma_constant_bound_B32 : forall p n L : f32,
       mix_normal p n L = true ->
       @BinarySingleNaN.B2R 24 128 p = @BinarySingleNaN.B2R 24 128 n ->
       (Rabs (@BinarySingleNaN.B2R 24 128 (mixv p n L) - @BinarySingleNaN.B2R 24 128 p) <=
        3 * u32 * Rabs (@BinarySingleNaN.B2R 24 128 p))%R.
Proof. exact (@mix_step_constant). Qed.

Theorem C12_mix_f_bound_B32 : forall (tbl : list (Z * Z * Z)) (p n L : f32),
       mix_normal p n L = true ->
       exists r : f32,
         @mix_f f32 (B32_with_pow tbl) p n L = @Ok f32 r /\
         @BinarySingleNaN.is_finite 24 128 r = true /\
         (let E :=
            (3 * u32 * Rmax (Rabs (@BinarySingleNaN.B2R 24 128 p)) (Rabs (@BinarySingleNaN.B2R 24 128 n)))%R
            in
          (Rmin (@BinarySingleNaN.B2R 24 128 p) (@BinarySingleNaN.B2R 24 128 n) - E <=
           @BinarySingleNaN.B2R 24 128 r <=
           Rmax (@BinarySingleNaN.B2R 24 128 p) (@BinarySingleNaN.B2R 24 128 n) + E)%R).
Proof. exact (@mix_f_bound). Qed.

Theorem C12_ewma_model_step_bound_B32 : forall (tbl : list (Z * Z * Z)) (c : cfg) (s s' : @ewma f32 f32) (p o : datum f32) (pt : Z) (up : upd),
       @ew_val f32 f32 s = @OSome f32 p ->
       @ew_time f32 f32 s = @Some Z pt ->
       @ewma_step f32 (B32_with_pow tbl) c f32 (@mix_f f32 (B32_with_pow tbl)) s (@OSome f32 o) =
       @Ok (@ewma f32 f32 * upd) (s', up) ->
       exists dt L r : f32,
         @dt_f f32 (B32_with_pow tbl) c (@d_time f32 o) pt = @Ok f32 dt /\
         L = b32_sub one32 (b32_pow tbl (b32_sub one32 (@ew_s f32 f32 s)) dt) /\
         r = mixv (@d_val f32 p) (@d_val f32 o) L /\
         @ew_val f32 f32 s' = @OSome f32 {| d_time := @d_time f32 o; d_val := r |} /\
         @ew_time f32 f32 s' = @Some Z (@d_time f32 o) /\
         up = UOk /\
         (mix_normal (@d_val f32 p) (@d_val f32 o) L = true ->
          let E :=
            (3 * u32 *
             Rmax (Rabs (@BinarySingleNaN.B2R 24 128 (@d_val f32 p)))
               (Rabs (@BinarySingleNaN.B2R 24 128 (@d_val f32 o))))%R in
          @BinarySingleNaN.is_finite 24 128 r = true /\
          (Rmin (@BinarySingleNaN.B2R 24 128 (@d_val f32 p)) (@BinarySingleNaN.B2R 24 128 (@d_val f32 o)) - E <=
           @BinarySingleNaN.B2R 24 128 r <=
           Rmax (@BinarySingleNaN.B2R 24 128 (@d_val f32 p)) (@BinarySingleNaN.B2R 24 128 (@d_val f32 o)) + E)%R).
Proof. exact (@ewma_step_bound_B32). Qed.

Theorem C12_ma_two_samples_bound_B32 : forall (x1 x2 : f32) (w1 w2 : Z),
       ma2_ok x1 x2 w1 w2 = true ->
       let E := (8 * u32 * absmax x1 x2)%R in
       (Rmin (@BinarySingleNaN.B2R 24 128 x1) (@BinarySingleNaN.B2R 24 128 x2) - E <=
        @BinarySingleNaN.B2R 24 128 (mav x1 x2 w1 w2 (w1 + w2)) <=
        Rmax (@BinarySingleNaN.B2R 24 128 x1) (@BinarySingleNaN.B2R 24 128 x2) + E)%R.
Proof. exact (@ma2_bound). Qed.

Theorem C12_ma_model_step_two_B32 : forall (tbl : list (Z * Z * Z)) (c : cfg) (s s' : @mavg f32) (o d1 d2 : datum f32) (up : upd),
       @ma_step f32 (@ma_acc_f f32 (B32_with_pow tbl) c) s (@OSome f32 o) = @Ok (@mavg f32 * upd) (s', up) ->
       @ma_q f32 s' = [d1; d2] ->
       let w1 := @d_time f32 d1 - (@d_time f32 o - @ma_win f32 s) in
       let w2 := @d_time f32 o - @d_time f32 d1 in
       d2 = o /\
       w1 + w2 = @ma_win f32 s /\
       up = UOk /\
       @ma_val f32 s' =
       @OSome f32 {| d_time := @d_time f32 o; d_val := mav (@d_val f32 d1) (@d_val f32 o) w1 w2 (w1 + w2) |} /\
       (ma2_ok (@d_val f32 d1) (@d_val f32 o) w1 w2 = true ->
        let r := mav (@d_val f32 d1) (@d_val f32 o) w1 w2 (w1 + w2) in
        let E :=
          (8 * u32 *
           Rmax (Rabs (@BinarySingleNaN.B2R 24 128 (@d_val f32 d1)))
             (Rabs (@BinarySingleNaN.B2R 24 128 (@d_val f32 o))))%R in
        @BinarySingleNaN.is_finite 24 128 r = true /\
        (Rmin (@BinarySingleNaN.B2R 24 128 (@d_val f32 d1)) (@BinarySingleNaN.B2R 24 128 (@d_val f32 o)) - E <=
         @BinarySingleNaN.B2R 24 128 r <=
         Rmax (@BinarySingleNaN.B2R 24 128 (@d_val f32 d1)) (@BinarySingleNaN.B2R 24 128 (@d_val f32 o)) + E)%R).
Proof. exact (@ma_step_two_B32). Qed.

Theorem C12_weight_multiply_no_slack_B32 : forall x L : f32,
       @BinarySingleNaN.is_finite 24 128 x = true ->
       @BinarySingleNaN.is_finite 24 128 L = true ->
       (0 <= @BinarySingleNaN.B2R 24 128 L <= 1)%R ->
       @BinarySingleNaN.is_finite 24 128 (b32_mul x L) = true /\
       @BinarySingleNaN.B2R 24 128 (b32_mul x L) =
       rnd32 (@BinarySingleNaN.B2R 24 128 x * @BinarySingleNaN.B2R 24 128 L) /\
       ((0 <= @BinarySingleNaN.B2R 24 128 x)%R ->
        (0 <= @BinarySingleNaN.B2R 24 128 (b32_mul x L) <= @BinarySingleNaN.B2R 24 128 x)%R) /\
       ((@BinarySingleNaN.B2R 24 128 x <= 0)%R ->
        (@BinarySingleNaN.B2R 24 128 x <= @BinarySingleNaN.B2R 24 128 (b32_mul x L) <= 0)%R).
Proof. exact (@b32_mul_weight). Qed.

Theorem C12_one_minus_lambda_B32 : forall L : f32,
       @BinarySingleNaN.is_finite 24 128 L = true ->
       (0 <= @BinarySingleNaN.B2R 24 128 L <= 1)%R ->
       @BinarySingleNaN.is_finite 24 128 (b32_sub one32 L) = true /\
       @BinarySingleNaN.B2R 24 128 (b32_sub one32 L) = rnd32 (1 - @BinarySingleNaN.B2R 24 128 L) /\
       (0 <= @BinarySingleNaN.B2R 24 128 (b32_sub one32 L) <= 1)%R /\
       (Rabs (@BinarySingleNaN.B2R 24 128 (b32_sub one32 L) - (1 - @BinarySingleNaN.B2R 24 128 L)) <= u32 / 2)%R /\
       ((/ 2 <= @BinarySingleNaN.B2R 24 128 L)%R ->
        @BinarySingleNaN.B2R 24 128 (b32_sub one32 L) = (1 - @BinarySingleNaN.B2R 24 128 L)%R).
Proof. exact (@b32_one_minus). Qed.

Theorem C12_mix_monotone_B32 : forall p n p' n' L : f32,
       mix_pre p n L = true ->
       mix_pre p' n' L = true ->
       (@BinarySingleNaN.B2R 24 128 p <= @BinarySingleNaN.B2R 24 128 p')%R ->
       (@BinarySingleNaN.B2R 24 128 n <= @BinarySingleNaN.B2R 24 128 n')%R ->
       (@BinarySingleNaN.B2R 24 128 (mixv p n L) <= @BinarySingleNaN.B2R 24 128 (mixv p' n' L))%R.
Proof. exact (@mixv_monotone). Qed.

Theorem C12_mix_between_constants_B32 : forall p n lo hi L : f32,
       mix_pre p n L = true ->
       mix_pre lo lo L = true ->
       mix_pre hi hi L = true ->
       (@BinarySingleNaN.B2R 24 128 lo <= @BinarySingleNaN.B2R 24 128 p <= @BinarySingleNaN.B2R 24 128 hi)%R ->
       (@BinarySingleNaN.B2R 24 128 lo <= @BinarySingleNaN.B2R 24 128 n <= @BinarySingleNaN.B2R 24 128 hi)%R ->
       (@BinarySingleNaN.B2R 24 128 (mixv lo lo L) <= @BinarySingleNaN.B2R 24 128 (mixv p n L) <=
        @BinarySingleNaN.B2R 24 128 (mixv hi hi L))%R.
Proof. exact (@mixv_between_constants). Qed.

Theorem C12_constant_not_exact_witness_B32 : let p := b32_of_bits 1065353221 in
       let L := b32_of_bits 1055053113 in
       mix_normal p p L = true /\
       (forall tbl : list (Z * Z * Z), @mix_f f32 (B32_with_pow tbl) p p L = @Ok f32 (b32_of_bits 1065353222)) /\
       @BinarySingleNaN.Bltb 24 128 p (mixv p p L) = true.
Proof. exact (@mix_constant_not_exact). Qed.

Theorem C12_ma_constant_not_exact_witness_B32 : let x := b32_of_bits 1071572334 in
       ma2_ok x x 2716982034 2382315485 = true /\
       b32_to_bits (mav x x 2716982034 2382315485 (2716982034 + 2382315485)) = 1071572338 /\
       @BinarySingleNaN.Bltb 24 128 x (mav x x 2716982034 2382315485 (2716982034 + 2382315485)) = true.
Proof. exact (@ma2_constant_not_exact). Qed.

Print Assumptions C12_mix_is_model_expression.
Print Assumptions C12_ewma_step_bound_B32.
Print Assumptions C12_ewma_step_bound_general_B32.
Print Assumptions C12_ewma_constant_bound_B32.
Print Assumptions C12_mix_f_bound_B32.
Print Assumptions C12_ewma_model_step_bound_B32.
Print Assumptions C12_ma_two_samples_bound_B32.
Print Assumptions C12_ma_model_step_two_B32.
Print Assumptions C12_weight_multiply_no_slack_B32.
Print Assumptions C12_one_minus_lambda_B32.
Print Assumptions C12_mix_monotone_B32.
Print Assumptions C12_mix_between_constants_B32.
Print Assumptions C12_constant_not_exact_witness_B32.
Print Assumptions C12_ma_constant_not_exact_witness_B32.
