(* C19 — Feature configuration changes only whether units are checked, never the numbers (partial:
   powf is an oracle; the whole-program erasure theorem is replaced by per-primitive erasure lemmas plus
   the per-configuration correspondence with one model parameterised by the configuration). *)
From Coq Require Import ZArith Bool List.
From Flocq Require Import IEEE754.BinarySingleNaN.
From RRTK Require Import Num.Num Num.B32 Model.Values Proofs.ValuesProofs Proofs.B32Laws.
Local Open Scope Z_scope.

Section G.
Context {F : Type} {NF : Num F}.
Variable s s' : bool.
(* with dimension checking compiled out no unit mismatch ever panics or is rejected, and results are
   the plain float operations on the values *)
Theorem C19_unchecked_never_rejects (a b : @quantity F) (st : @state F) :
  qadd (cfg_nochk s) a b = Ok (qnew (fadd (qv a) (qv b)) (qu a)) /\
  qsub (cfg_nochk s) a b = Ok (qnew (fsub (qv a) (qv b)) (qu a)) /\
  qpcmp (cfg_nochk s) a b = Ok (fpcmp (qv a) (qv b)) /\
  (forall u v, uadd (cfg_nochk s) u v = Ok u) /\ (forall u v, usub (cfg_nochk s) u v = Ok u) /\
  (forall u v, assert_ok (cfg_nochk s) u v = Ok tt) /\
  time_of_q (cfg_nochk s) a = Some (f_to_i64 (fmul (qv a) f1e9)) /\ dint_of_q (cfg_nochk s) a = Some (f_to_i64 (qv a)) /\
  snd (s_set_acc (cfg_nochk s) st a) = true /\ snd (s_set_vel (cfg_nochk s) st a) = true /\ snd (s_set_pos (cfg_nochk s) st a) = true.
Proof.
  destruct (nochk_never_panics s a b) as (A & B & C0 & D & E & G0).
  destruct (nochk_conversions_accept s a) as (H1 & H2). destruct (nochk_setters_accept s st a) as (S1 & S2 & S3).
  exact (conj A (conj B (conj C0 (conj D (conj E (conj G0 (conj H1 (conj H2 (conj S1 (conj S2 S3)))))))))).
Qed.
(* erasure, primitive by primitive: whenever the checked operation returns, the unchecked one returns
   the same numbers (units are the zero-sized unit there) *)
Theorem C19_erasure_primitives (a b : @quantity F) :
  (forall r, qadd (cfg_chk s) a b = Ok r -> exists r', qadd (cfg_nochk s') a b = Ok r' /\ qv r' = qv r) /\
  (forall r, qsub (cfg_chk s) a b = Ok r -> exists r', qsub (cfg_nochk s') a b = Ok r' /\ qv r' = qv r) /\
  qv (qmul (cfg_nochk s') a b) = qv (qmul (cfg_chk s) a b) /\ qv (qdiv (cfg_nochk s') a b) = qv (qdiv (cfg_chk s) a b) /\
  (forall o, qpcmp (cfg_chk s) a b = Ok o -> qpcmp (cfg_nochk s') a b = Ok o) /\
  (forall t, time_of_q (cfg_chk s) a = Some t -> time_of_q (cfg_nochk s') a = Some t) /\
  (forall t, dint_of_q (cfg_chk s) a = Some t -> dint_of_q (cfg_nochk s') a = Some t) /\
  (forall t, qv (@Values.q_of_time F NF (cfg_nochk s') t) = qv (@Values.q_of_time F NF (cfg_chk s) t)).
Proof.
  repeat split.
  - intros r H. eexists. split; [reflexivity|]. unfold qadd in H. destruct (uadd (cfg_chk s) (qu a) (qu b)); [|discriminate].
    injection H as <-. reflexivity.
  - intros r H. eexists. split; [reflexivity|]. unfold qsub in H. destruct (usub (cfg_chk s) (qu a) (qu b)); [|discriminate].
    injection H as <-. reflexivity.
  - intros o H. unfold qpcmp in *. destruct (assert_ok (cfg_chk s) (qu a) (qu b)); [|discriminate]. exact H.
  - intros t H. unfold time_of_q in *. destruct (eq_assume_true (cfg_chk s) (qu a) (U_SECOND (cfg_chk s))); [exact H|discriminate].
  - intros t H. unfold dint_of_q in *. destruct (eq_assume_true (cfg_chk s) (qu a) (U_DIMLESS (cfg_chk s))); [exact H|discriminate].
Qed.
End G.

(* Quantity::abs is the same function in every configuration (both cfg bodies clear the sign bit) *)
Theorem C19_abs_configuration_independent {F} {NF : Num F} (c1 c2 : cfg) (q : @quantity F) :
  qv (qabs c1 q) = qv (qabs c2 q) /\ qv (qabs c1 q) = fabs_std (qv q).
Proof. exact (conj eq_refl eq_refl). Qed.
(* [B] documentation of the repaired defect: the old no_std body (if v >= 0.0 { v } else { -v }) agreed with
   f32::abs numerically on every non-NaN input but not bit for bit: on -0.0 it returned -0.0, which a
   later division turns into -inf instead of +inf *)
Theorem C19_old_abs_agreed_numerically (x : f32) :
  x <> B754_nan -> BinarySingleNaN.Beqb (b32_abs x) (@fabs_nostd f32 B32 x) = true.
Proof. exact (abs_agree x). Qed.
Theorem C19_old_abs_refuted :
  let x := B754_zero true in
  b32_abs x <> @fabs_nostd f32 B32 x /\
  b32_div (b32_of_Z 1) (b32_abs x) = B754_infinity false /\ b32_div (b32_of_Z 1) (@fabs_nostd f32 B32 x) = B754_infinity true.
Proof. cbv zeta. split; [vm_compute; discriminate|split; vm_compute; reflexivity]. Qed.

Print Assumptions C19_unchecked_never_rejects.
Print Assumptions C19_erasure_primitives.
Print Assumptions C19_abs_configuration_independent.
Print Assumptions C19_old_abs_agreed_numerically.
Print Assumptions C19_old_abs_refuted.
