(* C08, continued: world-level state effect of gear train, axle of any size, differential; constraint / least squares / fixed points at world level on the reals (Proofs/DevWorld.v) *)
From Coq Require Import ZArith Bool List Arith Reals Lia.
From RRTK Require Import Num.Num Num.RR Num.B32 Num.Laws Model.Values Model.Prog Model.Combinators Model.Streams Model.Assembly Model.MotionProfile Model.World Model.Devices Proofs.WorldProofs Proofs.DeviceProofs Proofs.ChainProofs Proofs.DevWorld.
Import ListNotations.
Local Open Scope Z_scope.

Theorem C08_gear_world : forall (F : Type) (NF : Num F) (w : world) (t1 t2 : nat) (r : F),
       t1 <> t2 ->
       (t1 < length w)%nat ->
       (t2 < length w)%nat ->
       let w' := gear_update w t1 t2 r in
       length w' = length w /\
       (forall k : nat, oth w' k = oth w k) /\
       (forall k : nat, k <> t1 -> k <> t2 -> slot_s w' k = slot_s w k) /\
       match state_get w t1 with
       | Some d1 =>
           match state_get w t2 with
           | Some d2 =>
               let T := Z.max (d_time d1) (d_time d2) in
               let xpry := s_add (d_val d1) (s_mulf (d_val d2) r) in
               let r2p1 := fadd (fmul r r) fone in
               slot_s w' t1 = Some {| d_time := T; d_val := s_divf xpry r2p1 |} /\
               slot_s w' t2 = Some {| d_time := T; d_val := s_divf (s_mulf xpry r) r2p1 |}
           | None =>
               slot_s w' t1 = slot_s w t1 /\
               slot_s w' t2 = Some {| d_time := d_time d1; d_val := s_mulf (d_val d1) r |}
           end
       | None =>
           match state_get w t2 with
           | Some d2 =>
               slot_s w' t1 = Some {| d_time := d_time d2; d_val := s_divf (d_val d2) r |} /\
               slot_s w' t2 = slot_s w t2
           | None => slot_s w' t1 = slot_s w t1 /\ slot_s w' t2 = slot_s w t2
           end
       end /\
       match cmd_get w t1 with
       | Some c1 =>
           match cmd_get w t2 with
           | Some c2 =>
               if d_time c1 >=? d_time c2
               then
                slot_c w' t2 = Some (dmul_c c1 r) /\ (forall k : nat, k <> t2 -> slot_c w' k = slot_c w k)
               else
                slot_c w' t1 = Some (ddiv_c c2 r) /\ (forall k : nat, k <> t1 -> slot_c w' k = slot_c w k)
           | None =>
               slot_c w' t2 = Some (dmul_c c1 r) /\ (forall k : nat, k <> t2 -> slot_c w' k = slot_c w k)
           end
       | None =>
           match cmd_get w t2 with
           | Some c2 =>
               slot_c w' t1 = Some (ddiv_c c2 r) /\ (forall k : nat, k <> t1 -> slot_c w' k = slot_c w k)
           | None => forall k : nat, slot_c w' k = slot_c w k
           end
       end.
Proof. exact (@gear_update_effect). Qed.

Theorem C08_inverter_world : forall (F : Type) (NF : Num F) (w : world) (t1 t2 : nat),
       t1 <> t2 ->
       (t1 < length w)%nat ->
       (t2 < length w)%nat ->
       let w' := invert_update w t1 t2 in
       length w' = length w /\
       (forall k : nat, oth w' k = oth w k) /\
       (forall k : nat, k <> t1 -> k <> t2 -> slot_s w' k = slot_s w k) /\
       match state_get w t1 with
       | Some d1 =>
           match state_get w t2 with
           | Some d2 =>
               let ns := s_divf (s_sub (d_val d1) (d_val d2)) ftwo in
               slot_s w' t1 = Some {| d_time := Z.max (d_time d1) (d_time d2); d_val := ns |} /\
               slot_s w' t2 = Some {| d_time := Z.max (d_time d1) (d_time d2); d_val := s_neg ns |}
           | None =>
               slot_s w' t2 = Some {| d_time := d_time d1; d_val := s_neg (d_val d1) |} /\
               slot_s w' t1 = slot_s w t1
           end
       | None =>
           match state_get w t2 with
           | Some d2 =>
               slot_s w' t1 = Some {| d_time := d_time d2; d_val := s_neg (d_val d2) |} /\
               slot_s w' t2 = slot_s w t2
           | None => slot_s w' t1 = slot_s w t1 /\ slot_s w' t2 = slot_s w t2
           end
       end.
Proof. exact (@invert_update_effect). Qed.

Theorem C08_axle_world : forall (F : Type) (NF : Num F) (w : world) (ts : list nat),
       let w' := axle_update w ts in
       let ds := present w ts in
       length w' = length w /\
       (forall k : nat, oth w' k = oth w k) /\
       (forall k : nat, ~ In k ts -> slot_s w' k = slot_s w k) /\
       (ds = [] -> forall k : nat, slot_s w' k = slot_s w k) /\
       (ds <> [] -> forall i : nat, In i ts -> (i < length w)%nat -> slot_s w' i = Some (axle_mean ds)).
Proof. exact (@axle_update_effect). Qed.

Theorem C08_axle_time_newest : forall (F : Type) (ds : list (datum (@state F))),
       (forall g : datum (@state F), @In (datum (@state F)) g ds -> @d_time (@state F) g <= @axle_time F ds) /\
       (ds <> [] ->
        (forall g : datum (@state F),
         @In (datum (@state F)) g ds -> -9223372036854775808 <= @d_time (@state F) g) ->
        exists g : datum (@state F), @In (datum (@state F)) g ds /\ @axle_time F ds = @d_time (@state F) g).
Proof. exact (@axle_time_newest). Qed.

Theorem C08_differential_world : forall (F : Type) (NF : Num F) (w : world) (s1 s2 sm : nat) (dt : distrust),
       s1 <> s2 ->
       s1 <> sm ->
       s2 <> sm ->
       (s1 < length w)%nat ->
       (s2 < length w)%nat ->
       (sm < length w)%nat ->
       let w' := diff_update w s1 s2 sm dt in
       length w' = length w /\
       (forall k : nat, oth w' k = oth w k /\ slot_c w' k = slot_c w k /\ cmd_get w' k = cmd_get w k) /\
       (forall k : nat, k <> s1 -> k <> s2 -> k <> sm -> slot_s w' k = slot_s w k) /\
       match dt with
       | DSide1 =>
           match state_get w sm with
           | Some c =>
               match state_get w s2 with
               | Some b =>
                   slot_s w' s1 =
                   Some {| d_time := Z.max (d_time c) (d_time b); d_val := s_sub (d_val c) (d_val b) |} /\
                   slot_s w' s2 = slot_s w s2 /\ slot_s w' sm = slot_s w sm
               | None => w' = w
               end
           | None => w' = w
           end
       | DSide2 =>
           match state_get w sm with
           | Some c =>
               match state_get w s1 with
               | Some a =>
                   slot_s w' s2 =
                   Some {| d_time := Z.max (d_time c) (d_time a); d_val := s_sub (d_val c) (d_val a) |} /\
                   slot_s w' s1 = slot_s w s1 /\ slot_s w' sm = slot_s w sm
               | None => w' = w
               end
           | None => w' = w
           end
       | DSum =>
           match state_get w s1 with
           | Some a =>
               match state_get w s2 with
               | Some b =>
                   slot_s w' sm =
                   Some {| d_time := Z.max (d_time a) (d_time b); d_val := s_add (d_val a) (d_val b) |} /\
                   slot_s w' s1 = slot_s w s1 /\ slot_s w' s2 = slot_s w s2
               | None => w' = w
               end
           | None => w' = w
           end
       | DEqual =>
           match state_get w sm with
           | Some c =>
               match state_get w s1 with
               | Some a =>
                   match state_get w s2 with
                   | Some b =>
                       let T := Z.max (Z.max (d_time a) (d_time b)) (d_time c) in
                       let x := d_val a in
                       let y := d_val b in
                       let z := d_val c in
                       slot_s w' s1 =
                       Some {| d_time := T; d_val := s_divf (s_add (s_sub (s_mulf x ftwo) y) z) fthree |} /\
                       slot_s w' s2 =
                       Some
                         {|
                           d_time := T; d_val := s_divf (s_add (s_add (s_neg x) (s_mulf y ftwo)) z) fthree
                         |} /\
                       slot_s w' sm =
                       Some {| d_time := T; d_val := s_divf (s_add (s_add x y) (s_mulf z ftwo)) fthree |}
                   | None => w' = w
                   end
               | None => w' = w
               end
           | None => w' = w
           end
       end.
Proof. exact (@diff_update_effect). Qed.

Theorem C08_gear_world_R : forall (w : world) (t1 t2 : nat) (r : R) (d1 d2 : datum state),
       t1 <> t2 ->
       (t1 < length w)%nat ->
       (t2 < length w)%nat ->
       state_get w t1 = Some d1 ->
       state_get w t2 = Some d2 ->
       let w' := gear_update w t1 t2 r in
       let T := Z.max (d_time d1) (d_time d2) in
       exists n1 n2 : state,
         slot_s w' t1 = Some {| d_time := T; d_val := n1 |} /\
         slot_s w' t2 = Some {| d_time := T; d_val := n2 |} /\
         (forall p : state -> R,
          In p comps ->
          let x := p (d_val d1) in
          let y := p (d_val d2) in
          p n2 = (r * p n1)%R /\
          p n1 = ((x + r * y) / (r * r + 1))%R /\
          (forall a : R, ((x - p n1) ^ 2 + (y - p n2) ^ 2 <= (x - a) ^ 2 + (y - r * a) ^ 2)%R) /\
          (y = (r * x)%R -> p n1 = x /\ p n2 = y)).
Proof. exact (@gear_world_R). Qed.

Theorem C08_gear_fixed_point_R : forall (w : world) (t1 t2 : nat) (r : R) (d1 d2 : datum state),
       t1 <> t2 ->
       (t1 < length w)%nat ->
       (t2 < length w)%nat ->
       state_get w t1 = Some d1 ->
       state_get w t2 = Some d2 ->
       (forall p : state -> R, In p comps -> p (d_val d2) = (r * p (d_val d1))%R) ->
       let w' := gear_update w t1 t2 r in
       slot_s w' t1 = Some {| d_time := Z.max (d_time d1) (d_time d2); d_val := d_val d1 |} /\
       slot_s w' t2 = Some {| d_time := Z.max (d_time d1) (d_time d2); d_val := d_val d2 |}.
Proof. exact (@gear_fixed_point_R). Qed.

Theorem C08_gear_one_sided_R : forall (w : world) (t1 t2 : nat) (r : R),
       t1 <> t2 ->
       (t1 < length w)%nat ->
       (t2 < length w)%nat ->
       let w' := gear_update w t1 t2 r in
       (forall d1 : datum state,
        state_get w t1 = Some d1 ->
        state_get w t2 = None ->
        exists n2 : state,
          slot_s w' t2 = Some {| d_time := d_time d1; d_val := n2 |} /\
          slot_s w' t1 = slot_s w t1 /\ (forall p : state -> R, In p comps -> p n2 = (r * p (d_val d1))%R)) /\
       (forall d2 : datum state,
        state_get w t1 = None ->
        state_get w t2 = Some d2 ->
        r <> 0%R ->
        exists n1 : state,
          slot_s w' t1 = Some {| d_time := d_time d2; d_val := n1 |} /\
          slot_s w' t2 = slot_s w t2 /\ (forall p : state -> R, In p comps -> p (d_val d2) = (r * p n1)%R)).
Proof. exact (@gear_one_sided_R). Qed.

Theorem C08_inverter_world_R : forall (w : world) (t1 t2 : nat) (d1 d2 : datum state),
       t1 <> t2 ->
       (t1 < length w)%nat ->
       (t2 < length w)%nat ->
       state_get w t1 = Some d1 ->
       state_get w t2 = Some d2 ->
       let w' := invert_update w t1 t2 in
       let T := Z.max (d_time d1) (d_time d2) in
       exists n1 n2 : state,
         slot_s w' t1 = Some {| d_time := T; d_val := n1 |} /\
         slot_s w' t2 = Some {| d_time := T; d_val := n2 |} /\
         (forall p : state -> R,
          In p comps ->
          let x := p (d_val d1) in
          let y := p (d_val d2) in
          p n2 = (- p n1)%R /\
          p n1 = ((x - y) / 2)%R /\
          (forall a : R, ((x - p n1) ^ 2 + (y - p n2) ^ 2 <= (x - a) ^ 2 + (y - - a) ^ 2)%R) /\
          (y = (- x)%R -> p n1 = x /\ p n2 = y)).
Proof. exact (@invert_world_R). Qed.

Theorem C08_axle_world_R : forall (w : @world R) (ts : list nat),
       (forall i : nat, @In nat i ts -> (i < @length (@term R) w)%nat) ->
       let ds := @present R RR w ts in
       ds <> [] ->
       let w' := @axle_update R RR w ts in
       exists m : @state R,
         (forall i : nat,
          @In nat i ts ->
          @slot_s R w' i = @Some (datum (@state R)) {| d_time := @axle_time R ds; d_val := m |}) /\
         (forall p : @state R -> R,
          @In (@state R -> R) p comps ->
          let xs := @map (datum (@state R)) R (fun g : datum (@state R) => p (@d_val (@state R) g)) ds in
          p m = (ProjReal.sum xs / INR (@length R xs))%R /\
          (forall a : R, (ProjReal.sq_dev xs (p m) <= ProjReal.sq_dev xs a)%R) /\
          (forall v : R,
           (forall g : datum (@state R), @In (datum (@state R)) g ds -> p (@d_val (@state R) g) = v) ->
           p m = v)).
Proof. exact (@axle_world_R). Qed.

Theorem C08_axle_fixed_point_R : forall (w : @world R) (ts : list nat) (s : @state R),
       (forall i : nat, @In nat i ts -> (i < @length (@term R) w)%nat) ->
       @present R RR w ts <> [] ->
       (forall (i : nat) (g : datum (@state R)),
        @In nat i ts -> @state_get R RR w i = @Some (datum (@state R)) g -> @d_val (@state R) g = s) ->
       forall i : nat,
       @In nat i ts ->
       @slot_s R (@axle_update R RR w ts) i =
       @Some (datum (@state R)) {| d_time := @axle_time R (@present R RR w ts); d_val := s |}.
Proof. exact (@axle_fixed_point_R). Qed.

Theorem C08_differential_equal_world_R : forall (w : world) (s1 s2 sm : nat) (a b c : datum state),
       s1 <> s2 ->
       s1 <> sm ->
       s2 <> sm ->
       (s1 < length w)%nat ->
       (s2 < length w)%nat ->
       (sm < length w)%nat ->
       state_get w s1 = Some a ->
       state_get w s2 = Some b ->
       state_get w sm = Some c ->
       let w' := diff_update w s1 s2 sm DEqual in
       let T := Z.max (Z.max (d_time a) (d_time b)) (d_time c) in
       exists n1 n2 ns : state,
         slot_s w' s1 = Some {| d_time := T; d_val := n1 |} /\
         slot_s w' s2 = Some {| d_time := T; d_val := n2 |} /\
         slot_s w' sm = Some {| d_time := T; d_val := ns |} /\
         (forall p : state -> R,
          In p comps ->
          let x := p (d_val a) in
          let y := p (d_val b) in
          let z := p (d_val c) in
          (p n1 + p n2)%R = p ns /\
          p n1 = ((2 * x - y + z) / 3)%R /\
          p n2 = ((- x + 2 * y + z) / 3)%R /\
          p ns = ((x + y + 2 * z) / 3)%R /\
          (forall a' b' : R,
           ((x - p n1) ^ 2 + (y - p n2) ^ 2 + (z - p ns) ^ 2 <=
            (x - a') ^ 2 + (y - b') ^ 2 + (z - (a' + b')) ^ 2)%R) /\
          (z = (x + y)%R -> p n1 = x /\ p n2 = y /\ p ns = z)).
Proof. exact (@diff_equal_world_R). Qed.

Theorem C08_differential_fixed_point_R : forall (w : world) (s1 s2 sm : nat) (a b c : datum state),
       s1 <> s2 ->
       s1 <> sm ->
       s2 <> sm ->
       (s1 < length w)%nat ->
       (s2 < length w)%nat ->
       (sm < length w)%nat ->
       state_get w s1 = Some a ->
       state_get w s2 = Some b ->
       state_get w sm = Some c ->
       (forall p : state -> R, In p comps -> p (d_val c) = (p (d_val a) + p (d_val b))%R) ->
       let w' := diff_update w s1 s2 sm DEqual in
       let T := Z.max (Z.max (d_time a) (d_time b)) (d_time c) in
       slot_s w' s1 = Some {| d_time := T; d_val := d_val a |} /\
       slot_s w' s2 = Some {| d_time := T; d_val := d_val b |} /\
       slot_s w' sm = Some {| d_time := T; d_val := d_val c |}.
Proof. exact (@diff_equal_fixed_point_R). Qed.

Theorem C08_differential_distrust_world_R : forall (w : world) (s1 s2 sm : nat),
       s1 <> s2 ->
       s1 <> sm ->
       s2 <> sm ->
       (s1 < length w)%nat ->
       (s2 < length w)%nat ->
       (sm < length w)%nat ->
       (forall b c : datum state,
        state_get w s2 = Some b ->
        state_get w sm = Some c ->
        let w' := diff_update w s1 s2 sm DSide1 in
        exists n : state,
          slot_s w' s1 = Some {| d_time := Z.max (d_time c) (d_time b); d_val := n |} /\
          slot_s w' s2 = slot_s w s2 /\
          slot_s w' sm = slot_s w sm /\
          (forall p : state -> R,
           In p comps ->
           (p n + p (d_val b))%R = p (d_val c) /\
           (forall v : R, (v + p (d_val b))%R = p (d_val c) -> p n = v))) /\
       (forall a c : datum state,
        state_get w s1 = Some a ->
        state_get w sm = Some c ->
        let w' := diff_update w s1 s2 sm DSide2 in
        exists n : state,
          slot_s w' s2 = Some {| d_time := Z.max (d_time c) (d_time a); d_val := n |} /\
          slot_s w' s1 = slot_s w s1 /\
          slot_s w' sm = slot_s w sm /\
          (forall p : state -> R,
           In p comps ->
           (p (d_val a) + p n)%R = p (d_val c) /\
           (forall v : R, (p (d_val a) + v)%R = p (d_val c) -> p n = v))) /\
       (forall a b : datum state,
        state_get w s1 = Some a ->
        state_get w s2 = Some b ->
        let w' := diff_update w s1 s2 sm DSum in
        exists n : state,
          slot_s w' sm = Some {| d_time := Z.max (d_time a) (d_time b); d_val := n |} /\
          slot_s w' s1 = slot_s w s1 /\
          slot_s w' s2 = slot_s w s2 /\
          (forall p : state -> R,
           In p comps ->
           (p (d_val a) + p (d_val b))%R = p n /\
           (forall v : R, (p (d_val a) + p (d_val b))%R = v -> p n = v))).
Proof. exact (@diff_distrust_world_R). Qed.

Theorem C08_one_sided_held_witness : @state_get R RR exo_world 0 = @None (datum (@state R)) /\
       (exists g : datum (@state R),
          @state_get R RR exo_world 1 = @Some (datum (@state R)) g /\ @s_pos R (@d_val (@state R) g) = 3%R) /\
       (exists n : datum (@state R),
          @slot_s R (@gear_update R RR exo_world 0 1 1%R) 0 = @Some (datum (@state R)) n /\
          @s_pos R (@d_val (@state R) n) = 3%R) /\
       @slot_s R (@gear_update R RR exo_world 0 1 1%R) 1 =
       @Some (datum (@state R)) {| d_time := 1; d_val := @snew_raw R 2%R 0%R 0%R |}.
Proof. exact (@gear_one_sided_held_witness). Qed.

Theorem C08_example_gear : exists n1 n2 : @state R,
         @slot_s R (@gear_update R RR exg_world 1 2 2%R) 1 =
         @Some (datum (@state R)) {| d_time := 5; d_val := n1 |} /\
         @slot_s R (@gear_update R RR exg_world 1 2 2%R) 2 =
         @Some (datum (@state R)) {| d_time := 5; d_val := n2 |} /\
         @s_pos R n1 = (18 / 5)%R /\
         @s_pos R n2 = (36 / 5)%R /\
         @s_vel R n1 = (2 / 5)%R /\
         @s_vel R n2 = (4 / 5)%R /\
         @slot_s R (@gear_update R RR exg_world 1 2 2%R) 3 =
         @Some (datum (@state R)) {| d_time := 1; d_val := @snew_raw R 9%R 9%R 9%R |}.
Proof. exact (@exg_result). Qed.

Theorem C08_example_axle : exists m : @state R,
         (forall i : nat,
          @In nat i [0%nat; 1%nat; 2%nat; 3%nat] ->
          @slot_s R (@axle_update R RR exa_world [0%nat; 1%nat; 2%nat; 3%nat]) i =
          @Some (datum (@state R)) {| d_time := 9; d_val := m |}) /\
         @s_pos R m = 3%R /\
         @s_vel R m = 1%R /\
         @slot_s R (@axle_update R RR exa_world [0%nat; 1%nat; 2%nat; 3%nat]) 4 = @slot_s R exa_world 4.
Proof. exact (@exa_result). Qed.

Theorem C08_example_differential : exists n1 n2 ns : @state R,
         @slot_s R (@diff_update R RR exd_world 0 1 2 DEqual) 0 =
         @Some (datum (@state R)) {| d_time := 3; d_val := n1 |} /\
         @slot_s R (@diff_update R RR exd_world 0 1 2 DEqual) 1 =
         @Some (datum (@state R)) {| d_time := 3; d_val := n2 |} /\
         @slot_s R (@diff_update R RR exd_world 0 1 2 DEqual) 2 =
         @Some (datum (@state R)) {| d_time := 3; d_val := ns |} /\
         @s_pos R n1 = 2%R /\ @s_pos R n2 = 3%R /\ @s_pos R ns = 5%R.
Proof. exact (@exd_result). Qed.

Print Assumptions C08_gear_world.
Print Assumptions C08_inverter_world.
Print Assumptions C08_axle_world.
Print Assumptions C08_axle_time_newest.
Print Assumptions C08_differential_world.
Print Assumptions C08_gear_world_R.
Print Assumptions C08_gear_fixed_point_R.
Print Assumptions C08_gear_one_sided_R.
Print Assumptions C08_inverter_world_R.
Print Assumptions C08_axle_world_R.
Print Assumptions C08_axle_fixed_point_R.
Print Assumptions C08_differential_equal_world_R.
Print Assumptions C08_differential_fixed_point_R.
Print Assumptions C08_differential_distrust_world_R.
Print Assumptions C08_one_sided_held_witness.
Print Assumptions C08_example_gear.
Print Assumptions C08_example_axle.
Print Assumptions C08_example_differential.
