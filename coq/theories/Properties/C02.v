(* C02 — Stateless streams honour their documented error / absent / present contract.
   All arities (induction over the input list), every payload type and payload operator. *)
From Coq Require Import ZArith Bool List.
From RRTK Require Import Num.Num Model.Values Model.Combinators Proofs.CombProofs.
Import ListNotations.
Local Open Scope Z_scope.

Section C02.
Context {T : Type}.
Variable op : T -> T -> res T.

(* sums / products: the earliest input error is returned unchanged; otherwise absent iff no input is
   present; otherwise the left fold of the present data in input order *)
Theorem C02_nary_spec (ins : list (out T)) :
  nary op ins =
  match first_err ins with
  | Some e => Ok (OErr e)
  | None => match presents ins with
            | [] => Ok ONone
            | d :: ds => match fold_dat op d ds with Ok r => Ok (OSome r) | Panic => Panic end
            end
  end.
Proof. exact (nary_spec op ins). Qed.

Theorem C02_earliest_error (ins : list (out T)) e :
  first_err ins = Some e <-> exists pre post, ins = pre ++ OErr e :: post /\ first_err pre = None.
Proof. exact (first_err_earliest ins e). Qed.

Theorem C02_absent_only_when_all_absent (ins : list (out T)) :
  first_err ins = None -> (nary op ins = Ok ONone <-> presents ins = []).
Proof. exact (nary_none_iff op ins). Qed.

Theorem C02_fold_time d ds r :
  fold_dat op d ds = Ok r -> d_time r = fold_left Z.max (map d_time ds) (d_time d).
Proof. exact (fold_dat_time op d ds r). Qed.

(* the two-input sum and product agree with the n-ary ones, for every pair of input outcomes *)
Theorem C02_bin2_is_nary (a b : out T) : bin2 op a b = nary op [a; b].
Proof. exact (bin2_is_nary op a b). Qed.

(* difference, quotient, exponent *)
Theorem C02_binary_tables (a b : out T) :
  binop op a b =
  match a, b with
  | OErr e, _ => Ok (OErr e)
  | _, OErr e => Ok (OErr e)
  | ONone, _ => Ok ONone
  | OSome x, ONone => Ok (OSome x)
  | OSome x, OSome y =>
      match op (d_val x) (d_val y) with
      | Ok v => Ok (OSome (mkDatum (Z.max (d_time x) (d_time y)) v))
      | Panic => Panic
      end
  end.
Proof. exact (binop_table op a b). Qed.

Theorem C02_if_tables (cond : out bool) (i t f : out T) :
  (forall e, cond = OErr e -> if_ cond i = OErr e /\ ifelse cond t f = OErr e) /\
  (cond = ONone -> if_ cond i = ONone /\ ifelse cond t f = ONone) /\
  (forall tm, cond = OSome (mkDatum tm true) -> if_ cond i = i /\ ifelse cond t f = t) /\
  (forall tm, cond = OSome (mkDatum tm false) -> if_ cond i = ONone /\ ifelse cond t f = f).
Proof. exact (if_tables cond i t f). Qed.

(* kept iff now - t <= limit, boundary included; the clock is consulted only for present data *)
Theorem C02_expirer (i : out T) (now : tout) (limit : Z) :
  (forall e, i = OErr e -> expirer i now limit = Ok (OErr e)) /\
  (i = ONone -> expirer i now limit = Ok ONone) /\
  (forall d e, i = OSome d -> now = TErr e -> expirer i now limit = Ok (OErr e)) /\
  (forall d t, i = OSome d -> now = TOk t -> in_i64 (t - d_time d) = true ->
     expirer i now limit = Ok (if t - d_time d <=? limit then OSome d else ONone)).
Proof. exact (expirer_table i now limit). Qed.

Theorem C02_none_to (i : out T) (now : tout) (v : T) :
  none_to_error i = match i with ONone => OErr FromNone | x => x end /\
  none_to_value i now v = match i with
                          | ONone => match now with TErr e => OErr e | TOk t => OSome (mkDatum t v) end
                          | x => x end /\
  time_getter_from_getter i = match i with OErr e => TErr e | ONone => TErr FromNone | OSome d => TOk (d_time d) end.
Proof. exact (none_to_tables i now v). Qed.

(* newest-of: skips errors and absents; a present candidate, none strictly newer *)
Theorem C02_latest (ins : list (out T)) :
  match latest_n ins with
  | OSome d => In d (presents ins) /\ forall g, In g (presents ins) -> d_time g <= d_time d
  | ONone => presents ins = []
  | OErr _ => False
  end.
Proof. exact (latest_n_spec ins). Qed.
End C02.

(* and / or / not are strong Kleene logic with absent as unknown, time = newest present input *)
Theorem C02_kleene (a b : out bool) :
  is_err a = false -> is_err b = false ->
  and_ a b = klift (k_and (kval a) (kval b)) (newest_time a b) /\
  or_ a b = klift (k_or (kval a) (kval b)) (newest_time a b) /\
  not_ a = klift (k_not (kval a)) (newest_time a a).
Proof. exact (kleene a b). Qed.

Theorem C02_logic_errors (a b : out bool) e :
  (a = OErr e -> and_ a b = OErr e /\ or_ a b = OErr e /\ not_ a = OErr e) /\
  (is_err a = false -> b = OErr e -> and_ a b = OErr e /\ or_ a b = OErr e).
Proof. exact (logic_errors a b e). Qed.

Theorem C02_de_morgan (a b : out bool) :
  not_ (and_ a b) = or_ (not_ a) (not_ b) /\ not_ (or_ a b) = and_ (not_ a) (not_ b).
Proof. exact (de_morgan a b). Qed.

(* reading never changes a later read: in the model every combinator is a function of its inputs'
   current outputs (there is no state to change); on the implementation each case reads twice *)
Theorem C02_get_pure {T} (op : T -> T -> res T) (ins : list (out T)) : nary op ins = nary op ins.
Proof. exact eq_refl. Qed.

Example C02_nonvacuous :
  nary (fun a b : Z => Ok (a + b)) [OSome (mkDatum 5 1); ONone; OSome (mkDatum 3 10); OErr (Other 2); OErr (Other 1)] = Ok (OErr (Other 2)) /\
  nary (fun a b : Z => Ok (a + b)) [OSome (mkDatum 5 1); ONone; OSome (mkDatum 3 10)] = Ok (OSome (mkDatum 5 11)).
Proof. exact (conj eq_refl eq_refl). Qed.

Print Assumptions C02_nary_spec.
Print Assumptions C02_earliest_error.
Print Assumptions C02_absent_only_when_all_absent.
Print Assumptions C02_fold_time.
Print Assumptions C02_bin2_is_nary.
Print Assumptions C02_binary_tables.
Print Assumptions C02_if_tables.
Print Assumptions C02_expirer.
Print Assumptions C02_none_to.
Print Assumptions C02_latest.
Print Assumptions C02_kleene.
Print Assumptions C02_logic_errors.
Print Assumptions C02_de_morgan.
Print Assumptions C02_get_pure.
Print Assumptions C02_nonvacuous.
