(* C10 — Integral, derivative and to-state streams equal trapezoid sums and differences.
   Run of present samples since the last reset, newest first, (time, raw value); all samples of a run
   carry the same unit u (the to-state converters: the expected unit).  Dimension checking on. *)
From Coq Require Import ZArith Bool List.
From RRTK Require Import Num.Num Model.Values Model.Streams Proofs.ValuesProofs Proofs.CalcProofs.
Import ListNotations.
Local Open Scope Z_scope.

Section C10.
Context {F : Type} {NF : Num F}.
Variable sb : bool.
Notation c := (cfg_chk sb).

(* integral: absent until 2 samples, then the trapezoid recurrence Iv, stamped with the newest
   sample, unit = input unit * s; the invariant is established by construction and by every reset,
   and preserved by every present sample (no i64 overflow of the time difference) *)
Theorem C10_integral_refines_spec u l s t v :
  integ_inv u l s ->
  (match l with (tp, _) :: _ => in_i64 (t - tp) = true | [] => True end) ->
  exists s', integ_step c s (OSome (mkDatum t (qnew v u))) = Ok (s', UOk) /\ integ_inv u ((t, v) :: l) s'.
Proof. exact (integ_sample_step sb u l s t v). Qed.
Theorem C10_derivative_refines_spec u l s t v :
  deriv_inv u l s ->
  (match l with (tp, _) :: _ => in_i64 (t - tp) = true | [] => True end) ->
  exists s', deriv_step c s (OSome (mkDatum t (qnew v u))) = Ok (s', UOk) /\ deriv_inv u ((t, v) :: l) s'.
Proof. exact (deriv_sample_step sb u l s t v). Qed.
Theorem C10_integral_derivative_start u :
  integ_inv u [] (@dint_init F) /\ deriv_inv u [] (@dint_init F).
Proof. exact (dint_init_inv u). Qed.
Theorem C10_integral_derivative_reset u (s : @dint F) (r : out (@quantity F)) s' up :
  (r = ONone \/ exists e, r = OErr e) ->
  (integ_step c s r = Ok (s', up) -> integ_inv u [] s') /\ (deriv_step c s r = Ok (s', up) -> deriv_inv u [] s').
Proof. exact (dint_reset_inv sb u s r s' up). Qed.
(* what the invariants say, written out: value recurrences and output units *)
Theorem C10_recurrences (t tp tpp : Z) (v vp vpp : F) (l : list (Z * F)) :
  Iv [(t, v); (tp, vp)] = fdiv (fmul (dtf t tp) (fadd vp v)) ftwo /\
  Iv ((t, v) :: (tp, vp) :: (tpp, vpp) :: l) = fadd (fdiv (fmul (dtf t tp) (fadd vp v)) ftwo) (Iv ((tp, vp) :: (tpp, vpp) :: l)) /\
  Dv ((t, v) :: (tp, vp) :: l) = fdiv (fsub v vp) (dtf t tp) /\
  dtf t tp = fdiv (f_of_Z (t - tp)) f1e9 /\
  (forall u, ustep u = {| mm := mm u; sec := sec u + 1 |} /\ uquot u = {| mm := mm u; sec := sec u - 1 |}).
Proof. repeat split. Qed.

(* to-state converters: one step per present sample; the state holds the once / twice integrated or
   differentiated series; get() is absent until 3 samples (acceleration, position) or 2 (velocity) *)
Theorem C10_acceleration_to_state l s t a :
  a2s_inv l s ->
  (match l with (tp, _) :: _ => in_i64 (t - tp) = true | [] => True end) ->
  exists s', a2s_step c s (OSome (mkDatum t (qnew a UA))) = Ok (s', UOk) /\ a2s_inv ((t, a) :: l) s' /\
    a2s_get c s' = Ok (match l with
                       | _ :: _ :: _ => OSome (mkDatum t {| s_pos := P2 ((t, a) :: l); s_vel := V1 ((t, a) :: l); s_acc := a |})
                       | _ => ONone end).
Proof.
  intros Hs Hov. destruct (a2s_sample_step sb l s t a Hs Hov) as (s' & H1 & H2).
  exists s'. split; [exact H1|split; [exact H2|]]. rewrite (a2s_get_of_run sb _ _ H2). reflexivity.
Qed.
Theorem C10_velocity_to_state l s t v :
  v2s_inv l s ->
  (match l with (tp, _) :: _ => in_i64 (t - tp) = true | [] => True end) ->
  exists s', v2s_step c s (OSome (mkDatum t (qnew v UV))) = Ok (s', UOk) /\ v2s_inv ((t, v) :: l) s' /\
    v2s_get c s' = Ok (match l with
                       | _ :: _ => OSome (mkDatum t {| s_pos := V1 ((t, v) :: l); s_vel := v; s_acc := D1 ((t, v) :: l) |})
                       | _ => ONone end).
Proof.
  intros Hs Hov. destruct (v2s_sample_step sb l s t v Hs Hov) as (s' & H1 & H2).
  exists s'. split; [exact H1|split; [exact H2|]]. rewrite (v2s_get_of_run sb _ _ H2). reflexivity.
Qed.
Theorem C10_position_to_state l s t p :
  p2s_inv l s ->
  (match l with (tp, _) :: _ => in_i64 (t - tp) = true | [] => True end) ->
  exists s', p2s_step c s (OSome (mkDatum t (qnew p UP))) = Ok (s', UOk) /\ p2s_inv ((t, p) :: l) s' /\
    p2s_get c s' = Ok (match l with
                       | _ :: _ :: _ => OSome (mkDatum t {| s_pos := p; s_vel := D1 ((t, p) :: l); s_acc := D2 ((t, p) :: l) |})
                       | _ => ONone end).
Proof.
  intros Hs Hov. destruct (p2s_sample_step sb l s t p Hs Hov) as (s' & H1 & H2).
  exists s'. split; [exact H1|split; [exact H2|]]. rewrite (p2s_get_of_run sb _ _ H2). reflexivity.
Qed.
(* they panic on wrongly dimensioned input when checking is enabled *)
Theorem C10_to_state_unit_panic (s : @tstate F) t (q : @quantity F) :
  (qu q <> UA -> a2s_step c s (OSome (mkDatum t q)) = Panic) /\
  (qu q <> UV -> v2s_step c s (OSome (mkDatum t q)) = Panic) /\
  (qu q <> UP -> p2s_step c s (OSome (mkDatum t q)) = Panic).
Proof. exact (tostate_unit_panic sb s t q). Qed.
End C10.

Print Assumptions C10_integral_refines_spec.
Print Assumptions C10_derivative_refines_spec.
Print Assumptions C10_integral_derivative_start.
Print Assumptions C10_integral_derivative_reset.
Print Assumptions C10_recurrences.
Print Assumptions C10_acceleration_to_state.
Print Assumptions C10_velocity_to_state.
Print Assumptions C10_position_to_state.
Print Assumptions C10_to_state_unit_panic.
