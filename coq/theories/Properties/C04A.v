(* C04, continued: the controller agrees with the stream assembly of examples/pid.rs (Proofs/AsmReal.v) *)
From Coq Require Import ZArith Bool List Arith Reals Lia.
From RRTK Require Import Num.Num Num.RR Num.B32 Num.Laws Model.Values Model.Prog Model.Combinators Model.Streams Model.Assembly Model.MotionProfile Model.World Model.Devices Proofs.AsmReal.
Import ListNotations.
Local Open Scope Z_scope.

Theorem C04_assembly_agrees_generic : forall (F : Type) (NF : Num F),
       NumLaws F ->
       (forall x : F, fadd fzero x = x) ->
       forall (c : cfg) (sp : F) (k : kvals) (h : list (Z * F)),
       spid_trace c (spid_init c sp (kp k) (ki k) (kd k)) (map (presq c) h) =
       pid_trace c (pid_init sp k) (map pres h).
Proof. exact (@asm_agrees_trace). Qed.

Theorem C04_assembly_agrees_R : forall (c : cfg) (sp : R) (k : kvals) (h : list (Z * R)),
       spid_trace c (spid_init c sp (kp k) (ki k) (kd k)) (map (presq c) h) =
       pid_trace c (pid_init sp k) (map pres h).
Proof. exact (@C04_assembly_agrees_R). Qed.

Theorem C04_assembly_sim_R : forall (c : cfg) (sp : R) (k : kvals) (h : list (Z * R)),
       match PidProofs.pid_run c (pid_init sp k) (map pres h) with
       | Ok s =>
           match spid_run c (spid_init c sp (kp k) (ki k) (kd k)) (map (presq c) h) with
           | Ok a => Sim c sp k s a /\ spid_get a = Ok (pid_get s)
           | Panic => False
           end
       | Panic =>
           match spid_run c (spid_init c sp (kp k) (ki k) (kd k)) (map (presq c) h) with
           | Ok _ => False
           | Panic => True
           end
       end.
Proof. exact (@C04_assembly_sim_R). Qed.

Theorem C04_assembly_all_events_R : forall (c : cfg) (sp : R) (k : kvals) (h : list (out R)),
       spid_trace c (spid_init c sp (kp k) (ki k) (kd k)) (map (inq c) h) =
       gpid_trace c sp k (gpid_init sp k) h.
Proof. exact (@C04_assembly_all_events_R). Qed.

Theorem C04_assembly_gap_rule : forall (F : Type) (NF : Num F) (c : cfg) (sp : F) (k : kvals) (gs : gpid) (p : datum F),
       synced sp k gs ->
       gpid_step c sp k gs (OSome p) =
       match pid_step c (g_pid gs) (OSome p) with
       | Ok (s', u) => Ok ({| g_pid := s'; g_last := pid_prev s'; g_out := pid_get s' |}, u)
       | Panic => Panic
       end.
Proof. exact (@gpid_present_synced). Qed.

Theorem C04_B32_zero_law_fails : ~ (forall x : f32, fadd fzero x = x).
Proof. exact (@B32_not_fadd_zero_l). Qed.

Theorem C04_B32_sign_of_zero_witness : map bits_obs (pid_trace cT (pid_init (b32_neg (z32 0)) (k32 1 1 (-1))) (map pres hz32)) =
       [Ok (UOk, OSome {| d_time := 0; d_val := 0 |}); Ok (UOk, OSome {| d_time := 1000000000; d_val := 0 |})] /\
       map bits_obs
         (spid_trace cT (spid_init cT (b32_neg (z32 0)) (z32 1) (z32 1) (z32 (-1))) (map (presq cT) hz32)) =
       [Ok (UOk, OSome {| d_time := 0; d_val := 0 |});
        Ok (UOk, OSome {| d_time := 1000000000; d_val := 2147483648 |})] /\
       map bits_obs
         (spid_trace cF (spid_init cF (b32_neg (z32 0)) (z32 1) (z32 1) (z32 (-1))) (map (presq cF) hz32)) =
       [Ok (UOk, OSome {| d_time := 0; d_val := 0 |});
        Ok (UOk, OSome {| d_time := 1000000000; d_val := 2147483648 |})].
Proof. exact (@B32_present_only_sign_of_zero). Qed.

Theorem C04_events_differ_controller : pid_trace cT (pid_init 5%R kR) hmR =
       [Ok (UOk, OSome {| d_time := 0; d_val := 4%R |}); Ok (UOk, ONone);
        Ok (UOk, OSome {| d_time := 1000000000; d_val := 3%R |}); Ok (UErr (Other 7), OErr (Other 7))].
Proof. exact (@differ_R_controller). Qed.

Theorem C04_events_differ_assembly : spid_trace cT (spid_init cT 5%R 1%R 1%R 1%R) (map (inq cT) hmR) =
       [Ok (UOk, OSome {| d_time := 0; d_val := 4%R |});
        Ok (UErr FromNone, OSome {| d_time := 0; d_val := 4%R |});
        Ok (UOk, OSome {| d_time := 1000000000; d_val := 2%R |});
        Ok (UErr (Other 7), OSome {| d_time := 1000000000; d_val := 2%R |})].
Proof. exact (@differ_R_assembly). Qed.

Theorem C04_assembly_agrees_nonvacuous : pid_trace cT (pid_init 5%R kR) (map pres [(0, 1%R); (1000000000, 2%R); (3000000000, 4%R)]) =
       [Ok (UOk, OSome {| d_time := 0; d_val := 4%R |});
        Ok (UOk, OSome {| d_time := 1000000000; d_val := (11 / 2)%R |});
        Ok (UOk, OSome {| d_time := 3000000000; d_val := (15 / 2)%R |})] /\
       spid_trace cT (spid_init cT 5%R 1%R 1%R 1%R)
         (map (presq cT) [(0, 1%R); (1000000000, 2%R); (3000000000, 4%R)]) =
       [Ok (UOk, OSome {| d_time := 0; d_val := 4%R |});
        Ok (UOk, OSome {| d_time := 1000000000; d_val := (11 / 2)%R |});
        Ok (UOk, OSome {| d_time := 3000000000; d_val := (15 / 2)%R |})].
Proof. exact (@agrees_R_nonvacuous). Qed.

Print Assumptions C04_assembly_agrees_generic.
Print Assumptions C04_assembly_agrees_R.
Print Assumptions C04_assembly_sim_R.
Print Assumptions C04_assembly_all_events_R.
Print Assumptions C04_assembly_gap_rule.
Print Assumptions C04_B32_zero_law_fails.
Print Assumptions C04_B32_sign_of_zero_witness.
Print Assumptions C04_events_differ_controller.
Print Assumptions C04_events_differ_assembly.
Print Assumptions C04_assembly_agrees_nonvacuous.
