(* C12, continued: convexity, constant input, first sample, no panic on the reals; f32 and Quantity variants agree (Proofs/ConvexReal.v) *)
From Coq Require Import ZArith Bool List Arith Reals Lia.
From RRTK Require Import Num.Num Num.RR Num.B32 Num.Laws Model.Values Model.Prog Model.Combinators Model.Streams Model.Assembly Model.MotionProfile Model.World Model.Devices Proofs.ConvexReal.
Import ListNotations.
Local Open Scope Z_scope.

Theorem C12_ma_convex_R : forall (c : cfg) (w : Z) (evs : list (out R)) (s' : mavg),
       w > 0 ->
       mono None evs ->
       exec (ma_step (ma_acc_f c)) (ma_init w) evs = Ok s' ->
       (exists pre : list (datum R), since_reset [] evs = pre ++ ma_q s') /\
       (forall p : datum R,
        ma_val s' = OSome p -> between (ma_q s') (d_val p) /\ between (since_reset [] evs) (d_val p)).
Proof. exact (@ma_exec_convex). Qed.

Theorem C12_ma_constant_R : forall (c : cfg) (w : Z) (evs : list (out R)) (s' : mavg) (k : R),
       w > 0 ->
       mono None evs ->
       exec (ma_step (ma_acc_f c)) (ma_init w) evs = Ok s' ->
       (forall x : datum R, In x (ma_q s') -> d_val x = k) ->
       forall p : datum R, ma_val s' = OSome p -> d_val p = k.
Proof. exact (@ma_exec_constant). Qed.

Theorem C12_ma_no_panic_R : forall (c : cfg) (w : Z) (evs : list (out R)),
       0 < w <= 9223372036854775807 ->
       mono None evs ->
       Forall (ma_time_ok w) evs -> exists s' : mavg, exec (ma_step (ma_acc_f c)) (ma_init w) evs = Ok s'.
Proof. exact (@ma_exec_no_panic). Qed.

Theorem C12_ewma_lambda_01_R : forall (sm : R) (t pt : Z), (0 <= sm <= 1)%R -> pt <= t -> (0 <= lam sm t pt <= 1)%R.
Proof. exact (@ewma_lambda_01). Qed.

Theorem C12_ewma_first_sample_R : forall (c : cfg) (s : ewma) (o : datum R),
       ew_val s = ONone \/ (exists e : err, ew_val s = OErr e) ->
       ewma_step c mix_f s (OSome o) =
       Ok ({| ew_s := ew_s s; ew_val := OSome o; ew_time := Some (d_time o) |}, UOk).
Proof. exact (@ewma_first_sample). Qed.

Theorem C12_ewma_step_between_R : forall (c : cfg) (sm : R) (s s' : ewma) (p : datum R) (pt : Z) (o : datum R) (u : upd),
       (0 <= sm <= 1)%R ->
       ew_s s = sm ->
       ew_val s = OSome p ->
       ew_time s = Some pt ->
       pt <= d_time o ->
       ewma_step c mix_f s (OSome o) = Ok (s', u) ->
       exists L : R,
         L = lam sm (d_time o) pt /\
         (0 <= L <= 1)%R /\
         ew_val s' = OSome {| d_time := d_time o; d_val := (d_val p * (1 - L) + d_val o * L)%R |} /\
         (Rmin (d_val p) (d_val o) <= d_val p * (1 - L) + d_val o * L <= Rmax (d_val p) (d_val o))%R.
Proof. exact (@ewma_step_between). Qed.

Theorem C12_ewma_convex_R : forall (c : cfg) (sm : R) (evs : list (out R)) (s' : ewma),
       (0 <= sm <= 1)%R ->
       mono None evs ->
       exec (ewma_step c mix_f) (ewma_init sm) evs = Ok s' ->
       forall p : datum R,
       ew_val s' = OSome p ->
       between (since_reset [] evs) (d_val p) /\ olast (since_reset [] evs) = Some (d_time p).
Proof. exact (@ewma_exec_convex). Qed.

Theorem C12_ewma_constant_R : forall (c : cfg) (sm : R) (evs : list (out R)) (s' : ewma) (k : R),
       (0 <= sm <= 1)%R ->
       mono None evs ->
       exec (ewma_step c mix_f) (ewma_init sm) evs = Ok s' ->
       (forall x : datum R, In x (since_reset [] evs) -> d_val x = k) ->
       forall p : datum R, ew_val s' = OSome p -> d_val p = k.
Proof. exact (@ewma_exec_constant). Qed.

Theorem C12_ewma_first_sample_run_R : forall (c : cfg) (sm : R) (evs : list (out R)) (o : datum R),
       (forall x : datum R, ~ In (OSome x) evs) ->
       exists s' : ewma,
         exec (ewma_step c mix_f) (ewma_init sm) (evs ++ [OSome o]) = Ok s' /\ ew_val s' = OSome o.
Proof. exact (@ewma_exec_first_sample). Qed.

Theorem C12_ewma_no_panic_R : forall (c : cfg) (sm : R) (lo hi : Z) (evs : list (out R)),
       (0 <= sm <= 1)%R ->
       hi - lo <= 9223372036854775807 ->
       mono None evs ->
       Forall (ew_time_ok lo hi) evs -> exists s' : ewma, exec (ewma_step c mix_f) (ewma_init sm) evs = Ok s'.
Proof. exact (@ewma_exec_no_panic). Qed.

Theorem C12_ewma_variants_agree : forall (F : Type) (NF : Num F) (c : cfg) (u : unit_),
       unit_wf c u ->
       forall (evs : list (out quantity)) (s : ewma),
       ew_unit u s ->
       Forall (out_unit u) evs ->
       trace (ewma_step c mix_f) (proj_ew s) (map proj_out evs) =
       res_map (map (psu proj_ew)) (trace (ewma_step c (mix_q c)) s evs).
Proof. exact (@ewma_fq_trace). Qed.

Theorem C12_ma_variants_agree : forall (F : Type) (NF : Num F) (c : cfg) (u : unit_),
       unit_wf c u ->
       (forall x : F, fadd fzero x = x) ->
       forall (evs : list (out quantity)) (s : mavg),
       ma_unit u s ->
       Forall (out_unit u) evs ->
       trace (ma_step (ma_acc_f c)) (proj_ma s) (map proj_out evs) =
       res_map (map (psu proj_ma)) (trace (ma_step (ma_acc_q c)) s evs).
Proof. exact (@ma_fq_trace). Qed.

Theorem C12_ma_variants_agree_R : forall (c : cfg) (u : unit_) (evs : list (out (@quantity R))) (s : @mavg (@quantity R)),
       unit_wf c u ->
       @ma_unit R u s ->
       @Forall (out (@quantity R)) (@out_unit R u) evs ->
       @trace (@mavg R) (out R) (@ma_step R (@ma_acc_f R RR c)) (@proj_ma R s)
         (@map (out (@quantity R)) (out R) (@proj_out R) evs) =
       @res_map (list (@mavg (@quantity R) * upd)) (list (@mavg R * upd))
         (@map (@mavg (@quantity R) * upd) (@mavg R * upd)
            (@psu (@mavg R) (@mavg (@quantity R)) (@proj_ma R)))
         (@trace (@mavg (@quantity R)) (out (@quantity R)) (@ma_step (@quantity R) (@ma_acc_q R RR c)) s evs).
Proof. exact (@ma_fq_trace_RR). Qed.

Theorem C12_ma_variants_agree_B32_up_to_zero_sign : forall (tbl : list (Z * Z * Z)) (c : cfg) (u : unit_) (evs : list (out (@quantity f32)))
         (s1 : @mavg f32) (s2 : @mavg (@quantity f32)),
       unit_wf c u ->
       @ma_srel f32 u zeq s1 s2 ->
       @Forall (out (@quantity f32)) (@out_unit f32 u) evs ->
       @res_rel (list (@mavg f32 * upd)) (list (@mavg (@quantity f32) * upd))
         (@Forall2 (@mavg f32 * upd) (@mavg (@quantity f32) * upd)
            (@su_rel (@mavg f32) (@mavg (@quantity f32)) (@ma_srel f32 u zeq)))
         (@trace (@mavg f32) (out f32) (@ma_step f32 (@ma_acc_f f32 (B32_with_pow tbl) c)) s1
            (@map (out (@quantity f32)) (out f32) (@proj_out f32) evs))
         (@trace (@mavg (@quantity f32)) (out (@quantity f32))
            (@ma_step (@quantity f32) (@ma_acc_q f32 (B32_with_pow tbl) c)) s2 evs).
Proof. exact (@ma_fq_trace_b32). Qed.

Theorem C12_ma_variants_differ_B32_witness : let c := {| chk := true; stdf := true |} in
       let u := {| mm := 1; sec := 0 |} in
       let nz := @BinarySingleNaN.B754_zero 24 128 true in
       (exists sf : @mavg f32,
          @ma_step f32 (@ma_acc_f f32 B32 c) (@ma_init f32 10) (@OSome f32 {| d_time := 0; d_val := nz |}) =
          @Ok (@mavg f32 * upd) (sf, UOk) /\
          @ma_val f32 sf =
          @OSome (BinarySingleNaN.binary_float 24 128)
            {| d_time := 0; d_val := @BinarySingleNaN.B754_zero 24 128 false |}) /\
       (exists sq : @mavg (@quantity f32),
          @ma_step (@quantity f32) (@ma_acc_q f32 B32 c) (@ma_init (@quantity f32) 10)
            (@OSome (@quantity f32) {| d_time := 0; d_val := @qnew f32 nz u |}) =
          @Ok (@mavg (@quantity f32) * upd) (sq, UOk) /\
          @ma_val (@quantity f32) sq =
          @OSome (@quantity (BinarySingleNaN.binary_float 24 128))
            {|
              d_time := 0;
              d_val := @qnew (BinarySingleNaN.binary_float 24 128) (@BinarySingleNaN.B754_zero 24 128 true) u
            |}).
Proof. exact (@ma_fq_differ_b32). Qed.

Theorem C12_ma_needs_monotone_times : exists s' : @mavg R,
         @exec (@mavg R) (out R) (@ma_step R (@ma_acc_f R RR {| chk := true; stdf := true |}))
           (@ma_init R 10)
           [@OSome R {| d_time := 5; d_val := 0%R |}; @OSome R {| d_time := 3; d_val := 1%R |}] =
         @Ok (@mavg R) s' /\
         @ma_q R s' = [{| d_time := 5; d_val := 0%R |}; {| d_time := 3; d_val := 1%R |}] /\
         (exists p : datum R, @ma_val R s' = @OSome R p /\ (@d_val R p < 0)%R).
Proof. exact (@ma_not_convex_for_decreasing_times). Qed.

Theorem C12_ewma_needs_monotone_times : exists s' : @ewma R R,
         @exec (@ewma R R) (out R) (@ewma_step R RR {| chk := true; stdf := true |} R (@mix_f R RR))
           (@ewma_init R R (/ 2)%R)
           [@OSome R {| d_time := 1000000000; d_val := 0%R |}; @OSome R {| d_time := 0; d_val := 1%R |}] =
         @Ok (@ewma R R) s' /\ (exists p : datum R, @ew_val R R s' = @OSome R p /\ @d_val R p = (-1)%R).
Proof. exact (@ewma_not_convex_for_decreasing_times). Qed.

Theorem C12_ewma_needs_smoothing_01 : exists s' : @ewma R R,
         @exec (@ewma R R) (out R) (@ewma_step R RR {| chk := true; stdf := true |} R (@mix_f R RR))
           (@ewma_init R R (-1)%R)
           [@OSome R {| d_time := 0; d_val := 0%R |}; @OSome R {| d_time := 1000000000; d_val := 1%R |}] =
         @Ok (@ewma R R) s' /\ (exists p : datum R, @ew_val R R s' = @OSome R p /\ @d_val R p = (-1)%R).
Proof. exact (@ewma_not_convex_for_smoothing_outside_01). Qed.

Theorem C12_ma_hypotheses_satisfiable : exists s' : @mavg R,
         @exec (@mavg R) (out R) (@ma_step R (@ma_acc_f R RR {| chk := true; stdf := true |}))
           (@ma_init R 10) ma_demo = @Ok (@mavg R) s'.
Proof. exact (@ma_demo_runs). Qed.

Theorem C12_ewma_hypotheses_satisfiable : exists s' : @ewma R R,
         @exec (@ewma R R) (out R) (@ewma_step R RR {| chk := true; stdf := true |} R (@mix_f R RR))
           (@ewma_init R R (/ 2)%R) ew_demo = @Ok (@ewma R R) s'.
Proof. exact (@ew_demo_runs). Qed.

Print Assumptions C12_ma_convex_R.
Print Assumptions C12_ma_constant_R.
Print Assumptions C12_ma_no_panic_R.
Print Assumptions C12_ewma_lambda_01_R.
Print Assumptions C12_ewma_first_sample_R.
Print Assumptions C12_ewma_step_between_R.
Print Assumptions C12_ewma_convex_R.
Print Assumptions C12_ewma_constant_R.
Print Assumptions C12_ewma_first_sample_run_R.
Print Assumptions C12_ewma_no_panic_R.
Print Assumptions C12_ewma_variants_agree.
Print Assumptions C12_ma_variants_agree.
Print Assumptions C12_ma_variants_agree_R.
Print Assumptions C12_ma_variants_agree_B32_up_to_zero_sign.
Print Assumptions C12_ma_variants_differ_B32_witness.
Print Assumptions C12_ma_needs_monotone_times.
Print Assumptions C12_ewma_needs_monotone_times.
Print Assumptions C12_ewma_needs_smoothing_01.
Print Assumptions C12_ma_hypotheses_satisfiable.
Print Assumptions C12_ewma_hypotheses_satisfiable.
