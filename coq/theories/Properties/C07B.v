(* C07, binary32 tier: at t = 0 the velocity is the start velocity and the position the start position
   (numerically: IEEE ==, i.e. up to the sign of a zero), for finite inputs and a profile with t1 > 0. *)
From Coq Require Import ZArith.
From Flocq Require Import IEEE754.BinarySingleNaN.
From RRTK Require Import Num.Num Num.B32 Model.Values Model.MotionProfile Proofs.ValuesProofs Proofs.ZeroB32.
Local Open Scope Z_scope.
Theorem C07_initial_conditions (p : @mp f32) :
  wd32 p -> 0 < mp_t1 p ->
  BinarySingleNaN.is_finite (qv (mp_max_acc p)) = true -> BinarySingleNaN.is_finite (qv (mp_start_vel p)) = true ->
  BinarySingleNaN.is_finite (qv (mp_start_pos p)) = true ->
  exists qv_ qp_, @mp_vel f32 B32 (cfg_chk true) p 0 = Ok (Some qv_) /\ @mp_pos f32 B32 (cfg_chk true) p 0 = Ok (Some qp_) /\
    BinarySingleNaN.Beqb (qv qv_) (qv (mp_start_vel p)) = true /\ BinarySingleNaN.Beqb (qv qp_) (qv (mp_start_pos p)) = true /\
    qu qv_ = UVm /\ qu qp_ = UPm.
Proof. exact (initial_conditions_b32 p). Qed.
Print Assumptions C07_initial_conditions.
