(* C17 — A Reference, its clones and its to_dyn conversion all denote one shared object (partial:
   std's Rc / Arc / Mutex / RwLock are assumed, real schedulers are not modelled). *)
From Coq Require Import ZArith Bool List Arith.
From RRTK Require Import Num.Num Model.Values Model.RefHeap Proofs.RefProofs.
Import ListNotations.

(* a write through any live handle (clone or to_dyn image) is what every other handle reads next:
   every step leaves exactly one value, and a read returns it *)
Theorem C17_aliasing h o h' out :
  rstep h o = Ok (h', out) ->
  rh_val h' = (match o with RWrite k y => if live h k then y else rh_val h | _ => rh_val h end) /\
  (forall k, o = RRead k -> live h k = true -> out = RVal (rh_val h)) /\
  rh_var h' = rh_var h.
Proof. exact (rstep_val h o h' out). Qed.
(* the target of a counted variant (Rc, Arc) is freed exactly when no handle is left, after any
   sequence of operations; the pointer variants never free their (static) target *)
Theorem C17_alive ops v x h' outs :
  run (rh_init v x) ops = Ok (h', outs) ->
  (rh_freed h' = true <-> (counted (rh_var h') = true /\ nlive h' = 0)).
Proof. intros H. exact (alive_run ops (rh_init v x) h' outs (alive_init v x) H). Qed.
(* to_dyn! succeeds for every variant the macro lists, and the result aliases the same object *)
Theorem C17_to_dyn_model h k :
  (to_dyn_lists (rh_var h) = true -> rstep h (RToDyn k) <> Panic) /\
  (forall h' out, rstep h (RToDyn k) = Ok (h', out) -> rh_val h' = rh_val h /\ rh_var h' = rh_var h).
Proof. exact (conj (to_dyn_total h k) (to_dyn_aliases h k)). Qed.
(* no lost update: any number of threads, any numbers of increments, EVERY interleaving of the atomic
   steps acquire / read / write / release that respects the lock (model of std's Mutex / RwLock write
   lock; borrow_mut's guard holds the lock for its whole life) *)
Theorem C17_no_lost_update (ns : list nat) (sched : list nat) :
  let s := exec (start ns) sched in
  lock s = None -> counter s = Z.of_nat (total_done (threads s)).
Proof. exact (no_lost_update ns sched). Qed.
Example C17_nonvacuous :
  counter (exec (start [2; 1]) [0; 1; 0; 1; 0; 0; 1; 1; 1; 1; 0; 0; 0; 0]) = 3%Z.
Proof. vm_compute. reflexivity. Qed.

Print Assumptions C17_aliasing.
Print Assumptions C17_alive.
Print Assumptions C17_to_dyn_model.
Print Assumptions C17_no_lost_update.
Print Assumptions C17_nonvacuous.
