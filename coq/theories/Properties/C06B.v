(* C06, binary32 tier: the constructor either panics or yields 0 <= t1 <= t2 <= t3. *)
From Coq Require Import ZArith.
From RRTK Require Import Num.Num Num.B32 Model.Values Model.MotionProfile Proofs.ValuesProofs Proofs.MpB32.
Local Open Scope Z_scope.
Theorem C06_constructor_ordered s0 s1 mv ma (p : @mp f32) :
  @mp_new f32 B32 (cfg_chk true) s0 s1 mv ma = Ok p -> 0 <= mp_t1 p <= mp_t2 p /\ mp_t2 p <= mp_t3 p.
Proof. exact (constructor_ordered s0 s1 mv ma p). Qed.
Print Assumptions C06_constructor_ordered.
