(* C13 — One-degree-of-freedom devices relay the newest command to every terminal, scaled. *)
From Coq Require Import ZArith Bool List Arith.
From RRTK Require Import Num.Num Model.Values Model.World Model.Devices Proofs.WorldProofs Proofs.DeviceProofs Proofs.RelayProofs.
Import ListNotations.
Local Open Scope Z_scope.

Section C13.
Context {F : Type} {NF : Num F}.
Notation world := (@world F).
Notation command := (@command F).

(* inverter: the command written to both sides is the newest of the command read at side 1 and the
   negated command read at side 2 (side 1 on ties): side 1 receives it, side 2 its negation *)
Theorem C13_inverter (w : world) (t1 t2 : nat) :
  t1 <> t2 -> (t1 < length w)%nat -> (t2 < length w)%nat ->
  let w' := invert_cmds w t1 t2 in
  (forall k, slot_s w' k = slot_s w k /\ oth w' k = oth w k) /\
  (forall k, k <> t1 -> k <> t2 -> slot_c w' k = slot_c w k) /\
  match newest2 (cmd_get w t1) (option_map dneg_c (cmd_get w t2)) with
  | Some dc => slot_c w' t1 = Some dc /\ slot_c w' t2 = Some (dneg_c dc)
  | None => w' = w
  end.
Proof. exact (invert_cmd_effect w t1 t2). Qed.
Theorem C13_newest (c1 c2' : option (datum command)) :
  match newest2 c1 c2' with
  | Some dc => (c1 = Some dc \/ c2' = Some dc) /\
               (forall a, c1 = Some a -> d_time a <= d_time dc) /\ (forall b, c2' = Some b -> d_time b <= d_time dc)
  | None => c1 = None /\ c2' = None
  end.
Proof. exact (newest2_spec c1 c2'). Qed.
(* gear train: the newer read (side 1 on ties) is written to the other side, multiplied by the ratio
   from side 1 to side 2 and divided the other way; nothing else changes *)
Theorem C13_gear (w : world) (t1 t2 : nat) r :
  t1 <> t2 -> (t1 < length w)%nat -> (t2 < length w)%nat ->
  let w' := gear_cmds w t1 t2 r in
  (forall k, slot_s w' k = slot_s w k /\ oth w' k = oth w k) /\
  match cmd_get w t1, cmd_get w t2 with
  | Some d1, Some d2 =>
      if d_time d1 >=? d_time d2
      then slot_c w' t2 = Some (dmul_c d1 r) /\ (forall k, k <> t2 -> slot_c w' k = slot_c w k)
      else slot_c w' t1 = Some (ddiv_c d2 r) /\ (forall k, k <> t1 -> slot_c w' k = slot_c w k)
  | Some d1, None => slot_c w' t2 = Some (dmul_c d1 r) /\ (forall k, k <> t2 -> slot_c w' k = slot_c w k)
  | None, Some d2 => slot_c w' t1 = Some (ddiv_c d2 r) /\ (forall k, k <> t1 -> slot_c w' k = slot_c w k)
  | None, None => w' = w
  end.
Proof. exact (gear_cmd_effect w t1 t2 r). Qed.
(* the mapped command keeps the issuer's time stamp and kind *)
Theorem C13_mapped_shape (d : datum command) (r : F) :
  d_time (dneg_c d) = d_time d /\ c_kind (d_val (dneg_c d)) = c_kind (d_val d) /\ c_val (d_val (dneg_c d)) = fneg (c_val (d_val d)) /\
  d_time (dmul_c d r) = d_time d /\ c_kind (d_val (dmul_c d r)) = c_kind (d_val d) /\ c_val (d_val (dmul_c d r)) = fmul (c_val (d_val d)) r /\
  d_time (ddiv_c d r) = d_time d /\ c_kind (d_val (ddiv_c d r)) = c_kind (d_val d) /\ c_val (d_val (ddiv_c d r)) = fdiv (c_val (d_val d)) r.
Proof. exact (mapped_cmd_shape d r). Qed.
(* reading a terminal whose own command is at least as new as its partner's yields the own command *)
Theorem C13_read_after_relay (w : world) i d :
  slot_c w i = Some d -> (forall p, partner_cmd w i = Some p -> d_time p <= d_time d) -> cmd_get w i = Some d.
Proof. exact (cmd_get_own_wins w i d). Qed.
Theorem C13_read_bounds (w : world) i c :
  cmd_get w i = Some c ->
  (forall a, slot_c w i = Some a -> d_time a <= d_time c) /\ (forall p, partner_cmd w i = Some p -> d_time p <= d_time c).
Proof. exact (cmd_get_bounds w i c). Qed.
(* a differential never alters the commands of its terminals *)
Theorem C13_differential_frame (w : world) s1 s2 sm dt :
  (s1 < length w)%nat -> (s2 < length w)%nat -> (sm < length w)%nat ->
  forall i, cmd_get (diff_update w s1 s2 sm dt) i = cmd_get w i.
Proof. intros H1 H2 H3. exact (proj2 (proj2 (diff_frame w s1 s2 sm dt H1 H2 H3))). Qed.
End C13.

Print Assumptions C13_inverter.
Print Assumptions C13_newest.
Print Assumptions C13_gear.
Print Assumptions C13_mapped_shape.
Print Assumptions C13_read_after_relay.
Print Assumptions C13_read_bounds.
Print Assumptions C13_differential_frame.
