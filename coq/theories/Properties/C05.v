(* C05 — Stateful streams: no stale errors, reset erases history, get is pure.
   Every statement is about one step from an ARBITRARY state, hence holds after any history of any
   length.  [get] is a projection of the state in every model, so it is pure by construction. *)
From Coq Require Import ZArith Bool List.
From RRTK Require Import Num.Num Model.Values Model.Streams Proofs.StreamProofs Proofs.CpidProofs.
Local Open Scope Z_scope.

Section C05.
Context {F : Type} {NF : Num F}.
Variable c : cfg.
Notation quantity := (@quantity F).

(* get() returns an error only if the input returned that same error at the most recent update *)
Theorem C05_error_is_fresh_pid s i s' u e : pid_step c s i = Ok (s', u) -> pid_get s' = OErr e -> i = OErr e.
Proof. exact (pid_fresh c s i s' u e). Qed.
Theorem C05_error_is_fresh_ewma {T} (mix : T -> T -> F -> res T) s i s' u e :
  ewma_step c mix s i = Ok (s', u) -> ew_val s' = OErr e -> i = OErr e.
Proof. exact (ewma_fresh c mix s i s' u e). Qed.
Theorem C05_error_is_fresh_moving_average {T} (acc : list (datum T) -> list Z -> Z -> res T) s i s' u e :
  ma_step acc s i = Ok (s', u) -> ma_val s' = OErr e -> i = OErr e.
Proof. exact (ma_fresh acc s i s' u e). Qed.
Theorem C05_error_is_fresh_integral s i s' u e : integ_step c s i = Ok (s', u) -> dint_get s' = OErr e -> i = OErr e.
Proof. exact (integ_fresh c s i s' u e). Qed.
Theorem C05_error_is_fresh_derivative s i s' u e : deriv_step c s i = Ok (s', u) -> dint_get s' = OErr e -> i = OErr e.
Proof. exact (deriv_fresh c s i s' u e). Qed.
(* the to-state converters never return an error from get(); update() returns it, and only a fresh one *)
Theorem C05_to_state_errors (s : @tstate F) e i s' u :
  (a2s_get c s <> Ok (OErr e) /\ v2s_get c s <> Ok (OErr e) /\ p2s_get c s <> Ok (OErr e)) /\
  ((a2s_step c s i = Ok (s', u) \/ v2s_step c s i = Ok (s', u) \/ p2s_step c s i = Ok (s', u)) -> u = UErr e -> i = OErr e).
Proof. exact (conj (tostate_get_never_errors c s e) (fun H => tostate_update_error c s i s' u H e)). Qed.
(* command PID, when the followed getter does not itself error (then update returns early and
   nothing, including a cached input error, changes: C11_follow_error_leaves_state) *)
Theorem C05_error_is_fresh_command_pid s i s' u e :
  cpid_step c s None i = Ok (s', u) -> cpid_get s' = OErr e -> i = OErr e.
Proof. exact (cpid_fresh c s i s' u e). Qed.

(* a reset event leads to a state that does not depend on the history before it: every later output
   equals that of a newly constructed stream (same constant parameters) fed the events from the reset on *)
Theorem C05_reset_canonical_pid s1 s2 r :
  pid_sp s1 = pid_sp s2 -> pid_k s1 = pid_k s2 -> (r = ONone \/ exists e, r = OErr e) -> pid_step c s1 r = pid_step c s2 r.
Proof. intros H1 H2 [->|[e ->]]; cbn; unfold pid_reset; rewrite H1, H2; reflexivity. Qed.
Theorem C05_reset_canonical_ewma {T} (mix : T -> T -> F -> res T) s1 s2 e :
  ew_s s1 = ew_s s2 -> ewma_step c mix s1 (OErr e) = ewma_step c mix s2 (OErr e).
Proof. exact (ewma_reset c mix s1 s2 e). Qed.
Theorem C05_reset_canonical_moving_average {T} (acc : list (datum T) -> list Z -> Z -> res T) s1 s2 e :
  ma_win s1 = ma_win s2 -> ma_step acc s1 (OErr e) = ma_step acc s2 (OErr e).
Proof. exact (ma_reset acc s1 s2 e). Qed.
Theorem C05_reset_canonical_integral_derivative s1 s2 (r : out quantity) :
  (r = ONone \/ exists e, r = OErr e) ->
  integ_step c s1 r = integ_step c s2 r /\ deriv_step c s1 r = deriv_step c s2 r.
Proof. exact (dint_reset c s1 s2 r). Qed.
Theorem C05_reset_canonical_to_state (s1 s2 : @tstate F) e :
  a2s_step c s1 (OErr e) = a2s_step c s2 (OErr e) /\ v2s_step c s1 (OErr e) = v2s_step c s2 (OErr e) /\
  p2s_step c s1 (OErr e) = p2s_step c s2 (OErr e).
Proof. exact (tostate_reset c s1 s2 e). Qed.
Theorem C05_reset_canonical_command_pid s e d :
  cpid_step c s None ONone = Ok (cpid_with_st s CNone, UOk) /\
  cpid_step c (cpid_with_st s (CErr e)) None (OSome d) = cpid_step c (cpid_with_st s CNone) None (OSome d).
Proof. exact (conj (cpid_absent_resets c s) (cpid_error_then_sample c s e d)). Qed.
Theorem C05_passthrough_converters s1 s2 (i : out F) (iq : out quantity) :
  f2q_step s1 i = f2q_step s2 i /\ q2f_step s1 iq = q2f_step s2 iq /\
  (forall u e, f2q_get u (fst (f2q_step s1 i)) = OErr e -> i = OErr e) /\
  (forall e, q2f_get (fst (q2f_step s1 iq)) = OErr e -> iq = OErr e).
Proof. exact (passthrough s1 s2 i iq). Qed.

(* streams that ignore absent samples: deleting an absent event does not change what any later
   event does (state and update result), hence no later output *)
Theorem C05_absent_deletable_ewma {T} (mix : T -> T -> F -> res T) s i :
  match ewma_step c mix s ONone with
  | Ok (s1, _) => ewma_step c mix s1 i = ewma_step c mix s i
  | Panic => False
  end.
Proof. exact (ewma_absent_deletable c mix s i). Qed.
Theorem C05_absent_deletable_moving_average {T} (acc : list (datum T) -> list Z -> Z -> res T) s i :
  match ma_step acc s ONone with
  | Ok (s1, _) => ma_step acc s1 i = ma_step acc s i
  | Panic => False
  end.
Proof. exact (ma_absent_deletable acc s i). Qed.
Theorem C05_absent_ignored_to_state (s : @tstate F) :
  a2s_step c s ONone = Ok (s, UOk) /\ v2s_step c s ONone = Ok (s, UOk) /\ p2s_step c s ONone = Ok (s, UOk).
Proof. exact (tostate_absent_ignored c s). Qed.

(* freeze: the condition's error if it errored; absent if it is absent; what the input returned (error
   included) if it is false; the held value if it is true.  (Reading: an absent or errored condition
   overwrites the held value - see DESIGN.md, C05.) *)
Theorem C05_freeze {T} (s : out T) (cond : out bool) (input : out T) :
  (forall e, cond = OErr e -> freeze_step s cond input = (OErr e, UErr e)) /\
  (cond = ONone -> freeze_step s cond input = (ONone, UOk)) /\
  (forall t, cond = OSome (mkDatum t false) -> fst (freeze_step s cond input) = input) /\
  (forall t, cond = OSome (mkDatum t true) -> freeze_step s cond input = (s, UOk)).
Proof. exact (freeze_spec s cond input). Qed.
End C05.

Print Assumptions C05_error_is_fresh_pid.
Print Assumptions C05_error_is_fresh_ewma.
Print Assumptions C05_error_is_fresh_moving_average.
Print Assumptions C05_error_is_fresh_integral.
Print Assumptions C05_error_is_fresh_derivative.
Print Assumptions C05_to_state_errors.
Print Assumptions C05_error_is_fresh_command_pid.
Print Assumptions C05_reset_canonical_pid.
Print Assumptions C05_reset_canonical_ewma.
Print Assumptions C05_reset_canonical_moving_average.
Print Assumptions C05_reset_canonical_integral_derivative.
Print Assumptions C05_reset_canonical_to_state.
Print Assumptions C05_reset_canonical_command_pid.
Print Assumptions C05_passthrough_converters.
Print Assumptions C05_absent_deletable_ewma.
Print Assumptions C05_absent_deletable_moving_average.
Print Assumptions C05_absent_ignored_to_state.
Print Assumptions C05_freeze.
