(* C13, continued: axle relay for any number of terminals, the chain theorem for any number of devices,
   and the differential's command frame for every list of updates.  Proofs in Proofs/ChainProofs.v. *)
From Coq Require Import ZArith Bool List Arith Reals.
From RRTK Require Import Num.Num Num.RR Model.Values Model.World Model.Devices Proofs.WorldProofs Proofs.DeviceProofs
  Proofs.RelayProofs Proofs.ChainProofs.
Import ListNotations.
Local Open Scope Z_scope.

Section C13C.
Context {F : Type} {NF : Num F}.
Notation world := (@world F).
Notation command := (@command F).

(* the axle's scan: the newest command among the reads, the first one in terminal order on a tie *)
Theorem C13_newest_of (l : list (option (datum command))) :
  match newest_of l with
  | Some d => (forall a, In (Some a) l -> d_time a <= d_time d) /\
              exists l1 l2, l = l1 ++ Some d :: l2 /\ (forall a, In (Some a) l1 -> d_time a < d_time d)
  | None => forall c, In c l -> c = None
  end.
Proof. exact (newest_of_spec l). Qed.
(* axle of any size: every terminal receives, unchanged, the newest command readable at its terminals; absent iff none *)
Theorem C13_axle_relay (w : world) (ts : list nat) :
  (forall i, In i ts -> (i < length w)%nat) ->
  let w' := axle_update w ts in
  (forall k, oth w' k = oth w k) /\ length w' = length w /\
  (forall k, ~ In k ts -> slot_c w' k = slot_c w k) /\
  match newest_of (map (cmd_get w) ts) with
  | Some d => forall i, In i ts -> slot_c w' i = Some d /\ cmd_get w' i = Some d
  | None => (forall k, cmd_get w' k = cmd_get w k) /\ (forall i, In i ts -> cmd_get w' i = None)
  end.
Proof. exact (axle_relay w ts). Qed.
(* chain of any length of inverters / gear trains / axles joined by connected terminals, updated in order: the
   command entering at the near end (strictly newer than every other command in the chain) is readable at the exit of
   EVERY device of the chain, mapped by the devices passed so far, with the issuer's time stamp and kind *)
Theorem C13_chain_run (ch : list (@link F)) (l : @link F) (w : world) (d : datum command) :
  Wf w -> chain_ok w (d_time d) (l :: ch) -> cmd_get w (l_in l) = Some d ->
  let wf := run_chain w (l :: ch) in
  (forall k, oth wf k = oth w k) /\ length wf = length w /\
  (forall k, ~ In k (flat_map lterms (l :: ch)) -> slot_c wf k = slot_c w k) /\
  (forall k a, slot_c wf k = Some a -> slot_c w k = Some a \/ d_time a = d_time d) /\
  (forall p l' s, l :: ch = p ++ l' :: s -> cmd_get wf (l_out l') = Some (chain_cmd (p ++ [l']) d)).
Proof. exact (chain_run ch l w d). Qed.
Theorem C13_chain_relay_value (ch : list (@link F)) (l : @link F) (w : world) (d : datum command) :
  Wf w -> chain_ok w (d_time d) (l :: ch) -> cmd_get w (l_in l) = Some d ->
  exists c0, cmd_get (run_chain w (l :: ch)) (l_out (last ch l)) = Some c0 /\
    d_time c0 = d_time d /\ c_kind (d_val c0) = c_kind (d_val d) /\
    c_val (d_val c0) = chain_scale (l :: ch) (c_val (d_val d)).
Proof. exact (chain_relay_value ch l w d). Qed.
(* a differential never alters the commands of any terminal: every world, every trust mode, any list of updates *)
Theorem C13_differential_never_alters_commands (ds : list (nat * nat * nat * distrust)) (w : world) :
  let w' := diff_run w ds in
  (forall k, t_cmd (wget w' k) = t_cmd (wget w k)) /\ (forall k, t_other (wget w' k) = t_other (wget w k)) /\
  length w' = length w /\ (forall i, cmd_get w' i = cmd_get w i).
Proof. exact (diff_never_alters_commands ds w). Qed.
(* the hypotheses are met by a non-trivial chain (inverter, gear 1->2, 3-terminal axle, gear 2->1) in an 11-terminal world *)
Example C13_chain_hypotheses_satisfiable (v r r2 : F) :
  Wf (ex_world v r r2) /\ chain_ok (ex_world v r r2) (d_time (ex_d0 v)) (ex_chain r r2) /\ cmd_get (ex_world v r r2) 1%nat = Some (ex_d0 v).
Proof. split; [exact (ex_world_Wf v r r2) | split; [exact (ex_chain_ok v r r2 r r2) | exact (ex_near_end v r r2)]]. Qed.
End C13C.

(* on the reals the fold of per-device maps is multiplication by the product of the ratios *)
Theorem C13_chain_relay_R (ch : list (@link R)) (l : @link R) (w : @world R) (d : datum (@command R)) :
  Wf w -> chain_ok w (d_time d) (l :: ch) -> cmd_get w (l_in l) = Some d ->
  exists c0, cmd_get (run_chain w (l :: ch)) (l_out (last ch l)) = Some c0 /\
    d_time c0 = d_time d /\ c_kind (d_val c0) = c_kind (d_val d) /\
    c_val (d_val c0) = (c_val (d_val d) * ratio_product (l :: ch))%R.
Proof. exact (chain_relay_R ch l w d). Qed.

Print Assumptions C13_newest_of.
Print Assumptions C13_axle_relay.
Print Assumptions C13_chain_run.
Print Assumptions C13_chain_relay_value.
Print Assumptions C13_differential_never_alters_commands.
Print Assumptions C13_chain_hypotheses_satisfiable.
Print Assumptions C13_chain_relay_R.
