(* C11 — CommandPID integrates its PID output 0, 1 or 2 times, by command kind. *)
From Coq Require Import ZArith Bool List.
From RRTK Require Import Num.Num Model.Values Model.Streams Proofs.CpidProofs.
Import ListNotations.
Local Open Scope Z_scope.

Section C11.
Context {F : Type} {NF : Num F}.
Variable c : cfg.
Variable cmd : @command F.
Variable ks : @pdkvals F.

(* one present sample appended to the run l of samples since the last restart (newest first, (time,
   error) with error = commanded value - matching state component): the state becomes [st_of] of the
   longer run, i.e. u = K(e, Eint, Dq) with the plain trapezoidal error integral, its trapezoidal
   integral Uint, and the double integral Wint *)
Theorem C11_refines_spec (s : cpid) (l : list (Z * F)) (d : datum (@state F)) :
  cp_cmd s = cmd -> cp_k s = ks ->
  (match st_of cmd ks l with Some u0 => cp_st s = CSome u0 | None => cp_st s = CNone \/ exists e, cp_st s = CErr e end) ->
  (match l with (tp, _) :: _ => in_i64 (d_time d - tp) = true | [] => True end) ->
  exists s', cpid_step c s None (OSome d) = Ok (s', UOk) /\
    cp_cmd s' = cmd /\ cp_k s' = ks /\ cp_last s' = cp_last s /\
    match st_of cmd ks ((d_time d, err_of c cmd d) :: l) with Some u0 => cp_st s' = CSome u0 | None => False end.
Proof. exact (cpid_sample_step c cmd ks s l d). Qed.

(* output by command kind: u itself; its integral, absent for the first sample; the double integral,
   absent for the first two *)
Theorem C11_output_by_kind (s : cpid) (l : list (Z * F)) u0 :
  cp_cmd s = cmd -> st_of cmd ks l = Some u0 -> cp_st s = CSome u0 ->
  cpid_get s =
  match l with
  | [] => ONone
  | (t, _) :: r =>
      match c_kind cmd with
      | Position => OSome (mkDatum t (uval cmd ks l))
      | Velocity => match r with [] => ONone | _ => OSome (mkDatum t (Uint cmd ks l)) end
      | Acceleration => match r with [] | [_] => ONone | _ => OSome (mkDatum t (Wint cmd ks l)) end
      end
  end.
Proof. exact (cpid_get_of_run cmd ks s l u0). Qed.

(* the recurrences, written out *)
Theorem C11_recurrences (t tp tpp : Z) (e ep epp : F) (l : list (Z * F)) :
  uval cmd ks [(t, e)] = pdk_eval ks (c_kind cmd) e fzero fzero /\
  Eint [(t, e); (tp, ep)] = fmul (fdiv (fadd ep e) ftwo) (CpidProofs.dtf t tp) /\
  Eint ((t, e) :: (tp, ep) :: (tpp, epp) :: l) =
    fadd (Eint ((tp, ep) :: (tpp, epp) :: l)) (fmul (fdiv (fadd ep e) ftwo) (CpidProofs.dtf t tp)) /\
  Dq ((t, e) :: (tp, ep) :: l) = fdiv (fsub e ep) (CpidProofs.dtf t tp) /\
  uval cmd ks ((t, e) :: (tp, ep) :: l) =
    pdk_eval ks (c_kind cmd) e (Eint ((t, e) :: (tp, ep) :: l)) (Dq ((t, e) :: (tp, ep) :: l)) /\
  Uint cmd ks [(t, e); (tp, ep)] =
    fmul (fdiv (fadd (uval cmd ks [(tp, ep)]) (uval cmd ks [(t, e); (tp, ep)])) ftwo) (CpidProofs.dtf t tp).
Proof. repeat split. Qed.

Theorem C11_set_same_is_noop s x :
  c_eqb x (cp_cmd s) = true ->
  cpid_set s x = {| cp_last := Some x; cp_cmd := cp_cmd s; cp_k := cp_k s; cp_st := cp_st s |}.
Proof. exact (cpid_set_same s x). Qed.
Theorem C11_set_different_restarts s x :
  c_eqb x (cp_cmd s) = false ->
  cpid_set s x = {| cp_last := Some x; cp_cmd := x; cp_k := cp_k s; cp_st := CNone |}.
Proof. exact (cpid_set_different s x). Qed.
Theorem C11_absent_resets s : cpid_step c s None ONone = Ok (cpid_with_st s CNone, UOk).
Proof. exact (cpid_absent_resets c s). Qed.
Theorem C11_error_reported_until_next_sample s e d :
  cpid_step c s None (OErr e) = Ok (cpid_with_st s (CErr e), UErr e) /\
  cpid_get (cpid_with_st s (CErr e)) = OErr e /\
  cpid_step c (cpid_with_st s (CErr e)) None (OSome d) = cpid_step c (cpid_with_st s CNone) None (OSome d).
Proof. exact (conj (proj1 (cpid_error_cached c s e)) (conj (proj2 (cpid_error_cached c s e)) (cpid_error_then_sample c s e d))). Qed.
Theorem C11_following s e d i :
  cpid_step c s (Some (OErr e)) i = Ok (s, UErr e) /\
  cpid_step c s (Some ONone) i = cpid_step c s None i /\
  cpid_step c s (Some (OSome d)) i = cpid_step c (cpid_set s (d_val d)) None i.
Proof. exact (conj (cpid_follow_error c s e i) (conj (cpid_follow_absent c s i) (cpid_follow_present c s d i))). Qed.
End C11.

Print Assumptions C11_refines_spec.
Print Assumptions C11_output_by_kind.
Print Assumptions C11_recurrences.
Print Assumptions C11_set_same_is_noop.
Print Assumptions C11_set_different_restarts.
Print Assumptions C11_absent_resets.
Print Assumptions C11_error_reported_until_next_sample.
Print Assumptions C11_following.
