(* C19, continued: program-level erasure over the deep embedding, panics of the unchecked run, stream-level erasure (Proofs/EraseProofs.v) *)
From Coq Require Import ZArith Bool List Arith Reals Lia.
From RRTK Require Import Num.Num Num.RR Num.B32 Num.Laws Model.Values Model.Prog Model.Combinators Model.Streams Model.Assembly Model.MotionProfile Model.World Model.Devices Proofs.EraseProofs.
Import ListNotations.
Local Open Scope Z_scope.

Theorem C19_erase_run_sim : forall (F : Type) (NF : Num F) (s s' : bool) (e : expr),
       clean s e = true ->
       run (ValuesProofs.cfg_chk s) e <> RPanic ->
       run (ValuesProofs.cfg_nochk s') (erase_e e) = erase_rv (run (ValuesProofs.cfg_chk s) e).
Proof. exact (@erase_run_sim). Qed.

Theorem C19_erase_run : forall (F : Type) (NF : Num F) (s s' : bool) (e : expr) (v : val),
       clean s e = true ->
       run (ValuesProofs.cfg_chk s) e = RVal v ->
       run (ValuesProofs.cfg_nochk s') (erase_e e) = RVal (erase_v v).
Proof. exact (@erase_run). Qed.

Theorem C19_erase_run_any_cfg : forall (F : Type) (NF : Num F) (ca cb : cfg) (e : expr) (v : val),
       chk ca = true ->
       chk cb = false ->
       clean (stdf ca) e = true -> run ca e = RVal v -> run cb (erase_e e) = RVal (erase_v v).
Proof. exact (@erase_run_cfg). Qed.

Theorem C19_erase_run_blind_fragment : forall (F : Type) (NF : Num F) (s s' : bool) (e : expr) (v : val),
       blind e = true ->
       run (ValuesProofs.cfg_chk s) e = RVal v ->
       run (ValuesProofs.cfg_nochk s') (erase_e e) = RVal (erase_v v).
Proof. exact (@erase_run_blind). Qed.

Theorem C19_blind_implies_clean : forall (F : Type) (NF : Num F) (s : bool) (e : expr), blind e = true -> clean s e = true.
Proof. exact (@blind_clean). Qed.

Theorem C19_exceptions_are_exact : forall (F : Type) (NF : Num F) (s s' : bool) (o : Z) (vs : list val) (v : val),
       observes o vs = true ->
       apply_op (ValuesProofs.cfg_chk s) o vs = RVal v ->
       apply_op (ValuesProofs.cfg_nochk s') o (map erase_v vs) <> RVal (erase_v v).
Proof. exact (@observes_exact). Qed.

Theorem C19_exceptions_described : forall (F : Type) (NF : Num F) (s s' : bool) (a b : quantity) (u v : unit_) (st : state),
       apply_op (ValuesProofs.cfg_nochk s') O_EQ [VU u; VU v] = RType /\
       apply_op (ValuesProofs.cfg_nochk s') O_CONST_EQ [VU u; VU v] = RType /\
       apply_op (ValuesProofs.cfg_nochk s') O_CONST_ASSERT [VU u; VU v] = RType /\
       apply_op (ValuesProofs.cfg_nochk s') O_C_TRY [VQ a] = RType /\
       apply_op (ValuesProofs.cfg_nochk s') O_PD_FROM [VU u] = RType /\
       apply_op (ValuesProofs.cfg_chk s) O_EQ [VQ a; VQ b] =
       RVal (VB (feqb (qv a) (qv b) && ueqb (qu a) (qu b))) /\
       apply_op (ValuesProofs.cfg_nochk s') O_EQ [VQ a; VQ b] = RVal (VB (feqb (qv a) (qv b))) /\
       apply_op (ValuesProofs.cfg_chk s) O_T_TRY [VQ a] =
       RVal (if ueqb (qu a) {| mm := 0; sec := 1 |} then VSome (VT (f_to_i64 (fmul (qv a) f1e9))) else VNone) /\
       apply_op (ValuesProofs.cfg_nochk s') O_T_TRY [VQ a] = RVal (VSome (VT (f_to_i64 (fmul (qv a) f1e9)))) /\
       apply_op (ValuesProofs.cfg_chk s) O_D_TRY [VQ a] =
       RVal (if ueqb (qu a) {| mm := 0; sec := 0 |} then VSome (VD (f_to_i64 (qv a))) else VNone) /\
       apply_op (ValuesProofs.cfg_nochk s') O_D_TRY [VQ a] = RVal (VSome (VD (f_to_i64 (qv a)))) /\
       apply_op (ValuesProofs.cfg_chk s) O_SET_ACC [VS st; VQ a] =
       RVal
         (if ueqb (qu a) {| mm := 1; sec := -2 |}
          then VPair (VS (s_set_acc_raw st (qv a))) (VB true)
          else VPair (VS st) (VB false)) /\
       apply_op (ValuesProofs.cfg_nochk s') O_SET_ACC [VS st; VQ a] =
       RVal (VPair (VS (s_set_acc_raw st (qv a))) (VB true)) /\
       apply_op (ValuesProofs.cfg_chk s) O_SET_VEL [VS st; VQ a] =
       RVal
         (if ueqb (qu a) {| mm := 1; sec := -1 |}
          then VPair (VS (s_set_vel_raw st (qv a))) (VB true)
          else VPair (VS st) (VB false)) /\
       apply_op (ValuesProofs.cfg_nochk s') O_SET_VEL [VS st; VQ a] =
       RVal (VPair (VS (s_set_vel_raw st (qv a))) (VB true)) /\
       apply_op (ValuesProofs.cfg_chk s) O_SET_POS [VS st; VQ a] =
       RVal
         (if ueqb (qu a) {| mm := 1; sec := 0 |}
          then VPair (VS (s_set_pos_raw st (qv a))) (VB true)
          else VPair (VS st) (VB false)) /\
       apply_op (ValuesProofs.cfg_nochk s') O_SET_POS [VS st; VQ a] =
       RVal (VPair (VS (s_set_pos_raw st (qv a))) (VB true)) /\
       apply_op (ValuesProofs.cfg_chk s) O_EQ_TRUE [VU u; VU v] = RVal (VB (ueqb u v)) /\
       apply_op (ValuesProofs.cfg_nochk s') O_EQ_TRUE [VU u; VU v] = RVal (VB true) /\
       apply_op (ValuesProofs.cfg_chk s) O_EQ_FALSE [VU u; VU v] = RVal (VB (ueqb u v)) /\
       apply_op (ValuesProofs.cfg_nochk s') O_EQ_FALSE [VU u; VU v] = RVal (VB false) /\
       apply_op (ValuesProofs.cfg_chk s) O_ASSERT_NOT_OK [VU u; VU v] =
       (if ueqb u v then RVal VUnit else RPanic) /\
       apply_op (ValuesProofs.cfg_nochk s') O_ASSERT_NOT_OK [VU u; VU v] = RPanic.
Proof. exact (@exceptions_described). Qed.

Theorem C19_unchecked_run_never_reads_units : forall (F : Type) (NF : Num F) (s' : bool) (e : expr),
       run (ValuesProofs.cfg_nochk s') (erase_e e) = erase_rv (run (ValuesProofs.cfg_nochk s') e).
Proof. exact (@unchecked_run_blind). Qed.

Theorem C19_unchecked_panic_implies_checked_panic : forall (F : Type) (NF : Num F) (s s' : bool) (e : expr),
       clean s e = true ->
       run (ValuesProofs.cfg_nochk s') (erase_e e) = RPanic -> run (ValuesProofs.cfg_chk s) e = RPanic.
Proof. exact (@unchecked_panic_checked_panic). Qed.

Theorem C19_unchecked_panic_cause : forall (F : Type) (NF : Num F) (s' : bool) (e : expr),
       run (ValuesProofs.cfg_nochk s') e = RPanic ->
       exists (o : Z) (args : list expr) (vs : list val),
         subterm (Op o args) e /\
         evalL (ValuesProofs.cfg_nochk s') args = LVals vs /\
         panic_cause o vs /\ (o <> O_ASSERT_NOT_OK -> forall c : cfg, apply_op c o vs = RPanic).
Proof. exact (@unchecked_run_panic_cause). Qed.

Theorem C19_integral_history_erasure : forall (F : Type) (NF : Num F) (s s' : bool) (h : list (out quantity)) (st st' : dint)
         (tr : list (upd * out quantity)),
       run_hist integ_step (ValuesProofs.cfg_chk s) st h = Ok (st', tr) ->
       run_hist integ_step (ValuesProofs.cfg_nochk s') (erase_dint st) (map erase_out h) =
       Ok (erase_dint st', erase_tr tr).
Proof. exact (@integ_hist_erase). Qed.

Theorem C19_derivative_history_erasure : forall (F : Type) (NF : Num F) (s s' : bool) (h : list (out quantity)) (st st' : dint)
         (tr : list (upd * out quantity)),
       run_hist deriv_step (ValuesProofs.cfg_chk s) st h = Ok (st', tr) ->
       run_hist deriv_step (ValuesProofs.cfg_nochk s') (erase_dint st) (map erase_out h) =
       Ok (erase_dint st', erase_tr tr).
Proof. exact (@deriv_hist_erase). Qed.

Theorem C19_pid_step_cfg_independent : forall (F : Type) (NF : Num F) (s s' : bool) (p : pid) (i : out F),
       pid_step (ValuesProofs.cfg_nochk s') p i = pid_step (ValuesProofs.cfg_chk s) p i.
Proof. exact (@pid_step_cfg). Qed.

Theorem C19_example_well_dimensioned : forall (F : Type) (NF : Num F),
       bool ->
       forall (s' : bool) (x y : F),
       run (ValuesProofs.cfg_nochk s') (erase_e (e_good x y)) =
       RVal (VDat 7 (VQ (qnew (fadd (fdiv x (fdiv (f_of_Z 2000000000) f1e9)) y) u0))).
Proof. exact (@e_good_unchecked). Qed.

Theorem C19_example_ill_dimensioned_B32 : run (ValuesProofs.cfg_chk true) (e_bad (b32_of_Z 3) (b32_of_Z 4)) = RPanic /\
       match run (ValuesProofs.cfg_nochk true) (erase_e (e_bad (b32_of_Z 3) (b32_of_Z 4))) with
       | RVal (VQ q) => b32_to_bits (qv q) = 1088421888 /\ qu q = u0
       | _ => False
       end.
Proof. exact (@e_bad_b32). Qed.

Print Assumptions C19_erase_run_sim.
Print Assumptions C19_erase_run.
Print Assumptions C19_erase_run_any_cfg.
Print Assumptions C19_erase_run_blind_fragment.
Print Assumptions C19_blind_implies_clean.
Print Assumptions C19_exceptions_are_exact.
Print Assumptions C19_exceptions_described.
Print Assumptions C19_unchecked_run_never_reads_units.
Print Assumptions C19_unchecked_panic_implies_checked_panic.
Print Assumptions C19_unchecked_panic_cause.
Print Assumptions C19_integral_history_erasure.
Print Assumptions C19_derivative_history_erasure.
Print Assumptions C19_pid_step_cfg_independent.
Print Assumptions C19_example_well_dimensioned.
Print Assumptions C19_example_ill_dimensioned_B32.
