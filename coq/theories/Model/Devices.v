(* Devices (src/devices.rs) and wrappers (src/devices/wrappers.rs) acting on a world of terminals. *)
From Coq Require Import ZArith Bool List.
From RRTK Require Import Num.Num Model.Values Model.Combinators Model.Streams Model.Settable Model.World.
Import ListNotations.
Local Open Scope Z_scope.

Section Devices.
Context {F : Type} {NF : Num F}.
Variable c : cfg.
Notation state := (@state F).
Notation command := (@command F).
Notation world := (@world F).

Definition dneg_s (d : datum state) : datum state := mkDatum (d_time d) (s_neg (d_val d)).
Definition dneg_c (d : datum command) : datum command := mkDatum (d_time d) (c_neg (d_val d)).
Definition dmul_s (d : datum state) (k : F) : datum state := mkDatum (d_time d) (s_mulf (d_val d) k).
Definition ddiv_s (d : datum state) (k : F) : datum state := mkDatum (d_time d) (s_divf (d_val d) k).
Definition dmul_c (d : datum command) (k : F) : datum command := mkDatum (d_time d) (c_mulf (d_val d) k).
Definition ddiv_c (d : datum command) (k : F) : datum command := mkDatum (d_time d) (c_divf (d_val d) k).

(* ---------------- Invert ---------------- *)
Definition invert_update (w : world) (t1 t2 : nat) : world :=
  let w :=
    match state_get w t1, state_get w t2 with
    | None, None => w
    | None, Some d2 => set_state w t1 (mkDatum (d_time d2) (s_neg (d_val d2)))
    | Some d1, None => set_state w t2 (mkDatum (d_time d1) (s_neg (d_val d1)))
    | Some d1, Some d2 =>
        let time := tmax_ge (d_time d1) (d_time d2) in
        let ns := s_divf (s_sub (d_val d1) (d_val d2)) ftwo in
        set_state (set_state w t1 (mkDatum time ns)) t2 (mkDatum time (s_neg ns))
    end in
  let m0 := fst (replace_if_none_or_older_than_option None (cmd_get w t1)) in
  let m1 := match cmd_get w t2 with
            | Some x => fst (replace_if_none_or_older_than m0 (dneg_c x))
            | None => m0 end in
  match m1 with
  | Some dc => set_cmd (set_cmd w t1 dc) t2 (dneg_c dc)
  | None => w
  end.

(* ---------------- GearTrain ---------------- *)
Definition gear_update (w : world) (t1 t2 : nat) (r : F) : world :=
  let w :=
    match state_get w t1, state_get w t2 with
    | Some d1, Some d2 =>
        let time := tmax_ge (d_time d1) (d_time d2) in
        let r2p1 := fadd (fmul r r) fone in
        let xpry := s_add (d_val d1) (s_mulf (d_val d2) r) in
        let n1 := s_divf xpry r2p1 in
        let n2 := s_divf (s_mulf xpry r) r2p1 in
        set_state (set_state w t1 (mkDatum time n1)) t2 (mkDatum time n2)
    | Some d1, None => set_state w t2 (dmul_s d1 r)
    | None, Some d2 => set_state w t1 (ddiv_s d2 r)
    | None, None => w
    end in
  match cmd_get w t1, cmd_get w t2 with
  | Some d1, Some d2 => if d_time d1 >=? d_time d2 then set_cmd w t2 (dmul_c d1 r) else set_cmd w t1 (ddiv_c d2 r)
  | Some d1, None => set_cmd w t2 (dmul_c d1 r)
  | None, Some d2 => set_cmd w t1 (ddiv_c d2 r)
  | None, None => w
  end.
(* GearTrain::new(teeth): ratio = first / last * (-1 if N even else 1); N < 2 panics *)
Definition gear_ratio_of_teeth (teeth : list F) : res F :=
  match teeth with
  | [] | [_] => Panic
  | f :: _ => Ok (fmul (fdiv f (last teeth f)) (if Nat.even (length teeth) then fneg fone else fone))
  end.

(* ---------------- Axle ---------------- *)
Definition axle_update (w : world) (ts : list nat) : world :=
  let acc := fold_left (fun (a : datum state * Z) i =>
                          match state_get w i with
                          | Some g => (dstate_add (fst a) g, snd a + 1)
                          | None => a end)
                       ts (mkDatum (-9223372036854775808) (snew_raw fzero fzero fzero), 0) in
  let w1 := if snd acc >=? 1 then
              let d := dstate_divf (fst acc) (f_of_Z (snd acc)) in
              fold_left (fun w' i => set_state w' i d) ts w
            else w in
  let m := fold_left (fun m i => fst (replace_if_none_or_older_than_option m (cmd_get w1 i))) ts None in
  match m with
  | Some d => fold_left (fun w' i => set_cmd w' i d) ts w1
  | None => w1
  end.

(* ---------------- Differential ---------------- *)
Inductive distrust := DSide1 | DSide2 | DSum | DEqual.
Definition dstate_sub (a b : datum state) : datum state := mkDatum (tmax_ge (d_time a) (d_time b)) (s_sub (d_val a) (d_val b)).
Definition diff_update (w : world) (s1 s2 sm : nat) (dt : distrust) : world :=
  match dt with
  | DSide1 => match state_get w sm with None => w | Some sum =>
              match state_get w s2 with None => w | Some side2 => set_state w s1 (dstate_sub sum side2) end end
  | DSide2 => match state_get w sm with None => w | Some sum =>
              match state_get w s1 with None => w | Some side1 => set_state w s2 (dstate_sub sum side1) end end
  | DSum => match state_get w s1 with None => w | Some side1 =>
            match state_get w s2 with None => w | Some side2 => set_state w sm (dstate_add side1 side2) end end
  | DEqual =>
      match state_get w sm with None => w | Some sum =>
      match state_get w s1 with None => w | Some side1 =>
      match state_get w s2 with None => w | Some side2 =>
        let nsum := dstate_divf (dstate_add (dstate_add side1 side2) (dmul_s sum ftwo)) fthree in
        let w1 := set_state w sm nsum in
        let n1 := dstate_divf (dstate_add (dstate_sub (dmul_s side1 ftwo) side2) sum) fthree in
        let w2 := set_state w1 s1 n1 in
        let n2 := dstate_divf (dstate_add (dstate_add (dneg_s side1) (dmul_s side2 ftwo)) sum) fthree in
        set_state w2 s2 n2
      end end end
  end.

(* ---------------- wrappers ---------------- *)
(* ActuatorWrapper: inner settable of TerminalData (scripted accept / reject) *)
Definition actuator_update (w : world) (t : nat) (inner : @sett (@tdata F)) : @sett (@tdata F) * upd :=
  match data_get w t with
  | Some td => sett_set inner (d_val td)        (* an error returns before inner.update() *)
  | None => (inner, UOk)
  end.
(* GetterStateDeviceWrapper: inner getter (scripted update result and output) *)
Definition encoder_update (w : world) (t : nat) (inner_update : upd) (inner_out : out state) : world * upd :=
  match inner_update with
  | UErr e => (w, UErr e)
  | UOk => match inner_out with
           | OErr e => (w, UErr e)
           | ONone => (w, UOk)
           | OSome d => (set_state w t d, UOk)
           end
  end.
(* PIDWrapper *)
Record pidw := { pw_clock : Z; pw_state : @cgetter state; pw_cmd : @cgetter command; pw_pid : @cpid F; pw_inner : @sett F }.
Definition pidw_init (t0 : Z) (s0 : state) (c0 : command) (k : @pdkvals F) : pidw :=
  {| pw_clock := t0;
     pw_state := {| cg_val := s0; cg_last := None; cg_following := false |};
     pw_cmd := {| cg_val := c0; cg_last := None; cg_following := false |};
     pw_pid := cpid_init c0 k;
     pw_inner := sett_follow sett_init |}.
Definition pidw_update (w : world) (t : nat) (p : pidw) : res (pidw * upd) :=
  let after_data : res (pidw * upd) :=
    match data_get w t with
    | None => Ok (p, UOk)
    | Some td =>
        let clock := td_time (d_val td) in
        let st := match td_state (d_val td) with Some s => cg_set (pw_state p) s | None => pw_state p end in
        let cm := match td_cmd (d_val td) with Some x => cg_set (pw_cmd p) x | None => pw_cmd p end in
        let! r := cpid_step c (pw_pid p) (Some (cg_get cm (TOk clock))) (cg_get st (TOk clock)) in
        Ok ({| pw_clock := clock; pw_state := st; pw_cmd := cm; pw_pid := fst r; pw_inner := pw_inner p |}, snd r)
    end in
  let! r := after_data in
  match snd r with
  | UErr e => Ok (fst r, UErr e)
  | UOk =>
      let p1 := fst r in
      let '(inner', u) := sett_update (pw_inner p1) (cpid_get (pw_pid p1)) in
      Ok ({| pw_clock := pw_clock p1; pw_state := pw_state p1; pw_cmd := pw_cmd p1; pw_pid := pw_pid p1; pw_inner := inner' |}, u)
  end.
End Devices.
