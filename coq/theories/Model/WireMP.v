(* kind 6: [chk; std; start(p v a); end(p v a); max_vel(bits mm sec); max_acc(bits mm sec); n; t_1..t_n]
   -> constructor outcome (99 | 0 t1 t2 t3 max_acc end_command) then for each t:
      piece, mode, acceleration, velocity, position, history *)
From Coq Require Import ZArith Bool List.
From RRTK Require Import Num.Num Num.B32 Model.Values Model.Wire Model.WireStreams Model.MotionProfile.
Import ListNotations.
Local Open Scope Z_scope.

Definition e_oq (o : option Q32) : list Z := match o with Some q => 1 :: e_q q | None => [0] end.
Definition e_roq (r : res (option Q32)) : list Z := match r with Ok o => e_oq o | Panic => [W_PANIC] end.
Definition e_opd (o : option pd) : list Z := match o with Some d => [1; enc_pd d] | None => [0] end.
Definition e_hist (r : res (option (datum C32))) : list Z :=
  match r with
  | Panic => [W_PANIC]
  | Ok None => [0]
  | Ok (Some d) => 1 :: d_time d :: e_c (d_val d)
  end.
Definition mp_query (c : cfg) (p : @mp f32) (t : Z) : list Z :=
  [enc_piece (mp_piece p t)] ++ e_opd (mp_mode p t) ++ e_oq (mp_acc c p t) ++ e_roq (mp_vel c p t)
  ++ e_roq (mp_pos c p t) ++ e_hist (mp_history c p t).

Definition run_mp_case (l : list Z) : list Z :=
  match l with
  | ck :: sd :: r =>
      let c := {| chk := negb (ck =? 0); stdf := negb (sd =? 0) |} in
      let p : P (list Z) :=
        do s0 <- p_s; do s1 <- p_s; do mv <- p_q c; do ma <- p_q c; do n <- pz; do ts <- prep (Z.to_nat n) pz;
        pret (match mp_new c s0 s1 mv ma with
              | Panic => [W_PANIC]
              | Ok p => [0; mp_t1 p; mp_t2 p; mp_t3 p] ++ e_q (mp_max_acc p) ++ e_c (mp_end p)
                        ++ flat_map (mp_query c p) ts
              end) in
      match p r with Some (res, []) => res | _ => [W_BAD] end
  | _ => [W_BAD]
  end.
