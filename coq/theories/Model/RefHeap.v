(* Reference<T> and its clones (src/reference.rs): all clones and to_dyn! images of one Reference
   denote one shared object.  Heap of one cell with a strong count for the counted variants. *)
From Coq Require Import ZArith Bool List.
From RRTK Require Import Num.Num Model.Values.
Import ListNotations.
Local Open Scope Z_scope.

Inductive variant := VPtr | VRcRefCell | VPtrRwLock | VPtrMutex | VArcRwLock | VArcMutex.
Definition counted (v : variant) : bool := match v with VRcRefCell | VArcRwLock | VArcMutex => true | _ => false end.
(* the arms the to_dyn! macro lists (build with std) *)
Definition to_dyn_lists (v : variant) : bool := match v with VPtr | VRcRefCell | VPtrRwLock => true | _ => false end.

(* one target object; handles are slots that are live or dropped *)
Record rheap := { rh_var : variant; rh_val : Z; rh_handles : list bool; rh_freed : bool }.
Definition rh_init (v : variant) (x : Z) : rheap := {| rh_var := v; rh_val := x; rh_handles := [true]; rh_freed := false |}.
Definition live (h : rheap) (k : nat) : bool := nth k (rh_handles h) false.
Definition nlive (h : rheap) : nat := length (filter (fun b => b) (rh_handles h)).
Fixpoint set_nth (l : list bool) (k : nat) (b : bool) : list bool :=
  match l, k with [], _ => [] | _ :: r, O => b :: r | x :: r, S j => x :: set_nth r j b end.

Inductive rop := RClone (k : nat) | RToDyn (k : nat) | RRead (k : nat) | RWrite (k : nat) (x : Z) | RDrop (k : nat) | RFreed.
Inductive rout := ROk | RVal (x : Z) | RBool (b : bool) | RBad.
(* using a dropped / non-existent handle is not expressible in safe Rust: RBad marks a malformed script *)
Definition rstep (h : rheap) (o : rop) : res (rheap * rout) :=
  match o with
  | RClone k => if live h k then Ok ({| rh_var := rh_var h; rh_val := rh_val h; rh_handles := rh_handles h ++ [true]; rh_freed := rh_freed h |}, ROk)
                else Ok (h, RBad)
  | RToDyn k => if live h k then
                  if to_dyn_lists (rh_var h)
                  then Ok ({| rh_var := rh_var h; rh_val := rh_val h; rh_handles := set_nth (rh_handles h) k false ++ [true]; rh_freed := rh_freed h |}, ROk)
                  else Panic                                  (* `_ => unimplemented!()` *)
                else Ok (h, RBad)
  | RRead k => if live h k then Ok (h, RVal (rh_val h)) else Ok (h, RBad)
  | RWrite k x => if live h k then Ok ({| rh_var := rh_var h; rh_val := x; rh_handles := rh_handles h; rh_freed := rh_freed h |}, ROk) else Ok (h, RBad)
  | RDrop k => if live h k then
                 let hs := set_nth (rh_handles h) k false in
                 let none_left := Nat.eqb (length (filter (fun b => b) hs)) 0 in
                 Ok ({| rh_var := rh_var h; rh_val := rh_val h; rh_handles := hs;
                        rh_freed := rh_freed h || (counted (rh_var h) && none_left) |}, ROk)
               else Ok (h, RBad)
  | RFreed => Ok (h, RBool (rh_freed h))
  end.
