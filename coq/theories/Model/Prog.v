(* A deep embedding of programs over rrtk's public value API (quantities, units, Time,
   DimensionlessInteger, State, Command, Datum, conversions, setters, comparisons), with an
   interpreter [run].  The same operator table is implemented on the Rust side by the harness
   (harness/src/prog.rs), one arm per `impl` of the crate.  Definitions only. *)
From Coq Require Import ZArith Bool List.
From RRTK Require Import Num.Num Model.Values.
Import ListNotations.
Local Open Scope Z_scope.

Section Prog.
Context {F : Type} {NF : Num F}.
Variable c : cfg.

Inductive val :=
| VF (f : F) | VQ (q : @quantity F) | VT (t : Z) | VD (d : Z) | VU (u : unit_) | VI (i : Z)
| VB (b : bool) | VS (s : @state F) | VC (x : @command F) | VPD (d : pd) | VPiece (p : piece)
| VNone | VSome (v : val) | VDat (t : Z) (v : val) | VOrd (o : option comparison)
| VUnit | VPair (a b : val).

(* results: a value, a panic, or an ill-typed application (never generated; both sides report it) *)
Inductive rv := RVal (v : val) | RPanic | RType.
Definition rbind (r : rv) (f : val -> rv) : rv := match r with RVal v => f v | x => x end.
Definition of_res {A} (f : A -> val) (r : res A) : rv := match r with Ok a => RVal (f a) | Panic => RPanic end.
Definition vopt {A} (f : A -> val) (o : option A) : val := match o with Some a => VSome (f a) | None => VNone end.
Definition vsetter (p : @state F * bool) : val := VPair (VS (fst p)) (VB (snd p)).

(* opcodes *)
Definition O_ADD := 1. Definition O_SUB := 2. Definition O_MUL := 3. Definition O_DIV := 4.
Definition O_ADDA := 5. Definition O_SUBA := 6. Definition O_MULA := 7. Definition O_DIVA := 8.
Definition O_NEG := 9. Definition O_NOT := 10. Definition O_ABS := 11. Definition O_EQ := 12. Definition O_PCMP := 13.
Definition O_Q_FROM := 20. Definition O_T_TRY := 21. Definition O_D_TRY := 22. Definition O_F_FROM := 23.
Definition O_I_FROM := 24. Definition O_T_FROM_I := 25. Definition O_D_FROM_I := 26. Definition O_C_TRY := 27.
Definition O_PD_FROM := 28. Definition O_U_FROM := 29. Definition O_C_FROM_S := 30. Definition O_C_NEW := 31.
Definition O_Q_NEW := 32. Definition O_Q_DIMLESS := 33. Definition O_U_NEW := 34. Definition O_S_NEW := 35.
Definition O_S_NEW_RAW := 36. Definition O_DAT_NEW := 37.
Definition O_CONST_EQ := 40. Definition O_EQ_TRUE := 41. Definition O_EQ_FALSE := 42. Definition O_ASSERT_OK := 43.
Definition O_ASSERT_NOT_OK := 44. Definition O_CONST_ASSERT := 45.
Definition O_S_UPDATE := 50. Definition O_SET_ACC := 51. Definition O_SET_VEL := 52. Definition O_SET_POS := 53.
Definition O_SET_ACC_RAW := 54. Definition O_SET_VEL_RAW := 55. Definition O_SET_POS_RAW := 56.
Definition O_GET_POS := 57. Definition O_GET_VEL := 58. Definition O_GET_ACC := 59. Definition O_GET_VALUE := 60.
Definition O_C_GET_POS := 61. Definition O_C_GET_VEL := 62. Definition O_C_GET_ACC := 63.
Definition O_REPL_OLDER := 70. Definition O_REPL_NONE_OLDER := 71. Definition O_REPL_NONE_OLDER_OPT := 72.
Definition O_LATEST := 73. Definition O_K_EVAL := 80. Definition O_PDK_EVAL := 81.

(* the four arithmetic operators on payload-level values; assign forms compute the same value *)
Definition base_op (o : Z) : Z := if (5 <=? o) && (o <=? 8) then o - 4 else o.
Definition is_assign (o : Z) : bool := (5 <=? o) && (o <=? 8).

Definition arith_f (o : Z) (a b : F) : F :=
  if o =? 1 then fadd a b else if o =? 2 then fsub a b else if o =? 3 then fmul a b else fdiv a b.
Definition arith_q (o : Z) (a b : @quantity F) : rv :=
  if o =? 1 then of_res VQ (qadd c a b) else if o =? 2 then of_res VQ (qsub c a b)
  else if o =? 3 then RVal (VQ (qmul c a b)) else RVal (VQ (qdiv c a b)).
Definition arith_i (o : Z) (a b : Z) : res Z :=
  if o =? 1 then iadd a b else if o =? 2 then isub a b else if o =? 3 then imul a b else idiv a b.

(* Datum<T> op Datum<T>, Datum<T> op T exist for T in {f32, Quantity, State, Command}; in addition
   Datum<State|Command> * / Datum<f32> and * / f32 *)
Definition dat_payload_ok (v1 v2 : val) : bool :=
  match v1, v2 with
  | VF _, VF _ | VQ _, VQ _ | VS _, VS _ | VC _, VC _ | VS _, VF _ | VC _, VF _ => true
  | _, _ => false
  end.

(* binary arithmetic, dispatched on the operand types exactly as the crate's impl tables are.
   [o] is the base operator 1..4; [asg] says whether the assign form is being asked for (some
   combinations exist only in one of the two forms). *)
Fixpoint arith (o : Z) (asg : bool) (x y : val) {struct x} : rv :=
  match x, y with
  | VF a, VF b => RVal (VF (arith_f o a b))
  | VQ a, VQ b => arith_q o a b
  | VQ a, VT t => arith_q o a (q_of_time c t)
  | VQ a, VD d => arith_q o a (q_of_dint c d)
  | VT t, VQ b =>
      if asg then RType
      else if o =? 3 then arith_q 3 b (q_of_time c t) else arith_q o (q_of_time c t) b
  | VD d, VQ b =>
      if asg then RType
      else if o =? 3 then arith_q 3 b (q_of_dint c d) else arith_q o (q_of_dint c d) b
  | VT a, VT b =>
      if (o =? 1) || (o =? 2) then of_res VT (arith_i o a b)
      else if asg then RType else arith_q o (q_of_time c a) (q_of_time c b)
  | VT a, VD b => if (o =? 3) || (o =? 4) then of_res VT (arith_i o a b) else RType
  | VD a, VD b => of_res VD (arith_i o a b)
  | VD a, VT b =>
      if asg then RType
      else if o =? 3 then of_res VT (imul a b)
      else if o =? 4 then arith_q 4 (q_of_dint c a) (q_of_time c b) else RType
  | VU a, VU b =>
      if o =? 1 then of_res VU (uadd c a b) else if o =? 2 then of_res VU (usub c a b)
      else if o =? 3 then RVal (VU (umul c a b)) else RVal (VU (udiv c a b))
  | VS a, VS b => if o =? 1 then RVal (VS (s_add a b)) else if o =? 2 then RVal (VS (s_sub a b)) else RType
  | VS a, VF k => if o =? 3 then RVal (VS (s_mulf a k)) else if o =? 4 then RVal (VS (s_divf a k)) else RType
  | VC a, VC b => if o =? 1 then of_res VC (c_add a b) else if o =? 2 then of_res VC (c_sub a b) else RType
  | VC a, VF k => if o =? 3 then RVal (VC (c_mulf a k)) else if o =? 4 then RVal (VC (c_divf a k)) else RType
  | VDat t1 v1, VDat t2 v2 =>
      if dat_payload_ok v1 v2 then rbind (arith o asg v1 v2) (fun v => RVal (VDat (tmax_ge t1 t2) v))
      else RType
  | VDat t1 v1, y =>
      if dat_payload_ok v1 y then rbind (arith o asg v1 y) (fun v => RVal (VDat t1 v)) else RType
  | _, _ => RType
  end.

Fixpoint neg_val (x : val) : rv :=
  match x with
  | VF a => RVal (VF (fneg a)) | VQ a => RVal (VQ (qneg a))
  | VT a => of_res VT (ineg a) | VD a => of_res VD (ineg a)
  | VU a => RVal (VU (uneg a)) | VS a => RVal (VS (s_neg a)) | VC a => RVal (VC (c_neg a))
  | VDat t v => match v with VDat _ _ => RType | _ => rbind (neg_val v) (fun w => RVal (VDat t w)) end
  | _ => RType
  end.
Definition not_val (x : val) : rv :=
  match x with
  | VB b => RVal (VB (negb b))
  | VDat t (VB b) => RVal (VDat t (VB (negb b)))
  | _ => RType
  end.

Definition eq_val (x y : val) : rv :=
  match x, y with
  | VF a, VF b => RVal (VB (feqb a b))
  | VQ a, VQ b => RVal (VB (qeqb c a b))
  | VT a, VT b | VD a, VD b | VI a, VI b => RVal (VB (a =? b))
  | VU a, VU b => if chk c then RVal (VB (ueqb a b)) else RType
  | VS a, VS b => RVal (VB (s_eqb a b))
  | VC a, VC b => RVal (VB (c_eqb a b))
  | _, _ => RType
  end.

Definition vdat_of (d : datum val) : val := VDat (d_time d) (d_val d).
Definition vodat_of (d : option (datum val)) : val := vopt vdat_of d.
Definition odat_of_val (v : val) : option (option (datum val)) :=
  match v with VNone => Some None | VSome (VDat t w) => Some (Some (mkDatum t w)) | _ => None end.

Definition apply_op (o : Z) (args : list val) : rv :=
  match args with
  | [x] =>
      if o =? O_NEG then neg_val x
      else if o =? O_NOT then not_val x
      else if o =? O_ABS then match x with VQ q => RVal (VQ (qabs c q)) | _ => RType end
      else if o =? O_Q_FROM then
        match x with
        | VT t => RVal (VQ (q_of_time c t)) | VD d => RVal (VQ (q_of_dint c d))
        | VC k => RVal (VQ (q_of_command c k)) | _ => RType end
      else if o =? O_T_TRY then match x with VQ q => RVal (vopt VT (time_of_q c q)) | _ => RType end
      else if o =? O_D_TRY then match x with VQ q => RVal (vopt VD (dint_of_q c q)) | _ => RType end
      else if o =? O_F_FROM then
        match x with VQ q => RVal (VF (qv q)) | VC k => RVal (VF (c_val k)) | _ => RType end
      else if o =? O_I_FROM then match x with VT t => RVal (VI t) | VD d => RVal (VI d) | _ => RType end
      else if o =? O_T_FROM_I then match x with VI i => RVal (VT i) | _ => RType end
      else if o =? O_D_FROM_I then match x with VI i => RVal (VD i) | _ => RType end
      else if o =? O_C_TRY then
        match x with VQ q => if chk c then RVal (vopt VC (c_of_q c q)) else RType | _ => RType end
      else if o =? O_PD_FROM then
        match x with
        | VC k => RVal (VPD (c_kind k))
        | VPiece p => RVal (vopt VPD (pd_of_piece p))
        | VU u => if chk c then RVal (vopt VPD (pd_of_unit c u)) else RType
        | _ => RType end
      else if o =? O_U_FROM then
        match x with
        | VPD d => RVal (VU (unit_of_pd c d))
        | VPiece p => RVal (vopt VU (unit_of_piece c p))
        | _ => RType end
      else if o =? O_C_FROM_S then match x with VS s => RVal (VC (c_of_state s)) | _ => RType end
      else if o =? O_Q_DIMLESS then match x with VF f => RVal (VQ (qdimless c f)) | _ => RType end
      else if o =? O_GET_POS then match x with VS s => RVal (VQ (s_get_pos c s)) | _ => RType end
      else if o =? O_GET_VEL then match x with VS s => RVal (VQ (s_get_vel c s)) | _ => RType end
      else if o =? O_GET_ACC then match x with VS s => RVal (VQ (s_get_acc c s)) | _ => RType end
      else if o =? O_C_GET_POS then match x with VC k => RVal (vopt VQ (c_get_pos c k)) | _ => RType end
      else if o =? O_C_GET_VEL then match x with VC k => RVal (vopt VQ (c_get_vel c k)) | _ => RType end
      else if o =? O_C_GET_ACC then match x with VC k => RVal (VQ (c_get_acc c k)) | _ => RType end
      else RType
  | [x; y] =>
      if (1 <=? o) && (o <=? 8) then arith (base_op o) (is_assign o) x y
      else if o =? O_EQ then eq_val x y
      else if o =? O_PCMP then
        match x, y with VQ a, VQ b => of_res VOrd (qpcmp c a b) | VF a, VF b => RVal (VOrd (fpcmp a b)) | _, _ => RType end
      else if o =? O_C_NEW then match x, y with VPD d, VF f => RVal (VC (cnew d f)) | _, _ => RType end
      else if o =? O_Q_NEW then match x, y with VF f, VU u => RVal (VQ (qnew f u)) | _, _ => RType end
      else if o =? O_U_NEW then match x, y with VI a, VI b => RVal (VU (unew c a b)) | _, _ => RType end
      else if o =? O_DAT_NEW then
        match x, y with VT t, VDat _ _ => RType | VT t, v => RVal (VDat t v) | _, _ => RType end
      else if o =? O_CONST_EQ then
        match x, y with VU a, VU b => if chk c then RVal (VB (ueqb a b)) else RType | _, _ => RType end
      else if o =? O_EQ_TRUE then match x, y with VU a, VU b => RVal (VB (eq_assume_true c a b)) | _, _ => RType end
      else if o =? O_EQ_FALSE then match x, y with VU a, VU b => RVal (VB (eq_assume_false c a b)) | _, _ => RType end
      else if o =? O_ASSERT_OK then
        match x, y with VU a, VU b => of_res (fun _ => VUnit) (assert_ok c a b) | _, _ => RType end
      else if o =? O_ASSERT_NOT_OK then
        match x, y with VU a, VU b => of_res (fun _ => VUnit) (assert_not_ok c a b) | _, _ => RType end
      else if o =? O_CONST_ASSERT then
        match x, y with
        | VU a, VU b => if chk c then (if ueqb a b then RVal VUnit else RPanic) else RType
        | _, _ => RType end
      else if o =? O_S_UPDATE then match x, y with VS s, VT t => of_res VS (s_update c s t) | _, _ => RType end
      else if o =? O_SET_ACC then match x, y with VS s, VQ q => RVal (vsetter (s_set_acc c s q)) | _, _ => RType end
      else if o =? O_SET_VEL then match x, y with VS s, VQ q => RVal (vsetter (s_set_vel c s q)) | _, _ => RType end
      else if o =? O_SET_POS then match x, y with VS s, VQ q => RVal (vsetter (s_set_pos c s q)) | _, _ => RType end
      else if o =? O_SET_ACC_RAW then match x, y with VS s, VF f => RVal (VS (s_set_acc_raw s f)) | _, _ => RType end
      else if o =? O_SET_VEL_RAW then match x, y with VS s, VF f => RVal (VS (s_set_vel_raw s f)) | _, _ => RType end
      else if o =? O_SET_POS_RAW then match x, y with VS s, VF f => RVal (VS (s_set_pos_raw s f)) | _, _ => RType end
      else if o =? O_GET_VALUE then match x, y with VS s, VPD d => RVal (VQ (s_get_value c s d)) | _, _ => RType end
      else if o =? O_REPL_OLDER then
        match x, y with
        | VDat t1 v1, VDat t2 v2 =>
            let r := replace_if_older_than (mkDatum t1 v1) (mkDatum t2 v2) in
            RVal (VPair (vdat_of (fst r)) (VB (snd r)))
        | _, _ => RType end
      else if o =? O_REPL_NONE_OLDER then
        match odat_of_val x, y with
        | Some s, VDat t2 v2 =>
            let r := replace_if_none_or_older_than s (mkDatum t2 v2) in
            RVal (VPair (vodat_of (fst r)) (VB (snd r)))
        | _, _ => RType end
      else if o =? O_REPL_NONE_OLDER_OPT then
        match odat_of_val x, odat_of_val y with
        | Some s, Some d =>
            let r := replace_if_none_or_older_than_option s d in
            RVal (VPair (vodat_of (fst r)) (VB (snd r)))
        | _, _ => RType end
      else if o =? O_LATEST then
        match x, y with
        | VDat t1 v1, VDat t2 v2 => RVal (vdat_of (latest (mkDatum t1 v1) (mkDatum t2 v2)))
        | _, _ => RType end
      else RType
  | [x; y; z] =>
      if o =? O_S_NEW then
        match x, y, z with VQ p, VQ v, VQ a => of_res VS (snew c p v a) | _, _, _ => RType end
      else if o =? O_S_NEW_RAW then
        match x, y, z with VF p, VF v, VF a => RVal (VS (snew_raw p v a)) | _, _, _ => RType end
      else RType
  | [VF p; VF i; VF d; VF e; VF ei; VF ed] =>
      if o =? O_K_EVAL then RVal (VF (k_eval {| kp := p; ki := i; kd := d |} e ei ed)) else RType
  | _ => RType
  end.

Inductive expr := Lit (v : val) | Op (o : Z) (args : list expr).

Fixpoint run (e : expr) : rv :=
  match e with
  | Lit v => RVal v
  | Op o args =>
      (fix go (l : list expr) (acc : list val) {struct l} : rv :=
         match l with
         | [] => apply_op o (rev acc)
         | a :: r => match run a with RVal v => go r (v :: acc) | x => x end
         end) args []
  end.

End Prog.
