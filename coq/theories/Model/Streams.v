(* Stateful streams (src/streams/control.rs, math.rs, converters.rs, flow.rs): for each stream a state
   record, [step] (one call of update() given what the input getter returns at that moment) and [get].
   Same branches, same operand order and association as the Rust.  Definitions only. *)
From Coq Require Import ZArith Bool List.
From RRTK Require Import Num.Num Model.Values.
Import ListNotations.
Local Open Scope Z_scope.

Inductive upd := UOk | UErr (e : err).

Section Streams.
Context {F : Type} {NF : Num F}.
Variable c : cfg.
Notation quantity := (@quantity F).
Notation state := (@state F).
Notation command := (@command F).

(* f32::from(Quantity::from(t2 - t1)) ; the i64 subtraction panics on overflow in a debug build *)
Definition dt_f (t2 t1 : Z) : res F := let! d := isub t2 t1 in Ok (qv (q_of_time c d)).
Definition dt_q (t2 t1 : Z) : res quantity := let! d := isub t2 t1 in Ok (q_of_time c d).

(* ------------------------------------------------------------------ PIDControllerStream *)
Record pid := { pid_sp : F; pid_k : @kvals F; pid_prev : option (datum F); pid_int : F; pid_out : out F }.
Definition pid_init (sp : F) (k : @kvals F) : pid :=
  {| pid_sp := sp; pid_k := k; pid_prev := None; pid_int := fzero; pid_out := ONone |}.
Definition pid_reset (s : pid) : pid :=
  {| pid_sp := pid_sp s; pid_k := pid_k s; pid_prev := None; pid_int := fzero; pid_out := ONone |}.
Definition pid_step (s : pid) (i : out F) : res (pid * upd) :=
  match i with
  | ONone => Ok (pid_reset s, UOk)
  | OErr e => Ok ({| pid_sp := pid_sp s; pid_k := pid_k s; pid_prev := None; pid_int := fzero; pid_out := OErr e |}, UErr e)
  | OSome p =>
      let error := fsub (pid_sp s) (d_val p) in
      let! ad :=
        match pid_prev s with
        | Some pe =>
            let! dt := dt_f (d_time p) (d_time pe) in
            let drv := fdiv (fsub error (d_val pe)) dt in
            let addend := fdiv (fmul dt (fadd (d_val pe) error)) ftwo in
            Ok (addend, drv)
        | None => Ok (fzero, fzero)
        end in
      let int' := fadd (pid_int s) (fst ad) in
      let o := fadd (fadd (fmul (kp (pid_k s)) error) (fmul (ki (pid_k s)) int')) (fmul (kd (pid_k s)) (snd ad)) in
      Ok ({| pid_sp := pid_sp s; pid_k := pid_k s; pid_prev := Some (mkDatum (d_time p) error);
             pid_int := int'; pid_out := OSome (mkDatum (d_time p) o) |}, UOk)
  end.
Definition pid_get (s : pid) : out F := pid_out s.

(* ------------------------------------------------------------------ CommandPID *)
Record cu1 := { cu_out_int : F; cu_err_int : F; cu_out_int_int : option F }.
Record cu0 := { cu_time : Z; cu_output : F; cu_error : F; cu_u1 : option cu1 }.
Inductive cust := CErr (e : err) | CNone | CSome (u : cu0).
Record cpid := { cp_last : option command; cp_cmd : command; cp_k : @pdkvals F; cp_st : cust }.
Definition cpid_init (cmd : command) (k : @pdkvals F) : cpid :=
  {| cp_last := None; cp_cmd := cmd; cp_k := k; cp_st := CNone |}.
(* Settable::set -> impl_set (never fails) then last_request *)
Definition cpid_set (s : cpid) (cmd : command) : cpid :=
  if negb (c_eqb cmd (cp_cmd s))
  then {| cp_last := Some cmd; cp_cmd := cmd; cp_k := cp_k s; cp_st := CNone |}
  else {| cp_last := Some cmd; cp_cmd := cp_cmd s; cp_k := cp_k s; cp_st := cp_st s |}.
Definition cpid_with_st (s : cpid) (st : cust) : cpid :=
  {| cp_last := cp_last s; cp_cmd := cp_cmd s; cp_k := cp_k s; cp_st := st |}.
(* [follow]: what the followed getter returns at this update (None = not following) *)
Definition cpid_step (s : cpid) (follow : option (out command)) (i : out state) : res (cpid * upd) :=
  let after_follow : cpid + err :=
    match follow with
    | None | Some ONone => inl s
    | Some (OErr e) => inr e
    | Some (OSome d) => inl (cpid_set s (d_val d))
    end in
  match after_follow with
  | inr e => Ok (s, UErr e)
  | inl s =>
    match i with
    | ONone => Ok (cpid_with_st s CNone, UOk)
    | OErr e => Ok (cpid_with_st s (CErr e), UErr e)
    | OSome ds =>
        let kind := c_kind (cp_cmd s) in
        let error := fsub (c_val (cp_cmd s)) (qv (s_get_value c (d_val ds) kind)) in
        match cp_st s with
        | CNone | CErr _ =>
            let output := pdk_eval (cp_k s) kind error fzero fzero in
            Ok (cpid_with_st s (CSome {| cu_time := d_time ds; cu_output := output; cu_error := error; cu_u1 := None |}), UOk)
        | CSome u0 =>
            let! dt := dt_f (d_time ds) (cu_time u0) in
            let error_drv := fdiv (fsub error (cu_error u0)) dt in
            let error_int_addend := fmul (fdiv (fadd (cu_error u0) error) ftwo) dt in
            match cu_u1 u0 with
            | None =>
                let output := pdk_eval (cp_k s) kind error error_int_addend error_drv in
                let output_int := fmul (fdiv (fadd (cu_output u0) output) ftwo) dt in
                Ok (cpid_with_st s (CSome {| cu_time := d_time ds; cu_output := output; cu_error := error;
                      cu_u1 := Some {| cu_out_int := output_int; cu_err_int := error_int_addend; cu_out_int_int := None |} |}), UOk)
            | Some u1 =>
                let error_int := fadd (cu_err_int u1) error_int_addend in
                let output := pdk_eval (cp_k s) kind error error_int error_drv in
                let output_int := fadd (cu_out_int u1) (fmul (fdiv (fadd (cu_output u0) output) ftwo) dt) in
                let oii_addend := fmul (fdiv (fadd (cu_out_int u1) output_int) ftwo) dt in
                let oii := match cu_out_int_int u1 with None => oii_addend | Some x => fadd x oii_addend end in
                Ok (cpid_with_st s (CSome {| cu_time := d_time ds; cu_output := output; cu_error := error;
                      cu_u1 := Some {| cu_out_int := output_int; cu_err_int := error_int; cu_out_int_int := Some oii |} |}), UOk)
            end
        end
    end
  end.
Definition cpid_get (s : cpid) : out F :=
  match cp_st s with
  | CErr e => OErr e
  | CNone => ONone
  | CSome u0 =>
      match c_kind (cp_cmd s) with
      | Position => OSome (mkDatum (cu_time u0) (cu_output u0))
      | Velocity => match cu_u1 u0 with None => ONone | Some u1 => OSome (mkDatum (cu_time u0) (cu_out_int u1)) end
      | Acceleration =>
          match cu_u1 u0 with
          | None => ONone
          | Some u1 => match cu_out_int_int u1 with None => ONone | Some x => OSome (mkDatum (cu_time u0) x) end
          end
      end
  end.

(* ------------------------------------------------------------------ EWMA (generic f32 payload and Quantity payload) *)
Section EWMA.
Context {T : Type}.
(* [mix prev new lambda] = prev * (1 - lambda) + new * lambda in the payload's arithmetic *)
Variable mix : T -> T -> F -> res T.
Record ewma := { ew_s : F; ew_val : out T; ew_time : option Z }.
Definition ewma_init (sm : F) : ewma := {| ew_s := sm; ew_val := ONone; ew_time := None |}.
Definition ewma_step (s : ewma) (i : out T) : res (ewma * upd) :=
  match i with
  | OErr e => Ok ({| ew_s := ew_s s; ew_val := OErr e; ew_time := None |}, UErr e)
  | ONone =>
      match ew_val s with
      | OErr _ => Ok ({| ew_s := ew_s s; ew_val := ONone; ew_time := None |}, UOk)
      | _ => Ok (s, UOk)
      end
  | OSome o =>
      let '(prev, tm) :=
        match ew_val s with
        | OSome p => (p, ew_time s)
        | _ => (o, Some (d_time o))
        end in
      match tm with
      | None => Panic                                    (* expect("update_time must be Some if value is") *)
      | Some pt =>
          let! dt := dt_f (d_time o) pt in
          let lambda := fsub fone (fpow (fsub fone (ew_s s)) dt) in
          let! v := mix (d_val prev) (d_val o) lambda in
          Ok ({| ew_s := ew_s s; ew_val := OSome (mkDatum (d_time o) v); ew_time := Some (d_time o) |}, UOk)
      end
  end.
End EWMA.
Definition mix_f (p n lambda : F) : res F := Ok (fadd (fmul p (fsub fone lambda)) (fmul n lambda)).
Definition mix_q (p n : quantity) (lambda : F) : res quantity :=
  let l := qdimless c lambda in
  let! oml := qsub c (qdimless c fone) l in
  qadd c (qmul c p oml) (qmul c n l).

(* ------------------------------------------------------------------ MovingAverageStream *)
Section MA.
Context {T : Type}.
Fixpoint ma_trim (q : list (datum T)) (bound : Z) : list (datum T) :=
  match q with
  | [] => []
  | d :: r => if d_time d <=? bound then ma_trim r bound else q
  end.
(* weights: end_i - start_i with start_0 = now - window, start_i = end_{i-1} *)
Fixpoint ma_weights (q : list (datum T)) (start : Z) : res (list Z) :=
  match q with
  | [] => Ok []
  | d :: r => let! w := isub (d_time d) start in let! ws := ma_weights r (d_time d) in Ok (w :: ws)
  end.
Record mavg := { ma_win : Z; ma_val : out T; ma_q : list (datum T) }.
Definition ma_init (w : Z) : mavg := {| ma_win := w; ma_val := ONone; ma_q := [] |}.
(* [acc q ws] computes the weighted sum and divides by the window, in the payload's arithmetic *)
Variable acc : list (datum T) -> list Z -> Z -> res T.
Definition ma_step (s : mavg) (i : out T) : res (mavg * upd) :=
  match i with
  | OErr e => Ok ({| ma_win := ma_win s; ma_val := OErr e; ma_q := [] |}, UErr e)
  | ONone =>
      match ma_val s with
      | OErr _ => Ok ({| ma_win := ma_win s; ma_val := ONone; ma_q := ma_q s |}, UOk)
      | _ => Ok (s, UOk)
      end
  | OSome o =>
      let q0 := ma_q s ++ [o] in
      let! bound := isub (d_time o) (ma_win s) in
      match ma_trim q0 bound with
      | [] => Panic                                       (* input_values[0] on an empty deque *)
      | q =>
          let! ws := ma_weights q bound in
          let! v := acc q ws (ma_win s) in
          Ok ({| ma_win := ma_win s; ma_val := OSome (mkDatum (d_time o) v); ma_q := q |}, UOk)
      end
  end.
End MA.
(* generic payload (f32): value = default; value += v_i * w_i ...; value /= window *)
Fixpoint ma_sum_f (q : list (datum F)) (ws : list Z) (a : F) : F :=
  match q, ws with
  | d :: r, w :: wr => ma_sum_f r wr (fadd a (fmul (d_val d) (qv (q_of_time c w))))
  | _, _ => a
  end.
Definition ma_acc_f (q : list (datum F)) (ws : list Z) (win : Z) : res F :=
  Ok (fdiv (ma_sum_f q ws fzero) (qv (q_of_time c win))).
(* Quantity payload: value = v_0 * w_0; value += v_i * w_i ...; value /= Quantity::from(window) *)
Fixpoint ma_sum_q (q : list (datum quantity)) (ws : list Z) (a : quantity) : res quantity :=
  match q, ws with
  | d :: r, w :: wr => let! a' := qadd c a (qmul c (d_val d) (q_of_time c w)) in ma_sum_q r wr a'
  | _, _ => Ok a
  end.
Definition ma_acc_q (q : list (datum quantity)) (ws : list Z) (win : Z) : res quantity :=
  match q, ws with
  | d :: r, w :: wr =>
      let! sm := ma_sum_q r wr (qmul c (d_val d) (q_of_time c w)) in
      Ok (qdiv c sm (q_of_time c win))
  | _, _ => Panic
  end.

(* ------------------------------------------------------------------ DerivativeStream / IntegralStream *)
Record dint := { di_val : out quantity; di_prev : option (datum quantity) }.
Definition dint_init : dint := {| di_val := ONone; di_prev := None |}.
Definition clear_err {T} (o : out T) : out T := match o with OErr _ => ONone | x => x end.
Definition deriv_step (s : dint) (i : out quantity) : res (dint * upd) :=
  match i with
  | OErr e => Ok ({| di_val := OErr e; di_prev := None |}, UErr e)
  | ONone => Ok ({| di_val := ONone; di_prev := None |}, UOk)
  | OSome o =>
      match di_prev s with
      | None => Ok ({| di_val := clear_err (di_val s); di_prev := Some o |}, UOk)
      | Some p =>
          let! dq := dt_q (d_time o) (d_time p) in
          let! diff := qsub c (d_val o) (d_val p) in
          let v := qdiv c diff dq in
          Ok ({| di_val := OSome (mkDatum (d_time o) v); di_prev := Some o |}, UOk)
      end
  end.
Definition integ_step (s : dint) (i : out quantity) : res (dint * upd) :=
  match i with
  | OErr e => Ok ({| di_val := OErr e; di_prev := None |}, UErr e)
  | ONone => Ok ({| di_val := ONone; di_prev := None |}, UOk)
  | OSome o =>
      match di_prev s with
      | None => Ok ({| di_val := clear_err (di_val s); di_prev := Some o |}, UOk)
      | Some p =>
          let! dq := dt_q (d_time o) (d_time p) in
          let! sm := qadd c (d_val p) (d_val o) in
          let addend := qdiv c (qmul c dq sm) (qdimless c ftwo) in
          let! v := match di_val s with
                    | OSome real => qadd c addend (d_val real)
                    | _ => Ok addend
                    end in
          Ok ({| di_val := OSome (mkDatum (d_time o) v); di_prev := Some o |}, UOk)
      end
  end.
Definition dint_get (s : dint) : out quantity := di_val s.

(* ------------------------------------------------------------------ to-state converters *)
Record ts1 := { ts_b : quantity; ts_c : option quantity }.
Record ts0 := { ts_time : Z; ts_a : quantity; ts_u1 : option ts1 }.
Definition tstate := option ts0.
Definition half_sum_dt (x y dt : quantity) : res quantity :=      (* (x + y) / 2 * dt *)
  let! sm := qadd c x y in Ok (qmul c (qdiv c sm (qdimless c ftwo)) dt).

(* AccelerationToState: a = acc, b = vel, c = pos *)
Definition a2s_step (s : tstate) (i : out quantity) : res (tstate * upd) :=
  match i with
  | OErr e => Ok (None, UErr e)
  | ONone => Ok (s, UOk)
  | OSome d =>
      let new_time := d_time d in let new_acc := d_val d in
      let! _ := assert_ok c (qu new_acc) (U_MM_S2 c) in
      match s with
      | None => Ok (Some {| ts_time := new_time; ts_a := new_acc; ts_u1 := None |}, UOk)
      | Some u0 =>
          let! dtq := dt_q new_time (ts_time u0) in
          let! vel_addend := half_sum_dt (ts_a u0) new_acc dtq in
          match ts_u1 u0 with
          | None => Ok (Some {| ts_time := new_time; ts_a := new_acc; ts_u1 := Some {| ts_b := vel_addend; ts_c := None |} |}, UOk)
          | Some u1 =>
              let old_vel := ts_b u1 in
              let! new_vel := qadd c old_vel vel_addend in
              let! pos_addend := half_sum_dt old_vel new_vel dtq in
              let! np := match ts_c u1 with Some op => qadd c op pos_addend | None => Ok pos_addend end in
              Ok (Some {| ts_time := new_time; ts_a := new_acc; ts_u1 := Some {| ts_b := new_vel; ts_c := Some np |} |}, UOk)
          end
      end
  end.
Definition a2s_get (s : tstate) : res (out state) :=
  match s with
  | Some u0 => match ts_u1 u0 with
               | Some u1 => match ts_c u1 with
                            | Some pos => let! st := snew c pos (ts_b u1) (ts_a u0) in Ok (OSome (mkDatum (ts_time u0) st))
                            | None => Ok ONone end
               | None => Ok ONone end
  | None => Ok ONone
  end.

(* VelocityToState: a = vel, u1 = (b = acc, c = Some pos) *)
Definition v2s_step (s : tstate) (i : out quantity) : res (tstate * upd) :=
  match i with
  | OErr e => Ok (None, UErr e)
  | ONone => Ok (s, UOk)
  | OSome d =>
      let new_time := d_time d in let new_vel := d_val d in
      let! _ := assert_ok c (qu new_vel) (U_MM_S c) in
      match s with
      | None => Ok (Some {| ts_time := new_time; ts_a := new_vel; ts_u1 := None |}, UOk)
      | Some u0 =>
          let! dtq := dt_q new_time (ts_time u0) in
          let old_vel := ts_a u0 in
          let! dv := qsub c new_vel old_vel in
          let new_acc := qdiv c dv dtq in
          let! pos_addend := half_sum_dt old_vel new_vel dtq in
          let! np := match ts_u1 u0 with
                     | Some u1 => match ts_c u1 with Some op => qadd c op pos_addend | None => Ok pos_addend end
                     | None => Ok pos_addend end in
          Ok (Some {| ts_time := new_time; ts_a := new_vel; ts_u1 := Some {| ts_b := new_acc; ts_c := Some np |} |}, UOk)
      end
  end.
Definition v2s_get (s : tstate) : res (out state) :=
  match s with
  | Some u0 => match ts_u1 u0 with
               | Some u1 => match ts_c u1 with
                            | Some pos => let! st := snew c pos (ts_a u0) (ts_b u1) in Ok (OSome (mkDatum (ts_time u0) st))
                            | None => Ok ONone end
               | None => Ok ONone end
  | None => Ok ONone
  end.

(* PositionToState: a = pos, b = vel, c = acc *)
Definition p2s_step (s : tstate) (i : out quantity) : res (tstate * upd) :=
  match i with
  | OErr e => Ok (None, UErr e)
  | ONone => Ok (s, UOk)
  | OSome d =>
      let new_time := d_time d in let new_pos := d_val d in
      let! _ := assert_ok c (qu new_pos) (U_MM c) in
      match s with
      | None => Ok (Some {| ts_time := new_time; ts_a := new_pos; ts_u1 := None |}, UOk)
      | Some u0 =>
          let! dtq := dt_q new_time (ts_time u0) in
          let! dp := qsub c new_pos (ts_a u0) in
          let new_vel := qdiv c dp dtq in
          match ts_u1 u0 with
          | Some u1 =>
              let! dv := qsub c new_vel (ts_b u1) in
              let new_acc := qdiv c dv dtq in
              Ok (Some {| ts_time := new_time; ts_a := new_pos; ts_u1 := Some {| ts_b := new_vel; ts_c := Some new_acc |} |}, UOk)
          | None =>
              Ok (Some {| ts_time := new_time; ts_a := new_pos; ts_u1 := Some {| ts_b := new_vel; ts_c := None |} |}, UOk)
          end
      end
  end.
Definition p2s_get (s : tstate) : res (out state) :=
  match s with
  | Some u0 => match ts_u1 u0 with
               | Some u1 => match ts_c u1 with
                            | Some acc => let! st := snew c (ts_a u0) (ts_b u1) acc in Ok (OSome (mkDatum (ts_time u0) st))
                            | None => Ok ONone end
               | None => Ok ONone end
  | None => Ok ONone
  end.

(* ------------------------------------------------------------------ FloatToQuantity / QuantityToFloat *)
Definition f2q_step (s : out F) (i : out F) : out F * upd := (i, UOk).
Definition f2q_get (u : unit_) (s : out F) : out quantity :=
  match s with OErr e => OErr e | ONone => ONone | OSome d => OSome (mkDatum (d_time d) (qnew (d_val d) u)) end.
Definition q2f_step (s : out F) (i : out quantity) : out F * upd :=
  (match i with OErr e => OErr e | ONone => ONone | OSome d => OSome (mkDatum (d_time d) (qv (d_val d))) end, UOk).
Definition q2f_get (s : out F) : out F := s.

(* ------------------------------------------------------------------ FreezeStream *)
Definition freeze_step {T} (s : out T) (cond : out bool) (input : out T) : out T * upd :=
  match cond with
  | OErr e => (OErr e, UErr e)
  | ONone => (ONone, UOk)
  | OSome d =>
      if negb (d_val d)
      then (input, match input with OErr e => UErr e | _ => UOk end)
      else (s, UOk)
  end.
End Streams.
