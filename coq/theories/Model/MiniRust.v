(* MiniRust: a deep embedding of the Rust subset in which the bodies of rrtk's stream `get` / `update`
   functions are written (src/streams/*.rs, src/streams.rs): `let` (with `mut` locals), assignment to locals and to
   fields of `self`, `match` over Result / Option / enum patterns, `if`, `?`, `return`, struct and array literals,
   `for` over a fixed array, calls of the crate's value-level operators (the operator table of Model/Prog.v,
   dispatched on the operand types exactly as the crate's impl tables are).
   tools/gen_streams.py translates the source into terms of [mexpr] on every run; coq/gen_theorems/*Streams*.v prove
   that evaluating the translated body equals the hand-written model function of Model/Streams.v /
   Model/Combinators.v for every state and every input.  Definitions only. *)
From Coq Require Import ZArith Bool List String.
From RRTK Require Import Num.Num Model.Values Model.Prog.
Import ListNotations.
Local Open Scope string_scope.
Local Open Scope list_scope.
Local Open Scope Z_scope.

Section MiniRust.
Context {F : Type} {NF : Num F}.
Variable c : cfg.
Notation val := (@val F).

(* payloads of generic streams / histories: the types the crate's generic code is instantiated with *)
Inductive pay := PF (x : F) | PQ (q : @quantity F) | PB (b : bool) | PS (s : @state F) | PC (k : @command F).
Definition pv (p : pay) : val :=
  match p with PF x => VF x | PQ q => VQ q | PB b => VB b | PS s => VS s | PC k => VC k end.

(* run-time values: API values at the leaves; Result / Option / structs / arrays / enums above them *)
Inductive mval :=
| MV (v : val)
| MOk (m : mval) | MErr (m : mval)
| MNone | MSome (m : mval)
| MRec (fs : list (string * mval))
| MArr (l : list mval)
| MTup0
| MErrV (e : err)                 (* a value of type Error<E> *)
| MUninit                         (* a MaybeUninit slot that has not been written *)
| MOpt (A : Type) (o : option A) (f : A -> mval)             (* a symbolic Option: None, or Some (f a) *)
| MOutS (T : Type) (o : out T) (f : datum T -> mval)        (* a symbolic Output: Err e, Ok(None), Ok(Some (f d)) *)
| MFun (f : Z -> option (Z * pay))   (* an external function of a time (a History): time stamp and payload of the datum it returns *)
| MVariant (n : string).          (* a field-less enum variant of a private enum *)
Arguments MOpt {A} o f.
Arguments MOutS {T} o f.

Inductive pat :=
| PWild | PVar (x : string)
| POk (p : pat) | PErr (p : pat) | PSome (p : pat) | PNone | PUnit
| PVariant (n : string) | PPD (d : pd) | PBool (b : bool)
| PInt (z : Z)
| PCmd (k : pd) (p : pat)          (* Command::Position(x) ... *)
| PUnitC (a b : Z)                 (* a named unit constant used as a pattern *)
| PArr (ps : list pat) | POr (ps : list pat).

Inductive lval := LVar (x : string) | LField (l : lval) (f : string).

Inductive mexpr :=
| ELit (v : val)
| EVar (x : string)
| EField (e : mexpr) (f : string)
| EOp (o : Z) (args : list mexpr)
| EPow (a b : mexpr)
| EInt (o : Z) (args : list mexpr)      (* raw i64 arithmetic on the field of Time / DimensionlessInteger: 1 + 2 - 3 * 4 / 9 neg *)
| ECast (to_f32 : bool) (e : mexpr)    (* `as f32` (from i64) / `as i64` (from f32) *)
| EArrUninit (n : mexpr)               (* [MaybeUninit::uninit(); N] *)
| ELen (e : mexpr)                     (* the length of a fixed array (a const generic N) *)
| EIndex (a i : mexpr)                 (* a[i]; out of range panics *)
| EAt (a i : mexpr)                    (* v[i] on a Vec / VecDeque (same meaning; the bounds check and the lookup are nodes of the
                                          decision tree, so a symbolic index does not block the evaluation) *)
| EWriteSlot (l : lval) (i v : mexpr)  (* l[i].write(v) *)
| EAssumeInit (e : mexpr)              (* .assume_init(): undefined behaviour on an unwritten slot *)
| EAssumeInitAll (e : mexpr)           (* reading a whole array of MaybeUninit slots as initialised (pointer cast + read): undefined
                                          behaviour if any slot is unwritten *)
| EUs (o : Z) (a b : mexpr)            (* usize arithmetic on counters: 1 +, 2 - (underflow panics) *)
| ESplitAt (e : mexpr) (k : mexpr)     (* .split_at(k) as the array of the two halves *)
| EForRange (x : string) (lo hi body : mexpr)   (* for x in lo..hi *)
| ECallFn (f : mexpr) (a : mexpr)      (* history.get(t) *)
| EQFrom (e : mexpr)                   (* Quantity::from(e): the table's conversion, or the identity (From<T> for T) on a Quantity *)
| EOk (e : mexpr) | EErr (e : mexpr) | ESome (e : mexpr) | ENone | EUnit
| EErrFromNone
| ERec (fs : list (string * mexpr))
| EArr (es : list mexpr)
| EVariant (n : string)
| EInto (e : mexpr)
| EIsErr (e : mexpr) | EUnwrap (e : mexpr) | ETry (e : mexpr)
| ECmp (o : Z) (a b : mexpr)
| EAssertEq (a b : mexpr)
| ELet (p : pat) (e body : mexpr)
| ESeq (a b : mexpr)
| EAssign (l : lval) (e : mexpr)
| EOpAssign (l : lval) (o : Z) (e : mexpr)
| EIf (cnd th el : mexpr)
| EMatch (e : mexpr) (arms : list (pat * mexpr))
| EFor (x : string) (coll body : mexpr)
| EForMut (x : string) (l : lval) (body : mexpr)   (* for x in &self.<array of structs>: the body may assign to fields of x *)
| EPush (l : lval) (front : bool) (v : mexpr)       (* l.push_back(v) / l.push(v) (front = false), l.push_front(v) on a Vec / VecDeque *)
| EPop (l : lval) (front : bool)                    (* l.pop_front() / l.pop_back(): the removed element as an Option *)
| EWhile (fuel cond body : mexpr)                   (* while cond { body }; fuel: an upper bound of the number of condition
                                                       evaluations (running out of it is an ill-typed outcome, never a value) *)
| EReturn (e : mexpr)
| ECatch (e : mexpr).               (* boundary of an inlined non-mutating call: `return` stops here *)

Definition env := list (string * mval).
Inductive outcome := ONorm (v : mval) (en : env) | ORet (v : mval) (en : env) | OPanic | OType
| OUB.      (* undefined behaviour: an unwritten MaybeUninit slot was read *)

(* API values that are options are kept as MNone / MSome *)
Fixpoint lift (v : val) : mval :=
  match v with VNone => MNone | VSome w => MSome (lift w) | _ => MV v end.
Fixpoint lower (m : mval) : option val :=
  match m with
  | MV v => Some v
  | MNone => Some VNone
  | MSome x => match lower x with Some v => Some (VSome v) | None => None end
  | _ => None
  end.
Fixpoint lower_all (l : list mval) : option (list val) :=
  match l with
  | [] => Some []
  | m :: r => match lower m, lower_all r with Some v, Some vs => Some (v :: vs) | _, _ => None end
  end.

Fixpoint lookup (x : string) (en : env) : option mval :=
  match en with [] => None | (y, v) :: r => if String.eqb x y then Some v else lookup x r end.
Fixpoint update (x : string) (v : mval) (en : env) : option env :=
  match en with
  | [] => None
  | (y, w) :: r => if String.eqb x y then Some ((y, v) :: r)
                   else match update x v r with Some r' => Some ((y, w) :: r') | None => None end
  end.

Definition field_of (m : mval) (f : string) : option mval :=
  match m with
  | MRec fs => lookup f fs
  | MV (VDat t v) => if String.eqb f "time" then Some (MV (VT t)) else if String.eqb f "value" then Some (lift v) else None
  | MV (VQ q) => if String.eqb f "unit" then Some (MV (VU (qu q))) else if String.eqb f "value" then Some (MV (VF (qv q))) else None
  | MV (VT t) => if String.eqb f "0" then Some (MV (VI t)) else None
  | MV (VD d) => if String.eqb f "0" then Some (MV (VI d)) else None
  | MV (VU u) => if String.eqb f "millimeter_exp" then Some (MV (VI (mm u)))
                 else if String.eqb f "second_exp" then Some (MV (VI (sec u))) else None
  | MV (VS s) => if String.eqb f "position" then Some (MV (VF (s_pos s)))
                 else if String.eqb f "velocity" then Some (MV (VF (s_vel s)))
                 else if String.eqb f "acceleration" then Some (MV (VF (s_acc s))) else None
  | _ => None
  end.
Definition set_field (m : mval) (f : string) (v : mval) : option mval :=
  match m with
  | MRec fs => match update f v fs with Some fs' => Some (MRec fs') | None => None end
  | MV (VT _) => match v with MV (VI z) => if String.eqb f "0" then Some (MV (VT z)) else None | _ => None end
  | MV (VD _) => match v with MV (VI z) => if String.eqb f "0" then Some (MV (VD z)) else None | _ => None end
  | MV (VS s) =>
      match v with
      | MV (VF x) =>
          if String.eqb f "position" then Some (MV (VS {| s_pos := x; s_vel := s_vel s; s_acc := s_acc s |}))
          else if String.eqb f "velocity" then Some (MV (VS {| s_pos := s_pos s; s_vel := x; s_acc := s_acc s |}))
          else if String.eqb f "acceleration" then Some (MV (VS {| s_pos := s_pos s; s_vel := s_vel s; s_acc := x |}))
          else None
      | _ => None
      end
  | _ => None
  end.

Fixpoint lval_get (l : lval) (en : env) : option mval :=
  match l with
  | LVar x => lookup x en
  | LField l' f => match lval_get l' en with Some m => field_of m f | None => None end
  end.
Fixpoint lval_set (l : lval) (v : mval) (en : env) : option env :=
  match l with
  | LVar x => update x v en
  | LField l' f =>
      match lval_get l' en with
      | Some m => match set_field m f v with Some m' => lval_set l' m' en | None => None end
      | None => None
      end
  end.

(* ------------------------------------------------------------------------------------------------------------------
   Evaluation produces a decision tree: a leaf is an outcome; [TRes r k] asks for the result of a value-layer operation
   that may panic (unit mismatch, i64 overflow) and continues with [k] on success; [TIf b x y] branches on a boolean
   (a comparison of time stamps or floats, a boolean payload).  [flatten] turns the tree into the ordinary result: it
   scrutinises [r] / [b] exactly where the tree says.  Writing the evaluator against the tree keeps its own control
   flow independent of operation results, so that running it on a state whose leaves are variables never gets stuck
   (symbolic execution by computation). *)
Inductive tree (X : Type) : Type :=
| Leaf (x : X)
| TRes (A : Type) (r : res A) (k : A -> tree X)
| TIf (b : bool) (x y : tree X)
| TAsk (A : Type) (o : option A) (ks : A -> tree X) (kn : tree X)    (* the answer of an external function *)
| TPay (p : pay) (k : val -> tree X)
| TOut (T : Type) (o : out T) (ke : err -> tree X) (kn : tree X) (ks : datum T -> tree X).   (* the category of an input *)                               (* the shape of a payload *)
Arguments Leaf {X} x.
Arguments TRes {X A} r k.
Arguments TIf {X} b x y.
Arguments TAsk {X A} o ks kn.
Arguments TPay {X} p k.
Arguments TOut {X T} o ke kn ks.

Fixpoint tmap {X Y} (f : X -> tree Y) (t : tree X) : tree Y :=
  match t with
  | Leaf x => f x
  | TRes r k => TRes r (fun a => tmap f (k a))
  | TIf b x y => TIf b (tmap f x) (tmap f y)
  | TAsk o ks kn => TAsk o (fun a => tmap f (ks a)) (tmap f kn)
  | TPay p k => TPay p (fun v => tmap f (k v))
  | TOut o ke kn ks => TOut o (fun e => tmap f (ke e)) (tmap f kn) (fun d => tmap f (ks d))
  end.
(* matching a pattern against a value: a symbolic Option / Output forks the tree instead of blocking the evaluation *)
Fixpoint pmatch (p : pat) (v : mval) {struct p} : tree (option env) :=
  match p with
  | PWild => Leaf (Some [])
  | PVar x => Leaf (Some [(x, v)])
  | POk q => match v with
             | MOk w => pmatch q w
             | MOutS o f => TOut o (fun _ => Leaf None) (pmatch q MNone) (fun d => pmatch q (MSome (f d)))
             | _ => Leaf None end
  | PErr q => match v with
              | MErr w => pmatch q w
              | MOutS o f => TOut o (fun e => pmatch q (MErrV e)) (Leaf None) (fun _ => Leaf None)
              | _ => Leaf None end
  | PSome q => match v with
               | MSome w => pmatch q w
               | MOpt o f => TAsk o (fun a => pmatch q (f a)) (Leaf None)
               | _ => Leaf None end
  | PNone => match v with
             | MNone => Leaf (Some [])
             | MOpt o f => TAsk o (fun _ => Leaf None) (Leaf (Some []))
             | _ => Leaf None end
  | PUnit => match v with MTup0 => Leaf (Some []) | _ => Leaf None end
  | PVariant n => match v with MVariant m => if String.eqb n m then Leaf (Some []) else Leaf None | _ => Leaf None end
  | PPD d => match v with MV (VPD d') => if pd_eqb d d' then Leaf (Some []) else Leaf None | _ => Leaf None end
  | PBool b => match v with MV (VB b') => if Bool.eqb b b' then Leaf (Some []) else Leaf None | _ => Leaf None end
  | PInt z => match v with MV (VI z') => if z =? z' then Leaf (Some []) else Leaf None | _ => Leaf None end
  | PCmd k q => match v with MV (VC x) => if pd_eqb k (c_kind x) then pmatch q (MV (VF (c_val x))) else Leaf None | _ => Leaf None end
  | PUnitC a b => match v with MV (VU u) => if ueqb u (unew c a b) then Leaf (Some []) else Leaf None | _ => Leaf None end
  | PArr ps =>
      match v with
      | MArr vs =>
          (fix go (ps : list pat) (vs : list mval) {struct ps} : tree (option env) :=
             match ps, vs with
             | [], [] => Leaf (Some [])
             | q :: ps', w :: vs' =>
                 tmap (fun r1 => match r1 with
                                 | Some b1 => tmap (fun r2 => match r2 with Some b2 => Leaf (Some (b2 ++ b1)) | None => Leaf None end) (go ps' vs')
                                 | None => Leaf None
                                 end) (pmatch q w)
             | _, _ => Leaf None
             end) ps vs
      | _ => Leaf None
      end
  | POr ps =>
      (fix go (ps : list pat) {struct ps} : tree (option env) :=
         match ps with
         | [] => Leaf None
         | q :: ps' => tmap (fun r => match r with Some b => Leaf (Some b) | None => go ps' end) (pmatch q v)
         end) ps
  end.

(* comparison operators: 0 <, 1 <=, 2 >, 3 >=, 4 ==, 5 != *)
Definition cmp_z (o : Z) (a b : Z) : bool :=
  if o =? 0 then a <? b else if o =? 1 then a <=? b else if o =? 2 then a >? b else if o =? 3 then a >=? b
  else if o =? 4 then a =? b else negb (a =? b).
Definition cmp_f (o : Z) (a b : F) : bool :=
  if o =? 0 then fltb a b else if o =? 1 then fleb a b else if o =? 2 then fltb b a else if o =? 3 then fleb b a
  else if o =? 4 then feqb a b else negb (feqb a b).
Definition cmp_val (o : Z) (x y : val) : rv :=
  match x, y with
  | VT a, VT b | VD a, VD b | VI a, VI b => RVal (VB (cmp_z o a b))
  | VF a, VF b => RVal (VB (cmp_f o a b))
  | _, _ =>
      if o =? 4 then eq_val c x y
      else if o =? 5 then match eq_val c x y with RVal (VB b) => RVal (VB (negb b)) | r => r end
      else RType
  end.

Definition of_rv (r : rv) (en : env) : outcome :=
  match r with RVal v => ONorm (lift v) en | RPanic => OPanic | RType => OType end.

Definition into_val (m : mval) : option mval :=
  match m with
  | MV (VC k) => Some (MV (VPD (c_kind k)))      (* PositionDerivative::from(Command) *)
  | MV (VQ q) => Some (MV (VQ q))                (* Quantity -> Quantity *)
  | _ => None
  end.

(* sequencing on outcomes: only a normal completion continues *)
Definition tbind (t : tree outcome) (k : mval -> env -> tree outcome) : tree outcome :=
  tmap (fun o => match o with ONorm v en => k v en | o' => Leaf o' end) t.
Notation "'do' '(' v ',' en ')' '<-' r ';' k" := (tbind r (fun v en => k))
  (at level 200, v name, en name, r at level 100, k at level 200).

(* the result of a value-layer operation as a tree: the operations that can panic are asked for explicitly; every other
   application of the operator table is a leaf.  [prim_tree_ok] (Proofs/MiniRustEmb.v): flattening gives [apply_op]. *)
Definition tq (r : res (@quantity F)) (f : @quantity F -> val) : tree rv := TRes r (fun q => Leaf (RVal (f q))).
Definition prim_tree (o : Z) (ws : list val) : tree rv :=
  match ws with
  | [VT a] => if o =? 9 then TRes (ineg a) (fun z => Leaf (RVal (VT z))) else Leaf (apply_op c o ws)
  | [VD a] => if o =? 9 then TRes (ineg a) (fun z => Leaf (RVal (VD z))) else Leaf (apply_op c o ws)
  | [VT a; VT b] =>
      if (o =? 1) || (o =? 5) then TRes (iadd a b) (fun z => Leaf (RVal (VT z)))
      else if (o =? 2) || (o =? 6) then TRes (isub a b) (fun z => Leaf (RVal (VT z)))
      else Leaf (apply_op c o ws)
  | [VT a; VD b] =>
      if (o =? 3) || (o =? 7) then TRes (imul a b) (fun z => Leaf (RVal (VT z)))
      else if (o =? 4) || (o =? 8) then TRes (idiv a b) (fun z => Leaf (RVal (VT z)))
      else Leaf (apply_op c o ws)
  | [VD a; VT b] =>
      if o =? 3 then TRes (imul a b) (fun z => Leaf (RVal (VT z))) else Leaf (apply_op c o ws)
  | [VD a; VD b] =>
      if (o =? 1) || (o =? 5) then TRes (iadd a b) (fun z => Leaf (RVal (VD z)))
      else if (o =? 2) || (o =? 6) then TRes (isub a b) (fun z => Leaf (RVal (VD z)))
      else if (o =? 3) || (o =? 7) then TRes (imul a b) (fun z => Leaf (RVal (VD z)))
      else if (o =? 4) || (o =? 8) then TRes (idiv a b) (fun z => Leaf (RVal (VD z)))
      else Leaf (apply_op c o ws)
  | [VQ a; VQ b] =>
      if (o =? 1) || (o =? 5) then tq (qadd c a b) VQ
      else if (o =? 2) || (o =? 6) then tq (qsub c a b) VQ
      else Leaf (apply_op c o ws)
  | [VQ a; VT t] =>
      if (o =? 1) || (o =? 5) then tq (qadd c a (q_of_time c t)) VQ
      else if (o =? 2) || (o =? 6) then tq (qsub c a (q_of_time c t)) VQ
      else Leaf (apply_op c o ws)
  | [VQ a; VD d] =>
      if (o =? 1) || (o =? 5) then tq (qadd c a (q_of_dint c d)) VQ
      else if (o =? 2) || (o =? 6) then tq (qsub c a (q_of_dint c d)) VQ
      else Leaf (apply_op c o ws)
  | [VT t; VQ b] =>
      if o =? 1 then tq (qadd c (q_of_time c t) b) VQ
      else if o =? 2 then tq (qsub c (q_of_time c t) b) VQ
      else Leaf (apply_op c o ws)
  | [VD d; VQ b] =>
      if o =? 1 then tq (qadd c (q_of_dint c d) b) VQ
      else if o =? 2 then tq (qsub c (q_of_dint c d) b) VQ
      else Leaf (apply_op c o ws)
  | [VDat t1 (VQ a); VDat t2 (VQ b)] =>
      if (o =? 1) || (o =? 5) then tq (qadd c a b) (fun q => VDat (tmax_ge t1 t2) (VQ q))
      else if (o =? 2) || (o =? 6) then tq (qsub c a b) (fun q => VDat (tmax_ge t1 t2) (VQ q))
      else Leaf (apply_op c o ws)
  | [VU a; VU b] =>
      if (o =? 1) || (o =? 5) then TRes (uadd c a b) (fun u => Leaf (RVal (VU u)))
      else if (o =? 2) || (o =? 6) then TRes (usub c a b) (fun u => Leaf (RVal (VU u)))
      else if o =? O_ASSERT_OK then TRes (assert_ok c a b) (fun _ => Leaf (RVal VUnit))
      else if o =? O_ASSERT_NOT_OK then TRes (assert_not_ok c a b) (fun _ => Leaf (RVal VUnit))
      else Leaf (apply_op c o ws)
  | [VQ p; VQ v; VQ a] =>
      if o =? O_S_NEW then TRes (snew c p v a) (fun s => Leaf (RVal (VS s))) else Leaf (apply_op c o ws)
  | _ => Leaf (apply_op c o ws)
  end.
Definition of_rv_t (t : tree rv) (en : env) : tree outcome := tmap (fun r => Leaf (of_rv r en)) t.

Section Helpers.
Variable ev : mexpr -> env -> tree outcome.
Fixpoint eval_list (l : list mexpr) (acc : list mval) (en : env) (k : list mval -> env -> tree outcome) {struct l} : tree outcome :=
  match l with
  | [] => k (rev acc) en
  | a :: r => do (v, en1) <- ev a en; eval_list r (v :: acc) en1 k
  end.
Fixpoint eval_fields (l : list (string * mexpr)) (acc : list (string * mval)) (en : env) {struct l} : tree outcome :=
  match l with
  | [] => Leaf (ONorm (MRec (rev acc)) en)
  | (f, a) :: r => do (v, en1) <- ev a en; eval_fields r ((f, v) :: acc) en1
  end.
Fixpoint eval_arms (v : mval) (en1 : env) (l : list (pat * mexpr)) {struct l} : tree outcome :=
  match l with
  | [] => Leaf OType
  | (p, body) :: r =>
      tmap (fun m => match m with
                     | Some bs => do (w, en2) <- ev body (bs ++ en1); Leaf (ONorm w (skipn (List.length bs) en2))
                     | None => eval_arms v en1 r
                     end) (pmatch p v)
  end.
End Helpers.

(* `for x in items { body }`: the loop variable is bound for one iteration at a time *)
Fixpoint for_loop (body : env -> tree outcome) (x : string) (items : list mval) (en : env) {struct items} : tree outcome :=
  match items with
  | [] => Leaf (ONorm MTup0 en)
  | it :: r => do (w, en2) <- body ((x, it) :: en); for_loop body x r (skipn 1 en2)
  end.

(* `for x in &<array at l> { body }` where the body mutates the element through x: the elements are written back, also
   when the body leaves the function early ([ORet], produced by `?` and `return`) *)
Fixpoint for_mut (body : env -> tree outcome) (x : string) (l : lval) (done rest : list mval) (en : env) {struct rest} : tree outcome :=
  match rest with
  | [] => match lval_set l (MArr (rev done)) en with Some en' => Leaf (ONorm MTup0 en') | None => Leaf OType end
  | it :: r =>
      tmap (fun o => match o with
                     | ONorm _ en2 => match en2 with (_, it') :: en3 => for_mut body x l (it' :: done) r en3 | [] => Leaf OType end
                     | ORet v en2 =>
                         match lookup x en2 with
                         | Some it' =>
                             match lval_set l (MArr (rev done ++ it' :: r)) (skipn (List.length en2 - List.length en) en2) with
                             | Some en' => Leaf (ORet v en') | None => Leaf OType end
                         | None => Leaf OType
                         end
                     | o' => Leaf o'
                     end) (body ((x, it) :: en))
  end.

Fixpoint while_loop (cnd body : env -> tree outcome) (fuel : nat) (en : env) {struct fuel} : tree outcome :=
  match fuel with
  | O => Leaf OType
  | S k => do (v, en1) <- cnd en;
           match v with
           | MV (VB t) => TIf t (do (w, en2) <- body en1; while_loop cnd body k en2) (Leaf (ONorm MTup0 en1))
           | _ => Leaf OType
           end
  end.

(* `for x in lo..hi { body }` with n = hi - lo iterations *)
Fixpoint for_range (body : env -> tree outcome) (x : string) (lo : Z) (n : nat) (en : env) {struct n} : tree outcome :=
  match n with
  | O => Leaf (ONorm MTup0 en)
  | S k => do (w, en2) <- body ((x, MV (VI lo)) :: en); for_range body x (lo + 1) k (skipn 1 en2)
  end.
Fixpoint set_nth (l : list mval) (i : nat) (v : mval) : option (list mval) :=
  match l, i with
  | _ :: r, O => Some (v :: r)
  | a :: r, S k => match set_nth r k v with Some r' => Some (a :: r') | None => None end
  | [], _ => None
  end.

Definition ret1 (v : mval) (en : env) : tree outcome := Leaf (ONorm v en).
Definition opt_leaf (o : option mval) (en : env) : tree outcome :=
  match o with Some w => Leaf (ONorm w en) | None => Leaf OType end.

Fixpoint eval (e : mexpr) (en : env) {struct e} : tree outcome :=
  match e with
  | ELit v => ret1 (lift v) en
  | EVar x => opt_leaf (lookup x en) en
  | EField a f => do (v, en1) <- eval a en; opt_leaf (field_of v f) en1
  | EOp o args =>
      eval_list (fun a0 en0 => eval a0 en0) args [] en (fun vs en1 =>
        match lower_all vs with
        | Some ws => of_rv_t (prim_tree o ws) en1
        | None => Leaf OType
        end)
  | EPow a b =>
      do (x, en1) <- eval a en;
      do (y, en2) <- eval b en1;
      match x, y with MV (VF p), MV (VF q) => ret1 (MV (VF (fpow p q))) en2 | _, _ => Leaf OType end
  | EInt o args =>
      eval_list (fun a0 en0 => eval a0 en0) args [] en (fun vs en1 =>
        match vs with
        | [MV (VI a); MV (VI b)] => TRes (arith_i o a b) (fun z => ret1 (MV (VI z)) en1)
        | [MV (VI a)] => if o =? 9 then TRes (ineg a) (fun z => ret1 (MV (VI z)) en1) else Leaf OType
        | _ => Leaf OType
        end)
  | ECast to_f32 a =>
      do (v, en1) <- eval a en;
      match v with
      | MV (VI z) => if to_f32 then ret1 (MV (VF (f_of_Z z))) en1 else Leaf OType
      | MV (VF x) => if to_f32 then Leaf OType else ret1 (MV (VI (f_to_i64 x))) en1
      | _ => Leaf OType
      end
  | EArrUninit n =>
      do (v, en1) <- eval n en;
      match v with MV (VI z) => ret1 (MArr (repeat MUninit (Z.to_nat z))) en1 | _ => Leaf OType end
  | ELen a =>
      do (v, en1) <- eval a en;
      match v with MArr l => ret1 (MV (VI (Z.of_nat (List.length l)))) en1 | _ => Leaf OType end
  | EIndex a i =>
      do (v, en1) <- eval a en;
      do (w, en2) <- eval i en1;
      match v, w with
      | MArr l, MV (VI z) =>
          if negb (0 <=? z) then Leaf OPanic
          else match nth_error l (Z.to_nat z) with Some x => ret1 x en2 | None => Leaf OPanic end
      | _, _ => Leaf OType
      end
  | EAt a i =>
      do (v, en1) <- eval a en;
      do (w, en2) <- eval i en1;
      match v, w with
      | MArr l, MV (VI z) => TIf (0 <=? z) (TAsk (nth_error l (Z.to_nat z)) (fun x => ret1 x en2) (Leaf OPanic)) (Leaf OPanic)
      | _, _ => Leaf OType
      end
  | EWriteSlot l i a =>
      do (w, en1) <- eval i en;
      do (v, en2) <- eval a en1;
      match lval_get l en2, w with
      | Some (MArr items), MV (VI z) =>
          if negb (0 <=? z) then Leaf OPanic
          else match set_nth items (Z.to_nat z) v with
               | Some items' => match lval_set l (MArr items') en2 with Some en3 => ret1 MTup0 en3 | None => Leaf OType end
               | None => Leaf OPanic
               end
      | _, _ => Leaf OType
      end
  | EAssumeInit a =>
      do (v, en1) <- eval a en;
      match v with MUninit => Leaf OUB | _ => ret1 v en1 end
  | EAssumeInitAll a =>
      do (v, en1) <- eval a en;
      match v with
      | MArr l => if existsb (fun x => match x with MUninit => true | _ => false end) l then Leaf OUB else ret1 (MArr l) en1
      | _ => Leaf OType
      end
  | EUs o a b =>
      do (x, en1) <- eval a en;
      do (y, en2) <- eval b en1;
      match x, y with
      | MV (VI p), MV (VI q) =>
          if o =? 1 then ret1 (MV (VI (p + q))) en2
          else if o =? 2 then (if negb (q <=? p) then Leaf OPanic else ret1 (MV (VI (p - q))) en2)
          else if o =? 3 then (if q =? 0 then Leaf OPanic else ret1 (MV (VI (p mod q))) en2)      (* % on usize *)
          else if o =? 4 then ret1 (MV (VI (p - q))) en2                                              (* - on the i8 exponents of a Unit *)
          else Leaf OType
      | _, _ => Leaf OType
      end
  | ESplitAt a k =>
      do (v, en1) <- eval a en;
      do (w, en2) <- eval k en1;
      match v, w with
      | MArr l, MV (VI z) =>
          if negb (0 <=? z) || negb (z <=? Z.of_nat (List.length l)) then Leaf OPanic
          else ret1 (MArr [MArr (firstn (Z.to_nat z) l); MArr (skipn (Z.to_nat z) l)]) en2
      | _, _ => Leaf OType
      end
  | EForRange x lo hi body =>
      do (a, en1) <- eval lo en;
      do (b, en2) <- eval hi en1;
      match a, b with
      | MV (VI p), MV (VI q) => for_range (eval body) x p (Z.to_nat (q - p)) en2
      | _, _ => Leaf OType
      end
  | ECallFn f a =>
      do (g, en1) <- eval f en;
      do (v, en2) <- eval a en1;
      match g, v with
      | MFun h, MV (VT t) =>
          TAsk (h t) (fun a => TPay (snd a) (fun w => ret1 (MSome (MV (VDat (fst a) w))) en2)) (ret1 MNone en2)
      | _, _ => Leaf OType
      end
  | EQFrom a =>
      do (v, en1) <- eval a en;
      match v with
      | MV (VQ q) => ret1 (MV (VQ q)) en1
      | MV w => Leaf (of_rv (apply_op c O_Q_FROM [w]) en1)
      | _ => Leaf OType
      end
  | EOk a => do (v, en1) <- eval a en; ret1 (MOk v) en1
  | EErr a => do (v, en1) <- eval a en; ret1 (MErr v) en1
  | ESome a => do (v, en1) <- eval a en; ret1 (MSome v) en1
  | ENone => ret1 MNone en
  | EUnit => ret1 MTup0 en
  | EErrFromNone => ret1 (MErrV FromNone) en
  | ERec fs => eval_fields (fun a0 en0 => eval a0 en0) fs [] en
  | EArr es => eval_list (fun a0 en0 => eval a0 en0) es [] en (fun vs en1 => ret1 (MArr vs) en1)
  | EVariant n => ret1 (MVariant n) en
  | EInto a => do (v, en1) <- eval a en; opt_leaf (into_val v) en1
  | EIsErr a =>
      do (v, en1) <- eval a en;
      match v with
      | MErr _ => ret1 (MV (VB true)) en1 | MOk _ => ret1 (MV (VB false)) en1
      | MOutS o _ => TOut o (fun _ => ret1 (MV (VB true)) en1) (ret1 (MV (VB false)) en1) (fun _ => ret1 (MV (VB false)) en1)
      | _ => Leaf OType end
  | EUnwrap a =>
      do (v, en1) <- eval a en;
      match v with
      | MSome w | MOk w => ret1 w en1 | MNone | MErr _ => Leaf OPanic
      | MOpt o f => TAsk o (fun a => ret1 (f a) en1) (Leaf OPanic)
      | MOutS o f => TOut o (fun _ => Leaf OPanic) (ret1 MNone en1) (fun d => ret1 (MSome (f d)) en1)
      | _ => Leaf OType end
  | ETry a =>
      do (v, en1) <- eval a en;
      match v with
      | MOk w => ret1 w en1 | MErr w => Leaf (ORet (MErr w) en1)
      | MOutS o f => TOut o (fun e => Leaf (ORet (MErr (MErrV e)) en1)) (ret1 MNone en1) (fun d => ret1 (MSome (f d)) en1)
      | _ => Leaf OType end
  | ECmp o a b =>
      do (x, en1) <- eval a en;
      do (y, en2) <- eval b en1;
      match x, y with MV p, MV q => Leaf (of_rv (cmp_val o p q) en2) | _, _ => Leaf OType end
  | EAssertEq a b =>
      do (x, en1) <- eval a en;
      do (y, en2) <- eval b en1;
      match x, y with
      | MV (VPD p), MV (VPD q) => TIf (pd_eqb p q) (ret1 MTup0 en2) (Leaf OPanic)
      | MV p, MV q =>
          match eq_val c p q with
          | RVal (VB t) => TIf t (ret1 MTup0 en2) (Leaf OPanic)
          | RPanic => Leaf OPanic
          | _ => Leaf OType
          end
      | _, _ => Leaf OType
      end
  | ELet p a body =>
      do (v, en1) <- eval a en;
      tmap (fun m => match m with
                     | Some bs => do (w, en2) <- eval body (bs ++ en1); ret1 w (skipn (List.length bs) en2)
                     | None => Leaf OType
                     end) (pmatch p v)
  | ESeq a b => do (v, en1) <- eval a en; eval b en1
  | EAssign l a =>
      do (v, en1) <- eval a en;
      match lval_set l v en1 with Some en2 => ret1 MTup0 en2 | None => Leaf OType end
  | EOpAssign l o a =>
      do (v, en1) <- eval a en;
      match lval_get l en1 with
      | Some old =>
          match lower old, lower v with
          | Some x, Some y =>
              tmap (fun r => match r with
                             | RVal w => match lval_set l (lift w) en1 with Some en2 => ret1 MTup0 en2 | None => Leaf OType end
                             | RPanic => Leaf OPanic
                             | RType => Leaf OType
                             end) (prim_tree o [x; y])
          | _, _ => Leaf OType
          end
      | None => Leaf OType
      end
  | EIf cnd th el =>
      do (v, en1) <- eval cnd en;
      match v with
      | MV (VB t) => TIf t (eval th en1) (eval el en1)
      | _ => Leaf OType
      end
  | EMatch a arms =>
      do (v, en1) <- eval a en;
      eval_arms (fun a0 en0 => eval a0 en0) v en1 arms
  | EFor x coll body =>
      do (v, en1) <- eval coll en;
      match v with
      | MArr items => for_loop (eval body) x items en1
      | _ => Leaf OType
      end
  | EForMut x l body =>
      match lval_get l en with
      | Some (MArr items) => for_mut (eval body) x l [] items en
      | _ => Leaf OType
      end
  | EPush l front a =>
      do (v, en1) <- eval a en;
      match lval_get l en1 with
      | Some (MArr items) =>
          match lval_set l (MArr (if front then v :: items else items ++ [v])) en1 with
          | Some en2 => ret1 MTup0 en2 | None => Leaf OType end
      | _ => Leaf OType
      end
  | EPop l front =>
      match lval_get l en with
      | Some (MArr items) =>
          match (if front then match items with [] => None | x :: r => Some (x, r) end
                 else match rev items with [] => None | x :: r => Some (x, rev r) end) with
          | Some (x, r) => match lval_set l (MArr r) en with Some en2 => ret1 (MSome x) en2 | None => Leaf OType end
          | None => ret1 MNone en
          end
      | _ => Leaf OType
      end
  | EWhile fuel cnd body =>
      do (f, en1) <- eval fuel en;
      match f with
      | MV (VI n) => while_loop (eval cnd) (eval body) (Z.to_nat n) en1
      | _ => Leaf OType
      end
  | EReturn a => do (v, en1) <- eval a en; Leaf (ORet v en1)
  | ECatch a =>
      tmap (fun o => match o with
                     | ORet v en1 => Leaf (ONorm v (skipn (List.length en1 - List.length en) en1))
                     | o' => Leaf o'
                     end) (eval a en)
  end.

(* the ordinary result of a tree *)
Fixpoint flatten {X} (t : tree X) : res X :=
  match t with
  | Leaf x => Ok x
  | TRes r k => match r with Ok a => flatten (k a) | Panic => Panic end
  | TIf b x y => if b then flatten x else flatten y
  | TAsk o ks kn => match o with Some a => flatten (ks a) | None => flatten kn end
  | TPay p k =>
      match p with
      | PF x => flatten (k (VF x)) | PQ q => flatten (k (VQ q)) | PB b => flatten (k (VB b))
      | PS s => flatten (k (VS s)) | PC x => flatten (k (VC x))
      end
  | TOut o ke kn ks => match o with OErr e => flatten (ke e) | ONone => flatten kn | OSome d => flatten (ks d) end
  end.
Definition flatten_rv (t : tree (@rv F)) : @rv F := match flatten t with Ok r => r | Panic => RPanic end.

(* symbolic containers written out by cases (for comparing final results) *)
Fixpoint canon (m : mval) : mval :=
  match m with
  | MOpt o f => match o with Some a => MSome (canon (f a)) | None => MNone end
  | MOutS o f => match o with OErr e => MErr (MErrV e) | ONone => MOk MNone | OSome d => MOk (MSome (canon (f d))) end
  | MOk x => MOk (canon x) | MErr x => MErr (canon x) | MSome x => MSome (canon x)
  | MRec fs => MRec ((fix go (l : list (string * mval)) : list (string * mval) :=
                        match l with [] => [] | (k, v) :: r => (k, canon v) :: go r end) fs)
  | MArr l => MArr ((fix go (l : list mval) : list mval := match l with [] => [] | v :: r => canon v :: go r end) l)
  | x => x
  end.

(* a function body run on a receiver [self] (a struct) and the values its getters return at this moment.
   None: the translated program is ill-typed for these arguments (never, for the current source and embedded
   model states: the generated theorems show it). *)
Definition finish (n_inputs : nat) (o : outcome) : option (res (mval * mval)) :=
  let fin (v : mval) (en : env) :=
    match lookup "self" (skipn (List.length en - S n_inputs) en) with Some s => Some (Ok (canon s, canon v)) | None => None end in
  match o with
  | ONorm v en => fin v en
  | ORet v en => fin v en
  | OPanic => Some Panic
  | OType => None
  | OUB => None
  end.
Definition run_fn (body : mexpr) (self : mval) (inputs : env) : option (res (mval * mval)) :=
  match flatten (eval body (("self", self) :: inputs)) with
  | Ok o => finish (List.length inputs) o
  | Panic => Some Panic
  end.

End MiniRust.
Arguments MOpt {F A} o f.
Arguments MOutS {F T} o f.
