(* Wire format: every case and every result is a list of integers.  f32 values travel as their
   32-bit patterns.  The decoders are total (fuel = length of the input). *)
From Coq Require Import ZArith Bool List.
From RRTK Require Import Num.Num Num.B32 Model.Values Model.Prog.
Import ListNotations.
Local Open Scope Z_scope.

Definition W_PANIC := 99.
Definition W_TYPE := 98.
Definition W_BAD := 97.     (* undecodable case *)

Definition enc_pd (d : pd) : Z := match d with Position => 0 | Velocity => 1 | Acceleration => 2 end.
Definition dec_pd (z : Z) : pd := if z =? 0 then Position else if z =? 1 then Velocity else Acceleration.
Definition enc_piece (p : piece) : Z :=
  match p with BeforeStart => 0 | InitialAcceleration => 1 | ConstantVelocity => 2 | EndAcceleration => 3 | Complete => 4 end.
Definition dec_piece (z : Z) : piece :=
  if z =? 0 then BeforeStart else if z =? 1 then InitialAcceleration else if z =? 2 then ConstantVelocity
  else if z =? 3 then EndAcceleration else Complete.
Definition enc_ord (o : option comparison) : Z :=
  match o with None => 0 | Some Lt => 1 | Some Eq => 2 | Some Gt => 3 end.
Definition enc_bool (b : bool) : Z := if b then 1 else 0.
Definition enc_err (e : err) : Z := match e with FromNone => -1 | Other k => k end.
Definition dec_err (z : Z) : err := if z =? -1 then FromNone else Other z.

Notation val32 := (@val f32).
Notation fb := b32_to_bits.

Fixpoint enc_val (v : val32) : list Z :=
  match v with
  | VF f => [1; fb f]
  | VQ q => [2; fb (qv q); mm (qu q); sec (qu q)]
  | VT t => [3; t] | VD d => [4; d]
  | VU u => [5; mm u; sec u]
  | VI i => [6; i] | VB b => [7; enc_bool b]
  | VS s => [8; fb (s_pos s); fb (s_vel s); fb (s_acc s)]
  | VC x => [9; enc_pd (c_kind x); fb (c_val x)]
  | VPD d => [10; enc_pd d] | VPiece p => [11; enc_piece p]
  | VNone => [12] | VSome w => 17 :: enc_val w
  | VDat t w => 13 :: t :: enc_val w
  | VOrd o => [14; enc_ord o] | VUnit => [15]
  | VPair a b => 16 :: enc_val a ++ enc_val b
  end.
Definition enc_rv (r : @rv f32) : list Z :=
  match r with RVal v => enc_val v | RPanic => [W_PANIC] | RType => [W_TYPE] end.

Section Dec.
Variable c : cfg.
Notation ob := b32_of_bits.

Fixpoint dec_val (fuel : nat) (l : list Z) : option (val32 * list Z) :=
  match fuel with
  | O => None
  | S fuel =>
    match l with
    | 1 :: b :: r => Some (VF (ob b), r)
    | 2 :: b :: m :: s :: r => Some (VQ (qnew (ob b) (unew c m s)), r)
    | 3 :: t :: r => Some (VT t, r)
    | 4 :: d :: r => Some (VD d, r)
    | 5 :: m :: s :: r => Some (VU (unew c m s), r)
    | 6 :: i :: r => Some (VI i, r)
    | 7 :: b :: r => Some (VB (negb (b =? 0)), r)
    | 8 :: p :: v :: a :: r => Some (VS (snew_raw (ob p) (ob v) (ob a)), r)
    | 9 :: k :: b :: r => Some (VC (cnew (dec_pd k) (ob b)), r)
    | 10 :: k :: r => Some (VPD (dec_pd k), r)
    | 11 :: k :: r => Some (VPiece (dec_piece k), r)
    | 12 :: r => Some (VNone, r)
    | 17 :: r => match dec_val fuel r with Some (w, r') => Some (VSome w, r') | None => None end
    | 13 :: t :: r => match dec_val fuel r with Some (w, r') => Some (VDat t w, r') | None => None end
    | 15 :: r => Some (VUnit, r)
    | 16 :: r =>
        match dec_val fuel r with
        | Some (a, r') => match dec_val fuel r' with Some (b, r'') => Some (VPair a b, r'') | None => None end
        | None => None end
    | _ => None
    end
  end.

Fixpoint dec_expr (fuel : nat) (l : list Z) : option (@expr f32 * list Z) :=
  match fuel with
  | O => None
  | S fuel =>
    match l with
    | 0 :: r => match dec_val (length r) r with Some (v, r') => Some (Lit v, r') | None => None end
    | 100 :: o :: n :: r =>
        (fix args (k : nat) (l : list Z) (acc : list (@expr f32)) {struct k} :=
           match k with
           | O => Some (Op o (rev acc), l)
           | S k' => match dec_expr fuel l with
                     | Some (e, l') => args k' l' (e :: acc)
                     | None => None end
           end) (Z.to_nat n) r []
    | _ => None
    end
  end.
End Dec.

(* case kind 1: [chk; std; expr...] *)
Definition run_prog_case (l : list Z) : list Z :=
  match l with
  | ck :: sd :: r =>
      let c := {| chk := negb (ck =? 0); stdf := negb (sd =? 0) |} in
      match dec_expr c (length r) r with
      | Some (e, []) => enc_rv (run c e)
      | _ => [W_BAD]
      end
  | _ => [W_BAD]
  end.
