(* kind 9: [variant; init; n; ops...]  ops: 1 clone k | 2 to_dyn k | 3 read k | 4 write k x | 5 drop k | 6 freed? *)
From Coq Require Import ZArith Bool List.
From RRTK Require Import Num.Num Model.Values Model.Wire Model.WireStreams Model.RefHeap.
Import ListNotations.
Local Open Scope Z_scope.

Definition dec_variant (z : Z) : variant :=
  if z =? 0 then VPtr else if z =? 1 then VRcRefCell else if z =? 2 then VPtrRwLock else if z =? 3 then VPtrMutex
  else if z =? 4 then VArcRwLock else VArcMutex.
Definition p_rop : P rop :=
  do o <- pz;
  if o =? 1 then (do k <- pz; pret (RClone (Z.to_nat k)))
  else if o =? 2 then (do k <- pz; pret (RToDyn (Z.to_nat k)))
  else if o =? 3 then (do k <- pz; pret (RRead (Z.to_nat k)))
  else if o =? 4 then (do k <- pz; do x <- pz; pret (RWrite (Z.to_nat k) x))
  else if o =? 5 then (do k <- pz; pret (RDrop (Z.to_nat k)))
  else if o =? 6 then pret RFreed
  else fun _ => None.
Definition e_rout (o : rout) : list Z :=
  match o with ROk => [0] | RVal x => [1; x] | RBool b => [2; enc_bool b] | RBad => [W_BAD] end.
Fixpoint run_rops (h : rheap) (ops : list rop) : list Z :=
  match ops with
  | [] => []
  | o :: r => match rstep h o with
              | Panic => [W_PANIC]
              | Ok (h', out) => e_rout out ++ run_rops h' r
              end
  end.
Definition run_ref_case (l : list Z) : list Z :=
  match l with
  | v :: x :: n :: r =>
      match prep (Z.to_nat n) p_rop r with
      | Some (ops, []) => run_rops (rh_init (dec_variant v) x) ops
      | _ => [W_BAD]
      end
  | _ => [W_BAD]
  end.
