(* Gallina transcription of examples/pid.rs : the same PID controller assembled from the crate's own
   DifferenceStream, IntegralStream, DerivativeStream, NoneToValue, ProductStream, QuantityToFloat,
   SumStream<3>, ConstantGetter and TimeGetterFromGetter, updated in the example's order. *)
From Coq Require Import ZArith Bool List.
From RRTK Require Import Num.Num Model.Values Model.Combinators Model.Streams.
Import ListNotations.
Local Open Scope Z_scope.

Section Assembly.
Context {F : Type} {NF : Num F}.
Variable c : cfg.
Notation quantity := (@quantity F).

Record spid := { sa_sp : quantity; sa_kp : quantity; sa_ki : quantity; sa_kd : quantity;
                 sa_int : @dint F; sa_drv : @dint F; sa_pfm : out F; sa_ifm : out F; sa_dfm : out F }.
Definition spid_init (sp kp ki kd : F) : spid :=
  {| sa_sp := qnew sp (U_MM c); sa_kp := qdimless c kp; sa_ki := qdimless c ki; sa_kd := qdimless c kd;
     sa_int := dint_init; sa_drv := dint_init; sa_pfm := ONone; sa_ifm := ONone; sa_dfm := ONone |}.

Definition qmul_r (a b : quantity) : res quantity := Ok (qmul c a b).
Definition fadd_r (a b : F) : res F := Ok (fadd a b).

Definition spid_step (s : spid) (i : out quantity) : res (spid * upd) :=
  let tg := time_getter_from_getter i in
  let cg q := constant_getter tg q in
  let! err := binop (qsub c) (cg (sa_sp s)) i in
  let zero_mm := qnew fzero (U_MM c) in
  let! r1 := integ_step c (sa_int s) err in
  let '(int', u1) := r1 in
  let s1 := {| sa_sp := sa_sp s; sa_kp := sa_kp s; sa_ki := sa_ki s; sa_kd := sa_kd s; sa_int := int';
               sa_drv := sa_drv s; sa_pfm := sa_pfm s; sa_ifm := sa_ifm s; sa_dfm := sa_dfm s |} in
  match u1 with
  | UErr e => Ok (s1, UErr e)
  | UOk =>
      let! r2 := deriv_step c (sa_drv s) err in
      let '(drv', u2) := r2 in
      let s2 := {| sa_sp := sa_sp s; sa_kp := sa_kp s; sa_ki := sa_ki s; sa_kd := sa_kd s; sa_int := int';
                   sa_drv := drv'; sa_pfm := sa_pfm s; sa_ifm := sa_ifm s; sa_dfm := sa_dfm s |} in
      match u2 with
      | UErr e => Ok (s2, UErr e)
      | UOk =>
          let! pm := nary qmul_r [cg (sa_kp s); err] in
          let! im := nary qmul_r [cg (sa_ki s); none_to_value (dint_get int') tg zero_mm] in
          let! dm := nary qmul_r [cg (sa_kd s); none_to_value (dint_get drv') tg zero_mm] in
          Ok ({| sa_sp := sa_sp s; sa_kp := sa_kp s; sa_ki := sa_ki s; sa_kd := sa_kd s; sa_int := int';
                 sa_drv := drv'; sa_pfm := fst (q2f_step (sa_pfm s) pm); sa_ifm := fst (q2f_step (sa_ifm s) im);
                 sa_dfm := fst (q2f_step (sa_dfm s) dm) |}, UOk)
      end
  end.
Definition spid_get (s : spid) : res (out F) := nary fadd_r [sa_pfm s; sa_ifm s; sa_dfm s].
End Assembly.
