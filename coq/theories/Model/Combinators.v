(* Stateless combinator streams (src/streams.rs, streams/math.rs, flow.rs, logic.rs, converters.rs,
   lib.rs NoneGetter/ConstantGetter/TimeGetterFromGetter): one pure function per combinator from the
   outputs of its inputs to its output, with the code's own sequence of reads and early returns.
   [res] because a payload operator may panic (Quantity unit mismatch, i64 overflow in Expirer). *)
From Coq Require Import ZArith Bool List.
From RRTK Require Import Num.Num Model.Values.
Import ListNotations.
Local Open Scope Z_scope.

(* a time getter's answer *)
Inductive tout := TErr (e : err) | TOk (t : Z).

Section Payload.
Context {T : Type}.
Variable op : T -> T -> res T.     (* the payload operator used by the combinator *)

(* Datum op= Datum : value operator, newest time (>= rule of datum.rs) *)
Definition dat_op (a b : datum T) : res (datum T) :=
  let! v := op (d_val a) (d_val b) in Ok (mkDatum (tmax_ge (d_time a) (d_time b)) v).
(* the rule written out in Difference/Quotient/ExponentStream (> instead of >=) *)
Definition dat_op_gt (a b : datum T) : res (datum T) :=
  let! v := op (d_val a) (d_val b) in Ok (mkDatum (tmax_gt (d_time a) (d_time b)) v).

(* SumStream / ProductStream: read inputs in order; `?` returns the first error at once; absent inputs
   are skipped; the present ones are folded left to right with op= *)
Fixpoint scan (ins : list (out T)) : err + list (datum T) :=
  match ins with
  | [] => inr []
  | OErr e :: _ => inl e
  | ONone :: r => scan r
  | OSome d :: r => match scan r with inl e => inl e | inr ds => inr (d :: ds) end
  end.
Fixpoint fold_dat (acc : datum T) (ds : list (datum T)) : res (datum T) :=
  match ds with
  | [] => Ok acc
  | d :: r => let! a := dat_op acc d in fold_dat a r
  end.
Definition nary (ins : list (out T)) : res (out T) :=
  match scan ins with
  | inl e => Ok (OErr e)
  | inr [] => Ok ONone
  | inr (d :: ds) => let! r := fold_dat d ds in Ok (OSome r)
  end.

(* Sum2 / Product2 *)
Definition bin2 (a b : out T) : res (out T) :=
  match a with
  | OErr e => Ok (OErr e)
  | ONone => Ok b
  | OSome x =>
      match b with
      | OErr e => Ok (OErr e)
      | ONone => Ok (OSome x)
      | OSome y => let! r := dat_op x y in Ok (OSome r)
      end
  end.

(* DifferenceStream / QuotientStream / ExponentStream: both operands are read (both `?`) before
   absence is looked at *)
Definition binop (a b : out T) : res (out T) :=
  match a, b with
  | OErr e, _ => Ok (OErr e)
  | _, OErr e => Ok (OErr e)
  | ONone, _ => Ok ONone
  | OSome x, ONone => Ok (OSome x)
  | OSome x, OSome y => let! r := dat_op_gt x y in Ok (OSome r)
  end.
End Payload.

Section Flow.
Context {T : Type}.

Definition if_ (cond : out bool) (input : out T) : out T :=
  match cond with
  | OErr e => OErr e
  | ONone => ONone
  | OSome d => if d_val d then input else ONone
  end.
Definition ifelse (cond : out bool) (t f : out T) : out T :=
  match cond with
  | OErr e => OErr e
  | ONone => ONone
  | OSome d => if d_val d then t else f
  end.

(* Latest: errors and absents are skipped; a strictly newer candidate replaces *)
Fixpoint latest_go (ins : list (out T)) (acc : option (datum T)) : option (datum T) :=
  match ins with
  | [] => acc
  | OSome g :: r =>
      match acc with
      | Some th => latest_go r (if d_time g >? d_time th then Some g else acc)
      | None => latest_go r (Some g)
      end
  | _ :: r => latest_go r acc
  end.
Definition latest_n (ins : list (out T)) : out T :=
  match latest_go ins None with Some d => OSome d | None => ONone end.

(* Expirer: absent input => absent without reading the clock; expired iff now - t > limit *)
Definition expirer (input : out T) (now : tout) (limit : Z) : res (out T) :=
  match input with
  | OErr e => Ok (OErr e)
  | ONone => Ok ONone
  | OSome d =>
      match now with
      | TErr e => Ok (OErr e)
      | TOk t => let! age := isub t (d_time d) in
                 Ok (if age >? limit then ONone else OSome d)
      end
  end.
Definition none_to_error (input : out T) : out T :=
  match input with ONone => OErr FromNone | x => x end.
Definition none_to_value (input : out T) (now : tout) (v : T) : out T :=
  match input with
  | ONone => match now with TErr e => OErr e | TOk t => OSome (mkDatum t v) end
  | x => x
  end.
Definition none_getter : out T := ONone.
Definition constant_getter (now : tout) (v : T) : out T :=
  match now with TErr e => OErr e | TOk t => OSome (mkDatum t v) end.
(* TimeGetterFromGetter: the getter's timestamp; absent becomes FromNone *)
Definition time_getter_from_getter (input : out T) : tout :=
  match none_to_error input with
  | OErr e => TErr e
  | ONone => TErr FromNone      (* unreachable: the `expect` *)
  | OSome d => TOk (d_time d)
  end.
End Flow.

(* ---- logic ---- *)
Inductive andst := DefinitelyFalse | MaybeTrue | ReturnableTrue.
Definition and_none (s : andst) := match s with ReturnableTrue => MaybeTrue | x => x end.
Definition newer (time : option Z) (t : Z) : option Z :=
  match time with Some ex => if t >? ex then Some t else time | None => Some t end.

Definition and_ (a b : out bool) : out bool :=
  match a, b with
  | OErr e, _ => OErr e
  | _, OErr e => OErr e
  | _, _ =>
    let '(time, st) :=
      match a with
      | OSome d => (Some (d_time d), if d_val d then ReturnableTrue else DefinitelyFalse)
      | _ => (None, and_none ReturnableTrue)
      end in
    let '(time, st) :=
      match b with
      | OSome d => (newer time (d_time d), if d_val d then st else DefinitelyFalse)
      | _ => (time, and_none st)
      end in
    match time with
    | None => ONone
    | Some t => match st with
                | DefinitelyFalse => OSome (mkDatum t false)
                | MaybeTrue => ONone
                | ReturnableTrue => OSome (mkDatum t true)
                end
    end
  end.

Inductive orst := DefinitelyTrue | MaybeFalse | ReturnableFalse.
Definition or_none (s : orst) := match s with ReturnableFalse => MaybeFalse | x => x end.
Definition or_ (a b : out bool) : out bool :=
  match a, b with
  | OErr e, _ => OErr e
  | _, OErr e => OErr e
  | _, _ =>
    let '(time, st) :=
      match a with
      | OSome d => (Some (d_time d), if d_val d then DefinitelyTrue else ReturnableFalse)
      | _ => (None, or_none ReturnableFalse)
      end in
    let '(time, st) :=
      match b with
      | OSome d => (newer time (d_time d), if d_val d then DefinitelyTrue else st)
      | _ => (time, or_none st)
      end in
    match time with
    | None => ONone
    | Some t => match st with
                | DefinitelyTrue => OSome (mkDatum t true)
                | MaybeFalse => ONone
                | ReturnableFalse => OSome (mkDatum t false)
                end
    end
  end.
Definition not_ (a : out bool) : out bool :=
  match a with OSome d => OSome (mkDatum (d_time d) (negb (d_val d))) | ONone => ONone | OErr e => OErr e end.
