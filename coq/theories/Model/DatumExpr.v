(* Expression trees for the operator impls of src/datum.rs, as produced by tools/gen_datum.py, with
   their meaning.  Time expressions are given a semantics over Z (eval_time) and a decision procedure
   (picks) that is proved sound: it decides which operand's time an expression returns under each of
   the three possible orderings of self.time and other.time. *)
From Coq Require Import ZArith Bool List String.
Import ListNotations.
Local Open Scope Z_scope.

Inductive cmpop := CGe | CGt | CLe | CLt | CEq.
Inductive bop := BAdd | BSub | BMul | BDiv.
Inductive uop := UNot | UNeg.
Inductive rexp :=
| SelfTime | OtherTime | SelfVal | OtherVal | OtherRaw
| If (c : cmpop) (a b t e : rexp)
| Bin (o : bop) (a b : rexp)
| Un (o : uop) (a : rexp).

Record dimpl := mk_dimpl { di_trait : string; di_self : string; di_rhs : string; di_time : rexp; di_val : rexp }.

Definition cmp_z (c : cmpop) (x y : Z) : bool :=
  match c with CGe => x >=? y | CGt => x >? y | CLe => x <=? y | CLt => x <? y | CEq => x =? y end.

(* meaning of a time-typed expression given self.time and other.time; None: not a time expression *)
Fixpoint eval_time (e : rexp) (ts to : Z) : option Z :=
  match e with
  | SelfTime => Some ts
  | OtherTime => Some to
  | If c a b t f =>
      match eval_time a ts to, eval_time b ts to with
      | Some x, Some y => if cmp_z c x y then eval_time t ts to else eval_time f ts to
      | _, _ => None
      end
  | _ => None
  end.

(* symbolic: which operand is returned when [Z.compare ts to = o] *)
Inductive pick := PSelf | POther.
Definition pick_val (p : pick) (ts to : Z) : Z := match p with PSelf => ts | POther => to end.
Definition cmp_pick (c : cmpop) (o : comparison) (p q : pick) : bool :=
  (* truth of [p c q] knowing how ts compares with to *)
  let ord := match p, q with
             | PSelf, PSelf | POther, POther => Eq
             | PSelf, POther => o
             | POther, PSelf => CompOpp o
             end in
  match c, ord with
  | CGe, Lt => false | CGe, _ => true
  | CGt, Gt => true | CGt, _ => false
  | CLe, Gt => false | CLe, _ => true
  | CLt, Lt => true | CLt, _ => false
  | CEq, Eq => true | CEq, _ => false
  end.
Fixpoint picks (e : rexp) (o : comparison) : option pick :=
  match e with
  | SelfTime => Some PSelf
  | OtherTime => Some POther
  | If c a b t f =>
      match picks a o, picks b o with
      | Some p, Some q => if cmp_pick c o p q then picks t o else picks f o
      | _, _ => None
      end
  | _ => None
  end.

(* the operand with the newer time, self on a tie: what the model's tmax_ge computes *)
Definition newest_pick (o : comparison) : pick := match o with Lt => POther | _ => PSelf end.
(* decision: e denotes "the newer of the two times" (on a tie both operands carry the same time, so either pick is the same number) *)
Definition is_newest_time (e : rexp) : bool :=
  match picks e Lt, picks e Gt, picks e Eq with
  | Some POther, Some PSelf, Some _ => true
  | _, _, _ => false
  end.
Definition is_self_time (e : rexp) : bool :=
  match picks e Lt, picks e Gt, picks e Eq with
  | Some PSelf, Some PSelf, Some PSelf => true
  | _, _, _ => false
  end.

(* value expressions: one application of the trait's operator to self.value and the right operand *)
Definition op_of_trait (t : string) : option (bop + uop) :=
  (if String.eqb t "Add" || String.eqb t "AddAssign" then Some (inl BAdd)
   else if String.eqb t "Sub" || String.eqb t "SubAssign" then Some (inl BSub)
   else if String.eqb t "Mul" || String.eqb t "MulAssign" then Some (inl BMul)
   else if String.eqb t "Div" || String.eqb t "DivAssign" then Some (inl BDiv)
   else if String.eqb t "Not" then Some (inr UNot)
   else if String.eqb t "Neg" then Some (inr UNeg)
   else None)%bool.
Definition rhs_is_datum (r : string) : bool := (String.eqb r "Self" || String.eqb r "Datum<f32>")%bool.
Definition rexp_eqb_simple (a b : rexp) : bool :=
  match a, b with
  | SelfVal, SelfVal | OtherVal, OtherVal | OtherRaw, OtherRaw => true
  | _, _ => false
  end.
Definition bop_eqb (a b : bop) : bool := match a, b with BAdd, BAdd | BSub, BSub | BMul, BMul | BDiv, BDiv => true | _, _ => false end.
Definition uop_eqb (a b : uop) : bool := match a, b with UNot, UNot | UNeg, UNeg => true | _, _ => false end.
Definition value_ok (i : dimpl) : bool :=
  match op_of_trait (di_trait i), di_val i with
  | Some (inl o), Bin o' a b =>
      bop_eqb o o' && rexp_eqb_simple a SelfVal && rexp_eqb_simple b (if rhs_is_datum (di_rhs i) then OtherVal else OtherRaw)
  | Some (inr o), Un o' a => uop_eqb o o' && rexp_eqb_simple a SelfVal
  | _, _ => false
  end%bool.
Definition time_ok (i : dimpl) : bool :=
  if rhs_is_datum (di_rhs i) then is_newest_time (di_time i) else is_self_time (di_time i).
