(* Wire decoding/encoding for case kinds 3 (stateless combinators) and 4 (stateful streams). *)
From Coq Require Import ZArith Bool List.
From RRTK Require Import Num.Num Num.B32 Model.Values Model.Prog Model.Wire Model.Combinators Model.Streams Model.Assembly.
Import ListNotations.
Local Open Scope Z_scope.

Notation ob := b32_of_bits.
Notation Q32 := (@quantity f32).
Notation S32 := (@state f32).
Notation C32 := (@command f32).

Definition P (A : Type) := list Z -> option (A * list Z).
Definition pbind {A B} (p : P A) (f : A -> P B) : P B :=
  fun l => match p l with Some (a, r) => f a r | None => None end.
Definition pret {A} (a : A) : P A := fun l => Some (a, l).
Definition pz : P Z := fun l => match l with x :: r => Some (x, r) | [] => None end.
Notation "'do' x '<-' p ';' k" := (pbind p (fun x => k)) (at level 200, x pattern, p at level 100, k at level 200).
Fixpoint prep {A} (n : nat) (p : P A) : P (list A) :=
  match n with
  | O => pret []
  | S k => do a <- p; do r <- prep k p; pret (a :: r)
  end.

Section Dec.
Variable c : cfg.
Definition p_f : P f32 := do b <- pz; pret (ob b).
Definition p_q : P Q32 := do b <- pz; do m <- pz; do s <- pz; pret (qnew (ob b) (unew c m s)).
Definition p_b : P bool := do b <- pz; pret (negb (b =? 0)).
Definition p_s : P S32 := do p <- pz; do v <- pz; do a <- pz; pret (snew_raw (ob p) (ob v) (ob a)).
Definition p_c : P C32 := do k <- pz; do b <- pz; pret (cnew (dec_pd k) (ob b)).
Definition p_out {T} (pp : P T) : P (out T) :=
  do tag <- pz;
  if tag =? 0 then pret ONone
  else if tag =? 1 then (do e <- pz; pret (OErr (dec_err e)))
  else if tag =? 2 then (do t <- pz; do v <- pp; pret (OSome (mkDatum t v)))
  else fun _ => None.
Definition p_tout : P tout :=
  do tag <- pz;
  if tag =? 1 then (do e <- pz; pret (TErr (dec_err e)))
  else if tag =? 3 then (do t <- pz; pret (TOk t))
  else fun _ => None.
Definition p_powtbl : P (list (Z * Z * Z)) :=
  do n <- pz; prep (Z.to_nat n) (do b <- pz; do e <- pz; do r <- pz; pret (b, e, r)).
End Dec.

(* encoders *)
Definition e_f (x : f32) : list Z := [b32_to_bits x].
Definition e_q (q : Q32) : list Z := [b32_to_bits (qv q); mm (qu q); sec (qu q)].
Definition e_b (b : bool) : list Z := [enc_bool b].
Definition e_s (s : S32) : list Z := [b32_to_bits (s_pos s); b32_to_bits (s_vel s); b32_to_bits (s_acc s)].
Definition e_c (x : C32) : list Z := [enc_pd (c_kind x); b32_to_bits (c_val x)].
Definition e_out {T} (ep : T -> list Z) (o : out T) : list Z :=
  match o with
  | ONone => [0]
  | OErr e => [1; enc_err e]
  | OSome d => 2 :: d_time d :: ep (d_val d)
  end.
Definition e_res {A} (ea : A -> list Z) (r : res A) : list Z :=
  match r with Ok a => ea a | Panic => [W_PANIC] end.
Definition e_upd (u : upd) : list Z := match u with UOk => [0] | UErr e => [1; enc_err e] end.
Definition e_tout (t : tout) : list Z := match t with TErr e => [1; enc_err e] | TOk t => [3; t] end.
Definition twice (l : list Z) : list Z := l ++ l.

(* payload operators of the n-ary / binary arithmetic combinators *)
Definition opf (f : f32 -> f32 -> f32) : f32 -> f32 -> res f32 := fun a b => Ok (f a b).

Section Comb.
Variable c : cfg.
Variable tbl : list (Z * Z * Z).

(* arithmetic combinators over payload f32 / Quantity *)
Definition comb_arith (comb ptype : Z) (n : nat) : P (list Z) :=
  let run {T} (pp : P T) (ep : T -> list Z) (add mul sub div : T -> T -> res T) : P (list Z) :=
    do ins <- prep n (p_out pp);
    let r :=
      if comb =? 1 then nary add ins
      else if comb =? 2 then nary mul ins
      else match ins with
           | [a; b] =>
               if comb =? 3 then bin2 add a b else if comb =? 4 then bin2 mul a b
               else if comb =? 5 then binop sub a b else binop div a b
           | _ => Panic
           end in
    pret (twice (e_res (e_out ep) r)) in
  if ptype =? 0 then run p_f e_f (opf b32_add) (opf b32_mul) (opf b32_sub) (opf b32_div)
  else run (p_q c) e_q (qadd c) (fun a b => Ok (qmul c a b)) (qsub c) (fun a b => Ok (qdiv c a b)).

Definition comb_flow (comb : Z) (n : nat) : P (list Z) :=
  let eo := e_out e_f in
  if comb =? 7 then
    do a <- p_out p_f; do b <- p_out p_f;
    pret (twice (e_res eo (binop (opf (b32_pow tbl)) a b)))
  else if comb =? 8 then
    do cd <- p_out p_b; do i <- p_out p_f; pret (twice (eo (if_ cd i)))
  else if comb =? 9 then
    do cd <- p_out p_b; do t <- p_out p_f; do f <- p_out p_f; pret (twice (eo (ifelse cd t f)))
  else if comb =? 13 then
    do ins <- prep n (p_out p_f); pret (twice (eo (latest_n ins)))
  else if comb =? 14 then
    do i <- p_out p_f; do now <- p_tout; do lim <- pz; pret (twice (e_res eo (expirer i now lim)))
  else if comb =? 15 then
    do i <- p_out p_f; pret (twice (eo (none_to_error i)))
  else if comb =? 16 then
    do i <- p_out p_f; do now <- p_tout; do v <- p_f; pret (twice (eo (none_to_value i now v)))
  else if comb =? 17 then pret (twice (eo none_getter))
  else if comb =? 22 then
    do now <- p_tout; do v <- p_f; pret (twice (eo (constant_getter now v)))
  else if comb =? 23 then
    do i <- p_out p_f; pret (twice (e_tout (time_getter_from_getter i)))
  else fun _ => None.

Definition comb_logic (comb : Z) : P (list Z) :=
  let eo := e_out e_b in
  if comb =? 12 then (do a <- p_out p_b; pret (twice (eo (not_ a))))
  else
    do a <- p_out p_b; do b <- p_out p_b;
    if comb =? 10 then pret (twice (eo (and_ a b)))
    else if comb =? 11 then pret (twice (eo (or_ a b)))
    else if comb =? 18 then pret (twice (eo (not_ (and_ a b))))
    else if comb =? 19 then pret (twice (eo (or_ (not_ a) (not_ b))))
    else if comb =? 20 then pret (twice (eo (not_ (or_ a b))))
    else if comb =? 21 then pret (twice (eo (and_ (not_ a) (not_ b))))
    else fun _ => None.
End Comb.

(* [chk; std; comb; ptype; n; (pow table first, for comb 7); ...inputs...; extras...] *)
Definition run_comb_case (l : list Z) : list Z :=
  match l with
  | ck :: sd :: comb :: ptype :: n :: r =>
      let c := {| chk := negb (ck =? 0); stdf := negb (sd =? 0) |} in
      let p : P (list Z) :=
        (* SumStream::new, ProductStream::new, Latest::new panic when built with no input *)
        if ((comb =? 1) || (comb =? 2) || (comb =? 13)) && (n <=? 0) then pret [W_PANIC]
        else if (comb <=? 6) then comb_arith c comb ptype (Z.to_nat n)
        else if (comb =? 7) then (do tbl <- p_powtbl; comb_flow tbl 7 0)
        else if (10 <=? comb) && (comb <=? 12) || (18 <=? comb) && (comb <=? 21) then comb_logic comb
        else comb_flow [] comb (Z.to_nat n) in
      match p r with
      | Some (99 :: _, []) => [W_PANIC]     (* a panicking read: the case ends *)
      | Some (res, []) => res
      | _ => [W_BAD]
      end
  | _ => [W_BAD]
  end.

(* ---------------------------------------------------------------- kind 4: stateful streams *)
Fixpoint run_events {S E} (step : S -> E -> res (S * list Z)) (s : S) (evs : list E) : list Z :=
  match evs with
  | [] => []
  | e :: r => match step s e with
              | Panic => [W_PANIC]
              | Ok (s', o) => o ++ run_events step s' r
              end
  end.
(* output of one update: result of update(), then get(), then 1 (a second get returns the same) *)
Definition ev_out (u : upd) (g : list Z) : list Z := e_upd u ++ g ++ [1].

Section Strm.
Variable c : cfg.

Definition p_events {E} (pe : P E) : P (list E) := do n <- pz; prep (Z.to_nat n) pe.
Definition p_kvals : P (@kvals f32) := do p <- p_f; do i <- p_f; do d <- p_f; pret {| kp := p; ki := i; kd := d |}.

Definition lift_step {S T} (step : S -> out T -> res (S * upd)) (get : S -> list Z) : S -> out T -> res (S * list Z) :=
  fun s i => match step s i with
             | Panic => Panic
             | Ok (s', u) => match get s' with
                             | [99] => Panic
                             | g => Ok (s', ev_out u g)
                             end
             end.

Definition strm_case (stream : Z) : P (list Z) :=
  if stream =? 1 then
    do sp <- p_f; do k <- p_kvals; do evs <- p_events (p_out p_f);
    pret (run_events (lift_step (pid_step c) (fun s => e_out e_f (pid_get s))) (pid_init sp k) evs)
  else if stream =? 2 then
    do cmd <- p_c; do k1 <- p_kvals; do k2 <- p_kvals; do k3 <- p_kvals;
    let pev : P (option (option (out C32) * out S32) + C32) :=
      do tag <- pz;
      if tag =? 0 then
        (do ft <- pz;
         if ft =? 9 then (do i <- p_out p_s; pret (inl (Some (None, i))))
         else (fun l => (do f <- p_out p_c; do i <- p_out p_s; pret (inl (Some (Some f, i)))) (ft :: l)))
      else (do x <- p_c; pret (inr x)) in
    do evs <- p_events pev;
    let eget s := e_out e_f (cpid_get s) ++ (match cp_last s with Some x => 1 :: e_c x | None => [0] end) in
    let step s ev :=
      match ev with
      | inl (Some (f, i)) => match cpid_step c s f i with Panic => Panic | Ok (s', u) => Ok (s', ev_out u (eget s')) end
      | inl None => Panic
      | inr x => let s' := cpid_set s x in Ok (s', ev_out UOk (eget s'))
      end in
    pret (run_events step (cpid_init cmd {| k_pos := k1; k_vel := k2; k_acc := k3 |}) evs)
  else if (stream =? 3) || (stream =? 4) then
    do sm <- p_f; do tbl <- p_powtbl;
    let NP := B32_with_pow tbl in
    if stream =? 3 then
      do evs <- p_events (p_out p_f);
      pret (run_events (lift_step (@ewma_step f32 NP c f32 (@mix_f f32 NP)) (fun s => e_out e_f (ew_val s))) (ewma_init sm) evs)
    else
      do evs <- p_events (p_out (p_q c));
      pret (run_events (lift_step (@ewma_step f32 NP c Q32 (@mix_q f32 NP c)) (fun s => e_out e_q (ew_val s))) (ewma_init sm) evs)
  else if stream =? 5 then
    do w <- pz; do evs <- p_events (p_out p_f);
    pret (run_events (lift_step (ma_step (ma_acc_f c)) (fun s => e_out e_f (ma_val s))) (ma_init w) evs)
  else if stream =? 6 then
    do w <- pz; do evs <- p_events (p_out (p_q c));
    pret (run_events (lift_step (ma_step (ma_acc_q c)) (fun s => e_out e_q (ma_val s))) (ma_init w) evs)
  else if stream =? 7 then
    do evs <- p_events (p_out (p_q c));
    pret (run_events (lift_step (integ_step c) (fun s => e_out e_q (dint_get s))) dint_init evs)
  else if stream =? 8 then
    do evs <- p_events (p_out (p_q c));
    pret (run_events (lift_step (deriv_step c) (fun s => e_out e_q (dint_get s))) dint_init evs)
  else if stream =? 9 then
    do evs <- p_events (p_out (p_q c));
    pret (run_events (lift_step (a2s_step c) (fun s => e_res (e_out e_s) (a2s_get c s))) None evs)
  else if stream =? 10 then
    do evs <- p_events (p_out (p_q c));
    pret (run_events (lift_step (v2s_step c) (fun s => e_res (e_out e_s) (v2s_get c s))) None evs)
  else if stream =? 11 then
    do evs <- p_events (p_out (p_q c));
    pret (run_events (lift_step (p2s_step c) (fun s => e_res (e_out e_s) (p2s_get c s))) None evs)
  else if stream =? 12 then
    do m <- pz; do s <- pz; do evs <- p_events (p_out p_f);
    pret (run_events (fun st i => let '(st', u) := f2q_step st i in Ok (st', ev_out u (e_out e_q (f2q_get (unew c m s) st')))) ONone evs)
  else if stream =? 13 then
    do evs <- p_events (p_out (p_q c));
    pret (run_events (fun st i => let '(st', u) := q2f_step st i in Ok (st', ev_out u (e_out e_f (q2f_get st')))) ONone evs)
  else if stream =? 14 then
    do evs <- p_events (do cd <- p_out p_b; do i <- p_out p_f; pret (cd, i));
    pret (run_events (fun st ev => let '(st', u) := freeze_step st (fst ev) (snd ev) in Ok (st', ev_out u (e_out e_f st'))) (@ONone f32) evs)
  else if stream =? 15 then
    do sp <- p_f; do k <- p_kvals; do evs <- p_events (p_out (p_q c));
    pret (run_events (lift_step (spid_step c) (fun s => e_res (e_out e_f) (spid_get s))) (spid_init c sp (kp k) (ki k) (kd k)) evs)
  else fun _ => None.
End Strm.

Definition run_strm_case (l : list Z) : list Z :=
  match l with
  | ck :: sd :: stream :: r =>
      let c := {| chk := negb (ck =? 0); stdf := negb (sd =? 0) |} in
      match strm_case c stream r with
      | Some (res, []) => res
      | _ => [W_BAD]
      end
  | _ => [W_BAD]
  end.
