(* Terminals and their links (src/lib.rs:501-731): a world is a list of terminals indexed by id;
   each holds its own last-requested state and command and an optional link to another terminal. *)
From Coq Require Import ZArith Bool List.
From RRTK Require Import Num.Num Model.Values.
Import ListNotations.
Local Open Scope Z_scope.

Section World.
Context {F : Type} {NF : Num F}.
Notation state := (@state F).
Notation command := (@command F).

Record term := { t_state : option (datum state); t_cmd : option (datum command); t_other : option nat }.
Definition term_new : term := {| t_state := None; t_cmd := None; t_other := None |}.
Definition world := list term.
Definition wget (w : world) (i : nat) : term := nth i w term_new.
Fixpoint wset (w : world) (i : nat) (t : term) : world :=
  match w, i with
  | [], _ => []
  | _ :: r, O => t :: r
  | x :: r, S k => x :: wset r k t
  end.
Definition set_other (w : world) (i : nat) (o : option nat) : world :=
  wset w i {| t_state := t_state (wget w i); t_cmd := t_cmd (wget w i); t_other := o |}.
Definition set_state (w : world) (i : nat) (d : datum state) : world :=
  wset w i {| t_state := Some d; t_cmd := t_cmd (wget w i); t_other := t_other (wget w i) |}.
Definition set_cmd (w : world) (i : nat) (d : datum command) : world :=
  wset w i {| t_state := t_state (wget w i); t_cmd := Some d; t_other := t_other (wget w i) |}.

(* Terminal::disconnect, called with terminal i mutably borrowed: it mutably borrows the partner,
   which panics if the partner is i itself *)
Definition disconnect (w : world) (i : nat) : res world :=
  match t_other (wget w i) with
  | Some j => if Nat.eqb j i then Panic else Ok (set_other (set_other w j None) i None)
  | None => Ok w
  end.
(* connect (after the fix): disconnect each end under a temporary borrow, then borrow both and link *)
Definition connect (w : world) (i j : nat) : res world :=
  let! w1 := disconnect w i in
  let! w2 := disconnect w1 j in
  if Nat.eqb i j then Panic                       (* two simultaneous mutable borrows of one cell *)
  else Ok (set_other (set_other w2 i (Some j)) j (Some i)).
(* connect as it was before the fix: both terminals mutably borrowed while disconnecting *)
Definition connect_old (w : world) (i j : nat) : res world :=
  if Nat.eqb i j then Panic
  else match t_other (wget w i) with
       | Some k => if Nat.eqb k j then Panic      (* disconnect borrows the partner, already borrowed *)
                   else let! w1 := disconnect w i in
                        match t_other (wget w1 j) with
                        | Some k' => if Nat.eqb k' i then Panic else
                                     let! w2 := disconnect w1 j in Ok (set_other (set_other w2 i (Some j)) j (Some i))
                        | None => Ok (set_other (set_other w1 i (Some j)) j (Some i))
                        end
       | None => match t_other (wget w j) with
                 | Some k' => if Nat.eqb k' i then Panic else
                              let! w2 := disconnect w j in Ok (set_other (set_other w2 i (Some j)) j (Some i))
                 | None => Ok (set_other (set_other w i (Some j)) j (Some i))
                 end
       end.

(* Getter<State>: mean of own and partner's latest states, or whichever exists *)
Definition dstate_add (a b : datum state) : datum state := mkDatum (tmax_ge (d_time a) (d_time b)) (s_add (d_val a) (d_val b)).
Definition dstate_divf (a : datum state) (k : F) : datum state := mkDatum (d_time a) (s_divf (d_val a) k).
Definition partner_state (w : world) (i : nat) : option (datum state) :=
  match t_other (wget w i) with Some j => t_state (wget w j) | None => None end.
Definition partner_cmd (w : world) (i : nat) : option (datum command) :=
  match t_other (wget w i) with Some j => t_cmd (wget w j) | None => None end.
Definition state_get (w : world) (i : nat) : option (datum state) :=
  match t_state (wget w i), partner_state w i with
  | None, None => None
  | Some a, None => Some a
  | None, Some b => Some b
  | Some a, Some b => Some (dstate_divf (dstate_add a b) ftwo)
  end.
(* Getter<Command>: the newer of the two commands, own on ties *)
Definition cmd_get (w : world) (i : nat) : option (datum command) :=
  match t_cmd (wget w i), partner_cmd w i with
  | Some a, Some b => if d_time b >? d_time a then Some b else Some a
  | Some a, None => Some a
  | None, b => b
  end.
(* Getter<TerminalData>: both, with the state's timestamp when there is one *)
Record tdata := { td_time : Z; td_cmd : option command; td_state : option state }.
Definition data_get (w : world) (i : nat) : option (datum tdata) :=
  let cm := cmd_get w i in
  let st := state_get w i in
  let time := match st with Some d => Some (d_time d) | None => match cm with Some d => Some (d_time d) | None => None end end in
  match time with
  | Some t => Some (mkDatum t {| td_time := t; td_cmd := option_map (@d_val _) cm; td_state := option_map (@d_val _) st |})
  | None => None
  end.
End World.
