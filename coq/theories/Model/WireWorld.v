(* kind 7: a world of terminals, devices and wrappers driven by an operation sequence. *)
From Coq Require Import ZArith Bool List.
From RRTK Require Import Num.Num Num.B32 Model.Values Model.Wire Model.Combinators Model.Streams Model.WireStreams
  Model.Settable Model.World Model.Devices.
Import ListNotations.
Local Open Scope Z_scope.

Notation W32 := (@world f32).
Notation TD32 := (@tdata f32).

Inductive dev :=
| DInvert (t1 t2 : nat)
| DGear (t1 t2 : nat) (r : f32)
| DAxle (ts : list nat)
| DDiff (s1 s2 sm : nat) (d : distrust)
| DActuator (t : nat) (inner : @sett TD32)
| DEncoder (t : nat) (iu : upd) (io : out S32)
| DPidw (t : nat) (p : @pidw f32).

Definition e_ods (o : option (datum S32)) : list Z := match o with Some d => 1 :: d_time d :: e_s (d_val d) | None => [0] end.
Definition e_odc (o : option (datum C32)) : list Z := match o with Some d => 1 :: d_time d :: e_c (d_val d) | None => [0] end.
Definition e_td (t : TD32) : list Z :=
  td_time t :: (match td_cmd t with Some x => 1 :: e_c x | None => [0] end)
            ++ (match td_state t with Some s => 1 :: e_s s | None => [0] end).
Definition e_otd (o : option (datum TD32)) : list Z := match o with Some d => 1 :: e_td (d_val d) | None => [0] end.
Definition read_term (w : W32) (i : nat) : list Z :=
  e_ods (t_state (wget w i)) ++ e_odc (t_cmd (wget w i)) ++ e_ods (state_get w i) ++ e_odc (cmd_get w i) ++ e_otd (data_get w i).

Definition seqn (a n : nat) : list nat := seq a n.

(* decode the device list; returns devices, next free terminal id, or a constructor panic *)
Fixpoint p_devs (c : cfg) (n : nat) (next : nat) : P (res (list dev * nat)) :=
  match n with
  | O => pret (Ok ([], next))
  | S k =>
      do kind <- pz;
      let continue (d : dev) (used : nat) : P (res (list dev * nat)) :=
        do r <- p_devs c k (next + used)%nat;
        pret (match r with Ok (ds, nx) => Ok (d :: ds, nx) | Panic => Panic end) in
      if kind =? 1 then continue (DInvert next (S next)) 2%nat
      else if kind =? 2 then (do r <- p_f; continue (DGear next (S next) r) 2%nat)
      else if kind =? 3 then (do m <- pz; continue (DAxle (seqn next (Z.to_nat m))) (Z.to_nat m))
      else if kind =? 4 then
        (do d <- pz;
         continue (DDiff next (S next) (S (S next))
                     (if d =? 0 then DSide1 else if d =? 1 then DSide2 else if d =? 2 then DSum else DEqual)) 3%nat)
      else if kind =? 5 then
        (do m <- pz; do teeth <- prep (Z.to_nat m) p_f;
         match gear_ratio_of_teeth teeth with
         | Ok r => continue (DGear next (S next) r) 2%nat
         | Panic => (do _ <- p_devs c k next; pret Panic)
         end)
      else if kind =? 6 then continue (DActuator next sett_init) 1%nat
      else if kind =? 7 then continue (DEncoder next UOk ONone) 1%nat
      else if kind =? 8 then
        (do t0 <- pz; do s0 <- p_s; do c0 <- p_c; do k1 <- p_kvals; do k2 <- p_kvals; do k3 <- p_kvals;
         continue (DPidw next (pidw_init t0 s0 c0 {| k_pos := k1; k_vel := k2; k_acc := k3 |})) 1%nat)
      else if kind =? 9 then
        (* GearTrain::with_ratio(Quantity): the ratio must be dimensionless when checking is on *)
        (do r <- p_f; do m <- pz; do sx <- pz;
         if chk c && negb ((m =? 0) && (sx =? 0)) then (do _ <- p_devs c k next; pret Panic)
         else continue (DGear next (S next) r) 2%nat)
      else if kind =? 10 then continue (DDiff next (S next) (S (S next)) DEqual) 3%nat
      else fun _ => None
  end.

Fixpoint upd_dev (ds : list dev) (i : nat) (d : dev) : list dev :=
  match ds, i with
  | [], _ => []
  | _ :: r, O => d :: r
  | x :: r, S k => x :: upd_dev r k d
  end.

Definition dev_update (c : cfg) (w : W32) (d : dev) : res (W32 * dev * upd) :=
  match d with
  | DInvert a b => Ok (invert_update w a b, d, UOk)
  | DGear a b r => Ok (gear_update w a b r, d, UOk)
  | DAxle ts => Ok (axle_update w ts, d, UOk)
  | DDiff a b s dt => Ok (diff_update w a b s dt, d, UOk)
  | DActuator t inner => let '(i', u) := actuator_update w t inner in Ok (w, DActuator t i', u)
  | DEncoder t iu io => let '(w', u) := encoder_update w t iu io in Ok (w', d, u)
  | DPidw t p => match pidw_update c w t p with
                 | Ok (p', u) => Ok (w, DPidw t p', u)
                 | Panic => Panic
                 end
  end.

Definition op7 (c : cfg) (st : W32 * list dev) : P (res ((W32 * list dev) * list Z)) :=
  let w := fst st in let ds := snd st in
  do op <- pz;
  if op =? 1 then
    do i <- pz; do j <- pz;
    pret (match connect w (Z.to_nat i) (Z.to_nat j) with Ok w' => Ok ((w', ds), [0]) | Panic => Panic end)
  else if op =? 2 then
    do i <- pz;
    pret (match disconnect w (Z.to_nat i) with Ok w' => Ok ((w', ds), [0]) | Panic => Panic end)
  else if op =? 3 then
    do i <- pz; do t <- pz; do s <- p_s; pret (Ok ((set_state w (Z.to_nat i) (mkDatum t s), ds), [0]))
  else if op =? 4 then
    do i <- pz; do t <- pz; do x <- p_c; pret (Ok ((set_cmd w (Z.to_nat i) (mkDatum t x), ds), [0]))
  else if op =? 5 then
    do k <- pz;
    pret (match nth_error ds (Z.to_nat k) with
          | Some d => match dev_update c w d with
                      | Ok (w', d', u) => Ok ((w', upd_dev ds (Z.to_nat k) d'), e_upd u)
                      | Panic => Panic end
          | None => Ok (st, [W_BAD]) end)
  else if op =? 6 then do i <- pz; pret (Ok (st, read_term w (Z.to_nat i)))
  else if op =? 7 then pret (Ok (st, flat_map (read_term w) (seq 0 (length w))))
  else if op =? 8 then
    do k <- pz; do utag <- pz; do ue <- pz; do io <- p_out p_s;
    pret (match nth_error ds (Z.to_nat k) with
          | Some (DEncoder t _ _) => Ok ((w, upd_dev ds (Z.to_nat k) (DEncoder t (if utag =? 0 then UOk else UErr (dec_err ue)) io)), [0])
          | _ => Ok (st, [W_BAD]) end)
  else if op =? 9 then
    do k <- pz; do e <- pz;
    let f := if e =? 0 then None else Some (dec_err e) in
    pret (match nth_error ds (Z.to_nat k) with
          | Some (DActuator t inner) => Ok ((w, upd_dev ds (Z.to_nat k) (DActuator t (sett_set_fail inner f))), [0])
          | Some (DPidw t p) =>
              Ok ((w, upd_dev ds (Z.to_nat k) (DPidw t {| pw_clock := pw_clock p; pw_state := pw_state p; pw_cmd := pw_cmd p;
                                                         pw_pid := pw_pid p; pw_inner := sett_set_fail (pw_inner p) f |})), [0])
          | _ => Ok (st, [W_BAD]) end)
  else if op =? 10 then
    do k <- pz;
    pret (match nth_error ds (Z.to_nat k) with
          | Some (DActuator t inner) =>
              Ok (st, Z.of_nat (length (st_received inner)) ::
                      (match rev (st_received inner) with x :: _ => 1 :: e_td x | [] => [0] end))
          | Some (DPidw t p) =>
              Ok (st, Z.of_nat (length (st_received (pw_inner p))) ::
                      (match rev (st_received (pw_inner p)) with x :: _ => 1 :: e_f x | [] => [0] end))
          | _ => Ok (st, [W_BAD]) end)
  else fun _ => None.

Fixpoint run_ops7 (c : cfg) (n : nat) (st : W32 * list dev) (l : list Z) : option (list Z) :=
  match n with
  | O => match l with [] => Some [] | _ => None end
  | S k => match op7 c st l with
           | Some (Ok (st', o), rest) => match run_ops7 c k st' rest with Some os => Some (o ++ os) | None => None end
           | Some (Panic, _) => Some [W_PANIC]
           | None => None
           end
  end.

Definition run_world_case (l : list Z) : list Z :=
  match l with
  | ck :: sd :: nfree :: ndev :: r =>
      let c := {| chk := negb (ck =? 0); stdf := negb (sd =? 0) |} in
      match p_devs c (Z.to_nat ndev) (Z.to_nat nfree) r with
      | Some (Panic, _) => [W_PANIC]
      | Some (Ok (ds, nterm), n :: rest) =>
          match run_ops7 c (Z.to_nat n) (repeat term_new nterm, ds) rest with Some o => o | None => [W_BAD] end
      | _ => [W_BAD]
      end
  | _ => [W_BAD]
  end.
