(* Settable bookkeeping, following, ConstantGetter, GetterFromHistory (src/lib.rs:232-470). *)
From Coq Require Import ZArith Bool List.
From RRTK Require Import Num.Num Model.Values Model.Combinators Model.Streams.
Import ListNotations.
Local Open Scope Z_scope.

Section Settable.
Context {S : Type}.

(* a settable whose impl_set succeeds or fails as scripted, recording what it receives *)
Record sett := { st_last : option S; st_following : bool; st_received : list S; st_fail : option err }.
Definition sett_init : sett := {| st_last := None; st_following := false; st_received := []; st_fail := None |}.
(* Settable::set : impl_set(value.clone())? ; last_request = Some(value) *)
Definition sett_set (s : sett) (v : S) : sett * upd :=
  match st_fail s with
  | Some e => (s, UErr e)
  | None => ({| st_last := Some v; st_following := st_following s; st_received := st_received s ++ [v]; st_fail := None |}, UOk)
  end.
Definition sett_follow (s : sett) : sett :=
  {| st_last := st_last s; st_following := true; st_received := st_received s; st_fail := st_fail s |}.
Definition sett_stop (s : sett) : sett :=
  {| st_last := st_last s; st_following := false; st_received := st_received s; st_fail := st_fail s |}.
Definition sett_set_fail (s : sett) (f : option err) : sett :=
  {| st_last := st_last s; st_following := st_following s; st_received := st_received s; st_fail := f |}.
(* update_following_data with the followed getter currently returning [g] *)
Definition sett_update (s : sett) (g : out S) : sett * upd :=
  if st_following s then
    match g with
    | OErr e => (s, UErr e)
    | ONone => (s, UOk)
    | OSome d => sett_set s (d_val d)
    end
  else (s, UOk).
End Settable.

(* ConstantGetter: a settable whose impl_set stores the value and never fails *)
Section CG.
Context {T : Type}.
Record cgetter := { cg_val : T; cg_last : option T; cg_following : bool }.
Definition cg_set (s : cgetter) (v : T) : cgetter := {| cg_val := v; cg_last := Some v; cg_following := cg_following s |}.
Definition cg_update (s : cgetter) (g : out T) : cgetter * upd :=
  if cg_following s then
    match g with
    | OErr e => (s, UErr e)
    | ONone => (s, UOk)
    | OSome d => (cg_set s (d_val d), UOk)
    end
  else (s, UOk).
Definition cg_get (s : cgetter) (now : tout) : out T := constant_getter now (cg_val s).
End CG.

(* GetterFromHistory over a history function h *)
Section GFH.
Context {G : Type}.
Variable h : Z -> option (datum G).
Definition gfh_get (delta : Z) (now : tout) : res (out G) :=
  match now with
  | TErr e => Ok (OErr e)
  | TOk t => let! q := iadd t delta in
             Ok (match h q with Some d => OSome (mkDatum t (d_val d)) | None => ONone end)
  end.
(* constructors: result = new delta, or the time getter's error *)
Definition gfh_no_delta : Z := 0.
Definition gfh_start_at_zero (now : tout) : res (err + Z) :=
  match now with TErr e => Ok (inl e) | TOk t => let! d := ineg t in Ok (inr d) end.
Definition gfh_custom_start (now : tout) (start : Z) : res (err + Z) :=
  match now with TErr e => Ok (inl e) | TOk t => let! d := isub start t in Ok (inr d) end.
(* set_time: delta unchanged when the time getter errors *)
Definition gfh_set_time (delta : Z) (now : tout) (time : Z) : res (Z * upd) :=
  match now with TErr e => Ok (delta, UErr e) | TOk t => let! d := isub time t in Ok (d, UOk) end.
End GFH.

(* the test history used by the harness: absent when t is a multiple of 5, else value t stamped t/2 *)
Definition test_history (t : Z) : option (datum Z) :=
  if Z.rem t 5 =? 0 then None else Some (mkDatum (Z.quot t 2) t).
