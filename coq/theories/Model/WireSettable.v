(* kind 5: operation sequences over one settable recorder, one followed getter, one clock, one
   ConstantGetter and one GetterFromHistory (payload i64). *)
From Coq Require Import ZArith Bool List.
From RRTK Require Import Num.Num Num.B32 Model.Values Model.Wire Model.Combinators Model.Streams Model.WireStreams Model.Settable.
Import ListNotations.
Local Open Scope Z_scope.

Record world5 := { w_r : @sett Z; w_g : out Z; w_clock : tout; w_cg : @cgetter Z; w_delta : option Z }.
Definition w5_init : world5 :=
  {| w_r := sett_init; w_g := ONone; w_clock := TOk 0; w_cg := {| cg_val := 0; cg_last := None; cg_following := false |}; w_delta := None |}.
Definition e_z (z : Z) : list Z := [z].
Definition p_zv : P Z := pz.
Definition e_optz (o : option Z) : list Z := match o with Some v => [1; v] | None => [0] end.
Definition e_rec (s : @sett Z) : list Z :=
  e_optz (st_last s) ++ [Z.of_nat (length (st_received s)); last (st_received s) 0].

Definition set_r (w : world5) r := {| w_r := r; w_g := w_g w; w_clock := w_clock w; w_cg := w_cg w; w_delta := w_delta w |}.
Definition set_cg (w : world5) x := {| w_r := w_r w; w_g := w_g w; w_clock := w_clock w; w_cg := x; w_delta := w_delta w |}.
Definition set_delta (w : world5) d := {| w_r := w_r w; w_g := w_g w; w_clock := w_clock w; w_cg := w_cg w; w_delta := d |}.

(* one operation: new world and its output, or a panic *)
Definition op5 (w : world5) : P (res (world5 * list Z)) :=
  do op <- pz;
  if op =? 1 then
    do v <- pz; let '(r, u) := sett_set (w_r w) v in pret (Ok (set_r w r, e_upd u ++ e_rec r))
  else if op =? 2 then pret (Ok (set_r w (sett_follow (w_r w)), [0]))
  else if op =? 3 then pret (Ok (set_r w (sett_stop (w_r w)), [0]))
  else if op =? 4 then
    let '(r, u) := sett_update (w_r w) (w_g w) in pret (Ok (set_r w r, e_upd u ++ e_rec r))
  else if op =? 5 then
    do g <- p_out p_zv;
    pret (Ok ({| w_r := w_r w; w_g := g; w_clock := w_clock w; w_cg := w_cg w; w_delta := w_delta w |}, [0]))
  else if op =? 6 then
    do t <- p_tout;
    pret (Ok ({| w_r := w_r w; w_g := w_g w; w_clock := t; w_cg := w_cg w; w_delta := w_delta w |}, [0]))
  else if op =? 7 then
    do variant <- pz; do arg <- pz;
    if variant =? 0 then pret (Ok (set_delta w (Some 0), [0]))
    else if variant =? 3 then pret (Ok (set_delta w (Some arg), [0]))
    else
      let r := if variant =? 1 then gfh_start_at_zero (w_clock w) else gfh_custom_start (w_clock w) arg in
      pret (match r with
            | Panic => Panic
            | Ok (inl e) => Ok (set_delta w None, [1; enc_err e])
            | Ok (inr d) => Ok (set_delta w (Some d), [0])
            end)
  else if op =? 8 then
    do d <- pz;
    pret (match w_delta w with Some _ => Ok (set_delta w (Some d), [0]) | None => Ok (w, [W_BAD]) end)
  else if op =? 9 then
    do t <- pz;
    pret (match w_delta w with
          | Some d0 => match gfh_set_time d0 (w_clock w) t with
                       | Panic => Panic
                       | Ok (d, u) => Ok (set_delta w (Some d), e_upd u)
                       end
          | None => Ok (w, [W_BAD]) end)
  else if op =? 10 then
    pret (match w_delta w with
          | Some d0 => match gfh_get test_history d0 (w_clock w) with
                       | Panic => Panic
                       | Ok o => Ok (w, e_out e_z o)
                       end
          | None => Ok (w, [W_BAD]) end)
  else if op =? 11 then pret (Ok (w, match w_delta w with Some _ => [0] | None => [W_BAD] end))
  else if op =? 12 then pret (Ok (w, e_out e_z (cg_get (w_cg w) (w_clock w)) ++ e_optz (cg_last (w_cg w))))
  else if op =? 13 then do v <- pz; pret (Ok (set_cg w (cg_set (w_cg w) v), [0]))
  else if op =? 14 then
    pret (Ok (set_cg w {| cg_val := cg_val (w_cg w); cg_last := cg_last (w_cg w); cg_following := true |}, [0]))
  else if op =? 15 then
    pret (Ok (set_cg w {| cg_val := cg_val (w_cg w); cg_last := cg_last (w_cg w); cg_following := false |}, [0]))
  else if op =? 16 then
    let '(x, u) := cg_update (w_cg w) (w_g w) in pret (Ok (set_cg w x, e_upd u))
  else if op =? 17 then pret (Ok (w, e_tout (time_getter_from_getter (w_g w))))
  else if op =? 18 then
    do e <- pz;
    pret (Ok (set_r w (sett_set_fail (w_r w) (if e =? 0 then None else Some (dec_err e))), [0]))
  else fun _ => None.

Fixpoint run_ops5 (n : nat) (w : world5) (l : list Z) : option (list Z) :=
  match n with
  | O => match l with [] => Some [] | _ => None end
  | S k => match op5 w l with
           | Some (Ok (w', o), rest) => match run_ops5 k w' rest with Some os => Some (o ++ os) | None => None end
           | Some (Panic, _) => Some [W_PANIC]
           | None => None
           end
  end.
Definition run_sett_case (l : list Z) : list Z :=
  match l with
  | _ :: _ :: n :: r => match run_ops5 (Z.to_nat n) w5_init r with Some o => o | None => [W_BAD] end
  | _ => [W_BAD]
  end.
