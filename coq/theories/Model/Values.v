(* Value layer of rrtk: units, quantities, Time, DimensionlessInteger, State, Command, Datum.
   Hand-written from src/dimensions.rs, src/state.rs, src/command.rs, src/datum.rs, src/lib.rs:84-198,725-731,
   function for function, same operand order and association.  Definitions only. *)
From Coq Require Import ZArith Bool List.
From RRTK Require Import Num.Num.
Import ListNotations.
Local Open Scope Z_scope.

(* ---------- outcomes ---------- *)
Inductive res (A : Type) : Type := Ok (a : A) | Panic.
Arguments Ok {A} a.
Arguments Panic {A}.
Definition bind {A B} (r : res A) (f : A -> res B) : res B :=
  match r with Ok a => f a | Panic => Panic end.
Notation "'let!' x ':=' r 'in' k" := (bind r (fun x => k)) (at level 200, x pattern, r at level 100, k at level 200).

(* configuration: is dimension checking compiled in; is the std feature on *)
Record cfg := { chk : bool; stdf : bool }.

Definition in_i64 (z : Z) : bool := (-9223372036854775808 <=? z) && (z <=? 9223372036854775807).
(* i64 arithmetic of a debug build: overflow panics *)
Definition i64_ck (z : Z) : res Z := if in_i64 z then Ok z else Panic.
Definition iadd a b := i64_ck (a + b).
Definition isub a b := i64_ck (a - b).
Definition imul a b := i64_ck (a * b).
Definition ineg a := i64_ck (- a).
Definition idiv a b := if b =? 0 then Panic else i64_ck (Z.quot a b).

(* ---------- units ---------- *)
Record unit_ := { mm : Z; sec : Z }.
Definition ueqb (u v : unit_) : bool := (mm u =? mm v) && (sec u =? sec v).

Section WithCfg.
Context {F : Type} {NF : Num F}.
Variable c : cfg.

(* Unit::new : with checking off the struct has no fields *)
Definition unew (a b : Z) : unit_ := if chk c then {| mm := a; sec := b |} else {| mm := 0; sec := 0 |}.
Definition U_DIMLESS := unew 0 0.
Definition U_SECOND := unew 0 1.
Definition U_MM := unew 1 0.
Definition U_MM_S := unew 1 (-1).
Definition U_MM_S2 := unew 1 (-2).

Definition eq_assume_true (u v : unit_) : bool := if chk c then ueqb u v else true.
Definition eq_assume_false (u v : unit_) : bool := if chk c then ueqb u v else false.
Definition assert_ok (u v : unit_) : res unit := if eq_assume_true u v then Ok tt else Panic.
Definition assert_not_ok (u v : unit_) : res unit := if eq_assume_false u v then Ok tt else Panic.

Definition uadd (u v : unit_) : res unit_ := let! _ := assert_ok u v in Ok u.
Definition usub (u v : unit_) : res unit_ := let! _ := assert_ok u v in Ok u.
Definition umul (u v : unit_) : unit_ := unew (mm u + mm v) (sec u + sec v).
Definition udiv (u v : unit_) : unit_ := unew (mm u - mm v) (sec u - sec v).
Definition uneg (u : unit_) : unit_ := u.

(* ---------- position derivatives, pieces ---------- *)
Inductive pd := Position | Velocity | Acceleration.
Inductive piece := BeforeStart | InitialAcceleration | ConstantVelocity | EndAcceleration | Complete.
Definition pd_eqb (a b : pd) : bool :=
  match a, b with Position, Position | Velocity, Velocity | Acceleration, Acceleration => true | _, _ => false end.
Definition unit_of_pd (p : pd) : unit_ :=
  unew 1 (match p with Position => 0 | Velocity => -1 | Acceleration => -2 end).
(* TryFrom<Unit> for PositionDerivative exists only with checking on *)
Definition pd_of_unit (u : unit_) : option pd :=
  if ueqb u (unew 1 0) then Some Position
  else if ueqb u (unew 1 (-1)) then Some Velocity
  else if ueqb u (unew 1 (-2)) then Some Acceleration else None.
Definition pd_of_piece (p : piece) : option pd :=
  match p with
  | BeforeStart | Complete => None
  | InitialAcceleration | EndAcceleration => Some Acceleration
  | ConstantVelocity => Some Velocity
  end.
Definition unit_of_piece (p : piece) : option unit_ :=
  match pd_of_piece p with Some d => Some (unit_of_pd d) | None => None end.

(* ---------- quantities ---------- *)
Record quantity := { qv : F; qu : unit_ }.
Definition qnew (v : F) (u : unit_) : quantity := {| qv := v; qu := u |}.
Definition qdimless (v : F) : quantity := qnew v U_DIMLESS.
(* both cfg bodies clear the sign bit (std: f32::abs; no_std: from_bits(to_bits & 0x7FFF_FFFF)) *)
Definition qabs (q : quantity) : quantity :=
  let _ := c in     (* keeps the configuration argument of the function although no body depends on it any more *)
  qnew (fabs_std (qv q)) (qu q).
(* the no_std body before the repair: if v >= 0.0 { v } else { -v } *)
Definition qabs_old_nostd (q : quantity) : quantity := qnew (fabs_nostd (qv q)) (qu q).
Definition qadd (a b : quantity) : res quantity :=
  let! u := uadd (qu a) (qu b) in Ok (qnew (fadd (qv a) (qv b)) u).
Definition qsub (a b : quantity) : res quantity :=
  let! u := usub (qu a) (qu b) in Ok (qnew (fsub (qv a) (qv b)) u).
Definition qmul (a b : quantity) : quantity := qnew (fmul (qv a) (qv b)) (umul (qu a) (qu b)).
Definition qdiv (a b : quantity) : quantity := qnew (fdiv (qv a) (qv b)) (udiv (qu a) (qu b)).
Definition qneg (a : quantity) : quantity := qnew (fneg (qv a)) (qu a).
(* derived PartialEq with checking on; hand-written one with checking off *)
Definition qeqb (a b : quantity) : bool :=
  if chk c then feqb (qv a) (qv b) && ueqb (qu a) (qu b)
  else if eq_assume_true (qu a) (qu b) then feqb (qv a) (qv b) else false.
(* f32::partial_cmp *)
Definition fpcmp (a b : F) : option comparison :=
  if fltb a b then Some Lt else if feqb a b then Some Eq else if fltb b a then Some Gt else None.
Definition qpcmp (a b : quantity) : res (option comparison) :=
  let! _ := assert_ok (qu a) (qu b) in Ok (fpcmp (qv a) (qv b)).

(* ---------- Time and DimensionlessInteger (both i64) ---------- *)
Definition q_of_time (t : Z) : quantity := qnew (fdiv (f_of_Z t) f1e9) U_SECOND.
Definition q_of_dint (d : Z) : quantity := qnew (f_of_Z d) U_DIMLESS.
Definition time_of_q (q : quantity) : option Z :=
  if eq_assume_true (qu q) U_SECOND then Some (f_to_i64 (fmul (qv q) f1e9)) else None.
Definition dint_of_q (q : quantity) : option Z :=
  if eq_assume_true (qu q) U_DIMLESS then Some (f_to_i64 (qv q)) else None.

(* Time x Time, Time x DimensionlessInteger, ... *)
Definition t_mul_t (a b : Z) : quantity := qmul (q_of_time a) (q_of_time b).
Definition t_div_t (a b : Z) : quantity := qdiv (q_of_time a) (q_of_time b).
Definition t_add_q (t : Z) (q : quantity) := qadd (q_of_time t) q.
Definition t_sub_q (t : Z) (q : quantity) := qsub (q_of_time t) q.
Definition q_mul_t (q : quantity) (t : Z) := qmul q (q_of_time t).
Definition q_div_t (q : quantity) (t : Z) := qdiv q (q_of_time t).
Definition t_mul_q (t : Z) (q : quantity) := q_mul_t q t.            (* rhs * self *)
Definition t_div_q (t : Z) (q : quantity) := qdiv (q_of_time t) q.
Definition q_add_t (q : quantity) (t : Z) := qadd q (q_of_time t).
Definition q_sub_t (q : quantity) (t : Z) := qsub q (q_of_time t).
Definition d_div_t (d t : Z) : quantity := qdiv (q_of_dint d) (q_of_time t).
Definition d_add_q (d : Z) (q : quantity) := qadd (q_of_dint d) q.
Definition d_sub_q (d : Z) (q : quantity) := qsub (q_of_dint d) q.
Definition q_mul_d (q : quantity) (d : Z) := qmul q (q_of_dint d).
Definition q_div_d (q : quantity) (d : Z) := qdiv q (q_of_dint d).
Definition d_mul_q (d : Z) (q : quantity) := q_mul_d q d.            (* rhs * self *)
Definition d_div_q (d : Z) (q : quantity) := qdiv (q_of_dint d) q.
Definition q_add_d (q : quantity) (d : Z) := qadd q (q_of_dint d).
Definition q_sub_d (q : quantity) (d : Z) := qsub q (q_of_dint d).

(* ---------- State ---------- *)
Record state := { s_pos : F; s_vel : F; s_acc : F }.
Definition snew_raw (p v a : F) : state := {| s_pos := p; s_vel := v; s_acc := a |}.
Definition snew (p v a : quantity) : res state :=
  let! _ := assert_ok (qu p) U_MM in
  let! _ := assert_ok (qu v) U_MM_S in
  let! _ := assert_ok (qu a) U_MM_S2 in
  Ok (snew_raw (qv p) (qv v) (qv a)).
Definition s_get_pos (s : state) := qnew (s_pos s) U_MM.
Definition s_get_vel (s : state) := qnew (s_vel s) U_MM_S.
Definition s_get_acc (s : state) := qnew (s_acc s) U_MM_S2.
Definition s_get_value (s : state) (d : pd) : quantity :=
  match d with Position => s_get_pos s | Velocity => s_get_vel s | Acceleration => s_get_acc s end.
Definition s_update (s : state) (dt : Z) : res state :=
  let dtq := q_of_time dt in
  let old_acc := s_get_acc s in
  let old_vel := s_get_vel s in
  let old_pos := s_get_pos s in
  let! new_vel := qadd old_vel (qmul dtq old_acc) in
  let! vsum := qadd old_vel new_vel in
  let! new_pos := qadd old_pos (qdiv (qmul dtq vsum) (qdimless ftwo)) in
  Ok {| s_pos := qv new_pos; s_vel := qv new_vel; s_acc := s_acc s |}.
(* setters: new state and whether the setter returned Ok *)
Definition s_set_acc (s : state) (q : quantity) : state * bool :=
  if eq_assume_true (qu q) U_MM_S2 then ({| s_pos := s_pos s; s_vel := s_vel s; s_acc := qv q |}, true) else (s, false).
Definition s_set_vel (s : state) (q : quantity) : state * bool :=
  if eq_assume_true (qu q) U_MM_S then ({| s_pos := s_pos s; s_vel := qv q; s_acc := fzero |}, true) else (s, false).
Definition s_set_pos (s : state) (q : quantity) : state * bool :=
  if eq_assume_true (qu q) U_MM then ({| s_pos := qv q; s_vel := fzero; s_acc := fzero |}, true) else (s, false).
Definition s_set_acc_raw (s : state) (a : F) : state := {| s_pos := s_pos s; s_vel := s_vel s; s_acc := a |}.
Definition s_set_vel_raw (s : state) (v : F) : state := {| s_pos := s_pos s; s_vel := v; s_acc := fzero |}.
Definition s_set_pos_raw (s : state) (p : F) : state := {| s_pos := p; s_vel := fzero; s_acc := fzero |}.
Definition s_neg (s : state) := snew_raw (fneg (s_pos s)) (fneg (s_vel s)) (fneg (s_acc s)).
Definition s_add (a b : state) := snew_raw (fadd (s_pos a) (s_pos b)) (fadd (s_vel a) (s_vel b)) (fadd (s_acc a) (s_acc b)).
Definition s_sub (a b : state) := snew_raw (fsub (s_pos a) (s_pos b)) (fsub (s_vel a) (s_vel b)) (fsub (s_acc a) (s_acc b)).
Definition s_mulf (a : state) (k : F) := snew_raw (fmul (s_pos a) k) (fmul (s_vel a) k) (fmul (s_acc a) k).
Definition s_divf (a : state) (k : F) := snew_raw (fdiv (s_pos a) k) (fdiv (s_vel a) k) (fdiv (s_acc a) k).
Definition s_eqb (a b : state) : bool :=
  feqb (s_pos a) (s_pos b) && feqb (s_vel a) (s_vel b) && feqb (s_acc a) (s_acc b).

(* ---------- Command ---------- *)
Record command := { c_kind : pd; c_val : F }.
Definition cnew (k : pd) (v : F) : command := {| c_kind := k; c_val := v |}.
Definition c_get_pos (x : command) : option quantity :=
  match c_kind x with Position => Some (qnew (c_val x) U_MM) | _ => None end.
Definition c_get_vel (x : command) : option quantity :=
  match c_kind x with
  | Position => Some (qnew fzero U_MM_S)
  | Velocity => Some (qnew (c_val x) U_MM_S)
  | Acceleration => None
  end.
Definition c_get_acc (x : command) : quantity :=
  qnew (match c_kind x with Acceleration => c_val x | _ => fzero end) U_MM_S2.
Definition c_of_state (s : state) : command :=
  if feqb (s_acc s) fzero then
    if feqb (s_vel s) fzero then cnew Position (s_pos s) else cnew Velocity (s_vel s)
  else cnew Acceleration (s_acc s).
Definition q_of_command (x : command) : quantity := qnew (c_val x) (unit_of_pd (c_kind x)).
(* TryFrom<Quantity> for Command exists only with checking on *)
Definition c_of_q (q : quantity) : option command :=
  match pd_of_unit (qu q) with Some k => Some (cnew k (qv q)) | None => None end.
Definition c_add (a b : command) : res command :=
  if pd_eqb (c_kind a) (c_kind b) then Ok (cnew (c_kind a) (fadd (c_val a) (c_val b))) else Panic.
Definition c_sub (a b : command) : res command :=
  if pd_eqb (c_kind a) (c_kind b) then Ok (cnew (c_kind a) (fsub (c_val a) (c_val b))) else Panic.
Definition c_mulf (a : command) (k : F) := cnew (c_kind a) (fmul (c_val a) k).
Definition c_divf (a : command) (k : F) := cnew (c_kind a) (fdiv (c_val a) k).
Definition c_neg (a : command) := cnew (c_kind a) (fneg (c_val a)).
Definition c_eqb (a b : command) : bool := pd_eqb (c_kind a) (c_kind b) && feqb (c_val a) (c_val b).

(* ---------- PID coefficients ---------- *)
Record kvals := { kp : F; ki : F; kd : F }.
Definition k_eval (k : kvals) (e i d : F) : F :=
  fadd (fadd (fmul (kp k) e) (fmul (ki k) i)) (fmul (kd k) d).
Record pdkvals := { k_pos : kvals; k_vel : kvals; k_acc : kvals }.
Definition pdk_get (k : pdkvals) (d : pd) : kvals :=
  match d with Position => k_pos k | Velocity => k_vel k | Acceleration => k_acc k end.
Definition pdk_eval (k : pdkvals) (d : pd) (e i dd : F) : F := k_eval (pdk_get k d) e i dd.

End WithCfg.

(* ---------- Datum ---------- *)
Record datum (T : Type) := mkDatum { d_time : Z; d_val : T }.
Arguments mkDatum {T} _ _.
Arguments d_time {T} _.
Arguments d_val {T} _.

(* the rule written out in every binary Datum impl: if self.time >= other.time { self.time } else { other.time } *)
Definition tmax_ge (a b : Z) : Z := if a >=? b then a else b.
(* the rule written in Difference/Quotient/ExponentStream: if a > b { a } else { b } *)
Definition tmax_gt (a b : Z) : Z := if a >? b then a else b.

Definition dat_map {A B} (f : A -> B) (d : datum A) : datum B := mkDatum (d_time d) (f (d_val d)).
Definition dat_bin {A B C} (f : A -> B -> C) (x : datum A) (y : datum B) : datum C :=
  mkDatum (tmax_ge (d_time x) (d_time y)) (f (d_val x) (d_val y)).
Definition dat_bin_res {A B C} (f : A -> B -> res C) (x : datum A) (y : datum B) : res (datum C) :=
  let! v := f (d_val x) (d_val y) in Ok (mkDatum (tmax_ge (d_time x) (d_time y)) v).
Definition dat_scal {A B C} (f : A -> B -> C) (x : datum A) (y : B) : datum C :=
  mkDatum (d_time x) (f (d_val x) y).
Definition dat_scal_res {A B C} (f : A -> B -> res C) (x : datum A) (y : B) : res (datum C) :=
  let! v := f (d_val x) y in Ok (mkDatum (d_time x) v).

Definition replace_if_older_than {T} (self cand : datum T) : datum T * bool :=
  if d_time cand >? d_time self then (cand, true) else (self, false).
Definition replace_if_none_or_older_than {T} (self : option (datum T)) (cand : datum T)
  : option (datum T) * bool :=
  match self with
  | Some s => if d_time s >=? d_time cand then (self, false) else (Some cand, true)
  | None => (Some cand, true)
  end.
Definition replace_if_none_or_older_than_option {T} (self cand : option (datum T))
  : option (datum T) * bool :=
  match cand with
  | Some x => replace_if_none_or_older_than self x
  | None => (self, false)
  end.
Definition latest {T} (a b : datum T) : datum T := if d_time a >=? d_time b then a else b.

(* ---------- errors and stream outputs ---------- *)
Inductive err := FromNone | Other (e : Z).
Inductive out (T : Type) := OErr (e : err) | ONone | OSome (d : datum T).
Arguments OErr {T} e.
Arguments ONone {T}.
Arguments OSome {T} d.
