(* A small language for the two pieces of src/lib.rs that link terminals: `Terminal::disconnect` and `connect`.
   Terminals live in `RefCell`s; the only effects are mutable borrows (`borrow_mut()` panics when the cell is already
   mutably borrowed), reads and writes of the `other` link through a guard.  tools/gen_ref.py translates the two bodies
   into this language on every run; coq/gen_theorems/C09Connect.v proves them equal to `World.disconnect` / `World.connect`. *)
From Coq Require Import ZArith Bool List String.
From RRTK Require Import Num.Num Model.Values Model.World.
Import ListNotations.
Local Open Scope string_scope.

Inductive rstmt :=
| RCallTmp (cell : string) (callee : list rstmt)     (* x.borrow_mut().f(); : a borrow that lives for this statement; f's body runs with `self` = the guard *)
| RCallOn (g : string) (callee : list rstmt)          (* g.f(); on a guard that is already held: f's body runs with `self` = that guard *)
| RLetBorrow (g cell : string)                         (* let mut g = x.borrow_mut(); : held until the end of the enclosing block *)
| RSetOther (g : string) (v : option string)           (* g.other = None;  /  g.other = Some(x); *)
| RMatchOther (g x : string) (some_b none_b : list rstmt).   (* match g.other { Some(x) => { .. }  None => { .. } } *)

Section RefLang.
Context {F : Type} {NF : Num F}.
Notation world := (@world F).

Definition renv := list (string * nat).            (* cell references and guards: the cell they denote *)
Fixpoint rlook (x : string) (en : renv) : option nat :=
  match en with [] => None | (y, i) :: r => if String.eqb x y then Some i else rlook x r end.
Definition borrowed (b : list nat) (i : nat) : bool := existsb (Nat.eqb i) b.
Fixpoint release (b : list nat) (i : nat) : list nat :=
  match b with [] => [] | j :: r => if Nat.eqb i j then r else j :: release r i end.

(* outcome: None = ill-formed program (unbound name, out of fuel); Some Panic = a BorrowMutError; Some (Ok ..) *)
Definition rres := option (res (world * list nat)).

(* a block: [held] are the guards acquired in this block so far (released, newest first, when the block ends) *)
Fixpoint rblock (fuel : nat) (ss : list rstmt) (en : renv) (held : list nat) (w : world) (b : list nat) {struct fuel} : rres :=
  match fuel with
  | O => None
  | S k =>
      match ss with
      | [] => Some (Ok (w, fold_left release held b))
      | RLetBorrow g x :: rest =>
          match rlook x en with
          | Some i => if borrowed b i then Some Panic else rblock k rest ((g, i) :: en) (i :: held) w (i :: b)
          | None => None
          end
      | RSetOther g v :: rest =>
          match rlook g en with
          | Some i =>
              match v with
              | None => rblock k rest en held (set_other w i None) b
              | Some y => match rlook y en with Some j => rblock k rest en held (set_other w i (Some j)) b | None => None end
              end
          | None => None
          end
      | RMatchOther g x sb nb :: rest =>
          match rlook g en with
          | Some i =>
              match (match t_other (wget w i) with
                     | Some j => rblock k sb ((x, j) :: en) [] w b
                     | None => rblock k nb en [] w b
                     end) with
              | Some (Ok (w', b')) => rblock k rest en held w' b'
              | r => r
              end
          | None => None
          end
      | RCallOn g body :: rest =>
          match rlook g en with
          | Some i =>
              match rblock k body [("self", i)] [] w b with
              | Some (Ok (w', b')) => rblock k rest en held w' b'
              | r => r
              end
          | None => None
          end
      | RCallTmp x body :: rest =>
          match rlook x en with
          | Some i =>
              if borrowed b i then Some Panic
              else match rblock k body [("self", i)] [] w (i :: b) with
                   | Some (Ok (w', b')) => rblock k rest en held w' (release b' i)
                   | r => r
                   end
          | None => None
          end
      end
  end.

(* a function body run on cell arguments, nothing borrowed at the start *)
Definition rrun (body : list rstmt) (args : renv) (w : world) : option (res world) :=
  match rblock 64 body args [] w [] with
  | Some (Ok (w', [])) => Some (Ok w')
  | Some (Ok (_, _ :: _)) => None          (* a guard outlived the body: never for a translated body *)
  | Some Panic => Some Panic
  | None => None
  end.
End RefLang.
