(* Dispatcher: one case = list of integers, first the kind. *)
From Coq Require Import ZArith List.
From RRTK Require Import Num.Num Num.B32 Model.Values Model.Prog Model.Wire Model.WireStreams Model.WireSettable Model.WireMP Model.WireWorld Model.WireRef.
Import ListNotations.
Local Open Scope Z_scope.
From Coq Require Import Bool.

Definition run_case (l : list Z) : list Z :=
  match l with
  | 1 :: r => run_prog_case r
  | 3 :: r => run_comb_case r
  | 4 :: r => run_strm_case r
  | 5 :: r => run_sett_case r
  | 6 :: r => run_mp_case r
  | 7 :: r => run_world_case r
  | 9 :: r => run_ref_case r
  | [10; v; t; k] => [Z.max 0 t * Z.max 0 k]     (* threads x increments: no update is lost *)
  | [8; n; i] => if (0 <=? i) && (i <? n) then [0] else [W_PANIC]   (* Axle::get_terminal: index out of range panics *)
  | _ => [W_BAD]
  end.
