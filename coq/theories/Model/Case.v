(* Dispatcher: one case = list of integers, first the kind. *)
From Coq Require Import ZArith List.
From RRTK Require Import Num.Num Num.B32 Model.Values Model.Prog Model.Wire.
Import ListNotations.
Local Open Scope Z_scope.

Definition run_case (l : list Z) : list Z :=
  match l with
  | 1 :: r => run_prog_case r
  | _ => [W_BAD]
  end.
