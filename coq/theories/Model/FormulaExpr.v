(* Results of functions translated from the source by tools/gen_formulas.py: an Option<Quantity>-returning
   accessor yields None, Some(program) or a program that itself returns an option; [interp] runs the program
   with the interpreter of Model/Prog.v.  None = the translated program is ill-typed (never, for the current source). *)
From Coq Require Import ZArith Bool List.
From RRTK Require Import Num.Num Model.Values Model.Prog.
Import ListNotations.

Section FormulaExpr.
Context {F : Type} {NF : Num F}.
Variable c : cfg.
Inductive gres := GNone | GSome (e : @expr F) | GOpt (e : @expr F).
Definition interp (g : gres) : option (res (option (@quantity F))) :=
  match g with
  | GNone => Some (Ok None)
  | GSome e => match run c e with RVal (VQ q) => Some (Ok (Some q)) | RPanic => Some Panic | _ => None end
  | GOpt e => match run c e with
              | RVal VNone => Some (Ok None) | RVal (VSome (VQ q)) => Some (Ok (Some q)) | RPanic => Some Panic | _ => None end
  end.
Definition interp_f (e : @expr F) : option (res F) :=
  match run c e with RVal (VF f) => Some (Ok f) | RPanic => Some Panic | _ => None end.

(* MotionProfile::new as a sequence of steps: every `let` is evaluated once, in source order (glet), asserts in between
   (gassert_ge0), then the fields of the struct literal in the order written; a field written
   `Time::try_from(e).expect(..)` panics when the conversion is refused (gt_expect) *)
Definition glet {A} (r : @rv F) (k : @val F -> option (res A)) : option (res A) :=
  match r with RVal v => k v | RPanic => Some Panic | RType => None end.
Definition gassert_ge0 {A} (r : @rv F) (k : option (res A)) : option (res A) :=
  match r with RVal (VF f) => if fgeb f fzero then k else Some Panic | RPanic => Some Panic | _ => None end.
Definition gq {A} (r : @rv F) (k : @quantity F -> option (res A)) : option (res A) :=
  match r with RVal (VQ q) => k q | RPanic => Some Panic | _ => None end.
Definition gc {A} (r : @rv F) (k : @command F -> option (res A)) : option (res A) :=
  match r with RVal (VC x) => k x | RPanic => Some Panic | _ => None end.
Definition gt_expect {A} (r : @rv F) (k : Z -> option (res A)) : option (res A) :=
  match r with RVal (VSome (VT t)) => k t | RVal VNone => Some Panic | RPanic => Some Panic | _ => None end.
End FormulaExpr.
