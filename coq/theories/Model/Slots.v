(* Slot-level model of the MaybeUninit scratch arrays (streams/math.rs:30-53,194-216, lib.rs:566-598,
   devices.rs:255-269): an array is a list of optional values, initially all unwritten; reading an
   unwritten slot is undefined behaviour, indexing past the end is a panic. *)
From Coq Require Import ZArith Bool List.
From RRTK Require Import Num.Num Model.Values Model.Combinators.
Import ListNotations.

Inductive ures (A : Type) := UOk (a : A) | UPanic | UUB.
Arguments UOk {A} a. Arguments UPanic {A}. Arguments UUB {A}.
Definition ubind {A B} (r : ures A) (f : A -> ures B) : ures B :=
  match r with UOk a => f a | UPanic => UPanic | UUB => UUB end.
Notation "'ulet' x ':=' r 'in' k" := (ubind r (fun x => k)) (at level 200, x pattern, r at level 100, k at level 200).

Section Slots.
Context {T : Type}.
Definition slots := list (option T).
Definition uninit (n : nat) : slots := repeat None n.
Fixpoint swrite (s : slots) (i : nat) (v : T) : ures slots :=
  match s, i with
  | [], _ => UPanic                                     (* index out of range *)
  | _ :: r, O => UOk (Some v :: r)
  | x :: r, S k => ulet r' := swrite r k v in UOk (x :: r')
  end.
Definition assume_init (s : slots) (i : nat) : ures T :=
  match nth_error s i with
  | Some (Some v) => UOk v
  | Some None => UUB                                    (* read of an unwritten slot *)
  | None => UPanic
  end.

(* SumStream / ProductStream :: get at slot level *)
Variable op : T -> T -> res T.
Fixpoint fill (ins : list (out (T))) (outs : list (option (datum T))) (filled : nat)
  : ures (err + (list (option (datum T)) * nat)) :=
  match ins with
  | [] => UOk (inr (outs, filled))
  | OErr e :: _ => UOk (inl e)
  | ONone :: r => fill r outs filled
  | OSome x :: r =>
      match (fix w (s : list (option (datum T))) (i : nat) : ures (list (option (datum T))) :=
               match s, i with
               | [], _ => UPanic
               | _ :: r, O => UOk (Some x :: r)
               | y :: r, S k => ulet r' := w r k in UOk (y :: r')
               end) outs filled with
      | UOk outs' => fill r outs' (S filled)
      | UPanic => UPanic
      | UUB => UUB
      end
  end.
Definition of_res {A} (r : res A) : ures A := match r with Ok a => UOk a | Panic => UPanic end.
Definition read_slot (s : list (option (datum T))) (i : nat) : ures (datum T) :=
  match nth_error s i with Some (Some v) => UOk v | Some None => UUB | None => UPanic end.
(* for i in 0..filled-1 { value op= other_outputs[i].assume_init() } *)
Fixpoint fold_slots (other : list (option (datum T))) (i n : nat) (acc : datum T) : ures (datum T) :=
  match n with
  | O => UOk acc
  | S k => ulet d := read_slot other i in
           ulet a := of_res (dat_op op acc d) in
           fold_slots other (S i) k a
  end.
Definition nary_slots (ins : list (out T)) : ures (out T) :=
  let n := length ins in
  ulet r := fill ins (repeat None n) 0 in
  match r with
  | inl e => UOk (OErr e)
  | inr (outs, filled) =>
      if Nat.eqb filled 0 then UOk ONone
      else match outs with                              (* split_at(1) *)
           | [] => UPanic
           | v0 :: other =>
               ulet first := read_slot [v0] 0 in
               ulet r := fold_slots other 0 (filled - 1) first in
               UOk (OSome r)
           end
  end.
End Slots.

(* Terminal state read: two slots *)
Section Term.
Context {St : Type}.
Variable mean : St -> St -> St.
Definition term_state_slots (own partner : option St) : ures (option St) :=
  let a0 : list (option St) := [None; None] in
  let '(a1, c1) := match own with Some s => (Some s :: tl a0, 1) | None => (a0, 0) end in
  let ra := match partner with
            | Some s => ulet a := swrite a1 c1 s in UOk (a, S c1)
            | None => UOk (a1, c1) end in
  ulet r := ra in
  let '(a2, c2) := r in
  match c2 with
  | 0 => UOk None
  | 1 => ulet x := assume_init a2 0 in UOk (Some x)
  | 2 => ulet x := assume_init a2 0 in ulet y := assume_init a2 1 in UOk (Some (mean x y))
  | _ => UPanic
  end.
End Term.

(* Axle::new : every slot is written before the array is read as a whole *)
Definition axle_new_slots (n : nat) : ures (list unit) :=
  let arr := fold_left (fun (a : ures (list (option unit)) * nat) _ =>
                          (ulet s := fst a in swrite s (snd a) tt, S (snd a)))
                       (repeat tt n) (UOk (repeat None n), 0) in
  ulet s := fst arr in
  (fix rd (l : list (option unit)) : ures (list unit) :=
     match l with
     | [] => UOk []
     | Some v :: r => ulet r' := rd r in UOk (v :: r')
     | None :: _ => UUB
     end) s.
