(* Trapezoidal motion profile (src/motion_profile.rs), constructor and the six accessors. *)
From Coq Require Import ZArith Bool List.
From RRTK Require Import Num.Num Model.Values.
Import ListNotations.
Local Open Scope Z_scope.

Section MP.
Context {F : Type} {NF : Num F}.
Variable c : cfg.
Notation quantity := (@quantity F).
Notation state := (@state F).
Notation command := (@command F).

Record mp := { mp_start_pos : quantity; mp_start_vel : quantity; mp_t1 : Z; mp_t2 : Z; mp_t3 : Z;
               mp_max_acc : quantity; mp_end : command }.

Definition assert_ge0 (q : quantity) : res unit := if fgeb (qv q) fzero then Ok tt else Panic.
Definition expect_time (q : quantity) : res Z := match time_of_q c q with Some t => Ok t | None => Panic end.

Definition mp_new (start_ end_ : state) (max_vel max_acc : quantity) : res mp :=
  let sign := qnew (if fltb (s_pos end_) (s_pos start_) then fneg fone else fone) (U_DIMLESS c) in
  let max_vel := qmul c (qabs c max_vel) sign in
  let max_acc := qmul c (qabs c max_acc) sign in
  let! d_t1_vel := qsub c max_vel (s_get_vel c start_) in
  let t1 := qdiv c d_t1_vel max_acc in
  let! _ := assert_ge0 t1 in
  let! sv := qadd c (s_get_vel c start_) max_vel in
  let d_t1_pos := qmul c (qdiv c sv (qdimless c ftwo)) t1 in
  let! d_t3_vel := qsub c (s_get_vel c end_) max_vel in
  let d_t3 := qdiv c d_t3_vel (qneg max_acc) in
  let! _ := assert_ge0 d_t3 in
  let! ev := qadd c max_vel (s_get_vel c end_) in
  let d_t3_pos := qmul c (qdiv c ev (qdimless c ftwo)) d_t3 in
  let! dp := qsub c (s_get_pos c end_) (s_get_pos c start_) in
  let! d13 := qadd c d_t1_pos d_t3_pos in
  let! d_t2_pos := qsub c dp d13 in
  let d_t2 := qdiv c d_t2_pos max_vel in
  let! _ := assert_ge0 d_t2 in
  let! t2 := qadd c t1 d_t2 in
  let! t3 := qadd c t2 d_t3 in
  let end_command := c_of_state end_ in
  let! t1i := expect_time t1 in
  let! t2i := expect_time t2 in
  let! t3i := expect_time t3 in
  Ok {| mp_start_pos := s_get_pos c start_; mp_start_vel := s_get_vel c start_;
        mp_t1 := t1i; mp_t2 := t2i; mp_t3 := t3i; mp_max_acc := max_acc; mp_end := end_command |}.

(* the if-chain shared by all accessors *)
Definition mp_piece (p : mp) (t : Z) : piece :=
  if t <? 0 then BeforeStart
  else if t <? mp_t1 p then InitialAcceleration
  else if t <? mp_t2 p then ConstantVelocity
  else if t <? mp_t3 p then EndAcceleration
  else Complete.
Definition mp_mode (p : mp) (t : Z) : option pd :=
  if t <? 0 then None
  else if t <? mp_t1 p then Some Acceleration
  else if t <? mp_t2 p then Some Velocity
  else if t <? mp_t3 p then Some Acceleration
  else Some (c_kind (mp_end p)).
Definition mp_acc (p : mp) (t : Z) : option quantity :=
  if t <? 0 then None
  else if t <? mp_t1 p then Some (mp_max_acc p)
  else if t <? mp_t2 p then Some (qnew fzero (U_MM_S2 c))
  else if t <? mp_t3 p then Some (qneg (mp_max_acc p))
  else Some (c_get_acc c (mp_end p)).
Definition mp_vel (p : mp) (t : Z) : res (option quantity) :=
  if t <? 0 then Ok None
  else if t <? mp_t1 p then
    let! v := qadd c (qmul c (mp_max_acc p) (q_of_time c t)) (mp_start_vel p) in Ok (Some v)
  else if t <? mp_t2 p then
    let! v := qadd c (qmul c (mp_max_acc p) (q_of_time c (mp_t1 p))) (mp_start_vel p) in Ok (Some v)
  else if t <? mp_t3 p then
    let! s12 := iadd (mp_t1 p) (mp_t2 p) in
    let! tz := isub s12 t in
    let! v := qadd c (qmul c (mp_max_acc p) (q_of_time c tz)) (mp_start_vel p) in Ok (Some v)
  else Ok (c_get_vel c (mp_end p)).
(* t1 * (-t1 / 2 + x) as a Quantity (Time * Time) *)
Definition t1_term (p : mp) (x : Z) : res quantity :=
  let! n := ineg (mp_t1 p) in
  let! h := idiv n 2 in
  let! y := iadd h x in
  Ok (t_mul_t c (mp_t1 p) y).
Definition mp_pos (p : mp) (t : Z) : res (option quantity) :=
  if t <? 0 then Ok None
  else if t <? mp_t1 p then
    let tq := q_of_time c t in
    let a := qmul c (qmul c (qmul c (qdimless c fhalf) (mp_max_acc p)) tq) tq in
    let! s1 := qadd c a (qmul c (mp_start_vel p) tq) in
    let! s2 := qadd c s1 (mp_start_pos p) in Ok (Some s2)
  else if t <? mp_t2 p then
    let! tm := t1_term p t in
    let! s1 := qadd c (qmul c (mp_max_acc p) tm) (qmul c (mp_start_vel p) (q_of_time c t)) in
    let! s2 := qadd c s1 (mp_start_pos p) in Ok (Some s2)
  else if t <? mp_t3 p then
    let! tm := t1_term p (mp_t2 p) in
    let a := qmul c (mp_max_acc p) tm in
    let! d1 := isub t (mp_t2 p) in
    let! tw := imul 2 (mp_t1 p) in
    let! d2a := isub t tw in
    let! d2 := isub d2a (mp_t2 p) in
    let b := qmul c (qmul c (qdimless c fhalf) (mp_max_acc p)) (t_mul_t c d1 d2) in
    let! s0 := qsub c a b in
    let! s1 := qadd c s0 (qmul c (mp_start_vel p) (q_of_time c t)) in
    let! s2 := qadd c s1 (mp_start_pos p) in Ok (Some s2)
  else Ok (c_get_pos c (mp_end p)).
(* History<Command>::get : the expects are panics *)
Definition mp_history (p : mp) (t : Z) : res (option (datum command)) :=
  match mp_mode p t with
  | None => Ok None
  | Some mode =>
      let! v := match mode with
                | Position => let! o := mp_pos p t in match o with Some q => Ok q | None => Panic end
                | Velocity => let! o := mp_vel p t in match o with Some q => Ok q | None => Panic end
                | Acceleration => match mp_acc p t with Some q => Ok q | None => Panic end
                end in
      Ok (Some (mkDatum t (cnew mode (qv v))))
  end.
End MP.
