(* Integral, derivative and to-state streams: after a run of present samples the state holds the
   trapezoid sums / difference quotients, as explicit recurrences over the run (newest first). *)
From Coq Require Import ZArith Bool List Lia.
From RRTK Require Import Num.Num Model.Values Model.Streams Proofs.ValuesProofs.
Import ListNotations.
Local Open Scope Z_scope.

Section Calc.
Context {F : Type} {NF : Num F}.
Variable sb : bool.
Notation c := (cfg_chk sb).
Notation quantity := (@quantity F).

Definition smp := (Z * F)%type.              (* (time, raw value) *)
Definition dtf (t tp : Z) : F := fdiv (f_of_Z (t - tp)) f1e9.
Definition half (a b dt : F) : F := fmul (fdiv (fadd a b) ftwo) dt.          (* (a + b) / 2 * dt *)
Definition trapz (a b dt : F) : F := fdiv (fmul dt (fadd a b)) ftwo.         (* dt * (a + b) / 2 *)

(* IntegralStream: first trapezoid alone, then  addend + previous  *)
Fixpoint Iv (l : list smp) : F :=
  match l with
  | (t, v) :: r =>
      match r with
      | (tp, vp) :: r' => match r' with
                          | [] => trapz vp v (dtf t tp)
                          | _ => fadd (trapz vp v (dtf t tp)) (Iv r)
                          end
      | [] => fzero
      end
  | [] => fzero
  end.
Definition Dv (l : list smp) : F :=
  match l with (t, v) :: (tp, vp) :: _ => fdiv (fsub v vp) (dtf t tp) | _ => fzero end.

Definition head_datum (u : unit_) (l : list smp) : option (datum quantity) :=
  match l with (t, v) :: _ => Some (mkDatum t (qnew v u)) | [] => None end.
Definition ustep (u : unit_) : unit_ := {| mm := mm u; sec := sec u + 1 |}.     (* unit * s *)
Definition uquot (u : unit_) : unit_ := {| mm := mm u; sec := sec u - 1 |}.     (* unit / s *)

Definition integ_inv (u : unit_) (l : list smp) (s : @dint F) : Prop :=
  di_prev s = head_datum u l /\
  match l with
  | [] => di_val s = ONone \/ exists e, di_val s = OErr e
  | [_] => di_val s = ONone
  | (t, _) :: _ => di_val s = OSome (mkDatum t (qnew (Iv l) (ustep u)))
  end.
Definition deriv_inv (u : unit_) (l : list smp) (s : @dint F) : Prop :=
  di_prev s = head_datum u l /\
  match l with
  | [] => di_val s = ONone \/ exists e, di_val s = OErr e
  | [_] => di_val s = ONone
  | (t, _) :: _ => di_val s = OSome (mkDatum t (qnew (Dv l) (uquot u)))
  end.

Lemma ovf_ok t tp : in_i64 (t - tp) = true -> isub t tp = Ok (t - tp).
Proof. unfold isub, i64_ck. intros ->. reflexivity. Qed.

Lemma unit_add_comm_1 u : {| mm := 0 + mm u - 0; sec := 1 + sec u - 0 |} = ustep u.
Proof. unfold ustep. f_equal; lia. Qed.

Lemma integ_sample_step u l s t v :
  integ_inv u l s ->
  (match l with (tp, _) :: _ => in_i64 (t - tp) = true | [] => True end) ->
  exists s', integ_step c s (OSome (mkDatum t (qnew v u))) = Ok (s', UOk) /\ integ_inv u ((t, v) :: l) s'.
Proof.
  intros [Hp Hv] Hov. unfold integ_step. rewrite Hp.
  destruct l as [|[tp vp] r]; cbn [head_datum].
  - eexists; split; [reflexivity|]. split; [reflexivity|]. cbn.
    destruct Hv as [->|[e ->]]; reflexivity.
  - unfold dt_q. cbn [d_time d_val]. rewrite (ovf_ok _ _ Hov). cbn [bind].
    unfold qadd at 1, uadd, assert_ok, eq_assume_true. cbn [chk cfg_chk qu qnew]. rewrite ueqb_refl. cbn [bind].
    destruct r as [|[tpp vpp] r'].
    + rewrite Hv. cbn [bind]. eexists; split; [reflexivity|]. split; [reflexivity|].
      cbn [di_val]. f_equal. f_equal. unfold qdiv, qmul, qnew, q_of_time, qdimless, U_SECOND, U_DIMLESS, umul, udiv.
      rewrite !unew_chk. cbn [qv qu mm sec]. unfold Iv, trapz, dtf. f_equal. apply unit_add_comm_1.
    + rewrite Hv. cbn [d_val bind].
      unfold qadd, uadd, assert_ok, eq_assume_true. cbn [chk cfg_chk].
      unfold qdiv, qmul, qnew, q_of_time, qdimless, U_SECOND, U_DIMLESS, umul, udiv.
      rewrite !unew_chk. cbn [qv qu mm sec].
      rewrite unit_add_comm_1.
      rewrite ueqb_refl. cbn [bind].
      eexists; split; [reflexivity|]. split; [reflexivity|]. reflexivity.
Qed.

Lemma deriv_sample_step u l s t v :
  deriv_inv u l s ->
  (match l with (tp, _) :: _ => in_i64 (t - tp) = true | [] => True end) ->
  exists s', deriv_step c s (OSome (mkDatum t (qnew v u))) = Ok (s', UOk) /\ deriv_inv u ((t, v) :: l) s'.
Proof.
  intros [Hp Hv] Hov. unfold deriv_step. rewrite Hp.
  destruct l as [|[tp vp] r]; cbn [head_datum].
  - eexists; split; [reflexivity|]. split; [reflexivity|]. cbn.
    destruct Hv as [->|[e ->]]; reflexivity.
  - unfold dt_q. cbn [d_time d_val]. rewrite (ovf_ok _ _ Hov). cbn [bind].
    unfold qsub, usub, assert_ok, eq_assume_true. cbn [chk cfg_chk qu qnew]. rewrite ueqb_refl. cbn [bind].
    eexists; split; [reflexivity|]. split; [reflexivity|].
    cbn [di_val]. f_equal. f_equal.
    unfold qdiv, q_of_time, U_SECOND, udiv. rewrite !unew_chk. cbn [qv qu qnew mm sec].
    unfold Dv, dtf. f_equal. unfold uquot. f_equal; lia.
Qed.

(* absent and error reset both streams (to ONone / the error); a reset state satisfies the invariant of the empty run *)
Lemma dint_reset_inv u (s : @dint F) (r : out quantity) s' up :
  (r = ONone \/ exists e, r = OErr e) ->
  (integ_step c s r = Ok (s', up) -> integ_inv u [] s') /\ (deriv_step c s r = Ok (s', up) -> deriv_inv u [] s').
Proof.
  intros [->|[e ->]]; split; cbn; intros [= <- <-]; split; try reflexivity; cbn; [left|left|right; exists e|right; exists e]; reflexivity.
Qed.
Lemma dint_init_inv u : integ_inv u [] (@dint_init F) /\ deriv_inv u [] (@dint_init F).
Proof. split; split; try reflexivity; left; reflexivity. Qed.

(* ---------------- to-state converters ---------------- *)
(* integrate once / twice with (a + b) / 2 * dt ;  new = old + addend *)
Fixpoint V1 (l : list smp) : F :=            (* velocity from accelerations; position from velocities *)
  match l with
  | (t, a) :: r =>
      match r with
      | (tp, ap) :: r' => match r' with
                          | [] => half ap a (dtf t tp)
                          | _ => fadd (V1 r) (half ap a (dtf t tp))
                          end
      | [] => fzero
      end
  | [] => fzero
  end.
Fixpoint P2 (l : list smp) : F :=            (* position from the velocity series V1 *)
  match l with
  | (t, a) :: r =>
      match r with
      | (tp, ap) :: r' =>
          match r' with
          | _ :: r'' => match r'' with
                        | [] => half (V1 r) (V1 l) (dtf t tp)
                        | _ => fadd (P2 r) (half (V1 r) (V1 l) (dtf t tp))
                        end
          | [] => fzero
          end
      | [] => fzero
      end
  | [] => fzero
  end.
(* differentiate once / twice *)
Definition D1 (l : list smp) : F := Dv l.
Definition D2 (l : list smp) : F :=
  match l with
  | (t, p) :: r => match r with
                   | (tp, pp) :: _ => fdiv (fsub (D1 l) (D1 r)) (dtf t tp)
                   | [] => fzero
                   end
  | [] => fzero
  end.

Definition UA := {| mm := 1; sec := -2 |}.
Definition UV := {| mm := 1; sec := -1 |}.
Definition UP := {| mm := 1; sec := 0 |}.

Definition a2s_inv (l : list smp) (s : @tstate F) : Prop :=
  match l with
  | [] => s = None
  | (t, a) :: r =>
      s = Some {| ts_time := t; ts_a := qnew a UA;
                  ts_u1 := match r with
                           | [] => None
                           | _ :: r' => Some {| ts_b := qnew (V1 l) UV;
                                                ts_c := match r' with [] => None | _ => Some (qnew (P2 l) UP) end |}
                           end |}
  end.
Lemma a2s_sample_step l s t a :
  a2s_inv l s ->
  (match l with (tp, _) :: _ => in_i64 (t - tp) = true | [] => True end) ->
  exists s', a2s_step c s (OSome (mkDatum t (qnew a UA))) = Ok (s', UOk) /\ a2s_inv ((t, a) :: l) s'.
Proof.
  intros Hs Hov. destruct l as [|[tp ap] r]; cbn [a2s_inv] in Hs; subst s.
  - eexists; split; reflexivity.
  - unfold a2s_step. cbn [d_time d_val qu qnew]. 
    change (assert_ok c UA (U_MM_S2 c)) with (@Ok unit tt). cbn [bind ts_time ts_a ts_u1].
    unfold dt_q. rewrite (ovf_ok _ _ Hov). cbn [bind].
    destruct r as [|[tpp app] r'].
    + eexists; split; reflexivity.
    + destruct r' as [|x r'']; eexists; split; reflexivity.
Qed.
Lemma a2s_get_of_run l s :
  a2s_inv l s ->
  a2s_get c s = Ok (match l with
                    | (t, a) :: _ :: _ :: _ => OSome (mkDatum t {| s_pos := P2 l; s_vel := V1 l; s_acc := a |})
                    | _ => ONone end).
Proof.
  intros Hs. destruct l as [|[t a] [|x [|y r]]]; cbn [a2s_inv] in Hs; subst s; reflexivity.
Qed.

Definition v2s_inv (l : list smp) (s : @tstate F) : Prop :=
  match l with
  | [] => s = None
  | (t, v) :: r =>
      s = Some {| ts_time := t; ts_a := qnew v UV;
                  ts_u1 := match r with
                           | [] => None
                           | _ => Some {| ts_b := qnew (D1 l) UA; ts_c := Some (qnew (V1 l) UP) |}
                           end |}
  end.
Lemma v2s_sample_step l s t v :
  v2s_inv l s ->
  (match l with (tp, _) :: _ => in_i64 (t - tp) = true | [] => True end) ->
  exists s', v2s_step c s (OSome (mkDatum t (qnew v UV))) = Ok (s', UOk) /\ v2s_inv ((t, v) :: l) s'.
Proof.
  intros Hs Hov. destruct l as [|[tp vp] r]; cbn [v2s_inv] in Hs; subst s.
  - eexists; split; reflexivity.
  - unfold v2s_step. cbn [d_time d_val qu qnew].
    change (assert_ok c UV (U_MM_S c)) with (@Ok unit tt). cbn [bind ts_time ts_a ts_u1].
    unfold dt_q. rewrite (ovf_ok _ _ Hov). cbn [bind].
    destruct r as [|[tpp vpp] r']; eexists; split; reflexivity.
Qed.
Lemma v2s_get_of_run l s :
  v2s_inv l s ->
  v2s_get c s = Ok (match l with
                    | (t, v) :: _ :: _ => OSome (mkDatum t {| s_pos := V1 l; s_vel := v; s_acc := D1 l |})
                    | _ => ONone end).
Proof.
  intros Hs. destruct l as [|[t v] [|x r]]; cbn [v2s_inv] in Hs; subst s; reflexivity.
Qed.

Definition p2s_inv (l : list smp) (s : @tstate F) : Prop :=
  match l with
  | [] => s = None
  | (t, p) :: r =>
      s = Some {| ts_time := t; ts_a := qnew p UP;
                  ts_u1 := match r with
                           | [] => None
                           | _ :: r' => Some {| ts_b := qnew (D1 l) UV;
                                                ts_c := match r' with [] => None | _ => Some (qnew (D2 l) UA) end |}
                           end |}
  end.
Lemma p2s_sample_step l s t p :
  p2s_inv l s ->
  (match l with (tp, _) :: _ => in_i64 (t - tp) = true | [] => True end) ->
  exists s', p2s_step c s (OSome (mkDatum t (qnew p UP))) = Ok (s', UOk) /\ p2s_inv ((t, p) :: l) s'.
Proof.
  intros Hs Hov. destruct l as [|[tp pp] r]; cbn [p2s_inv] in Hs; subst s.
  - eexists; split; reflexivity.
  - unfold p2s_step. cbn [d_time d_val qu qnew].
    change (assert_ok c UP (U_MM c)) with (@Ok unit tt). cbn [bind ts_time ts_a ts_u1].
    unfold dt_q. rewrite (ovf_ok _ _ Hov). cbn [bind].
    destruct r as [|[tpp ppp] r'].
    + eexists; split; reflexivity.
    + destruct r' as [|x r'']; eexists; split; reflexivity.
Qed.
Lemma p2s_get_of_run l s :
  p2s_inv l s ->
  p2s_get c s = Ok (match l with
                    | (t, p) :: _ :: _ :: _ => OSome (mkDatum t {| s_pos := p; s_vel := D1 l; s_acc := D2 l |})
                    | _ => ONone end).
Proof.
  intros Hs. destruct l as [|[t p] [|x [|y r]]]; cbn [p2s_inv] in Hs; subst s; reflexivity.
Qed.

(* wrongly dimensioned input panics when checking is on, and never otherwise *)
Lemma tostate_unit_panic (s : @tstate F) t (q : quantity) :
  (qu q <> UA -> a2s_step c s (OSome (mkDatum t q)) = Panic) /\
  (qu q <> UV -> v2s_step c s (OSome (mkDatum t q)) = Panic) /\
  (qu q <> UP -> p2s_step c s (OSome (mkDatum t q)) = Panic).
Proof.
  repeat split; intros H; apply ueqb_neq in H;
  unfold a2s_step, v2s_step, p2s_step, assert_ok, eq_assume_true; cbn [chk cfg_chk d_val];
  unfold U_MM_S2, U_MM_S, U_MM; rewrite unew_chk; unfold UA, UV, UP in H; rewrite H; reflexivity.
Qed.
End Calc.
