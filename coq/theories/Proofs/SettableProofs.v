(* Settable bookkeeping, following, history adapters: exact value and time mapping. *)
From Coq Require Import ZArith Bool List Lia.
From RRTK Require Import Num.Num Model.Values Model.Combinators Model.Streams Model.Settable.
Import ListNotations.
Local Open Scope Z_scope.

Section S.
Context {S : Type}.
Notation sett := (@sett S).

(* operations on the settable as seen from outside *)
Inductive sop := OpSet (v : S) | OpFollow | OpStop | OpUpdate (g : out S) | OpFailMode (f : option err).
Definition sstep (s : sett) (o : sop) : sett :=
  match o with
  | OpSet v => fst (sett_set s v)
  | OpFollow => sett_follow s
  | OpStop => sett_stop s
  | OpUpdate g => fst (sett_update s g)
  | OpFailMode f => sett_set_fail s f
  end.
(* the last request is the newest value the inner set accepted; a failed set changes nothing *)
Definition last_opt (l : list S) : option S := match rev l with x :: _ => Some x | [] => None end.
Definition sinv (s : sett) : Prop := st_last s = last_opt (st_received s).
Lemma last_opt_app l v : last_opt (l ++ [v]) = Some v.
Proof. unfold last_opt. rewrite rev_app_distr. reflexivity. Qed.
Lemma sett_set_spec (s : sett) v :
  (st_fail s = None -> sett_set s v = ({| st_last := Some v; st_following := st_following s;
                                          st_received := st_received s ++ [v]; st_fail := None |}, UOk)) /\
  (forall e, st_fail s = Some e -> sett_set s v = (s, UErr e)).
Proof. unfold sett_set. split; [intros ->|intros e ->]; reflexivity. Qed.
Lemma sinv_step s o : sinv s -> sinv (sstep s o).
Proof.
  unfold sinv. intros H. destruct o as [v| | |g|f]; cbn [sstep]; try exact H.
  - unfold sett_set. destruct (st_fail s); cbn; [exact H|]. rewrite last_opt_app. reflexivity.
  - unfold sett_update. destruct (st_following s); [|exact H].
    destruct g as [e| |d]; cbn; try exact H.
    unfold sett_set. destruct (st_fail s); cbn; [exact H|]. rewrite last_opt_app. reflexivity.
Qed.
Theorem last_request_is_last_accepted (ops : list sop) : sinv (fold_left sstep ops sett_init).
Proof.
  assert (G : forall s, sinv s -> sinv (fold_left sstep ops s)).
  { induction ops as [|o r IH]; intros s H; cbn [fold_left]; [exact H|]. apply IH. apply sinv_step. exact H. }
  apply G. reflexivity.
Qed.
(* following: update forwards exactly the getter's present value, nothing when absent, its error; nothing after stop *)
Theorem following_spec (s : sett) (g : out S) :
  (st_following s = false -> sett_update s g = (s, UOk)) /\
  (st_following s = true ->
     (forall e, g = OErr e -> sett_update s g = (s, UErr e)) /\
     (g = ONone -> sett_update s g = (s, UOk)) /\
     (forall d, g = OSome d -> sett_update s g = sett_set s (d_val d))) /\
  st_following (sett_follow s) = true /\ st_following (sett_stop s) = false.
Proof.
  unfold sett_update. split; [intros ->; reflexivity|].
  split; [intros Hf; rewrite Hf; split; [intros e ->; reflexivity|split; [intros ->; reflexivity|intros d ->; reflexivity]]|].
  split; reflexivity.
Qed.
End S.

(* history adapters: pure integer arithmetic *)
Section H.
Context {G : Type}.
Variable h : Z -> option (datum G).
Definition restamp (now : Z) (o : option (datum G)) : out G :=
  match o with Some d => OSome (mkDatum now (d_val d)) | None => ONone end.
Lemma iadd_ok a b : in_i64 (a + b) = true -> iadd a b = Ok (a + b).
Proof. unfold iadd, i64_ck. intros ->. reflexivity. Qed.
Theorem gfh_get_spec delta now :
  in_i64 (now + delta) = true -> gfh_get h delta (TOk now) = Ok (restamp now (h (now + delta))).
Proof. intros H. unfold gfh_get. rewrite (iadd_ok _ _ H). reflexivity. Qed.
Theorem gfh_get_error delta e : gfh_get h delta (TErr e) = Ok (OErr e).
Proof. reflexivity. Qed.
(* the constructors fix the offset so that the chosen instant maps to the chosen history time *)
Theorem gfh_offsets (c0 s k : Z) :
  (in_i64 (- c0) = true -> gfh_start_at_zero (TOk c0) = Ok (inr (- c0)) /\ (c0 + k) + (- c0) = k) /\
  (in_i64 (s - c0) = true -> gfh_custom_start (TOk c0) s = Ok (inr (s - c0)) /\ (c0 + k) + (s - c0) = s + k) /\
  (forall d0, in_i64 (s - c0) = true -> gfh_set_time d0 (TOk c0) s = Ok (s - c0, UOk)) /\
  (forall d0 e, gfh_set_time d0 (TErr e) s = Ok (d0, UErr e)) /\
  (forall e, gfh_start_at_zero (TErr e) = Ok (inl e) /\ gfh_custom_start (TErr e) s = Ok (inl e)).
Proof.
  unfold gfh_start_at_zero, gfh_custom_start, gfh_set_time, ineg, isub, i64_ck.
  repeat split; try (intros; repeat match goal with H : in_i64 _ = true |- _ => rewrite H end; reflexivity); lia.
Qed.
End H.

Theorem constant_getter_spec {T} (s : @cgetter T) (now : tout) (v : T) (g : out T) :
  cg_get s now = match now with TErr e => OErr e | TOk t => OSome (mkDatum t (cg_val s)) end /\
  cg_val (cg_set s v) = v /\ cg_last (cg_set s v) = Some v /\
  (cg_following s = false -> cg_update s g = (s, UOk)).
Proof.
  split; [destruct now; reflexivity|]. split; [reflexivity|]. split; [reflexivity|].
  unfold cg_update. intros ->. reflexivity.
Qed.
