(* Motion profile accessors agree at every instant: for EVERY profile value (any t1 t2 t3) and every t. *)
From Coq Require Import ZArith Bool List Lia.
From RRTK Require Import Num.Num Model.Values Model.MotionProfile.
Import ListNotations.
Local Open Scope Z_scope.

Section MP.
Context {F : Type} {NF : Num F}.
Variable c : cfg.
Notation mp := (@mp F).

Definition rank (p : piece) : Z :=
  match p with BeforeStart => 0 | InitialAcceleration => 1 | ConstantVelocity => 2 | EndAcceleration => 3 | Complete => 4 end.

Ltac chain p t :=
  unfold mp_piece, mp_mode, mp_acc, mp_vel, mp_pos;
  destruct (Z.ltb_spec t 0); [|destruct (Z.ltb_spec t (mp_t1 p)); [|destruct (Z.ltb_spec t (mp_t2 p)); [|destruct (Z.ltb_spec t (mp_t3 p))]]].

Lemma before_start_iff (p : mp) t :
  (mp_piece p t = BeforeStart <-> t < 0) /\ (mp_mode p t = None <-> t < 0) /\ (mp_acc c p t = None <-> t < 0) /\
  (t < 0 -> mp_vel c p t = Ok None /\ mp_pos c p t = Ok None /\ mp_history c p t = Ok None).
Proof.
  split; [chain p t; split; intros; try lia; try discriminate; reflexivity|].
  split; [chain p t; split; intros; try lia; try discriminate; reflexivity|].
  split; [chain p t; split; intros; try lia; try discriminate; reflexivity|].
  intros Hneg. split; [|split].
  - chain p t; try lia; reflexivity.
  - chain p t; try lia; reflexivity.
  - unfold mp_history, mp_mode. destruct (Z.ltb_spec t 0); [reflexivity|lia].
Qed.

Lemma piece_monotone (p : mp) t t' : t <= t' -> rank (mp_piece p t) <= rank (mp_piece p t').
Proof.
  intros H. unfold mp_piece.
  destruct (Z.ltb_spec t 0), (Z.ltb_spec t' 0), (Z.ltb_spec t (mp_t1 p)), (Z.ltb_spec t' (mp_t1 p)),
           (Z.ltb_spec t (mp_t2 p)), (Z.ltb_spec t' (mp_t2 p)), (Z.ltb_spec t (mp_t3 p)), (Z.ltb_spec t' (mp_t3 p));
  cbn [rank]; lia.
Qed.

Lemma mode_of_piece (p : mp) t :
  mp_mode p t = match mp_piece p t with
                | BeforeStart => None
                | InitialAcceleration | EndAcceleration => Some Acceleration
                | ConstantVelocity => Some Velocity
                | Complete => Some (c_kind (mp_end p))
                end.
Proof. chain p t; reflexivity. Qed.

Lemma acc_of_piece (p : mp) t :
  mp_acc c p t = match mp_piece p t with
                 | BeforeStart => None
                 | InitialAcceleration => Some (mp_max_acc p)
                 | ConstantVelocity => Some (qnew fzero (U_MM_S2 c))
                 | EndAcceleration => Some (qneg (mp_max_acc p))
                 | Complete => Some (c_get_acc c (mp_end p))
                 end.
Proof. chain p t; reflexivity. Qed.

(* velocity and position are present throughout the move, and afterwards exactly when the end command fixes them *)
Lemma presence (p : mp) t :
  (match mp_piece p t with
   | InitialAcceleration | ConstantVelocity | EndAcceleration => mp_vel c p t <> Ok None /\ mp_pos c p t <> Ok None
   | Complete => mp_vel c p t = Ok (c_get_vel c (mp_end p)) /\ mp_pos c p t = Ok (c_get_pos c (mp_end p))
   | BeforeStart => mp_vel c p t = Ok None /\ mp_pos c p t = Ok None
   end).
Proof.
  chain p t; split; try reflexivity.
  - destruct (qadd c _ _); cbn; discriminate.
  - destruct (qadd c _ _) as [x|]; cbn; [destruct (qadd c x _); cbn; discriminate|discriminate].
  - destruct (qadd c _ _); cbn; discriminate.
  - destruct (t1_term c p t); cbn; [|discriminate].
    destruct (qadd c _ _) as [x|]; cbn; [destruct (qadd c x _); cbn; discriminate|discriminate].
  - destruct (iadd _ _); cbn; [|discriminate]. destruct (isub _ _); cbn; [|discriminate].
    destruct (qadd c _ _); cbn; discriminate.
  - destruct (t1_term c p _); cbn; [|discriminate].
    destruct (isub t _); cbn; [|discriminate]. destruct (imul _ _); cbn; [|discriminate].
    destruct (isub t _); cbn; [|discriminate]. destruct (isub _ _); cbn; [|discriminate].
    destruct (qsub c _ _) as [x|]; cbn; [|discriminate].
    destruct (qadd c x _) as [y|]; cbn; [destruct (qadd c y _); cbn; discriminate|discriminate].
Qed.
Lemma end_presence (x : @command F) :
  (c_kind x = Position -> c_get_pos c x <> None /\ c_get_vel c x <> None) /\
  (c_kind x = Velocity -> c_get_pos c x = None /\ c_get_vel c x <> None) /\
  (c_kind x = Acceleration -> c_get_pos c x = None /\ c_get_vel c x = None).
Proof. destruct x as [k v]. unfold c_get_pos, c_get_vel. cbn [c_kind c_val]. repeat split; intros; subst; try discriminate; reflexivity. Qed.

(* the history never hits an `expect`: whenever it returns, it returns a command stamped t, of the
   mode's kind, whose value IS the matching accessor's value *)
Definition accessor (p : mp) t (m : pd) : res (option (@quantity F)) :=
  match m with Position => mp_pos c p t | Velocity => mp_vel c p t | Acceleration => Ok (mp_acc c p t) end.
Lemma accessor_not_none (p : mp) t m : mp_mode p t = Some m -> accessor p t m <> Ok None.
Proof.
  intros Hm. pose proof (presence p t) as Hp. rewrite mode_of_piece in Hm. pose proof (acc_of_piece p t) as Ha.
  destruct (mp_piece p t); try discriminate; injection Hm as <-; cbn [accessor].
  - rewrite Ha. discriminate.
  - exact (proj1 Hp).
  - rewrite Ha. discriminate.
  - destruct Hp as [Hv Hq]. destruct (end_presence (mp_end p)) as (E1 & E2 & E3).
    destruct (c_kind (mp_end p)) eqn:K; cbn [accessor].
    + rewrite Hq. intros [= H]. apply (proj1 (E1 eq_refl)). exact H.
    + rewrite Hv. intros [= H]. apply (proj2 (E2 eq_refl)). exact H.
    + rewrite Ha. discriminate.
Qed.
Lemma history_consistent (p : mp) t :
  mp_history c p t =
  match mp_mode p t with
  | None => Ok None
  | Some m => match accessor p t m with
              | Ok (Some q) => Ok (Some (mkDatum t (cnew m (qv q))))
              | _ => Panic
              end
  end.
Proof.
  unfold mp_history. destruct (mp_mode p t) as [m|]; [|reflexivity].
  destruct m; cbn [accessor].
  - destruct (mp_pos c p t) as [[q|]|]; reflexivity.
  - destruct (mp_vel c p t) as [[q|]|]; reflexivity.
  - destruct (mp_acc c p t) as [q|]; reflexivity.
Qed.
Lemma history_never_expect_panics (p : mp) t m :
  mp_mode p t = Some m -> accessor p t m <> Panic -> exists q, accessor p t m = Ok (Some q) /\ mp_history c p t = Ok (Some (mkDatum t (cnew m (qv q)))).
Proof.
  intros Hm Hn. pose proof (accessor_not_none p t m Hm) as H0.
  rewrite history_consistent, Hm. destruct (accessor p t m) as [[q|]|]; try contradiction.
  exists q. split; reflexivity.
Qed.

(* from completion onward the history returns the end command forever *)
Lemma after_completion (p : mp) t :
  mp_piece p t = Complete -> mp_history c p t = Ok (Some (mkDatum t (mp_end p))).
Proof.
  intros Hc. rewrite history_consistent, mode_of_piece, Hc.
  pose proof (presence p t) as Hp. rewrite Hc in Hp. destruct Hp as [Hv Hq].
  pose proof (acc_of_piece p t) as Ha. rewrite Hc in Ha.
  destruct (mp_end p) as [k v] eqn:E. cbn [c_kind].
  destruct k; cbn [accessor]; rewrite ?Hv, ?Hq, ?Ha; reflexivity.
Qed.
Lemma complete_iff_ordered (p : mp) t :
  0 <= mp_t1 p <= mp_t2 p -> mp_t2 p <= mp_t3 p -> (mp_piece p t = Complete <-> mp_t3 p <= t).
Proof.
  intros H1 H2. unfold mp_piece.
  destruct (Z.ltb_spec t 0), (Z.ltb_spec t (mp_t1 p)), (Z.ltb_spec t (mp_t2 p)), (Z.ltb_spec t (mp_t3 p));
  split; intros; try lia; try discriminate; reflexivity.
Qed.

(* commanded acceleration during the move: +-max_acc or 0 *)
Lemma velocity_continuous_at_joins (p : mp) :
  (* the velocity expressions of adjacent pieces are the same expression at the joining instant *)
  (0 <= mp_t1 p -> mp_t1 p < mp_t2 p ->
     mp_vel c p (mp_t1 p) = (let! v := qadd c (qmul c (mp_max_acc p) (q_of_time c (mp_t1 p))) (mp_start_vel p) in Ok (Some v))) /\
  (0 <= mp_t1 p <= mp_t2 p -> mp_t2 p < mp_t3 p -> in_i64 (mp_t1 p + mp_t2 p) = true -> in_i64 (mp_t1 p + mp_t2 p - mp_t2 p) = true ->
     mp_vel c p (mp_t2 p) = (let! v := qadd c (qmul c (mp_max_acc p) (q_of_time c (mp_t1 p))) (mp_start_vel p) in Ok (Some v))).
Proof.
  split.
  - intros H0 H1. unfold mp_vel.
    destruct (Z.ltb_spec (mp_t1 p) 0); [lia|]. destruct (Z.ltb_spec (mp_t1 p) (mp_t1 p)); [lia|].
    destruct (Z.ltb_spec (mp_t1 p) (mp_t2 p)); [reflexivity|lia].
  - intros H0 H1 O1 O2. unfold mp_vel.
    destruct (Z.ltb_spec (mp_t2 p) 0); [lia|]. destruct (Z.ltb_spec (mp_t2 p) (mp_t1 p)); [lia|].
    destruct (Z.ltb_spec (mp_t2 p) (mp_t2 p)); [lia|]. destruct (Z.ltb_spec (mp_t2 p) (mp_t3 p)); [|lia].
    unfold iadd, isub, i64_ck. rewrite O1. cbn [bind]. rewrite O2. cbn [bind].
    replace (mp_t1 p + mp_t2 p - mp_t2 p) with (mp_t1 p) by lia. reflexivity.
Qed.
End MP.
