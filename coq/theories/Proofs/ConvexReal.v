(* C12, the part that was still open: convexity of the moving average and of the EWMA on the real-number
   carrier for every history of events, and the simulation between the f32 and the Quantity variant of
   each filter on every carrier.

   Contents
     1. histories: [exec]/[trace] of a step function, [mono] (time stamps non-decreasing since the last
        error), [since_reset] (samples since the last error), [between]
     2. moving average on RR   : [ma_exec_convex], [ma_exec_constant], [ma_exec_no_panic], witnesses
     3. EWMA on RR             : [ewma_lambda_01], [ewma_step_between], [ewma_exec_convex],
                                 [ewma_exec_constant], [ewma_first_sample], [ewma_exec_no_panic], witnesses
     4. f32 variant = Quantity variant (any carrier): [ewma_fq_trace], [ma_fq_trace] (needs 0 + x = x),
        the exact place where the two moving averages differ, and a binary32 witness of the difference *)
From Coq Require Import ZArith Bool List Lia Reals Lra Psatz.
From Flocq Require Import Core.Raux.
From RRTK Require Import Num.Num Num.RR Num.Laws Model.Values Model.Streams Proofs.StreamProofs Proofs.MaProofs.
Import ListNotations.
Local Open Scope Z_scope.

(* ------------------------------------------------------------------ 1. histories *)
Section Exec.
Context {St Ev : Type}.
Variable step : St -> Ev -> res (St * upd).
(* state after the whole history; Panic if any update panics *)
Fixpoint exec (s : St) (evs : list Ev) : res St :=
  match evs with
  | [] => Ok s
  | i :: r => let! su := step s i in exec (fst su) r
  end.
(* every intermediate state (what get() shows after each update) with the update's return value *)
Fixpoint trace (s : St) (evs : list Ev) : res (list (St * upd)) :=
  match evs with
  | [] => Ok []
  | i :: r => let! su := step s i in let! tl := trace (fst su) r in Ok (su :: tl)
  end.
Lemma exec_app s e1 e2 : exec s (e1 ++ e2) = (let! s1 := exec s e1 in exec s1 e2).
Proof.
  revert s. induction e1 as [|i r IH]; intros s; cbn [app exec bind]; [reflexivity|].
  destruct (step s i) as [su|]; cbn [bind]; [apply IH|reflexivity].
Qed.
End Exec.

Definition res_map {A B} (f : A -> B) (r : res A) : res B := match r with Ok a => Ok (f a) | Panic => Panic end.

(* time of the newest sample of a list, if any *)
Definition olast {T} (q : list (datum T)) : option Z := fold_left (fun _ d => Some (d_time d)) q None.
(* present samples carry non-decreasing (possibly repeated) time stamps since the last error; an error
   restarts the comparison (both filters forget their time base on an error), an absent event does not *)
Fixpoint mono {T} (last : option Z) (evs : list (out T)) : Prop :=
  match evs with
  | [] => True
  | OErr _ :: r => mono None r
  | ONone :: r => mono last r
  | OSome d :: r => match last with None => True | Some t => t <= d_time d end /\ mono (Some (d_time d)) r
  end.
(* the samples since the last error, oldest first ([acc]: those before the history starts) *)
Fixpoint since_reset {T} (acc : list (datum T)) (evs : list (out T)) : list (datum T) :=
  match evs with
  | [] => acc
  | OErr _ :: r => since_reset [] r
  | ONone :: r => since_reset acc r
  | OSome d :: r => since_reset (acc ++ [d]) r
  end.
(* v lies between the smallest and the largest sample of l *)
Definition between (l : list (datum R)) (v : R) : Prop :=
  exists a b, In a l /\ In b l /\ (d_val a <= v <= d_val b)%R.

Lemma olast_nil {T} : @olast T [] = None. Proof. reflexivity. Qed.
Lemma olast_app {T} (q : list (datum T)) o : olast (q ++ [o]) = Some (d_time o).
Proof. unfold olast. rewrite fold_left_app. reflexivity. Qed.
Lemma olast_last_time {T} (q : list (datum T)) dflt : q <> [] -> olast q = Some (last_time q dflt).
Proof.
  intros Hq. destruct (exists_last Hq) as [q0 [d E]]. subst q.
  rewrite olast_app, last_time_app. reflexivity.
Qed.
Lemma olast_suffix {T} (pre q : list (datum T)) : q <> [] -> olast (pre ++ q) = olast q.
Proof.
  intros Hq. destruct (exists_last Hq) as [q0 [d E]]. subst q.
  rewrite app_assoc, !olast_app. reflexivity.
Qed.
Lemma between_incl l l' v : incl l l' -> between l v -> between l' v.
Proof. intros Hi [a [b [Ha [Hb Hv]]]]. exists a, b. split; [apply Hi, Ha|split; [apply Hi, Hb|exact Hv]]. Qed.
Lemma between_const l v k : (forall x, In x l -> d_val x = k) -> between l v -> v = k.
Proof. intros Hk [a [b [Ha [Hb Hv]]]]. rewrite (Hk a Ha), (Hk b Hb) in Hv. lra. Qed.
Lemma isub_ok a b z : isub a b = Ok z -> z = a - b.
Proof. unfold isub, i64_ck. destruct (in_i64 (a - b)); [intros [= <-]; reflexivity|discriminate]. Qed.
Lemma isub_in a b : in_i64 (a - b) = true -> isub a b = Ok (a - b).
Proof. unfold isub, i64_ck. intros ->. reflexivity. Qed.
Lemma in_i64_iff z : in_i64 z = true <-> -9223372036854775808 <= z <= 9223372036854775807.
Proof. unfold in_i64. rewrite andb_true_iff, !Z.leb_le. reflexivity. Qed.

(* sorted lists of samples *)
Definition hd_time {T} (q : list (datum T)) : Z := match q with [] => 0 | d :: _ => d_time d end.
Definition sortedq {T} (q : list (datum T)) : Prop := nondecr_from (hd_time q) q.
Lemma nondecr_app {T} start (q : list (datum T)) o :
  nondecr_from start q -> last_time q start <= d_time o -> nondecr_from start (q ++ [o]).
Proof.
  revert start. induction q as [|d r IH]; intros start; cbn [app nondecr_from].
  - unfold last_time. cbn. intros _ H. split; [exact H|exact I].
  - intros [H1 H2] H3. split; [exact H1|]. apply IH; [exact H2|exact H3].
Qed.
Lemma sortedq_app {T} (q : list (datum T)) o :
  sortedq q -> match olast q with None => True | Some t => t <= d_time o end -> sortedq (q ++ [o]).
Proof.
  destruct q as [|d r]; intros Hs Hl.
  - unfold sortedq. cbn. split; [lia|exact I].
  - unfold sortedq in *. cbn [app hd_time] in *. change (d :: r ++ [o]) with ((d :: r) ++ [o]).
    apply nondecr_app; [exact Hs|].
    rewrite (olast_last_time (d :: r) (d_time d)) in Hl by discriminate. exact Hl.
Qed.
Lemma nondecr_suffix {T} start (pre q : list (datum T)) : nondecr_from start (pre ++ q) -> sortedq q.
Proof.
  revert start. induction pre as [|d p IH]; intros start; cbn [app nondecr_from].
  - unfold sortedq. destruct q as [|x r]; cbn [nondecr_from hd_time]; [trivial|].
    intros [_ H]. split; [lia|exact H].
  - intros [_ H]. apply (IH _ H).
Qed.
Lemma sortedq_suffix {T} (pre q : list (datum T)) : sortedq (pre ++ q) -> sortedq q.
Proof. apply nondecr_suffix. Qed.
Lemma sortedq_from {T} (q : list (datum T)) bound : sortedq q -> bound <= hd_time q -> q <> [] -> nondecr_from bound q.
Proof.
  destruct q as [|d r]; [intros _ _ H; contradiction|]. unfold sortedq. cbn [hd_time nondecr_from].
  intros [_ H] Hb _. split; [exact Hb|exact H].
Qed.
Lemma nondecr_last_ge {T} start (q : list (datum T)) : nondecr_from start q -> start <= last_time q start.
Proof.
  revert start. induction q as [|d r IH]; intros start; cbn [nondecr_from]; unfold last_time; cbn [fold_left]; [lia|].
  intros [H1 H2]. specialize (IH _ H2). unfold last_time in IH. lia.
Qed.
Lemma nondecr_times_le {T} start (q : list (datum T)) x :
  nondecr_from start q -> In x q -> start <= d_time x <= last_time q start.
Proof.
  revert start. induction q as [|d r IH]; intros start; cbn [nondecr_from In]; [intros _ []|].
  intros [H1 H2] [<-|Hin]; change (last_time (d :: r) start) with (last_time r (d_time d)).
  - pose proof (nondecr_last_ge _ _ H2). lia.
  - specialize (IH _ H2 Hin). lia.
Qed.
Lemma mono_cons {T} (acc : list (datum T)) i r :
  mono (olast acc) (i :: r) <-> mono (olast acc) [i] /\ mono (olast (since_reset acc [i])) r.
Proof.
  destruct i as [e| |o]; cbn [mono since_reset]; rewrite ?olast_app, ?olast_nil; tauto.
Qed.
Lemma since_reset_in {T} (evs : list (out T)) : forall acc x,
  In x (since_reset acc evs) -> In x acc \/ In (OSome x) evs.
Proof.
  induction evs as [|i r IH]; intros acc x Hx; cbn [since_reset] in Hx; [left; exact Hx|].
  destruct i as [e| |o].
  - destruct (IH _ _ Hx) as [[]|H]. right. right. exact H.
  - destruct (IH _ _ Hx) as [H|H]; [left; exact H|right; right; exact H].
  - destruct (IH _ _ Hx) as [H|H]; [|right; right; exact H].
    apply in_app_or in H. destruct H as [H|[<-|[]]]; [left; exact H|right; left; reflexivity].
Qed.
Lemma since_reset_cons {T} (acc : list (datum T)) i r : since_reset acc (i :: r) = since_reset (since_reset acc [i]) r.
Proof. destruct i; reflexivity. Qed.

(* trimming a sorted queue: what is kept is sorted, starts after the bound, and is a suffix of the samples
   since the last error *)
Lemma trim_nondecr {T} (q acc pre q' : list (datum T)) o bound :
  acc = pre ++ q -> sortedq (acc ++ [o]) -> ma_trim (q ++ [o]) bound = q' ++ [o] ->
  nondecr_from bound (q' ++ [o]) /\ exists pre', acc ++ [o] = pre' ++ q' ++ [o].
Proof.
  intros Hpre Hsort Etrim.
  destruct (ma_trim_suffix (q ++ [o]) bound) as [pre2 Hpre2]. rewrite Etrim in Hpre2.
  assert (Hacc' : acc ++ [o] = (pre ++ pre2) ++ q' ++ [o]).
  { rewrite Hpre, <- !app_assoc. f_equal. exact Hpre2. }
  split; [|exists (pre ++ pre2); exact Hacc'].
  assert (Hne : q' ++ [o] <> []) by (destruct q'; discriminate).
  rewrite Hacc' in Hsort. apply sortedq_suffix in Hsort.
  apply sortedq_from; [exact Hsort| |exact Hne].
  destruct (q' ++ [o]) as [|x xs] eqn:Eq; [contradiction|]. cbn [hd_time].
  pose proof (ma_trim_head_newer _ _ _ _ Etrim). lia.
Qed.
(* the checked weights of a sorted queue do not overflow when its time span fits an i64 *)
Lemma ma_weights_total {T} (q : list (datum T)) start :
  nondecr_from start q -> last_time q start - start <= 9223372036854775807 ->
  ma_weights q start = Ok (weights q start).
Proof.
  revert start. induction q as [|d r IH]; intros start; cbn [nondecr_from ma_weights weights]; [reflexivity|].
  intros [H1 H2] Hl. change (last_time (d :: r) start) with (last_time r (d_time d)) in Hl.
  pose proof (nondecr_last_ge _ _ H2) as Hge.
  rewrite isub_in by (apply in_i64_iff; lia). cbn [bind].
  rewrite IH by (try exact H2; lia). reflexivity.
Qed.

(* ------------------------------------------------------------------ 2. moving average on the reals *)
Section MaReal.
Variable c : cfg.
Local Open Scope R_scope.

Lemma qv_time w : qv (@q_of_time R RR c w) = IZR w / 1000000000.
Proof. reflexivity. Qed.
Lemma ma_sum_f_cons (d : datum R) r w wr a :
  @ma_sum_f R RR c (d :: r) (w :: wr) a = @ma_sum_f R RR c r wr (a + d_val d * (IZR w / 1000000000)).
Proof. reflexivity. Qed.

(* the accumulated sum is a + sum v_i * w_i, and with non-negative weights it is bracketed by
   lo * (sum of weights) and hi * (sum of weights) *)
Lemma ma_sum_bounds (q : list (datum R)) (start : Z) (a lo hi : R) :
  nondecr_from start q ->
  (forall x, In x q -> lo <= d_val x <= hi) ->
  a + lo * (IZR (last_time q start - start) / 1000000000)
    <= @ma_sum_f R RR c q (weights q start) a
    <= a + hi * (IZR (last_time q start - start) / 1000000000).
Proof.
  revert start a. induction q as [|d r IH]; intros start a Hs Hb.
  - unfold last_time. cbn [fold_left weights ma_sum_f]. rewrite Z.sub_diag. lra.
  - cbn [weights]. rewrite ma_sum_f_cons. cbn [nondecr_from] in Hs. destruct Hs as [H1 H2].
    assert (Hr : forall x, In x r -> lo <= d_val x <= hi) by (intros x Hx; apply Hb; right; exact Hx).
    specialize (IH (d_time d) (a + d_val d * (IZR (d_time d - start) / 1000000000)) H2 Hr).
    assert (Hd : lo <= d_val d <= hi) by (apply Hb; left; reflexivity).
    assert (El : last_time (d :: r) start = last_time r (d_time d)) by reflexivity.
    rewrite El.
    assert (Es : IZR (last_time r (d_time d) - start) / 1000000000
                 = IZR (d_time d - start) / 1000000000 + IZR (last_time r (d_time d) - d_time d) / 1000000000).
    { rewrite !minus_IZR. lra. }
    rewrite Es.
    assert (HA : 0 <= IZR (d_time d - start) / 1000000000).
    { apply Rmult_le_pos; [apply IZR_le; lia|lra]. }
    set (A := IZR (d_time d - start) / 1000000000) in *.
    set (B := IZR (last_time r (d_time d) - d_time d) / 1000000000) in *.
    nra.
Qed.
Lemma min_sample (q : list (datum R)) : q <> [] -> exists m, In m q /\ forall x, In x q -> d_val m <= d_val x.
Proof.
  induction q as [|d r IH]; [intros H; contradiction|]. intros _.
  destruct r as [|d2 r2].
  - exists d. split; [left; reflexivity|]. intros x [<-|[]]. lra.
  - destruct IH as [m [Hm Hle]]; [discriminate|].
    destruct (Rle_dec (d_val d) (d_val m)) as [Hc|Hc].
    + exists d. split; [left; reflexivity|]. intros x [<-|Hx]; [lra|]. specialize (Hle x Hx). lra.
    + exists m. split; [right; exact Hm|]. intros x [<-|Hx]; [lra|]. apply Hle, Hx.
Qed.
Lemma max_sample (q : list (datum R)) : q <> [] -> exists m, In m q /\ forall x, In x q -> d_val x <= d_val m.
Proof.
  induction q as [|d r IH]; [intros H; contradiction|]. intros _.
  destruct r as [|d2 r2].
  - exists d. split; [left; reflexivity|]. intros x [<-|[]]. lra.
  - destruct IH as [m [Hm Hle]]; [discriminate|].
    destruct (Rle_dec (d_val m) (d_val d)) as [Hc|Hc].
    + exists d. split; [left; reflexivity|]. intros x [<-|Hx]; [lra|]. specialize (Hle x Hx). lra.
    + exists m. split; [right; exact Hm|]. intros x [<-|Hx]; [lra|]. apply Hle, Hx.
Qed.

(* the value computed from a non-empty sorted queue whose weights start at [bound] and whose newest
   sample is at [bound + w] is a convex combination of the queue's samples *)
Lemma ma_value_between (q : list (datum R)) (bound w : Z) :
  (w > 0)%Z -> q <> [] -> nondecr_from bound q -> last_time q bound = (bound + w)%Z ->
  between q (@ma_sum_f R RR c q (weights q bound) 0 / (IZR w / 1000000000)).
Proof.
  intros Hw Hq Hs Hl.
  destruct (min_sample q Hq) as [lo [Hlo Hlo']]. destruct (max_sample q Hq) as [hi [Hhi Hhi']].
  exists lo, hi. split; [exact Hlo|split; [exact Hhi|]].
  assert (Hb : forall x, In x q -> d_val lo <= d_val x <= d_val hi)
    by (intros x Hx; split; [apply Hlo', Hx|apply Hhi', Hx]).
  pose proof (ma_sum_bounds q bound 0 (d_val lo) (d_val hi) Hs Hb) as HB.
  rewrite Hl in HB. replace (bound + w - bound)%Z with w in HB by lia.
  assert (HW : 0 < IZR w / 1000000000).
  { apply Rdiv_lt_0_compat; [apply IZR_lt; lia|lra]. }
  set (W := IZR w / 1000000000) in *. set (S0 := @ma_sum_f R RR c q (weights q bound) 0) in *.
  split.
  - apply (Rmult_le_reg_r W); [exact HW|]. replace (S0 / W * W) with S0 by (field; lra). lra.
  - apply (Rmult_le_reg_r W); [exact HW|]. replace (S0 / W * W) with S0 by (field; lra). lra.
Qed.

Notation mstep := (@ma_step R (@ma_acc_f R RR c)).
(* state invariant, relative to the samples [acc] received since the last error *)
Definition ma_rel (w : Z) (s : @mavg R) (acc : list (datum R)) : Prop :=
  ma_win s = w /\ sortedq acc /\ (exists pre, acc = pre ++ ma_q s) /\ (ma_q s = [] -> acc = []) /\
  match ma_val s with OSome p => between (ma_q s) (d_val p) | _ => True end.

Lemma ma_rel_init w : ma_rel w (ma_init w) [].
Proof.
  unfold ma_rel, ma_init. cbn [ma_win ma_val ma_q].
  split; [reflexivity|split; [exact I|split; [exists []; reflexivity|split; [reflexivity|exact I]]]].
Qed.

(* what one update with a present sample computes, for a positive window *)
Lemma ma_step_some_shape w (s : @mavg R) o s' u :
  (w > 0)%Z -> ma_win s = w -> mstep s (OSome o) = Ok (s', u) ->
  exists q', ma_trim (ma_q s ++ [o]) (d_time o - w) = q' ++ [o] /\
    u = UOk /\ ma_win s' = w /\ ma_q s' = q' ++ [o] /\
    ma_val s' = OSome (mkDatum (d_time o)
                  (@ma_sum_f R RR c (q' ++ [o]) (weights (q' ++ [o]) (d_time o - w)) 0 / (IZR w / 1000000000))).
Proof.
  intros Hw Hwin. cbn [ma_step]. rewrite Hwin.
  destruct (isub (d_time o) w) as [bound|] eqn:Eb; cbn [bind]; [|discriminate].
  apply isub_ok in Eb. subst bound.
  destruct (ma_trim_keeps_last (ma_q s) o (d_time o - w)) as [q' E]; [lia|].
  rewrite E. destruct (q' ++ [o]) as [|x xs] eqn:Eq; [destruct q'; discriminate|]. rewrite <- Eq.
  destruct (ma_weights (q' ++ [o]) (d_time o - w)) as [ws|] eqn:Ews; cbn [bind]; [|discriminate].
  apply ma_weights_ok in Ews. subst ws. unfold ma_acc_f. cbn [bind].
  intros [= <- <-]. exists q'. cbn [ma_win ma_q ma_val].
  split; [reflexivity|split; [reflexivity|split; [reflexivity|split; [reflexivity|reflexivity]]]].
Qed.

Lemma ma_step_rel w s acc i s' u :
  (w > 0)%Z -> ma_rel w s acc -> mono (olast acc) [i] -> mstep s i = Ok (s', u) -> ma_rel w s' (since_reset acc [i]).
Proof.
  intros Hw [Hwin [Hsort [[pre Hpre] [Hemp Hval]]]] Hm Hstep.
  destruct i as [e| |o]; cbn [since_reset].
  - cbn [ma_step] in Hstep. injection Hstep as <- <-. unfold ma_rel. cbn [ma_win ma_val ma_q].
    split; [exact Hwin|split; [exact I|split; [exists []; reflexivity|split; [reflexivity|exact I]]]].
  - cbn [ma_step] in Hstep.
    destruct (ma_val s) as [e0| |p] eqn:V; injection Hstep as <- <-; unfold ma_rel; cbn [ma_win ma_val ma_q];
      [|rewrite V|rewrite V]; (split; [exact Hwin|split; [exact Hsort|split; [exists pre; exact Hpre|split; [exact Hemp|]]]]);
      [exact I|exact I|exact Hval].
  - destruct (ma_step_some_shape w s o s' u Hw Hwin Hstep) as [q' [Etrim [_ [Hw' [Hq' Hv']]]]].
    cbn [mono] in Hm. destruct Hm as [Hlast _].
    assert (Hsort' : sortedq (acc ++ [o])) by (apply sortedq_app; assumption).
    destruct (trim_nondecr _ _ _ _ _ _ Hpre Hsort' Etrim) as [Hnd [pre' Hacc']].
    unfold ma_rel. rewrite Hq', Hv'. cbn [d_val].
    split; [exact Hw'|split; [exact Hsort'|split; [exists pre'; exact Hacc'|split]]].
    + intros Habs. destruct q'; discriminate.
    + apply ma_value_between; [exact Hw|destruct q'; discriminate|exact Hnd|rewrite last_time_app; lia].
Qed.

(* an update cannot panic when the window fits an i64 and [time - window] does not overflow *)
Definition ma_time_ok (w : Z) (i : out R) : Prop :=
  match i with OSome d => in_i64 (d_time d - w) = true | _ => True end.
Lemma ma_step_total w s acc i :
  (0 < w <= 9223372036854775807)%Z -> ma_rel w s acc -> mono (olast acc) [i] -> ma_time_ok w i ->
  exists s' u, mstep s i = Ok (s', u).
Proof.
  intros Hw [Hwin [Hsort [[pre Hpre] [Hemp Hval]]]] Hm Ht.
  destruct i as [e| |o]; cbn [ma_step].
  - eexists _, _. reflexivity.
  - destruct (ma_val s); eexists _, _; reflexivity.
  - cbn [ma_time_ok] in Ht. rewrite Hwin, (isub_in _ _ Ht). cbn [bind].
    destruct (ma_trim_keeps_last (ma_q s) o (d_time o - w)) as [q' E]; [lia|].
    cbn [mono] in Hm. destruct Hm as [Hlast _].
    assert (Hsort' : sortedq (acc ++ [o])) by (apply sortedq_app; assumption).
    destruct (trim_nondecr _ _ _ _ _ _ Hpre Hsort' E) as [Hnd _].
    assert (Hwt : ma_weights (q' ++ [o]) (d_time o - w) = Ok (weights (q' ++ [o]) (d_time o - w))).
    { apply (ma_weights_total _ _ Hnd). rewrite last_time_app. lia. }
    rewrite E. remember (q' ++ [o]) as q1 eqn:Eq1.
    destruct q1 as [|x xs]; [destruct q'; discriminate|].
    rewrite Hwt. cbn [bind]. unfold ma_acc_f. cbn [bind]. eexists _, _. reflexivity.
Qed.

Lemma ma_exec_rel w evs : forall s acc s',
  (w > 0)%Z -> ma_rel w s acc -> mono (olast acc) evs -> exec mstep s evs = Ok s' ->
  ma_rel w s' (since_reset acc evs).
Proof.
  induction evs as [|i r IH]; intros s acc s' Hw Hrel Hm Hex.
  - cbn in Hex. injection Hex as <-. exact Hrel.
  - apply mono_cons in Hm. destruct Hm as [Hm1 Hm2]. cbn [exec] in Hex.
    destruct (mstep s i) as [[s1 u]|] eqn:E1; cbn [bind fst] in Hex; [|discriminate].
    rewrite since_reset_cons. apply (IH s1 _ s' Hw); [|exact Hm2|exact Hex].
    apply (ma_step_rel w s acc i s1 u Hw Hrel Hm1 E1).
Qed.
Lemma ma_exec_total w evs : forall s acc,
  (0 < w <= 9223372036854775807)%Z -> ma_rel w s acc -> mono (olast acc) evs -> Forall (ma_time_ok w) evs ->
  exists s', exec mstep s evs = Ok s'.
Proof.
  induction evs as [|i r IH]; intros s acc Hw Hrel Hm Hok.
  - exists s. reflexivity.
  - apply mono_cons in Hm. destruct Hm as [Hm1 Hm2]. inversion Hok as [|i0 r0 Hok1 Hok2]; subst.
    destruct (ma_step_total w s acc i Hw Hrel Hm1 Hok1) as [s1 [u E1]].
    cbn [exec]. rewrite E1. cbn [bind fst].
    apply (IH s1 (since_reset acc [i])); [exact Hw| |exact Hm2|exact Hok2].
    apply (ma_step_rel w s acc i s1 u); [lia|exact Hrel|exact Hm1|exact E1].
Qed.

(* MAIN (moving average, reals).  For every history of events whose present samples carry non-decreasing
   time stamps since the last error, and every positive window: whenever the stream shows a value, the
   value lies between the smallest and the largest sample of the window queue; the queue is a suffix of
   the samples received since the last error. *)
Theorem ma_exec_convex (w : Z) (evs : list (out R)) (s' : @mavg R) :
  (w > 0)%Z -> mono None evs -> exec mstep (ma_init w) evs = Ok s' ->
  (exists pre, since_reset [] evs = pre ++ ma_q s') /\
  forall p, ma_val s' = OSome p -> between (ma_q s') (d_val p) /\ between (since_reset [] evs) (d_val p).
Proof.
  intros Hw Hm Hex.
  destruct (ma_exec_rel w evs (ma_init w) [] s' Hw (ma_rel_init w) Hm Hex) as [_ [_ [[pre Hpre] [_ Hval]]]].
  split; [exists pre; exact Hpre|]. intros p Hp. rewrite Hp in Hval. split; [exact Hval|].
  apply (between_incl (ma_q s')); [|exact Hval]. rewrite Hpre. apply incl_appr, incl_refl.
Qed.
(* a constant input yields that constant *)
Theorem ma_exec_constant (w : Z) (evs : list (out R)) (s' : @mavg R) (k : R) :
  (w > 0)%Z -> mono None evs -> exec mstep (ma_init w) evs = Ok s' ->
  (forall x, In x (ma_q s') -> d_val x = k) ->
  forall p, ma_val s' = OSome p -> d_val p = k.
Proof.
  intros Hw Hm Hex Hk p Hp. destruct (ma_exec_convex w evs s' Hw Hm Hex) as [_ Hb].
  apply (between_const (ma_q s')); [exact Hk|apply (Hb p Hp)].
Qed.
Corollary ma_exec_constant_history (w : Z) (evs : list (out R)) (s' : @mavg R) (k : R) :
  (w > 0)%Z -> mono None evs -> exec mstep (ma_init w) evs = Ok s' ->
  (forall x, In (OSome x) evs -> d_val x = k) ->
  forall p, ma_val s' = OSome p -> d_val p = k.
Proof.
  intros Hw Hm Hex Hk. apply (ma_exec_constant w evs s' k Hw Hm Hex).
  destruct (ma_exec_convex w evs s' Hw Hm Hex) as [[pre Hpre] _].
  intros x Hx. apply Hk. destruct (since_reset_in evs [] x) as [[]|H]; [|exact H]. rewrite Hpre. apply in_or_app. right. exact Hx.
Qed.
(* no update panics (positive window that fits an i64, time - window does not overflow) *)
Theorem ma_exec_no_panic (w : Z) (evs : list (out R)) :
  (0 < w <= 9223372036854775807)%Z -> mono None evs -> Forall (ma_time_ok w) evs ->
  exists s', exec mstep (ma_init w) evs = Ok s'.
Proof. intros Hw Hm Hok. apply (ma_exec_total w evs (ma_init w) [] Hw (ma_rel_init w) Hm Hok). Qed.
End MaReal.

(* ---- witnesses and satisfiability (moving average) ---- *)
Section MaWitness.
Local Open Scope R_scope.
Let c0 : cfg := {| chk := true; stdf := true |}.
(* the hypotheses of the theorems hold for a non-trivial history (gap, error, repeated time stamp) *)
Definition ma_demo : list (out R) :=
  [OSome (mkDatum 0%Z 1); OSome (mkDatum 5%Z 3); ONone; OSome (mkDatum 5%Z 2); OSome (mkDatum 30%Z 7);
   OErr FromNone; ONone; OSome (mkDatum 2%Z 4)].
Example ma_demo_hyps : mono None ma_demo /\ Forall (ma_time_ok 10) ma_demo.
Proof.
  split; [cbn; lia|]. repeat constructor.
Qed.
(* without the time-stamp hypothesis the statement is false: a sample stamped earlier than its
   predecessor receives a negative weight and the output leaves the range of the samples *)
Example ma_not_convex_for_decreasing_times :
  exists s', exec (@ma_step R (@ma_acc_f R RR c0)) (ma_init 10) [OSome (mkDatum 5%Z 0); OSome (mkDatum 3%Z 1)] = Ok s' /\
    ma_q s' = [mkDatum 5%Z 0; mkDatum 3%Z 1] /\
    exists p, ma_val s' = OSome p /\ d_val p < 0.
Proof.
  eexists. split; [cbv -[IZR Rplus Rmult Rdiv Rminus Rinv]; reflexivity|].
  split; [reflexivity|]. eexists. split; [reflexivity|]. cbn [d_val]. lra.
Qed.
Example ma_demo_runs : exists s', exec (@ma_step R (@ma_acc_f R RR c0)) (ma_init 10) ma_demo = Ok s'.
Proof. apply ma_exec_no_panic; [lia|apply ma_demo_hyps|apply ma_demo_hyps]. Qed.
(* a repeated time stamp is allowed: the repeated sample receives weight 0 and is ignored *)
Example ma_repeated_time_ignores_sample (a b : R) :
  exists s', exec (@ma_step R (@ma_acc_f R RR c0)) (ma_init 10) [OSome (mkDatum 0%Z a); OSome (mkDatum 0%Z b)] = Ok s' /\
    ma_q s' = [mkDatum 0%Z a; mkDatum 0%Z b] /\ exists p, ma_val s' = OSome p /\ d_val p = a.
Proof.
  eexists. split; [cbv -[IZR Rplus Rmult Rdiv Rminus Rinv]; reflexivity|].
  split; [reflexivity|]. eexists. split; [reflexivity|]. cbn [d_val]. field.
Qed.
End MaWitness.

(* ------------------------------------------------------------------ 3. EWMA on the reals *)
Section EwmaReal.
Variable c : cfg.
Local Open Scope R_scope.
Notation estep := (@ewma_step R RR c R (@mix_f R RR)).

(* facts about the model's real power [r_pow] (Num/RR.v): on a base in [0,1] and a non-negative exponent
   it stays in [0,1]; exponent 0 gives 1 *)
Lemma r_pow_01 b x : 0 <= b <= 1 -> 0 <= x -> 0 <= r_pow b x <= 1.
Proof.
  intros Hb Hx. unfold r_pow.
  destruct (Req_bool_spec b 0) as [Eb|Nb].
  - destruct (Req_bool_spec x 0); lra.
  - unfold Rpower. assert (Hln : ln b <= 0).
    { destruct (Req_dec b 1) as [->|N1]; [rewrite ln_1; lra|]. left. rewrite <- ln_1. apply ln_increasing; lra. }
    split; [left; apply exp_pos|].
    assert (Hle : x * ln b <= 0) by nra.
    destruct Hle as [Hlt|Heq]; [left; rewrite <- exp_0; apply exp_increasing; exact Hlt|rewrite Heq, exp_0; lra].
Qed.
Lemma r_pow_0 b : r_pow b 0 = 1.
Proof.
  unfold r_pow. destruct (Req_bool_spec b 0) as [Eb|Nb].
  - rewrite Req_bool_true; reflexivity.
  - unfold Rpower. rewrite Rmult_0_l. apply exp_0.
Qed.
(* L = 1 - (1 - smoothing)^dt *)
Definition lam (sm : R) (t pt : Z) : R := 1 - r_pow (1 - sm) (IZR (t - pt) / 1000000000).
Theorem ewma_lambda_01 sm t pt : 0 <= sm <= 1 -> (pt <= t)%Z -> 0 <= lam sm t pt <= 1.
Proof.
  intros Hsm Ht. unfold lam.
  assert (Hx : 0 <= IZR (t - pt) / 1000000000) by (apply Rmult_le_pos; [apply IZR_le; lia|lra]).
  pose proof (r_pow_01 (1 - sm) _ (ltac:(lra)) Hx). lra.
Qed.
(* a repeated time stamp gives L = 0: the new sample is ignored *)
Lemma lam_same_time sm t : lam sm t t = 0.
Proof. unfold lam. rewrite Z.sub_diag. replace (0 / 1000000000) with 0 by lra. rewrite r_pow_0. lra. Qed.

(* one update with a present sample, first sample after a start/absent/error: returned unchanged, for
   every smoothing constant, and the update cannot panic *)
Theorem ewma_first_sample (s : @ewma R R) (o : datum R) :
  (ew_val s = ONone \/ exists e, ew_val s = OErr e) ->
  estep s (OSome o) = Ok ({| ew_s := ew_s s; ew_val := OSome o; ew_time := Some (d_time o) |}, UOk).
Proof.
  intros Hv. cbn [ewma_step].
  assert (E : match ew_val s with OSome p => (p, ew_time s) | _ => (o, Some (d_time o)) end = (o, Some (d_time o))).
  { destruct Hv as [->|[e ->]]; reflexivity. }
  rewrite E. unfold dt_f. rewrite isub_in by (rewrite Z.sub_diag; reflexivity). cbn [bind].
  unfold mix_f. cbn [bind]. do 3 f_equal. destruct o as [t v]. cbn [d_time d_val].
  apply (f_equal OSome). apply (f_equal (mkDatum t)). set (L := fsub fone (fpow _ _)). change (v * (1 - L) + v * L = v). ring.
Qed.
(* one update with a present sample when a value is present *)
Lemma ewma_step_next (s : @ewma R R) p pt (o : datum R) :
  ew_val s = OSome p -> ew_time s = Some pt ->
  estep s (OSome o) =
  if in_i64 (d_time o - pt)
  then Ok ({| ew_s := ew_s s;
              ew_val := OSome (mkDatum (d_time o) (d_val p * (1 - lam (ew_s s) (d_time o) pt) + d_val o * lam (ew_s s) (d_time o) pt));
              ew_time := Some (d_time o) |}, UOk)
  else Panic.
Proof.
  intros Hv Ht. cbn [ewma_step]. rewrite Hv, Ht. unfold dt_f, isub, i64_ck.
  destruct (in_i64 (d_time o - pt)); reflexivity.
Qed.

(* each output is prev*(1-L) + new*L with L in [0,1], hence between the previous output and the new sample *)
Theorem ewma_step_between (sm : R) (s s' : @ewma R R) p pt (o : datum R) u :
  0 <= sm <= 1 -> ew_s s = sm -> ew_val s = OSome p -> ew_time s = Some pt -> (pt <= d_time o)%Z ->
  estep s (OSome o) = Ok (s', u) ->
  exists L, L = lam sm (d_time o) pt /\ 0 <= L <= 1 /\
    ew_val s' = OSome (mkDatum (d_time o) (d_val p * (1 - L) + d_val o * L)) /\
    Rmin (d_val p) (d_val o) <= d_val p * (1 - L) + d_val o * L <= Rmax (d_val p) (d_val o).
Proof.
  intros Hsm Hs Hv Ht Hle. rewrite (ewma_step_next s p pt o Hv Ht), Hs.
  destruct (in_i64 (d_time o - pt)); [|discriminate]. intros [= <- <-].
  exists (lam sm (d_time o) pt). pose proof (ewma_lambda_01 sm _ _ Hsm Hle) as HL.
  split; [reflexivity|split; [exact HL|split; [reflexivity|]]].
  set (L := lam sm (d_time o) pt) in *. set (a := d_val p). set (b := d_val o).
  unfold Rmin, Rmax. destruct (Rle_dec a b) as [Hab|Hab]; nra.
Qed.

(* state invariant, relative to the samples [acc] received since the last error *)
Definition ew_rel (sm : R) (s : @ewma R R) (acc : list (datum R)) : Prop :=
  ew_s s = sm /\
  match ew_val s with
  | OSome p => between acc (d_val p) /\ ew_time s = Some (d_time p) /\ olast acc = Some (d_time p)
  | _ => acc = []
  end.
Lemma ew_rel_init sm : ew_rel sm (ewma_init sm) [].
Proof. split; reflexivity. Qed.

Lemma ewma_step_rel sm s acc i s' u :
  0 <= sm <= 1 -> ew_rel sm s acc -> mono (olast acc) [i] -> estep s i = Ok (s', u) ->
  ew_rel sm s' (since_reset acc [i]).
Proof.
  intros Hsm [Hs Hv] Hm Hstep. destruct i as [e| |o]; cbn [since_reset].
  - cbn [ewma_step] in Hstep. injection Hstep as <- <-. split; [exact Hs|reflexivity].
  - cbn [ewma_step] in Hstep. destruct (ew_val s) as [e0| |p] eqn:V; injection Hstep as <- <-.
    + split; [exact Hs|exact Hv].
    + split; [exact Hs|]. rewrite V. exact Hv.
    + split; [exact Hs|]. rewrite V. exact Hv.
  - destruct (ew_val s) as [e0| |p] eqn:V.
    + rewrite ewma_first_sample in Hstep by (right; exists e0; exact V). injection Hstep as <- <-.
      subst acc. split; [exact Hs|]. cbn [ew_val ew_time app].
      split; [exists o, o; cbn [In]; split; [left; reflexivity|split; [left; reflexivity|lra]]|split; reflexivity].
    + rewrite ewma_first_sample in Hstep by (left; exact V). injection Hstep as <- <-.
      subst acc. split; [exact Hs|]. cbn [ew_val ew_time app].
      split; [exists o, o; cbn [In]; split; [left; reflexivity|split; [left; reflexivity|lra]]|split; reflexivity].
    + destruct Hv as [[a [b [Ha [Hb Hab]]]] [Ht Hl]].
      cbn [mono] in Hm. rewrite Hl in Hm. destruct Hm as [Hle _].
      rewrite (ewma_step_next s p (d_time p) o V Ht), Hs in Hstep.
      destruct (in_i64 (d_time o - d_time p)); [|discriminate]. injection Hstep as <- <-.
      pose proof (ewma_lambda_01 sm _ _ Hsm Hle) as HL. set (L := lam sm (d_time o) (d_time p)) in *.
      split; [reflexivity|]. cbn [ew_val ew_time d_val d_time]. rewrite olast_app.
      split; [|split; reflexivity].
      destruct (Rle_dec (d_val p) (d_val o)) as [Hc|Hc].
      * exists a, o. split; [apply in_or_app; left; exact Ha|split; [apply in_or_app; right; left; reflexivity|nra]].
      * exists o, b. split; [apply in_or_app; right; left; reflexivity|split; [apply in_or_app; left; exact Hb|nra]].
Qed.

Lemma ewma_exec_rel sm evs : forall s acc s',
  0 <= sm <= 1 -> ew_rel sm s acc -> mono (olast acc) evs -> exec estep s evs = Ok s' ->
  ew_rel sm s' (since_reset acc evs).
Proof.
  induction evs as [|i r IH]; intros s acc s' Hsm Hrel Hm Hex.
  - cbn in Hex. injection Hex as <-. exact Hrel.
  - apply mono_cons in Hm. destruct Hm as [Hm1 Hm2]. cbn [exec] in Hex.
    destruct (estep s i) as [[s1 u]|] eqn:E1; cbn [bind fst] in Hex; [|discriminate].
    rewrite since_reset_cons. apply (IH s1 _ s' Hsm); [|exact Hm2|exact Hex].
    apply (ewma_step_rel sm s acc i s1 u Hsm Hrel Hm1 E1).
Qed.

(* MAIN (EWMA, reals).  For a smoothing constant in [0,1] and every history whose present samples carry
   non-decreasing time stamps since the last error: whenever the stream shows a value, the value lies
   between the smallest and the largest sample received since the last error, and its time stamp is that of
   the newest sample. *)
Theorem ewma_exec_convex (sm : R) (evs : list (out R)) (s' : @ewma R R) :
  0 <= sm <= 1 -> mono None evs -> exec estep (ewma_init sm) evs = Ok s' ->
  forall p, ew_val s' = OSome p ->
    between (since_reset [] evs) (d_val p) /\ olast (since_reset [] evs) = Some (d_time p).
Proof.
  intros Hsm Hm Hex p Hp.
  destruct (ewma_exec_rel sm evs (ewma_init sm) [] s' Hsm (ew_rel_init sm) Hm Hex) as [_ Hv].
  rewrite Hp in Hv. destruct Hv as [Hb [_ Hl]]. split; [exact Hb|exact Hl].
Qed.
(* a constant input yields that constant *)
Theorem ewma_exec_constant (sm : R) (evs : list (out R)) (s' : @ewma R R) (k : R) :
  0 <= sm <= 1 -> mono None evs -> exec estep (ewma_init sm) evs = Ok s' ->
  (forall x, In x (since_reset [] evs) -> d_val x = k) ->
  forall p, ew_val s' = OSome p -> d_val p = k.
Proof.
  intros Hsm Hm Hex Hk p Hp. destruct (ewma_exec_convex sm evs s' Hsm Hm Hex p Hp) as [Hb _].
  apply (between_const _ _ _ Hk Hb).
Qed.
(* the first present sample of a history (after any number of absent/error events) is returned unchanged,
   for every smoothing constant *)
Theorem ewma_exec_first_sample (sm : R) (evs : list (out R)) (o : datum R) :
  (forall x, ~ In (OSome x) evs) ->
  exists s', exec estep (ewma_init sm) (evs ++ [OSome o]) = Ok s' /\ ew_val s' = OSome o.
Proof.
  intros Hno. rewrite exec_app.
  assert (H : forall s, (ew_val s = ONone \/ exists e, ew_val s = OErr e) ->
            exists s1, exec estep s evs = Ok s1 /\ ew_s s1 = ew_s s /\ (ew_val s1 = ONone \/ exists e, ew_val s1 = OErr e)).
  { induction evs as [|i r IH]; intros s Hs.
    - exists s. split; [reflexivity|split; [reflexivity|exact Hs]].
    - assert (Hr : forall x, ~ In (OSome x) r) by (intros x Hx; apply (Hno x); right; exact Hx).
      destruct i as [e| |x].
      + cbn [exec ewma_step bind fst].
        destruct (IH Hr {| ew_s := ew_s s; ew_val := OErr e; ew_time := None |}) as [s1 [E1 [E2 E3]]];
          [right; exists e; reflexivity|]. exists s1. split; [exact E1|split; [exact E2|exact E3]].
      + cbn [exec ewma_step]. destruct Hs as [Hs|[e Hs]]; rewrite Hs; cbn [bind fst].
        * destruct (IH Hr s) as [s1 [E1 [E2 E3]]]; [left; exact Hs|]. exists s1. split; [exact E1|split; [exact E2|exact E3]].
        * destruct (IH Hr {| ew_s := ew_s s; ew_val := ONone; ew_time := None |}) as [s1 [E1 [E2 E3]]];
            [left; reflexivity|]. exists s1. split; [exact E1|split; [exact E2|exact E3]].
      + exfalso. apply (Hno x). left. reflexivity. }
  destruct (H (ewma_init sm)) as [s1 [E1 [_ E3]]]; [left; reflexivity|].
  rewrite E1. cbn [bind exec]. rewrite (ewma_first_sample s1 o E3). cbn [bind fst].
  eexists. split; reflexivity.
Qed.

(* no update panics when all time stamps lie in an interval whose length fits an i64 *)
Definition ew_time_ok (lo hi : Z) (i : out R) : Prop :=
  match i with OSome d => (lo <= d_time d <= hi)%Z | _ => True end.
Lemma ewma_exec_total sm lo hi evs : forall s acc,
  0 <= sm <= 1 -> (hi - lo <= 9223372036854775807)%Z ->
  ew_rel sm s acc -> (forall p, ew_val s = OSome p -> (lo <= d_time p <= hi)%Z) ->
  mono (olast acc) evs -> Forall (ew_time_ok lo hi) evs ->
  exists s', exec estep s evs = Ok s'.
Proof.
  induction evs as [|i r IH]; intros s acc Hsm Hr Hrel Hp Hm Hok.
  - exists s. reflexivity.
  - apply mono_cons in Hm. destruct Hm as [Hm1 Hm2]. inversion Hok as [|i0 r0 Hok1 Hok2]; subst.
    assert (Hstep : exists s1 u, estep s i = Ok (s1, u) /\ forall p, ew_val s1 = OSome p -> (lo <= d_time p <= hi)%Z).
    { destruct i as [e| |o].
      - eexists _, _. split; [reflexivity|]. cbn. discriminate.
      - cbn [ewma_step]. destruct (ew_val s) as [e0| |p0] eqn:V; eexists _, _; (split; [reflexivity|]).
        + cbn. discriminate.
        + rewrite V. discriminate.
        + rewrite V. exact Hp.
      - cbn [ew_time_ok] in Hok1. destruct (ew_val s) as [e0| |p0] eqn:V.
        + rewrite ewma_first_sample by (right; exists e0; exact V). eexists _, _. split; [reflexivity|].
          cbn [ew_val]. intros p [= <-]. exact Hok1.
        + rewrite ewma_first_sample by (left; exact V). eexists _, _. split; [reflexivity|].
          cbn [ew_val]. intros p [= <-]. exact Hok1.
        + destruct Hrel as [Hs Hv]. rewrite V in Hv. destruct Hv as [_ [Ht Hl]].
          cbn [mono] in Hm1. rewrite Hl in Hm1. destruct Hm1 as [Hle _].
          specialize (Hp p0 eq_refl).
          rewrite (ewma_step_next s p0 (d_time p0) o V Ht).
          assert (Hin : in_i64 (d_time o - d_time p0) = true) by (apply in_i64_iff; lia).
          rewrite Hin. eexists _, _. split; [reflexivity|]. cbn [ew_val]. intros p [= <-]. exact Hok1. }
    destruct Hstep as [s1 [u [E1 Hp1]]]. cbn [exec]. rewrite E1. cbn [bind fst].
    apply (IH s1 (since_reset acc [i])); [exact Hsm|exact Hr| |exact Hp1|exact Hm2|exact Hok2].
    apply (ewma_step_rel sm s acc i s1 u Hsm Hrel Hm1 E1).
Qed.
Theorem ewma_exec_no_panic (sm : R) (lo hi : Z) (evs : list (out R)) :
  0 <= sm <= 1 -> (hi - lo <= 9223372036854775807)%Z -> mono None evs -> Forall (ew_time_ok lo hi) evs ->
  exists s', exec estep (ewma_init sm) evs = Ok s'.
Proof.
  intros Hsm Hr Hm Hok.
  apply (ewma_exec_total sm lo hi evs (ewma_init sm) [] Hsm Hr (ew_rel_init sm)); [cbn; discriminate|exact Hm|exact Hok].
Qed.
End EwmaReal.

(* ---- witnesses and satisfiability (EWMA) ---- *)
Section EwmaWitness.
Local Open Scope R_scope.
Let c0 : cfg := {| chk := true; stdf := true |}.
Notation estep0 := (@ewma_step R RR c0 R (@mix_f R RR)).
Definition ew_demo : list (out R) :=
  [ONone; OSome (mkDatum 0%Z 1); OSome (mkDatum 5%Z 3); ONone; OSome (mkDatum 5%Z 2); OSome (mkDatum 30%Z 7);
   OErr FromNone; ONone; OSome (mkDatum 2%Z 4)].
Example ew_demo_hyps : 0 <= / 2 <= 1 /\ (100 - 0 <= 9223372036854775807)%Z /\ mono None ew_demo /\ Forall (ew_time_ok 0 100) ew_demo.
Proof.
  split; [lra|split; [lia|split; [cbn; lia|]]]. repeat constructor; cbn; lia.
Qed.

Example ew_demo_runs : exists s', exec estep0 (ewma_init (/ 2)) ew_demo = Ok s'.
Proof.
  destruct ew_demo_hyps as [H1 [H2 [H3 H4]]]. apply (ewma_exec_no_panic c0 (/ 2) 0 100 ew_demo H1 H2 H3 H4).
Qed.

Lemma r_pow_pos_1 b : 0 < b -> r_pow b 1 = b.
Proof. intros Hb. unfold r_pow. rewrite Req_bool_false by lra. apply Rpower_1, Hb. Qed.
Lemma r_pow_neg_1 b : 0 < b -> r_pow b (-1) = / b.
Proof. intros Hb. unfold r_pow. rewrite Req_bool_false by lra.
  replace (-1) with (- (1)) by lra. rewrite Rpower_Ropp, Rpower_1 by exact Hb. reflexivity.
Qed.

(* whenever (1-smoothing)^dt = 2, i.e. L = -1, the second output of the history  0, 1  is -1, below both samples *)
Lemma ewma_two_samples sm (t0 t1 : Z) :
  in_i64 (t1 - t0) = true -> r_pow (1 - sm) (IZR (t1 - t0) / 1000000000) = 2 ->
  exists s', exec estep0 (ewma_init sm) [OSome (mkDatum t0 0); OSome (mkDatum t1 1)] = Ok s' /\
    exists p, ew_val s' = OSome p /\ d_val p = -1.
Proof.
  intros Hin Hp. cbn [exec]. rewrite ewma_first_sample by (left; reflexivity). cbn [bind fst].
  erewrite ewma_step_next; [|reflexivity|reflexivity].
  cbn [d_time d_val ew_s ewma_init]. rewrite Hin. cbn [bind fst].
  eexists. split; [reflexivity|]. eexists. split; [reflexivity|]. cbn [d_val]. unfold lam. rewrite Hp. lra.
Qed.
(* (a) the time-stamp hypothesis is needed: smoothing 1/2, second sample stamped one second EARLIER *)
Example ewma_not_convex_for_decreasing_times :
  exists s', exec estep0 (ewma_init (/ 2)) [OSome (mkDatum 1000000000%Z 0); OSome (mkDatum 0%Z 1)] = Ok s' /\
    exists p, ew_val s' = OSome p /\ d_val p = -1.
Proof.
  apply ewma_two_samples; [reflexivity|].
  change (0 - 1000000000)%Z with (-1000000000)%Z.
  replace (IZR (-1000000000) / 1000000000) with (-1) by lra. replace (1 - / 2) with (/ 2) by lra.
  rewrite r_pow_neg_1 by lra. field.
Qed.
(* (b) the hypothesis 0 <= smoothing <= 1 is needed: smoothing -1, increasing time stamps one second apart *)
Example ewma_not_convex_for_smoothing_outside_01 :
  exists s', exec estep0 (ewma_init (-1)) [OSome (mkDatum 0%Z 0); OSome (mkDatum 1000000000%Z 1)] = Ok s' /\
    exists p, ew_val s' = OSome p /\ d_val p = -1.
Proof.
  apply ewma_two_samples; [reflexivity|].
  change (1000000000 - 0)%Z with 1000000000%Z.
  replace (IZR 1000000000 / 1000000000) with 1 by lra. replace (1 - -1) with 2 by lra.
  apply r_pow_pos_1. lra.
Qed.
(* a repeated time stamp is allowed and gives L = 0: the output keeps the previous value exactly and the new
   sample is ignored (still inside the range, so the convexity statement is unaffected) *)
Example ewma_repeated_time_ignores_sample sm (t : Z) (a b : R) :
  exec estep0 (ewma_init sm) [OSome (mkDatum t a); OSome (mkDatum t b)]
  = Ok {| ew_s := sm; ew_val := OSome (mkDatum t a); ew_time := Some t |}.
Proof.
  cbn [exec]. rewrite ewma_first_sample by (left; reflexivity). cbn [bind fst].
  erewrite ewma_step_next; [|reflexivity|reflexivity].
  cbn [d_time d_val ew_s ewma_init]. rewrite Z.sub_diag. change (in_i64 0) with true. cbn [bind fst].
  rewrite lam_same_time. do 4 f_equal. ring.
Qed.
End EwmaWitness.

(* ------------------------------------------------------------------ 4. f32 variant = Quantity variant *)
(* generic: a step-wise simulation lifts to the whole trace of states and return values *)
Section Sim.
Context {S1 S2 I1 I2 : Type}.
Variable step1 : S1 -> I1 -> res (S1 * upd).
Variable step2 : S2 -> I2 -> res (S2 * upd).
Variable ps : S2 -> S1.
Variable pi : I2 -> I1.
Variable Inv : S2 -> Prop.
Variable P : I2 -> Prop.
Definition psu (su : S2 * upd) : S1 * upd := (ps (fst su), snd su).
Hypothesis Hsim : forall s i, Inv s -> P i -> step1 (ps s) (pi i) = res_map psu (step2 s i).
Hypothesis Hinv : forall s i s' x, Inv s -> P i -> step2 s i = Ok (s', x) -> Inv s'.
Lemma trace_sim : forall evs s, Inv s -> Forall P evs ->
  trace step1 (ps s) (map pi evs) = res_map (map psu) (trace step2 s evs).
Proof.
  induction evs as [|i r IH]; intros s Hs Hall; [reflexivity|].
  inversion Hall as [|i0 r0 Hi Hr]; subst. cbn [map trace]. rewrite (Hsim s i Hs Hi).
  destruct (step2 s i) as [[s' x]|] eqn:E; cbn [res_map bind]; [|reflexivity].
  unfold psu at 1 2. cbn [fst snd]. rewrite (IH s' (Hinv s i s' x Hs Hi E) Hr).
  destruct (trace step2 s' r) as [tl|]; reflexivity.
Qed.
End Sim.

Section FQ.
Context {F : Type} {NF : Num F}.
Variable c : cfg.
Notation quantity := (@quantity F).
(* the unit every sample of the history carries; it must be a unit the configuration can represent
   (with checking off the Unit struct has no fields, modelled as {0,0}) *)
Variable u : unit_.
Definition unit_wf : Prop := unew c (mm u) (sec u) = u.
Hypothesis Hu : unit_wf.

Definition proj_out (o : out quantity) : out F :=
  match o with OErr e => OErr e | ONone => ONone | OSome d => OSome (dat_map qv d) end.
Definition out_unit (o : out quantity) : Prop :=
  match o with OSome d => qu (d_val d) = u | _ => True end.

Lemma ueqb_refl x : ueqb x x = true.
Proof. unfold ueqb. rewrite !Z.eqb_refl. reflexivity. Qed.
Lemma assert_ok_refl x : assert_ok c x x = Ok tt.
Proof. unfold assert_ok, eq_assume_true. destruct (chk c); [rewrite ueqb_refl|]; reflexivity. Qed.
Lemma umul_dimless : umul c u (U_DIMLESS c) = u.
Proof.
  unfold unit_wf in Hu. unfold umul, U_DIMLESS, unew in *. destruct (chk c); cbn [mm sec]; [|exact Hu].
  rewrite !Z.add_0_r. exact Hu.
Qed.
Lemma udiv_umul_second : udiv c (umul c u (U_SECOND c)) (U_SECOND c) = u.
Proof.
  unfold unit_wf in Hu. unfold udiv, umul, U_SECOND, unew in *. destruct (chk c); cbn [mm sec]; [|exact Hu].
  rewrite <- Hu at 3. f_equal; lia.
Qed.

(* the two mixing functions compute the same number, the Quantity one carries the unit along *)
Lemma mix_q_eq (p n : quantity) (l : F) :
  qu p = u -> qu n = u ->
  mix_q c p n l = Ok (qnew (fadd (fmul (qv p) (fsub fone l)) (fmul (qv n) l)) u).
Proof.
  intros Hp Hn. unfold mix_q, qdimless, qsub, qadd, qmul, qnew, usub, uadd. cbn [qu qv].
  rewrite assert_ok_refl. cbn [bind qu qv]. rewrite Hp, Hn, umul_dimless, assert_ok_refl. reflexivity.
Qed.

(* ---------------- EWMA ---------------- *)
Definition proj_ew (s : @ewma F quantity) : @ewma F F :=
  {| ew_s := ew_s s; ew_val := proj_out (ew_val s); ew_time := ew_time s |}.
Definition ew_unit (s : @ewma F quantity) : Prop := out_unit (ew_val s).
Notation estep_f := (@ewma_step F NF c F (@mix_f F NF)).
Notation estep_q := (@ewma_step F NF c quantity (@mix_q F NF c)).

Lemma ewma_fq_step (s : @ewma F quantity) (i : out quantity) :
  ew_unit s -> out_unit i ->
  estep_f (proj_ew s) (proj_out i) = res_map (psu proj_ew) (estep_q s i) /\
  forall s' x, estep_q s i = Ok (s', x) -> ew_unit s'.
Proof.
  unfold ew_unit. intros Hs Hi. destruct i as [e| |o].
  - split; [reflexivity|]. cbn [ewma_step]. intros s' x [= <- <-]. exact I.
  - cbn [ewma_step proj_out proj_ew ew_val ew_s ew_time].
    destruct (ew_val s) as [e0| |p] eqn:V; cbn [proj_out]; (split; [reflexivity|]);
      intros s' x [= <- <-]; cbn [ew_val]; rewrite ?V; try exact I; exact Hs.
  - cbn [out_unit] in Hi. cbn [ewma_step proj_out proj_ew ew_val ew_s ew_time].
    destruct (ew_val s) as [e0| |p] eqn:V; cbn [proj_out d_time d_val dat_map].
    + destruct (dt_f c (d_time o) (d_time o)) as [dt|]; cbn [bind]; [|split; [reflexivity|discriminate]].
      rewrite (mix_q_eq _ _ _ Hi Hi). unfold mix_f. cbn [bind res_map].
      split; [reflexivity|]. intros s' x [= <- <-]. reflexivity.
    + destruct (dt_f c (d_time o) (d_time o)) as [dt|]; cbn [bind]; [|split; [reflexivity|discriminate]].
      rewrite (mix_q_eq _ _ _ Hi Hi). unfold mix_f. cbn [bind res_map].
      split; [reflexivity|]. intros s' x [= <- <-]. reflexivity.
    + cbn [out_unit] in Hs. destruct (ew_time s) as [pt|]; [|split; [reflexivity|discriminate]].
      destruct (dt_f c (d_time o) pt) as [dt|]; cbn [bind]; [|split; [reflexivity|discriminate]].
      rewrite (mix_q_eq _ _ _ Hs Hi). unfold mix_f. cbn [bind res_map].
      split; [reflexivity|]. intros s' x [= <- <-]. reflexivity.
Qed.

(* MAIN (EWMA, any carrier, checking on or off).  For every history whose samples all carry the unit u,
   started from any Quantity state (whose value, if any, carries u): the f32 filter run on the bare numbers
   goes through exactly the projections of the states of the Quantity filter (same numbers, same time stamps,
   same errors, same return values), and one panics iff the other does. *)
Theorem ewma_fq_trace (evs : list (out quantity)) (s : @ewma F quantity) :
  ew_unit s -> Forall out_unit evs ->
  trace estep_f (proj_ew s) (map proj_out evs) = res_map (map (psu proj_ew)) (trace estep_q s evs).
Proof.
  apply (trace_sim estep_f estep_q proj_ew proj_out ew_unit out_unit).
  - intros s0 i Hs Hi. apply (ewma_fq_step s0 i Hs Hi).
  - intros s0 i s' x Hs Hi. apply (ewma_fq_step s0 i Hs Hi).
Qed.

(* ---------------- moving average ---------------- *)
Definition proj_ma (s : @mavg quantity) : @mavg F :=
  {| ma_win := ma_win s; ma_val := proj_out (ma_val s); ma_q := map (dat_map qv) (ma_q s) |}.
Definition q_unit (q : list (datum quantity)) : Prop := Forall (fun d => qu (d_val d) = u) q.
Definition ma_unit (s : @mavg quantity) : Prop := out_unit (ma_val s) /\ q_unit (ma_q s).
Notation mstep_f := (@ma_step F (@ma_acc_f F NF c)).
Notation mstep_q := (@ma_step quantity (@ma_acc_q F NF c)).

Lemma ma_trim_map {A B} (f : A -> B) (q : list (datum A)) bound :
  ma_trim (map (dat_map f) q) bound = map (dat_map f) (ma_trim q bound).
Proof.
  induction q as [|d r IH]; [reflexivity|]. cbn [map ma_trim dat_map d_time].
  destruct (d_time d <=? bound); [exact IH|reflexivity].
Qed.
Lemma ma_weights_map {A B} (f : A -> B) (q : list (datum A)) start :
  ma_weights (map (dat_map f) q) start = ma_weights q start.
Proof.
  revert start. induction q as [|d r IH]; intros start; [reflexivity|]. cbn [map ma_weights dat_map d_time].
  destruct (isub (d_time d) start); cbn [bind]; [|reflexivity]. rewrite IH. reflexivity.
Qed.
Lemma ma_weights_length {A} (q : list (datum A)) start ws : ma_weights q start = Ok ws -> length ws = length q.
Proof. intros H. apply ma_weights_ok in H. subst ws. revert start. induction q as [|d r IH]; intros start; cbn; [reflexivity|]. rewrite IH. reflexivity. Qed.

(* the Quantity accumulation loop: same additions and multiplications as the f32 loop, started from the
   accumulator's value, unit of the accumulator kept *)
Lemma ma_sum_q_eq (r : list (datum quantity)) : forall (wr : list Z) (a : quantity),
  q_unit r -> qu a = umul c u (U_SECOND c) ->
  ma_sum_q c r wr a = Ok (qnew (ma_sum_f c (map (dat_map qv) r) wr (qv a)) (qu a)).
Proof.
  induction r as [|d r' IH]; intros wr a Hr Ha.
  - cbn [ma_sum_q map ma_sum_f]. destruct a; reflexivity.
  - destruct wr as [|w wr']; [cbn [ma_sum_q map ma_sum_f]; destruct a; reflexivity|].
    inversion Hr as [|d0 r0 Hd Hr']; subst.
    cbn [ma_sum_q map ma_sum_f dat_map d_val].
    unfold qadd, uadd, qmul, qnew. cbn [qu qv]. rewrite Hd.
    change (qu (q_of_time c w)) with (U_SECOND c). rewrite Ha, assert_ok_refl. cbn [bind].
    rewrite IH; [|exact Hr'|reflexivity]. cbn [qu qv]. reflexivity.
Qed.
(* where the two variants differ: the f32 one starts from T::default() = 0.0 and adds the first product to
   it, the Quantity one starts from the first product *)
Lemma ma_acc_f_value (d : datum F) r w wr win :
  ma_acc_f c (d :: r) (w :: wr) win
  = Ok (fdiv (ma_sum_f c r wr (fadd fzero (fmul (d_val d) (qv (q_of_time c w))))) (qv (q_of_time c win))).
Proof. reflexivity. Qed.
Lemma ma_acc_q_value (d : datum quantity) r w wr win :
  q_unit (d :: r) ->
  ma_acc_q c (d :: r) (w :: wr) win
  = Ok (qnew (fdiv (ma_sum_f c (map (dat_map qv) r) wr (fmul (qv (d_val d)) (qv (q_of_time c w)))) (qv (q_of_time c win))) u).
Proof.
  intros Hq. inversion Hq as [|d0 r0 Hd Hr]; subst. cbn [ma_acc_q].
  rewrite (ma_sum_q_eq r wr (qmul c (d_val d) (q_of_time c w)) Hr)
    by (unfold qmul, qnew; cbn [qu]; rewrite Hd; reflexivity).
  cbn [bind]. unfold qdiv, qmul, qnew. cbn [qu qv]. rewrite Hd.
  change (qu (q_of_time c w)) with (U_SECOND c). change (qu (q_of_time c win)) with (U_SECOND c).
  rewrite udiv_umul_second. reflexivity.
Qed.

Section Add0.
(* the one law needed: adding to the initial 0.0 changes nothing.  True on the reals; on binary32 it fails
   exactly for x = -0.0 (0.0 + -0.0 = +0.0), see [ma_fq_differ_b32] below. *)
Hypothesis Hadd0 : forall x : F, fadd fzero x = x.

Lemma ma_fq_step (s : @mavg quantity) (i : out quantity) :
  ma_unit s -> out_unit i ->
  mstep_f (proj_ma s) (proj_out i) = res_map (psu proj_ma) (mstep_q s i) /\
  forall s' x, mstep_q s i = Ok (s', x) -> ma_unit s'.
Proof.
  intros [Hv Hq] Hi. destruct i as [e| |o].
  - split; [reflexivity|]. cbn [ma_step]. intros s' x [= <- <-]. split; [exact I|constructor].
  - cbn [ma_step proj_out proj_ma ma_val ma_win ma_q].
    destruct (ma_val s) as [e0| |p] eqn:V; cbn [proj_out]; (split; [reflexivity|]);
      intros s' x [= <- <-]; (split; [cbn [ma_val]; rewrite ?V; try exact I; exact Hv|exact Hq]).
  - cbn [out_unit] in Hi. cbn [ma_step proj_out proj_ma ma_val ma_win ma_q dat_map d_time].
    destruct (isub (d_time o) (ma_win s)) as [bound|]; cbn [bind]; [|split; [reflexivity|discriminate]].
    change [dat_map qv o] with (map (dat_map qv) [o]).
    rewrite <- map_app, ma_trim_map.
    assert (Hq1 : q_unit (ma_trim (ma_q s ++ [o]) bound)).
    { destruct (ma_trim_suffix (ma_q s ++ [o]) bound) as [pre Hpre].
      assert (Hall : q_unit (ma_q s ++ [o])) by (apply Forall_app; split; [exact Hq|constructor; [exact Hi|constructor]]).
      rewrite Hpre in Hall. apply Forall_app in Hall. apply Hall. }
    destruct (ma_trim (ma_q s ++ [o]) bound) as [|d r] eqn:Et; [split; [reflexivity|discriminate]|].
    cbn [map].
    change (dat_map qv d :: map (dat_map qv) r) with (map (dat_map qv) (d :: r)).
    rewrite ma_weights_map.
    destruct (ma_weights (d :: r) bound) as [ws|] eqn:Ew; cbn [bind]; [|split; [reflexivity|discriminate]].
    pose proof (ma_weights_length _ _ _ Ew) as Hlen.
    destruct ws as [|w wr]; [discriminate|].
    rewrite (ma_acc_q_value d r w wr (ma_win s) Hq1). cbn [map]. rewrite ma_acc_f_value, Hadd0.
    cbn [bind res_map dat_map d_val]. split; [reflexivity|].
    intros s' x [= <- <-]. split; [reflexivity|exact Hq1].
Qed.

(* MAIN (moving average, any carrier satisfying 0 + x = x, checking on or off): same statement as for EWMA *)
Theorem ma_fq_trace (evs : list (out quantity)) (s : @mavg quantity) :
  ma_unit s -> Forall out_unit evs ->
  trace mstep_f (proj_ma s) (map proj_out evs) = res_map (map (psu proj_ma)) (trace mstep_q s evs).
Proof.
  apply (trace_sim mstep_f mstep_q proj_ma proj_out ma_unit out_unit).
  - intros s0 i Hs Hi. apply (ma_fq_step s0 i Hs Hi).
  - intros s0 i s' x Hs Hi. apply (ma_fq_step s0 i Hs Hi).
Qed.
End Add0.
End FQ.

(* ---- instances, satisfiability, and the binary32 witness of the one difference ---- *)
(* every unit is representable with checking on; with checking off only the field-less unit *)
Example unit_wf_checked (u : unit_) : unit_wf {| chk := true; stdf := true |} u.
Proof. destruct u; reflexivity. Qed.
Example unit_wf_unchecked : unit_wf {| chk := false; stdf := false |} {| mm := 0; sec := 0 |}.
Proof. reflexivity. Qed.
(* on the reals the law 0 + x = x holds, so the two moving averages agree for every history *)
Corollary ma_fq_trace_RR (c : cfg) (u : unit_) (evs : list (out (@quantity R))) (s : @mavg (@quantity R)) :
  unit_wf c u -> ma_unit u s -> Forall (out_unit u) evs ->
  trace (@ma_step R (@ma_acc_f R RR c)) (proj_ma s) (map proj_out evs)
  = res_map (map (psu proj_ma)) (trace (@ma_step (@quantity R) (@ma_acc_q R RR c)) s evs).
Proof. intros Hu. apply (ma_fq_trace c u Hu). intros x. apply Rplus_0_l. Qed.
(* a non-trivial history that meets the hypotheses (millimetres, checking on) *)
Example fq_demo_hyps :
  let c := {| chk := true; stdf := true |} in
  let u := {| mm := 1; sec := 0 |} in
  let evs : list (out (@quantity R)) :=
    [OSome (mkDatum 0 (qnew 1%R u)); ONone; OSome (mkDatum 5 (qnew 3%R u)); OErr FromNone; OSome (mkDatum 7 (qnew 2%R u))] in
  unit_wf c u /\ @ma_unit R u (ma_init 10) /\ @ew_unit R u (ewma_init (/ 2)%R) /\ Forall (out_unit u) evs.
Proof.
  cbn zeta. split; [reflexivity|split; [split; [exact I|constructor]|split; [exact I|]]].
  repeat constructor.
Qed.

(* the hypothesis "all samples carry the same unit" is needed with checking on: the Quantity variant panics
   on the unit assertion where the f32 variant, which sees bare numbers, does not *)
Example ewma_q_mixed_units_panics :
  let c := {| chk := true; stdf := true |} in
  exec (@ewma_step R RR c (@quantity R) (@mix_q R RR c)) (ewma_init (/ 2)%R)
    [OSome (mkDatum 0 (qnew 1%R {| mm := 1; sec := 0 |})); OSome (mkDatum 1 (qnew 1%R {| mm := 0; sec := 1 |}))] = Panic.
Proof. cbv -[IZR Rplus Rmult Rdiv Rminus Rinv r_pow]. reflexivity. Qed.

(* On binary32 the law fails for exactly one operand, x = -0.0, and there the two moving averages do differ
   (in the sign of a zero result only): a single sample -0.0 gives +0.0 in the f32 variant and -0.0 in the
   Quantity variant.  So on binary32 "the same numbers" holds up to the sign of zero, not bit for bit. *)
From Flocq Require Import IEEE754.BinarySingleNaN.
From RRTK Require Import Num.B32.
Example b32_add0_negzero : @fadd f32 B32 fzero (B754_zero true) = B754_zero false.
Proof. vm_compute. reflexivity. Qed.
Example ma_fq_differ_b32 :
  let c := {| chk := true; stdf := true |} in
  let u := {| mm := 1; sec := 0 |} in
  let nz : f32 := B754_zero true in
  (exists sf, @ma_step f32 (@ma_acc_f f32 B32 c) (ma_init 10) (OSome (mkDatum 0 nz)) = Ok (sf, UOk) /\
              ma_val sf = OSome (mkDatum 0 (B754_zero false))) /\
  (exists sq, @ma_step (@quantity f32) (@ma_acc_q f32 B32 c) (ma_init 10) (OSome (mkDatum 0 (qnew nz u))) = Ok (sq, UOk) /\
              ma_val sq = OSome (mkDatum 0 (qnew (B754_zero true) u))).
Proof. cbn zeta. split; eexists; (split; [vm_compute; reflexivity|reflexivity]). Qed.

(* ---------------- moving average without the law 0 + x = x: agreement up to a relation ---------------- *)
Definition res_rel {A B} (R : A -> B -> Prop) (x : res A) (y : res B) : Prop :=
  match x, y with Ok a, Ok b => R a b | Panic, Panic => True | _, _ => False end.
Section Rel.
Context {S1 S2 I1 I2 : Type}.
Variable step1 : S1 -> I1 -> res (S1 * upd).
Variable step2 : S2 -> I2 -> res (S2 * upd).
Variable pi : I2 -> I1.
Variable Rs : S1 -> S2 -> Prop.
Variable P : I2 -> Prop.
Definition su_rel (a : S1 * upd) (b : S2 * upd) : Prop := Rs (fst a) (fst b) /\ snd a = snd b.
Hypothesis Hstep : forall s1 s2 i, Rs s1 s2 -> P i -> res_rel su_rel (step1 s1 (pi i)) (step2 s2 i).
Lemma trace_rel : forall evs s1 s2, Rs s1 s2 -> Forall P evs ->
  res_rel (Forall2 su_rel) (trace step1 s1 (map pi evs)) (trace step2 s2 evs).
Proof.
  induction evs as [|i r IH]; intros s1 s2 Hs Hall; [constructor|].
  inversion Hall as [|i0 r0 Hi Hr]; subst. cbn [map trace].
  pose proof (Hstep s1 s2 i Hs Hi) as H1.
  destruct (step1 s1 (pi i)) as [[s1' x1]|]; destruct (step2 s2 i) as [[s2' x2]|]; cbn [res_rel bind] in *;
    try contradiction; [|exact I].
  destruct H1 as [Hs' Hx]. cbn [fst snd] in Hs', Hx |- *. specialize (IH s1' s2' Hs' Hr).
  destruct (trace step1 s1' (map pi r)) as [t1|]; destruct (trace step2 s2' r) as [t2|]; cbn [res_rel bind] in *;
    try contradiction; [|exact I].
  constructor; [split; [exact Hs'|exact Hx]|exact IH].
Qed.
End Rel.

Section Approx.
Context {F : Type} {NF : Num F}.
Variable c : cfg.
Variable u : unit_.
Hypothesis Hu : unit_wf c u.
(* "same number": any relation that absorbs the initial 0 + x and is respected by adding
   to the accumulator and by the final division *)
Variable req : F -> F -> Prop.
Hypothesis req_add0 : forall x, req (fadd fzero x) x.
Hypothesis req_add : forall a a' x, req a a' -> req (fadd a x) (fadd a' x).
Hypothesis req_div : forall a a' w, req a a' -> req (fdiv a w) (fdiv a' w).

Definition out_rel (o1 : out F) (o2 : out (@quantity F)) : Prop :=
  match o1, o2 with
  | OErr e1, OErr e2 => e1 = e2
  | ONone, ONone => True
  | OSome d1, OSome d2 => d_time d1 = d_time d2 /\ req (d_val d1) (qv (d_val d2))
  | _, _ => False
  end.
(* same window, same queue (the queue holds input samples only), outputs related; units as before *)
Definition ma_srel (s1 : @mavg F) (s2 : @mavg (@quantity F)) : Prop :=
  ma_win s1 = ma_win s2 /\ ma_q s1 = map (dat_map qv) (ma_q s2) /\ out_rel (ma_val s1) (ma_val s2) /\ ma_unit u s2.

Lemma ma_sum_f_req (r : list (datum F)) : forall wr a a', req a a' -> req (ma_sum_f c r wr a) (ma_sum_f c r wr a').
Proof.
  induction r as [|d r' IH]; intros wr a a' Ha; [exact Ha|].
  destruct wr as [|w wr']; [exact Ha|]. cbn [ma_sum_f]. apply IH, req_add, Ha.
Qed.

Lemma ma_fq_step_rel (s1 : @mavg F) (s2 : @mavg (@quantity F)) (i : out (@quantity F)) :
  ma_srel s1 s2 -> out_unit u i ->
  res_rel (su_rel ma_srel) (@ma_step F (@ma_acc_f F NF c) s1 (proj_out i)) (@ma_step (@quantity F) (@ma_acc_q F NF c) s2 i).
Proof.
  intros [Hw [Hq [Hv [Hu1 Hu2]]]] Hi. destruct i as [e| |o].
  - cbn [proj_out ma_step res_rel]. split; [|reflexivity]. cbn [fst ma_win ma_q ma_val].
    split; [exact Hw|split; [reflexivity|split; [reflexivity|split; [exact I|constructor]]]].
  - cbn [proj_out ma_step].
    destruct (ma_val s1) as [e1| |p1] eqn:V1; destruct (ma_val s2) as [e2| |p2] eqn:V2; cbn [out_rel] in Hv; try contradiction;
      cbn [res_rel]; (split; [|reflexivity]); cbn [fst ma_win ma_q ma_val];
      (split; [exact Hw|split; [exact Hq|split; [|split; [|exact Hu2]]]]);
      rewrite ?V1, ?V2; cbn [out_rel out_unit]; try exact I; try exact Hv; exact Hu1.
  - cbn [out_unit] in Hi. cbn [proj_out ma_step]. change (d_time (dat_map qv o)) with (d_time o). rewrite Hw, Hq.
    destruct (isub (d_time o) (ma_win s2)) as [bound|]; cbn [bind]; [|exact I].
    change [dat_map qv o] with (map (dat_map (@qv F)) [o]).
    rewrite <- map_app, ma_trim_map.
    assert (Hq1 : q_unit u (ma_trim (ma_q s2 ++ [o]) bound)).
    { destruct (ma_trim_suffix (ma_q s2 ++ [o]) bound) as [pre Hpre].
      assert (Hall : q_unit u (ma_q s2 ++ [o])) by (apply Forall_app; split; [exact Hu2|constructor; [exact Hi|constructor]]).
      rewrite Hpre in Hall. apply Forall_app in Hall. apply Hall. }
    destruct (ma_trim (ma_q s2 ++ [o]) bound) as [|d r] eqn:Et; [exact I|].
    cbn [map]. change (dat_map qv d :: map (dat_map qv) r) with (map (dat_map (@qv F)) (d :: r)).
    rewrite ma_weights_map.
    destruct (ma_weights (d :: r) bound) as [ws|] eqn:Ew; cbn [bind]; [|exact I].
    pose proof (ma_weights_length _ _ _ Ew) as Hlen.
    destruct ws as [|w wr]; [discriminate|].
    rewrite (ma_acc_q_value c u Hu d r w wr (ma_win s2) Hq1). cbn [map]. rewrite ma_acc_f_value.
    cbn [bind res_rel]. split; [|reflexivity]. cbn [fst ma_win ma_q ma_val].
    split; [reflexivity|split; [reflexivity|split; [|split; [reflexivity|exact Hq1]]]].
    cbn [out_rel d_time d_val qv qnew]. split; [reflexivity|].
    apply req_div, ma_sum_f_req, req_add0.
Qed.

Theorem ma_fq_trace_rel (evs : list (out (@quantity F))) (s1 : @mavg F) (s2 : @mavg (@quantity F)) :
  ma_srel s1 s2 -> Forall (out_unit u) evs ->
  res_rel (Forall2 (su_rel ma_srel))
    (trace (@ma_step F (@ma_acc_f F NF c)) s1 (map proj_out evs))
    (trace (@ma_step (@quantity F) (@ma_acc_q F NF c)) s2 evs).
Proof. apply trace_rel. exact ma_fq_step_rel. Qed.
End Approx.

(* binary32 (any powf table): the two moving averages agree up to the sign of a zero, for every history *)
Definition zeq (a b : f32) : Prop := a = b \/ exists s s', a = B754_zero s /\ b = B754_zero s'.
Lemma zeq_refl x : zeq x x. Proof. left. reflexivity. Qed.
Lemma zeq_add (a a' x : f32) : zeq a a' -> zeq (b32_add a x) (b32_add a' x).
Proof.
  intros [->|[s [s' [-> ->]]]]; [left; reflexivity|].
  destruct x as [sx| | |sx m e H]; [|left; reflexivity|left; reflexivity|left; reflexivity].
  right. destruct s, s', sx; cbn; eauto.
Qed.
Lemma zeq_add0 (x : f32) : zeq (b32_add (b32_of_Z 0) x) x.
Proof.
  assert (E : b32_of_Z 0 = B754_zero false) by (vm_compute; reflexivity). rewrite E.
  destruct x as [sx| | |sx m e H]; [|left; reflexivity|left; reflexivity|left; reflexivity].
  right. destruct sx; cbn; eauto.
Qed.
Lemma zeq_div (a a' w : f32) : zeq a a' -> zeq (b32_div a w) (b32_div a' w).
Proof.
  intros [->|[s [s' [-> ->]]]]; [left; reflexivity|].
  destruct w as [sw|sw| |sw m e H]; [left; reflexivity|right; cbn; eauto|left; reflexivity|right; cbn; eauto].
Qed.
Theorem ma_fq_trace_b32 (tbl : list (Z * Z * Z)) (c : cfg) (u : unit_)
    (evs : list (out (@quantity f32))) (s1 : @mavg f32) (s2 : @mavg (@quantity f32)) :
  unit_wf c u -> ma_srel u zeq s1 s2 -> Forall (out_unit u) evs ->
  res_rel (Forall2 (su_rel (ma_srel u zeq)))
    (trace (@ma_step f32 (@ma_acc_f f32 (B32_with_pow tbl) c)) s1 (map proj_out evs))
    (trace (@ma_step (@quantity f32) (@ma_acc_q f32 (B32_with_pow tbl) c)) s2 evs).
Proof.
  intros Hu. apply (@ma_fq_trace_rel f32 (B32_with_pow tbl) c u Hu zeq zeq_add0 zeq_add zeq_div).
Qed.
Example ma_srel_init_b32 (u : unit_) (w : Z) : ma_srel u zeq (ma_init w) (ma_init w).
Proof. split; [reflexivity|split; [reflexivity|split; [exact I|split; [exact I|constructor]]]]. Qed.

Print Assumptions ma_exec_convex.
Print Assumptions ma_exec_constant.
Print Assumptions ma_exec_constant_history.
Print Assumptions ma_exec_no_panic.
Print Assumptions ma_not_convex_for_decreasing_times.
Print Assumptions ewma_lambda_01.
Print Assumptions ewma_first_sample.
Print Assumptions ewma_step_between.
Print Assumptions ewma_exec_convex.
Print Assumptions ewma_exec_constant.
Print Assumptions ewma_exec_first_sample.
Print Assumptions ewma_exec_no_panic.
Print Assumptions ewma_not_convex_for_decreasing_times.
Print Assumptions ewma_not_convex_for_smoothing_outside_01.
Print Assumptions ewma_repeated_time_ignores_sample.
Print Assumptions ewma_fq_trace.
Print Assumptions ma_fq_trace.
Print Assumptions ma_fq_trace_RR.
Print Assumptions ma_fq_trace_rel.
Print Assumptions ma_fq_trace_b32.
Print Assumptions ma_fq_differ_b32.
