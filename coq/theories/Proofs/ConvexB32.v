(* C12 on binary32: the EWMA mixing step and the two-sample moving average stay between the smallest and
   the largest contributing sample up to an explicit rounding bound; exact monotonicity facts of the
   binary32 operations used on the way.  All statements are about the model's own definitions
   ([mix_f], [ma_acc_f] of Model/Streams.v) at the bit-exact binary32 instance [B32_with_pow tbl]. *)
From Coq Require Import ZArith Bool Reals Lia Lra Psatz SpecFloat List.
From Flocq Require Import Core.Core IEEE754.Binary IEEE754.Bits.
From Flocq Require Import Relative Plus_error Sterbenz.
(* BinarySingleNaN last, so that unqualified names (Bplus, B2R, ...) are its own. *)
From Flocq Require Import IEEE754.BinarySingleNaN.
From RRTK Require Import Num.Num Num.B32 Model.Values Model.Streams Proofs.B32Laws Proofs.B32Laws2.
Import ListNotations.

Notation rnd32 := (round radix2 (FLT_exp (-149) 24) ZnearestE).
Notation fmt32 := (generic_format radix2 (FLT_exp (-149) 24)).
Notation u32 := (bpow radix2 (-24)).

Local Open Scope R_scope.

(* ================================================================ 0. real-valued semantics of the operations *)

Lemma fmt_B2R (x : f32) : fmt32 (B2R x).
Proof. apply (generic_format_B2R 24 128). Qed.

Lemma b32_mul_R (x y : f32) : is_finite x = true -> is_finite y = true ->
  is_finite (b32_mul x y) = true -> B2R (b32_mul x y) = rnd32 (B2R x * B2R y).
Proof.
  intros Fx Fy Fr. unfold b32_mul in *.
  generalize (Bmult_correct 24 128 Hprec32 Hmax32 mode_NE x y).
  change (round radix2 (fexp 24 128) (round_mode mode_NE)) with rnd32.
  case Rlt_bool.
  - intros (H1 & _). exact H1.
  - intros H. rewrite <- is_finite_SF_B2SF, H in Fr. discriminate.
Qed.

Lemma b32_add_R (x y : f32) : is_finite x = true -> is_finite y = true ->
  is_finite (b32_add x y) = true -> B2R (b32_add x y) = rnd32 (B2R x + B2R y).
Proof.
  intros Fx Fy Fr. unfold b32_add in *.
  generalize (Bplus_correct 24 128 Hprec32 Hmax32 mode_NE x y Fx Fy).
  change (round radix2 (fexp 24 128) (round_mode mode_NE)) with rnd32.
  case Rlt_bool.
  - intros (H1 & _). exact H1.
  - intros (H & _). rewrite <- is_finite_SF_B2SF, H in Fr. discriminate.
Qed.

Lemma b32_div_R (x y : f32) : is_finite x = true -> B2R y <> 0 ->
  is_finite (b32_div x y) = true -> B2R (b32_div x y) = rnd32 (B2R x / B2R y).
Proof.
  intros Fx Ny Fr. unfold b32_div in *.
  generalize (Bdiv_correct 24 128 Hprec32 Hmax32 mode_NE x y Ny).
  change (round radix2 (fexp 24 128) (round_mode mode_NE)) with rnd32.
  case Rlt_bool.
  - intros (H1 & _). exact H1.
  - intros H. rewrite <- is_finite_SF_B2SF, H in Fr. discriminate.
Qed.

(* a product whose exact value is no larger in magnitude than a finite binary32 number cannot overflow *)
Lemma b32_mul_small (x y z : f32) : is_finite x = true -> is_finite y = true -> is_finite z = true ->
  Rabs (B2R x * B2R y) <= Rabs (B2R z) ->
  is_finite (b32_mul x y) = true /\ B2R (b32_mul x y) = rnd32 (B2R x * B2R y) /\
  Rabs (rnd32 (B2R x * B2R y)) <= Rabs (B2R z).
Proof.
  intros Fx Fy Fz Hle.
  assert (Hr : Rabs (rnd32 (B2R x * B2R y)) <= Rabs (B2R z)).
  { apply abs_round_le_generic; auto with typeclass_instances.
    apply generic_format_abs, fmt_B2R. }
  generalize (Bmult_correct 24 128 Hprec32 Hmax32 mode_NE x y).
  change (round radix2 (fexp 24 128) (round_mode mode_NE)) with rnd32.
  rewrite Rlt_bool_true.
  - rewrite Fx, Fy. intros (H1 & H2 & _). unfold b32_mul. now repeat split.
  - apply Rle_lt_trans with (1 := Hr). apply (abs_B2R_lt_emax 24 128).
Qed.

Definition one32 : f32 := b32_of_Z 1.
Lemma one32_R : B2R one32 = 1. Proof. exact (proj1 one_exact). Qed.
Lemma one32_fin : is_finite one32 = true. Proof. exact (proj1 (proj2 one_exact)). Qed.
Lemma fmt32_1 : fmt32 1.
Proof. change 1 with (bpow radix2 0). apply format32_bpow. lia. Qed.

Lemma u32_val : u32 = / 16777216.
Proof. change (-24)%Z with (- (24))%Z. rewrite bpow_opp. reflexivity. Qed.

(* ================================================================ 1. rounding errors *)

(* half an ulp, for arguments of magnitude at most 1: the absolute error is 2^-25 *)
Lemma rnd32_err_le1 x : Rabs x <= 1 -> Rabs (rnd32 x - x) <= u32 / 2.
Proof.
  intros Hx. assert (Hu : 0 < u32) by apply bpow_gt_0.
  destruct (Req_dec x 0) as [->|Nz].
  { rewrite round_0; auto with typeclass_instances. rewrite Rminus_0_r, Rabs_R0. lra. }
  destruct (Rle_lt_or_eq_dec _ _ Hx) as [Hlt|Heq].
  - eapply Rle_trans; [apply error_le_half_ulp; auto with typeclass_instances|].
    rewrite ulp_neq_0 by exact Nz.
    assert (Hm : (mag radix2 x <= 0)%Z) by (apply mag_le_bpow; [exact Nz|exact Hlt]).
    assert (Hc : (cexp radix2 (FLT_exp (-149) 24) x <= -24)%Z) by (unfold cexp, FLT_exp; lia).
    apply (bpow_le radix2) in Hc. lra.
  - rewrite round_generic; auto with typeclass_instances.
    + rewrite Rminus_diag_eq by reflexivity. rewrite Rabs_R0. lra.
    + destruct (Rcase_abs x) as [Hn|Hp].
      * rewrite Rabs_left in Heq by exact Hn. replace x with (- (1)) by lra.
        apply generic_format_opp, fmt32_1.
      * rewrite Rabs_right in Heq by exact Hp. rewrite Heq. apply fmt32_1.
Qed.

(* relative error u plus an absolute underflow term 2^-150, no side condition *)
Lemma rnd32_err_gen x : Rabs (rnd32 x - x) <= u32 * Rabs x + bpow radix2 (-150).
Proof.
  assert (0 <= u32 * Rabs x) by (apply Rmult_le_pos; [apply bpow_ge_0|apply Rabs_pos]).
  assert (0 < bpow radix2 (-150)) by apply bpow_gt_0.
  destruct (Rle_or_lt (bpow radix2 (-126)) (Rabs x)) as [Hn|Hs].
  - generalize (rel32 x Hn). lra.
  - eapply Rle_trans; [apply error_le_half_ulp; auto with typeclass_instances|].
    rewrite ulp_FLT_small.
    + change (-150)%Z with (-1 + -149)%Z. rewrite bpow_plus. change (bpow radix2 (-1)) with (/2). lra.
    + reflexivity.
    + apply Rlt_trans with (1 := Hs). apply bpow_lt. reflexivity.
Qed.

(* when the ROUNDED value is in the normal range, the relative error with respect to the exact value is
   at most u(1+2u): the only loss against [rel32] is for exact values a hair below 2^-126 *)
Lemma rnd32_err_res x : bpow radix2 (-126) <= Rabs (rnd32 x) ->
  Rabs (rnd32 x - x) <= (u32 + 2 * (u32 * u32)) * Rabs x.
Proof.
  intros Hr.
  assert (Hu : 0 < u32 <= / 16) by (rewrite u32_val; lra).
  assert (Hx0 : 0 <= Rabs x) by apply Rabs_pos.
  destruct (Rle_or_lt (bpow radix2 (-126)) (Rabs x)) as [Hn|Hs].
  - generalize (rel32 x Hn). nra.
  - assert (He : Rabs (rnd32 x - x) <= bpow radix2 (-150)).
    { eapply Rle_trans; [apply error_le_half_ulp; auto with typeclass_instances|].
      rewrite ulp_FLT_small.
      + change (-150)%Z with (-1 + -149)%Z. rewrite bpow_plus. change (bpow radix2 (-1)) with (/2). lra.
      + reflexivity.
      + apply Rlt_trans with (1 := Hs). apply bpow_lt. reflexivity. }
    assert (Em : bpow radix2 (-150) = u32 * bpow radix2 (-126)) by (rewrite <- bpow_plus; reflexivity).
    assert (Hm : 0 < bpow radix2 (-126)) by apply bpow_gt_0.
    set (m := bpow radix2 (-126)) in *. rewrite Em in He.
    assert (Hx : m - u32 * m <= Rabs x).
    { replace x with (rnd32 x - (rnd32 x - x)) by ring.
      eapply Rle_trans; [|apply Rabs_triang_inv]. lra. }
    apply Rle_trans with (1 := He).
    assert (0 <= u32 * m * (1 - 2 * u32)) by (apply Rmult_le_pos; nra).
    nra.
Qed.

(* a sum of two binary32 numbers: relative error u with no side condition (small sums are exact) *)
Lemma rnd32_err_plus x y : fmt32 x -> fmt32 y -> Rabs (rnd32 (x + y) - (x + y)) <= u32 * Rabs (x + y).
Proof.
  intros Fx Fy.
  destruct (Rle_or_lt (bpow radix2 (-126)) (Rabs (x + y))) as [Hn|Hs].
  - apply rel32. exact Hn.
  - rewrite round_generic; auto with typeclass_instances.
    + rewrite Rminus_diag_eq by reflexivity. rewrite Rabs_R0.
      apply Rmult_le_pos; [apply bpow_ge_0|apply Rabs_pos].
    + apply FLT_format_plus_small; [exact Hprec32|exact Fx|exact Fy|].
      apply Rlt_le, Rlt_trans with (1 := Hs). apply bpow_lt. reflexivity.
Qed.

(* ================================================================ 2. exact facts (no rounding slack) *)

Lemma Bleb_R (x y : f32) : is_finite x = true -> is_finite y = true ->
  (Bleb x y = true <-> B2R x <= B2R y).
Proof.
  intros Fx Fy. rewrite Bleb_correct by assumption. split.
  - case Rle_bool_spec; [intros H _; exact H|discriminate].
  - intros H. now apply Rle_bool_true.
Qed.

(* 2a. rounding is monotone, hence so are the operations (whenever their results are finite) *)
Lemma rnd32_le x y : x <= y -> rnd32 x <= rnd32 y.
Proof. intros H. apply round_le; auto with typeclass_instances. Qed.

Lemma rnd32_id (x : f32) : rnd32 (B2R x) = B2R x.
Proof. apply round_generic; auto with typeclass_instances. apply fmt_B2R. Qed.

Lemma b32_add_monotone (x y x' y' : f32) :
  is_finite x = true -> is_finite y = true -> is_finite x' = true -> is_finite y' = true ->
  is_finite (b32_add x y) = true -> is_finite (b32_add x' y') = true ->
  Bleb x x' = true -> Bleb y y' = true -> Bleb (b32_add x y) (b32_add x' y') = true.
Proof.
  intros Fx Fy Fx' Fy' Fs Fs' Hx Hy.
  apply Bleb_R in Hx; try assumption. apply Bleb_R in Hy; try assumption.
  apply Bleb_R; try assumption. rewrite !b32_add_R by assumption. apply rnd32_le. lra.
Qed.

Lemma b32_mul_monotone (x y w : f32) :
  is_finite x = true -> is_finite y = true -> is_finite w = true ->
  is_finite (b32_mul x w) = true -> is_finite (b32_mul y w) = true ->
  Bleb (B754_zero false) w = true ->
  Bleb x y = true -> Bleb (b32_mul x w) (b32_mul y w) = true.
Proof.
  intros Fx Fy Fw Fs Fs' Hw Hxy.
  apply Bleb_R in Hxy; try assumption. apply Bleb_zero_nonneg in Hw; [|exact Fw].
  apply Bleb_R; try assumption. rewrite !b32_mul_R by assumption. apply rnd32_le. nra.
Qed.

(* 2b. multiplying by a weight in [0,1] never increases the magnitude and never overflows:
   0 <= x -> 0 <= x*L <= x, x <= 0 -> x <= x*L <= 0, exactly, after rounding *)
Lemma b32_mul_weight (x L : f32) : is_finite x = true -> is_finite L = true ->
  0 <= B2R L <= 1 ->
  is_finite (b32_mul x L) = true /\
  B2R (b32_mul x L) = rnd32 (B2R x * B2R L) /\
  (0 <= B2R x -> 0 <= B2R (b32_mul x L) <= B2R x) /\
  (B2R x <= 0 -> B2R x <= B2R (b32_mul x L) <= 0).
Proof.
  intros Fx FL HL.
  assert (Hle : Rabs (B2R x * B2R L) <= Rabs (B2R x)).
  { rewrite Rabs_mult, (Rabs_pos_eq (B2R L)) by lra.
    assert (0 <= Rabs (B2R x)) by apply Rabs_pos. nra. }
  destruct (b32_mul_small x L x Fx FL Fx Hle) as (Fm & Rm & _).
  split; [exact Fm|]. split; [exact Rm|]. rewrite Rm. split; intros Hx.
  - split.
    + apply rnd32_sign_ge0. nra.
    + rewrite <- (rnd32_id x) at 2. apply rnd32_le. nra.
  - split.
    + rewrite <- (rnd32_id x) at 1. apply rnd32_le. nra.
    + apply rnd32_sign_le0. nra.
Qed.

Lemma b32_mul_weight_nonneg (x L : f32) : is_finite x = true -> is_finite L = true ->
  Bleb (B754_zero false) x = true -> Bleb (B754_zero false) L = true -> Bleb L one32 = true ->
  is_finite (b32_mul x L) = true /\
  Bleb (B754_zero false) (b32_mul x L) = true /\ Bleb (b32_mul x L) x = true.
Proof.
  intros Fx FL Hx HL0 HL1.
  apply Bleb_zero_nonneg in Hx; [|exact Fx]. apply Bleb_zero_nonneg in HL0; [|exact FL].
  apply Bleb_R in HL1; [|exact FL|exact one32_fin]. rewrite one32_R in HL1.
  destruct (b32_mul_weight x L Fx FL (conj HL0 HL1)) as (Fm & _ & Hp & _).
  specialize (Hp Hx). split; [exact Fm|]. split.
  - apply Bleb_R; [reflexivity|exact Fm|]. change (B2R (B754_zero false)) with 0. lra.
  - apply Bleb_R; [exact Fm|exact Fx|]. lra.
Qed.

(* 2c. 1 - L for L in [0,1]: finite, in [0,1], absolute error at most 2^-25, exact when 1/2 <= L *)
Lemma b32_one_minus (L : f32) : is_finite L = true -> 0 <= B2R L <= 1 ->
  is_finite (b32_sub one32 L) = true /\
  B2R (b32_sub one32 L) = rnd32 (1 - B2R L) /\
  0 <= B2R (b32_sub one32 L) <= 1 /\
  Rabs (B2R (b32_sub one32 L) - (1 - B2R L)) <= u32 / 2 /\
  (/ 2 <= B2R L -> B2R (b32_sub one32 L) = 1 - B2R L).
Proof.
  intros FL HL.
  assert (H01 : 0 <= rnd32 (1 - B2R L) <= 1).
  { split; [apply rnd32_sign_ge0; lra|].
    apply round_le_generic; auto with typeclass_instances; [apply fmt32_1|lra]. }
  generalize (Bminus_correct 24 128 Hprec32 Hmax32 mode_NE one32 L one32_fin FL).
  change (round radix2 (fexp 24 128) (round_mode mode_NE)) with rnd32.
  rewrite one32_R. rewrite Rlt_bool_true.
  2:{ rewrite Rabs_pos_eq by lra. apply Rle_lt_trans with 1; [lra|].
      change 1 with (bpow radix2 0). apply bpow_lt. reflexivity. }
  intros (H1 & H2 & _). fold (b32_sub one32 L) in H1, H2.
  split; [exact H2|]. split; [exact H1|]. rewrite H1. split; [exact H01|]. split.
  - apply rnd32_err_le1. rewrite Rabs_pos_eq; lra.
  - intros Hh. apply round_generic; auto with typeclass_instances.
    apply sterbenz; auto with typeclass_instances; [apply fmt32_1|apply fmt_B2R|lra].
Qed.

Lemma b32_one_minus_bool (L : f32) : is_finite L = true ->
  Bleb (B754_zero false) L = true -> Bleb L one32 = true ->
  is_finite (b32_sub one32 L) = true /\
  Bleb (B754_zero false) (b32_sub one32 L) = true /\ Bleb (b32_sub one32 L) one32 = true.
Proof.
  intros FL HL0 HL1.
  apply Bleb_zero_nonneg in HL0; [|exact FL].
  apply Bleb_R in HL1; [|exact FL|exact one32_fin]. rewrite one32_R in HL1.
  destruct (b32_one_minus L FL (conj HL0 HL1)) as (Fs & _ & H01 & _).
  split; [exact Fs|]. split.
  - apply Bleb_R; [reflexivity|exact Fs|]. change (B2R (B754_zero false)) with 0. lra.
  - apply Bleb_R; [exact Fs|exact one32_fin|]. rewrite one32_R. lra.
Qed.

(* ================================================================ 3. the real-number core of the bound *)

(* [a] is the rounded 1-L (so a+L = 1 up to u/2), P and N the rounded products with relative error v and
   absolute error eta, R the rounded sum with relative error u. *)
Definition slack (d u v eta M : R) : R :=
  M * d + (v * (M * (1 + d)) + 2 * eta) + u * ((1 + v) * (M * (1 + d)) + 2 * eta).

Lemma mix_core_upper d u v eta p n a L P N R M :
  0 <= d -> 0 <= u -> 0 <= v -> 0 <= eta -> 0 <= a -> 0 <= L -> Rabs (a + L - 1) <= d ->
  Rabs p <= M -> Rabs n <= M ->
  Rabs (P - p * a) <= v * (Rabs p * a) + eta ->
  Rabs (N - n * L) <= v * (Rabs n * L) + eta ->
  Rabs (R - (P + N)) <= u * Rabs (P + N) ->
  R <= Rmax p n + slack d u v eta M.
Proof.
  intros Hd Hu Hv He Ha HL HA Hp Hn HP HN HR.
  assert (HM : 0 <= M) by (generalize (Rabs_pos p); lra).
  assert (Hmx : Rabs (Rmax p n) <= M) by (unfold Rmax; destruct (Rle_dec p n); assumption).
  generalize (Rmax_l p n) (Rmax_r p n). intros Hpm Hnm.
  set (mx := Rmax p n) in *.
  assert (Hpa : Rabs p * a <= M * a) by (apply Rmult_le_compat_r; assumption).
  assert (HnL : Rabs n * L <= M * L) by (apply Rmult_le_compat_r; assumption).
  apply Rabs_le_inv in HA. apply Rabs_le_inv in Hmx. apply Rabs_le_inv in Hp. apply Rabs_le_inv in Hn.
  apply Rabs_le_inv in HP. apply Rabs_le_inv in HN.
  assert (HvP : v * (Rabs p * a) <= v * (M * a)) by (apply Rmult_le_compat_l; assumption).
  assert (HvN : v * (Rabs n * L) <= v * (M * L)) by (apply Rmult_le_compat_l; assumption).
  unfold slack.
  set (A := a + L) in *.
  assert (HA0 : 0 <= A) by (unfold A; lra).
  set (B := M * A). set (B' := M * (1 + d)).
  assert (HB0 : 0 <= B) by (apply Rmult_le_pos; assumption).
  assert (HBB : B <= B') by (apply Rmult_le_compat_l; lra).
  assert (H1 : p * a + n * L <= mx * A) by (unfold A; nra).
  assert (H2 : mx * A <= mx + M * d) by nra.
  assert (H3 : - B <= p * a + n * L <= B) by (unfold B, A; nra).
  assert (HvB : v * (M * a) + v * (M * L) = v * B) by (unfold B, A; ring).
  assert (HT : P + N <= mx + M * d + v * B + 2 * eta) by lra.
  assert (HTa : Rabs (P + N) <= (1 + v) * B + 2 * eta) by (apply Rabs_le; lra).
  assert (HR' : R <= (P + N) + u * Rabs (P + N)) by (apply Rabs_le_inv in HR; lra).
  assert (HuT : u * Rabs (P + N) <= u * ((1 + v) * B + 2 * eta)) by (apply Rmult_le_compat_l; assumption).
  assert (HvBB : v * B <= v * B') by (apply Rmult_le_compat_l; assumption).
  assert (HuBB : u * ((1 + v) * B + 2 * eta) <= u * ((1 + v) * B' + 2 * eta)).
  { apply Rmult_le_compat_l; [assumption|]. apply Rplus_le_compat_r. apply Rmult_le_compat_l; lra. }
  lra.
Qed.

Lemma mix_core d u v eta p n a L P N R M :
  0 <= d -> 0 <= u -> 0 <= v -> 0 <= eta -> 0 <= a -> 0 <= L -> Rabs (a + L - 1) <= d ->
  Rabs p <= M -> Rabs n <= M ->
  Rabs (P - p * a) <= v * (Rabs p * a) + eta ->
  Rabs (N - n * L) <= v * (Rabs n * L) + eta ->
  Rabs (R - (P + N)) <= u * Rabs (P + N) ->
  Rmin p n - slack d u v eta M <= R <= Rmax p n + slack d u v eta M.
Proof.
  intros Hd Hu Hv He Ha HL HA Hp Hn HP HN HR. split.
  - assert (H : - R <= Rmax (- p) (- n) + slack d u v eta M).
    { apply (mix_core_upper d u v eta (- p) (- n) a L (- P) (- N)); try assumption.
      + now rewrite Rabs_Ropp.
      + now rewrite Rabs_Ropp.
      + replace (- P - - p * a) with (- (P - p * a)) by ring. now rewrite !Rabs_Ropp.
      + replace (- N - - n * L) with (- (N - n * L)) by ring. now rewrite !Rabs_Ropp.
      + replace (- R - (- P + - N)) with (- (R - (P + N))) by ring.
        replace (- P + - N) with (- (P + N)) by ring. now rewrite !Rabs_Ropp. }
    rewrite <- Ropp_Rmin in H. lra.
  - now apply (mix_core_upper d u v eta p n a L P N).
Qed.

(* the two instantiations of the slack *)
Lemma slack_normal M : 0 <= M -> slack (u32 / 2) u32 (u32 + 2 * (u32 * u32)) 0 M <= 3 * u32 * M.
Proof.
  intros HM. unfold slack. rewrite u32_val.
  set (u := / 16777216).
  assert (Hu : 0 < u <= / 16777216) by (unfold u; lra).
  assert (H : u / 2 + (u + 2 * (u * u)) * (1 + u / 2) + u * ((1 + (u + 2 * (u * u))) * (1 + u / 2)) <= 3 * u).
  { assert (u * u <= u * / 16777216) by nra.
    assert (u * u * u <= u * u * / 16777216) by nra.
    assert (u * u * u * u <= u * u * u * / 16777216) by nra.
    assert (0 <= u * u * u * u) by nra. nra. }
  apply (Rmult_le_compat_l M) in H; [|exact HM]. lra.
Qed.

Lemma slack_general M : 0 <= M ->
  slack (u32 / 2) u32 u32 (bpow radix2 (-150)) M <= 3 * u32 * M + bpow radix2 (-148).
Proof.
  intros HM. unfold slack.
  replace (bpow radix2 (-148)) with (4 * bpow radix2 (-150))
    by (change (-148)%Z with (2 + -150)%Z; rewrite bpow_plus; reflexivity).
  assert (He : 0 < bpow radix2 (-150)) by apply bpow_gt_0.
  set (eta := bpow radix2 (-150)) in *.
  rewrite u32_val.
  set (u := / 16777216).
  assert (Hu : 0 < u <= / 16777216) by (unfold u; lra).
  assert (H : u / 2 + u * (1 + u / 2) + u * ((1 + u) * (1 + u / 2)) <= 3 * u).
  { assert (u * u <= u * / 16777216) by nra.
    assert (u * u * u <= u * u * / 16777216) by nra. nra. }
  apply (Rmult_le_compat_l M) in H; [|exact HM].
  assert (u * (2 * eta) <= 2 * eta) by nra. lra.
Qed.

(* ================================================================ 4. the EWMA mixing step on binary32 *)

(* the model's expression, prev * (1 - lambda) + new * lambda, at the binary32 instance *)
Definition mixv (p n L : f32) : f32 := b32_add (b32_mul p (b32_sub one32 L)) (b32_mul n L).

Lemma mix_f_B32 tbl (p n L : f32) : @mix_f f32 (B32_with_pow tbl) p n L = Ok (mixv p n L).
Proof. reflexivity. Qed.

Definition absmax (p n : f32) : R := Rmax (Rabs (B2R p)) (Rabs (B2R n)).

Lemma mix_generic v eta (p n L : f32) :
  0 <= v -> 0 <= eta ->
  is_finite p = true -> is_finite n = true -> is_finite L = true -> 0 <= B2R L <= 1 ->
  is_finite (mixv p n L) = true ->
  (let a := B2R (b32_sub one32 L) in
   Rabs (rnd32 (B2R p * a) - B2R p * a) <= v * (Rabs (B2R p) * a) + eta) ->
  Rabs (rnd32 (B2R n * B2R L) - B2R n * B2R L) <= v * (Rabs (B2R n) * B2R L) + eta ->
  Rmin (B2R p) (B2R n) - slack (u32 / 2) u32 v eta (absmax p n) <= B2R (mixv p n L)
    <= Rmax (B2R p) (B2R n) + slack (u32 / 2) u32 v eta (absmax p n).
Proof.
  intros Hv He Fp Fn FL HL Fr HP HN. cbv zeta in HP.
  destruct (b32_one_minus L FL HL) as (Fa & _ & Ha01 & Hae & _).
  destruct (b32_mul_weight p _ Fp Fa Ha01) as (FP & RP & _).
  destruct (b32_mul_weight n L Fn FL HL) as (FN & RN & _).
  unfold mixv in *. rewrite (b32_add_R _ _ FP FN Fr).
  set (a := B2R (b32_sub one32 L)) in *.
  assert (Hu : 0 < u32) by apply bpow_gt_0.
  apply (mix_core (u32 / 2) u32 v eta (B2R p) (B2R n) a (B2R L)
           (B2R (b32_mul p (b32_sub one32 L))) (B2R (b32_mul n L))); try assumption; try lra.
  - replace (a + B2R L - 1) with (a - (1 - B2R L)) by ring. exact Hae.
  - apply Rmax_l.
  - apply Rmax_r.
  - rewrite RP. exact HP.
  - rewrite RN. exact HN.
  - apply rnd32_err_plus; apply fmt_B2R.
Qed.

(* --- 4a. no assumption on the range of the products: relative 3u plus 2^-148 absolute --- *)
Definition mix_pre (p n L : f32) : bool :=
  is_finite p && is_finite n && is_finite L &&
  Bleb (B754_zero false) L && Bleb L one32 && is_finite (mixv p n L).

Lemma mix_pre_elim p n L : mix_pre p n L = true ->
  is_finite p = true /\ is_finite n = true /\ is_finite L = true /\ 0 <= B2R L <= 1 /\
  is_finite (mixv p n L) = true.
Proof.
  unfold mix_pre. rewrite !andb_true_iff. intros (((((Fp & Fn) & FL) & H0) & H1) & Fr).
  repeat split; try assumption.
  - now apply Bleb_zero_nonneg.
  - apply Bleb_R in H1; [|exact FL|exact one32_fin]. now rewrite one32_R in H1.
Qed.

Theorem mix_step_bound_general (p n L : f32) : mix_pre p n L = true ->
  let E := 3 * u32 * absmax p n + bpow radix2 (-148) in
  Rmin (B2R p) (B2R n) - E <= B2R (mixv p n L) <= Rmax (B2R p) (B2R n) + E.
Proof.
  intros H E. destruct (mix_pre_elim p n L H) as (Fp & Fn & FL & HL & Fr).
  assert (HM : 0 <= absmax p n).
  { unfold absmax. apply Rle_trans with (2 := Rmax_l _ _). apply Rabs_pos. }
  generalize (slack_general _ HM). fold E. intros Hs.
  assert (G := mix_generic u32 (bpow radix2 (-150)) p n L (bpow_ge_0 _ _) (bpow_ge_0 _ _) Fp Fn FL HL Fr).
  destruct (b32_one_minus L FL HL) as (_ & _ & Ha01 & _).
  destruct G as [G1 G2].
  - cbv zeta. rewrite <- (Rabs_pos_eq (B2R (b32_sub one32 L))) at 3 by lra.
    rewrite <- Rabs_mult. apply rnd32_err_gen.
  - rewrite <- (Rabs_pos_eq (B2R L)) at 3 by lra. rewrite <- Rabs_mult. apply rnd32_err_gen.
  - lra.
Qed.

(* --- 4b. products in the normal range (or exactly zero because an operand is zero): 3u, no absolute term --- *)
Definition min_normal32 : f32 := b32_of_bits 8388608.   (* 0x00800000 = 2^-126 *)
Lemma min_normal32_SF : B2SF min_normal32 = S754_finite false 8388608 (-149).
Proof. vm_compute. reflexivity. Qed.
Lemma min_normal32_R : B2R min_normal32 = bpow radix2 (-126) /\ is_finite min_normal32 = true.
Proof.
  split.
  - rewrite <- (SF2R_B2SF 24 128), min_normal32_SF. unfold SF2R, F2R. cbn [Fnum Fexp cond_Zopp].
    change (IZR 8388608) with (bpow radix2 23). rewrite <- bpow_plus. reflexivity.
  - rewrite <- is_finite_SF_B2SF, min_normal32_SF. reflexivity.
Qed.

Definition is_zero32 (x : f32) : bool := match x with BinarySingleNaN.B754_zero _ => true | _ => false end.
Lemma is_zero32_R x : is_zero32 x = true -> B2R x = 0.
Proof. destruct x; try discriminate. reflexivity. Qed.

(* the computed product is at least 2^-126 in magnitude, or an operand is a zero *)
Definition prod_normal (x y : f32) : bool :=
  is_zero32 x || is_zero32 y || Bleb min_normal32 (b32_abs (b32_mul x y)).

Lemma prod_normal_err (x y : f32) : is_finite x = true -> is_finite y = true ->
  is_finite (b32_mul x y) = true -> prod_normal x y = true ->
  Rabs (rnd32 (B2R x * B2R y) - B2R x * B2R y) <= (u32 + 2 * (u32 * u32)) * Rabs (B2R x * B2R y).
Proof.
  intros Fx Fy Fm H. unfold prod_normal in H. rewrite !orb_true_iff in H.
  assert (Z0 : forall z, z = 0 -> Rabs (rnd32 z - z) <= (u32 + 2 * (u32 * u32)) * Rabs z).
  { intros z ->. rewrite round_0; auto with typeclass_instances.
    rewrite Rminus_0_r, Rabs_R0. lra. }
  destruct H as [[H|H]|H].
  - apply Z0. rewrite (is_zero32_R _ H). ring.
  - apply Z0. rewrite (is_zero32_R _ H). ring.
  - apply rnd32_err_res. rewrite <- (b32_mul_R x y Fx Fy Fm).
    destruct min_normal32_R as [Rm Fmn].
    assert (Fa : is_finite (b32_abs (b32_mul x y)) = true) by (unfold b32_abs; now rewrite is_finite_Babs).
    apply Bleb_R in H; [|exact Fmn|exact Fa]. rewrite Rm in H.
    unfold b32_abs in H. now rewrite B2R_Babs in H.
Qed.

Definition mix_normal (p n L : f32) : bool :=
  mix_pre p n L && prod_normal p (b32_sub one32 L) && prod_normal n L.

Lemma mix_step_slack (p n L : f32) : mix_normal p n L = true ->
  let K := slack (u32 / 2) u32 (u32 + 2 * (u32 * u32)) 0 (absmax p n) in
  Rmin (B2R p) (B2R n) - K <= B2R (mixv p n L) <= Rmax (B2R p) (B2R n) + K.
Proof.
  intros Hn K. unfold mix_normal in Hn. rewrite !andb_true_iff in Hn. destruct Hn as ((H & NP) & NN).
  destruct (mix_pre_elim p n L H) as (Fp & Fn & FL & HL & Fr).
  assert (Hv : 0 <= u32 + 2 * (u32 * u32)) by (generalize (bpow_ge_0 radix2 (-24)); nra).
  assert (G := mix_generic _ 0 p n L Hv (Rle_refl 0) Fp Fn FL HL Fr).
  destruct (b32_one_minus L FL HL) as (Fa & _ & Ha01 & _).
  destruct (b32_mul_weight p _ Fp Fa Ha01) as (FP & _).
  destruct (b32_mul_weight n L Fn FL HL) as (FN & _).
  apply G.
  - cbv zeta. rewrite Rplus_0_r. rewrite <- (Rabs_pos_eq (B2R (b32_sub one32 L))) at 3 by lra.
    rewrite <- Rabs_mult. now apply prod_normal_err.
  - rewrite Rplus_0_r. rewrite <- (Rabs_pos_eq (B2R L)) at 3 by lra.
    rewrite <- Rabs_mult. now apply prod_normal_err.
Qed.

Lemma absmax_nonneg p n : 0 <= absmax p n.
Proof. unfold absmax. apply Rle_trans with (2 := Rmax_l _ _). apply Rabs_pos. Qed.

Theorem mix_step_bound (p n L : f32) : mix_normal p n L = true ->
  let E := 3 * u32 * absmax p n in
  Rmin (B2R p) (B2R n) - E <= B2R (mixv p n L) <= Rmax (B2R p) (B2R n) + E.
Proof.
  intros Hn E. generalize (mix_step_slack p n L Hn) (slack_normal _ (absmax_nonneg p n)).
  cbv zeta. fold E. lra.
Qed.

(* the constant the proof actually yields is 5/2 (+ 5u): half a unit for 1-L, one for each rounding level *)
Lemma slack_normal_sharp M : 0 <= M ->
  slack (u32 / 2) u32 (u32 + 2 * (u32 * u32)) 0 M <= (5 / 2 + 5 * u32) * u32 * M.
Proof.
  intros HM. unfold slack. rewrite u32_val.
  set (u := / 16777216).
  assert (Hu : 0 < u <= / 16777216) by (unfold u; lra).
  assert (H : u / 2 + (u + 2 * (u * u)) * (1 + u / 2) + u * ((1 + (u + 2 * (u * u))) * (1 + u / 2))
              <= (5 / 2 + 5 * u) * u).
  { assert (u * u <= u * / 16777216) by nra.
    assert (u * u * u <= u * u * / 16777216) by nra.
    assert (u * u * u * u <= u * u * u * / 16777216) by nra.
    assert (0 <= u * u * u * u) by nra. nra. }
  apply (Rmult_le_compat_l M) in H; [|exact HM]. lra.
Qed.

Theorem mix_step_bound_sharp (p n L : f32) : mix_normal p n L = true ->
  let E := (5 / 2 + 5 * u32) * u32 * absmax p n in
  Rmin (B2R p) (B2R n) - E <= B2R (mixv p n L) <= Rmax (B2R p) (B2R n) + E.
Proof.
  intros Hn E. generalize (mix_step_slack p n L Hn) (slack_normal_sharp _ (absmax_nonneg p n)).
  cbv zeta. fold E. lra.
Qed.

(* constant input: the output is within 3u of the constant *)
Corollary mix_step_constant (p n L : f32) : mix_normal p n L = true -> B2R p = B2R n ->
  Rabs (B2R (mixv p n L) - B2R p) <= 3 * u32 * Rabs (B2R p).
Proof.
  intros H E. generalize (mix_step_bound p n L H). cbv zeta. unfold absmax. rewrite <- E.
  unfold Rmin, Rmax. destruct (Rle_dec (B2R p) (B2R p)); destruct (Rle_dec (Rabs (B2R p)) (Rabs (B2R p)));
    intros [H1 H2]; apply Rabs_le; lra.
Qed.

(* the same statements about the model's [mix_f] *)
Theorem mix_f_bound tbl (p n L : f32) : mix_normal p n L = true ->
  exists r, @mix_f f32 (B32_with_pow tbl) p n L = Ok r /\ is_finite r = true /\
  let E := 3 * u32 * Rmax (Rabs (B2R p)) (Rabs (B2R n)) in
  Rmin (B2R p) (B2R n) - E <= B2R r <= Rmax (B2R p) (B2R n) + E.
Proof.
  intros H. exists (mixv p n L). split; [reflexivity|]. split.
  - unfold mix_normal in H. rewrite !andb_true_iff in H. destruct H as ((H & _) & _).
    now destruct (mix_pre_elim p n L H) as (_ & _ & _ & _ & Fr).
  - exact (mix_step_bound p n L H).
Qed.

Theorem mix_f_bound_general tbl (p n L : f32) : mix_pre p n L = true ->
  exists r, @mix_f f32 (B32_with_pow tbl) p n L = Ok r /\ is_finite r = true /\
  let E := 3 * u32 * Rmax (Rabs (B2R p)) (Rabs (B2R n)) + bpow radix2 (-148) in
  Rmin (B2R p) (B2R n) - E <= B2R r <= Rmax (B2R p) (B2R n) + E.
Proof.
  intros H. exists (mixv p n L). split; [reflexivity|]. split.
  - now destruct (mix_pre_elim p n L H) as (_ & _ & _ & _ & Fr).
  - exact (mix_step_bound_general p n L H).
Qed.

Theorem mix_f_constant tbl (p L : f32) : mix_normal p p L = true ->
  exists r, @mix_f f32 (B32_with_pow tbl) p p L = Ok r /\
  Rabs (B2R r - B2R p) <= 3 * u32 * Rabs (B2R p).
Proof.
  intros H. exists (mixv p p L). split; [reflexivity|]. now apply mix_step_constant.
Qed.

(* --- witnesses --- *)
(* the hypotheses are satisfiable, and a constant input is NOT reproduced exactly: with
   p = n = 0x3f800005 (1.0000006) and L = 0x3ee2d539 (0.443033) the output is 0x3f800006, one ulp ABOVE
   the constant (both 1-L and the two products are rounded).  So "between the smallest and the largest
   sample" and "a constant input yields that constant" hold on binary32 only up to rounding. *)
Example mix_constant_not_exact :
  let p := b32_of_bits 1065353221 in let L := b32_of_bits 1055053113 in
  mix_normal p p L = true /\
  (forall tbl, @mix_f f32 (B32_with_pow tbl) p p L = Ok (b32_of_bits 1065353222)) /\
  Bltb p (mixv p p L) = true.
Proof.
  cbv zeta. split; [vm_compute; reflexivity|]. split.
  - intros tbl. rewrite mix_f_B32. f_equal. apply B2SF_inj. vm_compute. reflexivity.
  - vm_compute. reflexivity.
Qed.

(* a non-trivial instance of the hypotheses with distinct samples of opposite sign *)
Example mix_normal_sat :
  mix_normal (b32_of_bits 3225419776) (b32_of_bits 1089470464) (b32_of_bits 1048576000) = true.
Proof. vm_compute. reflexivity. Qed.   (* p = -3.0, n = 7.5, L = 0.25 *)

(* the underflow term of the general bound is needed: a product in the subnormal range
   (p = 2^-126, n = 2^-149 (smallest subnormal), L = 0.75: n*L rounds up to n, 1/3 above the exact value) *)
Example mix_pre_not_normal :
  let p := b32_of_bits 8388608 in let n := b32_of_bits 1 in let L := b32_of_bits 1061158912 in
  mix_pre p n L = true /\ mix_normal p n L = false.
Proof. cbv zeta. split; vm_compute; reflexivity. Qed.

(* --- the EWMA step of the model --- *)
Theorem ewma_step_bound_B32 tbl (c : cfg) (s s' : @ewma f32 f32) (p o : datum f32) (pt : Z) (up : upd) :
  ew_val s = OSome p -> ew_time s = Some pt ->
  @ewma_step f32 (B32_with_pow tbl) c f32 (@mix_f f32 (B32_with_pow tbl)) s (OSome o) = Ok (s', up) ->
  exists dt L r,
    @dt_f f32 (B32_with_pow tbl) c (d_time o) pt = Ok dt /\
    L = b32_sub one32 (b32_pow tbl (b32_sub one32 (ew_s s)) dt) /\
    r = mixv (d_val p) (d_val o) L /\
    ew_val s' = OSome (mkDatum (d_time o) r) /\ ew_time s' = Some (d_time o) /\ up = UOk /\
    (mix_normal (d_val p) (d_val o) L = true ->
       let E := 3 * u32 * Rmax (Rabs (B2R (d_val p))) (Rabs (B2R (d_val o))) in
       is_finite r = true /\
       Rmin (B2R (d_val p)) (B2R (d_val o)) - E <= B2R r <= Rmax (B2R (d_val p)) (B2R (d_val o)) + E).
Proof.
  intros Hv Ht H. unfold ewma_step in H. rewrite Hv, Ht in H.
  destruct (@dt_f f32 (B32_with_pow tbl) c (d_time o) pt) as [dt|] eqn:Edt; [|discriminate].
  cbn [bind] in H. rewrite mix_f_B32 in H. cbn [bind] in H.
  injection H as <- <-.
  eexists dt, _, _. split; [reflexivity|]. split; [reflexivity|]. split; [reflexivity|].
  split; [reflexivity|]. split; [reflexivity|]. split; [reflexivity|].
  intros Hn.
  destruct (mix_f_bound tbl _ _ _ Hn) as (r & Er & Fr & Hb). rewrite mix_f_B32 in Er.
  injection Er as <-. split; [exact Fr|exact Hb].
Qed.

(* the weight computed by the step is in [0,1] as soon as the power oracle returns a value in [0,1] *)
Lemma ewma_lambda_01_B32 (q : f32) : is_finite q = true ->
  Bleb (B754_zero false) q = true -> Bleb q one32 = true ->
  is_finite (b32_sub one32 q) = true /\
  Bleb (B754_zero false) (b32_sub one32 q) = true /\ Bleb (b32_sub one32 q) one32 = true.
Proof. exact (b32_one_minus_bool q). Qed.

(* the normal-range hypothesis of [mix_step_constant] cannot be dropped: with the smallest subnormal as the
   constant input and L = 1/2 both products are ties that round to zero, and the output is 0 *)
Example mix_constant_underflow :
  let p := b32_of_bits 1 in let L := b32_of_bits 1056964608 in
  mix_pre p p L = true /\ mix_normal p p L = false /\ mixv p p L = B754_zero false.
Proof. cbv zeta. split; [|split]; [vm_compute; reflexivity ..|]. apply B2SF_inj. vm_compute. reflexivity. Qed.

(* ================================================================ 5. moving average with two samples in the window *)

(* relative error of Time -> Quantity (C18): nanoseconds / 1e9 with two roundings *)
Definition eps_t : R := 2 * u32 + u32 * u32.

Lemma weight_R (w : Z) : (0 <= w < 2^63)%Z ->
  is_finite (q_of_time w) = true /\ 0 <= B2R (q_of_time w) /\
  Rabs (B2R (q_of_time w) - IZR w / 1000000000) <= eps_t * (IZR w / 1000000000).
Proof.
  intros Hw. change (2^63)%Z with 9223372036854775808%Z in Hw.
  destruct (Z.eq_dec w 0) as [->|Nz].
  - rewrite t2q_zero. split; [reflexivity|]. change (B2R (B754_zero false)) with 0.
    split; [lra|]. unfold Rdiv. rewrite Rmult_0_l, Rminus_0_r, Rabs_R0. lra.
  - assert (Hw' : (- 2^63 <= w < 2^63)%Z) by (change (2^63)%Z with 9223372036854775808%Z; lia).
    destruct (t2q_err w Hw' Nz) as [He Fq]. destruct (q_of_time_correct w Hw') as [Rq _].
    assert (H0 : 0 <= IZR w) by (apply IZR_le; lia).
    assert (H1 : 0 <= IZR w / 1000000000) by (unfold Rdiv; apply Rmult_le_pos; lra).
    split; [exact Fq|]. split.
    + rewrite Rq. apply rnd32_sign_ge0. unfold Rdiv. apply Rmult_le_pos; [|lra].
      now apply rnd32_sign_ge0.
    + rewrite (Rabs_pos_eq (IZR w / 1000000000)) in He by exact H1.
      replace eps_t with (bpow radix2 (-23) + bpow radix2 (-48)); [exact He|].
      unfold eps_t. change (-23)%Z with (1 + -24)%Z. change (-48)%Z with (-24 + -24)%Z.
      rewrite !bpow_plus. change (bpow radix2 1) with 2. ring.
Qed.

(* the model's expression: ((0 + x1*W1) + x2*W2) / WIN with W = f32(Quantity::from(Time)) *)
Definition mav (x1 x2 : f32) (w1 w2 win : Z) : f32 :=
  b32_div (b32_add (b32_add (b32_of_Z 0) (b32_mul x1 (q_of_time w1))) (b32_mul x2 (q_of_time w2)))
          (q_of_time win).

Lemma ma_acc_f_B32 tbl (c : cfg) (t1 t2 : Z) (x1 x2 : f32) (w1 w2 win : Z) :
  @ma_acc_f f32 (B32_with_pow tbl) c [mkDatum t1 x1; mkDatum t2 x2] [w1; w2] win
  = Ok (mav x1 x2 w1 w2 win).
Proof. reflexivity. Qed.

Lemma b32_add_zero_l_R (x : f32) : is_finite x = true ->
  is_finite (b32_add (b32_of_Z 0) x) = true /\ B2R (b32_add (b32_of_Z 0) x) = B2R x.
Proof.
  change (b32_of_Z 0) with (B754_zero false : f32).
  destruct x as [s| | |s m e H]; try discriminate; intros _.
  - destruct s; split; reflexivity.
  - split; reflexivity.
Qed.

Definition ma_d : R := 4 * u32 + 12 * (u32 * u32).
Definition ma_v : R := u32 + 2 * (u32 * u32).

Lemma ma_numeric :
  0 < u32 /\ 0 < eps_t < 1 /\ 0 <= ma_d /\ 0 <= ma_v /\ 2 * eps_t <= ma_d * (1 - eps_t) /\
  forall M, 0 <= M ->
    slack ma_d u32 ma_v 0 M + ma_v * (M + slack ma_d u32 ma_v 0 M) <= 8 * u32 * M.
Proof.
  unfold eps_t, ma_d, ma_v, slack. rewrite u32_val. set (u := / 16777216).
  assert (Hu : 0 < u <= / 16777216) by (unfold u; lra).
  assert (H2 : u * u <= u * / 16777216) by nra.
  assert (H2p : 0 < u * u) by nra.
  repeat split; try nra.
  intros M HM.
  set (d := 4 * u + 12 * (u * u)). set (v := u + 2 * (u * u)).
  assert (Hd : 0 <= d <= 5 * u) by (unfold d; nra).
  assert (Hv : 0 <= v <= 2 * u) by (unfold v; nra).
  set (sg := d + v * (1 + d) + u * ((1 + v) * (1 + d))).
  assert (Hvd : 0 <= v * d <= 10 * (u * u)) by nra.
  assert (Ed : d = 4 * u + 12 * (u * u)) by reflexivity.
  assert (Ev : v = u + 2 * (u * u)) by reflexivity.
  assert (Huv : 0 <= u * v <= 2 * (u * u)) by nra.
  assert (Hud : 0 <= u * d <= 5 * (u * u)) by nra.
  assert (Huvd : 0 <= u * (v * d) <= u * u) by nra.
  assert (Esg : sg = d + v + v * d + u + u * v + u * d + u * (v * d)) by (unfold sg; ring).
  assert (Hsg : 0 <= sg <= 6 * u + 40 * (u * u)) by lra.
  assert (Hvsg : 0 <= v * sg <= 14 * (u * u)) by nra.
  assert (Hf : sg + v * (1 + sg) <= 8 * u).
  { replace (sg + v * (1 + sg)) with (sg + v + v * sg) by ring. nra. }
  apply (Rmult_le_compat_l M) in Hf; [|exact HM].
  replace (M * d + (v * (M * (1 + d)) + 2 * 0) + u * ((1 + v) * (M * (1 + d)) + 2 * 0)) with (M * sg)
    by (unfold sg; ring).
  lra.
Qed.

Lemma slack_nonneg d u v eta M : 0 <= d -> 0 <= u -> 0 <= v -> 0 <= eta -> 0 <= M -> 0 <= slack d u v eta M.
Proof.
  intros Hd Hu Hv He HM. unfold slack.
  assert (0 <= M * d) by now apply Rmult_le_pos.
  assert (0 <= M * (1 + d)) by (apply Rmult_le_pos; lra).
  assert (0 <= v * (M * (1 + d))) by now apply Rmult_le_pos.
  assert (0 <= (1 + v) * (M * (1 + d))) by (apply Rmult_le_pos; lra).
  assert (0 <= u * ((1 + v) * (M * (1 + d)) + 2 * eta)) by (apply Rmult_le_pos; lra).
  lra.
Qed.

(* real-number core: weights W1, W2 >= 0 whose sum is WIN up to a relative d; products with relative
   error v, the sum with relative error u, the quotient with relative error v *)
Lemma ma_core d u v x1 x2 W1 W2 WIN P1 P2 S V M :
  0 <= d -> 0 <= u -> 0 <= v -> 0 <= W1 -> 0 <= W2 -> 0 < WIN ->
  Rabs (W1 + W2 - WIN) <= d * WIN ->
  Rabs x1 <= M -> Rabs x2 <= M ->
  Rabs (P1 - x1 * W1) <= v * (Rabs x1 * W1) ->
  Rabs (P2 - x2 * W2) <= v * (Rabs x2 * W2) ->
  Rabs (S - (P1 + P2)) <= u * Rabs (P1 + P2) ->
  Rabs (V - S / WIN) <= v * Rabs (S / WIN) ->
  let K := slack d u v 0 M + v * (M + slack d u v 0 M) in
  Rmin x1 x2 - K <= V <= Rmax x1 x2 + K.
Proof.
  intros Hd Hu Hv HW1 HW2 HWIN HA Hx1 Hx2 HP1 HP2 HS HV K.
  assert (HM : 0 <= M) by (generalize (Rabs_pos x1); lra).
  assert (Hi : 0 < / WIN) by now apply Rinv_0_lt_compat.
  assert (Ei : WIN * / WIN = 1) by (apply Rinv_r; lra).
  unfold Rdiv in HV. set (iw := / WIN) in *.
  assert (Hai : Rabs iw = iw) by (apply Rabs_pos_eq; lra).
  assert (G : Rmin x1 x2 - slack d u v 0 M <= S * iw <= Rmax x1 x2 + slack d u v 0 M).
  { apply (mix_core d u v 0 x1 x2 (W1 * iw) (W2 * iw) (P1 * iw) (P2 * iw)); try assumption; try lra.
    - apply Rmult_le_pos; lra.
    - apply Rmult_le_pos; lra.
    - replace (W1 * iw + W2 * iw - 1) with ((W1 + W2 - WIN) * iw) by (rewrite <- Ei; ring).
      rewrite Rabs_mult, Hai. replace d with (d * WIN * iw) by (rewrite Rmult_assoc, Ei; ring).
      apply Rmult_le_compat_r; lra.
    - replace (P1 * iw - x1 * (W1 * iw)) with ((P1 - x1 * W1) * iw) by ring.
      rewrite Rabs_mult, Hai, Rplus_0_r.
      replace (v * (Rabs x1 * (W1 * iw))) with (v * (Rabs x1 * W1) * iw) by ring.
      apply Rmult_le_compat_r; lra.
    - replace (P2 * iw - x2 * (W2 * iw)) with ((P2 - x2 * W2) * iw) by ring.
      rewrite Rabs_mult, Hai, Rplus_0_r.
      replace (v * (Rabs x2 * (W2 * iw))) with (v * (Rabs x2 * W2) * iw) by ring.
      apply Rmult_le_compat_r; lra.
    - replace (S * iw - (P1 * iw + P2 * iw)) with ((S - (P1 + P2)) * iw) by ring.
      replace (P1 * iw + P2 * iw) with ((P1 + P2) * iw) by ring.
      rewrite !Rabs_mult, Hai. rewrite <- Rmult_assoc. apply Rmult_le_compat_r; lra. }
  assert (Hsl := slack_nonneg d u v 0 M Hd Hu Hv (Rle_refl 0) HM).
  assert (Hmn : - M <= Rmin x1 x2).
  { apply Rabs_le_inv in Hx1. apply Rabs_le_inv in Hx2. unfold Rmin. destruct (Rle_dec x1 x2); lra. }
  assert (Hmx : Rmax x1 x2 <= M).
  { apply Rabs_le_inv in Hx1. apply Rabs_le_inv in Hx2. unfold Rmax. destruct (Rle_dec x1 x2); lra. }
  assert (HSa : Rabs (S * iw) <= M + slack d u v 0 M) by (apply Rabs_le; lra).
  assert (HvS : v * Rabs (S * iw) <= v * (M + slack d u v 0 M)) by (apply Rmult_le_compat_l; assumption).
  apply Rabs_le_inv in HV. unfold K. lra.
Qed.

(* the quotient is at least 2^-126 in magnitude, or the numerator is a zero *)
Definition quot_normal (s v : f32) : bool := is_zero32 s || Bleb min_normal32 (b32_abs v).

(* side conditions, all decidable: non-negative interval weights (integer nanoseconds) with a positive sum in the
   i64 range, finite samples, no overflow in any intermediate result, products and quotient normal (or zero) *)
Definition ma2_ok (x1 x2 : f32) (w1 w2 : Z) : bool :=
  let W1 := q_of_time w1 in let W2 := q_of_time w2 in
  let P1 := b32_mul x1 W1 in let P2 := b32_mul x2 W2 in
  let S := b32_add (b32_add (b32_of_Z 0) P1) P2 in
  let V := mav x1 x2 w1 w2 (w1 + w2) in
  (0 <=? w1)%Z && (0 <=? w2)%Z && (0 <? w1 + w2)%Z && (w1 + w2 <? 2^63)%Z &&
  is_finite x1 && is_finite x2 && is_finite P1 && is_finite P2 && is_finite S && is_finite V &&
  prod_normal x1 W1 && prod_normal x2 W2 && quot_normal S V.

Theorem ma2_bound (x1 x2 : f32) (w1 w2 : Z) : ma2_ok x1 x2 w1 w2 = true ->
  let E := 8 * u32 * absmax x1 x2 in
  Rmin (B2R x1) (B2R x2) - E <= B2R (mav x1 x2 w1 w2 (w1 + w2)) <= Rmax (B2R x1) (B2R x2) + E.
Proof.
  intros H E. unfold ma2_ok in H. cbv zeta in H. rewrite !andb_true_iff in H.
  destruct H as ((((((((((((Hw1 & Hw2) & Hw) & Hwb) & Fx1) & Fx2) & FP1) & FP2) & FS) & FV) & N1) & N2) & NQ).
  apply Z.leb_le in Hw1. apply Z.leb_le in Hw2. apply Z.ltb_lt in Hw. apply Z.ltb_lt in Hwb.
  destruct (weight_R w1) as (FW1 & W1p & W1e); [lia|].
  destruct (weight_R w2) as (FW2 & W2p & W2e); [lia|].
  destruct (weight_R (w1 + w2)) as (FW & Wp & We); [lia|].
  rewrite plus_IZR in We.
  assert (Ho1 : 0 <= IZR w1 / 1000000000) by (unfold Rdiv; apply Rmult_le_pos; [apply IZR_le; lia|lra]).
  assert (Ho2 : 0 <= IZR w2 / 1000000000) by (unfold Rdiv; apply Rmult_le_pos; [apply IZR_le; lia|lra]).
  assert (Ho : 0 < IZR w1 / 1000000000 + IZR w2 / 1000000000).
  { replace (IZR w1 / 1000000000 + IZR w2 / 1000000000) with (IZR (w1 + w2) / 1000000000)
      by (rewrite plus_IZR; field).
    unfold Rdiv. apply Rmult_lt_0_compat; [apply IZR_lt; lia|lra]. }
  replace ((IZR w1 + IZR w2) / 1000000000) with (IZR w1 / 1000000000 + IZR w2 / 1000000000) in We by field.
  destruct ma_numeric as (Hu & Heps & Hd & Hv & Hde & Hnum).
  set (o1 := IZR w1 / 1000000000) in *. set (o2 := IZR w2 / 1000000000) in *.
  set (W1 := q_of_time w1) in *. set (W2 := q_of_time w2) in *. set (W := q_of_time (w1 + w2)) in *.
  apply Rabs_le_inv in W1e. apply Rabs_le_inv in W2e. apply Rabs_le_inv in We.
  assert (HWpos : 0 < B2R W) by nra.
  assert (HWsum : Rabs (B2R W1 + B2R W2 - B2R W) <= ma_d * B2R W).
  { assert (ma_d * ((1 - eps_t) * (o1 + o2)) <= ma_d * B2R W) by (apply Rmult_le_compat_l; nra).
    assert (2 * eps_t * (o1 + o2) <= ma_d * (1 - eps_t) * (o1 + o2)) by (apply Rmult_le_compat_r; lra).
    apply Rabs_le. nra. }
  (* the floating-point chain *)
  unfold mav in *. fold W1 W2 W in FV |- *.
  set (P1 := b32_mul x1 W1) in *. set (P2 := b32_mul x2 W2) in *.
  destruct (b32_add_zero_l_R P1 FP1) as (FS1 & RS1).
  set (S1 := b32_add (b32_of_Z 0) P1) in *. set (S := b32_add S1 P2) in *.
  assert (RP1 : B2R P1 = rnd32 (B2R x1 * B2R W1)) by (apply b32_mul_R; assumption).
  assert (RP2 : B2R P2 = rnd32 (B2R x2 * B2R W2)) by (apply b32_mul_R; assumption).
  assert (RS : B2R S = rnd32 (B2R P1 + B2R P2)) by (unfold S; rewrite b32_add_R by assumption; now rewrite RS1).
  assert (NW : B2R W <> 0) by lra.
  assert (RV : B2R (b32_div S W) = rnd32 (B2R S / B2R W)) by (apply b32_div_R; assumption).
  assert (HM : 0 <= absmax x1 x2).
  { unfold absmax. apply Rle_trans with (2 := Rmax_l _ _). apply Rabs_pos. }
  generalize (Hnum _ HM). fold E. intros HE.
  assert (G : let K := slack ma_d u32 ma_v 0 (absmax x1 x2)
                        + ma_v * (absmax x1 x2 + slack ma_d u32 ma_v 0 (absmax x1 x2)) in
              Rmin (B2R x1) (B2R x2) - K <= B2R (b32_div S W) <= Rmax (B2R x1) (B2R x2) + K).
  { apply (ma_core ma_d u32 ma_v (B2R x1) (B2R x2) (B2R W1) (B2R W2) (B2R W) (B2R P1) (B2R P2) (B2R S));
      try assumption; try lra.
    - apply Rmax_l.
    - apply Rmax_r.
    - rewrite RP1. rewrite <- (Rabs_pos_eq (B2R W1)) at 3 by exact W1p. rewrite <- Rabs_mult.
      now apply prod_normal_err.
    - rewrite RP2. rewrite <- (Rabs_pos_eq (B2R W2)) at 3 by exact W2p. rewrite <- Rabs_mult.
      now apply prod_normal_err.
    - rewrite RS. apply rnd32_err_plus; apply fmt_B2R.
    - rewrite RV. unfold quot_normal in NQ. apply orb_true_iff in NQ. destruct NQ as [NQ|NQ].
      + rewrite (is_zero32_R _ NQ). unfold Rdiv. rewrite Rmult_0_l.
        rewrite round_0; auto with typeclass_instances. rewrite Rminus_0_r, Rabs_R0. lra.
      + apply rnd32_err_res. rewrite <- RV.
        destruct min_normal32_R as [Rm Fmn].
        assert (Fa : is_finite (b32_abs (b32_div S W)) = true) by (unfold b32_abs; now rewrite is_finite_Babs).
        apply Bleb_R in NQ; [|exact Fmn|exact Fa]. rewrite Rm in NQ.
        unfold b32_abs in NQ. now rewrite B2R_Babs in NQ. }
  cbv zeta in G. lra.
Qed.

(* the same about the model's accumulator, with the constant-input corollary *)
Theorem ma_acc_f_bound tbl (c : cfg) (t1 t2 : Z) (x1 x2 : f32) (w1 w2 : Z) : ma2_ok x1 x2 w1 w2 = true ->
  exists r, @ma_acc_f f32 (B32_with_pow tbl) c [mkDatum t1 x1; mkDatum t2 x2] [w1; w2] (w1 + w2) = Ok r /\
  is_finite r = true /\
  let E := 8 * u32 * Rmax (Rabs (B2R x1)) (Rabs (B2R x2)) in
  Rmin (B2R x1) (B2R x2) - E <= B2R r <= Rmax (B2R x1) (B2R x2) + E.
Proof.
  intros H. exists (mav x1 x2 w1 w2 (w1 + w2)). split; [apply ma_acc_f_B32|]. split.
  - unfold ma2_ok in H. cbv zeta in H. rewrite !andb_true_iff in H.
    now destruct H as ((((_ & FV) & _) & _) & _).
  - exact (ma2_bound x1 x2 w1 w2 H).
Qed.

Corollary ma2_constant (x1 x2 : f32) (w1 w2 : Z) : ma2_ok x1 x2 w1 w2 = true -> B2R x1 = B2R x2 ->
  Rabs (B2R (mav x1 x2 w1 w2 (w1 + w2)) - B2R x1) <= 8 * u32 * Rabs (B2R x1).
Proof.
  intros H Ex. generalize (ma2_bound x1 x2 w1 w2 H). cbv zeta. unfold absmax. rewrite <- Ex.
  unfold Rmin, Rmax. destruct (Rle_dec (B2R x1) (B2R x1)); destruct (Rle_dec (Rabs (B2R x1)) (Rabs (B2R x1)));
    intros [H1 H2]; apply Rabs_le; lra.
Qed.

(* --- witnesses --- *)
(* hypotheses satisfiable; a constant input is not reproduced exactly: x = 0x3fdee56e (1.7413766) over intervals
   of 2716982034 ns and 2382315485 ns gives 0x3fdee572, four ulps above the constant (about 4.6 u |x|) *)
Example ma2_constant_not_exact :
  let x := b32_of_bits 1071572334 in
  ma2_ok x x 2716982034 2382315485 = true /\
  b32_to_bits (mav x x 2716982034 2382315485 (2716982034 + 2382315485)) = 1071572338%Z /\
  Bltb x (mav x x 2716982034 2382315485 (2716982034 + 2382315485)) = true.
Proof. cbv zeta. split; [|split]; vm_compute; reflexivity. Qed.

(* distinct samples of opposite sign, a repeated timestamp (zero weight) *)
Example ma2_ok_sat :
  ma2_ok (b32_of_bits 3225419776) (b32_of_bits 1089470464) 1500000000 500000000 = true /\
  ma2_ok (b32_of_bits 3225419776) (b32_of_bits 1089470464) 1 0 = true.
Proof. split; vm_compute; reflexivity. Qed.

(* --- the moving-average step of the model, when two samples remain in the window --- *)
Lemma isub_ok' a b z : isub a b = Ok z -> z = (a - b)%Z.
Proof. unfold isub, i64_ck. destruct (in_i64 (a - b)); [intros [= <-]; reflexivity|discriminate]. Qed.

Lemma ma_trim_suffix {T} (q : list (datum T)) (b : Z) : exists pre, q = pre ++ ma_trim q b.
Proof.
  induction q as [|d r IH]; [exists []; reflexivity|].
  cbn [ma_trim]. destruct (d_time d <=? b)%Z.
  - destruct IH as [pre E]. exists (d :: pre). cbn [app]. now rewrite <- E.
  - exists []. reflexivity.
Qed.

Theorem ma_step_two_B32 tbl (c : cfg) (s s' : @mavg f32) (o d1 d2 : datum f32) (up : upd) :
  @ma_step f32 (@ma_acc_f f32 (B32_with_pow tbl) c) s (OSome o) = Ok (s', up) ->
  ma_q s' = [d1; d2] ->
  let w1 := (d_time d1 - (d_time o - ma_win s))%Z in
  let w2 := (d_time o - d_time d1)%Z in
  d2 = o /\ (w1 + w2 = ma_win s)%Z /\ up = UOk /\
  ma_val s' = OSome (mkDatum (d_time o) (mav (d_val d1) (d_val o) w1 w2 (w1 + w2))) /\
  (ma2_ok (d_val d1) (d_val o) w1 w2 = true ->
     let r := mav (d_val d1) (d_val o) w1 w2 (w1 + w2) in
     let E := 8 * u32 * Rmax (Rabs (B2R (d_val d1))) (Rabs (B2R (d_val o))) in
     is_finite r = true /\
     Rmin (B2R (d_val d1)) (B2R (d_val o)) - E <= B2R r <= Rmax (B2R (d_val d1)) (B2R (d_val o)) + E).
Proof.
  intros H Hq w1 w2. unfold ma_step in H.
  destruct (isub (d_time o) (ma_win s)) as [bound|] eqn:Eb; [|discriminate]. cbn [bind] in H.
  apply isub_ok' in Eb.
  destruct (ma_trim_suffix (ma_q s ++ [o]) bound) as [pre Epre].
  destruct (ma_trim (ma_q s ++ [o]) bound) as [|e1 q'] eqn:Et; [discriminate|].
  destruct (ma_weights (e1 :: q') bound) as [ws|] eqn:Ew; [|discriminate]. cbn [bind] in H.
  unfold ma_acc_f in H at 1. cbn [bind] in H. injection H as <- <-. cbn [ma_q] in Hq.
  injection Hq as -> ->.
  assert (E2 : d2 = o).
  { change (pre ++ [d1; d2]) with (pre ++ [d1] ++ [d2]) in Epre. rewrite app_assoc in Epre.
    apply app_inj_tail in Epre. symmetry. exact (proj2 Epre). }
  subst d2.
  cbn [ma_weights] in Ew.
  destruct (isub (d_time d1) bound) as [a1|] eqn:E1; [|discriminate]. cbn [bind] in Ew.
  destruct (isub (d_time o) (d_time d1)) as [a2|] eqn:E3; [|discriminate]. cbn [bind] in Ew.
  injection Ew as <-. apply isub_ok' in E1. apply isub_ok' in E3. subst a1 a2 bound.
  fold w1 w2.
  assert (Ew : (w1 + w2 = ma_win s)%Z) by (unfold w1, w2; lia).
  split; [reflexivity|]. split; [exact Ew|]. split; [reflexivity|]. split.
  - cbn [ma_val]. rewrite Ew. reflexivity.
  - intros Hok r E.
    destruct (ma_acc_f_bound tbl c (d_time d1) (d_time o) _ _ _ _ Hok) as (r' & Er & Fr & Hb).
    rewrite ma_acc_f_B32 in Er. injection Er as <-. split; [exact Fr|exact Hb].
Qed.

(* ================================================================ 6. further exact facts about the mixing step *)

(* the step is monotone in both samples, exactly (rounding is monotone at every operation) *)
Theorem mixv_monotone (p n p' n' L : f32) : mix_pre p n L = true -> mix_pre p' n' L = true ->
  B2R p <= B2R p' -> B2R n <= B2R n' -> B2R (mixv p n L) <= B2R (mixv p' n' L).
Proof.
  intros H H' Hp Hn.
  destruct (mix_pre_elim p n L H) as (Fp & Fn & FL & HL & Fr).
  destruct (mix_pre_elim p' n' L H') as (Fp' & Fn' & _ & _ & Fr').
  destruct (b32_one_minus L FL HL) as (Fa & _ & Ha01 & _).
  destruct (b32_mul_weight p _ Fp Fa Ha01) as (FP & RP & _).
  destruct (b32_mul_weight n L Fn FL HL) as (FN & RN & _).
  destruct (b32_mul_weight p' _ Fp' Fa Ha01) as (FP' & RP' & _).
  destruct (b32_mul_weight n' L Fn' FL HL) as (FN' & RN' & _).
  unfold mixv in *. rewrite (b32_add_R _ _ FP FN Fr), (b32_add_R _ _ FP' FN' Fr').
  apply rnd32_le. apply Rplus_le_compat.
  - rewrite RP, RP'. apply rnd32_le. nra.
  - rewrite RN, RN'. apply rnd32_le. nra.
Qed.

(* hence the output for samples p, n lies EXACTLY between the outputs for the constant inputs min and max *)
Corollary mixv_between_constants (p n lo hi L : f32) :
  mix_pre p n L = true -> mix_pre lo lo L = true -> mix_pre hi hi L = true ->
  B2R lo <= B2R p <= B2R hi -> B2R lo <= B2R n <= B2R hi ->
  B2R (mixv lo lo L) <= B2R (mixv p n L) <= B2R (mixv hi hi L).
Proof.
  intros H Hlo Hhi Hp Hn. split; apply mixv_monotone; try assumption; lra.
Qed.

(* end points: weight 0 returns the previous value, weight 1 the new sample, exactly *)
Theorem mixv_weight_0 (p n L : f32) : mix_pre p n L = true -> B2R L = 0 -> B2R (mixv p n L) = B2R p.
Proof.
  intros H HL0. destruct (mix_pre_elim p n L H) as (Fp & Fn & FL & HL & Fr).
  destruct (b32_one_minus L FL HL) as (Fa & Ra & Ha01 & _).
  destruct (b32_mul_weight p _ Fp Fa Ha01) as (FP & RP & _).
  destruct (b32_mul_weight n L Fn FL HL) as (FN & RN & _).
  unfold mixv in *. rewrite (b32_add_R _ _ FP FN Fr), RP, RN, Ra, HL0.
  rewrite Rminus_0_r, Rmult_0_r. rewrite (round_generic _ _ _ 1); auto with typeclass_instances; [|apply fmt32_1].
  rewrite Rmult_1_r, rnd32_id. rewrite round_0; auto with typeclass_instances.
  rewrite Rplus_0_r. apply rnd32_id.
Qed.

Theorem mixv_weight_1 (p n L : f32) : mix_pre p n L = true -> B2R L = 1 -> B2R (mixv p n L) = B2R n.
Proof.
  intros H HL1. destruct (mix_pre_elim p n L H) as (Fp & Fn & FL & HL & Fr).
  destruct (b32_one_minus L FL HL) as (Fa & Ra & Ha01 & _).
  destruct (b32_mul_weight p _ Fp Fa Ha01) as (FP & RP & _).
  destruct (b32_mul_weight n L Fn FL HL) as (FN & RN & _).
  unfold mixv in *. rewrite (b32_add_R _ _ FP FN Fr), RP, RN, Ra, HL1.
  rewrite Rminus_diag_eq by reflexivity. rewrite round_0; auto with typeclass_instances.
  rewrite Rmult_0_r, Rmult_1_r, round_0; auto with typeclass_instances.
  rewrite rnd32_id, Rplus_0_l. apply rnd32_id.
Qed.

(* ================================================================ 7. the step theorems apply to concrete runs *)

(* EWMA: smoothing 0.5, previous value -3.0 at t = 0, new sample 7.5 at t = 1 s; the power oracle has the one
   entry 0.5^1.0 = 0.5, so lambda = 0.5; output 2.25 *)
Example ewma_step_instance :
  let tbl := [(1056964608, 1065353216, 1056964608)]%Z in
  let c := {| chk := true; stdf := true |} in
  let p := mkDatum 0 (b32_of_bits 3225419776) in
  let o := mkDatum 1000000000 (b32_of_bits 1089470464) in
  let s := {| ew_s := b32_of_bits 1056964608; ew_val := OSome p; ew_time := Some 0%Z |} in
  let L := b32_sub one32 (b32_pow tbl (b32_sub one32 (ew_s s)) (b32_of_bits 1065353216)) in
  match @ewma_step f32 (B32_with_pow tbl) c f32 (@mix_f f32 (B32_with_pow tbl)) s (OSome o) with
  | Ok (s', UOk) => match ew_val s' with
                    | OSome d => b32_to_bits (d_val d) = 1074790400%Z     (* 2.25 *)
                    | _ => False
                    end
  | _ => False
  end /\
  match @dt_f f32 (B32_with_pow tbl) c (d_time o) 0%Z with
  | Ok d => b32_to_bits d = 1065353216%Z                                  (* 1.0 s *)
  | Panic => False
  end /\
  mix_normal (d_val p) (d_val o) L = true /\
  b32_to_bits (mixv (d_val p) (d_val o) L) = 1074790400%Z.
Proof. cbv zeta. split; [|split; [|split]]; vm_compute; reflexivity. Qed.

(* moving average: window 2 s, samples -3.0 at t = 1.5 s (already queued) and 7.5 at t = 2 s; output -0.375 *)
Example ma_step_instance :
  let c := {| chk := true; stdf := true |} in
  let d1 := mkDatum 1500000000 (b32_of_bits 3225419776) in
  let o := mkDatum 2000000000 (b32_of_bits 1089470464) in
  let s := {| ma_win := 2000000000; ma_val := OSome d1; ma_q := [d1] |} in
  match @ma_step f32 (@ma_acc_f f32 B32 c) s (OSome o) with
  | Ok (s', UOk) => length (ma_q s') = 2%nat /\
                    match ma_val s' with OSome d => b32_to_bits (d_val d) = 3200253952%Z | _ => False end
  | _ => False
  end /\
  ma2_ok (d_val d1) (d_val o) (1500000000 - (2000000000 - 2000000000)) (2000000000 - 1500000000) = true.
Proof. cbv zeta. split; [|vm_compute; reflexivity]. vm_compute. split; reflexivity. Qed.

(* ---------------------------------------------------------------- assumptions *)
Print Assumptions rnd32_err_le1.
Print Assumptions rnd32_err_gen.
Print Assumptions rnd32_err_res.
Print Assumptions rnd32_err_plus.
Print Assumptions b32_add_monotone.
Print Assumptions b32_mul_monotone.
Print Assumptions b32_mul_weight.
Print Assumptions b32_mul_weight_nonneg.
Print Assumptions b32_one_minus.
Print Assumptions b32_one_minus_bool.
Print Assumptions mix_step_bound_general.
Print Assumptions mix_step_bound.
Print Assumptions mix_step_bound_sharp.
Print Assumptions mix_step_constant.
Print Assumptions mix_f_bound.
Print Assumptions mix_f_bound_general.
Print Assumptions mix_f_constant.
Print Assumptions mix_constant_not_exact.
Print Assumptions mix_constant_underflow.
Print Assumptions ewma_step_bound_B32.
Print Assumptions ma2_bound.
Print Assumptions ma_acc_f_bound.
Print Assumptions ma2_constant.
Print Assumptions ma2_constant_not_exact.
Print Assumptions ma_step_two_B32.
Print Assumptions mixv_monotone.
Print Assumptions mixv_between_constants.
Print Assumptions mixv_weight_0.
Print Assumptions mixv_weight_1.
Print Assumptions ewma_step_instance.
Print Assumptions ma_step_instance.
