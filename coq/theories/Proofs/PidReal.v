(* PID on the real-number instance: the spec's integral is the textbook trapezoid sum, the
   derivative the backward difference quotient; the controller is linear. *)
From Coq Require Import ZArith Bool List Lia Reals Lra.
From RRTK Require Import Num.Num Num.RR Model.Values Model.Streams Proofs.PidProofs.
Import ListNotations.
Local Open Scope R_scope.

Definition secs (t tp : Z) : R := IZR (t - tp) / 1000000000.
(* sum over consecutive samples of dt * (e_prev + e) / 2, list newest first *)
Fixpoint trap (l : list (Z * R)) : R :=
  match l with
  | (t, e) :: r => match r with
                   | (tp, ep) :: _ => trap r + secs t tp * (ep + e) / 2
                   | [] => 0
                   end
  | [] => 0
  end.
Lemma integral_trap (l : list (Z * R)) : integral l = trap l.
Proof.
  induction l as [|[t e] r IH]; [reflexivity|].
  destruct r as [|[tp ep] r']; [cbn; lra|].
  cbn [integral trap] in *. rewrite IH. unfold addend, dtf, secs. cbn. reflexivity.
Qed.
Lemma derivative_quotient (t tp : Z) (e ep : R) l :
  derivative ((t, e) :: (tp, ep) :: l) = (e - ep) / secs t tp.
Proof. reflexivity. Qed.

Definition scale_out (lam : R) (o : out R) : out R :=
  match o with OSome x => OSome (mkDatum (d_time x) (lam * d_val x)) | y => y end.
Lemma recent_scale lam sp hr :
  recent (lam * sp) (map (scale_out lam) hr) = map (fun p => (fst p, lam * snd p)) (recent sp hr).
Proof.
  induction hr as [|e r IH]; [reflexivity|]. destruct e as [er| |x]; try reflexivity.
  cbn [map scale_out recent d_time d_val fst snd]. rewrite IH. f_equal. f_equal. cbn. ring.
Qed.
Lemma integral_scale lam (l : list (Z * R)) :
  integral (map (fun p => (fst p, lam * snd p)) l) = lam * integral l.
Proof.
  rewrite !integral_trap.
  induction l as [|[t e] r IH]; [cbn; ring|].
  destruct r as [|[tp ep] r']; [cbn; ring|].
  cbn [map fst snd trap] in *. rewrite IH. unfold Rdiv. ring.
Qed.
Lemma derivative_scale lam (l : list (Z * R)) :
  derivative (map (fun p => (fst p, lam * snd p)) l) = lam * derivative l.
Proof.
  destruct l as [|[t e] [|[tp ep] r']]; cbn [map fst snd derivative]; try (cbn; ring).
  unfold deriv. cbn. unfold Rdiv. ring.
Qed.
Theorem pid_linear (lam sp : R) (k : @kvals R) (h : list (out R)) :
  pid_spec (lam * sp) k (map (scale_out lam) h) = scale_out lam (pid_spec sp k h).
Proof.
  unfold pid_spec. rewrite <- map_rev. set (hr := rev h). destruct hr as [|e r]; [reflexivity|].
  destruct e as [er| |x]; try reflexivity.
  cbn [map scale_out spec_r d_time d_val].
  change (OSome {| d_time := d_time x; d_val := lam * d_val x |} :: map (scale_out lam) r) with (map (scale_out lam) (OSome x :: r)).
  rewrite recent_scale, integral_scale, derivative_scale. unfold law. cbn. f_equal. f_equal. ring.
Qed.
