(* binary32: initial conditions of the motion profile and State::update with dt = 0. *)
From Coq Require Import ZArith Bool List Reals Lia.
From Flocq Require Import Core.Core IEEE754.Binary IEEE754.Bits IEEE754.BinarySingleNaN.
From RRTK Require Import Num.Num Num.B32 Model.Values Model.MotionProfile Proofs.ValuesProofs Proofs.B32Laws Proofs.B32Laws2.
Local Open Scope Z_scope.

Notation c := (cfg_chk true).
Definition UPm := {| mm := 1; sec := 0 |}.
Definition UVm := {| mm := 1; sec := -1 |}.
Definition UAm := {| mm := 1; sec := -2 |}.
Definition wd32 (p : @mp f32) : Prop :=
  qu (mp_start_pos p) = UPm /\ qu (mp_start_vel p) = UVm /\ qu (mp_max_acc p) = UAm.
Notation fin := (BinarySingleNaN.is_finite (prec := 24) (emax := 128)).
Notation eqb32 := (BinarySingleNaN.Beqb (prec := 24) (emax := 128)).

Lemma q0 : qv (@Values.q_of_time f32 B32 c 0) = B754_zero false.
Proof. exact t2q_zero. Qed.

Theorem initial_conditions_b32 (p : @mp f32) :
  wd32 p -> 0 < mp_t1 p ->
  fin (qv (mp_max_acc p)) = true -> fin (qv (mp_start_vel p)) = true -> fin (qv (mp_start_pos p)) = true ->
  exists qv_ qp_, @mp_vel f32 B32 c p 0 = Ok (Some qv_) /\ @mp_pos f32 B32 c p 0 = Ok (Some qp_) /\
    eqb32 (qv qv_) (qv (mp_start_vel p)) = true /\ eqb32 (qv qp_) (qv (mp_start_pos p)) = true /\
    qu qv_ = UVm /\ qu qp_ = UPm.
Proof.
  intros (Hup & Huv & Hua) Ht Fa Fv Fp.
  unfold mp_vel, mp_pos. destruct (Z.ltb_spec 0 0); [lia|]. destruct (Z.ltb_spec 0 (mp_t1 p)); [|lia].
  destruct (mp_start_pos p) as [p0v p0u] eqn:Ep; destruct (mp_start_vel p) as [v0v v0u] eqn:Ev;
  destruct (mp_max_acc p) as [av au] eqn:Ea. cbn [qu qv] in *. subst p0u v0u au.
  eexists; eexists. split; [reflexivity|]. split; [reflexivity|].
  cbn [qv qu qnew qadd qmul bind uadd assert_ok eq_assume_true chk cfg_chk].
  repeat split.
  - rewrite q0. apply (vel_at_zero av v0v Fa). intros E. rewrite E in Fv. discriminate.
  - rewrite !q0. apply (pos_at_zero' av v0v p0v Fa Fv). intros E. rewrite E in Fp. discriminate.
Qed.

Theorem update_zero_dt_b32 (s : @state f32) :
  fin (s_pos s) = true -> fin (s_vel s) = true -> fin (s_acc s) = true -> fin (b32_add (s_vel s) (s_vel s)) = true ->
  exists s', @s_update f32 B32 c s 0 = Ok s' /\
    eqb32 (s_vel s') (s_vel s) = true /\ eqb32 (s_pos s') (s_pos s) = true /\ s_acc s' = s_acc s.
Proof.
  intros Fp Fv Fa Fvv. eexists. split; [reflexivity|].
  cbn [s_vel s_pos s_acc qv qnew]. rewrite ?q0.
  destruct (update_zero_dt' (s_pos s) (s_vel s) (s_acc s) Fp Fv Fa Fvv) as [H1 H2].
  repeat split; assumption.
Qed.
