(* Further laws of the binary32 carrier: time_of monotonicity, zero absorption. *)
From Coq Require Import ZArith Bool Reals Lia Lra Psatz SpecFloat.
From Flocq Require Import Core.Core IEEE754.Binary IEEE754.Bits.
From Flocq Require Import Relative Plus_error.
(* BinarySingleNaN last, so that unqualified names (Bplus, B2R, ...) are its own. *)
From Flocq Require Import IEEE754.BinarySingleNaN.
(* RRTK after Flocq: B32Laws' notations (B2R, Bleb, ... at (24,128)) must shadow the raw names. *)
From RRTK Require Import Num.Num Num.B32 Proofs.B32Laws.

Notation rnd32 := (round radix2 (FLT_exp (-149) 24) ZnearestE).

(* ================================================================ A *)

Lemma mul_zero_E9 : forall s, b32_mul (B754_zero s) E9 = B754_zero s.
Proof. intros [|]; vm_compute; reflexivity. Qed.

Lemma mul_inf_E9 : forall s, b32_mul (B754_infinity s) E9 = B754_infinity s.
Proof. intros [|]; vm_compute; reflexivity. Qed.

(* A1 *)
Lemma time_of_zero : forall s, time_of (B754_zero s) = 0%Z.
Proof. intros s. unfold time_of. rewrite mul_zero_E9. reflexivity. Qed.

Lemma time_of_pinf : time_of (B754_infinity false) = 9223372036854775807%Z.
Proof. unfold time_of. rewrite mul_inf_E9. reflexivity. Qed.

Lemma time_of_minf : time_of (B754_infinity true) = (-9223372036854775808)%Z.
Proof. unfold time_of. rewrite mul_inf_E9. reflexivity. Qed.

(* A4 *)
Lemma Bleb_zero_not_nan : forall x, Bleb (B754_zero false) x = true -> x <> B754_nan.
Proof. intros x H E. rewrite E in H. discriminate H. Qed.

Lemma Bleb_zero_nonneg : forall x, Bleb (B754_zero false) x = true -> is_finite x = true ->
  (0 <= B2R x)%R.
Proof.
  intros x H Fx. rewrite Bleb_correct in H by (reflexivity || assumption).
  revert H. case Rle_bool_spec; [intros H _; exact H|discriminate].
Qed.

Lemma Bleb_any_pinf : forall a : f32, a <> B754_nan -> Bleb a (B754_infinity false) = true.
Proof. intros [s|s| |s m e H] Na; [| |now elim Na|]; destruct s; reflexivity. Qed.

Lemma Bleb_minf_any' : forall a : f32, a <> B754_nan -> Bleb (B754_infinity true) a = true.
Proof. intros [s|s| |s m e H] Na; [| |now elim Na|]; destruct s; reflexivity. Qed.

Lemma mul_E9_not_nan : forall x, x <> B754_nan -> b32_mul x E9 <> B754_nan.
Proof.
  intros x Nx. destruct (is_finite x) eqn:Fx.
  - destruct (mul_E9_cases x Fx) as [(_ & F & _)|(_ & I)]; intros E.
    + rewrite E in F. discriminate.
    + rewrite E in I. discriminate.
  - destruct x as [s|s| |s m e H]; try discriminate; try (now elim Nx).
    all: rewrite mul_inf_E9; discriminate.
Qed.

(* v |-> v * 1e9 is monotone on all non-NaN values *)
Lemma b32_mul_E9_monotone_gen : forall x y, x <> B754_nan -> y <> B754_nan ->
  Bleb x y = true -> Bleb (b32_mul x E9) (b32_mul y E9) = true.
Proof.
  intros x y Nx Ny H.
  destruct (is_finite x) eqn:Fx; destruct (is_finite y) eqn:Fy.
  - now apply b32_mul_E9_monotone.
  - destruct y as [s|s| |s m e Hy]; try discriminate; try (now elim Ny).
    rewrite mul_inf_E9. destruct s.
    + destruct x as [sx|sx| |sx mx ex Hx]; try discriminate; destruct sx; discriminate.
    + apply Bleb_any_pinf. now apply mul_E9_not_nan.
  - destruct x as [s|s| |s m e Hx]; try discriminate; try (now elim Nx).
    rewrite mul_inf_E9. destruct s.
    + apply Bleb_minf_any'. now apply mul_E9_not_nan.
    + destruct y as [sy|sy| |sy my ey Hy]; try discriminate; destruct sy; discriminate.
  - destruct x as [s|s| |s m e Hx]; try discriminate; try (now elim Nx).
    destruct y as [sy|sy| |sy my ey Hy]; try discriminate; try (now elim Ny).
    rewrite !mul_inf_E9. exact H.
Qed.

Lemma time_of_monotone : forall x y, x <> B754_nan -> y <> B754_nan ->
  Bleb x y = true -> (time_of x <= time_of y)%Z.
Proof.
  intros x y Nx Ny H. unfold time_of.
  apply b32_to_i64_monotone; try (now apply mul_E9_not_nan).
  now apply b32_mul_E9_monotone_gen.
Qed.

(* A2 *)
Lemma time_of_nonneg : forall x, Bleb (B754_zero false) x = true -> (0 <= time_of x)%Z.
Proof.
  intros x H. rewrite <- (time_of_zero false).
  apply time_of_monotone; [discriminate|now apply Bleb_zero_not_nan|exact H].
Qed.

(* the sum of two finite numbers is never NaN *)
Lemma b32_add_finite_not_nan : forall x y, is_finite x = true -> is_finite y = true ->
  b32_add x y <> B754_nan.
Proof.
  intros x y Fx Fy. unfold b32_add.
  generalize (Bplus_correct 24 128 Hprec32 Hmax32 mode_NE x y Fx Fy).
  case Rlt_bool; intros H E; rewrite E in H.
  - destruct H as (_ & H & _). discriminate.
  - destruct H as (H & _). discriminate.
Qed.

(* A3 *)
Lemma time_of_add_ge : forall x y, Bleb (B754_zero false) x = true ->
  Bleb (B754_zero false) y = true -> (time_of x <= time_of (b32_add x y))%Z.
Proof.
  intros x y Hx Hy.
  generalize (Bleb_zero_not_nan x Hx) (Bleb_zero_not_nan y Hy). intros Nx Ny.
  destruct (is_finite x) eqn:Fx; destruct (is_finite y) eqn:Fy.
  - apply time_of_monotone; [exact Nx|now apply b32_add_finite_not_nan|].
    apply b32_add_nonneg_ge; try assumption. now apply Bleb_zero_nonneg.
  - destruct y as [s|s| |s m e H]; try discriminate; try (now elim Ny).
    destruct s; [discriminate|].
    replace (b32_add x (B754_infinity false)) with (B754_infinity false : f32)
      by (destruct x; try discriminate; reflexivity).
    rewrite time_of_pinf. apply (b32_to_i64_range (b32_mul x E9)).
  - destruct x as [s|s| |s m e H]; try discriminate; try (now elim Nx).
    destruct s; [discriminate|].
    replace (b32_add (B754_infinity false) y) with (B754_infinity false : f32)
      by (destruct y; try discriminate; reflexivity).
    lia.
  - destruct x as [s|s| |s m e H]; try discriminate; try (now elim Nx).
    destruct y as [sy|sy| |sy my ey H]; try discriminate; try (now elim Ny).
    destruct s; [discriminate|]. destruct sy; [discriminate|].
    cbn. lia.
Qed.

(* ================================================================ B *)

(* B1 *)
Lemma b32_mul_zero_r_is_zero : forall x s, is_finite x = true ->
  exists s', b32_mul x (B754_zero s) = B754_zero s'.
Proof.
  intros [sx|sx| |sx m e H] s Fx; try discriminate; eexists; reflexivity.
Qed.

Lemma b32_mul_zero_l_is_zero : forall x s, is_finite x = true ->
  exists s', b32_mul (B754_zero s) x = B754_zero s'.
Proof.
  intros [sx|sx| |sx m e H] s Fx; try discriminate; eexists; reflexivity.
Qed.

(* B2 *)
Lemma b32_add_zeros : forall s1 s2, exists s, b32_add (B754_zero s1) (B754_zero s2) = B754_zero s.
Proof. intros [|] [|]; eexists; reflexivity. Qed.

Lemma b32_div_zero_two : forall s, b32_div (B754_zero s) (b32_of_Z 2) = B754_zero s.
Proof. intros [|]; vm_compute; reflexivity. Qed.

(* B3 *)
Lemma Beqb_refl_not_nan : forall v : f32, v <> B754_nan -> Beqb v v = true.
Proof.
  intros v Nv. rewrite Beqb_refl. destruct v; try reflexivity. now elim Nv.
Qed.

Lemma b32_add_zero_l_eqb : forall s v, v <> B754_nan -> Beqb (b32_add (B754_zero s) v) v = true.
Proof.
  intros s [sv|sv| |sv m e H] Nv; [| |now elim Nv|].
  - destruct s, sv; reflexivity.
  - destruct sv; reflexivity.
  - change (b32_add (B754_zero s) (B754_finite sv m e H)) with (B754_finite sv m e H : f32).
    now apply Beqb_refl_not_nan.
Qed.

Lemma b32_add_zero_r_eqb : forall s v, v <> B754_nan -> Beqb (b32_add v (B754_zero s)) v = true.
Proof. intros s v Nv. rewrite b32_add_comm. now apply b32_add_zero_l_eqb. Qed.

(* B4 *)
Lemma vel_at_zero : forall a v, is_finite a = true -> v <> B754_nan ->
  Beqb (b32_add (b32_mul a (B754_zero false)) v) v = true.
Proof.
  intros a v Fa Nv. destruct (b32_mul_zero_r_is_zero a false Fa) as [s' ->].
  now apply b32_add_zero_l_eqb.
Qed.

(* B5 *)
Lemma pos_at_zero : forall a v p, is_finite a = true -> is_finite v = true -> p <> B754_nan ->
  is_finite (b32_mul b32_half a) = true ->
  let z := B754_zero false in
  let half := b32_half in
  Beqb (b32_add (b32_add (b32_mul (b32_mul (b32_mul half a) z) z) (b32_mul v z)) p) p = true.
Proof.
  intros a v p Fa Fv Np Fh z half. unfold z, half.
  destruct (b32_mul_zero_r_is_zero _ false Fh) as [s1 ->].
  destruct (b32_mul_zero_r_is_zero (B754_zero s1) false eq_refl) as [s2 ->].
  destruct (b32_mul_zero_r_is_zero v false Fv) as [s3 ->].
  destruct (b32_add_zeros s2 s3) as [s4 ->].
  now apply b32_add_zero_l_eqb.
Qed.

(* b32_half is, by definition, the literal used in client statements *)
Lemma b32_half_unfold : b32_half = Binary.B2BSN 24 128 (Bits.b32_of_bits 1056964608).
Proof. reflexivity. Qed.

Lemma half_SF : B2SF b32_half = S754_finite false 8388608 (-24).
Proof. vm_compute. reflexivity. Qed.

Lemma half_exact : B2R b32_half = (/ 2)%R /\ is_finite b32_half = true.
Proof.
  split.
  - rewrite <- (SF2R_B2SF 24 128), half_SF. unfold SF2R, F2R. simpl. lra.
  - rewrite <- is_finite_SF_B2SF, half_SF. reflexivity.
Qed.

Lemma half_mul_finite : forall a, is_finite a = true -> is_finite (b32_mul b32_half a) = true.
Proof.
  intros a Fa. destruct half_exact as [Rh Fh].
  generalize (Bmult_correct 24 128 Hprec32 Hmax32 mode_NE b32_half a).
  change (round radix2 (fexp 24 128) (round_mode mode_NE)) with rnd32.
  rewrite Rh, Fh, Fa. rewrite Rlt_bool_true.
  - intros (_ & H & _). exact H.
  - apply Rle_lt_trans with (Rabs (B2R a)); [|apply (abs_B2R_lt_emax 24 128)].
    apply abs_round_le_generic; auto with typeclass_instances.
    + apply generic_format_abs, (generic_format_B2R 24 128).
    + rewrite Rabs_mult, (Rabs_pos_eq (/ 2)) by lra.
      assert (0 <= Rabs (B2R a))%R by apply Rabs_pos. lra.
Qed.

Lemma pos_at_zero' : forall a v p, is_finite a = true -> is_finite v = true -> p <> B754_nan ->
  let z := B754_zero false in
  let half := b32_half in
  Beqb (b32_add (b32_add (b32_mul (b32_mul (b32_mul half a) z) z) (b32_mul v z)) p) p = true.
Proof.
  intros a v p Fa Fv Np. apply pos_at_zero; try assumption. now apply half_mul_finite.
Qed.

(* B6 *)
Lemma is_finite_not_nan : forall x : f32, is_finite x = true -> x <> B754_nan.
Proof. intros x F E. rewrite E in F. discriminate. Qed.

Lemma update_zero_dt : forall p v a, is_finite p = true -> is_finite v = true ->
  is_finite a = true ->
  let z := B754_zero false in
  let nv := b32_add v (b32_mul z a) in
  is_finite (b32_add v nv) = true ->
  Beqb nv v = true /\
  Beqb (b32_add p (b32_div (b32_mul z (b32_add v nv)) (b32_of_Z 2))) p = true.
Proof.
  intros p v a Fp Fv Fa z nv Fs.
  split.
  - unfold nv, z. destruct (b32_mul_zero_l_is_zero a false Fa) as [s ->].
    apply b32_add_zero_r_eqb. now apply is_finite_not_nan.
  - unfold z. destruct (b32_mul_zero_l_is_zero _ false Fs) as [s ->].
    rewrite b32_div_zero_two. apply b32_add_zero_r_eqb. now apply is_finite_not_nan.
Qed.

(* the side condition stated on v alone: 2v does not overflow *)
Lemma update_zero_dt_nv_finite : forall v a, is_finite v = true -> is_finite a = true ->
  is_finite (b32_add v v) = true ->
  is_finite (b32_add v (b32_add v (b32_mul (B754_zero false) a))) = true.
Proof.
  intros v a Fv Fa F2.
  destruct (b32_mul_zero_l_is_zero a false Fa) as [s ->].
  destruct v as [sv|sv| |sv m e H]; try discriminate.
  - destruct sv, s; reflexivity.
  - exact F2.
Qed.

Lemma update_zero_dt' : forall p v a, is_finite p = true -> is_finite v = true ->
  is_finite a = true -> is_finite (b32_add v v) = true ->
  let z := B754_zero false in
  let nv := b32_add v (b32_mul z a) in
  Beqb nv v = true /\
  Beqb (b32_add p (b32_div (b32_mul z (b32_add v nv)) (b32_of_Z 2))) p = true.
Proof.
  intros p v a Fp Fv Fa F2 z nv. apply update_zero_dt; try assumption.
  now apply update_zero_dt_nv_finite.
Qed.

(* ================================================================ C *)

(* IEEE <= is transitive (a true hypothesis excludes NaN operands) *)
Lemma Bleb_trans : forall x y z, Bleb x y = true -> Bleb y z = true -> Bleb x z = true.
Proof.
  intros x y z Hxy Hyz.
  destruct (is_finite x) eqn:Fx; destruct (is_finite y) eqn:Fy; destruct (is_finite z) eqn:Fz.
  1: { rewrite Bleb_correct in Hxy, Hyz |- * by assumption.
       revert Hxy; case Rle_bool_spec; [intros Hxy _|discriminate].
       revert Hyz; case Rle_bool_spec; [intros Hyz _|discriminate].
       apply Rle_bool_true. lra. }
  all: destruct x as [sx|sx| |sx mx ex Hx]; try discriminate;
       destruct y as [sy|sy| |sy my ey Hy]; try discriminate;
       destruct z as [sz|sz| |sz mz ez Hz]; try discriminate.
  all: repeat match goal with s : bool |- _ => destruct s end;
       try reflexivity; try discriminate Hxy; try discriminate Hyz.
Qed.

Lemma b32_add_nonneg : forall x y, Bleb (B754_zero false) x = true ->
  Bleb (B754_zero false) y = true -> Bleb (B754_zero false) (b32_add x y) = true.
Proof.
  intros x y Hx Hy.
  generalize (Bleb_zero_not_nan x Hx) (Bleb_zero_not_nan y Hy). intros Nx Ny.
  destruct (is_finite x) eqn:Fx; destruct (is_finite y) eqn:Fy.
  - apply Bleb_trans with (1 := Hx).
    apply b32_add_nonneg_ge; try assumption. now apply Bleb_zero_nonneg.
  - destruct y as [s|s| |s m e H]; try discriminate; try (now elim Ny).
    destruct s; [discriminate|].
    replace (b32_add x (B754_infinity false)) with (B754_infinity false : f32)
      by (destruct x; try discriminate; reflexivity).
    reflexivity.
  - destruct x as [s|s| |s m e H]; try discriminate; try (now elim Nx).
    destruct s; [discriminate|].
    replace (b32_add (B754_infinity false) y) with (B754_infinity false : f32)
      by (destruct y; try discriminate; reflexivity).
    reflexivity.
  - destruct x as [s|s| |s m e H]; try discriminate; try (now elim Nx).
    destruct y as [sy|sy| |sy my ey H]; try discriminate; try (now elim Ny).
    destruct s; [discriminate|]. destruct sy; [discriminate|]. reflexivity.
Qed.

Lemma time_of_chain : forall a b c, Bleb (B754_zero false) a = true ->
  Bleb (B754_zero false) b = true -> Bleb (B754_zero false) c = true ->
  (0 <= time_of a <= time_of (b32_add a b))%Z /\
  (time_of (b32_add a b) <= time_of (b32_add (b32_add a b) c))%Z.
Proof.
  intros a b c Ha Hb Hc. repeat split.
  - now apply time_of_nonneg.
  - now apply time_of_add_ge.
  - apply time_of_add_ge; [now apply b32_add_nonneg|exact Hc].
Qed.

(* ---------------------------------------------------------------- assumptions *)
Print Assumptions Bleb_trans.
Print Assumptions b32_add_nonneg.
Print Assumptions time_of_chain.
Print Assumptions time_of_zero.
Print Assumptions time_of_nonneg.
Print Assumptions time_of_add_ge.
Print Assumptions time_of_monotone.
Print Assumptions Bleb_zero_not_nan.
Print Assumptions Bleb_zero_nonneg.
Print Assumptions b32_mul_zero_r_is_zero.
Print Assumptions b32_mul_zero_l_is_zero.
Print Assumptions b32_add_zeros.
Print Assumptions b32_div_zero_two.
Print Assumptions b32_add_zero_l_eqb.
Print Assumptions b32_add_zero_r_eqb.
Print Assumptions vel_at_zero.
Print Assumptions pos_at_zero.
Print Assumptions half_mul_finite.
Print Assumptions pos_at_zero'.
Print Assumptions update_zero_dt.
Print Assumptions update_zero_dt'.
