(* Decoding of the names of the unit constants of src/dimensions/constants.rs:
   tokens INVERSE MILLIMETER SECOND SQUARED CUBED PER DIMENSIONLESS separated by '_'. *)
From Coq Require Import ZArith Bool List String Ascii.
Import ListNotations.
Local Open Scope Z_scope.

Fixpoint split_us (s : string) (cur : string) : list string :=
  match s with
  | EmptyString => [cur]
  | String ch r => if Ascii.eqb ch "_"%char then cur :: split_us r EmptyString
                   else split_us r (cur ++ String ch EmptyString)
  end.

(* state: sign applied to the following bases, which base was last, exponents *)
Inductive base := BNone | BMm | BSec.
Fixpoint denote_tokens (toks : list string) (inv : bool) (per : bool) (last : base) (m s : Z) : option (Z * Z) :=
  match toks with
  | [] => Some (m, s)
  | t :: r =>
      let sg := if inv || per then -1 else 1 in
      if String.eqb t "INVERSE" then denote_tokens r true per last m s
      else if String.eqb t "PER" then denote_tokens r inv true BNone m s
      else if String.eqb t "DIMENSIONLESS" then denote_tokens r inv per BNone m s
      else if String.eqb t "MILLIMETER" then denote_tokens r inv per BMm (m + sg) s
      else if String.eqb t "SECOND" then denote_tokens r inv per BSec m (s + sg)
      else if String.eqb t "SQUARED" then
        match last with BMm => denote_tokens r inv per BNone (m + sg) s
                      | BSec => denote_tokens r inv per BNone m (s + sg) | BNone => None end
      else if String.eqb t "CUBED" then
        match last with BMm => denote_tokens r inv per BNone (m + 2 * sg) s
                      | BSec => denote_tokens r inv per BNone m (s + 2 * sg) | BNone => None end
      else None
  end.
Definition denote_name (n : string) : option (Z * Z) := denote_tokens (split_us n EmptyString) false false BNone 0 0.

Definition const_ok (e : string * Z * Z) : bool :=
  match e with (n, m, s) =>
    match denote_name n with Some (m', s') => (m =? m') && (s =? s') | None => false end end.

Definition grid : list (Z * Z) :=
  flat_map (fun m => map (fun s => (m, s)) [-3; -2; -1; 0; 1; 2; 3]) [-3; -2; -1; 0; 1; 2; 3].
Definition covers (tbl : list (string * Z * Z)) : bool :=
  forallb (fun p => Nat.eqb (List.length (filter (fun e => match e with (_, m, s) => (m =? fst p) && (s =? snd p) end) tbl)) 1) grid
  && Nat.eqb (List.length tbl) 49.
