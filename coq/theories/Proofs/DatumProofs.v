(* Datum: newest contributing timestamp; selection helpers. *)
From Coq Require Import ZArith Bool List Lia.
From RRTK Require Import Num.Num Model.Values Model.Prog.
Local Open Scope Z_scope.

Lemma tmax_ge_max a b : tmax_ge a b = Z.max a b.
Proof. unfold tmax_ge. destruct (Z.geb_spec a b); lia. Qed.
Lemma tmax_gt_max a b : tmax_gt a b = Z.max a b.
Proof. unfold tmax_gt. destruct (Z.gtb_spec a b); lia. Qed.

Lemma dat_bin_time {A B C} (f : A -> B -> C) x y :
  d_time (dat_bin f x y) = Z.max (d_time x) (d_time y) /\ d_val (dat_bin f x y) = f (d_val x) (d_val y).
Proof. unfold dat_bin; cbn. rewrite tmax_ge_max. split; reflexivity. Qed.
Lemma dat_scal_time {A B C} (f : A -> B -> C) x y :
  d_time (dat_scal f x y) = d_time x /\ d_val (dat_scal f x y) = f (d_val x) y.
Proof. split; reflexivity. Qed.
Lemma dat_map_time {A B} (f : A -> B) x : d_time (dat_map f x) = d_time x /\ d_val (dat_map f x) = f (d_val x).
Proof. split; reflexivity. Qed.

Lemma replace_if_older_than_spec {T} (self cand : datum T) :
  (d_time cand > d_time self -> replace_if_older_than self cand = (cand, true)) /\
  (d_time cand <= d_time self -> replace_if_older_than self cand = (self, false)).
Proof. unfold replace_if_older_than. destruct (Z.gtb_spec (d_time cand) (d_time self)); split; intros; try lia; reflexivity. Qed.

Lemma replace_if_none_or_older_than_spec {T} (self : option (datum T)) (cand : datum T) :
  (self = None -> replace_if_none_or_older_than self cand = (Some cand, true)) /\
  (forall s, self = Some s -> d_time cand > d_time s -> replace_if_none_or_older_than self cand = (Some cand, true)) /\
  (forall s, self = Some s -> d_time cand <= d_time s -> replace_if_none_or_older_than self cand = (self, false)).
Proof.
  unfold replace_if_none_or_older_than. repeat split.
  - intros ->. reflexivity.
  - intros s -> H. destruct (Z.geb_spec (d_time s) (d_time cand)); [lia|reflexivity].
  - intros s -> H. destruct (Z.geb_spec (d_time s) (d_time cand)); [reflexivity|lia].
Qed.
Lemma replace_option_spec {T} (self cand : option (datum T)) :
  (cand = None -> replace_if_none_or_older_than_option self cand = (self, false)) /\
  (forall x, cand = Some x -> replace_if_none_or_older_than_option self cand = replace_if_none_or_older_than self x).
Proof. split; [intros ->|intros x ->]; reflexivity. Qed.

Lemma latest_spec {T} (a b : datum T) :
  (latest a b = a \/ latest a b = b) /\ d_time (latest a b) = Z.max (d_time a) (d_time b) /\
  (d_time a >= d_time b -> latest a b = a) /\ (d_time a < d_time b -> latest a b = b).
Proof.
  unfold latest. destruct (Z.geb_spec (d_time a) (d_time b)); repeat split; auto; intros; lia.
Qed.

(* the deep embedding: every binary Datum operator form, every payload type *)
Section Deep.
Context {F : Type} {NF : Num F}.
Variable c : cfg.
Lemma arith_dat_dat o asg t1 v1 t2 v2 r :
  arith c o asg (VDat t1 v1) (VDat t2 v2) = RVal r ->
  exists v, r = VDat (Z.max t1 t2) v /\ arith c o asg v1 v2 = RVal v.
Proof.
  cbn [arith]. destruct (dat_payload_ok v1 v2); [|discriminate].
  destruct (arith c o asg v1 v2) as [v| |]; cbn [rbind]; try discriminate.
  intros [= <-]. exists v. rewrite tmax_ge_max. split; reflexivity.
Qed.
Lemma arith_dat_scalar o asg t1 v1 y r :
  (forall t w, y <> VDat t w) ->
  arith c o asg (VDat t1 v1) y = RVal r ->
  exists v, r = VDat t1 v /\ arith c o asg v1 y = RVal v.
Proof.
  intros Hy. cbn [arith].
  destruct y; try (exfalso; eapply Hy; reflexivity);
  (destruct (dat_payload_ok v1 _); [|discriminate]);
  (match goal with |- rbind ?a _ = _ -> _ => destruct a as [v| |]; cbn [rbind]; try discriminate end);
  intros [= <-]; exists v; split; reflexivity.
Qed.
Lemma neg_not_keep_time t v r :
  (neg_val (VDat t v) = RVal r -> exists w, r = VDat t w) /\ (not_val (VDat t v) = RVal r -> exists w, r = VDat t w).
Proof.
  split.
  - cbn [neg_val]. destruct v; try discriminate;
    (match goal with |- rbind ?a _ = _ -> _ => destruct a as [w| |]; cbn [rbind]; try discriminate end);
    intros [= <-]; eexists; reflexivity.
  - cbn [not_val]. destruct v; try discriminate. intros [= <-]. eexists; reflexivity.
Qed.
End Deep.
