(* Reference / clones / to_dyn: one shared object; no lost update under a lock (model of std's locks). *)
From Coq Require Import ZArith Bool List Lia Arith.
From RRTK Require Import Num.Num Model.Values Model.RefHeap.
Import ListNotations.

(* ---- aliasing and liveness ---- *)
Fixpoint run (h : rheap) (ops : list rop) : res (rheap * list rout) :=
  match ops with
  | [] => Ok (h, [])
  | o :: r => match rstep h o with
              | Panic => Panic
              | Ok (h', out) => match run h' r with Ok (h'', outs) => Ok (h'', out :: outs) | Panic => Panic end
              end
  end.
(* the abstract object: a single cell holding the value of the most recent write through ANY live handle *)
Definition abs_step (live_ : bool) (x : Z) (o : rop) : Z :=
  match o with RWrite _ y => if live_ then y else x | _ => x end.
Lemma rstep_val h o h' out :
  rstep h o = Ok (h', out) ->
  rh_val h' = (match o with RWrite k y => if live h k then y else rh_val h | _ => rh_val h end) /\
  (forall k, o = RRead k -> live h k = true -> out = RVal (rh_val h)) /\
  rh_var h' = rh_var h.
Proof.
  destruct o as [k|k|k|k y|k|]; cbn [rstep].
  - destruct (live h k); intros [= <- <-]; repeat split; try reflexivity; intros; discriminate.
  - destruct (live h k); [destruct (to_dyn_lists (rh_var h)); [|discriminate]|]; intros [= <- <-]; repeat split; try reflexivity; intros; discriminate.
  - destruct (live h k) eqn:L; intros [= <- <-]; repeat split; try reflexivity.
    intros k0 [= <-] H. congruence.
  - destruct (live h k); intros [= <- <-]; repeat split; try reflexivity; intros; discriminate.
  - destruct (live h k); intros [= <- <-]; repeat split; try reflexivity; intros; discriminate.
  - intros [= <- <-]; repeat split; try reflexivity; intros; discriminate.
Qed.

Lemma length_set_nth l k b : length (set_nth l k b) = length l.
Proof. revert k. induction l as [|x r IH]; intros [|k]; cbn; auto. Qed.
(* the target of a counted variant is freed exactly when no handle is left; never for pointer variants *)
Definition alive_inv (h : rheap) : Prop :=
  rh_freed h = true <-> (counted (rh_var h) = true /\ nlive h = 0).
Lemma filter_app_true (l : list bool) : length (filter (fun b => b) (l ++ [true])) = S (length (filter (fun b => b) l)).
Proof. rewrite filter_app, app_length. cbn. lia. Qed.
Lemma set_nth_false_count l k :
  nth k l false = true -> S (length (filter (fun b => b) (set_nth l k false))) = length (filter (fun b => b) l).
Proof.
  revert k. induction l as [|x r IH]; intros [|k] H; cbn in *; try discriminate.
  - subst x. cbn. reflexivity.
  - destruct x; cbn; rewrite <- (IH k H); reflexivity.
Qed.
Lemma live_not_freed h k : alive_inv h -> live h k = true -> rh_freed h = false /\ nlive h > 0.
Proof.
  intros I L. unfold live in L. pose proof (set_nth_false_count _ _ L) as C. unfold nlive.
  split; [|lia]. destruct (rh_freed h) eqn:F; [|reflexivity].
  destruct (proj1 I F) as [_ N]. unfold nlive in N. lia.
Qed.
Lemma alive_step h o h' out : alive_inv h -> rstep h o = Ok (h', out) -> alive_inv h'.
Proof.
  intros I. destruct o as [k|k|k|k y|k|]; cbn [rstep].
  - destruct (live h k) eqn:L; intros [= <- <-]; [|exact I].
    destruct (live_not_freed h k I L) as [F N]. unfold alive_inv, nlive. cbn [rh_freed rh_var rh_handles].
    rewrite F, filter_app_true. split; [discriminate|intros [_ H]; lia].
  - destruct (live h k) eqn:L; [|intros [= <- <-]; exact I].
    destruct (to_dyn_lists (rh_var h)); [|discriminate]. intros [= <- <-].
    destruct (live_not_freed h k I L) as [F N]. unfold alive_inv, nlive. cbn [rh_freed rh_var rh_handles].
    rewrite F, filter_app_true. split; [discriminate|intros [_ H]; lia].
  - destruct (live h k); intros [= <- <-]; exact I.
  - destruct (live h k); intros [= <- <-]; exact I.
  - destruct (live h k) eqn:L; intros [= <- <-]; [|exact I].
    destruct (live_not_freed h k I L) as [F N]. unfold alive_inv, nlive. cbn [rh_freed rh_var rh_handles].
    rewrite F. cbn [orb].
    destruct (Nat.eqb_spec (length (filter (fun b => b) (set_nth (rh_handles h) k false))) 0) as [Z|NZ];
    destruct (counted (rh_var h)); cbn [andb]; split; try discriminate; try (intros [H1 H2]; try discriminate; lia); auto.
  - intros [= <- <-]. exact I.
Qed.
Lemma alive_init v x : alive_inv (rh_init v x).
Proof. unfold alive_inv, nlive. cbn. split; [discriminate|intros [_ H]; discriminate]. Qed.
Theorem alive_run ops : forall h h' outs, alive_inv h -> run h ops = Ok (h', outs) -> alive_inv h'.
Proof.
  induction ops as [|o r IH]; intros h h' outs I; cbn [run].
  - intros [= <- <-]. exact I.
  - destruct (rstep h o) as [[h1 out]|] eqn:E; [|discriminate].
    destruct (run h1 r) as [[h2 outs']|] eqn:R; [|discriminate]. intros [= <- <-].
    eapply IH; [eapply alive_step; eassumption|exact R].
Qed.

(* to_dyn! succeeds for every variant the macro lists *)
Lemma to_dyn_total h k : to_dyn_lists (rh_var h) = true -> rstep h (RToDyn k) <> Panic.
Proof. intros H. cbn. destruct (live h k); [rewrite H|]; discriminate. Qed.
Lemma to_dyn_aliases h k h' out : rstep h (RToDyn k) = Ok (h', out) -> rh_val h' = rh_val h /\ rh_var h' = rh_var h.
Proof. intros H. destruct (rstep_val h _ h' out H) as (A & _ & B). split; assumption. Qed.

(* ---- no lost update: any number of threads, any interleaving that respects the lock ---- *)
(* each thread repeats: acquire; tmp := counter; counter := tmp + 1; release.  The guard returned by
   borrow_mut holds the exclusive lock for its whole life (modelled; std's Mutex / RwLock assumed) *)
Inductive pc := Idle | Locked | HasRead (tmp : Z) | Written.
Record thr := { t_pc : pc; t_left : nat; t_done : nat }.
Record sys := { counter : Z; lock : option nat; threads : list thr }.
Fixpoint upd_thr (l : list thr) (i : nat) (t : thr) : list thr :=
  match l, i with [] , _ => [] | _ :: r, O => t :: r | x :: r, S k => x :: upd_thr r k t end.
Definition tnth (l : list thr) i := nth i l {| t_pc := Idle; t_left := 0; t_done := 0 |}.
(* one atomic step of thread i, if enabled *)
Definition tstep (s : sys) (i : nat) : option sys :=
  let t := tnth (threads s) i in
  if Nat.ltb i (length (threads s)) then
    match t_pc t, lock s with
    | Idle, None => match t_left t with
                    | O => None
                    | S n => Some {| counter := counter s; lock := Some i;
                                     threads := upd_thr (threads s) i {| t_pc := Locked; t_left := n; t_done := t_done t |} |}
                    end
    | Locked, Some j => if Nat.eqb i j then
                          Some {| counter := counter s; lock := lock s;
                                  threads := upd_thr (threads s) i {| t_pc := HasRead (counter s); t_left := t_left t; t_done := t_done t |} |}
                        else None
    | HasRead v, Some j => if Nat.eqb i j then
                          Some {| counter := (v + 1)%Z; lock := lock s;
                                  threads := upd_thr (threads s) i {| t_pc := Written; t_left := t_left t; t_done := t_done t |} |}
                        else None
    | Written, Some j => if Nat.eqb i j then
                          Some {| counter := counter s; lock := None;
                                  threads := upd_thr (threads s) i {| t_pc := Idle; t_left := t_left t; t_done := S (t_done t) |} |}
                        else None
    | _, _ => None
    end
  else None.
Fixpoint exec (s : sys) (sched : list nat) : sys :=
  match sched with [] => s | i :: r => match tstep s i with Some s' => exec s' r | None => exec s r end end.
Definition total_done (l : list thr) : nat := fold_right (fun t a => t_done t + a) 0 l.
Definition in_cs (t : thr) : bool := match t_pc t with Idle => false | _ => true end.
(* invariant: only the lock holder is inside; the counter is the number of completed increments, plus one if the
   holder has already written; a holder that has read holds the current value *)
Definition linv (s : sys) : Prop :=
  (forall i, i < length (threads s) -> in_cs (tnth (threads s) i) = true -> lock s = Some i) /\
  (forall i, lock s = Some i -> i < length (threads s) /\ in_cs (tnth (threads s) i) = true) /\
  (counter s = Z.of_nat (total_done (threads s)) +
               match lock s with Some i => match t_pc (tnth (threads s) i) with Written => 1 | _ => 0 end | None => 0 end)%Z /\
  (forall i v, lock s = Some i -> t_pc (tnth (threads s) i) = HasRead v -> v = counter s).
Lemma upd_len l i t : length (upd_thr l i t) = length l.
Proof. revert i. induction l as [|x r IH]; intros [|k]; cbn; auto. Qed.
Lemma tnth_upd_same l i t : i < length l -> tnth (upd_thr l i t) i = t.
Proof. revert i. induction l as [|x r IH]; intros [|k] H; cbn in *; try lia; auto. apply IH; lia. Qed.
Lemma tnth_upd_other l i k t : k <> i -> tnth (upd_thr l i t) k = tnth l k.
Proof. revert i k. induction l as [|x r IH]; intros [|i] [|k] H; cbn; auto; try congruence. apply IH. congruence. Qed.
Lemma total_upd l i t : i < length l -> (total_done (upd_thr l i t) + t_done (tnth l i) = total_done l + t_done t)%nat.
Proof.
  unfold tnth. revert i. induction l as [|x r IH]; intros [|k] H; cbn [upd_thr total_done fold_right nth length] in *; try lia.
  specialize (IH k ltac:(lia)). unfold total_done in *. lia.
Qed.
Lemma linv_step s i s' : linv s -> tstep s i = Some s' -> linv s'.
Proof.
  intros (I1 & I2 & I3 & I4). unfold tstep. destruct (Nat.ltb_spec i (length (threads s))) as [Hi|]; [|discriminate].
  destruct (t_pc (tnth (threads s) i)) eqn:P; destruct (lock s) as [j|] eqn:Lk; try discriminate; rewrite ?Lk in I3.
  - (* acquire *)
    destruct (t_left (tnth (threads s) i)) eqn:Lf; [discriminate|]. intros [= <-]. unfold linv. cbn [counter lock threads].
    rewrite upd_len. split; [|split; [|split]].
    + intros k Hk Hc. destruct (Nat.eq_dec k i) as [->|Hn]; [reflexivity|].
      rewrite tnth_upd_other in Hc by assumption. specialize (I1 k Hk Hc). discriminate.
    + intros k Hk. injection Hk as <-. split; [exact Hi|]. rewrite tnth_upd_same by assumption. reflexivity.
    + rewrite tnth_upd_same by assumption. cbn [t_pc].
      pose proof (total_upd (threads s) i {| t_pc := Locked; t_left := n; t_done := t_done (tnth (threads s) i) |} Hi) as T. cbn [t_done] in T. lia.
    + intros k v Hk. injection Hk as <-. rewrite tnth_upd_same by assumption. cbn. discriminate.
  - (* read *)
    destruct (Nat.eqb_spec i j) as [<-|]; [|discriminate]. rewrite ?P in I3. intros [= <-]. unfold linv. cbn [counter lock threads].
    rewrite upd_len. split; [|split; [|split]].
    + intros k Hk Hc. destruct (Nat.eq_dec k i) as [->|Hn]; [reflexivity|].
      rewrite tnth_upd_other in Hc by assumption. exact (I1 k Hk Hc).
    + intros k Hk. injection Hk as <-. split; [exact Hi|]. rewrite tnth_upd_same by assumption. reflexivity.
    + rewrite tnth_upd_same by assumption. cbn [t_pc].
      pose proof (total_upd (threads s) i {| t_pc := HasRead (counter s); t_left := t_left (tnth (threads s) i); t_done := t_done (tnth (threads s) i) |} Hi) as T. cbn [t_done] in T. lia.
    + intros k v Hk. injection Hk as <-. rewrite tnth_upd_same by assumption. cbn. intros Hv. injection Hv as <-. reflexivity.
  - (* write *)
    destruct (Nat.eqb_spec i j) as [<-|]; [|discriminate]. rewrite ?P in I3. intros [= <-]. unfold linv. cbn [counter lock threads].
    rewrite upd_len. split; [|split; [|split]].
    + intros k Hk Hc. destruct (Nat.eq_dec k i) as [->|Hn]; [reflexivity|].
      rewrite tnth_upd_other in Hc by assumption. exact (I1 k Hk Hc).
    + intros k Hk. injection Hk as <-. split; [exact Hi|]. rewrite tnth_upd_same by assumption. reflexivity.
    + rewrite tnth_upd_same by assumption. cbn [t_pc].
      rewrite (I4 i tmp eq_refl P).
      pose proof (total_upd (threads s) i {| t_pc := Written; t_left := t_left (tnth (threads s) i); t_done := t_done (tnth (threads s) i) |} Hi) as T. cbn [t_done] in T. lia.
    + intros k v Hk. injection Hk as <-. rewrite tnth_upd_same by assumption. cbn. discriminate.
  - (* release *)
    destruct (Nat.eqb_spec i j) as [<-|]; [|discriminate]. rewrite ?P in I3. intros [= <-]. unfold linv. cbn [counter lock threads].
    rewrite upd_len. split; [|split; [|split]].
    + intros k Hk Hc. destruct (Nat.eq_dec k i) as [->|Hn].
      * rewrite tnth_upd_same in Hc by assumption. discriminate.
      * rewrite tnth_upd_other in Hc by assumption. specialize (I1 k Hk Hc). congruence.
    + intros k Hk. discriminate.
    + pose proof (total_upd (threads s) i {| t_pc := Idle; t_left := t_left (tnth (threads s) i); t_done := S (t_done (tnth (threads s) i)) |} Hi) as T. cbn [t_done] in T. lia.
    + intros k v Hk. discriminate.
Qed.
Lemma linv_exec sched : forall s, linv s -> linv (exec s sched).
Proof.
  induction sched as [|i r IH]; intros s H; cbn [exec]; [exact H|].
  destruct (tstep s i) as [s'|] eqn:E; [apply IH; eapply linv_step; eassumption|apply IH; exact H].
Qed.
Definition start (ns : list nat) : sys :=
  {| counter := 0; lock := None; threads := map (fun n => {| t_pc := Idle; t_left := n; t_done := 0 |}) ns |}.
Lemma tnth_start ns i : tnth (threads (start ns)) i = {| t_pc := Idle; t_left := nth i ns 0; t_done := 0 |} \/ length ns <= i.
Proof.
  destruct (Nat.ltb_spec i (length ns)) as [H|H]; [left|right; assumption].
  unfold tnth, start. cbn [threads]. revert i H.
  induction ns as [|n r IH]; intros [|i] H; cbn [map nth length] in *; try lia; try reflexivity.
  apply IH. lia.
Qed.
Lemma total_start ns : total_done (map (fun n => {| t_pc := Idle; t_left := n; t_done := 0 |}) ns) = 0.
Proof. induction ns as [|n r IH]; [reflexivity|]. cbn [map total_done fold_right t_done] in *. exact IH. Qed.
Lemma linv_start ns : linv (start ns).
Proof.
  unfold linv. cbn [lock counter]. split; [|split; [|split]].
  - intros i Hi Hc. destruct (tnth_start ns i) as [E|E]; [rewrite E in Hc; discriminate|].
    unfold start in Hi. cbn [threads] in Hi. rewrite map_length in Hi. lia.
  - intros i Hk. discriminate.
  - unfold start. cbn [threads]. rewrite total_start. reflexivity.
  - intros i v Hk. discriminate.
Qed.
(* in every reachable state in which no thread holds the lock, the counter is exactly the number of
   completed increments: no update is lost, whatever the interleaving *)
Theorem no_lost_update (ns : list nat) (sched : list nat) :
  let s := exec (start ns) sched in
  lock s = None -> counter s = Z.of_nat (total_done (threads s)).
Proof.
  intros s Hl. destruct (linv_exec sched (start ns) (linv_start ns)) as (_ & _ & I3 & _).
  fold s in I3. rewrite Hl in I3. lia.
Qed.
