(* One-degree-of-freedom devices relay the newest command (inverter, gear train). *)
From Coq Require Import ZArith Bool List Lia Arith.
From RRTK Require Import Num.Num Model.Values Model.World Model.Devices Proofs.WorldProofs Proofs.DatumProofs Proofs.DeviceProofs.
Import ListNotations.
Local Open Scope Z_scope.

Section R.
Context {F : Type} {NF : Num F}.
Notation world := (@world F).
Notation command := (@command F).

Lemma cmd_get_bounds (w : world) i c :
  cmd_get w i = Some c ->
  (forall a, slot_c w i = Some a -> d_time a <= d_time c) /\ (forall p, partner_cmd w i = Some p -> d_time p <= d_time c).
Proof.
  unfold cmd_get, slot_c. destruct (t_cmd (wget w i)) as [a|], (partner_cmd w i) as [p|].
  - destruct (Z.gtb_spec (d_time p) (d_time a)); intros [= <-]; split; intros x [= <-]; lia.
  - intros [= <-]. split; [intros x [= <-]; lia|discriminate].
  - intros [= <-]. split; [discriminate|intros x [= <-]; lia].
  - discriminate.
Qed.
Lemma cmd_get_own_wins (w : world) i d :
  slot_c w i = Some d -> (forall p, partner_cmd w i = Some p -> d_time p <= d_time d) -> cmd_get w i = Some d.
Proof.
  unfold cmd_get, slot_c. intros -> H. destruct (partner_cmd w i) as [p|]; [|reflexivity].
  specialize (H p eq_refl). destruct (Z.gtb_spec (d_time p) (d_time d)); [lia|reflexivity].
Qed.
Lemma partner_cmd_ext (w w' : world) i j :
  oth w' i = oth w i -> oth w i = Some j -> slot_c w' j = slot_c w j -> partner_cmd w' i = partner_cmd w i.
Proof. unfold partner_cmd, oth, slot_c. intros -> -> ->. reflexivity. Qed.

(* the newest of the command read at terminal 1 and the mapped command read at terminal 2, first on ties *)
Definition newest2 (c1 c2' : option (datum command)) : option (datum command) :=
  match c1, c2' with
  | Some a, Some b => if d_time b >? d_time a then Some b else Some a
  | Some a, None => Some a
  | None, b => b
  end.
Definition invert_cmds (w : world) t1 t2 : world :=
  let m0 := fst (replace_if_none_or_older_than_option None (cmd_get w t1)) in
  let m1 := match cmd_get w t2 with
            | Some x => fst (replace_if_none_or_older_than m0 (dneg_c x))
            | None => m0 end in
  match m1 with
  | Some dc => set_cmd (set_cmd w t1 dc) t2 (dneg_c dc)
  | None => w
  end.
Lemma invert_update_split (w : world) t1 t2 : invert_update w t1 t2 = invert_cmds (invert_states w t1 t2) t1 t2.
Proof. reflexivity. Qed.
Lemma invert_choice (w : world) t1 t2 :
  (match cmd_get w t2 with
   | Some x => fst (replace_if_none_or_older_than (fst (replace_if_none_or_older_than_option None (cmd_get w t1))) (dneg_c x))
   | None => fst (replace_if_none_or_older_than_option None (cmd_get w t1)) end)
  = newest2 (cmd_get w t1) (option_map dneg_c (cmd_get w t2)).
Proof.
  destruct (cmd_get w t1) as [a|], (cmd_get w t2) as [b|]; cbn; try reflexivity.
  destruct (Z.geb_spec (d_time a) (d_time b)), (Z.gtb_spec (d_time b) (d_time a)); try lia; reflexivity.
Qed.
Theorem invert_cmd_effect (w : world) (t1 t2 : nat) :
  t1 <> t2 -> (t1 < length w)%nat -> (t2 < length w)%nat ->
  let w' := invert_cmds w t1 t2 in
  (forall k, slot_s w' k = slot_s w k /\ oth w' k = oth w k) /\
  (forall k, k <> t1 -> k <> t2 -> slot_c w' k = slot_c w k) /\
  match newest2 (cmd_get w t1) (option_map dneg_c (cmd_get w t2)) with
  | Some dc => slot_c w' t1 = Some dc /\ slot_c w' t2 = Some (dneg_c dc)
  | None => w' = w
  end.
Proof.
  intros Hne H1 H2 w'. unfold w', invert_cmds. rewrite invert_choice.
  destruct (newest2 _ _) as [dc|]; [|repeat split].
  assert (L : (t2 < length (set_cmd w t1 dc))%nat) by (rewrite len_set_cmd; exact H2).
  split; [|split; [|split]].
  - intros k. destruct (get_set_cmd (set_cmd w t1 dc) t2 (dneg_c dc) k L) as (_ & A & A').
    destruct (get_set_cmd w t1 dc k H1) as (_ & B & B'). rewrite A, A', B, B'. split; reflexivity.
  - intros k K1 K2. destruct (get_set_cmd (set_cmd w t1 dc) t2 (dneg_c dc) k L) as (A & _ & _).
    destruct (get_set_cmd w t1 dc k H1) as (B & _ & _). rewrite A, B.
    destruct (Nat.eqb_spec k t2); [contradiction|]. destruct (Nat.eqb_spec k t1); [contradiction|]. reflexivity.
  - destruct (get_set_cmd (set_cmd w t1 dc) t2 (dneg_c dc) t1 L) as (A & _ & _).
    destruct (get_set_cmd w t1 dc t1 H1) as (B & _ & _). rewrite A, B.
    destruct (Nat.eqb_spec t1 t2); [contradiction|]. rewrite Nat.eqb_refl. reflexivity.
  - destruct (get_set_cmd (set_cmd w t1 dc) t2 (dneg_c dc) t2 L) as (A & _ & _). rewrite A, Nat.eqb_refl. reflexivity.
Qed.
(* the relayed command is one of the two reads (negated when it came from side 2), no read is strictly newer *)
Lemma newest2_spec (c1 c2' : option (datum command)) :
  match newest2 c1 c2' with
  | Some dc => (c1 = Some dc \/ c2' = Some dc) /\
               (forall a, c1 = Some a -> d_time a <= d_time dc) /\ (forall b, c2' = Some b -> d_time b <= d_time dc)
  | None => c1 = None /\ c2' = None
  end.
Proof.
  destruct c1 as [a|], c2' as [b|]; cbn.
  - destruct (Z.gtb_spec (d_time b) (d_time a)); (split; [auto|split; intros x [= <-]; lia]).
  - split; [auto|split; [intros x [= <-]; lia|discriminate]].
  - split; [auto|split; [discriminate|intros x [= <-]; lia]].
  - split; reflexivity.
Qed.

(* ---------------- gear train: commands ---------------- *)
Definition gear_cmds (w : world) t1 t2 (r : F) : world :=
  match cmd_get w t1, cmd_get w t2 with
  | Some d1, Some d2 => if d_time d1 >=? d_time d2 then set_cmd w t2 (dmul_c d1 r) else set_cmd w t1 (ddiv_c d2 r)
  | Some d1, None => set_cmd w t2 (dmul_c d1 r)
  | None, Some d2 => set_cmd w t1 (ddiv_c d2 r)
  | None, None => w
  end.
Theorem gear_cmd_effect (w : world) (t1 t2 : nat) r :
  t1 <> t2 -> (t1 < length w)%nat -> (t2 < length w)%nat ->
  let w' := gear_cmds w t1 t2 r in
  (forall k, slot_s w' k = slot_s w k /\ oth w' k = oth w k) /\
  match cmd_get w t1, cmd_get w t2 with
  | Some d1, Some d2 =>
      if d_time d1 >=? d_time d2
      then slot_c w' t2 = Some (dmul_c d1 r) /\ (forall k, k <> t2 -> slot_c w' k = slot_c w k)
      else slot_c w' t1 = Some (ddiv_c d2 r) /\ (forall k, k <> t1 -> slot_c w' k = slot_c w k)
  | Some d1, None => slot_c w' t2 = Some (dmul_c d1 r) /\ (forall k, k <> t2 -> slot_c w' k = slot_c w k)
  | None, Some d2 => slot_c w' t1 = Some (ddiv_c d2 r) /\ (forall k, k <> t1 -> slot_c w' k = slot_c w k)
  | None, None => w' = w
  end.
Proof.
  intros Hne H1 H2 w'. unfold w', gear_cmds.
  assert (S2 : forall d, (forall k, slot_s (set_cmd w t2 d) k = slot_s w k /\ oth (set_cmd w t2 d) k = oth w k) /\
                         slot_c (set_cmd w t2 d) t2 = Some d /\ (forall k, k <> t2 -> slot_c (set_cmd w t2 d) k = slot_c w k)).
  { intros d. split; [|split].
    - intros k. destruct (get_set_cmd w t2 d k H2) as (_ & A & B). rewrite A, B. split; reflexivity.
    - destruct (get_set_cmd w t2 d t2 H2) as (A & _ & _). rewrite A, Nat.eqb_refl. reflexivity.
    - intros k K. destruct (get_set_cmd w t2 d k H2) as (A & _ & _). rewrite A. destruct (Nat.eqb_spec k t2); [contradiction|reflexivity]. }
  assert (S1 : forall d, (forall k, slot_s (set_cmd w t1 d) k = slot_s w k /\ oth (set_cmd w t1 d) k = oth w k) /\
                         slot_c (set_cmd w t1 d) t1 = Some d /\ (forall k, k <> t1 -> slot_c (set_cmd w t1 d) k = slot_c w k)).
  { intros d. split; [|split].
    - intros k. destruct (get_set_cmd w t1 d k H1) as (_ & A & B). rewrite A, B. split; reflexivity.
    - destruct (get_set_cmd w t1 d t1 H1) as (A & _ & _). rewrite A, Nat.eqb_refl. reflexivity.
    - intros k K. destruct (get_set_cmd w t1 d k H1) as (A & _ & _). rewrite A. destruct (Nat.eqb_spec k t1); [contradiction|reflexivity]. }
  destruct (cmd_get w t1) as [d1|], (cmd_get w t2) as [d2|].
  - destruct (d_time d1 >=? d_time d2).
    + destruct (S2 (dmul_c d1 r)) as (A & B & C0). split; [exact A|split; [exact B|exact C0]].
    + destruct (S1 (ddiv_c d2 r)) as (A & B & C0). split; [exact A|split; [exact B|exact C0]].
  - destruct (S2 (dmul_c d1 r)) as (A & B & C0). split; [exact A|split; [exact B|exact C0]].
  - destruct (S1 (ddiv_c d2 r)) as (A & B & C0). split; [exact A|split; [exact B|exact C0]].
  - split; [intros k; split; reflexivity|reflexivity].
Qed.
(* mapped commands keep time stamp and kind; values are negated / multiplied / divided *)
Lemma mapped_cmd_shape (d : datum command) (r : F) :
  d_time (dneg_c d) = d_time d /\ c_kind (d_val (dneg_c d)) = c_kind (d_val d) /\ c_val (d_val (dneg_c d)) = fneg (c_val (d_val d)) /\
  d_time (dmul_c d r) = d_time d /\ c_kind (d_val (dmul_c d r)) = c_kind (d_val d) /\ c_val (d_val (dmul_c d r)) = fmul (c_val (d_val d)) r /\
  d_time (ddiv_c d r) = d_time d /\ c_kind (d_val (ddiv_c d r)) = c_kind (d_val d) /\ c_val (d_val (ddiv_c d r)) = fdiv (c_val (d_val d)) r.
Proof. repeat split. Qed.
End R.
