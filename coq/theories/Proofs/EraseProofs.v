(* Program-level unit erasure (C19): a program of the deep embedding [Prog.expr] that runs without panic and
   without type error when dimension checking is compiled in computes, when checking is compiled out, the
   unit-erased image of the same value: same floats, same time stamps, same integers, booleans, orderings.

   Contents (c1 = any configuration with chk = true, c0 = any configuration with chk = false, any [Num F]):
   - [erase_v], [erase_e]: erasure of values / of the literals of a program (all units become [u0] = "0 0");
   - [observes o vs]: the operator applications that read a unit (the EXCEPTIONS), [clean e]: no such
     application occurs in the checked run of [e]; [blind e]: [e] does not mention a unit-reading operator;
   - [erase_run_sim], [erase_run], [erase_run_type_error], [erase_run_cfg], [erase_run_blind]: the erasure theorem;
   - [observes_exact], [exceptions_described]: the exception list is exact, each exception spelled out;
   - [unchecked_run_blind], [erase_run_same_program]: an unchecked run never reads a unit of a literal;
   - [unchecked_panic_checked_panic], [unchecked_panic_cause], [unchecked_run_panic_cause]: panics of unchecked runs;
   - [integ_hist_erase], [deriv_hist_erase], [integ_deriv_step_unchecked_panic], [pid_step_cfg]: streams. *)
From Coq Require Import ZArith Bool List Lia.
From RRTK Require Import Num.Num Num.B32 Model.Values Model.Prog Model.Streams Proofs.ValuesProofs.
Import ListNotations.
Local Open Scope Z_scope.

(* the only unit that exists when checking is compiled out (the harness prints it as "0 0") *)
Definition u0 : unit_ := {| mm := 0; sec := 0 |}.

#[export] Hint Unfold O_ADD O_SUB O_MUL O_DIV O_ADDA O_SUBA O_MULA O_DIVA O_NEG O_NOT O_ABS O_EQ O_PCMP
  O_Q_FROM O_T_TRY O_D_TRY O_F_FROM O_I_FROM O_T_FROM_I O_D_FROM_I O_C_TRY O_PD_FROM O_U_FROM O_C_FROM_S O_C_NEW
  O_Q_NEW O_Q_DIMLESS O_U_NEW O_S_NEW O_S_NEW_RAW O_DAT_NEW O_CONST_EQ O_EQ_TRUE O_EQ_FALSE O_ASSERT_OK
  O_ASSERT_NOT_OK O_CONST_ASSERT O_S_UPDATE O_SET_ACC O_SET_VEL O_SET_POS O_SET_ACC_RAW O_SET_VEL_RAW O_SET_POS_RAW
  O_GET_POS O_GET_VEL O_GET_ACC O_GET_VALUE O_C_GET_POS O_C_GET_VEL O_C_GET_ACC O_REPL_OLDER O_REPL_NONE_OLDER
  O_REPL_NONE_OLDER_OPT O_LATEST O_K_EVAL O_PDK_EVAL : ops.

Section Erase.
Context {F : Type} {NF : Num F}.
Notation val := (@val F).
Notation rv := (@rv F).
Notation expr := (@expr F).
Notation quantity := (@quantity F).

(* ---------- erasure of values, results, programs ---------- *)
Definition erase_q (q : quantity) : quantity := {| qv := qv q; qu := u0 |}.
Fixpoint erase_v (v : val) : val :=
  match v with
  | VQ q => VQ (erase_q q)
  | VU _ => VU u0
  | VSome w => VSome (erase_v w)
  | VDat t w => VDat t (erase_v w)
  | VPair a b => VPair (erase_v a) (erase_v b)
  | x => x
  end.
Definition erase_rv (r : rv) : rv := match r with RVal v => RVal (erase_v v) | x => x end.
Fixpoint erase_e (e : expr) : expr :=
  match e with Lit v => Lit (erase_v v) | Op o args => Op o (map erase_e args) end.

Lemma erase_v_idem v : erase_v (erase_v v) = erase_v v.
Proof. induction v; cbn [erase_v]; try reflexivity; congruence. Qed.

(* ---------- the interpreter, argument lists made explicit ---------- *)
Inductive lres := LVals (vs : list val) | LPanic | LType.
Fixpoint evalL (c : cfg) (l : list expr) : lres :=
  match l with
  | [] => LVals []
  | a :: r =>
      match run c a with
      | RVal v => match evalL c r with LVals vs => LVals (v :: vs) | x => x end
      | RPanic => LPanic
      | RType => LType
      end
  end.
Lemma run_Op c o args :
  run c (Op o args) =
  match evalL c args with LVals vs => apply_op c o vs | LPanic => RPanic | LType => RType end.
Proof.
  cbn [run].
  enough (G : forall acc,
    (fix go (l : list expr) (acc : list val) {struct l} : rv :=
       match l with
       | [] => apply_op c o (rev acc)
       | a :: r => match run c a with RVal v => go r (v :: acc) | x => x end
       end) args acc =
    match evalL c args with LVals vs => apply_op c o (rev acc ++ vs) | LPanic => RPanic | LType => RType end)
    by (rewrite G; reflexivity).
  induction args as [|a r IH]; intros acc.
  - cbn [evalL]. rewrite app_nil_r. reflexivity.
  - cbn [evalL]. destruct (run c a) as [v| |]; try reflexivity.
    rewrite IH. cbn [rev]. destruct (evalL c r) as [vs| |]; try reflexivity.
    rewrite <- app_assoc. reflexivity.
Qed.

Lemma expr_ind' (P : expr -> Prop) :
  (forall v, P (Lit v)) -> (forall o args, Forall P args -> P (Op o args)) -> forall e, P e.
Proof.
  intros HL HO. fix IH 1. intros [v|o args]; [apply HL|apply HO].
  induction args as [|a r IHr]; constructor; [apply IH|exact IHr].
Qed.


(* where a panic comes from: some operator application inside the program, applied to the values of its arguments *)
Inductive subterm : expr -> expr -> Prop :=
| ST_refl e : subterm e e
| ST_arg e o args a : In a args -> subterm e a -> subterm e (Op o args).
Lemma evalL_panic c args : evalL c args = LPanic -> exists a, In a args /\ run c a = RPanic.
Proof.
  induction args as [|a r IH]; [discriminate|]. cbn [evalL].
  destruct (run c a) as [v| |] eqn:Ea.
  - destruct (evalL c r) as [vs| |]; try discriminate. intros _.
    destruct (IH eq_refl) as (b & Hb & Rb). exists b. split; [right; exact Hb|exact Rb].
  - intros _. exists a. split; [left; reflexivity|exact Ea].
  - discriminate.
Qed.
Theorem panic_site c (e : expr) :
  run c e = RPanic ->
  exists o args vs, subterm (Op o args) e /\ evalL c args = LVals vs /\ apply_op c o vs = RPanic.
Proof.
  induction e as [v|o args IH] using expr_ind'; [discriminate|].
  rewrite run_Op. destruct (evalL c args) as [vs| |] eqn:El.
  - intros H. exists o, args, vs. split; [constructor|split; [exact El|exact H]].
  - intros _. destruct (evalL_panic c args El) as (a & Ha & Ra).
    rewrite Forall_forall in IH. destruct (IH a Ha Ra) as (o' & args' & vs' & Hs & He & Hp).
    exists o', args', vs'. split; [eapply ST_arg; eassumption|split; assumption].
  - discriminate.
Qed.

(* The unary / binary / ternary arms of [Prog.apply_op], copied verbatim and proved equal to it: the compiled
   pattern matching of [apply_op] inspects the first argument before the length of the list, which makes direct
   case analysis on [apply_op] needlessly large. *)
Section Arms.
Variable c : cfg.
Definition apply1 (o : Z) (x : val) : rv :=
      if o =? O_NEG then neg_val x
      else if o =? O_NOT then not_val x
      else if o =? O_ABS then match x with VQ q => RVal (VQ (qabs c q)) | _ => RType end
      else if o =? O_Q_FROM then
        match x with
        | VT t => RVal (VQ (q_of_time c t)) | VD d => RVal (VQ (q_of_dint c d))
        | VC k => RVal (VQ (q_of_command c k)) | _ => RType end
      else if o =? O_T_TRY then match x with VQ q => RVal (vopt VT (time_of_q c q)) | _ => RType end
      else if o =? O_D_TRY then match x with VQ q => RVal (vopt VD (dint_of_q c q)) | _ => RType end
      else if o =? O_F_FROM then
        match x with VQ q => RVal (VF (qv q)) | VC k => RVal (VF (c_val k)) | _ => RType end
      else if o =? O_I_FROM then match x with VT t => RVal (VI t) | VD d => RVal (VI d) | _ => RType end
      else if o =? O_T_FROM_I then match x with VI i => RVal (VT i) | _ => RType end
      else if o =? O_D_FROM_I then match x with VI i => RVal (VD i) | _ => RType end
      else if o =? O_C_TRY then
        match x with VQ q => if chk c then RVal (vopt VC (c_of_q c q)) else RType | _ => RType end
      else if o =? O_PD_FROM then
        match x with
        | VC k => RVal (VPD (c_kind k))
        | VPiece p => RVal (vopt VPD (pd_of_piece p))
        | VU u => if chk c then RVal (vopt VPD (pd_of_unit c u)) else RType
        | _ => RType end
      else if o =? O_U_FROM then
        match x with
        | VPD d => RVal (VU (unit_of_pd c d))
        | VPiece p => RVal (vopt VU (unit_of_piece c p))
        | _ => RType end
      else if o =? O_C_FROM_S then match x with VS s => RVal (VC (c_of_state s)) | _ => RType end
      else if o =? O_Q_DIMLESS then match x with VF f => RVal (VQ (qdimless c f)) | _ => RType end
      else if o =? O_GET_POS then match x with VS s => RVal (VQ (s_get_pos c s)) | _ => RType end
      else if o =? O_GET_VEL then match x with VS s => RVal (VQ (s_get_vel c s)) | _ => RType end
      else if o =? O_GET_ACC then match x with VS s => RVal (VQ (s_get_acc c s)) | _ => RType end
      else if o =? O_C_GET_POS then match x with VC k => RVal (vopt VQ (c_get_pos c k)) | _ => RType end
      else if o =? O_C_GET_VEL then match x with VC k => RVal (vopt VQ (c_get_vel c k)) | _ => RType end
      else if o =? O_C_GET_ACC then match x with VC k => RVal (VQ (c_get_acc c k)) | _ => RType end
      else RType.
Definition apply2 (o : Z) (x y : val) : rv :=
      if (1 <=? o) && (o <=? 8) then arith c (base_op o) (is_assign o) x y
      else if o =? O_EQ then eq_val c x y
      else if o =? O_PCMP then
        match x, y with VQ a, VQ b => of_res VOrd (qpcmp c a b) | VF a, VF b => RVal (VOrd (fpcmp a b)) | _, _ => RType end
      else if o =? O_C_NEW then match x, y with VPD d, VF f => RVal (VC (cnew d f)) | _, _ => RType end
      else if o =? O_Q_NEW then match x, y with VF f, VU u => RVal (VQ (qnew f u)) | _, _ => RType end
      else if o =? O_U_NEW then match x, y with VI a, VI b => RVal (VU (unew c a b)) | _, _ => RType end
      else if o =? O_DAT_NEW then
        match x, y with VT t, VDat _ _ => RType | VT t, v => RVal (VDat t v) | _, _ => RType end
      else if o =? O_CONST_EQ then
        match x, y with VU a, VU b => if chk c then RVal (VB (ueqb a b)) else RType | _, _ => RType end
      else if o =? O_EQ_TRUE then match x, y with VU a, VU b => RVal (VB (eq_assume_true c a b)) | _, _ => RType end
      else if o =? O_EQ_FALSE then match x, y with VU a, VU b => RVal (VB (eq_assume_false c a b)) | _, _ => RType end
      else if o =? O_ASSERT_OK then
        match x, y with VU a, VU b => of_res (fun _ => VUnit) (assert_ok c a b) | _, _ => RType end
      else if o =? O_ASSERT_NOT_OK then
        match x, y with VU a, VU b => of_res (fun _ => VUnit) (assert_not_ok c a b) | _, _ => RType end
      else if o =? O_CONST_ASSERT then
        match x, y with
        | VU a, VU b => if chk c then (if ueqb a b then RVal VUnit else RPanic) else RType
        | _, _ => RType end
      else if o =? O_S_UPDATE then match x, y with VS s, VT t => of_res VS (s_update c s t) | _, _ => RType end
      else if o =? O_SET_ACC then match x, y with VS s, VQ q => RVal (vsetter (s_set_acc c s q)) | _, _ => RType end
      else if o =? O_SET_VEL then match x, y with VS s, VQ q => RVal (vsetter (s_set_vel c s q)) | _, _ => RType end
      else if o =? O_SET_POS then match x, y with VS s, VQ q => RVal (vsetter (s_set_pos c s q)) | _, _ => RType end
      else if o =? O_SET_ACC_RAW then match x, y with VS s, VF f => RVal (VS (s_set_acc_raw s f)) | _, _ => RType end
      else if o =? O_SET_VEL_RAW then match x, y with VS s, VF f => RVal (VS (s_set_vel_raw s f)) | _, _ => RType end
      else if o =? O_SET_POS_RAW then match x, y with VS s, VF f => RVal (VS (s_set_pos_raw s f)) | _, _ => RType end
      else if o =? O_GET_VALUE then match x, y with VS s, VPD d => RVal (VQ (s_get_value c s d)) | _, _ => RType end
      else if o =? O_REPL_OLDER then
        match x, y with
        | VDat t1 v1, VDat t2 v2 =>
            let r := replace_if_older_than (mkDatum t1 v1) (mkDatum t2 v2) in
            RVal (VPair (vdat_of (fst r)) (VB (snd r)))
        | _, _ => RType end
      else if o =? O_REPL_NONE_OLDER then
        match odat_of_val x, y with
        | Some s, VDat t2 v2 =>
            let r := replace_if_none_or_older_than s (mkDatum t2 v2) in
            RVal (VPair (vodat_of (fst r)) (VB (snd r)))
        | _, _ => RType end
      else if o =? O_REPL_NONE_OLDER_OPT then
        match odat_of_val x, odat_of_val y with
        | Some s, Some d =>
            let r := replace_if_none_or_older_than_option s d in
            RVal (VPair (vodat_of (fst r)) (VB (snd r)))
        | _, _ => RType end
      else if o =? O_LATEST then
        match x, y with
        | VDat t1 v1, VDat t2 v2 => RVal (vdat_of (latest (mkDatum t1 v1) (mkDatum t2 v2)))
        | _, _ => RType end
      else RType.
Definition apply3 (o : Z) (x y z : val) : rv :=
      if o =? O_S_NEW then
        match x, y, z with VQ p, VQ v, VQ a => of_res VS (snew c p v a) | _, _, _ => RType end
      else if o =? O_S_NEW_RAW then
        match x, y, z with VF p, VF v, VF a => RVal (VS (snew_raw p v a)) | _, _, _ => RType end
      else RType.
Lemma apply_op_1 o x : apply_op c o [x] = apply1 o x.
Proof. destruct x; reflexivity. Qed.
Lemma apply_op_2 o x y : apply_op c o [x; y] = apply2 o x y.
Proof. destruct x; try reflexivity; destruct y; reflexivity. Qed.
Lemma apply_op_3 o x y z : apply_op c o [x; y; z] = apply3 o x y z.
Proof. destruct x; try reflexivity; destruct y; try reflexivity; destruct z; reflexivity. Qed.
End Arms.

(* ---------- checked configuration c1 against unchecked configuration c0 ---------- *)
Variable s s' : bool.
Notation c1 := (cfg_chk s).
Notation c0 := (cfg_nochk s').

Lemma q_of_time_erase t : q_of_time c0 t = erase_q (q_of_time c1 t).
Proof. reflexivity. Qed.
Lemma q_of_dint_erase d : @q_of_dint F NF c0 d = erase_q (q_of_dint c1 d).
Proof. reflexivity. Qed.

Lemma arith_q_erase o a b :
  arith_q c1 o a b <> RPanic ->
  arith_q c0 o (erase_q a) (erase_q b) = erase_rv (arith_q c1 o a b).
Proof.
  unfold arith_q, qadd, qsub, uadd, usub, assert_ok, eq_assume_true. cbn [chk cfg_chk cfg_nochk bind of_res].
  destruct (o =? 1); [|destruct (o =? 2); [|destruct (o =? 3)]];
    try (destruct (ueqb (qu a) (qu b)); cbn [bind of_res erase_rv]; [reflexivity|congruence]);
    intros _; reflexivity.
Qed.

Lemma dat_payload_ok_erase (x y : val) : dat_payload_ok (erase_v x) (erase_v y) = dat_payload_ok x y.
Proof. destruct x, y; reflexivity. Qed.

Lemma rbind_erase (r r0 : rv) (k : val -> val) :
  (forall v, erase_v (k v) = k (erase_v v)) ->
  r0 = erase_rv r -> rbind r0 (fun v => RVal (k v)) = erase_rv (rbind r (fun v => RVal (k v))).
Proof. intros Hk ->. destruct r as [v| |]; cbn [rbind erase_rv]; [rewrite Hk|..]; reflexivity. Qed.

Lemma rbind_not_panic (r : rv) (k : val -> val) : rbind r (fun v => RVal (k v)) <> RPanic -> r <> RPanic.
Proof. destruct r; cbn [rbind]; congruence. Qed.

Lemma of_res_erase {A} (f : A -> val) (r : res A) :
  (forall a, erase_v (f a) = f a) -> erase_rv (of_res f r) = of_res f r.
Proof. intros H. destruct r; cbn [of_res erase_rv]; [rewrite H|]; reflexivity. Qed.

Lemma arith_erase o asg x y :
  arith c1 o asg x y <> RPanic ->
  arith c0 o asg (erase_v x) (erase_v y) = erase_rv (arith c1 o asg x y).
Proof.
  revert y. induction x as [f|q|t|d|u|i|b|st|k|p|p| |w IHw|t w IHw|oc| |a IHa b IHb]; intros y H.
  - destruct y; reflexivity.
  - destruct y; try reflexivity; cbn [arith erase_v] in *;
      rewrite ?q_of_time_erase, ?q_of_dint_erase; apply arith_q_erase; exact H.
  - destruct y; try reflexivity; cbn [arith erase_v] in *.
    + destruct asg; [reflexivity|]. rewrite q_of_time_erase.
      destruct (o =? 3); apply arith_q_erase; exact H.
    + destruct ((o =? 1) || (o =? 2)); [symmetry; apply of_res_erase; reflexivity|].
      destruct asg; [reflexivity|]. rewrite !q_of_time_erase. apply arith_q_erase; exact H.
    + destruct ((o =? 3) || (o =? 4)); [symmetry; apply of_res_erase; reflexivity|reflexivity].
  - destruct y; try reflexivity; cbn [arith erase_v] in *.
    + destruct asg; [reflexivity|]. rewrite q_of_dint_erase.
      destruct (o =? 3); apply arith_q_erase; exact H.
    + destruct asg; [reflexivity|]. destruct (o =? 3); [symmetry; apply of_res_erase; reflexivity|].
      destruct (o =? 4); [|reflexivity]. rewrite q_of_dint_erase, q_of_time_erase. apply arith_q_erase; exact H.
    + symmetry; apply of_res_erase; reflexivity.
  - destruct y; try reflexivity; cbn [arith erase_v] in *.
    unfold uadd, usub, umul, udiv, assert_ok, eq_assume_true, unew in *. cbn [chk cfg_chk cfg_nochk bind of_res] in *.
    destruct (o =? 1); [|destruct (o =? 2); [|destruct (o =? 3)]]; try reflexivity;
      (destruct (ueqb u u1); cbn [bind of_res erase_rv] in *; [reflexivity|congruence]).
  - destruct y; reflexivity.
  - destruct y; reflexivity.
  - destruct y; try reflexivity; cbn [arith erase_v].
    + destruct (o =? 3); [reflexivity|]. destruct (o =? 4); reflexivity.
    + destruct (o =? 1); [reflexivity|]. destruct (o =? 2); reflexivity.
  - destruct y; try reflexivity; cbn [arith erase_v].
    + destruct (o =? 3); [reflexivity|]. destruct (o =? 4); reflexivity.
    + destruct (o =? 1); [symmetry; apply of_res_erase; reflexivity|].
      destruct (o =? 2); [symmetry; apply of_res_erase; reflexivity|reflexivity].
  - destruct y; reflexivity.
  - destruct y; reflexivity.
  - destruct y; reflexivity.
  - destruct y; reflexivity.
  - (* VDat *)
    assert (G : forall y', (forall t' w', y' <> VDat t' w') ->
              (if dat_payload_ok w y' then rbind (arith c1 o asg w y') (fun v => RVal (VDat t v)) else RType) <> RPanic ->
              (if dat_payload_ok (erase_v w) (erase_v y') then rbind (arith c0 o asg (erase_v w) (erase_v y')) (fun v => RVal (VDat t v)) else RType)
              = erase_rv (if dat_payload_ok w y' then rbind (arith c1 o asg w y') (fun v => RVal (VDat t v)) else RType)).
    { intros y' _ H'. rewrite dat_payload_ok_erase. destruct (dat_payload_ok w y'); [|reflexivity].
      apply rbind_erase; [reflexivity|]. apply IHw. eapply rbind_not_panic; exact H'. }
    destruct y;
      try (lazymatch type of H with arith _ _ _ _ ?y <> _ => refine (G y _ H); intros; discriminate end).
    cbn [arith erase_v] in *.
    rewrite dat_payload_ok_erase. destruct (dat_payload_ok w y); [|reflexivity].
    apply rbind_erase; [reflexivity|]. apply IHw. eapply rbind_not_panic; exact H.
  - destruct y; reflexivity.
  - destruct y; reflexivity.
  - destruct y; reflexivity.
Qed.


Lemma neg_val_erase (x : val) : neg_val (erase_v x) = erase_rv (neg_val x).
Proof.
  induction x as [f|q|t|d|u|i|b|st|k|p|p| |w IHw|t w IHw|oc| |a IHa b IHb]; try reflexivity.
  - cbn [neg_val erase_v]. symmetry. apply of_res_erase. reflexivity.
  - cbn [neg_val erase_v]. symmetry. apply of_res_erase. reflexivity.
  - destruct w; try reflexivity; cbn [neg_val erase_v] in *;
      try (apply rbind_erase; [reflexivity|exact IHw]).
Qed.
Lemma not_val_erase (x : val) : not_val (erase_v x) = erase_rv (not_val x).
Proof. destruct x as [ | | | | | | | | | | | | |t w| | | ]; try reflexivity. destruct w; reflexivity. Qed.

(* ---------- the operator applications that OBSERVE a unit ----------
   [observes o vs] holds for exactly those applications (operator, checked argument values) whose
   result in a checked build depends on a unit in a way an unchecked build cannot reproduce:
   - Unit == Unit, Unit::const_eq, Unit::const_assert_eq, Command::try_from(Quantity),
     PositionDerivative::try_from(Unit): these items do not exist when checking is compiled out;
   - Quantity == Quantity on two different units with equal numbers (checked: false; unchecked: true);
   - Time::try_from / DimensionlessInteger::try_from of a quantity with the wrong unit (checked: rejected;
     unchecked: accepted), State::set_* with the wrong unit (same);
   - eq_assume_true on different units, eq_assume_false / assert_eq_assume_not_ok on equal units. *)
Definition observes (o : Z) (vs : list val) : bool :=
  match vs with
  | [VQ q] =>
      if o =? O_T_TRY then negb (ueqb (qu q) {| mm := 0; sec := 1 |})
      else if o =? O_D_TRY then negb (ueqb (qu q) {| mm := 0; sec := 0 |})
      else o =? O_C_TRY
  | [VU _] => o =? O_PD_FROM
  | [VQ a; VQ b] => (o =? O_EQ) && negb (ueqb (qu a) (qu b)) && feqb (qv a) (qv b)
  | [VU a; VU b] =>
      (o =? O_EQ) || (o =? O_CONST_EQ) || (o =? O_CONST_ASSERT) || (o =? O_ASSERT_NOT_OK)
      || ((o =? O_EQ_TRUE) && negb (ueqb a b)) || ((o =? O_EQ_FALSE) && ueqb a b)
  | [VS _; VQ q] =>
      ((o =? O_SET_ACC) && negb (ueqb (qu q) {| mm := 1; sec := -2 |}))
      || ((o =? O_SET_VEL) && negb (ueqb (qu q) {| mm := 1; sec := -1 |}))
      || ((o =? O_SET_POS) && negb (ueqb (qu q) {| mm := 1; sec := 0 |}))
  | _ => false
  end.

Ltac walk :=
  match goal with
  | |- context [if ?o =? ?k then _ else _] =>
      is_var o; destruct (Z.eqb_spec o k) as [->|?]
  end.

Lemma apply1_erase o x :
  observes o [x] = false -> apply_op c1 o [x] <> RPanic ->
  apply_op c0 o [erase_v x] = erase_rv (apply_op c1 o [x]).
Proof.
  rewrite !apply_op_1. unfold apply1, observes. autounfold with ops.
  repeat walk; cbn [Z.eqb Pos.eqb].
  all: destruct x; try (intros; reflexivity).
  all: cbn [erase_v erase_rv].
  all: try (intros _ _; lazymatch goal with
            | |- _ = erase_rv (neg_val ?y) => exact (neg_val_erase y)
            | |- _ = erase_rv (not_val ?y) => exact (not_val_erase y) end).
  all: try (intros Hobs _; discriminate Hobs).
  all: try (intros _ _; match goal with
            | p : piece |- _ => destruct p; reflexivity
            | k : command |- _ => unfold c_get_pos, c_get_vel; destruct (c_kind k); reflexivity end).
  all: intros Hobs _; unfold time_of_q, dint_of_q, eq_assume_true, U_SECOND, U_DIMLESS, unew;
       cbn [chk cfg_chk cfg_nochk qu erase_q];
       match goal with |- context [ueqb ?a ?b] => destruct (ueqb a b) end; [reflexivity|discriminate Hobs].
Qed.



Lemma s_update_cfg (st : @state F) t : s_update c0 st t = s_update c1 st t.
Proof. reflexivity. Qed.

Lemma apply2_erase o x y :
  observes o [x; y] = false -> apply_op c1 o [x; y] <> RPanic ->
  apply_op c0 o [erase_v x; erase_v y] = erase_rv (apply_op c1 o [x; y]).
Proof.
  rewrite !apply_op_2. unfold apply2.
  destruct ((1 <=? o) && (o <=? 8)) eqn:Er; [intros _ H; apply arith_erase; exact H|].
  unfold observes, eq_val. autounfold with ops.
  repeat walk; cbn [Z.eqb Pos.eqb].
  all: destruct x; try (intros; reflexivity); destruct y; try (intros; reflexivity).
  all: cbn [erase_v erase_rv andb orb chk cfg_chk cfg_nochk].
  all: try (intros Hobs _; discriminate Hobs).
  all: try (intros _ _; reflexivity).
  all: try (match goal with d : pd |- _ => destruct d; intros; reflexivity end).
  all: try (match goal with |- context [odat_of_val (VSome ?w)] => is_var w; destruct w end);
       try (match goal with |- context [odat_of_val (VSome ?w)] => is_var w; destruct w end).
  all: unfold qeqb, qpcmp, assert_ok, s_set_acc, s_set_vel, s_set_pos, eq_assume_true, eq_assume_false, U_MM, U_MM_S,
         U_MM_S2, unew, vsetter, replace_if_older_than, replace_if_none_or_older_than_option,
         replace_if_none_or_older_than, latest, odat_of_val, vodat_of, vdat_of, vopt;
       cbn [chk cfg_chk cfg_nochk qu qv erase_q bind of_res erase_rv erase_v fst snd d_time d_val negb andb orb];
       repeat match goal with
         | |- context [ueqb ?a ?b] => destruct (ueqb a b)
         | |- context [feqb ?a ?b] => destruct (feqb a b)
         | |- context [?a >? ?b] => destruct (a >? b)
         | |- context [?a >=? ?b] => destruct (a >=? b)
         end;
       cbn [chk cfg_chk cfg_nochk qu qv erase_q bind of_res erase_rv erase_v fst snd d_time d_val negb andb orb];
       intros Hobs Hnp; try reflexivity; try discriminate Hobs; try congruence.
Qed.


Lemma apply3_erase o x y z :
  apply_op c1 o [x; y; z] <> RPanic ->
  apply_op c0 o [erase_v x; erase_v y; erase_v z] = erase_rv (apply_op c1 o [x; y; z]).
Proof.
  rewrite !apply_op_3. unfold apply3.
  destruct (o =? O_S_NEW).
  - destruct x; try (intros; reflexivity); destruct y; try (intros; reflexivity); destruct z; try (intros; reflexivity).
    cbn [erase_v]. unfold snew, assert_ok, eq_assume_true. cbn [chk cfg_chk cfg_nochk bind qu qv erase_q of_res].
    repeat match goal with |- context [ueqb ?a ?b] => destruct (ueqb a b); cbn [bind of_res erase_rv] end;
      intros H; try reflexivity; congruence.
  - destruct (o =? O_S_NEW_RAW); [|reflexivity].
    destruct x; try (intros; reflexivity); destruct y; try (intros; reflexivity); destruct z; intros; reflexivity.
Qed.

(* every operator application that does not observe a unit commutes with erasure (values AND type errors) *)
Lemma apply_erase o vs :
  observes o vs = false -> apply_op c1 o vs <> RPanic ->
  apply_op c0 o (map erase_v vs) = erase_rv (apply_op c1 o vs).
Proof.
  destruct vs as [|x [|y [|z [|w r]]]]; cbn [map].
  - intros _ _. reflexivity.
  - apply apply1_erase.
  - apply apply2_erase.
  - intros _. apply apply3_erase.
  - intros _ _.
    destruct x; try reflexivity. destruct y; try reflexivity. destruct z; try reflexivity. destruct w; try reflexivity.
    destruct r as [|w5 r]; try reflexivity. destruct w5; try reflexivity.
    destruct r as [|w6 r]; try reflexivity. destruct w6; try reflexivity.
    destruct r as [|w7 r]; [|reflexivity].
    cbn [map erase_v apply_op]. destruct (o =? O_K_EVAL); reflexivity.
Qed.


(* ---------- program level ---------- *)
(* [clean e]: no operator application inside [e] observes a unit during the CHECKED run.  It is a decidable
   property of the checked run alone (a boolean function), true in particular of every program that does not
   use the operators listed in [unit_reading_ops] (lemma [blind_clean] below). *)
Fixpoint clean (e : expr) : bool :=
  match e with
  | Lit _ => true
  | Op o args =>
      forallb clean args &&
      match evalL c1 args with LVals vs => negb (observes o vs) | _ => true end
  end.

Definition erase_l (r : lres) : lres := match r with LVals vs => LVals (map erase_v vs) | x => x end.

Lemma evalL_erase_gen (args : list expr) :
  Forall (fun a => clean a = true -> run c1 a <> RPanic -> run c0 (erase_e a) = erase_rv (run c1 a)) args ->
  forallb clean args = true -> evalL c1 args <> LPanic ->
  evalL c0 (map erase_e args) = erase_l (evalL c1 args).
Proof.
  induction 1 as [|a r Ha Hr IH]; intros Hc Hnp; [reflexivity|].
  cbn [forallb] in Hc. apply andb_true_iff in Hc. destruct Hc as [Hca Hcr].
  cbn [map evalL] in *.
  destruct (run c1 a) as [v| |] eqn:Ea.
  - rewrite (Ha Hca); [|congruence]. cbn [erase_rv].
    destruct (evalL c1 r) as [vs| |] eqn:Er.
    + rewrite (IH Hcr); [reflexivity|congruence].
    + congruence.
    + rewrite (IH Hcr); [reflexivity|congruence].
  - congruence.
  - rewrite (Ha Hca); [reflexivity|congruence].
Qed.

(* MAIN THEOREM (simulation form): for a clean program whose checked run does not panic, the unchecked run of
   the erased program is the erasure of the checked run -- the erased value if the checked run returns a
   value, a type error if the checked run is ill-typed. *)
Theorem erase_run_sim (e : expr) :
  clean e = true -> run c1 e <> RPanic -> run c0 (erase_e e) = erase_rv (run c1 e).
Proof.
  induction e as [v|o args IH] using expr_ind'; intros Hc Hnp; [reflexivity|].
  cbn [clean] in Hc. apply andb_true_iff in Hc. destruct Hc as [Hca Hobs].
  cbn [erase_e]. rewrite !run_Op in *.
  rewrite (evalL_erase_gen args IH Hca); [|destruct (evalL c1 args); congruence].
  destruct (evalL c1 args) as [vs| |]; cbn [erase_l]; [|congruence|reflexivity].
  apply apply_erase; [|exact Hnp]. destruct (observes o vs); [discriminate|reflexivity].
Qed.

(* part 1: same numbers, same time stamps, same booleans and orderings *)
Theorem erase_run (e : expr) (v : val) :
  clean e = true -> run c1 e = RVal v -> run c0 (erase_e e) = RVal (erase_v v).
Proof. intros Hc Hr. rewrite erase_run_sim; [rewrite Hr; reflexivity|exact Hc|congruence]. Qed.

Theorem erase_run_type_error (e : expr) :
  clean e = true -> run c1 e = RType -> run c0 (erase_e e) = RType.
Proof. intros Hc Hr. rewrite erase_run_sim; [rewrite Hr; reflexivity|exact Hc|congruence]. Qed.

(* part 2 (program level): a panic of the unchecked run of a clean program is a panic of the checked run;
   in particular the checked run does not return a value *)
Theorem unchecked_panic_checked_panic (e : expr) :
  clean e = true -> run c0 (erase_e e) = RPanic -> run c1 e = RPanic.
Proof.
  intros Hc H0. destruct (run c1 e) as [v| |] eqn:E1; [|reflexivity|].
  - rewrite (erase_run e v Hc E1) in H0. discriminate.
  - rewrite (erase_run_type_error e Hc E1) in H0. discriminate.
Qed.


(* ---------- the exception list is exact ---------- *)
(* whenever an application observes a unit and the checked build returns a value, the unchecked build does NOT
   return the erased value: it returns a different value, panics, or the operation does not exist *)
Ltac unf_prims :=
  unfold time_of_q, dint_of_q, c_of_q, qeqb, qpcmp, assert_ok, assert_not_ok, s_set_acc, s_set_vel, s_set_pos,
    eq_assume_true, eq_assume_false, U_SECOND, U_DIMLESS, U_MM, U_MM_S, U_MM_S2, unew, vsetter, vopt;
  cbn [chk cfg_chk cfg_nochk qu qv erase_q bind of_res erase_rv erase_v fst snd negb andb orb].

Theorem observes_exact o vs v :
  observes o vs = true -> apply_op c1 o vs = RVal v -> apply_op c0 o (map erase_v vs) <> RVal (erase_v v).
Proof.
  destruct vs as [|x [|y [|z r]]]; try discriminate; cbn [map].
  - rewrite !apply_op_1. unfold apply1, observes. autounfold with ops.
    destruct x; try discriminate; repeat walk; cbn [Z.eqb Pos.eqb erase_v]; try discriminate; unf_prims;
      repeat match goal with |- context [ueqb ?a ?b] => destruct (ueqb a b) end;
      cbn [negb]; intros Hobs H Hc; try discriminate Hobs; try discriminate Hc;
      injection H as <-; discriminate Hc.
  - rewrite !apply_op_2. unfold apply2, observes, eq_val. autounfold with ops.
    destruct x; try discriminate; destruct y; try discriminate; repeat walk;
      cbn [Z.eqb Pos.eqb Z.leb Z.compare Pos.compare Pos.compare_cont andb orb erase_v]; try discriminate; unf_prims;
      repeat match goal with
        | |- context [ueqb ?a ?b] => destruct (ueqb a b)
        | |- context [feqb ?a ?b] => destruct (feqb a b) end;
      cbn [negb andb orb of_res]; intros Hobs H Hc; try discriminate Hobs; try discriminate Hc;
      injection H as <-; discriminate Hc.
  - unfold observes. destruct x; try discriminate; destruct y; discriminate.
Qed.


(* each exception, spelled out: what the two builds return *)
Theorem exceptions_described (a b : quantity) (u v : unit_) (st : @state F) :
  (* items that do not exist when checking is compiled out *)
  apply_op c0 O_EQ [VU u; VU v] = RType /\ apply_op c0 O_CONST_EQ [VU u; VU v] = RType /\
  apply_op c0 O_CONST_ASSERT [VU u; VU v] = RType /\ apply_op c0 O_C_TRY [VQ a] = RType /\
  apply_op c0 O_PD_FROM [VU u] = RType /\
  (* Quantity == Quantity *)
  apply_op c1 O_EQ [VQ a; VQ b] = RVal (VB (feqb (qv a) (qv b) && ueqb (qu a) (qu b))) /\
  apply_op c0 O_EQ [VQ a; VQ b] = RVal (VB (feqb (qv a) (qv b))) /\
  (* Time::try_from, DimensionlessInteger::try_from *)
  apply_op c1 O_T_TRY [VQ a] =
    RVal (if ueqb (qu a) {| mm := 0; sec := 1 |} then VSome (VT (f_to_i64 (fmul (qv a) f1e9))) else VNone) /\
  apply_op c0 O_T_TRY [VQ a] = RVal (VSome (VT (f_to_i64 (fmul (qv a) f1e9)))) /\
  apply_op c1 O_D_TRY [VQ a] =
    RVal (if ueqb (qu a) {| mm := 0; sec := 0 |} then VSome (VD (f_to_i64 (qv a))) else VNone) /\
  apply_op c0 O_D_TRY [VQ a] = RVal (VSome (VD (f_to_i64 (qv a)))) /\
  (* State setters *)
  apply_op c1 O_SET_ACC [VS st; VQ a] =
    RVal (if ueqb (qu a) {| mm := 1; sec := -2 |} then VPair (VS (s_set_acc_raw st (qv a))) (VB true) else VPair (VS st) (VB false)) /\
  apply_op c0 O_SET_ACC [VS st; VQ a] = RVal (VPair (VS (s_set_acc_raw st (qv a))) (VB true)) /\
  apply_op c1 O_SET_VEL [VS st; VQ a] =
    RVal (if ueqb (qu a) {| mm := 1; sec := -1 |} then VPair (VS (s_set_vel_raw st (qv a))) (VB true) else VPair (VS st) (VB false)) /\
  apply_op c0 O_SET_VEL [VS st; VQ a] = RVal (VPair (VS (s_set_vel_raw st (qv a))) (VB true)) /\
  apply_op c1 O_SET_POS [VS st; VQ a] =
    RVal (if ueqb (qu a) {| mm := 1; sec := 0 |} then VPair (VS (s_set_pos_raw st (qv a))) (VB true) else VPair (VS st) (VB false)) /\
  apply_op c0 O_SET_POS [VS st; VQ a] = RVal (VPair (VS (s_set_pos_raw st (qv a))) (VB true)) /\
  (* eq_assume_true / eq_assume_false / assert_eq_assume_not_ok *)
  apply_op c1 O_EQ_TRUE [VU u; VU v] = RVal (VB (ueqb u v)) /\ apply_op c0 O_EQ_TRUE [VU u; VU v] = RVal (VB true) /\
  apply_op c1 O_EQ_FALSE [VU u; VU v] = RVal (VB (ueqb u v)) /\ apply_op c0 O_EQ_FALSE [VU u; VU v] = RVal (VB false) /\
  apply_op c1 O_ASSERT_NOT_OK [VU u; VU v] = (if ueqb u v then RVal VUnit else RPanic) /\
  apply_op c0 O_ASSERT_NOT_OK [VU u; VU v] = RPanic.
Proof.
  repeat apply conj; try reflexivity; cbn; unf_prims; destruct (ueqb _ _); reflexivity.
Qed.

(* ---------- the syntactic fragment: programs that never use a unit-reading operator ---------- *)
Definition unit_reading_ops : list Z :=
  [O_EQ; O_T_TRY; O_D_TRY; O_C_TRY; O_PD_FROM; O_CONST_EQ; O_EQ_TRUE; O_EQ_FALSE; O_ASSERT_NOT_OK; O_CONST_ASSERT;
   O_SET_ACC; O_SET_VEL; O_SET_POS].
Definition blind_op (o : Z) : bool := negb (existsb (Z.eqb o) unit_reading_ops).
Fixpoint blind (e : expr) : bool :=
  match e with Lit _ => true | Op o args => blind_op o && forallb blind args end.

Lemma blind_observes o vs : blind_op o = true -> observes o vs = false.
Proof.
  unfold blind_op, unit_reading_ops, existsb, observes. autounfold with ops. intros H.
  rewrite negb_true_iff, !orb_false_iff in H.
  repeat match goal with H : _ /\ _ |- _ => destruct H end.
  repeat match goal with H : (o =? _) = false |- _ => rewrite H; clear H end.
  destruct vs as [|x [|y [|z r]]]; try reflexivity; destruct x; try reflexivity; destruct y; reflexivity.
Qed.
Lemma blind_clean e : blind e = true -> clean e = true.
Proof.
  induction e as [v|o args IH] using expr_ind'; intros H; [reflexivity|].
  cbn [blind clean] in *. apply andb_true_iff in H. destruct H as [Ho Ha]. apply andb_true_iff. split.
  - clear Ho. induction IH as [|a r Hr _ IHr]; [reflexivity|].
    cbn [forallb] in *. apply andb_true_iff in Ha. destruct Ha as [H1 H2].
    rewrite (Hr H1), (IHr H2). reflexivity.
  - destruct (evalL c1 args) as [vs| |]; try reflexivity. rewrite (blind_observes o vs Ho). reflexivity.
Qed.
Corollary erase_run_blind (e : expr) (v : val) :
  blind e = true -> run c1 e = RVal v -> run c0 (erase_e e) = RVal (erase_v v).
Proof. intros H. apply erase_run, blind_clean, H. Qed.


(* ---------- part 2: what a panic of an unchecked build can be ---------- *)
Definition int_of (v : val) : option Z := match v with VT a | VD a => Some a | _ => None end.
Definition int_payload (v : val) : option Z :=
  match v with VT a | VD a | VDat _ (VT a) | VDat _ (VD a) => Some a | _ => None end.
Definition cmd_payload (v : val) : option (@command F) :=
  match v with VC a | VDat _ (VC a) => Some a | _ => None end.
(* i64 overflow or division by zero in Time / DimensionlessInteger arithmetic *)
Definition int_cause (o : Z) (x y : val) : Prop :=
  exists a b, int_of x = Some a /\ int_of y = Some b /\ arith_i o a b = Panic.
(* Command +/- Command of different kinds (an enum variant test, present in every configuration; not a Unit) *)
Definition cmd_cause (x y : val) : Prop :=
  exists a b, cmd_payload x = Some a /\ cmd_payload y = Some b /\ pd_eqb (c_kind a) (c_kind b) = false.

Lemma arith_q_c0 o a b : arith_q c0 o a b <> RPanic.
Proof.
  unfold arith_q, qadd, qsub, uadd, usub, assert_ok, eq_assume_true. cbn [chk cfg_nochk bind of_res].
  destruct (o =? 1); [discriminate|]. destruct (o =? 2); [discriminate|]. destruct (o =? 3); discriminate.
Qed.
Lemma arith_i_op o k a b : o = k -> arith_i o a b = arith_i k a b.
Proof. intros ->. reflexivity. Qed.

Lemma arith_c0_panic o asg x y :
  arith c0 o asg x y = RPanic ->
  (int_cause o x y \/ cmd_cause x y) /\ forall c, arith c o asg x y = RPanic.
Proof.
  assert (Q : forall a b, arith_q c0 o a b = RPanic -> False) by (intros a b H; exact (arith_q_c0 o a b H)).
  assert (Q3 : forall a b, arith_q c0 3 a b = RPanic -> False) by (intros a b H; exact (arith_q_c0 3 a b H)).
  assert (Q4 : forall a b, arith_q c0 4 a b = RPanic -> False) by (intros a b H; exact (arith_q_c0 4 a b H)).
  assert (I : forall (k : Z -> val) a b, of_res k (arith_i o a b) = RPanic -> arith_i o a b = Panic)
    by (intros k a b; destruct (arith_i o a b); [discriminate|reflexivity]).
  assert (C : forall (r : res (@command F)), of_res VC r = RPanic -> r = Panic)
    by (intros r; destruct r; [discriminate|reflexivity]).
  destruct x as [f|q|t|d|u|i|b|st|k|p|p| |w|t w|oc| |xa xb]; try (destruct y; discriminate).
  - destruct y; try discriminate; cbn [arith]; intros H; exfalso; eapply Q; exact H.
  - destruct y; try discriminate; cbn [arith].
    + destruct asg; [discriminate|]. destruct (o =? 3); intros H; exfalso; [eapply Q3|eapply Q]; exact H.
    + destruct ((o =? 1) || (o =? 2)).
      * intros H. split; [left; exists t, t0; repeat split; eapply I; exact H|intros _; exact H].
      * destruct asg; [discriminate|]. intros H; exfalso; eapply Q; exact H.
    + destruct ((o =? 3) || (o =? 4)); [|discriminate].
      intros H. split; [left; exists t, d; repeat split; eapply I; exact H|intros _; exact H].
  - destruct y; try discriminate; cbn [arith].
    + destruct asg; [discriminate|]. destruct (o =? 3); intros H; exfalso; [eapply Q3|eapply Q]; exact H.
    + destruct asg; [discriminate|]. destruct (Z.eqb_spec o 3) as [E3|_].
      * intros H. split; [left; exists d, t; repeat split|intros _; exact H].
        rewrite (arith_i_op o 3 d t E3). destruct (imul d t) eqn:Em; [discriminate|]. unfold arith_i. cbn. exact Em.
      * destruct (o =? 4); [|discriminate]. intros H; exfalso; eapply Q4; exact H.
    + intros H. split; [left; exists d, d0; repeat split; eapply I; exact H|intros _; exact H].
  - destruct y; try discriminate; cbn [arith]. unfold uadd, usub, assert_ok, eq_assume_true. cbn [chk cfg_nochk bind of_res].
    destruct (o =? 1); [discriminate|]. destruct (o =? 2); [discriminate|]. destruct (o =? 3); discriminate.
  - destruct y; try discriminate; cbn [arith].
    + destruct (o =? 3); [discriminate|]. destruct (o =? 4); discriminate.
    + destruct (o =? 1); [discriminate|]. destruct (o =? 2); discriminate.
  - assert (K : forall k0 : @command F, (c_add k k0 = Panic \/ c_sub k k0 = Panic) -> pd_eqb (c_kind k) (c_kind k0) = false).
    { intros k0. unfold c_add, c_sub. destruct (pd_eqb (c_kind k) (c_kind k0)); [intros [H|H]; discriminate|reflexivity]. }
    destruct y; try discriminate; cbn [arith].
    + destruct (o =? 3); [discriminate|]. destruct (o =? 4); discriminate.
    + destruct (o =? 1); [|destruct (o =? 2); [|discriminate]]; intros H;
        (split; [right; exists k, x; repeat split; apply K; apply C in H; auto|intros _; exact H]).
  - (* VDat t w *)
    cbn [arith].
    assert (D : forall (r : rv) (kk : val -> val), rbind r (fun v => RVal (kk v)) = RPanic -> r = RPanic)
      by (intros r kk; destruct r; cbn [rbind]; congruence).
    assert (G : forall y' (kk : val -> val), dat_payload_ok w y' = true ->
              rbind (arith c0 o asg w y') (fun v => RVal (kk v)) = RPanic ->
              (exists a b, w = VC a /\ y' = VC b /\ pd_eqb (c_kind a) (c_kind b) = false) /\
              forall c, rbind (arith c o asg w y') (fun v => RVal (kk v)) = RPanic).
    { intros y' kk Hp H. apply D in H.
      destruct w; try discriminate Hp; destruct y'; try discriminate Hp; cbn [arith] in *.
      - discriminate.
      - exfalso; eapply Q; exact H.
      - destruct (o =? 3); [discriminate|]. destruct (o =? 4); discriminate.
      - destruct (o =? 1); [discriminate|]. destruct (o =? 2); discriminate.
      - destruct (o =? 3); [discriminate|]. destruct (o =? 4); discriminate.
      - unfold c_add, c_sub in *. destruct (pd_eqb (c_kind x) (c_kind x0)) eqn:Ek.
        + destruct (o =? 1); [discriminate|]. destruct (o =? 2); discriminate.
        + split; [exists x, x0; repeat split; exact Ek|]. intros _.
          destruct (o =? 1); [reflexivity|]. destruct (o =? 2); [reflexivity|discriminate]. }
    destruct y as [f|q|t'|d|u|i|b|st|k|p|p| |w'|t' w'|oc| |ya yb];
      try (destruct (dat_payload_ok w _) eqn:Hp; [|discriminate]; intros H;
           destruct (G _ _ Hp H) as [(a & b0 & -> & E & Ek) Hall];
           first [discriminate E|split; [right; exists a, b0; injection E as <-; repeat split; exact Ek|exact Hall]]).
    destruct (dat_payload_ok w w') eqn:Hp; [|discriminate]. intros H.
    destruct (G _ _ Hp H) as [(a & b0 & -> & -> & Ek) Hall].
    split; [right; exists a, b0; repeat split; exact Ek|exact Hall].
Qed.


Lemma neg_val_panic (x : val) : neg_val x = RPanic -> exists a, int_payload x = Some a /\ ineg a = Panic.
Proof.
  assert (I : forall (k : Z -> val) a, of_res k (ineg a) = RPanic -> ineg a = Panic)
    by (intros k a; destruct (ineg a); [discriminate|reflexivity]).
  destruct x as [f|q|t|d|u|i|b|st|k|p|p| |w|t w|oc| |xa xb]; try discriminate; cbn [neg_val].
  - intros H. exists t. split; [reflexivity|eapply I; exact H].
  - intros H. exists d. split; [reflexivity|eapply I; exact H].
  - destruct w; try discriminate; cbn [neg_val rbind].
    + destruct (ineg t0) eqn:E; [discriminate|]. intros _. exists t0. split; [reflexivity|exact E].
    + destruct (ineg d) eqn:E; [discriminate|]. intros _. exists d. split; [reflexivity|exact E].
Qed.

(* Every panic of a single operator application in an unchecked build is one of:
   (1) i64 overflow / division by zero in Time or DimensionlessInteger arithmetic,
   (2) negation of i64::MIN (Time or DimensionlessInteger, bare or inside a Datum),
   (3) Command + Command / Command - Command of two different kinds (bare or inside Datum),
   (4) assert_eq_assume_not_ok, which fails unconditionally when checking is compiled out.
   None of them reads a unit; (1)-(3) panic in EVERY configuration on the same operands. *)
Definition panic_cause (o : Z) (vs : list val) : Prop :=
  (exists x y, vs = [x; y] /\ 1 <= o <= 8 /\ (int_cause (base_op o) x y \/ cmd_cause x y)) \/
  (exists x a, vs = [x] /\ o = O_NEG /\ int_payload x = Some a /\ ineg a = Panic) \/
  (exists u v, vs = [VU u; VU v] /\ o = O_ASSERT_NOT_OK).
Theorem unchecked_panic_cause o vs :
  apply_op c0 o vs = RPanic ->
  panic_cause o vs /\ (o <> O_ASSERT_NOT_OK -> forall c, apply_op c o vs = RPanic).
Proof.
  unfold panic_cause.
  destruct vs as [|x [|y [|z [|w r]]]].
  - discriminate.
  - rewrite apply_op_1. unfold apply1. autounfold with ops.
    destruct (Z.eqb_spec o 9) as [->|Hn].
    + intros H. split; [|intros _ c; rewrite apply_op_1; exact H].
      right; left. destruct (neg_val_panic x H) as (a & Ha & Hp). exists x, a. repeat split; assumption.
    + repeat walk; cbn [Z.eqb Pos.eqb]; destruct x; try discriminate.
      all: try (cbn [not_val]; match goal with |- context [match ?w with _ => _ end] => destruct w; discriminate end).
  - rewrite apply_op_2. unfold apply2.
    destruct ((1 <=? o) && (o <=? 8)) eqn:Er.
    + intros H. destruct (arith_c0_panic _ _ _ _ H) as [Hc Hall].
      split; [|intros _ c; rewrite apply_op_2; unfold apply2; rewrite Er; apply Hall].
      left. exists x, y. apply andb_true_iff in Er. destruct Er as [E1 E2].
      apply Z.leb_le in E1, E2. repeat split; assumption.
    + unfold eq_val. autounfold with ops. repeat walk; cbn [Z.eqb Pos.eqb chk cfg_nochk].
      all: try (intros H; split; [right; right|intros Hn; exfalso; apply Hn; reflexivity];
                destruct x; try discriminate H; destruct y; try discriminate H; eexists; eexists; split; reflexivity).
      all: destruct x; try discriminate; destruct y; try discriminate.
      all: try (destruct (odat_of_val _) as [[?|]|]; try discriminate; destruct (odat_of_val _) as [[?|]|]; discriminate).
      all: try (destruct (odat_of_val _) as [[?|]|]; discriminate).
  - rewrite apply_op_3. unfold apply3.
    destruct (o =? O_S_NEW).
    + destruct x; try discriminate; destruct y; try discriminate; destruct z; discriminate.
    + destruct (o =? O_S_NEW_RAW); [|discriminate].
      destruct x; try discriminate; destruct y; try discriminate; destruct z; discriminate.
  - destruct x; try discriminate. destruct y; try discriminate. destruct z; try discriminate. destruct w; try discriminate.
    destruct r as [|w5 r]; try discriminate. destruct w5; try discriminate.
    destruct r as [|w6 r]; try discriminate. destruct w6; try discriminate.
    destruct r as [|w7 r]; [|discriminate]. cbn [apply_op]. destruct (o =? O_K_EVAL); discriminate.
Qed.


(* part 2, program level, for ARBITRARY programs (clean or not, literals erased or not): a panic of the
   unchecked run happens at an operator application whose argument values exhibit one of the causes above *)
Theorem unchecked_run_panic_cause (e : expr) :
  run c0 e = RPanic ->
  exists o args vs, subterm (Op o args) e /\ evalL c0 args = LVals vs /\ panic_cause o vs /\
    (o <> O_ASSERT_NOT_OK -> forall c, apply_op c o vs = RPanic).
Proof.
  intros H. destruct (panic_site c0 e H) as (o & args & vs & Hs & He & Hp).
  exists o, args, vs. split; [exact Hs|split; [exact He|exact (unchecked_panic_cause o vs Hp)]].
Qed.


(* ---------- an unchecked build never reads a unit ---------- *)
Lemma arith_q_blind0 o a b : arith_q c0 o (erase_q a) (erase_q b) = erase_rv (arith_q c0 o a b).
Proof.
  unfold arith_q. destruct (o =? 1); [reflexivity|]. destruct (o =? 2); [reflexivity|]. destruct (o =? 3); reflexivity.
Qed.
Lemma q_of_time_erase0 t : q_of_time c0 t = erase_q (q_of_time c0 t).
Proof. reflexivity. Qed.
Lemma q_of_dint_erase0 d : @q_of_dint F NF c0 d = erase_q (q_of_dint c0 d).
Proof. reflexivity. Qed.
Lemma arith_blind0 o asg x y : arith c0 o asg (erase_v x) (erase_v y) = erase_rv (arith c0 o asg x y).
Proof.
  revert y. induction x as [f|q|t|d|u|i|b|st|k|p|p| |w IHw|t w IHw|oc| |a IHa b IHb]; intros y;
    try (destruct y; reflexivity).
  - destruct y; try reflexivity; cbn [arith erase_v].
    + apply arith_q_blind0.
    + rewrite q_of_time_erase0 at 1. apply arith_q_blind0.
    + rewrite q_of_dint_erase0 at 1. apply arith_q_blind0.
  - destruct y; try reflexivity; cbn [arith erase_v].
    + destruct asg; [reflexivity|]. rewrite q_of_time_erase0 at 1.
      destruct (o =? 3); apply arith_q_blind0.
    + destruct ((o =? 1) || (o =? 2)); [symmetry; apply of_res_erase; reflexivity|].
      destruct asg; [reflexivity|]. rewrite q_of_time_erase0 at 1 2. apply arith_q_blind0.
    + destruct ((o =? 3) || (o =? 4)); [symmetry; apply of_res_erase; reflexivity|reflexivity].
  - destruct y; try reflexivity; cbn [arith erase_v].
    + destruct asg; [reflexivity|]. rewrite q_of_dint_erase0 at 1.
      destruct (o =? 3); apply arith_q_blind0.
    + destruct asg; [reflexivity|]. destruct (o =? 3); [symmetry; apply of_res_erase; reflexivity|].
      destruct (o =? 4); [|reflexivity]. rewrite q_of_dint_erase0 at 1. rewrite q_of_time_erase0 at 1. apply arith_q_blind0.
    + symmetry; apply of_res_erase; reflexivity.
  - destruct y; try reflexivity; cbn [arith erase_v].
    destruct (o =? 1); [reflexivity|]. destruct (o =? 2); [reflexivity|]. destruct (o =? 3); reflexivity.
  - destruct y; try reflexivity; cbn [arith erase_v].
    + destruct (o =? 3); [reflexivity|]. destruct (o =? 4); reflexivity.
    + destruct (o =? 1); [reflexivity|]. destruct (o =? 2); reflexivity.
  - destruct y; try reflexivity; cbn [arith erase_v].
    + destruct (o =? 3); [reflexivity|]. destruct (o =? 4); reflexivity.
    + destruct (o =? 1); [symmetry; apply of_res_erase; reflexivity|].
      destruct (o =? 2); [symmetry; apply of_res_erase; reflexivity|reflexivity].
  - assert (G : forall y' (kk : val -> val), (forall v, erase_v (kk v) = kk (erase_v v)) ->
              (if dat_payload_ok (erase_v w) (erase_v y') then rbind (arith c0 o asg (erase_v w) (erase_v y')) (fun v => RVal (kk v)) else RType)
              = erase_rv (if dat_payload_ok w y' then rbind (arith c0 o asg w y') (fun v => RVal (kk v)) else RType)).
    { intros y' kk Hk. rewrite dat_payload_ok_erase. destruct (dat_payload_ok w y'); [|reflexivity].
      apply rbind_erase; [exact Hk|]. apply IHw. }
    destruct y; try (refine (G _ (VDat t) _); reflexivity).
    cbn [arith erase_v]. refine (G _ (VDat (tmax_ge t t0)) _). reflexivity.
Qed.

Lemma apply_blind0 o vs : apply_op c0 o (map erase_v vs) = erase_rv (apply_op c0 o vs).
Proof.
  destruct vs as [|x [|y [|z [|w r]]]]; cbn [map].
  - reflexivity.
  - rewrite !apply_op_1. unfold apply1. autounfold with ops.
    repeat walk; cbn [Z.eqb Pos.eqb]; first [apply neg_val_erase|apply not_val_erase|idtac].
    all: destruct x; try reflexivity.
    all: cbn [erase_v erase_rv];
         match goal with
         | p : piece |- _ => destruct p; reflexivity
         | k : command |- _ => unfold c_get_pos, c_get_vel; destruct (c_kind k); reflexivity end.
  - rewrite !apply_op_2. unfold apply2.
    destruct ((1 <=? o) && (o <=? 8)) eqn:Er; [apply arith_blind0|].
    unfold eq_val. autounfold with ops.
    repeat walk; cbn [Z.eqb Pos.eqb].
    all: destruct x; try reflexivity; destruct y; try reflexivity.
    all: try (match goal with d : pd |- _ => destruct d; reflexivity end).
    all: cbn [erase_v].
    all: try (match goal with |- context [odat_of_val (VSome ?w)] => is_var w; destruct w end);
         try (match goal with |- context [odat_of_val (VSome ?w)] => is_var w; destruct w end).
    all: try reflexivity.
    all: unfold replace_if_older_than, replace_if_none_or_older_than_option,
           replace_if_none_or_older_than, latest, odat_of_val, vodat_of, vdat_of, vopt;
         cbn [fst snd d_time d_val erase_v erase_rv];
         repeat match goal with
           | |- context [?a >? ?b] => destruct (a >? b)
           | |- context [?a >=? ?b] => destruct (a >=? b)
           end; reflexivity.
  - rewrite !apply_op_3. unfold apply3.
    destruct (o =? O_S_NEW).
    + destruct x; try reflexivity; destruct y; try reflexivity; destruct z; reflexivity.
    + destruct (o =? O_S_NEW_RAW); [|reflexivity].
      destruct x; try reflexivity; destruct y; try reflexivity; destruct z; reflexivity.
  - destruct x; try reflexivity. destruct y; try reflexivity. destruct z; try reflexivity. destruct w; try reflexivity.
    destruct r as [|w5 r]; try reflexivity. destruct w5; try reflexivity.
    destruct r as [|w6 r]; try reflexivity. destruct w6; try reflexivity.
    destruct r as [|w7 r]; [|reflexivity].
    cbn [map erase_v apply_op]. destruct (o =? O_K_EVAL); reflexivity.
Qed.

(* the unchecked run of ANY program is blind to every unit written in its literals: erasing them erases the
   result and changes nothing else (no exception, no side condition).  This is the precise form of "with
   dimension checking compiled out no unit mismatch ever panics or is rejected". *)
Theorem unchecked_run_blind (e : expr) : run c0 (erase_e e) = erase_rv (run c0 e).
Proof.
  induction e as [v|o args IH] using expr_ind'; [reflexivity|].
  cbn [erase_e]. rewrite !run_Op.
  assert (E : evalL c0 (map erase_e args) = erase_l (evalL c0 args)).
  { induction IH as [|a r Ha _ IHr]; [reflexivity|]. cbn [map evalL]. rewrite Ha.
    destruct (run c0 a) as [v| |]; cbn [erase_rv]; try reflexivity.
    rewrite IHr. destruct (evalL c0 r); reflexivity. }
  rewrite E. destruct (evalL c0 args) as [vs| |]; cbn [erase_l]; try reflexivity. apply apply_blind0.
Qed.

(* hence, for the program exactly as written (literals NOT erased): the unchecked run returns a value that
   differs from the checked one only in the units *)
Corollary erase_run_same_program (e : expr) (v : val) :
  clean e = true -> run c1 e = RVal v -> exists v', run c0 e = RVal v' /\ erase_v v' = erase_v v.
Proof.
  intros Hc Hr. pose proof (erase_run e v Hc Hr) as H. rewrite unchecked_run_blind in H.
  destruct (run c0 e) as [v'| |]; try discriminate. exists v'. split; [reflexivity|]. injection H as H. exact H.
Qed.

End Erase.

(* arbitrary configurations: only [chk] matters *)
Corollary erase_run_cfg {F} {NF : Num F} (ca cb : cfg) (e : @expr F) (v : @val F) :
  chk ca = true -> chk cb = false ->
  clean (stdf ca) e = true -> run ca e = RVal v -> run cb (erase_e e) = RVal (erase_v v).
Proof.
  destruct ca as [ka sa], cb as [kb sb]. cbn [chk stdf]. intros -> ->. apply (erase_run sa sb).
Qed.

(* ---------- examples: the hypotheses are satisfiable, and an ill-dimensioned program ---------- *)
Definition uMM : unit_ := {| mm := 1; sec := 0 |}.
Definition uMM_S : unit_ := {| mm := 1; sec := -1 |}.
Definition uS : unit_ := {| mm := 0; sec := 1 |}.
Section Examples.
Context {F : Type} {NF : Num F}.
Variables (s s' : bool) (x y : F).
Let two_s : F := fdiv (f_of_Z 2000000000) f1e9.
(* Datum(5 ns, x mm / Time(2 s)) + Datum(7 ns, y mm/s) *)
Definition e_good : @expr F :=
  Op O_ADD [Op O_DAT_NEW [Lit (VT 5); Op O_DIV [Lit (VQ (qnew x uMM)); Lit (VT 2000000000)]];
            Op O_DAT_NEW [Lit (VT 7); Lit (VQ (qnew y uMM_S))]].
Example e_good_hyps :
  blind e_good = true /\ clean s e_good = true /\
  run (cfg_chk s) e_good = RVal (VDat 7 (VQ (qnew (fadd (fdiv x two_s) y) uMM_S))).
Proof. repeat apply conj; reflexivity. Qed.
Example e_good_unchecked :
  run (cfg_nochk s') (erase_e e_good) = RVal (VDat 7 (VQ (qnew (fadd (fdiv x two_s) y) u0))).
Proof. apply (erase_run s s' e_good _ (proj1 (proj2 e_good_hyps)) (proj2 (proj2 e_good_hyps))). Qed.
(* a clean program outside the syntactic fragment: Time::try_from((x mm) / (y mm/s)) and a comparison *)
Definition e_good2 : @expr F :=
  Op O_T_TRY [Op O_DIV [Lit (VQ (qnew x uMM)); Lit (VQ (qnew y uMM_S))]].
Example e_good2_hyps :
  blind e_good2 = false /\ clean s e_good2 = true /\
  run (cfg_chk s) e_good2 = RVal (VSome (VT (f_to_i64 (fmul (fdiv x y) f1e9)))) /\
  run (cfg_nochk s') (erase_e e_good2) = RVal (VSome (VT (f_to_i64 (fmul (fdiv x y) f1e9)))).
Proof. repeat apply conj; reflexivity. Qed.
(* ill-dimensioned: millimetres + seconds panics when checked, is plain f32 addition when unchecked *)
Definition e_bad : @expr F := Op O_ADD [Lit (VQ (qnew x uMM)); Lit (VQ (qnew y uS))].
Example e_bad_runs :
  run (cfg_chk s) e_bad = RPanic /\ run (cfg_nochk s') (erase_e e_bad) = RVal (VQ (qnew (fadd x y) u0)) /\
  run (cfg_nochk s') e_bad = RVal (VQ (qnew (fadd x y) uMM)).
Proof. repeat apply conj; reflexivity. Qed.
End Examples.
Example e_bad_b32 :
  run (cfg_chk true) (e_bad (b32_of_Z 3) (b32_of_Z 4)) = RPanic /\
  match run (cfg_nochk true) (erase_e (e_bad (b32_of_Z 3) (b32_of_Z 4))) with
  | RVal (VQ q) => b32_to_bits (qv q) = 1088421888 (* 0x40E00000 = 7.0f32 *) /\ qu q = u0
  | _ => False
  end.
Proof. split; vm_compute; [reflexivity|split; reflexivity]. Qed.

(* ---------- part 3: a stream family with state: DerivativeStream / IntegralStream ---------- *)
Section StreamErase.
Context {F : Type} {NF : Num F}.
Variable s s' : bool.
Notation c1 := (cfg_chk s).
Notation c0 := (cfg_nochk s').
Notation quantity := (@quantity F).
Notation dint := (@dint F).

Definition erase_dq (d : datum quantity) : datum quantity := mkDatum (d_time d) (erase_q (d_val d)).
Definition erase_out (o : out quantity) : out quantity :=
  match o with OSome d => OSome (erase_dq d) | OErr e => OErr e | ONone => ONone end.
Definition erase_dint (st : dint) : dint :=
  {| di_val := erase_out (di_val st); di_prev := option_map erase_dq (di_prev st) |}.

Lemma clear_err_erase o : clear_err (erase_out o) = erase_out (clear_err o).
Proof. destruct o; reflexivity. Qed.

(* one update() of the integral: whenever the checked build returns, the unchecked build returns the erased
   state and the same update result *)
Lemma integ_step_erase (st : dint) (i : out quantity) st' u :
  integ_step c1 st i = Ok (st', u) -> integ_step c0 (erase_dint st) (erase_out i) = Ok (erase_dint st', u).
Proof.
  destruct st as [val prev]. destruct i as [e| |o]; cbn [integ_step erase_out erase_dint di_val di_prev option_map].
  - intros [= <- <-]. reflexivity.
  - intros [= <- <-]. reflexivity.
  - destruct prev as [p|]; cbn [option_map].
    + unfold dt_q. cbn [erase_dq d_time d_val]. destruct (isub (d_time o) (d_time p)) as [d|]; cbn [bind]; [|discriminate].
      unfold qadd, uadd, assert_ok, eq_assume_true. cbn [chk cfg_chk cfg_nochk bind erase_q qu qv].
      destruct (ueqb (qu (d_val p)) (qu (d_val o))); cbn [bind]; [|discriminate].
      destruct val as [e| |real]; cbn [erase_out bind].
      * intros [= <- <-]. reflexivity.
      * intros [= <- <-]. reflexivity.
      * cbn [erase_dq d_val erase_q qu qv].
        destruct (ueqb _ _); cbn [bind]; [|discriminate]. intros [= <- <-]. reflexivity.
    + intros [= <- <-]. cbn [erase_dint di_val di_prev option_map]. rewrite clear_err_erase. reflexivity.
Qed.
Lemma deriv_step_erase (st : dint) (i : out quantity) st' u :
  deriv_step c1 st i = Ok (st', u) -> deriv_step c0 (erase_dint st) (erase_out i) = Ok (erase_dint st', u).
Proof.
  destruct st as [val prev]. destruct i as [e| |o]; cbn [deriv_step erase_out erase_dint di_val di_prev option_map].
  - intros [= <- <-]. reflexivity.
  - intros [= <- <-]. reflexivity.
  - destruct prev as [p|]; cbn [option_map].
    + unfold dt_q. cbn [erase_dq d_time d_val]. destruct (isub (d_time o) (d_time p)) as [d|]; cbn [bind]; [|discriminate].
      unfold qsub, usub, assert_ok, eq_assume_true. cbn [chk cfg_chk cfg_nochk bind erase_q qu qv].
      destruct (ueqb (qu (d_val o)) (qu (d_val p))); cbn [bind]; [|discriminate].
      intros [= <- <-]. reflexivity.
    + intros [= <- <-]. cbn [erase_dint di_val di_prev option_map]. rewrite clear_err_erase. reflexivity.
Qed.

(* the only panic of the unchecked stream is the i64 subtraction of the two time stamps *)
Lemma integ_deriv_step_unchecked_panic (st : dint) (i : out quantity) :
  integ_step c0 st i = Panic \/ deriv_step c0 st i = Panic ->
  exists o p, i = OSome o /\ di_prev st = Some p /\ isub (d_time o) (d_time p) = Panic.
Proof.
  destruct st as [val prev]. destruct i as [e| |o]; cbn [integ_step deriv_step di_val di_prev];
    try (intros [H|H]; discriminate).
  destruct prev as [p|]; [|intros [H|H]; discriminate].
  intros H. exists o, p. split; [reflexivity|split; [reflexivity|]].
  unfold dt_q in H. destruct (isub (d_time o) (d_time p)) as [d|]; [|reflexivity]. exfalso.
  cbn [bind] in H. unfold qadd, qsub, uadd, usub, assert_ok, eq_assume_true in H. cbn [chk cfg_nochk bind] in H.
  destruct H as [H|H]; [|discriminate]. destruct val; discriminate.
Qed.

(* whole histories: the trace records, after every update(), the update result and what get() returns *)
Section Hist.
Variable step : cfg -> dint -> out quantity -> res (dint * upd).
Fixpoint run_hist (c : cfg) (st : dint) (h : list (out quantity)) : res (dint * list (upd * out quantity)) :=
  match h with
  | [] => Ok (st, [])
  | i :: r =>
      match step c st i with
      | Ok (st1, u) =>
          match run_hist c st1 r with
          | Ok (st2, tr) => Ok (st2, (u, dint_get st1) :: tr)
          | Panic => Panic
          end
      | Panic => Panic
      end
  end.
Definition erase_tr (tr : list (upd * out quantity)) := map (fun p => (fst p, erase_out (snd p))) tr.
Lemma run_hist_erase h :
  (forall st i st' u,
     step c1 st i = Ok (st', u) -> step c0 (erase_dint st) (erase_out i) = Ok (erase_dint st', u)) ->
  forall st st' tr,
  run_hist c1 st h = Ok (st', tr) ->
  run_hist c0 (erase_dint st) (map erase_out h) = Ok (erase_dint st', erase_tr tr).
Proof.
  intros step_erase. induction h as [|i r IH]; intros st st' tr; cbn [run_hist map].
  - intros [= <- <-]. reflexivity.
  - destruct (step c1 st i) as [[st1 u]|] eqn:E1; [|discriminate].
    rewrite (step_erase st i st1 u E1).
    destruct (run_hist c1 st1 r) as [[st2 tr2]|] eqn:E2; [|discriminate].
    rewrite (IH st1 st2 tr2 E2). intros [= <- <-]. reflexivity.
Qed.
End Hist.

(* SIMULATION over arbitrary event histories, from an arbitrary starting state: if the checked stream processes
   the whole history without panicking, the unchecked stream fed the erased history goes through the erased
   states, returns the same update results, and get() returns the erased data (same numbers, same time stamps) *)
Theorem integ_hist_erase h st st' tr :
  run_hist integ_step c1 st h = Ok (st', tr) ->
  run_hist integ_step c0 (erase_dint st) (map erase_out h) = Ok (erase_dint st', erase_tr tr).
Proof. apply run_hist_erase. exact integ_step_erase. Qed.
Theorem deriv_hist_erase h st st' tr :
  run_hist deriv_step c1 st h = Ok (st', tr) ->
  run_hist deriv_step c0 (erase_dint st) (map erase_out h) = Ok (erase_dint st', erase_tr tr).
Proof. apply run_hist_erase. exact deriv_step_erase. Qed.

(* the PID controller stream carries no unit at all: the two builds are the same function *)
Theorem pid_step_cfg (p : @pid F) (i : out F) : pid_step c0 p i = pid_step c1 p i.
Proof. destruct i as [e| |d]; reflexivity. Qed.
End StreamErase.

(* satisfiable: integrate 3 mm/s, 5 mm/s, 9 mm/s sampled at 0 s, 1 s, 3 s; the checked build runs through *)
Example integ_hist_example {F} {NF : Num F} (x y z : F) :
  let h := [OSome (mkDatum 0 (qnew x uMM_S)); OSome (mkDatum 1000000000 (qnew y uMM_S));
            OSome (mkDatum 3000000000 (qnew z uMM_S))] in
  exists st' tr, run_hist integ_step (cfg_chk true) (@dint_init F) h = Ok (st', tr) /\ length tr = 3%nat /\
    exists v, dint_get st' = OSome (mkDatum 3000000000 (qnew v uMM)).
Proof. cbv zeta. eexists; eexists. split; [reflexivity|split; [reflexivity|eexists; reflexivity]]. Qed.
(* an ill-dimensioned history (mm/s then s) panics when checked and integrates the numbers when unchecked *)
Example integ_hist_bad {F} {NF : Num F} (x y : F) :
  let h := [OSome (mkDatum 0 (qnew x uMM_S)); OSome (mkDatum 1000000000 (qnew y uS))] in
  run_hist integ_step (cfg_chk true) (@dint_init F) h = Panic /\
  exists st' tr, run_hist integ_step (cfg_nochk true) (@dint_init F) h = Ok (st', tr).
Proof. cbv zeta. split; [reflexivity|eexists; eexists; reflexivity]. Qed.

(* ---------- further examples ---------- *)
Section Examples2.
Context {F : Type} {NF : Num F}.
Variables (s s' : bool) (x : F).
(* an exception at work: Time::try_from(x mm) is rejected when checked, accepted when unchecked; the program is
   not clean, and the conclusion of [erase_run] fails for it *)
Definition e_exc : @expr F := Op O_T_TRY [Lit (VQ (qnew x uMM))].
Example e_exc_runs :
  clean s e_exc = false /\ run (cfg_chk s) e_exc = RVal VNone /\
  run (cfg_nochk s') (erase_e e_exc) = RVal (VSome (VT (f_to_i64 (fmul x f1e9)))).
Proof. repeat apply conj; reflexivity. Qed.
(* an i64 overflow panics in both builds (cause (1) of [unchecked_panic_cause]) *)
Definition e_ovf : @expr F := Op O_ADD [Lit (VT 9223372036854775807); Lit (VT 1)].
Example e_ovf_runs :
  clean s e_ovf = true /\ run (cfg_nochk s') (erase_e e_ovf) = RPanic /\ run (cfg_chk s) e_ovf = RPanic.
Proof. repeat apply conj; reflexivity. Qed.
(* why part 2 needs [clean]: assert_eq_assume_not_ok(mm, mm) returns when checked and panics when unchecked *)
Definition e_not_ok : @expr F := Op O_ASSERT_NOT_OK [Lit (VU uMM); Lit (VU uMM)].
Example e_not_ok_runs :
  clean s e_not_ok = false /\ run (cfg_chk s) e_not_ok = RVal VUnit /\ run (cfg_nochk s') (erase_e e_not_ok) = RPanic.
Proof. repeat apply conj; reflexivity. Qed.
End Examples2.

Print Assumptions erase_run_sim.
Print Assumptions erase_run.
Print Assumptions erase_run_type_error.
Print Assumptions erase_run_cfg.
Print Assumptions erase_run_blind.
Print Assumptions erase_run_same_program.
Print Assumptions unchecked_run_blind.
Print Assumptions observes_exact.
Print Assumptions exceptions_described.
Print Assumptions unchecked_panic_checked_panic.
Print Assumptions unchecked_panic_cause.
Print Assumptions unchecked_run_panic_cause.
Print Assumptions integ_step_erase.
Print Assumptions deriv_step_erase.
Print Assumptions integ_hist_erase.
Print Assumptions deriv_hist_erase.
Print Assumptions integ_deriv_step_unchecked_panic.
Print Assumptions pid_step_cfg.
Print Assumptions e_good_hyps.
Print Assumptions e_good_unchecked.
Print Assumptions e_good2_hyps.
Print Assumptions e_bad_runs.
Print Assumptions e_bad_b32.
Print Assumptions e_exc_runs.
Print Assumptions e_ovf_runs.
Print Assumptions e_not_ok_runs.
Print Assumptions integ_hist_example.
Print Assumptions integ_hist_bad.
