(* Moving average: the trimming loop never empties the queue for a positive window (so the
   [input_values[0]] never panics); weights telescope to the window length and are non-negative for
   non-decreasing timestamps.  Pure integer arithmetic. *)
From Coq Require Import ZArith Bool List Lia.
From RRTK Require Import Num.Num Model.Values Model.Streams.
Import ListNotations.
Local Open Scope Z_scope.

Section Ma.
Context {T : Type}.

Lemma ma_trim_keeps_last (q : list (datum T)) (o : datum T) bound :
  d_time o > bound -> exists q', ma_trim (q ++ [o]) bound = q' ++ [o].
Proof.
  intros H. induction q as [|d r IH]; cbn [app ma_trim].
  - destruct (Z.leb_spec (d_time o) bound); [lia|]. exists []. reflexivity.
  - destruct (d_time d <=? bound); [exact IH|]. exists (d :: r). reflexivity.
Qed.
Lemma ma_trim_nonempty (q : list (datum T)) (o : datum T) w :
  w > 0 -> ma_trim (q ++ [o]) (d_time o - w) <> [].
Proof.
  intros H. destruct (ma_trim_keeps_last q o (d_time o - w)) as [q' E]; [lia|].
  rewrite E. destruct q'; discriminate.
Qed.
Lemma ma_trim_suffix (q : list (datum T)) bound : exists pre, q = pre ++ ma_trim q bound.
Proof.
  induction q as [|d r IH]; [exists []; reflexivity|]. cbn [ma_trim].
  destruct (d_time d <=? bound); [destruct IH as [pre E]; exists (d :: pre); cbn; f_equal; exact E|exists []; reflexivity].
Qed.
Lemma ma_trim_head_newer (q : list (datum T)) bound d r :
  ma_trim q bound = d :: r -> d_time d > bound.
Proof.
  induction q as [|x xs IH]; cbn [ma_trim]; [discriminate|].
  destruct (Z.leb_spec (d_time x) bound); [exact IH|]. intros [= <- <-]. lia.
Qed.

(* plain (overflow-free) weights *)
Fixpoint weights (q : list (datum T)) (start : Z) : list Z :=
  match q with [] => [] | d :: r => (d_time d - start) :: weights r (d_time d) end.
Definition last_time (q : list (datum T)) (dflt : Z) : Z := fold_left (fun _ d => d_time d) q dflt.
Lemma ma_weights_ok (q : list (datum T)) start ws : ma_weights q start = Ok ws -> ws = weights q start.
Proof.
  revert start ws. induction q as [|d r IH]; intros start ws; cbn [ma_weights weights].
  - intros [= <-]. reflexivity.
  - unfold isub, i64_ck. destruct (in_i64 (d_time d - start)); cbn [bind]; [|discriminate].
    destruct (ma_weights r (d_time d)) as [ws'|] eqn:E; cbn [bind]; [|discriminate].
    intros [= <-]. f_equal. apply IH. exact E.
Qed.
(* the weights telescope: they sum to (time of the newest sample) - start, whatever the order *)
Lemma weights_sum (q : list (datum T)) start :
  fold_right Z.add 0 (weights q start) = last_time q start - start.
Proof.
  revert start. induction q as [|d r IH]; intros start; cbn [weights fold_right last_time fold_left]; [lia|].
  rewrite IH. unfold last_time. lia.
Qed.
Fixpoint nondecr_from (start : Z) (q : list (datum T)) : Prop :=
  match q with [] => True | d :: r => start <= d_time d /\ nondecr_from (d_time d) r end.
Lemma weights_nonneg (q : list (datum T)) start : nondecr_from start q -> Forall (fun w => 0 <= w) (weights q start).
Proof.
  revert start. induction q as [|d r IH]; intros start; cbn [weights nondecr_from]; [constructor|].
  intros [H1 H2]. constructor; [lia|apply IH; exact H2].
Qed.
Lemma last_time_app (q : list (datum T)) o dflt : last_time (q ++ [o]) dflt = d_time o.
Proof. unfold last_time. rewrite fold_left_app. reflexivity. Qed.

(* for a positive window: after pushing sample o the trimmed queue is non-empty, ends with o, and its
   weights sum to exactly the window *)
Theorem ma_weights_sum_window (q : list (datum T)) (o : datum T) w :
  w > 0 ->
  exists q', ma_trim (q ++ [o]) (d_time o - w) = q' ++ [o] /\
             fold_right Z.add 0 (weights (q' ++ [o]) (d_time o - w)) = w.
Proof.
  intros H. destruct (ma_trim_keeps_last q o (d_time o - w)) as [q' E]; [lia|].
  exists q'. split; [exact E|]. rewrite weights_sum, last_time_app. lia.
Qed.
End Ma.
