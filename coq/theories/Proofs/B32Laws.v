(* Laws of the binary32 carrier (B tier).  All lemmas are fully proved. *)
From Coq Require Import ZArith Bool Reals Lia Lra Psatz SpecFloat.
From Flocq Require Import Core.Core IEEE754.Binary IEEE754.Bits.
From Flocq Require Import Relative Plus_error.
(* BinarySingleNaN last, so that unqualified names (Bplus, B2R, ...) are its own. *)
From Flocq Require Import IEEE754.BinarySingleNaN.
From RRTK Require Import Num.Num Num.B32.

Notation B2R := (BinarySingleNaN.B2R (prec:=24) (emax:=128)).
Notation is_finite := (BinarySingleNaN.is_finite (prec:=24) (emax:=128)).
Notation is_nan := (BinarySingleNaN.is_nan (prec:=24) (emax:=128)).
Notation Bleb := (BinarySingleNaN.Bleb (prec:=24) (emax:=128)).
Notation Bltb := (BinarySingleNaN.Bltb (prec:=24) (emax:=128)).
Notation Beqb := (BinarySingleNaN.Beqb (prec:=24) (emax:=128)).
Notation B754_nan := (BinarySingleNaN.B754_nan (prec:=24) (emax:=128)).
Notation B754_zero := (BinarySingleNaN.B754_zero (prec:=24) (emax:=128)).
Notation B754_infinity := (BinarySingleNaN.B754_infinity (prec:=24) (emax:=128)).
Notation B2SF := (BinarySingleNaN.B2SF (prec:=24) (emax:=128)).
Notation Bsign := (BinarySingleNaN.Bsign (prec:=24) (emax:=128)).

Definition E9 : f32 := b32_of_Z 1000000000.
Definition q_of_time (n : Z) : f32 := b32_div (b32_of_Z n) E9.
Definition time_of (v : f32) : Z := b32_to_i64 (b32_mul v E9).

(* ---------------------------------------------------------------- 1 *)

Lemma b32_add_comm : forall x y, b32_add x y = b32_add y x.
Proof.
  intros x y. unfold b32_add.
  destruct x as [sx|sx| |sx mx ex Hx], y as [sy|sy| |sy my ey Hy]; try reflexivity.
  - cbn. destruct sx, sy; reflexivity.
  - cbn. destruct sx, sy; reflexivity.
  - unfold Bplus. rewrite (Z.min_comm ey ex). f_equal.
    unfold Fplus_naive. rewrite Z.add_comm. reflexivity.
Qed.

Lemma b32_mul_comm : forall x y, b32_mul x y = b32_mul y x.
Proof.
  intros x y. apply B2SF_inj. unfold b32_mul.
  destruct x as [sx|sx| |sx mx ex Hx], y as [sy|sy| |sy my ey Hy]; cbn; try reflexivity;
    try (rewrite xorb_comm; reflexivity).
  rewrite !B2SF_SF2B. rewrite xorb_comm, Pos.mul_comm, Z.add_comm. reflexivity.
Qed.

(* ---------------------------------------------------------------- 2 *)

Lemma b32_neg_involutive : forall x, b32_neg (b32_neg x) = x.
Proof. intros x. apply Bopp_involutive. Qed.

Lemma B2SF_Bopp : forall x : f32, B2SF (Bopp x) = SFopp (B2SF x).
Proof. now intros [s|s| |s m e H]. Qed.

Lemma binary_round_aux_NE_opp : forall s m e l,
  binary_round_aux 24 128 mode_NE (negb s) m e l = SFopp (binary_round_aux 24 128 mode_NE s m e l).
Proof.
  intros s m e l. unfold binary_round_aux.
  set (shr := shr_fexp _ _ _ _ _); case shr; intros mrs e''.
  unfold choice_mode.
  set (shr' := shr_fexp _ _ _ _ _); case shr'; intros mrs' e'''.
  unfold binary_fit_aux.
  now case (shr_m mrs') as [|p|p]; [|case Z.leb|].
Qed.

Lemma b32_mul_neg_l : forall x y, b32_mul (b32_neg x) y = b32_neg (b32_mul x y).
Proof.
  intros x y. apply B2SF_inj. unfold b32_mul, b32_neg.
  destruct x as [sx|sx| |sx mx ex Hx], y as [sy|sy| |sy my ey Hy]; cbn; try reflexivity;
    try (destruct sx, sy; reflexivity).
  rewrite B2SF_Bopp, !B2SF_SF2B. rewrite <- binary_round_aux_NE_opp.
  now rewrite negb_xorb_l.
Qed.

Lemma b32_div_neg_l : forall x y, b32_div (b32_neg x) y = b32_neg (b32_div x y).
Proof.
  intros x y. apply B2SF_inj. unfold b32_div, b32_neg.
  destruct x as [sx|sx| |sx mx ex Hx], y as [sy|sy| |sy my ey Hy]; cbn; try reflexivity;
    try (destruct sx, sy; reflexivity).
  rewrite B2SF_Bopp, !B2SF_SF2B.
  destruct (SFdiv_core_binary 24 128 (Z.pos mx) ex (Z.pos my) ey) as [[mz ez] lz].
  rewrite <- binary_round_aux_NE_opp.
  now rewrite negb_xorb_l.
Qed.

Lemma Fplus_naive_opp : forall sx mx ex sy my ey ez,
  Fplus_naive (negb sx) mx ex (negb sy) my ey ez = Z.opp (Fplus_naive sx mx ex sy my ey ez).
Proof.
  intros. unfold Fplus_naive. destruct sx, sy; cbn [negb cond_Zopp]; lia.
Qed.

Lemma binary_normalize_NE_opp : forall m e, m <> 0%Z ->
  B2SF (binary_normalize 24 128 Hprec32 Hmax32 mode_NE (Z.opp m) e false) =
  SFopp (B2SF (binary_normalize 24 128 Hprec32 Hmax32 mode_NE m e false)).
Proof.
  intros m e Hm. destruct m as [|p|p]; [easy| |]; cbn [Z.opp binary_normalize];
  rewrite !B2SF_SF2B; unfold binary_round;
  destruct (shl_align_fexp 24 128 p e) as [mz ez].
  - apply (binary_round_aux_NE_opp false).
  - change true with (negb false). rewrite (binary_round_aux_NE_opp false).
    destruct binary_round_aux; cbn; try reflexivity; now rewrite negb_involutive.
Qed.

Lemma b32_sub_neg : forall x y, b32_sub x y <> B754_zero false ->
  b32_sub (b32_neg x) (b32_neg y) = b32_neg (b32_sub x y).
Proof.
  intros x y H. apply B2SF_inj. revert H. unfold b32_sub, b32_neg.
  destruct x as [sx|sx| |sx mx ex Hx], y as [sy|sy| |sy my ey Hy]; cbn; try reflexivity;
    try (destruct sx, sy; try reflexivity; intros H; now elim H).
  intros H. rewrite B2SF_Bopp. rewrite Fplus_naive_opp.
    apply binary_normalize_NE_opp. intros E. apply H. now rewrite E.
Qed.

(* ---------------------------------------------------------------- 3 *)

Notation rnd32 := (round radix2 (FLT_exp (-149) 24) ZnearestE).

Lemma E9_SF : B2SF E9 = S754_finite false 15625000 6.
Proof. vm_compute. reflexivity. Qed.

Lemma e9_exact : B2R E9 = 1000000000%R /\ is_finite E9 = true.
Proof.
  split.
  - rewrite <- (SF2R_B2SF 24 128), E9_SF. unfold SF2R, F2R. simpl. lra.
  - rewrite <- is_finite_SF_B2SF, E9_SF. reflexivity.
Qed.

Lemma b32_of_Z_correct : forall n, (-2^63 <= n < 2^63)%Z ->
  B2R (b32_of_Z n) = rnd32 (IZR n) /\ is_finite (b32_of_Z n) = true.
Proof.
  intros n Hn. unfold b32_of_Z.
  generalize (binary_normalize_correct 24 128 Hprec32 Hmax32 mode_NE n 0 false).
  cbv zeta.
  replace (F2R (Float radix2 n 0)) with (IZR n) by (unfold F2R; simpl; ring).
  change (round radix2 (fexp 24 128) (round_mode mode_NE)) with rnd32.
  rewrite Rlt_bool_true.
  - intros (H1 & H2 & _). now split.
  - apply Rle_lt_trans with (bpow radix2 63).
    + apply abs_round_le_generic; auto with typeclass_instances.
      * apply generic_format_bpow. vm_compute. discriminate.
      * change (bpow radix2 63) with (IZR (2^63)). rewrite <- abs_IZR. apply IZR_le.
        change (2^63)%Z with 9223372036854775808%Z in *. lia.
    + apply bpow_lt. reflexivity.
Qed.

(* ---------------------------------------------------------------- 4 *)

Lemma rel32 : forall x, (bpow radix2 (-126) <= Rabs x)%R ->
  (Rabs (rnd32 x - x) <= bpow radix2 (-24) * Rabs x)%R.
Proof.
  intros x Hx.
  replace (bpow radix2 (-24)) with (/2 * bpow radix2 (-24 + 1))%R.
  - apply (relative_error_N_FLT radix2 (-149) 24); [reflexivity|exact Hx].
  - change (bpow radix2 (-24 + 1)) with (bpow radix2 (1 + -24)).
    rewrite bpow_plus. change (bpow radix2 1) with 2%R. field.
Qed.

Lemma format32_bpow : forall e, (-149 <= e)%Z ->
  generic_format radix2 (FLT_exp (-149) 24) (bpow radix2 e).
Proof.
  intros e He. apply generic_format_bpow. unfold FLT_exp. lia.
Qed.

Lemma t2q_zero : q_of_time 0 = B754_zero false.
Proof. apply B2SF_inj. vm_compute. reflexivity. Qed.

Lemma bpow_m126_lt_1e9inv : (bpow radix2 (-126) < / 1000000000)%R.
Proof.
  apply Rlt_trans with (bpow radix2 (-30)).
  - apply bpow_lt. reflexivity.
  - change (-30)%Z with (- (30))%Z. rewrite bpow_opp. apply Rinv_lt_contravar.
    + apply Rmult_lt_0_compat; [lra|apply bpow_gt_0].
    + change (bpow radix2 30) with (IZR (2^30)). apply IZR_lt. reflexivity.
Qed.

(* Facts about the first rounding, n as f32. *)
Lemma of_Z_bounds : forall n, (-2^63 <= n < 2^63)%Z -> n <> 0%Z ->
  (1 <= Rabs (rnd32 (IZR n)) <= bpow radix2 63)%R.
Proof.
  intros n Hn Hz.
  assert (H1: (1 <= Rabs (IZR n))%R).
  { rewrite <- abs_IZR. apply IZR_le. lia. }
  assert (H2: (Rabs (IZR n) <= bpow radix2 63)%R).
  { change (bpow radix2 63) with (IZR (2^63)). rewrite <- abs_IZR. apply IZR_le.
    change (2^63)%Z with 9223372036854775808%Z in *. lia. }
  split.
  - apply abs_round_ge_generic; auto with typeclass_instances.
    change 1%R with (bpow radix2 0). apply format32_bpow. lia.
  - apply abs_round_le_generic; auto with typeclass_instances.
    apply format32_bpow. lia.
Qed.

Lemma q_of_time_correct : forall n, (-2^63 <= n < 2^63)%Z ->
  B2R (q_of_time n) = rnd32 (rnd32 (IZR n) / 1000000000) /\ is_finite (q_of_time n) = true.
Proof.
  intros n Hn.
  destruct (b32_of_Z_correct n Hn) as [Rn Fn].
  destruct e9_exact as [R9 F9].
  unfold q_of_time, b32_div.
  assert (N9: B2R E9 <> 0%R) by (rewrite R9; lra).
  generalize (Bdiv_correct 24 128 Hprec32 Hmax32 mode_NE (b32_of_Z n) E9 N9).
  change (round radix2 (fexp 24 128) (round_mode mode_NE)) with rnd32.
  rewrite Rn, R9, Fn.
  rewrite Rlt_bool_true.
  - intros (H1 & H2 & _). now split.
  - apply Rle_lt_trans with (bpow radix2 63); [|apply bpow_lt; reflexivity].
    apply abs_round_le_generic; auto with typeclass_instances.
    + apply format32_bpow. lia.
    + destruct (Z.eq_dec n 0) as [->|Hz].
      * rewrite round_0; auto with typeclass_instances.
        unfold Rdiv. rewrite Rmult_0_l, Rabs_R0. apply bpow_ge_0.
      * destruct (of_Z_bounds n Hn Hz) as [_ Hb].
        unfold Rdiv. rewrite Rabs_mult. rewrite (Rabs_pos_eq (/ 1000000000)) by lra.
        assert (0 <= Rabs (rnd32 (IZR n)))%R by apply Rabs_pos. nra.
Qed.

Lemma t2q_err : forall n, (-2^63 <= n < 2^63)%Z -> n <> 0%Z ->
  (Rabs (B2R (q_of_time n) - IZR n / 1000000000)
     <= (bpow radix2 (-23) + bpow radix2 (-48)) * Rabs (IZR n / 1000000000))%R
  /\ is_finite (q_of_time n) = true.
Proof.
  intros n Hn Hz.
  destruct (q_of_time_correct n Hn) as [Rq Fq]. split; [|exact Fq].
  rewrite Rq.
  destruct (of_Z_bounds n Hn Hz) as [Hb1 Hb2].
  assert (Hx1: (1 <= Rabs (IZR n))%R).
  { rewrite <- abs_IZR. apply IZR_le. lia. }
  assert (E1: (Rabs (rnd32 (IZR n) - IZR n) <= bpow radix2 (-24) * Rabs (IZR n))%R).
  { apply rel32. apply Rle_trans with (2 := Hx1). change 1%R with (bpow radix2 0).
    apply bpow_le. lia. }
  set (x := IZR n) in *. set (r := rnd32 x) in *.
  assert (E2: (Rabs (rnd32 (r / 1000000000) - r / 1000000000)
               <= bpow radix2 (-24) * Rabs (r / 1000000000))%R).
  { apply rel32. unfold Rdiv. rewrite Rabs_mult, (Rabs_pos_eq (/ 1000000000)) by lra.
    generalize bpow_m126_lt_1e9inv. nra. }
  set (q := rnd32 (r / 1000000000)) in *.
  replace (bpow radix2 (-23)) with (2 * bpow radix2 (-24))%R
    by (change (-23)%Z with (1 + -24)%Z; rewrite bpow_plus; reflexivity).
  replace (bpow radix2 (-48)) with (bpow radix2 (-24) * bpow radix2 (-24))%R
    by (rewrite <- bpow_plus; reflexivity).
  assert (Hu: (0 < bpow radix2 (-24))%R) by apply bpow_gt_0.
  set (u := bpow radix2 (-24)) in *.
  unfold Rdiv in *. rewrite Rabs_mult in *. rewrite (Rabs_pos_eq (/ 1000000000)) in * by lra.
  assert (T1: (Rabs r <= Rabs x + u * Rabs x)%R).
  { replace r with ((r - x) + x)%R by ring. eapply Rle_trans; [apply Rabs_triang|]. lra. }
  replace (q - x * / 1000000000)%R with ((q - r * / 1000000000) + (r - x) * / 1000000000)%R by ring.
  eapply Rle_trans; [apply Rabs_triang|].
  rewrite Rabs_mult, (Rabs_pos_eq (/ 1000000000)) by lra.
  assert (0 <= Rabs x)%R by apply Rabs_pos.
  assert (0 <= Rabs r)%R by apply Rabs_pos.
  assert (0 < / 1000000000)%R by lra.
  set (c := (/ 1000000000)%R) in *.
  clearbody c u. clear -E1 E2 T1 H H0 H1 Hu.
  generalize dependent (Rabs (q - r * c)). generalize dependent (Rabs (r - x)).
  generalize dependent (Rabs r). generalize dependent (Rabs x).
  intros X HX R T1 HR B E1 A E2.
  assert (0 <= u * c * (X + u * X - R))%R by (apply Rmult_le_pos; nra).
  assert (0 <= c * (u * X - B))%R by (apply Rmult_le_pos; nra).
  nra.
Qed.

(* ---------------------------------------------------------------- 5 *)

Lemma t2q_monotone : forall n m, (-2^63 <= n)%Z -> (n <= m)%Z -> (m < 2^63)%Z ->
  Bleb (q_of_time n) (q_of_time m) = true.
Proof.
  intros n m H1 H2 H3.
  destruct (q_of_time_correct n) as [Rn Fn]; [lia|].
  destruct (q_of_time_correct m) as [Rm Fm]; [lia|].
  rewrite Bleb_correct by assumption. rewrite Rn, Rm.
  apply Rle_bool_true.
  apply round_le; auto with typeclass_instances.
  unfold Rdiv. apply Rmult_le_compat_r; [lra|].
  apply round_le; auto with typeclass_instances.
  now apply IZR_le.
Qed.

(* ---------------------------------------------------------------- 6 *)

Lemma Ztrunc_bounds : forall y,
  (Rabs (IZR (Ztrunc y) - y) < 1)%R /\ (Rabs (IZR (Ztrunc y)) <= Rabs y)%R.
Proof.
  intros y. destruct (Rle_or_lt 0 y) as [Hy|Hy].
  - rewrite Ztrunc_floor by exact Hy.
    generalize (Zfloor_lb y) (Zfloor_ub y). intros H1 H2.
    assert (0 <= IZR (Zfloor y))%R by (apply IZR_le, Zfloor_lub; exact Hy).
    split; [apply Rabs_def1; lra|].
    rewrite !Rabs_pos_eq by lra. exact H1.
  - rewrite Ztrunc_ceil by lra.
    generalize (Zceil_ub y) (Zceil_lb y). intros H1 H2.
    assert (IZR (Zceil y) <= 0)%R by (apply IZR_le, Zceil_glb; simpl; lra).
    split; [apply Rabs_def1; lra|].
    rewrite !Rabs_left1 by lra. lra.
Qed.

Lemma b32_to_i64_finite : forall x : f32, is_finite x = true ->
  b32_to_i64 x = Z.max i64_min (Z.min i64_max (Ztrunc (B2R x))).
Proof.
  intros x Fx.
  assert (E: Btrunc x = Ztrunc (B2R x)).
  { apply eq_IZR. rewrite Btrunc_correct. apply round_FIX_IZR. exact Hmax32. }
  destruct x; try discriminate; unfold b32_to_i64; now rewrite E.
Qed.

(* the largest binary32 number below 2^63 *)
Definition F63 : R := (IZR (2^24 - 1) * bpow radix2 39)%R.

Lemma F63_format : generic_format radix2 (FLT_exp (-149) 24) F63.
Proof.
  apply generic_format_FLT. exists (Float radix2 (2^24 - 1) 39).
  - reflexivity.
  - simpl. lia.
  - simpl. lia.
Qed.

Lemma F63_val : F63 = 9223371487098961920%R.
Proof. unfold F63. simpl. lra. Qed.

(* one rounding stays within the i64 range when the exact product does *)
Lemma mul_E9_correct_small : forall v, is_finite v = true ->
  (Rabs (B2R v * 1000000000) <= F63)%R ->
  B2R (b32_mul v E9) = rnd32 (B2R v * 1000000000) /\ is_finite (b32_mul v E9) = true /\
  (Rabs (rnd32 (B2R v * 1000000000)) <= F63)%R.
Proof.
  intros v Fv Hp.
  destruct e9_exact as [R9 F9].
  assert (Hr: (Rabs (rnd32 (B2R v * 1000000000)) <= F63)%R).
  { apply abs_round_le_generic; auto with typeclass_instances. apply F63_format. }
  generalize (Bmult_correct 24 128 Hprec32 Hmax32 mode_NE v E9).
  change (round radix2 (fexp 24 128) (round_mode mode_NE)) with rnd32.
  rewrite R9, Fv, F9. rewrite Rlt_bool_true.
  - intros (H1 & H2 & _). unfold b32_mul. now repeat split.
  - apply Rle_lt_trans with (1 := Hr). apply Rlt_trans with (bpow radix2 63).
    + rewrite F63_val. change (bpow radix2 63) with (IZR (2^63)). simpl. lra.
    + apply bpow_lt. reflexivity.
Qed.

Lemma time_of_small : forall v, is_finite v = true ->
  (Rabs (B2R v * 1000000000) <= F63)%R ->
  time_of v = Ztrunc (rnd32 (B2R v * 1000000000)).
Proof.
  intros v Fv Hp.
  destruct (mul_E9_correct_small v Fv Hp) as (Rm & Fm & Hr).
  unfold time_of. rewrite b32_to_i64_finite by exact Fm. rewrite Rm.
  set (y := rnd32 (B2R v * 1000000000)) in *.
  destruct (Ztrunc_bounds y) as [_ Hb].
  assert (Hz: (Z.abs (Ztrunc y) <= 9223371487098961920)%Z).
  { apply le_IZR. rewrite abs_IZR. rewrite <- F63_val. lra. }
  unfold i64_min, i64_max. lia.
Qed.

Lemma q2t_err_gen : forall v, is_finite v = true ->
  (Rabs (B2R v * 1000000000) <= F63)%R ->
  (Rabs (IZR (time_of v) - B2R v * 1000000000)
     <= bpow radix2 (-24) * Rabs (B2R v * 1000000000) + 1)%R.
Proof.
  intros v Fv Hp.
  rewrite time_of_small by assumption.
  set (p := (B2R v * 1000000000)%R) in *.
  destruct (Ztrunc_bounds (rnd32 p)) as [Ht Ha].
  assert (Hu: (0 < bpow radix2 (-24))%R) by apply bpow_gt_0.
  assert (Hp0: (0 <= Rabs p)%R) by apply Rabs_pos.
  destruct (Rle_or_lt (bpow radix2 (-126)) (Rabs p)) as [Hn|Hs].
  - generalize (rel32 p Hn). intros Hr.
    replace (IZR (Ztrunc (rnd32 p)) - p)%R
      with ((IZR (Ztrunc (rnd32 p)) - rnd32 p) + (rnd32 p - p))%R by ring.
    eapply Rle_trans; [apply Rabs_triang|]. lra.
  - (* subnormal product: the rounded value is below 1 in magnitude, truncates to 0 *)
    assert (Hy: (Rabs (rnd32 p) <= bpow radix2 (-126))%R).
    { apply abs_round_le_generic; auto with typeclass_instances.
      apply format32_bpow. lia. lra. }
    assert (H1: (bpow radix2 (-126) < 1)%R).
    { change 1%R with (bpow radix2 0). apply bpow_lt. reflexivity. }
    assert (Hz: Ztrunc (rnd32 p) = 0%Z).
    { assert (Z.abs (Ztrunc (rnd32 p)) < 1)%Z; [|lia].
      apply lt_IZR. rewrite abs_IZR. lra. }
    rewrite Hz. unfold Rminus. rewrite Rplus_0_l, Rabs_Ropp. nra.
Qed.

Lemma q2t_err : forall v, is_finite v = true -> (Rabs (B2R v) < 9000000000)%R ->
  (Rabs (IZR (time_of v) - B2R v * 1000000000)
     <= bpow radix2 (-24) * Rabs (B2R v * 1000000000) + 1)%R.
Proof.
  intros v Fv Hv. apply q2t_err_gen; [exact Fv|].
  rewrite Rabs_mult, (Rabs_pos_eq 1000000000) by lra. rewrite F63_val.
  assert (0 <= Rabs (B2R v))%R by apply Rabs_pos. nra.
Qed.

(* ---------------------------------------------------------------- 7 *)

Lemma roundtrip_err : forall n, (-2^63 <= n < 2^63)%Z -> (Rabs (IZR n) < 9 * 10^18)%R ->
  (Rabs (IZR (time_of (q_of_time n)) - IZR n) <= Rabs (IZR n) * bpow radix2 (-22) + 1)%R.
Proof.
  intros n Hn Hb.
  destruct (Z.eq_dec n 0) as [->|Hz].
  { rewrite t2q_zero. replace (time_of (B754_zero false)) with 0%Z by (vm_compute; reflexivity).
    rewrite Rminus_0_r, Rabs_R0, Rmult_0_l. lra. }
  destruct (t2q_err n Hn Hz) as [Hq Fq].
  set (q := q_of_time n) in *. set (x := IZR n) in *.
  assert (Hx0: (0 <= Rabs x)%R) by apply Rabs_pos.
  assert (Hb': (Rabs x < 9000000000000000000)%R) by (simpl pow in Hb; lra).
  clear Hb.
  replace (bpow radix2 (-23)) with (2 * bpow radix2 (-24))%R in Hq
    by (change (-23)%Z with (1 + -24)%Z; rewrite bpow_plus; reflexivity).
  replace (bpow radix2 (-48)) with (bpow radix2 (-24) * bpow radix2 (-24))%R in Hq
    by (rewrite <- bpow_plus; reflexivity).
  replace (bpow radix2 (-22)) with (4 * bpow radix2 (-24))%R
    by (change (-22)%Z with (2 + -24)%Z; rewrite bpow_plus; reflexivity).
  assert (Hu: (0 < bpow radix2 (-24) <= / 16777216)%R).
  { split; [apply bpow_gt_0|]. change (-24)%Z with (- (24))%Z. rewrite bpow_opp.
    apply Req_le. reflexivity. }
  set (u := bpow radix2 (-24)) in *.
  set (p := (B2R q * 1000000000)%R).
  assert (Hpx: (Rabs (p - x) <= (2 * u + u * u) * Rabs x)%R).
  { replace (p - x)%R with ((B2R q - x / 1000000000) * 1000000000)%R by (unfold p; field).
    rewrite Rabs_mult, (Rabs_pos_eq 1000000000) by lra.
    unfold Rdiv in Hq. rewrite Rabs_mult, (Rabs_pos_eq (/ 1000000000)) in Hq by lra.
    apply Rle_trans with ((2 * u + u * u) * (Rabs x * / 1000000000) * 1000000000)%R.
    - apply Rmult_le_compat_r; [lra|exact Hq].
    - apply Req_le. field. }
  assert (Hpa: (Rabs p <= Rabs x + (2 * u + u * u) * Rabs x)%R).
  { replace p with ((p - x) + x)%R by ring. eapply Rle_trans; [apply Rabs_triang|]. lra. }
  assert (Hpb: (Rabs p <= F63)%R).
  { rewrite F63_val. nra. }
  generalize (q2t_err_gen q Fq Hpb). fold p. fold u. intros Ht.
  replace (IZR (time_of q) - x)%R with ((IZR (time_of q) - p) + (p - x))%R by ring.
  eapply Rle_trans; [apply Rabs_triang|].
  assert (0 <= Rabs p)%R by apply Rabs_pos.
  clearbody u p. clear -Ht Hpx Hpa Hu Hx0 H.
  generalize dependent (Rabs (IZR (time_of q) - p)). generalize dependent (Rabs (p - x)).
  generalize dependent (Rabs p). generalize dependent (Rabs x).
  intros X HX P Hpa HP A Hpx B Ht.
  assert (0 <= u * (X + (2 * u + u * u) * X - P))%R by (apply Rmult_le_pos; nra).
  assert (u * u <= u * / 16777216)%R by nra.
  assert (0 <= X * u * (1 - 3 * u - u * u))%R by (apply Rmult_le_pos; nra).
  nra.
Qed.

(* ---------------------------------------------------------------- 8 *)

Lemma Bleb_finite_pinf : forall a : f32, is_finite a = true ->
  forall z : f32, B2SF z = S754_infinity false -> Bleb a z = true.
Proof.
  intros a Fa z Hz. unfold BinarySingleNaN.Bleb. rewrite Hz.
  destruct a as [s|s| |s m e H]; try discriminate; destruct s; reflexivity.
Qed.

Lemma Bleb_minf_any : forall (z a : f32), is_nan a = false ->
  B2SF z = S754_infinity true -> Bleb z a = true.
Proof.
  intros z a Na Hz. unfold BinarySingleNaN.Bleb. rewrite Hz.
  destruct a as [s|s| |s m e H]; try discriminate; destruct s; reflexivity.
Qed.

Lemma Bsign_true_B2R : forall b : f32, is_finite b = true -> Bsign b = true ->
  (0 <= B2R b)%R -> B2R b = 0%R.
Proof.
  intros [s|s| |s m e H] Fb Sb Hb; try discriminate; try reflexivity.
  simpl in Sb. subst s. exfalso. revert Hb. apply Rlt_not_le.
  simpl. now apply F2R_lt_0.
Qed.

Lemma b32_add_nonneg_ge : forall a b, is_finite a = true -> is_finite b = true ->
  (0 <= B2R b)%R -> Bleb a (b32_add a b) = true.
Proof.
  intros a b Fa Fb Hb. unfold b32_add.
  generalize (Bplus_correct 24 128 Hprec32 Hmax32 mode_NE a b Fa Fb).
  change (round radix2 (fexp 24 128) (round_mode mode_NE)) with rnd32.
  case Rlt_bool_spec; intros Hov.
  - intros (H1 & H2 & _).
    rewrite Bleb_correct by assumption. rewrite H1. apply Rle_bool_true.
    rewrite <- (round_generic radix2 (FLT_exp (-149) 24) ZnearestE (B2R a)) at 1.
    + apply round_le; auto with typeclass_instances. lra.
    + apply (generic_format_B2R 24 128).
  - intros [H1 H2].
    assert (Sa: Bsign a = false).
    { destruct (Bsign a) eqn:Sa; [|reflexivity]. exfalso.
      rewrite (Bsign_true_B2R b Fb (eq_sym H2) Hb), Rplus_0_r in Hov.
      rewrite round_generic in Hov; auto with typeclass_instances.
      + revert Hov. apply Rlt_not_le. apply (abs_B2R_lt_emax 24 128).
      + apply (generic_format_B2R 24 128). }
    rewrite Sa in H1. apply Bleb_finite_pinf; assumption.
Qed.

(* ---------------------------------------------------------------- 9 *)

Lemma Bsign_B2R : forall v : f32, is_finite v = true ->
  if Bsign v then (B2R v <= 0)%R else (0 <= B2R v)%R.
Proof.
  intros [s|s| |s m e H] Fv; try discriminate; simpl.
  - destruct s; lra.
  - destruct s; [apply F2R_le_0|apply F2R_ge_0]; simpl; lia.
Qed.

(* classification of v * 1e9 *)
Lemma mul_E9_cases : forall v, is_finite v = true ->
  let p := (B2R v * 1000000000)%R in
  ((Rabs (rnd32 p) < bpow radix2 128)%R /\
     is_finite (b32_mul v E9) = true /\ B2R (b32_mul v E9) = rnd32 p) \/
  ((bpow radix2 128 <= Rabs (rnd32 p))%R /\
     B2SF (b32_mul v E9) = S754_infinity (Bsign v)).
Proof.
  intros v Fv p. destruct e9_exact as [R9 F9].
  generalize (Bmult_correct 24 128 Hprec32 Hmax32 mode_NE v E9).
  change (round radix2 (fexp 24 128) (round_mode mode_NE)) with rnd32.
  rewrite R9, Fv, F9. fold p.
  case Rlt_bool_spec; intros Hov.
  - intros (H1 & H2 & _). left. unfold b32_mul. now repeat split.
  - intros H. right. split; [exact Hov|]. unfold b32_mul. rewrite H.
    replace (Bsign E9) with false by (vm_compute; reflexivity).
    now rewrite xorb_false_r.
Qed.

Lemma rnd32_sign_le0 : forall p, (p <= 0)%R -> (rnd32 p <= 0)%R.
Proof.
  intros p Hp. apply round_le_generic; auto with typeclass_instances. apply generic_format_0.
Qed.

Lemma rnd32_sign_ge0 : forall p, (0 <= p)%R -> (0 <= rnd32 p)%R.
Proof.
  intros p Hp. apply round_ge_generic; auto with typeclass_instances. apply generic_format_0.
Qed.

Lemma b32_mul_E9_monotone : forall x y, is_finite x = true -> is_finite y = true ->
  Bleb x y = true -> Bleb (b32_mul x E9) (b32_mul y E9) = true.
Proof.
  intros x y Fx Fy Hle.
  rewrite Bleb_correct in Hle by assumption.
  revert Hle; case Rle_bool_spec; [intros Hle _|discriminate].
  assert (Hp: (B2R x * 1000000000 <= B2R y * 1000000000)%R) by lra.
  assert (Hr: (rnd32 (B2R x * 1000000000) <= rnd32 (B2R y * 1000000000))%R)
    by (apply round_le; auto with typeclass_instances).
  assert (H128: (0 < bpow radix2 128)%R) by apply bpow_gt_0.
  generalize (Bsign_B2R x Fx) (Bsign_B2R y Fy). intros Sx Sy.
  destruct (mul_E9_cases x Fx) as [(Ax & Fmx & Rmx)|(Ax & Imx)];
  destruct (mul_E9_cases y Fy) as [(Ay & Fmy & Rmy)|(Ay & Imy)].
  - rewrite Bleb_correct by assumption. rewrite Rmx, Rmy. now apply Rle_bool_true.
  - destruct (Bsign y).
    + exfalso. assert (rnd32 (B2R y * 1000000000) <= 0)%R by (apply rnd32_sign_le0; lra).
      rewrite Rabs_left1 in Ay by assumption.
      apply (Rlt_not_le _ _ Ax). rewrite Rabs_left1 by lra. lra.
    + apply Bleb_finite_pinf; assumption.
  - destruct (Bsign x).
    + apply Bleb_minf_any; [|assumption]. now destruct (b32_mul y E9).
    + exfalso. assert (0 <= rnd32 (B2R x * 1000000000))%R by (apply rnd32_sign_ge0; lra).
      rewrite Rabs_pos_eq in Ax by assumption.
      apply (Rlt_not_le _ _ Ay). rewrite Rabs_pos_eq by lra. lra.
  - destruct (Bsign x).
    + apply Bleb_minf_any; [|assumption].
      rewrite <- is_nan_SF_B2SF, Imy. reflexivity.
    + assert (0 <= rnd32 (B2R x * 1000000000))%R by (apply rnd32_sign_ge0; lra).
      rewrite Rabs_pos_eq in Ax by assumption.
      destruct (Bsign y).
      * exfalso. assert (rnd32 (B2R y * 1000000000) <= 0)%R by (apply rnd32_sign_le0; lra). lra.
      * unfold BinarySingleNaN.Bleb. rewrite Imx, Imy. reflexivity.
Qed.

Lemma b32_to_i64_range : forall x, (i64_min <= b32_to_i64 x <= i64_max)%Z.
Proof.
  intros [s|s| |s m e H]; unfold b32_to_i64, i64_min, i64_max; try destruct s; lia.
Qed.

Lemma b32_to_i64_monotone : forall x y, x <> B754_nan -> y <> B754_nan ->
  Bleb x y = true -> (b32_to_i64 x <= b32_to_i64 y)%Z.
Proof.
  intros x y Nx Ny Hle.
  destruct (is_finite x) eqn:Fx; destruct (is_finite y) eqn:Fy.
  - rewrite Bleb_correct in Hle by assumption.
    revert Hle; case Rle_bool_spec; [intros Hle _|discriminate].
    rewrite !b32_to_i64_finite by assumption.
    apply Ztrunc_le in Hle. lia.
  - destruct y as [s|s| |s m e H]; try discriminate. all: try (now elim Ny).
    destruct s.
    + destruct x as [sx|sx| |sx mx ex Hx]; try discriminate; destruct sx; discriminate.
    + apply (b32_to_i64_range x).
  - destruct x as [s|s| |s m e H]; try discriminate. all: try (now elim Nx).
    destruct s.
    + apply (b32_to_i64_range y).
    + destruct y as [sy|sy| |sy my ey Hy]; try discriminate; destruct sy; discriminate.
  - destruct x as [s|s| |s m e H]; try discriminate. all: try (now elim Nx).
    destruct y as [sy|sy| |sy my ey Hy]; try discriminate. all: try (now elim Ny).
    destruct s, sy; try discriminate; unfold b32_to_i64, i64_min, i64_max; lia.
Qed.

(* ---------------------------------------------------------------- 10 *)

Lemma fabs_nostd_unfold : forall x : f32,
  @fabs_nostd f32 B32 x = if Bleb (B754_zero false) x then x else b32_neg x.
Proof. reflexivity. Qed.

Lemma abs_agree_bits : forall x, x <> B754_nan -> x <> B754_zero true ->
  b32_abs x = @fabs_nostd f32 B32 x.
Proof.
  intros x Hn Hz. rewrite fabs_nostd_unfold.
  destruct x as [s|s| |s m e H]; [| |now elim Hn|]; destruct s; try reflexivity.
  now elim Hz.
Qed.

Lemma abs_agree : forall x, x <> B754_nan ->
  Beqb (b32_abs x) (@fabs_nostd f32 B32 x) = true.
Proof.
  intros x Hn.
  destruct (BinarySingleNaN.is_nan (b32_abs x)) eqn:Na.
  { destruct x; try discriminate. now elim Hn. }
  destruct x as [[|]| | |]; [reflexivity| | | | ].
  all: rewrite <- abs_agree_bits by (assumption || discriminate).
  all: rewrite Beqb_refl, Na; reflexivity.
Qed.

(* ---------------------------------------------------------------- 11 *)

Lemma b32_add_zero_r : forall x, x <> B754_zero true -> x <> B754_nan ->
  b32_add x (B754_zero false) = x.
Proof.
  intros [s|s| |s m e H] Hz Hn; try reflexivity.
  destruct s; [now elim Hz|reflexivity].
Qed.

Lemma b32_mul_zero_finite : forall x, is_finite x = true ->
  Beqb (b32_mul x (B754_zero false)) (B754_zero false) = true.
Proof.
  intros [s|s| |s m e H] Fx; try discriminate; destruct s; reflexivity.
Qed.

Lemma one_SF : B2SF (b32_of_Z 1) = S754_finite false 8388608 (-23).
Proof. vm_compute. reflexivity. Qed.

Lemma one_exact : B2R (b32_of_Z 1) = 1%R /\ is_finite (b32_of_Z 1) = true /\ Bsign (b32_of_Z 1) = false.
Proof.
  split; [|split].
  - rewrite <- (SF2R_B2SF 24 128), one_SF. unfold SF2R, F2R. simpl. lra.
  - rewrite <- is_finite_SF_B2SF, one_SF. reflexivity.
  - vm_compute. reflexivity.
Qed.

(* x * 1.0 = x, bit for bit, for every x including NaN, infinities and signed zeros *)
Lemma b32_mul_one : forall x, b32_mul x (b32_of_Z 1) = x.
Proof.
  intros x. destruct one_exact as (R1 & F1 & S1).
  destruct (is_finite x) eqn:Fx.
  - generalize (Bmult_correct 24 128 Hprec32 Hmax32 mode_NE x (b32_of_Z 1)).
    change (round radix2 (fexp 24 128) (round_mode mode_NE)) with rnd32.
    rewrite R1, F1, S1, Fx, Rmult_1_r, xorb_false_r.
    rewrite round_generic; auto with typeclass_instances.
    2: apply (generic_format_B2R 24 128).
    rewrite Rlt_bool_true by apply (abs_B2R_lt_emax 24 128).
    intros (H1 & H2 & H3). unfold b32_mul.
    apply B2R_Bsign_inj; try assumption.
    apply H3. now destruct (Bmult mode_NE x (b32_of_Z 1)).
  - apply B2SF_inj. generalize one_SF. unfold b32_mul.
    destruct (b32_of_Z 1) as [s1|s1| |s1 m1 e1 H1]; try discriminate.
    intros E. injection E as -> _ _.
    destruct x as [s|s| |s m e H]; try discriminate; simpl; try reflexivity.
    now rewrite xorb_false_r.
Qed.

(* ------------------------------------------------ complements to 2 *)

Lemma Beqb_false_sub_nonzero : forall x y : f32, Beqb x y = false ->
  b32_sub x y <> B754_zero false.
Proof.
  intros x y Hne Hs.
  destruct (is_finite x) eqn:Fx; destruct (is_finite y) eqn:Fy.
  - generalize (Bminus_correct 24 128 Hprec32 Hmax32 mode_NE x y Fx Fy).
    change (round radix2 (fexp 24 128) (round_mode mode_NE)) with rnd32.
    fold (b32_sub x y). rewrite Hs.
    rewrite Beqb_correct in Hne by assumption.
    case Rlt_bool_spec; intros Hov.
    + intros (H1 & _). simpl in H1. symmetry in H1. unfold Rminus in H1.
      apply round_plus_eq_0 in H1; auto with typeclass_instances.
      * rewrite Req_bool_true in Hne by lra. discriminate.
      * apply (generic_format_B2R 24 128).
      * apply generic_format_opp, (generic_format_B2R 24 128).
    + intros [H1 _]. discriminate.
  - destruct x as [sx|sx| |sx mx ex Hx]; try discriminate;
    destruct y as [sy|sy| |sy my ey Hy]; try discriminate.
  - destruct x as [sx|sx| |sx mx ex Hx]; try discriminate;
    destruct y as [sy|sy| |sy my ey Hy]; try discriminate.
  - destruct x as [sx|sx| |sx mx ex Hx]; try discriminate;
    destruct y as [sy|sy| |sy my ey Hy]; try discriminate.
    destruct sx, sy; discriminate.
Qed.

Lemma b32_sub_neg_of_neq : forall x y, Beqb x y = false ->
  b32_sub (b32_neg x) (b32_neg y) = b32_neg (b32_sub x y).
Proof. intros x y H. apply b32_sub_neg. now apply Beqb_false_sub_nonzero. Qed.

(* numerically (IEEE ==) the law holds whenever the difference is not NaN *)
Lemma b32_sub_neg_eqb : forall x y, b32_sub x y <> B754_nan ->
  Beqb (b32_sub (b32_neg x) (b32_neg y)) (b32_neg (b32_sub x y)) = true.
Proof.
  intros x y Hn.
  assert (Nn: is_nan (b32_neg (b32_sub x y)) = false).
  { unfold b32_neg. rewrite is_nan_Bopp. destruct (b32_sub x y); try reflexivity. now elim Hn. }
  destruct (is_finite x) eqn:Fx; destruct (is_finite y) eqn:Fy.
  - (* both finite: compare the real values *)
    assert (Fnx: is_finite (b32_neg x) = true) by (unfold b32_neg; now rewrite is_finite_Bopp).
    assert (Fny: is_finite (b32_neg y) = true) by (unfold b32_neg; now rewrite is_finite_Bopp).
    generalize (Bminus_correct 24 128 Hprec32 Hmax32 mode_NE x y Fx Fy).
    generalize (Bminus_correct 24 128 Hprec32 Hmax32 mode_NE _ _ Fnx Fny).
    change (round radix2 (fexp 24 128) (round_mode mode_NE)) with rnd32.
    fold (b32_sub x y). fold (b32_sub (b32_neg x) (b32_neg y)).
    unfold b32_neg at 1 2 4 5. rewrite !B2R_Bopp.
    replace (- B2R x - - B2R y)%R with (- (B2R x - B2R y))%R by ring.
    rewrite round_NE_opp, Rabs_Ropp.
    case Rlt_bool_spec; intros Hov.
    + intros (H1 & H2 & _) (H3 & H4 & _).
      rewrite Beqb_correct; [|assumption|unfold b32_neg; now rewrite is_finite_Bopp].
      unfold b32_neg at 2. rewrite B2R_Bopp, H1, H3. now apply Req_bool_true.
    + intros (H1 & H2) (H3 & H4). unfold BinarySingleNaN.Beqb.
      unfold b32_neg at 3. rewrite B2SF_Bopp, H1, H3.
      replace (Bsign (b32_neg x)) with (negb (Bsign x)).
      * destruct (Bsign x); reflexivity.
      * unfold b32_neg. symmetry. apply Bsign_Bopp. now destruct x.
  - destruct x as [sx|sx| |sx mx ex Hx]; try discriminate;
    destruct y as [sy|sy| |sy my ey Hy]; try discriminate; try (now elim Hn);
    destruct sy; reflexivity.
  - destruct x as [sx|sx| |sx mx ex Hx]; try discriminate;
    destruct y as [sy|sy| |sy my ey Hy]; try discriminate; try (now elim Hn);
    destruct sx; reflexivity.
  - destruct x as [sx|sx| |sx mx ex Hx]; try discriminate;
    destruct y as [sy|sy| |sy my ey Hy]; try discriminate; try (now elim Hn).
    revert Hn. destruct sx, sy; cbn; intros Hn; try reflexivity; now elim Hn.
Qed.

(* ---------------------------------------------------------------- assumptions *)
Print Assumptions b32_add_comm.
Print Assumptions b32_mul_comm.
Print Assumptions b32_neg_involutive.
Print Assumptions b32_mul_neg_l.
Print Assumptions b32_div_neg_l.
Print Assumptions b32_sub_neg.
Print Assumptions b32_sub_neg_of_neq.
Print Assumptions b32_sub_neg_eqb.
Print Assumptions e9_exact.
Print Assumptions b32_of_Z_correct.
Print Assumptions t2q_err.
Print Assumptions t2q_zero.
Print Assumptions t2q_monotone.
Print Assumptions q2t_err.
Print Assumptions roundtrip_err.
Print Assumptions b32_add_nonneg_ge.
Print Assumptions b32_mul_E9_monotone.
Print Assumptions b32_to_i64_monotone.
Print Assumptions abs_agree.
Print Assumptions abs_agree_bits.
Print Assumptions b32_add_zero_r.
Print Assumptions b32_mul_zero_finite.
Print Assumptions b32_mul_one.
