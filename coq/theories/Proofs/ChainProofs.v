(* C13, remaining parts: the axle relays the newest command to all of its N terminals; a command travels
   along a chain of inverters / gear trains / axles joined by connected terminals, scaled by the folded
   per-device factors; a differential never alters commands (every world, every trust mode).
   Everything is on the generic carrier (any [Num F], no [NumLaws] needed); the product form is on the reals. *)
From Coq Require Import ZArith Bool List Lia Arith.
From RRTK Require Import Num.Num Model.Values Model.World Model.Devices
  Proofs.WorldProofs Proofs.DatumProofs Proofs.DeviceProofs Proofs.RelayProofs.
Import ListNotations.
Local Open Scope Z_scope.

Section Chain.
Context {F : Type} {NF : Num F}.
Notation world := (@world F).
Notation command := (@command F).
Notation state := (@state F).

(* ------------------------------------------------------------------------------------------------ *)
(* slots after a write, with no range hypothesis (a write to a terminal that does not exist is a no-op) *)
Lemma set_state_frame (w : world) i (d : datum state) k :
  slot_c (set_state w i d) k = slot_c w k /\ oth (set_state w i d) k = oth w k.
Proof.
  destruct (Nat.ltb_spec i (length w)) as [Hi|Hi].
  - destruct (get_set_state w i d k Hi) as (_ & A & B). split; assumption.
  - unfold set_state. rewrite wset_out by exact Hi. split; reflexivity.
Qed.
Lemma set_cmd_slots (w : world) i (d : datum command) k :
  slot_c (set_cmd w i d) k = (if Nat.eqb k i && Nat.ltb i (length w) then Some d else slot_c w k) /\
  oth (set_cmd w i d) k = oth w k.
Proof.
  destruct (Nat.ltb_spec i (length w)) as [Hi|Hi].
  - destruct (get_set_cmd w i d k Hi) as (A & _ & B). rewrite andb_true_r. split; assumption.
  - unfold set_cmd. rewrite wset_out by exact Hi. rewrite andb_false_r. split; reflexivity.
Qed.

(* two worlds with the same command slots, links and size: every command read agrees *)
Definition ceq (w w' : world) : Prop :=
  (forall k, slot_c w' k = slot_c w k) /\ (forall k, oth w' k = oth w k) /\ length w' = length w.
Lemma ceq_refl (w : world) : ceq w w.
Proof. repeat split. Qed.
Lemma ceq_trans (a b c0 : world) : ceq a b -> ceq b c0 -> ceq a c0.
Proof.
  intros (A1 & A2 & A3) (B1 & B2 & B3). split; [|split].
  - intros k. rewrite B1. apply A1.
  - intros k. rewrite B2. apply A2.
  - congruence.
Qed.
Lemma ceq_set_state (w : world) i d : ceq w (set_state w i d).
Proof.
  split; [|split].
  - intros k. apply set_state_frame.
  - intros k. apply set_state_frame.
  - apply len_set_state.
Qed.
Lemma ceq_cmd_get (w w' : world) : ceq w w' -> forall i, cmd_get w' i = cmd_get w i.
Proof. intros (A & B & _) i. apply cmd_get_ext; assumption. Qed.
Lemma ceq_fold_set_state (ts : list nat) d : forall w : world, ceq w (fold_left (fun w' i => set_state w' i d) ts w).
Proof.
  induction ts as [|t r IH]; intros w; cbn [fold_left]; [apply ceq_refl|].
  eapply ceq_trans; [apply ceq_set_state|apply IH].
Qed.

(* ------------------------------------------------------------------------------------------------ *)
(* the state halves of the updates *)
Definition gear_states (w : world) (t1 t2 : nat) (r : F) : world :=
  match state_get w t1, state_get w t2 with
  | Some d1, Some d2 =>
      let time := tmax_ge (d_time d1) (d_time d2) in
      let r2p1 := fadd (fmul r r) fone in
      let xpry := s_add (d_val d1) (s_mulf (d_val d2) r) in
      let n1 := s_divf xpry r2p1 in
      let n2 := s_divf (s_mulf xpry r) r2p1 in
      set_state (set_state w t1 (mkDatum time n1)) t2 (mkDatum time n2)
  | Some d1, None => set_state w t2 (dmul_s d1 r)
  | None, Some d2 => set_state w t1 (ddiv_s d2 r)
  | None, None => w
  end.
Lemma gear_update_split (w : world) t1 t2 r : gear_update w t1 t2 r = gear_cmds (gear_states w t1 t2 r) t1 t2 r.
Proof. reflexivity. Qed.
Definition axle_states (w : world) (ts : list nat) : world :=
  let acc := fold_left (fun (a : datum state * Z) i =>
                          match state_get w i with
                          | Some g => (dstate_add (fst a) g, snd a + 1)
                          | None => a end)
                       ts (mkDatum (-9223372036854775808) (snew_raw fzero fzero fzero), 0) in
  if snd acc >=? 1 then
    let d := dstate_divf (fst acc) (f_of_Z (snd acc)) in
    fold_left (fun w' i => set_state w' i d) ts w
  else w.
(* the newest of a list of reads, scanning from the left: a later read replaces the held one only
   when it is STRICTLY newer, so among equally new reads the first in terminal order wins *)
Definition newest_from (m : option (datum command)) (l : list (option (datum command))) : option (datum command) :=
  fold_left (fun m c => fst (replace_if_none_or_older_than_option m c)) l m.
Definition newest_of (l : list (option (datum command))) : option (datum command) := newest_from None l.
Definition axle_cmds (w : world) (ts : list nat) : world :=
  match newest_of (map (cmd_get w) ts) with
  | Some d => fold_left (fun w' i => set_cmd w' i d) ts w
  | None => w
  end.
Lemma fold_map_newest (w : world) ts : forall m,
  fold_left (fun m i => fst (replace_if_none_or_older_than_option m (cmd_get w i))) ts m = newest_from m (map (cmd_get w) ts).
Proof. induction ts as [|t r IH]; intros m; cbn [fold_left map newest_from]; [reflexivity|]. apply IH. Qed.
Lemma axle_update_split (w : world) ts : axle_update w ts = axle_cmds (axle_states w ts) ts.
Proof. unfold axle_update, axle_cmds, newest_of. rewrite fold_map_newest. reflexivity. Qed.

Lemma ceq_invert_states (w : world) t1 t2 : ceq w (invert_states w t1 t2).
Proof.
  unfold invert_states. destruct (state_get w t1) as [d1|], (state_get w t2) as [d2|];
    try apply ceq_refl; try apply ceq_set_state.
  eapply ceq_trans; apply ceq_set_state.
Qed.
Lemma ceq_gear_states (w : world) t1 t2 r : ceq w (gear_states w t1 t2 r).
Proof.
  unfold gear_states. destruct (state_get w t1) as [d1|], (state_get w t2) as [d2|];
    try apply ceq_refl; try apply ceq_set_state.
  eapply ceq_trans; apply ceq_set_state.
Qed.
Lemma ceq_axle_states (w : world) ts : ceq w (axle_states w ts).
Proof.
  unfold axle_states. destruct (_ >=? 1); [apply ceq_fold_set_state|apply ceq_refl].
Qed.

(* ------------------------------------------------------------------------------------------------ *)
(* 1. the axle *)
(* specification of the scan: the result is a read that no read is newer than, and it is the FIRST
   such read in terminal order (everything before it is strictly older); absent iff every read is absent *)
Lemma newest_from_spec : forall (l : list (option (datum command))) (m : option (datum command)),
  match newest_from m l with
  | Some d => (forall a, m = Some a -> d_time a <= d_time d) /\
              (forall a, In (Some a) l -> d_time a <= d_time d) /\
              (m = Some d \/
               exists l1 l2, l = l1 ++ Some d :: l2 /\ (forall a, m = Some a -> d_time a < d_time d) /\
                             (forall a, In (Some a) l1 -> d_time a < d_time d))
  | None => m = None /\ forall c, In c l -> c = None
  end.
Proof.
  induction l as [|c r IH]; intros m.
  - cbn [newest_from fold_left]. destruct m as [d|].
    + split; [intros a [= <-]; lia|]. split; [intros a []|]. left; reflexivity.
    + split; [reflexivity|intros c []].
  - change (newest_from m (c :: r)) with (newest_from (fst (replace_if_none_or_older_than_option m c)) r).
    destruct c as [x|]; cbn [replace_if_none_or_older_than_option].
    + destruct m as [s|]; cbn [replace_if_none_or_older_than].
      * destruct (Z.geb_spec (d_time s) (d_time x)) as [Hge|Hlt]; cbn [fst].
        -- specialize (IH (Some s)). destruct (newest_from (Some s) r) as [d|].
           ++ destruct IH as (B1 & B2 & B3). pose proof (B1 s eq_refl) as Bs.
              split; [exact B1|]. split.
              ** intros a [[= <-]|Ha]; [lia|apply B2; exact Ha].
              ** destruct B3 as [E|(l1 & l2 & E & M & L)]; [left; exact E|right].
                 exists (Some x :: l1), l2. split; [rewrite E; reflexivity|]. split; [exact M|].
                 pose proof (M s eq_refl) as Ms. intros a [[= <-]|Ha]; [lia|apply L; exact Ha].
           ++ destruct IH as [IH _]. discriminate.
        -- specialize (IH (Some x)). destruct (newest_from (Some x) r) as [d|].
           ++ destruct IH as (B1 & B2 & B3). pose proof (B1 x eq_refl) as Bx.
              split; [intros a [= <-]; lia|]. split.
              ** intros a [[= <-]|Ha]; [lia|apply B2; exact Ha].
              ** right. destruct B3 as [[= <-]|(l1 & l2 & E & M & L)].
                 --- exists [], r. split; [reflexivity|]. split; [intros a [= <-]; lia|intros a []].
                 --- pose proof (M x eq_refl) as Mx.
                     exists (Some x :: l1), l2. split; [rewrite E; reflexivity|]. split; [intros a [= <-]; lia|].
                     intros a [[= <-]|Ha]; [lia|apply L; exact Ha].
           ++ destruct IH as [IH _]. discriminate.
      * cbn [fst]. specialize (IH (Some x)). destruct (newest_from (Some x) r) as [d|].
        -- destruct IH as (B1 & B2 & B3). pose proof (B1 x eq_refl) as Bx.
           split; [discriminate|]. split.
           ++ intros a [[= <-]|Ha]; [lia|apply B2; exact Ha].
           ++ right. destruct B3 as [[= <-]|(l1 & l2 & E & M & L)].
              ** exists [], r. split; [reflexivity|]. split; [discriminate|intros a []].
              ** pose proof (M x eq_refl) as Mx.
                 exists (Some x :: l1), l2. split; [rewrite E; reflexivity|]. split; [discriminate|].
                 intros a [[= <-]|Ha]; [lia|apply L; exact Ha].
        -- destruct IH as [IH _]. discriminate.
    + cbn [fst]. specialize (IH m). destruct (newest_from m r) as [d|].
      * destruct IH as (B1 & B2 & B3). split; [exact B1|]. split.
        -- intros a [Ha|Ha]; [discriminate|apply B2; exact Ha].
        -- destruct B3 as [E|(l1 & l2 & E & M & L)]; [left; exact E|right].
           exists (None :: l1), l2. split; [rewrite E; reflexivity|]. split; [exact M|].
           intros a [Ha|Ha]; [discriminate|apply L; exact Ha].
      * destruct IH as [E N]. split; [exact E|]. intros c [<-|Hc]; [reflexivity|apply N; exact Hc].
Qed.
Theorem newest_of_spec (l : list (option (datum command))) :
  match newest_of l with
  | Some d => (forall a, In (Some a) l -> d_time a <= d_time d) /\
              exists l1 l2, l = l1 ++ Some d :: l2 /\ (forall a, In (Some a) l1 -> d_time a < d_time d)
  | None => forall c, In c l -> c = None
  end.
Proof.
  unfold newest_of. pose proof (newest_from_spec l None) as H. destruct (newest_from None l) as [d|].
  - destruct H as (_ & B2 & [E|(l1 & l2 & E & _ & L)]); [discriminate|].
    split; [exact B2|]. exists l1, l2. split; assumption.
  - apply H.
Qed.
Corollary newest_of_none_iff (l : list (option (datum command))) :
  newest_of l = None <-> forall c, In c l -> c = None.
Proof.
  pose proof (newest_of_spec l) as H. split.
  - intros E. rewrite E in H. exact H.
  - intros N. destruct (newest_of l) as [d|]; [|reflexivity].
    destruct H as (_ & l1 & l2 & E & _). specialize (N (Some d)). rewrite E in N.
    assert (X : Some d = None) by (apply N; apply in_or_app; right; left; reflexivity). discriminate.
Qed.

(* writing one command to every terminal of a list *)
Lemma fold_set_cmd_slots (d : datum command) (ts : list nat) : forall (w : world) k,
  slot_c (fold_left (fun w' i => set_cmd w' i d) ts w) k
    = (if existsb (Nat.eqb k) ts && Nat.ltb k (length w) then Some d else slot_c w k) /\
  oth (fold_left (fun w' i => set_cmd w' i d) ts w) k = oth w k /\
  length (fold_left (fun w' i => set_cmd w' i d) ts w) = length w.
Proof.
  induction ts as [|t r IH]; intros w k; cbn [fold_left existsb].
  - cbn [andb]. repeat split.
  - destruct (IH (set_cmd w t d) k) as (A & B & C0). rewrite A, B, C0, len_set_cmd.
    destruct (set_cmd_slots w t d k) as (S1 & S2). rewrite S1, S2.
    split; [|split; reflexivity].
    destruct (Nat.eqb_spec k t) as [->|Hn]; cbn [orb andb].
    + destruct (Nat.ltb t (length w)); [|rewrite andb_false_r]; cbn [andb]; [|reflexivity].
      destruct (existsb (Nat.eqb t) r); reflexivity.
    + reflexivity.
Qed.
Lemma existsb_eqb_In k (ts : list nat) : existsb (Nat.eqb k) ts = true <-> In k ts.
Proof.
  rewrite existsb_exists. split.
  - intros (x & Hx & E). apply Nat.eqb_eq in E. subst x. exact Hx.
  - intros H. exists k. split; [exact H|apply Nat.eqb_refl].
Qed.

(* reads dominate the two slots they are taken from *)
Lemma own_le_read (w : world) i a :
  slot_c w i = Some a -> exists c, cmd_get w i = Some c /\ d_time a <= d_time c.
Proof.
  intros Ha. destruct (cmd_get w i) as [c|] eqn:E.
  - exists c. split; [reflexivity|]. apply (proj1 (cmd_get_bounds w i c E)). exact Ha.
  - exfalso. unfold cmd_get in E. fold (slot_c w i) in E. rewrite Ha in E.
    destruct (partner_cmd w i) as [p|]; [destruct (d_time p >? d_time a)|]; discriminate.
Qed.
Lemma partner_le_read (w : world) i p :
  partner_cmd w i = Some p -> exists c, cmd_get w i = Some c /\ d_time p <= d_time c.
Proof.
  intros Hp. destruct (cmd_get w i) as [c|] eqn:E.
  - exists c. split; [reflexivity|]. apply (proj2 (cmd_get_bounds w i c E)). exact Hp.
  - exfalso. unfold cmd_get in E. rewrite Hp in E.
    destruct (t_cmd (wget w i)) as [a|]; [destruct (d_time p >? d_time a)|]; discriminate.
Qed.
Lemma partner_cmd_slot (w : world) i j : oth w i = Some j -> partner_cmd w i = slot_c w j.
Proof. unfold partner_cmd, oth, slot_c. intros ->. reflexivity. Qed.
Lemma partner_cmd_none (w : world) i : oth w i = None -> partner_cmd w i = None.
Proof. unfold partner_cmd, oth. intros ->. reflexivity. Qed.

(* the command half of the axle update, on any world *)
Lemma axle_cmds_effect (w : world) (ts : list nat) :
  (forall i, In i ts -> (i < length w)%nat) ->
  let w' := axle_cmds w ts in
  (forall k, oth w' k = oth w k) /\ length w' = length w /\
  (forall k, ~ In k ts -> slot_c w' k = slot_c w k) /\
  match newest_of (map (cmd_get w) ts) with
  | Some d => forall i, In i ts -> slot_c w' i = Some d /\ cmd_get w' i = Some d
  | None => w' = w
  end.
Proof.
  intros Hr w'. unfold w', axle_cmds. pose proof (newest_of_spec (map (cmd_get w) ts)) as HS.
  destruct (newest_of (map (cmd_get w) ts)) as [d|]; [|repeat split].
  destruct HS as (HB & _).
  set (w2 := fold_left (fun w' i => set_cmd w' i d) ts w).
  assert (SL : forall k, slot_c w2 k = if existsb (Nat.eqb k) ts && Nat.ltb k (length w) then Some d else slot_c w k)
    by (intros k; apply fold_set_cmd_slots).
  assert (OT : forall k, oth w2 k = oth w k) by (intros k; apply (fold_set_cmd_slots d ts w k)).
  assert (IN : forall i, In i ts -> slot_c w2 i = Some d).
  { intros i Hi. rewrite SL. apply existsb_eqb_In in Hi as Hi'. rewrite Hi'.
    apply Hr, Nat.ltb_lt in Hi. rewrite Hi. reflexivity. }
  split; [exact OT|]. split; [apply (fold_set_cmd_slots d ts w 0%nat)|]. split.
  - intros k Hk. rewrite SL. destruct (existsb (Nat.eqb k) ts) eqn:E; [|reflexivity].
    apply existsb_eqb_In in E. contradiction.
  - intros i Hi. split; [apply IN; exact Hi|].
    apply cmd_get_own_wins; [apply IN; exact Hi|]. intros p Hp.
    destruct (oth w2 i) as [j|] eqn:Ej; [|rewrite (partner_cmd_none w2 i Ej) in Hp; discriminate].
    rewrite (partner_cmd_slot w2 i j Ej), SL in Hp.
    destruct (existsb (Nat.eqb j) ts && Nat.ltb j (length w)); [injection Hp as <-; lia|].
    rewrite OT in Ej. rewrite <- (partner_cmd_slot w i j Ej) in Hp.
    destruct (partner_le_read w i p Hp) as (c0 & Ec & Hle).
    assert (Hc : d_time c0 <= d_time d) by (apply HB; rewrite <- Ec; apply in_map; exact Hi). lia.
Qed.

(* THEOREM 1 (axle relay, any number of terminals).  After [axle_update] the command read at EVERY
   terminal of the axle is [newest_of] the commands that were readable at its terminals before the
   update (in terminal order), unchanged; when no terminal had a readable command none has one
   afterwards and no command anywhere changes.  Terminals outside the axle keep their slots; links
   and the size of the world are unchanged.  No distinctness of the terminals is needed. *)
Theorem axle_relay (w : world) (ts : list nat) :
  (forall i, In i ts -> (i < length w)%nat) ->
  let w' := axle_update w ts in
  (forall k, oth w' k = oth w k) /\ length w' = length w /\
  (forall k, ~ In k ts -> slot_c w' k = slot_c w k) /\
  match newest_of (map (cmd_get w) ts) with
  | Some d => forall i, In i ts -> slot_c w' i = Some d /\ cmd_get w' i = Some d
  | None => (forall k, cmd_get w' k = cmd_get w k) /\ (forall i, In i ts -> cmd_get w' i = None)
  end.
Proof.
  intros Hr w'. unfold w'. rewrite axle_update_split.
  pose proof (ceq_axle_states w ts) as CE. set (w1 := axle_states w ts) in *.
  destruct CE as (C1 & C2 & C3).
  assert (Hr1 : forall i, In i ts -> (i < length w1)%nat) by (intros i Hi; rewrite C3; apply Hr; exact Hi).
  destruct (axle_cmds_effect w1 ts Hr1) as (A & B & C0 & D).
  assert (RE : map (cmd_get w1) ts = map (cmd_get w) ts).
  { apply map_ext. intros i. apply cmd_get_ext; assumption. }
  rewrite RE in D.
  split; [intros k; rewrite A; apply C2|]. split; [rewrite B; exact C3|]. split.
  - intros k Hk. rewrite C0 by exact Hk. apply C1.
  - pose proof (newest_of_spec (map (cmd_get w) ts)) as HS.
    destruct (newest_of (map (cmd_get w) ts)) as [d|]; [exact D|]. rewrite D.
    assert (G : forall k, cmd_get w1 k = cmd_get w k) by (intros k; apply cmd_get_ext; assumption).
    split; [exact G|]. intros i Hi. rewrite G. apply HS. apply in_map. exact Hi.
Qed.
(* what [newest_of] is: see [newest_of_spec] (a read of maximal time stamp, the first such in terminal
   order) and [newest_of_none_iff] (absent iff every read is absent) *)

(* ------------------------------------------------------------------------------------------------ *)
(* 2. chains *)
Inductive dev := DInv (t1 t2 : nat) | DGear (t1 t2 : nat) (r : F) | DAxle (ts : list nat).
Definition dev_update (w : world) (dv : dev) : world :=
  match dv with
  | DInv t1 t2 => invert_update w t1 t2
  | DGear t1 t2 r => gear_update w t1 t2 r
  | DAxle ts => axle_update w ts
  end.
Definition dev_terms (dv : dev) : list nat :=
  match dv with DInv t1 t2 => [t1; t2] | DGear t1 t2 _ => [t1; t2] | DAxle ts => ts end.
(* a device traversed from terminal [l_in] to terminal [l_out] *)
Record link := { l_dev : dev; l_in : nat; l_out : nat }.
Definition lterms (l : link) : list nat := dev_terms (l_dev l).
Definition link_valid (w : world) (l : link) : Prop :=
  (forall x, In x (lterms l) -> (x < length w)%nat) /\ l_in l <> l_out l /\
  match l_dev l with
  | DInv t1 t2 | DGear t1 t2 _ => (l_in l = t1 /\ l_out l = t2) \/ (l_in l = t2 /\ l_out l = t1)
  | DAxle ts => In (l_in l) ts /\ In (l_out l) ts
  end.
(* what the traversal does to a command: negation across an inverter (either way), times the ratio
   from side 1 to side 2 of a gear train and divided by it from side 2 to side 1, nothing across an axle *)
Definition link_map (l : link) (d : datum command) : datum command :=
  match l_dev l with
  | DInv _ _ => dneg_c d
  | DGear t1 _ r => if Nat.eqb (l_in l) t1 then dmul_c d r else ddiv_c d r
  | DAxle _ => d
  end.
Definition link_scale (l : link) (v : F) : F :=
  match l_dev l with
  | DInv _ _ => fneg v
  | DGear t1 _ r => if Nat.eqb (l_in l) t1 then fmul v r else fdiv v r
  | DAxle _ => v
  end.
Lemma link_map_shape (l : link) (d : datum command) :
  d_time (link_map l d) = d_time d /\ c_kind (d_val (link_map l d)) = c_kind (d_val d) /\
  c_val (d_val (link_map l d)) = link_scale l (c_val (d_val d)).
Proof.
  unfold link_map, link_scale. destruct (l_dev l) as [t1 t2|t1 t2 r|ts]; [| |repeat split].
  - repeat split.
  - destruct (Nat.eqb (l_in l) t1); repeat split.
Qed.

Lemma cmd_get_partner_wins (w : world) i d :
  (forall a, slot_c w i = Some a -> d_time a < d_time d) -> partner_cmd w i = Some d -> cmd_get w i = Some d.
Proof.
  unfold cmd_get, slot_c. intros H ->. destruct (t_cmd (wget w i)) as [a|]; [|reflexivity].
  specialize (H a eq_refl). destruct (Z.gtb_spec (d_time d) (d_time a)); [reflexivity|lia].
Qed.
Lemma cmd_get_frame (w w' : world) x :
  slot_c w' x = slot_c w x -> oth w' x = oth w x -> (forall y, oth w x = Some y -> slot_c w' y = slot_c w y) ->
  cmd_get w' x = cmd_get w x.
Proof.
  intros A B C0. unfold cmd_get, partner_cmd. fold (slot_c w' x) (slot_c w x) (oth w' x) (oth w x).
  rewrite A, B. destruct (oth w x) as [y|]; [|reflexivity].
  fold (slot_c w' y) (slot_c w y). rewrite (C0 y eq_refl). reflexivity.
Qed.
Lemma newest2_first (d : datum command) (c2 : option (datum command)) :
  (forall b, c2 = Some b -> d_time b <= d_time d) -> newest2 (Some d) c2 = Some d.
Proof.
  intros H. destruct c2 as [b|]; cbn [newest2]; [|reflexivity].
  specialize (H b eq_refl). destruct (Z.gtb_spec (d_time b) (d_time d)); [lia|reflexivity].
Qed.
Lemma newest2_second (d : datum command) (c1 : option (datum command)) :
  (forall a, c1 = Some a -> d_time a < d_time d) -> newest2 c1 (Some d) = Some d.
Proof.
  intros H. destruct c1 as [a|]; cbn [newest2]; [|reflexivity].
  specialize (H a eq_refl). destruct (Z.gtb_spec (d_time d) (d_time a)); [reflexivity|lia].
Qed.

(* one device: a command read at the entry terminal that is strictly newer than every command
   readable at the device's other terminals is written, mapped, into the exit terminal's slot *)
Lemma link_step (w : world) (l : link) (d : datum command) :
  link_valid w l -> cmd_get w (l_in l) = Some d ->
  (forall x, In x (lterms l) -> x <> l_in l -> forall a, cmd_get w x = Some a -> d_time a < d_time d) ->
  let w' := dev_update w (l_dev l) in
  (forall k, oth w' k = oth w k) /\ length w' = length w /\
  (forall k, ~ In k (lterms l) -> slot_c w' k = slot_c w k) /\
  slot_c w' (l_out l) = Some (link_map l d) /\
  (forall k a, slot_c w' k = Some a -> slot_c w k = Some a \/ d_time a = d_time d).
Proof.
  intros (HR & Hio & HV) Hin Hold w'. unfold w', lterms, link_map in *.
  destruct (l_dev l) as [t1 t2|t1 t2 r|ts]; cbn [dev_update dev_terms] in *.
  - (* inverter *)
    rewrite invert_update_split. pose proof (ceq_invert_states w t1 t2) as (C1 & C2 & C3).
    set (w1 := invert_states w t1 t2) in *.
    assert (G : forall k, cmd_get w1 k = cmd_get w k) by (intros k; apply cmd_get_ext; assumption).
    assert (Hne : t1 <> t2) by (destruct HV as [[A B]|[A B]]; congruence).
    assert (H1 : (t1 < length w1)%nat) by (rewrite C3; apply HR; left; reflexivity).
    assert (H2 : (t2 < length w1)%nat) by (rewrite C3; apply HR; right; left; reflexivity).
    destruct (invert_cmd_effect w1 t1 t2 Hne H1 H2) as (E1 & E2 & E3). rewrite !G in E3.
    assert (LEN : length (invert_cmds w1 t1 t2) = length w1).
    { unfold invert_cmds. destruct (match cmd_get w1 t2 with Some x => _ | None => _ end); [|reflexivity].
      rewrite !len_set_cmd. reflexivity. }
    assert (X : exists dc, newest2 (cmd_get w t1) (option_map dneg_c (cmd_get w t2)) = Some dc /\ d_time dc = d_time d /\
                           (if Nat.eqb (l_in l) t1 then dc = d else dc = dneg_c d)).
    { destruct HV as [[A B]|[A B]].
      - rewrite A in *. rewrite Nat.eqb_refl. exists d. rewrite Hin. split; [|split; reflexivity].
        apply newest2_first. intros b Hb. destruct (cmd_get w t2) as [c2|] eqn:E; [|discriminate].
        injection Hb as <-. cbn [dneg_c d_time].
        assert (d_time c2 < d_time d) by (apply (Hold t2); [right; left; reflexivity|congruence|exact E]). lia.
      - rewrite A in *. destruct (Nat.eqb_spec t2 t1) as [Heq|_]; [congruence|]. exists (dneg_c d).
        rewrite Hin. cbn [option_map]. split; [|split; reflexivity].
        apply newest2_second. intros a Ha. cbn [dneg_c d_time].
        apply (Hold t1); [left; reflexivity|congruence|exact Ha]. }
    destruct X as (dc & EN & ET & ED). rewrite EN in E3. destruct E3 as (S1 & S2).
    split; [intros k; rewrite (proj2 (E1 k)); apply C2|]. split; [rewrite LEN; exact C3|]. split; [|split].
    + intros k Hk. rewrite E2; [apply C1| |]; intros ->; apply Hk; [left|right; left]; reflexivity.
    + destruct HV as [[A B]|[A B]]; rewrite A in ED; rewrite B.
      * rewrite Nat.eqb_refl in ED. subst dc. exact S2.
      * destruct (Nat.eqb_spec t2 t1) as [Heq|_]; [congruence|]. subst dc. exact S1.
    + intros k a Ha. destruct (Nat.eq_dec k t1) as [->|K1]; [rewrite S1 in Ha; injection Ha as <-; right; exact ET|].
      destruct (Nat.eq_dec k t2) as [->|K2]; [rewrite S2 in Ha; injection Ha as <-; right; exact ET|].
      rewrite E2, C1 in Ha by assumption. left; exact Ha.
  - (* gear train *)
    rewrite gear_update_split. pose proof (ceq_gear_states w t1 t2 r) as (C1 & C2 & C3).
    set (w1 := gear_states w t1 t2 r) in *.
    assert (G : forall k, cmd_get w1 k = cmd_get w k) by (intros k; apply cmd_get_ext; assumption).
    assert (Hne : t1 <> t2) by (destruct HV as [[A B]|[A B]]; congruence).
    assert (H1 : (t1 < length w1)%nat) by (rewrite C3; apply HR; left; reflexivity).
    assert (H2 : (t2 < length w1)%nat) by (rewrite C3; apply HR; right; left; reflexivity).
    destruct (gear_cmd_effect w1 t1 t2 r Hne H1 H2) as (E1 & E3). rewrite !G in E3.
    assert (LEN : length (gear_cmds w1 t1 t2 r) = length w1).
    { unfold gear_cmds. destruct (cmd_get w1 t1), (cmd_get w1 t2); try destruct (_ >=? _); try apply len_set_cmd; reflexivity. }
    split; [intros k; rewrite (proj2 (E1 k)); apply C2|]. split; [rewrite LEN; exact C3|].
    destruct HV as [[A B]|[A B]]; rewrite A in *; rewrite B in *.
    + (* side 1 to side 2 *)
      rewrite Nat.eqb_refl. rewrite Hin in E3.
      assert (S2 : slot_c (gear_cmds w1 t1 t2 r) t2 = Some (dmul_c d r) /\
                   (forall k, k <> t2 -> slot_c (gear_cmds w1 t1 t2 r) k = slot_c w1 k)).
      { destruct (cmd_get w t2) as [c2|] eqn:E; [|exact E3].
        assert (d_time c2 < d_time d) by (apply (Hold t2); [right; left; reflexivity|congruence|exact E]).
        destruct (Z.geb_spec (d_time d) (d_time c2)); [exact E3|lia]. }
      destruct S2 as (S2 & S3). split; [|split; [exact S2|]].
      * intros k Hk. rewrite S3, C1; [reflexivity|]. intros ->. apply Hk. right; left; reflexivity.
      * intros k a Ha. destruct (Nat.eq_dec k t2) as [->|K2]; [rewrite S2 in Ha; injection Ha as <-; right; reflexivity|].
        rewrite S3, C1 in Ha by assumption. left; exact Ha.
    + (* side 2 to side 1 *)
      destruct (Nat.eqb_spec t2 t1) as [Heq|_]; [congruence|]. rewrite Hin in E3.
      assert (S2 : slot_c (gear_cmds w1 t1 t2 r) t1 = Some (ddiv_c d r) /\
                   (forall k, k <> t1 -> slot_c (gear_cmds w1 t1 t2 r) k = slot_c w1 k)).
      { destruct (cmd_get w t1) as [c1|] eqn:E; [|exact E3].
        assert (d_time c1 < d_time d) by (apply (Hold t1); [left; reflexivity|congruence|exact E]).
        destruct (Z.geb_spec (d_time c1) (d_time d)); [lia|exact E3]. }
      destruct S2 as (S2 & S3). split; [|split; [exact S2|]].
      * intros k Hk. rewrite S3, C1; [reflexivity|]. intros ->. apply Hk. left; reflexivity.
      * intros k a Ha. destruct (Nat.eq_dec k t1) as [->|K1]; [rewrite S2 in Ha; injection Ha as <-; right; reflexivity|].
        rewrite S3, C1 in Ha by assumption. left; exact Ha.
  - (* axle *)
    destruct HV as (Ii & Io).
    destruct (axle_relay w ts HR) as (A & B & C0 & D). split; [exact A|]. split; [exact B|]. split; [exact C0|].
    pose proof (newest_of_spec (map (cmd_get w) ts)) as HS.
    assert (EN : newest_of (map (cmd_get w) ts) = Some d).
    { destruct (newest_of (map (cmd_get w) ts)) as [d'|].
      - destruct HS as (HB & l1 & l2 & E & _).
        assert (Hd' : In (Some d') (map (cmd_get w) ts)) by (rewrite E; apply in_or_app; right; left; reflexivity).
        apply in_map_iff in Hd'. destruct Hd' as (i & Ei & Hi).
        destruct (Nat.eq_dec i (l_in l)) as [->|Hn]; [congruence|].
        assert (d_time d' < d_time d) by (apply (Hold i Hi Hn); exact Ei).
        assert (d_time d <= d_time d') by (apply HB; rewrite <- Hin; apply in_map; exact Ii). lia.
      - assert (X : cmd_get w (l_in l) = None) by (apply HS; apply in_map; exact Ii). congruence. }
    rewrite EN in D. split; [apply D; exact Io|].
    intros k a Ha. destruct (in_dec Nat.eq_dec k ts) as [Hk|Hk].
    + rewrite (proj1 (D k Hk)) in Ha. injection Ha as <-. right; reflexivity.
    + rewrite C0 in Ha by exact Hk. left; exact Ha.
Qed.

(* the chain: the devices are updated in order *)
Definition run_chain (w : world) (ch : list link) : world := fold_left (fun w l => dev_update w (l_dev l)) ch w.
Definition chain_cmd (ch : list link) (d : datum command) : datum command := fold_left (fun d l => link_map l d) ch d.
Definition chain_scale (ch : list link) (v : F) : F := fold_left (fun v l => link_scale l v) ch v.
(* hypotheses on the INITIAL world, for a command stamped T entering at the first link:
   - every link is a device of the world traversed between two different terminals of it;
   - every command readable at a terminal of a chain device other than that device's entry is STRICTLY older than T;
   - the exit terminal of each link is connected to the entry terminal of the next;
   - the devices share no terminal, and apart from these joints no terminal of a device is connected to a
     terminal of a later device of the chain (no second path by which the command could arrive). *)
Fixpoint chain_ok (w : world) (T : Z) (ch : list link) : Prop :=
  match ch with
  | [] => True
  | l :: rest =>
      link_valid w l /\
      (forall x, In x (lterms l) -> x <> l_in l -> forall a, cmd_get w x = Some a -> d_time a < T) /\
      match rest with [] => True | l2 :: _ => oth w (l_out l) = Some (l_in l2) end /\
      (forall x, In x (lterms l) -> ~ In x (flat_map lterms rest)) /\
      (forall x y, In x (lterms l) -> x <> l_out l -> oth w x = Some y -> ~ In y (flat_map lterms rest)) /\
      chain_ok w T rest
  end.

Lemma link_valid_len (w w' : world) l : length w' = length w -> link_valid w l -> link_valid w' l.
Proof. intros E (A & B). split; [rewrite E; exact A|exact B]. Qed.
Lemma chain_ok_transfer (w w' : world) T :
  (forall k, oth w' k = oth w k) -> length w' = length w ->
  forall ch, (forall x, In x (flat_map lterms ch) -> cmd_get w' x = cmd_get w x) -> chain_ok w T ch -> chain_ok w' T ch.
Proof.
  intros HO HL. induction ch as [|l rest IH]; intros HG HC; [exact I|].
  cbn [chain_ok flat_map] in *. destruct HC as (V & O & J & D1 & D2 & R).
  split; [eapply link_valid_len; eassumption|]. split; [|split; [|split; [|split]]].
  - intros x Hx Hn a Ha. rewrite HG in Ha by (apply in_or_app; left; exact Hx). exact (O x Hx Hn a Ha).
  - destruct rest as [|l2 r]; [exact I|]. rewrite HO. exact J.
  - exact D1.
  - intros x y Hx Hn Hy. rewrite HO in Hy. exact (D2 x y Hx Hn Hy).
  - apply IH; [|exact R]. intros x Hx. apply HG. apply in_or_app; right; exact Hx.
Qed.
Lemma last_cons {A} (a : A) (r : list A) (d : A) : last (a :: r) d = last r a.
Proof.
  revert a d. induction r as [|b r IH]; intros a d; [reflexivity|].
  change (last (a :: b :: r) d) with (last (b :: r) d). rewrite (IH b d), (IH b a). reflexivity.
Qed.
Lemma Wf_transfer (w w' : world) : (forall k, oth w' k = oth w k) -> length w' = length w -> Wf w -> Wf w'.
Proof. intros HO HL HW i j H. rewrite HO in H. rewrite HL, HO. exact (HW i j H). Qed.
Lemma chain_cmd_shape (ch : list link) : forall d,
  d_time (chain_cmd ch d) = d_time d /\ c_kind (d_val (chain_cmd ch d)) = c_kind (d_val d) /\
  c_val (d_val (chain_cmd ch d)) = chain_scale ch (c_val (d_val d)).
Proof.
  induction ch as [|l r IH]; intros d; [repeat split|].
  unfold chain_cmd, chain_scale in *. cbn [fold_left].
  destruct (IH (link_map l d)) as (A & B & C0). destruct (link_map_shape l d) as (A1 & B1 & C1).
  rewrite A, B, C0, A1, B1, C1. repeat split.
Qed.

Lemma link_out_in (w : world) (l : link) : link_valid w l -> In (l_out l) (lterms l) /\ In (l_in l) (lterms l).
Proof.
  intros (VR & Vio & VV). unfold lterms. destruct (l_dev l) as [t1 t2|t1 t2 r|ts]; cbn [dev_terms].
  - destruct VV as [[-> ->]|[-> ->]]; split; (left + (right; left)); reflexivity.
  - destruct VV as [[-> ->]|[-> ->]]; split; (left + (right; left)); reflexivity.
  - split; apply VV.
Qed.
(* the exit terminal keeps reading the mapped command in any later world in which its own slot still
   holds it and every slot is either what it was in [w] or stamped like the command *)
Lemma exit_read (w w2 : world) (l : link) (d : datum command) :
  link_valid w l ->
  (forall x, In x (lterms l) -> x <> l_in l -> forall a, cmd_get w x = Some a -> d_time a < d_time d) ->
  (forall k, oth w2 k = oth w k) -> slot_c w2 (l_out l) = Some (link_map l d) ->
  (forall k a, slot_c w2 k = Some a -> slot_c w k = Some a \/ d_time a = d_time d) ->
  cmd_get w2 (l_out l) = Some (link_map l d).
Proof.
  intros V O A D E. apply cmd_get_own_wins; [exact D|]. intros p Hp.
  rewrite (proj1 (link_map_shape l d)).
  destruct (oth w2 (l_out l)) as [j|] eqn:Ej; [|rewrite (partner_cmd_none w2 _ Ej) in Hp; discriminate].
  rewrite (partner_cmd_slot w2 _ j Ej) in Hp. destruct (E j p Hp) as [Hs|Ht]; [|lia].
  rewrite A in Ej. rewrite <- (partner_cmd_slot w _ j Ej) in Hs.
  destruct (partner_le_read w _ p Hs) as (c0 & Ec & Hle).
  assert (d_time c0 < d_time d).
  { apply (O (l_out l)); [apply (link_out_in w l V)| |exact Ec]. destruct V as (_ & Vio & _). congruence. }
  lia.
Qed.
(* updating the first device re-establishes the hypotheses for the rest of the chain, with the mapped
   command now readable at the entry of the second device *)
Lemma chain_step (w : world) (l l2 : link) (rest : list link) (d : datum command) :
  Wf w -> chain_ok w (d_time d) (l :: l2 :: rest) -> cmd_get w (l_in l) = Some d ->
  let w' := dev_update w (l_dev l) in
  Wf w' /\ chain_ok w' (d_time (link_map l d)) (l2 :: rest) /\ cmd_get w' (l_in l2) = Some (link_map l d).
Proof.
  intros HW HC Hin w'. cbn [chain_ok] in HC. destruct HC as (V & O & J & D1 & D2 & R).
  destruct (link_step w l d V Hin O) as (A & B & C0 & D & E). fold w' in A, B, C0, D, E.
  destruct (HW _ _ J) as (_ & _ & Hne & Jb).
  destruct (link_out_in w l V) as (Oout & _).
  assert (In2' : In (l_in l2) (lterms l2)) by (apply (link_out_in w l2); apply R).
  assert (In2 : In (l_in l2) (flat_map lterms (l2 :: rest))) by (cbn [flat_map]; apply in_or_app; left; exact In2').
  (* reads at the later devices' terminals, except the joint, are untouched *)
  assert (FR : forall x, In x (flat_map lterms (l2 :: rest)) -> x <> l_in l2 -> cmd_get w' x = cmd_get w x).
  { intros x Hx Hn. apply cmd_get_frame.
    - apply C0. intros Hx1. exact (D1 x Hx1 Hx).
    - apply A.
    - intros y Hy. apply C0. intros Hy1. destruct (HW _ _ Hy) as (_ & _ & _ & Hyx).
      destruct (Nat.eq_dec y (l_out l)) as [->|Hyo].
      + rewrite J in Hyx. injection Hyx as <-. apply Hn; reflexivity.
      + exact (D2 y x Hy1 Hyo Hyx Hx). }
  split; [exact (Wf_transfer w w' A B HW)|]. split.
  - rewrite (proj1 (link_map_shape l d)).
    cbn [chain_ok] in R. destruct R as (V2 & O2 & J2 & D12 & D22 & R2).
    cbn [chain_ok]. split; [eapply link_valid_len; eassumption|]. split; [|split; [|split; [|split]]].
    + intros x Hx Hn a Ha. rewrite FR in Ha; [exact (O2 x Hx Hn a Ha)| |exact Hn].
      cbn [flat_map]. apply in_or_app; left; exact Hx.
    + destruct rest as [|l3 r3]; [exact I|]. rewrite A. exact J2.
    + exact D12.
    + intros x y Hx Hn Hy. rewrite A in Hy. exact (D22 x y Hx Hn Hy).
    + apply (chain_ok_transfer w w' (d_time d) A B); [|exact R2].
      intros x Hx. apply FR; [cbn [flat_map]; apply in_or_app; right; exact Hx|].
      intros ->. exact (D12 _ In2' Hx).
  - (* the joint reads the mapped command *)
    apply cmd_get_partner_wins.
    + intros a Ha. rewrite (proj1 (link_map_shape l d)).
      rewrite C0 in Ha by (intros Hx1; exact (D1 _ Hx1 In2)).
      rewrite <- (partner_cmd_slot w _ _ J) in Ha.
      destruct (partner_le_read w _ a Ha) as (c0 & Ec & Hle).
      assert (d_time c0 < d_time d).
      { apply (O (l_out l) Oout); [|exact Ec]. destruct V as (_ & Vio & _). congruence. }
      lia.
    + rewrite (partner_cmd_slot w' (l_in l2) (l_out l)) by (rewrite A; exact Jb). exact D.
Qed.

(* THEOREM 2 (chain).  Any number of inverters / gear trains / axles, each traversed in either
   direction, joined exit-to-entry by connected terminals: once the devices have been updated in
   order, the exit terminal of EVERY device of the chain (in particular the far end) reads the command
   that was read at the near end, mapped through the devices up to and including that one, in order.
   Links and the size of the world are unchanged, terminals of no chain device keep their slots, and every
   slot either holds what it held or a command with the issuer's time stamp. *)
Theorem chain_run : forall (ch : list link) (l : link) (w : world) (d : datum command),
  Wf w -> chain_ok w (d_time d) (l :: ch) -> cmd_get w (l_in l) = Some d ->
  let wf := run_chain w (l :: ch) in
  (forall k, oth wf k = oth w k) /\ length wf = length w /\
  (forall k, ~ In k (flat_map lterms (l :: ch)) -> slot_c wf k = slot_c w k) /\
  (forall k a, slot_c wf k = Some a -> slot_c w k = Some a \/ d_time a = d_time d) /\
  (forall p l' s, l :: ch = p ++ l' :: s -> cmd_get wf (l_out l') = Some (chain_cmd (p ++ [l']) d)).
Proof.
  induction ch as [|l2 rest IH]; intros l w d HW HC Hin wf.
  - cbn [chain_ok] in HC. destruct HC as (V & O & _).
    unfold wf, run_chain. cbn [fold_left].
    destruct (link_step w l d V Hin O) as (A & B & C0 & D & E).
    split; [exact A|]. split; [exact B|]. split; [|split; [exact E|]].
    + intros k Hk. apply C0. cbn [flat_map] in Hk. rewrite app_nil_r in Hk. exact Hk.
    + intros p l' s Hp. destruct p as [|x p'].
      * cbn [app] in Hp. injection Hp as <- _. unfold chain_cmd. cbn [app fold_left].
        exact (exit_read w _ l d V O A D E).
      * cbn [app] in Hp. injection Hp as _ Hp. exfalso. exact (app_cons_not_nil _ _ _ Hp).
  - destruct (chain_step w l l2 rest d HW HC Hin) as (HW' & HC' & JR).
    cbn [chain_ok] in HC. destruct HC as (V & O & J & D1 & D2 & R).
    destruct (link_step w l d V Hin O) as (A & B & C0 & D & E).
    set (w' := dev_update w (l_dev l)) in *.
    destruct (IH l2 w' (link_map l d) HW' HC' JR) as (A' & B' & C0' & E' & P').
    change (run_chain w' (l2 :: rest)) with wf in A', B', C0', E', P'.
    rewrite (proj1 (link_map_shape l d)) in E'.
    assert (EE : forall k a, slot_c wf k = Some a -> slot_c w k = Some a \/ d_time a = d_time d).
    { intros k a Ha. destruct (E' k a Ha) as [Hs|Ht]; [exact (E k a Hs)|right; exact Ht]. }
    assert (AA : forall k, oth wf k = oth w k) by (intros k; rewrite A'; apply A).
    split; [exact AA|]. split; [congruence|]. split; [|split; [exact EE|]].
    + intros k Hk. rewrite C0'.
      * apply C0. intros Hk1. apply Hk. cbn [flat_map]. apply in_or_app; left; exact Hk1.
      * intros Hk2. apply Hk. change (flat_map lterms (l :: l2 :: rest)) with (lterms l ++ flat_map lterms (l2 :: rest)).
        apply in_or_app; right; exact Hk2.
    + intros p l' s Hp. destruct p as [|x p'].
      * cbn [app] in Hp. injection Hp as <- _. unfold chain_cmd. cbn [app fold_left].
        apply (exit_read w wf l d V O AA); [|exact EE].
        rewrite C0'; [exact D|]. apply D1. apply (link_out_in w l V).
      * cbn [app] in Hp. injection Hp as <- Hp.
        rewrite (P' p' l' s Hp). unfold chain_cmd. reflexivity.
Qed.
(* the far end *)
Theorem chain_relay (ch : list link) (l : link) (w : world) (d : datum command) :
  Wf w -> chain_ok w (d_time d) (l :: ch) -> cmd_get w (l_in l) = Some d ->
  cmd_get (run_chain w (l :: ch)) (l_out (last ch l)) = Some (chain_cmd (l :: ch) d).
Proof.
  intros HW HC Hin. destruct (chain_run ch l w d HW HC Hin) as (_ & _ & _ & _ & P).
  assert (NE : l :: ch <> []) by discriminate.
  pose proof (app_removelast_last l NE) as E. rewrite last_cons in E.
  rewrite (P _ _ [] E). rewrite <- E. reflexivity.
Qed.

(* ... with the issuer's time stamp and kind, and the value pushed through the per-device maps in chain
   order: ((v * f1) * f2) ... exactly as the model associates them ([chain_scale] is a left fold) *)
Theorem chain_relay_value (ch : list link) (l : link) (w : world) (d : datum command) :
  Wf w -> chain_ok w (d_time d) (l :: ch) -> cmd_get w (l_in l) = Some d ->
  exists c0, cmd_get (run_chain w (l :: ch)) (l_out (last ch l)) = Some c0 /\
    d_time c0 = d_time d /\ c_kind (d_val c0) = c_kind (d_val d) /\
    c_val (d_val c0) = chain_scale (l :: ch) (c_val (d_val d)).
Proof.
  intros HW HC Hin. exists (chain_cmd (l :: ch) d). split; [apply chain_relay; assumption|].
  apply chain_cmd_shape.
Qed.

(* ------------------------------------------------------------------------------------------------ *)
(* 3. a differential never alters commands: every world (terminals in range or not), every trust mode,
   any number of differential updates *)
Lemma ceq_diff_update (w : world) s1 s2 sm dt : ceq w (diff_update w s1 s2 sm dt).
Proof.
  unfold diff_update. destruct dt.
  - destruct (state_get w sm); [|apply ceq_refl]. destruct (state_get w s2); [apply ceq_set_state|apply ceq_refl].
  - destruct (state_get w sm); [|apply ceq_refl]. destruct (state_get w s1); [apply ceq_set_state|apply ceq_refl].
  - destruct (state_get w s1); [|apply ceq_refl]. destruct (state_get w s2); [apply ceq_set_state|apply ceq_refl].
  - destruct (state_get w sm); [|apply ceq_refl]. destruct (state_get w s1); [|apply ceq_refl].
    destruct (state_get w s2); [|apply ceq_refl].
    eapply ceq_trans; [eapply ceq_trans|]; apply ceq_set_state.
Qed.
Definition diff_run (w : world) (ds : list (nat * nat * nat * distrust)) : world :=
  fold_left (fun w x => match x with (s1, s2, sm, dt) => diff_update w s1 s2 sm dt end) ds w.
Theorem diff_never_alters_commands (ds : list (nat * nat * nat * distrust)) : forall (w : world),
  let w' := diff_run w ds in
  (forall k, t_cmd (wget w' k) = t_cmd (wget w k)) /\ (forall k, t_other (wget w' k) = t_other (wget w k)) /\
  length w' = length w /\ (forall i, cmd_get w' i = cmd_get w i).
Proof.
  assert (G : forall w, ceq w (diff_run w ds)).
  { induction ds as [|[[[s1 s2] sm] dt] r IH]; intros w; [apply ceq_refl|].
    unfold diff_run in *. cbn [fold_left]. eapply ceq_trans; [apply ceq_diff_update|apply IH]. }
  intros w w'. pose proof (G w) as CE. pose proof (ceq_cmd_get _ _ CE) as R. destruct CE as (A & B & C0).
  split; [exact A|]. split; [exact B|]. split; [exact C0|exact R].
Qed.
Corollary diff_update_keeps_commands (w : world) s1 s2 sm dt :
  (forall k, t_cmd (wget (diff_update w s1 s2 sm dt) k) = t_cmd (wget w k)) /\
  (forall i, cmd_get (diff_update w s1 s2 sm dt) i = cmd_get w i).
Proof.
  destruct (diff_never_alters_commands [(s1, s2, sm, dt)] w) as (A & _ & _ & D). split; [exact A|exact D].
Qed.

End Chain.

(* ------------------------------------------------------------------------------------------------ *)
(* the hypotheses are satisfiable: inverter -> gear train (side 1 to 2) -> 3-terminal axle (entered at its
   second terminal) -> gear train traversed from side 2 to side 1; a user terminal 0 issues the command,
   the axle's spare terminal 6 is connected to a terminal holding an older command, and the far end 9 holds
   an older command of its own *)
Section Examples.
Context {F : Type} {NF : Num F}.
Variables (v u1 u2 r r2 : F).
Let tm (c0 : option (datum (@command F))) (o : option nat) : @term F := {| t_state := None; t_cmd := c0; t_other := o |}.
Definition ex_d0 : datum (@command F) := mkDatum 5 (cnew Position v).
Definition ex_world : @world F :=
  [ tm (Some ex_d0) (Some 1%nat); tm None (Some 0%nat); tm None (Some 3%nat); tm None (Some 2%nat);
    tm None (Some 5%nat); tm None (Some 4%nat); tm None (Some 10%nat); tm None (Some 8%nat); tm None (Some 7%nat);
    tm (Some (mkDatum 4 (cnew Velocity u1))) None; tm (Some (mkDatum 3 (cnew Acceleration u2))) (Some 6%nat) ].
Definition ex_chain : list (@link F) :=
  [ {| l_dev := DInv 1 2; l_in := 1; l_out := 2 |}; {| l_dev := DGear 3 4 r; l_in := 3; l_out := 4 |};
    {| l_dev := DAxle [6; 5; 7]%nat; l_in := 5; l_out := 7 |}; {| l_dev := DGear 9 8 r2; l_in := 8; l_out := 9 |} ].
Example ex_world_Wf : Wf ex_world.
Proof.
  intros i j H. unfold oth in *.
  do 11 (destruct i as [|i]; [vm_compute in H; try discriminate; injection H as <-; vm_compute; repeat split; try lia; discriminate|]).
  unfold ex_world, wget in H. cbn [nth] in H. destruct i; discriminate.
Qed.
Example ex_near_end : cmd_get ex_world 1 = Some ex_d0.
Proof. reflexivity. Qed.
Ltac ex_cases :=
  repeat match goal with
         | H : _ \/ _ |- _ => destruct H as [H|H]
         | H : False |- _ => destruct H
         end.
Ltac ex_valid :=
  split; [intros x Hx; cbn in Hx; ex_cases; subst x; unfold ex_world; cbn [length]; lia
         |split; [cbn; lia|cbn; auto]].
Ltac ex_older :=
  intros x Hx Hn a Ha; cbn in Hx; ex_cases; subst x; try (exfalso; apply Hn; reflexivity);
  vm_compute in Ha; try discriminate; injection Ha as <-; cbn; lia.
Ltac ex_disj := intros x Hx Hy; cbn in Hx, Hy; ex_cases; subst x; discriminate.
Ltac ex_sep :=
  intros x y Hx Hn Hy Hin; cbn in Hx; ex_cases; subst x; try (exfalso; apply Hn; reflexivity);
  vm_compute in Hy; try discriminate; injection Hy as <-; cbn in Hin; ex_cases; discriminate.
Example ex_chain_ok : chain_ok ex_world (d_time ex_d0) ex_chain.
Proof.
  unfold ex_chain. cbn [chain_ok d_time ex_d0].
  split; [ex_valid|split; [ex_older|split; [reflexivity|split; [ex_disj|split; [ex_sep|]]]]].
  split; [ex_valid|split; [ex_older|split; [reflexivity|split; [ex_disj|split; [ex_sep|]]]]].
  split; [ex_valid|split; [ex_older|split; [reflexivity|split; [ex_disj|split; [ex_sep|]]]]].
  split; [ex_valid|split; [ex_older|split; [exact I|split; [ex_disj|split; [ex_sep|exact I]]]]].
Qed.
(* the theorem applied: the far end (terminal 9) reads ((-v) * r) / r2 with time stamp 5 and kind Position ... *)
Example ex_far_end :
  cmd_get (run_chain ex_world ex_chain) 9 = Some (mkDatum 5 (cnew Position (fdiv (fmul (fneg v) r) r2))).
Proof. exact (chain_relay _ _ ex_world ex_d0 ex_world_Wf ex_chain_ok ex_near_end). Qed.
(* ... which is also what running the model gives *)
Example ex_far_end_computed :
  cmd_get (run_chain ex_world ex_chain) 9 = Some (mkDatum 5 (cnew Position (fdiv (fmul (fneg v) r) r2))).
Proof. vm_compute. reflexivity. Qed.

(* STRICTNESS IS NEEDED.  A command with the SAME time stamp held by the entry terminal of the second
   device wins the tie at the joint (a terminal prefers its own command unless the partner's is strictly
   newer), so the far end receives that command and not the one issued at the near end. *)
Definition tie_world : @world F :=
  [ tm (Some ex_d0) (Some 1%nat); tm None (Some 0%nat); tm None (Some 3%nat);
    tm (Some (mkDatum 5 (cnew Velocity u1))) (Some 2%nat); tm None None ].
Definition tie_chain : list (@link F) :=
  [ {| l_dev := DInv 1 2; l_in := 1; l_out := 2 |}; {| l_dev := DGear 3 4 r; l_in := 3; l_out := 4 |} ].
Example tie_breaks_chain :
  cmd_get tie_world 1 = Some ex_d0 /\
  cmd_get (run_chain tie_world tie_chain) 4 = Some (mkDatum 5 (cnew Velocity (fmul u1 r))) /\
  cmd_get (run_chain tie_world tie_chain) 4 <> Some (chain_cmd tie_chain ex_d0).
Proof.
  split; [reflexivity|]. split; [vm_compute; reflexivity|].
  assert (E : cmd_get (run_chain tie_world tie_chain) 4 = Some (mkDatum 5 (cnew Velocity (fmul u1 r))))
    by (vm_compute; reflexivity).
  rewrite E. vm_compute. intros H. discriminate H.
Qed.

(* SEPARATION IS NEEDED.  A second path: the spare terminal 3 of the first axle is connected to terminal 8
   of the last axle, which comes first in that axle's terminal order.  The last axle then sees the command
   twice with the same time stamp, unscaled at 8 and scaled at its entry 6, and relays the first: the far
   end 7 reads the UNSCALED value.  (Every other hypothesis of [chain_ok] holds here.) *)
Definition loop_world : @world F :=
  [ tm (Some ex_d0) (Some 1%nat); tm None (Some 0%nat); tm None (Some 4%nat); tm None (Some 8%nat);
    tm None (Some 2%nat); tm None (Some 6%nat); tm None (Some 5%nat); tm None None; tm None (Some 3%nat) ].
Definition loop_chain : list (@link F) :=
  [ {| l_dev := DAxle [1; 2; 3]%nat; l_in := 1; l_out := 2 |}; {| l_dev := DGear 4 5 r; l_in := 4; l_out := 5 |};
    {| l_dev := DAxle [8; 6; 7]%nat; l_in := 6; l_out := 7 |} ].
Example loop_breaks_chain :
  cmd_get loop_world 1 = Some ex_d0 /\
  cmd_get (run_chain loop_world loop_chain) 7 = Some (mkDatum 5 (cnew Position v)) /\
  chain_cmd loop_chain ex_d0 = mkDatum 5 (cnew Position (fmul v r)).
Proof. split; [reflexivity|]. split; [vm_compute; reflexivity|reflexivity]. Qed.
End Examples.

(* ties inside an axle: of two equally new reads the one at the earlier terminal (in the axle's terminal
   order) is relayed *)
Example axle_tie_first_wins {F : Type} {NF : Num F} (x y : @command F) (t : Z) :
  newest_of [None; Some (mkDatum t x); Some (mkDatum t y)] = Some (mkDatum t x).
Proof. unfold newest_of, newest_from. cbn. rewrite Z.geb_leb, Z.leb_refl. reflexivity. Qed.

(* ------------------------------------------------------------------------------------------------ *)
(* on the reals the folded maps are multiplication by the product of the per-device factors:
   -1 for an inverter, the ratio for a gear train from side 1 to side 2, its reciprocal from side 2 to
   side 1, 1 for an axle *)
From Coq Require Import Reals Lra.
From RRTK Require Import Num.RR.
Section RealChain.
Local Open Scope R_scope.
Definition link_factor (l : @link R) : R :=
  match l_dev l with
  | DInv _ _ => -1
  | DGear t1 _ r => if Nat.eqb (l_in l) t1 then r else / r
  | DAxle _ => 1
  end.
Definition ratio_product (ch : list (@link R)) : R := fold_right Rmult 1 (map link_factor ch).
Lemma chain_scale_product (ch : list (@link R)) : forall v : R, chain_scale ch v = v * ratio_product ch.
Proof.
  induction ch as [|l r IH]; intros v; unfold chain_scale, ratio_product in *; cbn [fold_left map fold_right].
  - ring.
  - rewrite IH. unfold link_scale, link_factor. destruct (l_dev l) as [t1 t2|t1 t2 q|ts].
    + cbn [fneg RR]. ring.
    + destruct (Nat.eqb (l_in l) t1); cbn [fmul fdiv RR]; [ring|unfold Rdiv; ring].
    + ring.
Qed.
Theorem chain_relay_R (ch : list (@link R)) (l : @link R) (w : @world R) (d : datum (@command R)) :
  Wf w -> chain_ok w (d_time d) (l :: ch) -> cmd_get w (l_in l) = Some d ->
  exists c0, cmd_get (run_chain w (l :: ch)) (l_out (last ch l)) = Some c0 /\
    d_time c0 = d_time d /\ c_kind (d_val c0) = c_kind (d_val d) /\
    c_val (d_val c0) = c_val (d_val d) * ratio_product (l :: ch).
Proof.
  intros HW HC Hin. destruct (chain_relay_value ch l w d HW HC Hin) as (c0 & A & B & C0 & D).
  exists c0. rewrite <- chain_scale_product. repeat split; assumption.
Qed.
(* the second-path example on the reals: the far end reads 1, the chain value would be 1 * 2 *)
Example loop_breaks_chain_R :
  cmd_get (run_chain (loop_world 1) (loop_chain 2)) 7 <> Some (chain_cmd (loop_chain 2) (ex_d0 1)).
Proof.
  destruct (loop_breaks_chain (F := R) 1 2) as (_ & E1 & E2). rewrite E1, E2.
  intros H. injection H as H. cbn [fmul RR] in H. lra.
Qed.
End RealChain.

Print Assumptions newest_of_spec.
Print Assumptions newest_of_none_iff.
Print Assumptions axle_relay.
Print Assumptions link_step.
Print Assumptions chain_step.
Print Assumptions chain_run.
Print Assumptions chain_relay.
Print Assumptions chain_relay_value.
Print Assumptions diff_never_alters_commands.
Print Assumptions diff_update_keeps_commands.
Print Assumptions ex_world_Wf.
Print Assumptions ex_chain_ok.
Print Assumptions ex_far_end.
Print Assumptions ex_far_end_computed.
Print Assumptions tie_breaks_chain.
Print Assumptions axle_tie_first_wins.
Print Assumptions loop_breaks_chain.
Print Assumptions loop_breaks_chain_R.
Print Assumptions chain_scale_product.
Print Assumptions chain_relay_R.
