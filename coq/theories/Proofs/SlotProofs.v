(* The scratch-array users read only slots they have written: the slot-level algorithms never reach
   undefined behaviour or an out-of-range index, and refine the list-level combinators. *)
From Coq Require Import ZArith Bool List Lia Arith.
From RRTK Require Import Num.Num Model.Values Model.Combinators Model.Slots Proofs.CombProofs.
Import ListNotations.

Section P.
Context {T : Type}.
Variable op : T -> T -> res T.

(* writing at position |pre| of  pre ++ (at least one more slot) *)
Lemma write_at (pre : list (option (datum T))) x rest (d : datum T) :
  (fix w (s : list (option (datum T))) (i : nat) : ures (list (option (datum T))) :=
     match s, i with
     | [], _ => UPanic
     | _ :: r, O => UOk (Some d :: r)
     | y :: r, S k => ulet r' := w r k in UOk (y :: r')
     end) (pre ++ x :: rest) (length pre) = UOk (pre ++ Some d :: rest).
Proof. induction pre as [|y r IH]; cbn; [reflexivity|]. rewrite IH. reflexivity. Qed.

(* invariant of the fill loop: the first |ds| slots hold ds, the rest are unwritten, and there is room
   for every remaining input *)
Lemma fill_spec (ins : list (out T)) : forall (ds : list (datum T)) (free : nat),
  length ins <= free ->
  fill ins (map Some ds ++ repeat None free) (length ds) =
  match first_err ins with
  | Some e => UOk (inl e)
  | None => UOk (inr (map Some (ds ++ presents ins) ++ repeat None (free - length (presents ins)), length ds + length (presents ins)))
  end.
Proof.
  induction ins as [|i r IH]; intros ds free Hf.
  - cbn. rewrite app_nil_r, Nat.sub_0_r, Nat.add_0_r. reflexivity.
  - destruct i as [e| |x]; cbn [fill first_err presents].
    + reflexivity.
    + apply IH. cbn in Hf. lia.
    + destruct free as [|free']; [cbn in Hf; lia|]. cbn [repeat].
      pose proof (write_at (map Some ds) None (repeat None free') x) as W. rewrite map_length in W. rewrite W.
      specialize (IH (ds ++ [x]) free').
      rewrite map_app in IH. cbn [map] in IH. rewrite <- app_assoc in IH. cbn [app] in IH.
      rewrite app_length in IH. cbn [length] in IH. rewrite Nat.add_1_r in IH.
      rewrite IH by (cbn in Hf; lia).
      destruct (first_err r); [reflexivity|].
      rewrite <- app_assoc. cbn [app length]. rewrite Nat.sub_succ. f_equal. f_equal. f_equal. lia.
Qed.

Lemma read_written (ds : list (datum T)) free i d :
  nth_error ds i = Some d -> read_slot (map Some ds ++ repeat None free) i = UOk d.
Proof.
  intros H. unfold read_slot. rewrite nth_error_app1 by (rewrite map_length; apply nth_error_Some; congruence).
  rewrite nth_error_map, H. reflexivity.
Qed.
Lemma fold_slots_spec (ds : list (datum T)) free : forall (i : nat) (acc : datum T),
  i <= length ds ->
  fold_slots op (map Some ds ++ repeat None free) i (length ds - i) acc = of_res (fold_dat op acc (skipn i ds)).
Proof.
  intros i. remember (length ds - i) as k eqn:Hk. revert i Hk.
  induction k as [|k IH]; intros i Hk acc Hi.
  - assert (i = length ds) by lia. subst i. rewrite skipn_all. reflexivity.
  - assert (Hlt : i < length ds) by lia.
    destruct (nth_error ds i) as [d|] eqn:E; [|apply nth_error_None in E; lia].
    cbn [fold_slots]. rewrite (read_written ds free i d E). cbn [ubind].
    assert (Hs : skipn i ds = d :: skipn (S i) ds).
    { clear -E. revert i E. induction ds as [|y r IH]; intros [|i] E; cbn in *; try discriminate.
      - injection E as ->. reflexivity.
      - apply IH. exact E. }
    rewrite Hs. cbn [fold_dat]. destruct (dat_op op acc d) as [a|]; cbn [of_res ubind bind]; [|reflexivity].
    apply IH; lia.
Qed.

(* the slot-level algorithm is the list-level n-ary combinator: never UB, never out of range *)
Theorem nary_slots_refines (ins : list (out T)) :
  1 <= length ins -> nary_slots op ins = of_res (nary op ins).
Proof.
  intros Hn. unfold nary_slots.
  pose proof (fill_spec ins [] (length ins) (Nat.le_refl _)) as F. cbn [map app length] in F. rewrite F.
  rewrite nary_spec. destruct (first_err ins) as [e|]; cbn [ubind]; [reflexivity|].
  cbn [app Nat.add]. destruct (presents ins) as [|d ds] eqn:P; cbn [length Nat.eqb]; [reflexivity|].
  cbn [map app]. unfold read_slot at 1. cbn [nth_error ubind].
  replace (S (length ds) - 1) with (length ds - 0) by lia.
  rewrite (fold_slots_spec ds _ 0 d (Nat.le_0_l _)). cbn [skipn].
  destruct (fold_dat op d ds); reflexivity.
Qed.
Corollary nary_slots_safe (ins : list (out T)) :
  1 <= length ins -> nary_slots op ins <> UUB /\ (nary_slots op ins = UPanic -> nary op ins = Panic).
Proof.
  intros H. rewrite nary_slots_refines by exact H. split; destruct (nary op ins); cbn; try discriminate; auto.
Qed.
End P.

(* terminal state read: all four own / partner presence combinations *)
Theorem term_state_slots_safe {St} (mean : St -> St -> St) (own partner : option St) :
  term_state_slots mean own partner =
  UOk (match own, partner with
       | None, None => None | Some a, None => Some a | None, Some b => Some b | Some a, Some b => Some (mean a b) end).
Proof. destruct own, partner; reflexivity. Qed.

(* Axle::new for every N: every slot is written before the array is read *)
Lemma axle_fill n : forall (pre : list (option unit)) (k : nat),
  Forall (fun x => x = Some tt) pre -> k = length pre ->
  fst (fold_left (fun (a : ures (list (option unit)) * nat) _ => (ulet s := fst a in swrite s (snd a) tt, S (snd a)))
                 (repeat tt n) (UOk (pre ++ repeat None n), k)) = UOk (pre ++ repeat (Some tt) n).
Proof.
  induction n as [|n IH]; intros pre k Hp Hk; cbn [repeat fold_left fst]; [reflexivity|].
  cbn [snd fst ubind].
  assert (W : swrite (pre ++ None :: repeat None n) k tt = UOk (pre ++ Some tt :: repeat None n)).
  { subst k. clear. induction pre as [|y r IHp]; cbn; [reflexivity|]. rewrite IHp. reflexivity. }
  rewrite W.
  specialize (IH (pre ++ [Some tt]) (S k)). rewrite <- !app_assoc in IH. cbn [app] in IH.
  apply IH.
  - apply Forall_app. split; [exact Hp|constructor; [reflexivity|constructor]].
  - rewrite app_length. cbn. lia.
Qed.
Theorem axle_new_slots_safe n : axle_new_slots n = UOk (repeat tt n).
Proof.
  unfold axle_new_slots. pose proof (axle_fill n [] 0 (Forall_nil _) eq_refl) as H. cbn [app] in H. rewrite H.
  cbn [ubind]. clear H. induction n as [|n IH]; [reflexivity|].
  cbn [repeat]. rewrite IH. reflexivity.
Qed.
