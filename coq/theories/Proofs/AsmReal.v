(* C04, last clause: PIDControllerStream agrees with the same controller assembled from the crate's own
   Difference / Integral / Derivative / NoneToValue / Product / QuantityToFloat / Sum streams
   (examples/pid.rs, Model/Assembly.v).

   Part 1 (any carrier F with NumLaws and the extra law  fadd fzero x = x ; both values of chk):
     a simulation relation between the two state records, preserved by every present sample,
     lifted to whole histories by induction on the list.
   Part 2: histories that also contain absent / error events: the assembly is NOT the controller there;
     it is exactly the controller with three modifications ([gpid] below), proved for all histories.
   Part 3: the real-number instance, and witnesses (reals and binary32). *)
From Coq Require Import ZArith Bool List Lia Reals Lra.
From RRTK Require Import Num.Num Num.RR Num.B32 Num.Laws Model.Values Model.Combinators Model.Streams Model.Assembly
  Proofs.PidProofs Proofs.B32Inst.
Import ListNotations.
Local Open Scope Z_scope.

Section AsmGeneric.
Context {F : Type} {NF : Num F} {NL : NumLaws F}.
(* the one law beyond NumLaws that the agreement needs; true on the reals, false on binary32 at x = -0 *)
Hypothesis fadd_zero_l : forall x : F, fadd fzero x = x.
Variable c : cfg.
Variable sp : F.
Variable k : @kvals F.
Notation quantity := (@quantity F).

(* ------------------------------------------------------------------ small facts about the pieces *)
Lemma assert_ok_refl u : assert_ok c u u = Ok tt.
Proof. unfold assert_ok, eq_assume_true, ueqb. destruct (chk c); [rewrite !Z.eqb_refl|]; reflexivity. Qed.
Lemma qsub_same u (x y : F) : qsub c (qnew x u) (qnew y u) = Ok (qnew (fsub x y) u).
Proof. unfold qsub, usub. cbn [qu qv qnew]. rewrite assert_ok_refl. reflexivity. Qed.
Lemma qadd_same u (x y : F) : qadd c (qnew x u) (qnew y u) = Ok (qnew (fadd x y) u).
Proof. unfold qadd, uadd. cbn [qu qv qnew]. rewrite assert_ok_refl. reflexivity. Qed.
Lemma tmax_ge_refl t : tmax_ge t t = t.
Proof. unfold tmax_ge. destruct (t >=? t); reflexivity. Qed.
Lemma tmax_gt_refl t : tmax_gt t t = t.
Proof. unfold tmax_gt. destruct (t >? t); reflexivity. Qed.

Lemma nary_mul2 t (x y : quantity) :
  nary (qmul_r c) [OSome (mkDatum t x); OSome (mkDatum t y)] = Ok (OSome (mkDatum t (qmul c x y))).
Proof. unfold nary, qmul_r. cbn [scan fold_dat dat_op d_val d_time bind]. rewrite tmax_ge_refl. reflexivity. Qed.
Lemma nary_add3 t (x y z : F) :
  nary fadd_r [OSome (mkDatum t x); OSome (mkDatum t y); OSome (mkDatum t z)]
  = Ok (OSome (mkDatum t (fadd (fadd x y) z))).
Proof. unfold nary, fadd_r. cbn [scan fold_dat dat_op d_val d_time bind]. rewrite !tmax_ge_refl. reflexivity. Qed.

(* the unit of the integral stream's value: (s * mm) / 1 *)
Definition U_INT : unit_ := udiv c (umul c (U_SECOND c) (U_MM c)) (U_DIMLESS c).
Definition qd (d : datum F) : datum quantity := mkDatum (d_time d) (qnew (d_val d) (U_MM c)).
(* what the assembly is fed: the crate's own FloatToQuantity image (unit mm) of the controller's input *)
Definition inq (i : out F) : out quantity := f2q_get (U_MM c) i.
Definition dtf (d : Z) : F := qv (q_of_time c d).

(* the derivative term computed against a remembered sample g *)
Definition dterm (g : option (datum F)) (t : Z) (e : F) : res F :=
  match g with
  | None => Ok fzero
  | Some ge => let! dt := dt_f c t (d_time ge) in Ok (fdiv (fsub e (d_val ge)) dt)
  end.

(* ------------------------------------------------------------------ the simulation relation *)
Definition int_rel (pe : datum F) (acc : F) (v : out quantity) : Prop :=
  (v = ONone /\ acc = fzero) \/ v = OSome (mkDatum (d_time pe) (qnew acc U_INT)).

(* [g]: the last present error sample the derivative stream remembers.  On present-only histories
   g = pid_prev s. *)
Definition MSim (g : option (datum F)) (s : pid) (a : spid) : Prop :=
  pid_sp s = sp /\ pid_k s = k /\
  sa_sp a = qnew sp (U_MM c) /\ sa_kp a = qdimless c (kp k) /\ sa_ki a = qdimless c (ki k) /\
  sa_kd a = qdimless c (kd k) /\
  di_prev (sa_drv a) = option_map qd g /\
  (g = None -> clear_err (di_val (sa_drv a)) = ONone) /\
  match pid_prev s with
  | None => pid_int s = fzero /\ di_prev (sa_int a) = None /\ clear_err (di_val (sa_int a)) = ONone
  | Some pe => g = Some pe /\ di_prev (sa_int a) = Some (qd pe) /\ int_rel pe (pid_int s) (di_val (sa_int a))
  end.

(* the relation for present-only histories: same remembered sample, same output *)
Definition Sim (s : pid) (a : spid) : Prop :=
  MSim (pid_prev s) s a /\ spid_get a = Ok (pid_get s).

Lemma msim_init : MSim None (pid_init sp k) (spid_init c sp (kp k) (ki k) (kd k)).
Proof. unfold MSim. cbn. repeat split; reflexivity. Qed.
Lemma sim_init : Sim (pid_init sp k) (spid_init c sp (kp k) (ki k) (kd k)).
Proof. split; [exact msim_init|reflexivity]. Qed.

(* ------------------------------------------------------------------ one present sample *)
Lemma binop_err t x :
  binop (qsub c) (constant_getter (TOk t) (qnew sp (U_MM c))) (OSome (mkDatum t (qnew x (U_MM c))))
  = Ok (OSome (mkDatum t (qnew (fsub sp x) (U_MM c)))).
Proof.
  unfold constant_getter, binop, dat_op_gt. cbn [d_val d_time]. rewrite qsub_same. cbn [bind].
  rewrite tmax_gt_refl. reflexivity.
Qed.

Lemma pid_present s t x : pid_sp s = sp -> pid_k s = k ->
  match pid_step c s (OSome (mkDatum t x)) with
  | Panic => dterm (pid_prev s) t (fsub sp x) = Panic
  | Ok (s', u) => exists D, dterm (pid_prev s) t (fsub sp x) = Ok D /\
        pid_get s' = OSome (mkDatum t (k_eval k (fsub sp x) (pid_int s') D))
  end.
Proof.
  intros Hsp Hk. unfold pid_step, dterm. cbn [d_time d_val]. rewrite Hsp, Hk.
  destruct (pid_prev s) as [pe|]; cbn [bind].
  - destruct (dt_f c t (d_time pe)) as [dt|]; cbn [bind fst snd]; [|reflexivity].
    eexists; split; [reflexivity|]. reflexivity.
  - cbn [fst snd]. eexists; split; reflexivity.
Qed.

Lemma present_step g s a t x :
  MSim g s a ->
  match pid_step c s (OSome (mkDatum t x)) with
  | Panic => spid_step c a (OSome (mkDatum t (qnew x (U_MM c)))) = Panic
  | Ok (s', u) =>
      u = UOk /\ pid_prev s' = Some (mkDatum t (fsub sp x)) /\
      match dterm g t (fsub sp x) with
      | Panic => spid_step c a (OSome (mkDatum t (qnew x (U_MM c)))) = Panic
      | Ok D => exists a', spid_step c a (OSome (mkDatum t (qnew x (U_MM c)))) = Ok (a', UOk) /\
                  MSim (Some (mkDatum t (fsub sp x))) s' a' /\
                  spid_get a' = Ok (OSome (mkDatum t (k_eval k (fsub sp x) (pid_int s') D)))
      end
  end.
Proof.
  intros (Hsp & Hk & Asp & Akp & Aki & Akd & Dprev & Dval & Hrel).
  destruct a as [asp akp aki akd aint adrv apf aif adf].
  cbn [sa_sp sa_kp sa_ki sa_kd sa_int sa_drv] in *. subst asp akp aki akd.
  unfold spid_step.
  cbn [sa_sp sa_kp sa_ki sa_kd sa_int sa_drv sa_pfm sa_ifm sa_dfm time_getter_from_getter none_to_error d_time].
  rewrite binop_err. cbn [bind].
  unfold pid_step. cbn [d_time d_val]. rewrite Hsp, Hk.
  set (e := fsub sp x) in *.
  destruct (pid_prev s) as [pe|] eqn:Eprev.
  - (* a previous sample exists: g = it *)
    destruct Hrel as (Hg & Iprev & Irel). subst g. cbn [option_map] in Dprev.
    unfold integ_step, deriv_step. rewrite Iprev, Dprev. cbn [qd d_time d_val].
    unfold dterm, dt_f, dt_q. cbn [d_time d_val].
    destruct (isub t (d_time pe)) as [d|] eqn:Ed; cbn [bind]; [|reflexivity].
    cbn [fst snd]. split; [reflexivity|]. split; [reflexivity|].
    rewrite qadd_same, qsub_same. cbn [bind].
    destruct Irel as [[Iv Iz]|Iv]; rewrite Iv; cbn [bind d_val].
    + cbn [constant_getter none_to_value dint_get di_val].
      rewrite !nary_mul2. cbn [bind q2f_step fst d_time d_val].
      eexists. split; [reflexivity|]. split.
      * unfold MSim. cbn [pid_sp pid_k pid_prev pid_int sa_sp sa_kp sa_ki sa_kd sa_int sa_drv di_prev di_val option_map qd d_time d_val].
        do 7 (split; [reflexivity|]). split; [discriminate|].
        split; [reflexivity|]. split; [reflexivity|]. right.
        rewrite Iz, fadd_zero_l. reflexivity.
      * unfold spid_get. cbn [sa_pfm sa_ifm sa_dfm pid_int]. rewrite nary_add3.
        rewrite Iz, fadd_zero_l. reflexivity.
    + unfold qdiv at 1, qmul at 1. cbn [qu qv qnew qdimless q_of_time].
      fold U_INT. rewrite qadd_same. cbn [bind].
      cbn [constant_getter none_to_value dint_get di_val].
      rewrite !nary_mul2. cbn [bind q2f_step fst d_time d_val].
      eexists. split; [reflexivity|]. split.
      * unfold MSim. cbn [pid_sp pid_k pid_prev pid_int sa_sp sa_kp sa_ki sa_kd sa_int sa_drv di_prev di_val option_map qd d_time d_val].
        do 7 (split; [reflexivity|]). split; [discriminate|].
        split; [reflexivity|]. split; [reflexivity|]. right.
        rewrite (fadd_comm (pid_int s)). reflexivity.
      * unfold spid_get. cbn [sa_pfm sa_ifm sa_dfm pid_int]. rewrite nary_add3.
        rewrite (fadd_comm (pid_int s)). reflexivity.
  - (* first sample after a reset (or ever) *)
    destruct Hrel as (Iz & Iprev & Ival). cbn [bind fst snd].
    split; [reflexivity|]. split; [reflexivity|].
    unfold integ_step. rewrite Iprev, Ival. cbn [bind].
    destruct g as [ge|].
    + cbn [option_map] in Dprev. unfold deriv_step. rewrite Dprev. cbn [qd d_time d_val].
      unfold dterm, dt_f, dt_q.
      destruct (isub t (d_time ge)) as [d|] eqn:Ed; cbn [bind]; [|reflexivity].
      rewrite qsub_same. cbn [bind].
      cbn [constant_getter none_to_value dint_get di_val].
      rewrite !nary_mul2. cbn [bind q2f_step fst d_time d_val].
      eexists. split; [reflexivity|]. split.
      * unfold MSim. cbn [pid_sp pid_k pid_prev pid_int sa_sp sa_kp sa_ki sa_kd sa_int sa_drv di_prev di_val option_map qd d_time d_val].
        do 7 (split; [reflexivity|]). split; [discriminate|].
        split; [reflexivity|]. split; [reflexivity|]. left. split; [reflexivity|].
        rewrite Iz. apply fadd_zero_l.
      * unfold spid_get. cbn [sa_pfm sa_ifm sa_dfm pid_int]. rewrite nary_add3.
        rewrite Iz, fadd_zero_l. reflexivity.
    + cbn [option_map] in Dprev. specialize (Dval eq_refl).
      unfold deriv_step. rewrite Dprev, Dval. cbn [dterm bind].
      cbn [constant_getter none_to_value dint_get di_val].
      rewrite !nary_mul2. cbn [bind q2f_step fst d_time d_val].
      eexists. split; [reflexivity|]. split.
      * unfold MSim. cbn [pid_sp pid_k pid_prev pid_int sa_sp sa_kp sa_ki sa_kd sa_int sa_drv di_prev di_val option_map qd d_time d_val].
        do 7 (split; [reflexivity|]). split; [discriminate|].
        split; [reflexivity|]. split; [reflexivity|]. left. split; [reflexivity|].
        rewrite Iz. apply fadd_zero_l.
      * unfold spid_get. cbn [sa_pfm sa_ifm sa_dfm pid_int]. rewrite nary_add3.
        rewrite Iz, fadd_zero_l. reflexivity.
Qed.


(* ------------------------------------------------------------------ one absent / one error event *)
Lemma absent_step g s a :
  MSim g s a ->
  pid_step c s ONone = Ok (pid_reset s, UOk) /\
  exists a', spid_step c a ONone = Ok (a', UErr FromNone) /\
             MSim g (pid_reset s) a' /\ spid_get a' = spid_get a.
Proof.
  intros (Hsp & Hk & Asp & Akp & Aki & Akd & Dprev & Dval & Hrel).
  split; [reflexivity|].
  unfold spid_step. cbn [time_getter_from_getter none_to_error constant_getter binop bind integ_step].
  eexists. split; [reflexivity|]. split; [|reflexivity].
  unfold MSim. cbn [pid_reset pid_sp pid_k pid_prev pid_int sa_sp sa_kp sa_ki sa_kd sa_int sa_drv di_prev di_val clear_err].
  repeat split; assumption.
Qed.
Lemma error_step g s a e :
  MSim g s a ->
  exists s' a', pid_step c s (OErr e) = Ok (s', UErr e) /\ pid_get s' = OErr e /\
                spid_step c a (OErr e) = Ok (a', UErr e) /\
                MSim g s' a' /\ spid_get a' = spid_get a.
Proof.
  intros (Hsp & Hk & Asp & Akp & Aki & Akd & Dprev & Dval & Hrel).
  unfold spid_step, pid_step.
  cbn [time_getter_from_getter none_to_error constant_getter binop bind integ_step].
  eexists. eexists. split; [reflexivity|]. split; [reflexivity|]. split; [reflexivity|]. split; [|reflexivity].
  unfold MSim. cbn [pid_sp pid_k pid_prev pid_int sa_sp sa_kp sa_ki sa_kd sa_int sa_drv di_prev di_val clear_err].
  repeat split; assumption.
Qed.

(* ------------------------------------------------------------------ histories *)
(* what an observer sees after each update(): the update result and what get() then returns.  The trace
   stops with a [Panic] entry at the step that panics. *)
Definition obs := (upd * out F)%type.
Fixpoint pid_trace (s : pid) (h : list (out F)) : list (res obs) :=
  match h with
  | [] => []
  | i :: r => match pid_step c s i with
              | Panic => [Panic]
              | Ok (s', u) => Ok (u, pid_get s') :: pid_trace s' r
              end
  end.
Fixpoint spid_trace (a : spid) (h : list (out quantity)) : list (res obs) :=
  match h with
  | [] => []
  | i :: r => match spid_step c a i with
              | Panic => [Panic]
              | Ok (a', u) => (let! o := spid_get a' in Ok (u, o)) :: spid_trace a' r
              end
  end.
Fixpoint spid_run (a : spid) (h : list (out quantity)) : res spid :=
  match h with
  | [] => Ok a
  | i :: r => match spid_step c a i with Ok (a', _) => spid_run a' r | Panic => Panic end
  end.

(* a present sample (time, value) as the controller / the assembly receives it *)
Definition pres (p : Z * F) : out F := OSome (mkDatum (fst p) (snd p)).
Definition presq (p : Z * F) : out quantity := OSome (mkDatum (fst p) (qnew (snd p) (U_MM c))).
Lemma presq_inq p : presq p = inq (pres p).
Proof. reflexivity. Qed.

(* the simulation relation is preserved by every present sample, with equal observations *)
Theorem sim_step s a p :
  Sim s a ->
  match pid_step c s (pres p), spid_step c a (presq p) with
  | Ok (s', u), Ok (a', u') => u = UOk /\ u' = UOk /\ Sim s' a'
  | Panic, Panic => True
  | _, _ => False
  end.
Proof.
  intros [HM Hget]. destruct p as [t x]. unfold pres, presq. cbn [fst snd].
  pose proof (present_step _ s a t x HM) as P.
  pose proof (pid_present s t x (proj1 HM) (proj1 (proj2 HM))) as Q.
  destruct (pid_step c s (OSome (mkDatum t x))) as [[s' u]|].
  - destruct P as (Hu & Hprev' & P). destruct Q as (D & HD & Hout). rewrite HD in P.
    destruct P as (a' & Hstep & HM' & Hget'). rewrite Hstep.
    split; [exact Hu|]. split; [reflexivity|]. split; [rewrite Hprev'; exact HM'|].
    rewrite Hget', Hout. reflexivity.
  - rewrite P. exact I.
Qed.

Theorem sim_trace : forall (h : list (Z * F)) s a, Sim s a ->
  spid_trace a (map presq h) = pid_trace s (map pres h).
Proof.
  induction h as [|p r IH]; intros s a HS; [reflexivity|].
  cbn [map pid_trace spid_trace].
  pose proof (sim_step s a p HS) as P.
  destruct (pid_step c s (pres p)) as [[s' u]|]; destruct (spid_step c a (presq p)) as [[a' u']|];
    try contradiction; [|reflexivity].
  destruct P as (Hu & Hu' & HS'). subst u u'. rewrite (proj2 HS'). cbn [bind].
  f_equal. apply IH. exact HS'.
Qed.

Theorem sim_run : forall (h : list (Z * F)) s a, Sim s a ->
  match pid_run c s (map pres h), spid_run a (map presq h) with
  | Ok s', Ok a' => Sim s' a'
  | Panic, Panic => True
  | _, _ => False
  end.
Proof.
  induction h as [|p r IH]; intros s a HS; [exact HS|].
  cbn [map pid_run spid_run].
  pose proof (sim_step s a p HS) as P.
  destruct (pid_step c s (pres p)) as [[s' u]|]; destruct (spid_step c a (presq p)) as [[a' u']|];
    try contradiction; [|exact I].
  apply IH. exact (proj2 (proj2 P)).
Qed.

(* MAIN (generic carrier): every present-only history, both machines started from their constructors *)
Theorem asm_agrees_trace (h : list (Z * F)) :
  spid_trace (spid_init c sp (kp k) (ki k) (kd k)) (map presq h) = pid_trace (pid_init sp k) (map pres h).
Proof. apply sim_trace. exact sim_init. Qed.
Theorem asm_agrees_run (h : list (Z * F)) :
  match pid_run c (pid_init sp k) (map pres h), spid_run (spid_init c sp (kp k) (ki k) (kd k)) (map presq h) with
  | Ok s', Ok a' => Sim s' a'
  | Panic, Panic => True
  | _, _ => False
  end.
Proof. apply sim_run. exact sim_init. Qed.

(* ------------------------------------------------------------------ histories with absent / error events *)
(* The assembly on arbitrary histories is the controller with three modifications:
   (1) an absent input makes update() return Err(FromNone) (the controller returns Ok);
   (2) after an absent or error input get() keeps returning the previous output (the controller returns
       None, resp. the error);
   (3) the derivative term is taken against the last present sample EVER seen [g_last], not against the
       last sample since the reset: the example's update() returns at `self.int.update()?` and never
       updates (hence never resets) the derivative stream.  This can also panic (time difference
       overflow) where the controller does not.
   The proportional and integral terms and the controller's own state evolve exactly as in the controller. *)
Record gpid := { g_pid : @pid F; g_last : option (datum F); g_out : out F }.
Definition gpid_init : gpid := {| g_pid := pid_init sp k; g_last := None; g_out := ONone |}.
Definition gpid_step (gs : gpid) (i : out F) : res (gpid * upd) :=
  let! r := pid_step c (g_pid gs) i in
  match i with
  | OSome p =>
      let e := fsub sp (d_val p) in
      let! D := dterm (g_last gs) (d_time p) e in
      Ok ({| g_pid := fst r; g_last := Some (mkDatum (d_time p) e);
             g_out := OSome (mkDatum (d_time p) (k_eval k e (pid_int (fst r)) D)) |}, UOk)
  | ONone => Ok ({| g_pid := fst r; g_last := g_last gs; g_out := g_out gs |}, UErr FromNone)
  | OErr e => Ok ({| g_pid := fst r; g_last := g_last gs; g_out := g_out gs |}, UErr e)
  end.
Fixpoint gpid_trace (gs : gpid) (h : list (out F)) : list (res obs) :=
  match h with
  | [] => []
  | i :: r => match gpid_step gs i with
              | Panic => [Panic]
              | Ok (gs', u) => Ok (u, g_out gs') :: gpid_trace gs' r
              end
  end.
Definition GSim (gs : gpid) (a : spid) : Prop :=
  MSim (g_last gs) (g_pid gs) a /\ spid_get a = Ok (g_out gs).
Lemma gsim_init : GSim gpid_init (spid_init c sp (kp k) (ki k) (kd k)).
Proof. split; [exact msim_init|reflexivity]. Qed.

Theorem gsim_step gs a i :
  GSim gs a ->
  match gpid_step gs i, spid_step c a (inq i) with
  | Ok (gs', u), Ok (a', u') => u = u' /\ GSim gs' a'
  | Panic, Panic => True
  | _, _ => False
  end.
Proof.
  intros [HM Hget]. destruct i as [e| |[t x]]; unfold gpid_step, inq; cbn [f2q_get d_time d_val].
  - destruct (error_step _ _ _ e HM) as (s' & a' & Hp & _ & Ha & HM' & Hg).
    rewrite Hp, Ha. cbn [bind fst]. split; [reflexivity|]. split; [exact HM'|]. rewrite Hg. exact Hget.
  - destruct (absent_step _ _ _ HM) as (Hp & a' & Ha & HM' & Hg).
    rewrite Hp, Ha. cbn [bind fst]. split; [reflexivity|]. split; [exact HM'|]. rewrite Hg. exact Hget.
  - pose proof (present_step _ _ a t x HM) as P.
    destruct (pid_step c (g_pid gs) (OSome (mkDatum t x))) as [[s' u]|]; cbn [bind fst].
    + destruct P as (Hu & Hprev' & P).
      destruct (dterm (g_last gs) t (fsub sp x)) as [D|]; cbn [bind].
      * destruct P as (a' & Hstep & HM' & Hget'). rewrite Hstep.
        split; [reflexivity|]. split; [exact HM'|exact Hget'].
      * rewrite P. exact I.
    + rewrite P. exact I.
Qed.

Theorem gsim_trace : forall (h : list (out F)) gs a, GSim gs a ->
  spid_trace a (map inq h) = gpid_trace gs h.
Proof.
  induction h as [|i r IH]; intros gs a HS; [reflexivity|].
  cbn [map gpid_trace spid_trace].
  pose proof (gsim_step gs a i HS) as P.
  destruct (gpid_step gs i) as [[gs' u]|]; destruct (spid_step c a (inq i)) as [[a' u']|];
    try contradiction; [|reflexivity].
  destruct P as (Hu & HS'). subst u'. rewrite (proj2 HS'). cbn [bind].
  f_equal. apply IH. exact HS'.
Qed.

(* MAIN (all events): the assembly's observable behaviour on EVERY history is that of [gpid] *)
Theorem asm_is_gpid (h : list (out F)) :
  spid_trace (spid_init c sp (kp k) (ki k) (kd k)) (map inq h) = gpid_trace gpid_init h.
Proof. apply gsim_trace. exact gsim_init. Qed.

(* how [gpid] relates to the controller: in a synchronised state (remembered sample = the controller's
   own previous sample: initially, and after every present sample) a present sample does exactly what the
   controller does and leaves the state synchronised *)
Definition synced (gs : gpid) : Prop :=
  pid_sp (g_pid gs) = sp /\ pid_k (g_pid gs) = k /\ g_last gs = pid_prev (g_pid gs).
Theorem gpid_present_synced gs p :
  synced gs ->
  gpid_step gs (OSome p) =
    match pid_step c (g_pid gs) (OSome p) with
    | Panic => Panic
    | Ok (s', u) => Ok ({| g_pid := s'; g_last := pid_prev s'; g_out := pid_get s' |}, u)
    end.
Proof.
  intros (Hsp & Hk & Hl). destruct p as [t x]. unfold gpid_step. rewrite Hl. cbn [d_time d_val].
  pose proof (pid_present (g_pid gs) t x Hsp Hk) as Q.
  unfold pid_step in *. cbn [d_time d_val] in *. rewrite Hsp, Hk in *.
  destruct (pid_prev (g_pid gs)) as [pe|]; cbn [bind dterm] in *.
  - destruct (dt_f c t (d_time pe)) as [dt|]; cbn [bind fst snd] in *; reflexivity.
  - cbn [fst snd]. reflexivity.
Qed.
Lemma gpid_present_resyncs gs p gs' u :
  pid_sp (g_pid gs) = sp -> pid_k (g_pid gs) = k ->
  gpid_step gs (OSome p) = Ok (gs', u) -> synced gs'.
Proof.
  intros Hsp Hk. destruct p as [t x]. unfold gpid_step, pid_step. cbn [d_time d_val]. rewrite Hsp, Hk.
  destruct (match pid_prev (g_pid gs) with Some pe => _ | None => _ end) as [ad|]; cbn [bind fst]; [|discriminate].
  destruct (dterm (g_last gs) t (fsub sp x)) as [D|]; cbn [bind]; [|discriminate].
  intros [= <- <-]. repeat split.
Qed.

End AsmGeneric.

(* ================================================================== Part 3: instances and witnesses *)

(* the extra law holds on the reals (this is also the satisfiability witness of the section hypothesis) *)
Lemma RR_fadd_zero_l : forall x : R, fadd fzero x = x.
Proof. exact Rplus_0_l. Qed.

(* [R] every present-only history of any length, times in any order, either value of chk / stdf:
   after every step the same update result and get() = the controller's get() (same stamp, same value);
   a panic (i64 overflow of a time difference) happens in both at the same step or in neither. *)
Theorem C04_assembly_agrees_R (c : cfg) (sp : R) (k : @kvals R) (h : list (Z * R)) :
  spid_trace c (spid_init c sp (kp k) (ki k) (kd k)) (map (presq c) h)
  = pid_trace c (pid_init sp k) (map pres h).
Proof. exact (asm_agrees_trace RR_fadd_zero_l c sp k h). Qed.

(* the same on final states: the simulation relation holds after the whole history (hence after each
   prefix), in particular spid_get = Ok (pid_get) *)
Theorem C04_assembly_sim_R (c : cfg) (sp : R) (k : @kvals R) (h : list (Z * R)) :
  match pid_run c (pid_init sp k) (map pres h),
        spid_run c (spid_init c sp (kp k) (ki k) (kd k)) (map (presq c) h) with
  | Ok s, Ok a => Sim c sp k s a /\ spid_get a = Ok (pid_get s)
  | Panic, Panic => True
  | _, _ => False
  end.
Proof.
  pose proof (asm_agrees_run RR_fadd_zero_l c sp k h) as P.
  destruct (pid_run c (pid_init sp k) (map pres h)) as [s|];
  destruct (spid_run c (spid_init c sp (kp k) (ki k) (kd k)) (map (presq c) h)) as [a|]; try exact P.
  split; [exact P|exact (proj2 P)].
Qed.

(* [R] all events: the assembly is the modified controller [gpid] on every history *)
Theorem C04_assembly_all_events_R (c : cfg) (sp : R) (k : @kvals R) (h : list (out R)) :
  spid_trace c (spid_init c sp (kp k) (ki k) (kd k)) (map (inq c) h) = gpid_trace c sp k (gpid_init sp k) h.
Proof. exact (asm_is_gpid RR_fadd_zero_l c sp k h). Qed.

(* ---- witnesses on the reals (computed from the model itself, not through the theorems) ---- *)
(* descend through list / res / pair / out / datum constructors, stop at equations between reals *)
Ltac peel := repeat match goal with |- @eq ?T _ _ => lazymatch T with R => fail | _ => f_equal end end.
Definition cT := {| chk := true; stdf := true |}.
Definition cF := {| chk := false; stdf := true |}.
Definition kR : @kvals R := {| kp := 1%R; ki := 1%R; kd := 1%R |}.

(* non-vacuity of the main theorem: a three-sample history with a non-zero integral and derivative *)
Example agrees_R_nonvacuous :
  pid_trace cT (pid_init 5%R kR) (map pres [(0, 1%R); (1000000000, 2%R); (3000000000, 4%R)])
  = [Ok (UOk, OSome (mkDatum 0 4%R)); Ok (UOk, OSome (mkDatum 1000000000 (11/2)%R));
     Ok (UOk, OSome (mkDatum 3000000000 (15/2)%R))]
  /\ spid_trace cT (spid_init cT 5%R 1%R 1%R 1%R) (map (presq cT) [(0, 1%R); (1000000000, 2%R); (3000000000, 4%R)])
  = [Ok (UOk, OSome (mkDatum 0 4%R)); Ok (UOk, OSome (mkDatum 1000000000 (11/2)%R));
     Ok (UOk, OSome (mkDatum 3000000000 (15/2)%R))].
Proof. split; cbn; peel; field. Qed.

(* DIFFERENCE 1+2+3: present, absent, present, error.
   controller: Ok/None after the absent input, derivative term 0 on the sample after it, Err/Err(e) after the error;
   assembly:   Err(FromNone) and the stale output after the absent input, derivative (3-4)/1s = -1 across the
               gap on the next sample (2 instead of 3), stale output after the error. *)
Definition hmR : list (out R) :=
  [OSome (mkDatum 0 1%R); ONone; OSome (mkDatum 1000000000 2%R); OErr (Other 7)].
Example differ_R_controller :
  pid_trace cT (pid_init 5%R kR) hmR
  = [Ok (UOk, OSome (mkDatum 0 4%R)); Ok (UOk, ONone);
     Ok (UOk, OSome (mkDatum 1000000000 3%R)); Ok (UErr (Other 7), OErr (Other 7))].
Proof. cbn; peel; field. Qed.
Example differ_R_assembly :
  spid_trace cT (spid_init cT 5%R 1%R 1%R 1%R) (map (inq cT) hmR)
  = [Ok (UOk, OSome (mkDatum 0 4%R)); Ok (UErr FromNone, OSome (mkDatum 0 4%R));
     Ok (UOk, OSome (mkDatum 1000000000 2%R)); Ok (UErr (Other 7), OSome (mkDatum 1000000000 2%R))].
Proof. cbn; peel; field. Qed.

(* DIFFERENCE 3 (panic): the derivative stream's stale sample makes the assembly panic (i64 overflow of
   max - min) on a history on which the controller does not *)
Definition hpR : list (out R) :=
  [OSome (mkDatum (-9223372036854775808) 1%R); ONone; OSome (mkDatum 9223372036854775807 2%R)].
Example differ_R_panic :
  pid_trace cT (pid_init 5%R kR) hpR
  = [Ok (UOk, OSome (mkDatum (-9223372036854775808) 4%R)); Ok (UOk, ONone);
     Ok (UOk, OSome (mkDatum 9223372036854775807 3%R))]
  /\ spid_trace cT (spid_init cT 5%R 1%R 1%R 1%R) (map (inq cT) hpR)
  = [Ok (UOk, OSome (mkDatum (-9223372036854775808) 4%R));
     Ok (UErr FromNone, OSome (mkDatum (-9223372036854775808) 4%R)); Panic].
Proof. split; cbn; peel; field. Qed.
(* both panic together on a present-only history (covered by the theorem; shown here for non-vacuity) *)
Example panic_together_R :
  pid_trace cT (pid_init 5%R kR) (map pres [(-9223372036854775808, 1%R); (9223372036854775807, 2%R)])
  = [Ok (UOk, OSome (mkDatum (-9223372036854775808) 4%R)); Panic]
  /\ spid_trace cT (spid_init cT 5%R 1%R 1%R 1%R)
       (map (presq cT) [(-9223372036854775808, 1%R); (9223372036854775807, 2%R)])
  = [Ok (UOk, OSome (mkDatum (-9223372036854775808) 4%R)); Panic].
Proof. split; cbn; peel; field. Qed.

(* ---- binary32 (bit patterns; computed from the executable model) ---- *)
Definition bits_out (o : out f32) : out Z :=
  match o with OErr e => OErr e | ONone => ONone | OSome d => OSome (mkDatum (d_time d) (b32_to_bits (d_val d))) end.
Definition bits_obs (r : res (upd * out f32)) : res (upd * out Z) :=
  match r with Panic => Panic | Ok (u, o) => Ok (u, bits_out o) end.
Definition z32 : Z -> f32 := b32_of_Z.
Definition k32 (a b d : Z) : @kvals f32 := {| kp := z32 a; ki := z32 b; kd := z32 d |}.

(* binary32 satisfies NumLaws (Proofs/B32Inst.v) but fails the extra law at x = -0 : (+0) + (-0) = +0 *)
Example B32_has_NumLaws : @NumLaws f32 B32.
Proof. exact B32_laws. Qed.
Example B32_fails_fadd_zero_l :
  b32_to_bits (fadd fzero (b32_neg (z32 0))) = 0 /\ b32_to_bits (b32_neg (z32 0)) = 2147483648.
Proof. split; vm_compute; reflexivity. Qed.
Example B32_not_fadd_zero_l : ~ (forall x : f32, fadd fzero x = x).
Proof. intros H. specialize (H (b32_neg (z32 0))). vm_compute in H. discriminate H. Qed.

(* and the difference is observable on a present-only history: setpoint -0, kd = -1, two samples +0 one
   second apart: the controller returns +0 (bits 0), the assembly -0 (bits 0x80000000); chk on or off *)
Definition hz32 : list (Z * f32) := [(0, z32 0); (1000000000, z32 0)].
Example B32_present_only_sign_of_zero :
  map bits_obs (pid_trace cT (pid_init (b32_neg (z32 0)) (k32 1 1 (-1))) (map pres hz32))
  = [Ok (UOk, OSome (mkDatum 0 0)); Ok (UOk, OSome (mkDatum 1000000000 0))]
  /\ map bits_obs (spid_trace cT (spid_init cT (b32_neg (z32 0)) (z32 1) (z32 1) (z32 (-1))) (map (presq cT) hz32))
  = [Ok (UOk, OSome (mkDatum 0 0)); Ok (UOk, OSome (mkDatum 1000000000 2147483648))]
  /\ map bits_obs (spid_trace cF (spid_init cF (b32_neg (z32 0)) (z32 1) (z32 1) (z32 (-1))) (map (presq cF) hz32))
  = [Ok (UOk, OSome (mkDatum 0 0)); Ok (UOk, OSome (mkDatum 1000000000 2147483648))].
Proof. repeat split; vm_compute; reflexivity. Qed.

(* the absent / error differences in binary32: 0x40800000 = 4.0, 0x40400000 = 3.0, 0x40000000 = 2.0 *)
Definition hm32 : list (out f32) :=
  [OSome (mkDatum 0 (z32 1)); ONone; OSome (mkDatum 1000000000 (z32 2)); OErr (Other 7)].
Example B32_differ_events :
  map bits_obs (pid_trace cT (pid_init (z32 5) (k32 1 1 1)) hm32)
  = [Ok (UOk, OSome (mkDatum 0 1082130432)); Ok (UOk, ONone);
     Ok (UOk, OSome (mkDatum 1000000000 1077936128)); Ok (UErr (Other 7), OErr (Other 7))]
  /\ map bits_obs (spid_trace cT (spid_init cT (z32 5) (z32 1) (z32 1) (z32 1)) (map (inq cT) hm32))
  = [Ok (UOk, OSome (mkDatum 0 1082130432)); Ok (UErr FromNone, OSome (mkDatum 0 1082130432));
     Ok (UOk, OSome (mkDatum 1000000000 1073741824));
     Ok (UErr (Other 7), OSome (mkDatum 1000000000 1073741824))].
Proof. split; vm_compute; reflexivity. Qed.
Definition hp32 : list (out f32) :=
  [OSome (mkDatum (-9223372036854775808) (z32 1)); ONone; OSome (mkDatum 9223372036854775807 (z32 2))].
Example B32_differ_panic :
  map bits_obs (pid_trace cT (pid_init (z32 5) (k32 1 1 1)) hp32)
  = [Ok (UOk, OSome (mkDatum (-9223372036854775808) 1082130432)); Ok (UOk, ONone);
     Ok (UOk, OSome (mkDatum 9223372036854775807 1077936128))]
  /\ map bits_obs (spid_trace cT (spid_init cT (z32 5) (z32 1) (z32 1) (z32 1)) (map (inq cT) hp32))
  = [Ok (UOk, OSome (mkDatum (-9223372036854775808) 1082130432));
     Ok (UErr FromNone, OSome (mkDatum (-9223372036854775808) 1082130432)); Panic].
Proof. split; vm_compute; reflexivity. Qed.

Print Assumptions asm_agrees_trace.
Print Assumptions asm_agrees_run.
Print Assumptions asm_is_gpid.
Print Assumptions gpid_present_synced.
Print Assumptions gpid_present_resyncs.
Print Assumptions C04_assembly_agrees_R.
Print Assumptions C04_assembly_sim_R.
Print Assumptions C04_assembly_all_events_R.
Print Assumptions agrees_R_nonvacuous.
Print Assumptions differ_R_controller.
Print Assumptions differ_R_assembly.
Print Assumptions differ_R_panic.
Print Assumptions panic_together_R.
Print Assumptions B32_not_fadd_zero_l.
Print Assumptions B32_present_only_sign_of_zero.
Print Assumptions B32_differ_events.
Print Assumptions B32_differ_panic.
